#!/usr/bin/env python3
"""Seeded-change bookkeeping.
  seeded.py import <src_dir> <id>      confirm a sub-agent's change in a scratch worktree and keep it as /verif/seeded/<id>/
  seeded.py run <id> [<prop>]          apply /verif/seeded/<id>/patch.diff to /repo, run ./check <prop>, undo, record the verdict
  seeded.py table                      print which checks catch which changes
"""
import json, os, shutil, subprocess, sys, time
ROOT = os.environ.get("SEED_ROOT", "/verif")
REPO = os.environ.get("SEED_REPO", "/repo")   # a scratch worktree when the batch must not disturb /repo
SEEDED = os.path.join(ROOT, "seeded")
ENV = dict(os.environ, GOFLAGS="-mod=mod", GOPROXY="off", GOSUMDB="off", GOTOOLCHAIN="local", VERIF_REPO=REPO)


def sh(cmd, cwd=None, timeout=3000):
    p = subprocess.run(cmd, cwd=cwd, env=ENV, shell=isinstance(cmd, str), stdout=subprocess.PIPE, stderr=subprocess.STDOUT, text=True, timeout=timeout)
    return p.returncode, p.stdout


def demo_dir(demo_path):
    head = open(demo_path).read(600)
    import re
    m = re.search(r"place in:?\s*(\S+)", head)
    if m:
        return m.group(1).strip("`.,")
    for cand in ("pkg/jsonline", "pkg/cast", "cmd/jl"):
        if cand in head:
            return cand
    return "pkg/jsonline"


def confirm(src):
    """apply in a scratch worktree: builds, suite passes, demo fails; without the patch the demo passes"""
    wt = "/tmp/seedcheck-%d" % os.getpid()
    sh(["git", "-C", "/repo", "worktree", "add", "-q", "--detach", wt, "HEAD"])
    res = {}
    try:
        demo = os.path.join(src, "demo_test.go")
        ddir = demo_dir(demo)
        dst = os.path.join(wt, ddir, "zz_seeded_demo_test.go")
        shutil.copy(demo, dst)
        rc, out = sh("go test -vet=off -count=1 -run 'Seeded|Demo|Test' ./%s/ 2>&1 | tail -5" % ddir, cwd=wt)
        rc0, out0 = sh("go test -vet=off -count=1 ./%s/" % ddir, cwd=wt)
        res["demo_passes_on_clean_tree"] = rc0 == 0
        os.remove(dst)
        rc, out = sh(["git", "apply", os.path.join(src, "patch.diff")], cwd=wt)
        res["patch_applies"] = rc == 0
        rc, out = sh("go build ./... && go test -vet=off -count=1 ./...", cwd=wt)
        res["builds_and_suite_passes"] = rc == 0
        shutil.copy(demo, dst)
        rc, out = sh("go test -vet=off -count=1 ./%s/" % ddir, cwd=wt)
        res["demo_fails_with_change"] = rc != 0
    finally:
        sh(["git", "-C", "/repo", "worktree", "remove", "--force", wt])
    return res


def cmd_import(src, sid):
    res = confirm(src)
    ok = all(res.values())
    print(sid, res, "KEPT" if ok else "REJECTED")
    if not ok:
        return 1
    dst = os.path.join(SEEDED, sid)
    os.makedirs(dst, exist_ok=True)
    for f in ("patch.diff", "demo_test.go"):
        shutil.copy(os.path.join(src, f), os.path.join(dst, f))
    meta = json.load(open(os.path.join(src, "meta.json")))
    meta["confirmed"] = res
    meta["confirmed_by"] = "tools/seeded.py import: scratch worktree of /repo HEAD; go build ./... && go test -vet=off -count=1 ./... pass with the change; demo test fails with it and passes without"
    meta.setdefault("checks", {})
    json.dump(meta, open(os.path.join(dst, "meta.json"), "w"), indent=1, ensure_ascii=False)
    return 0


def cmd_run(sid, prop=None):
    dst = os.path.join(SEEDED, sid)
    meta = json.load(open(os.path.join(dst, "meta.json")))
    prop = prop or meta["property"]
    rc, out = sh(["git", "-C", REPO, "status", "--porcelain"])
    if out.strip():
        print("refusing: %s has local changes" % REPO)
        return 2
    rc, out = sh(["git", "-C", REPO, "apply", os.path.join(dst, "patch.diff")])
    if rc != 0:
        print("patch does not apply", out)
        return 2
    try:
        t0 = time.time()
        rc, out = sh([os.path.join(ROOT, "check"), prop], cwd=ROOT)
        vio = [l for l in out.splitlines() if l.startswith("VIOLATION")]
        verdict = "missed"
        if vio:
            verdict = "caught (no-failing-input-found)" if "no-failing-input-found" in vio[0] else "caught with failing input"
        first = [l for l in out.splitlines() if "first failing input" in l or "no longer checks" in l][:2]
        meta.setdefault("checks", {})[prop] = {"verdict": verdict, "exit": rc, "wall_s": round(time.time() - t0), "detail": [f[:500] for f in first]}
        print(sid, prop, verdict, first[:1])
    finally:
        sh(["git", "-C", REPO, "checkout", "--", "."])
        sh(["git", "-C", REPO, "clean", "-fdq"])
    json.dump(meta, open(os.path.join(dst, "meta.json"), "w"), indent=1, ensure_ascii=False)
    return 0


def cmd_table():
    for sid in sorted(os.listdir(SEEDED)):
        mp = os.path.join(SEEDED, sid, "meta.json")
        if os.path.exists(mp):
            m = json.load(open(mp))
            for p, c in sorted(m.get("checks", {}).items()):
                print("| %s | %s | %s | %s |" % (sid, p, c["verdict"], m.get("summary", "")[:110]))


if __name__ == "__main__":
    a = sys.argv[1:]
    if a[0] == "import":
        sys.exit(cmd_import(a[1], a[2]))
    if a[0] == "run":
        sys.exit(cmd_run(a[1], a[2] if len(a) > 2 else None))
    if a[0] == "table":
        cmd_table()
