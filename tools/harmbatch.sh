#!/bin/bash
# usage: harmbatch.sh  — runs each harmless refactoring against the checks whose anchors it touches
export GOFLAGS=-mod=mod GOPROXY=off GOSUMDB=off GOTOOLCHAIN=local VERIF_REPO=/var/tmp/harm-wt
cd /var/tmp/vharm
declare -A PROPS=(
 [1]="C06 C17 C18" [2]="C01 C03 C06" [3]="C04 C10 C13" [4]="C03 C05 C15" [5]="C01 C08" [6]="C07 C08"
 [7]="C19" [8]="C19" [9]="C09 C10" [10]="C09 C10" [11]="C09 C11 C12" [12]="C12 C14 C04" [13]="C04 C13 C05" [14]="C04 C13"
)
for n in $(seq 1 14); do
  git -C /var/tmp/harm-wt reset -q --hard; git -C /var/tmp/harm-wt clean -fdq
  git -C /var/tmp/harm-wt apply /tmp/harmless-$n/patch.diff || { echo "harmless-$n: patch does not apply"; continue; }
  for p in ${PROPS[$n]}; do
    ./check $p --tier quick > /var/tmp/vharm/harm-$n-$p.log 2>&1; rc=$?
    echo "harmless-$n $p exit=$rc $(grep -E 'no longer checks|first failing' /var/tmp/vharm/harm-$n-$p.log | head -2 | cut -c1-260 | tr '\n' ' ')"
  done
done
git -C /var/tmp/harm-wt reset -q --hard
