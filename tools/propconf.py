"""Per-property configuration of the check driver."""

TB_COMMON = [
    "Coq 8.16.1 kernel and its vm_compute evaluator (no native_compute)",
    "translator (/verif/translator): Go AST of pkg/cast and the jsonline conversions -> Gallina, for the subset listed in DESIGN.md section 5",
    "Layer 0 executable specifications of the Go standard library (strconv integer parse/print, encoding/binary little endian, base64, time for two layouts, IEEE floats through Flocq), validated against the installed Go by the correspondence streams",
    "correspondence harness (/verif/harness) and the Go toolchain that builds it from /repo's working tree",
]

ZONES = ["UTC", "Asia/Kolkata", "America/St_Johns", "Europe/Paris", "America/New_York"]

PROPS = {
    "C09": {
        "streams": [{"name": "cast"}],
        "rule": "cast stream: (target, source) pairs; sources = every integer kind within +-2 of each power of two and type bound, floats +-2 ulp around the same plus NaN payload classes, +-0, subnormals, +-Inf, canonical and non-canonical decimal text, json.Number, random values; a case is distinct by (target, source value) and non-trivial when the source has a mathematical value",
        "trusted_base": TB_COMMON + ["oracle: Go's float->integer conversion outside the target range is an arbitrary function (no hypothesis)"],
        "assumptions": ["int and uint are 64-bit (checked by the translator for the build's GOARCH)"],
    },
    "C10": {
        "streams": [{"name": "cast"}],
        "rule": "cast stream focused on the universe of dynamic types: nil, the 19 supported types, named variants, typed nils, pointers, structs, maps, slices, byte arrays of length 0-16, funcs, channels; x 18 targets of cast.To, unknown targets, ToDate, ToTimestamp; distinct by (target, source)",
        "trusted_base": TB_COMMON + ["VOther stands for every dynamic type a Go type switch sends to default; VByteArr for arrays with element kind uint8 (hand model of the reflect fallback, digest-checked by the translator)"],
        "assumptions": [],
    },
    "C11": {
        "streams": [{"name": "cast"}, {"name": "template"}],
        "rule": "template stream's binary-column oracle (a binary column mapped to each of the 14 fixed-width type names, payloads of 0-17 bytes incl. every NaN / Inf / signalling-NaN / minus-zero pattern and ASCII look-alikes: accepted iff well sized, re-emitted byte for byte) ++ cast stream focused on binary forms: every fixed-width source -> []byte, and byte slices of length 0-17 (all-zero, all-ones, random, little-endian images of boundary values) -> every fixed-width target and bool; distinct by (target, source)",
        "trusted_base": TB_COMMON,
        "assumptions": ["int and uint are 64-bit (checked by the translator)"],
    },
    "C12": {
        "streams": [{"name": "cast"}],
        "rule": "cast stream focused on text/number rendering of every numeric source and the read-back of that text; distinct by (target, source)",
        "trusted_base": TB_COMMON + ["oracle hypotheses on strconv.FormatFloat/ParseFloat: H-float-rt (parse(format 'f' -1 bits x) = x for finite x), H-float-syn (the text is a plain decimal), tested on every float of every run"],
        "assumptions": [],
    },
    "C06": {
        "streams": [{"name": "rowops"}],
        "rule": "rowops stream: histories of 1-40 public Row operations (Set, SetAtIndex, SetValue incl. nil, SetValueAtIndex, ImportAtKey, ImportAtIndex, Import of slices and maps, ImportAtPath, UnmarshalJSON of valid / truncated / non-object text, CloneRow) over the key alphabet {\"\", a, ab, b, e-acute, a.b, c}, indexes -2..6, values of every supported type incl. Values, rows, slices, maps, structs, pointers; after every step the error class, the whole row (canonical) and 3-6 random readers are compared with the model; a history is distinct by its operation list",
        "trusted_base": TB_COMMON + ["hand model JL.model.Row of row.go/value.go (tied by this stream only)", "Go map iteration order of Import(map) is observed from the resulting key order and handed to the model"],
        "assumptions": ["no Value is shared between two rows or keys (sharing is the subject of C15)"],
    },
    "C17": {
        "streams": [{"name": "rowops"}, {"name": "json"}, {"name": "template"}],
        "rule": "template stream (typed input / output templates with sub-rows, lines against them, CreateRow on slices / maps / rows / texts, each call under recover(): the outcomes, Panic included, are compared with get_row / create_row / export_bytes of JL.model.Template inside coqc) ++ json stream (every line, well-formed or not — truncations, stray delimiters at every position, trailing content — through UnmarshalJSON, CreateRow(text), Importer.ReadOne / GetRow, Exporter.Export and the importer+exporter pipeline, each under recover()) ++ rowops stream with the hostile argument generator (absent / empty keys, indexes -2..6, paths of 0-4 segments incl. empty ones, nil Values, struct / pointer / NaN values, MapTo on non-pointers, nil and mismatching structs); every call runs under recover(); plus the resource oracle (failing leaf nested 1-24 deep, time and error size bounded) and nesting depth 100/1000 (10^4 in the thorough tier)",
        "trusted_base": TB_COMMON + ["hand model JL.model.Row of row.go/value.go (tied by this stream only)", "hand model JL.model.Template / TemplateJson of template.go, row.MarshalJSON, value.MarshalJSON, exporter.Export and importer.GetRow (tied by the template stream only)", "stack depth and resource use are properties of the Go runtime: checked on the implementation only"],
        "assumptions": [],
    },
    "C18": {
        "streams": [{"name": "rowops", "focus": "C18"}],
        "rule": "rowops stream plus the document oracle: random documents (objects nested to depth 5, arrays of objects, mixed arrays, nulls) loaded both by parsing their text and by the equivalent programmatic construction; every path of 1-3 segments over the alphabet {a, b, ab, c, \"\", e-acute, zz} and random 4-segment paths: GetAtPath and FindValuesAtPath on both rows against a reference key-by-key walk of the document; ImportAtPath then whole-document comparison",
        "trusted_base": TB_COMMON + ["hand model JL.model.Row of row.go/value.go (tied by this stream only)"],
        "assumptions": ["object member names unique within each object for the document oracle"],
    },
    "C14": {
        "streams": [{"name": "cast", "zones": ZONES, "zones_quick": ["Europe/Paris", "America/St_Johns"]},
                    {"name": "template", "zones": ["Europe/Paris", "America/New_York", "UTC"], "zones_quick": ["Europe/Paris"]}],
        "rule": "template stream's directed sweep under a DST zone (date-time texts with explicit offsets, incl. the hour repeated at the end of DST and year bounds, through date-time columns and string columns holding a time: same instant, same offset, fraction dropped) ++ cast stream focused on time: RFC 3339 strings with explicit offsets -23:59..+23:59, fractional seconds, leap days, year bounds; integer seconds; time.Time values in UTC, Local and fixed zones; run under several process time zones; distinct by (target, source, zone)",
        "trusted_base": TB_COMMON + ["oracle: time.Local offset function (H-zone: whole minutes, |offset| < 24h), supplied per case from the real time package under the run's TZ", "oracle: the lenient general parser of time.Parse for strings the strict RFC 3339 fast path rejects"],
        "assumptions": [],
    },
}

TB_STREAM = [
    "Coq 8.16.1 kernel and its vm_compute evaluator (no native_compute)",
    "hand model JL.model.Stream of importer.go / exporter.go / streamer.go (function for function, with the F2 `failed` flag), tied to the real code by the stream `stream` (every run of the real Stream() is replayed on the model inside coqc)",
    "executable specification JL.std.GoScanner of bufio.Scanner + ScanLines + Buffer(initial, max): chunk-free spec `scan` and operational chunked model `cscan` (related by theorem C07_chunking), both validated against the installed Go's bufio on every run",
    "reader model: data and error are never returned by the same Read call (n > 0 implies err == nil); the reader's non-EOF error is returned once k bytes were delivered",
    "get_row / export_row (CreateRowEmpty+UnmarshalJSON, CreateRow+MarshalJSON) are abstract parameters of the theorems; in the correspondence check they are the transcript of the real templates on each line alone",
    "a processor does not mutate the row it receives (model restriction)",
    "correspondence harness (/verif/harness) and the Go toolchain that builds it from /repo's working tree with -tags verif (hook NewImporterSized)",
]

PROPS.update({
    "C07": {
        "streams": [{"name": "stream"}],
        "rule": "stream stream: byte streams of 0-5 lines over 3 fixed (input template, output template) pairs (empty; typed n/s/d with int8 and timestamp outputs; binary/boolean), each line valid / blank / invalid JSON / non-object / template-rejected / padded to length C-3..C+2 of the buffer capacity C = max(initial, max), max in 8..64 and initial in 1..max+4 through NewImporterSized; LF / CRLF / CR-only / no final newline; per stream: 4 processors x random chunking readers (1 byte .. whole stream), reader fault at EVERY offset 0..len x 3 processors, writer fault (accepting 0 / some / all bytes) at EVERY write index x 4 processors, combined faults; plus lines of 64 KiB +-1 with the real NewImporter (thorough tier: 64 KiB, 1 MiB, 10 MiB -2..+1). A case is distinct by (templates, stream, fault offset, sizes, write faults, processor); all are non-trivial (the real Stream() is run).",
        "trusted_base": TB_STREAM,
        "assumptions": ["lines are judged against the same templates run on each line ALONE through a fresh importer/exporter (token + LF)"],
    },
    "C08": {
        "streams": [{"name": "stream"}],
        "rule": "same stream `stream` as C07: reader fault at every byte offset k in [0,len] (line boundaries and 0 included) of every generated stream, writer failing (short writes incl. 0 and all bytes accepted) at every write index, over-long lines (C-3..C+2) at every position, combined with default, tolerant (NoFailureProcessor), fail-on-error and fail-on-n-th-call processors; real 10 MiB limit in the thorough tier.",
        "trusted_base": TB_STREAM,
        "assumptions": ["the injected reader error is a distinct sentinel; bufio.ErrTooLong is recognised with errors.Is"],
    },
})

TB_JSON = [
    "Coq 8.16.1 kernel and its vm_compute evaluator (no native_compute)",
    "Layer 0 executable specification of encoding/json as jsonline uses it (coq/std/GoJson.v, GoJsonStrict.v, GoJsonMarshal.v: utf8.DecodeRune, string unquoting and escaping with HTML escaping, scanner number states, Decoder.Token state machine with UseNumber, json.Marshal of the parsed tree, the 10000 nesting limit of compact()), hand-written from go1.23.5 and validated against the installed Go on every run by stream json (tokens, clean-EOF flag, accept/reject, output bytes, json.Marshal of every string)",
    "hand model of row.UnmarshalJSON/parseobject/parsearray/handledelim over the token list (coq/std/GoJson.v part A.5), validated by the same stream",
    "reference grammar `spells` (coq/std/GoJson.v part B.1): RFC 8259 over well-formed strings, read by a human; its recogniser is proved equivalent (JsonRec.v) and compared with the harness's own Go recogniser on every line",
    "correspondence harness (/verif/harness: json_stream.go, json_gen.go, json_ref.go) and the Go toolchain that builds it from /repo's working tree",
]
JSON_RULE = "json stream: lines = documents generated from the RFC 8259 grammar (depth up to 64, every escape spelling, surrogate pairs, raw 1-4 byte UTF-8, number spellings -0 1E+2 0.10 30-digit 1e-400, insignificant whitespace, keys over all Unicode classes, duplicate names ~8%) and malformed lines (1-3 byte insert/delete/replace over the structural alphabet plus control and non-UTF-8 bytes, truncation at every offset of sample documents, trailing content, empty line, non-object values, literal prefixes, lone surrogates, bad escapes, separator errors, bracket mismatches, 10000 unclosed brackets) plus rows built through the API with hostile keys and unmarshalable values; a case is distinct by its bytes and non-trivial when it is not empty"

PROPS.update({
    "C16": {
        "streams": [{"name": "json"}],
        "rule": JSON_RULE,
        "trusted_base": TB_JSON,
        "assumptions": ["hypothesis no_substitution of parse_iff: lines on which encoding/json substitutes U+FFFD inside a string (ill-formed UTF-8, lone surrogate escapes) are outside the equivalence, as in the property text; completeness and the reject direction need no hypothesis"],
    },
    "C01": {
        "streams": [{"name": "json"}],
        "rule": JSON_RULE,
        "trusted_base": TB_JSON,
        "assumptions": ["strings are strings of bytes (0..255): hypothesis jv_bytes_ok / bytes_ok"],
    },
    "C02": {
        "streams": [{"name": "json"}],
        "rule": JSON_RULE,
        "trusted_base": TB_JSON,
        "assumptions": ["member values nested at most 10000 deep for the row.MarshalJSON form (encoding/json refuses to re-scan deeper Marshaler output); no bound for the reader"],
    },
})


TB_TEMPLATE = TB_COMMON + [
    "hand model JL.model.Row / JL.model.Template of row.go, value.go, template.go, exporter.Export and importer.GetRow (tied by the template and rowops streams only)",
    "text layer JL.std.GoJson (json.Decoder Token machine, string escaping) plugged under the template model; the transcripts of json.Marshal(string) and of the reader's traversal observed on the real code are compared with it on every case",
    "oracle: json.Marshal of float64/float32 (transcript per case); dynamic types outside the model are not generated in this stream",
]
TEMPLATE_RULE = "template stream: (input template, output template) pairs of 0-4 columns over 9 formats x 19 raw types (+none), sub-rows to depth 2, same column names on both sides in 60% of the cases (as jl builds them), one side empty or unrelated otherwise; per pair 3-6 input lines (declared keys in any order, missing and extra keys, numbers of every spelling and magnitude, look-alike strings: numeric, boolean, base64, dates, RFC 3339; nulls, arrays, objects; 3/14 of the lines not one object) read by Importer.ReadOne and written by Exporter.Export with a recording writer, plus 2 CreateRow inputs (slice, map, Row, JSON text as string / []byte, other); row state after import, emitted bytes and error classes compared with the model; plus the typed round-trip oracle over the 86 typed pairings of the lossless table; plus the directed single-column sweep (every output descriptor: 9 formats x 20 raw types, x five input templates x ~110 values incl. numbers beyond float64, fractional / exponent / 1e14 timestamps, one-digit / slash / dot dates, year-boundary instants, control characters, trailing line breaks, arrays and objects out of alphabetical order) through the C01 / C03 / C04 / C05 oracles; columns built through the generic builder and through the dedicated WithX / WithMappedX methods; a case is distinct by (templates, probes)"
PROPS.update({
    "C03": {"streams": [{"name": "template"}, {"name": "jl", "focus": "C03"}], "rule": TEMPLATE_RULE + " ++ the jl stream (the real command with row.yml / inline templates against the library streamer on the equivalent templates declared in the same order: jl must order, keep and drop columns alike)", "trusted_base": TB_TEMPLATE,
            "assumptions": ["order oracle judged for one column list shared by both templates (as jl builds them) or no input template"]},
    "C04": {"streams": [{"name": "template", "zones": ["UTC", "Pacific/Kiritimati", "Pacific/Pago_Pago", "America/St_Johns", "Europe/Paris"], "zones_quick": ["UTC", "Pacific/Kiritimati"]}],
            "rule": TEMPLATE_RULE + "; run under UTC and under zones far east / far west of it (a date-time is rendered in the process zone: the year that counts is the one written)", "trusted_base": TB_TEMPLATE, "assumptions": []},
    "C05": {"streams": [{"name": "template", "zones": ZONES, "zones_quick": ["UTC", "America/St_Johns"]}], "rule": TEMPLATE_RULE + "; run under several process time zones", "trusted_base": TB_TEMPLATE,
            "assumptions": ["strings holding ill-formed UTF-8 (written as \\ufffd escapes) are outside the domain"]},
    "C13": {"streams": [{"name": "template"}], "rule": TEMPLATE_RULE, "trusted_base": TB_TEMPLATE,
            "assumptions": ["times compared as instants at one-second resolution; strings valid UTF-8"]},
})

PROPS.update({
    "C15": {"streams": [{"name": "alias"}],
            "rule": "alias stream: histories of 4-17 operations over a world of several templates and rows of the real package: NewTemplate, With (every format x raw types incl. []byte), WithRow (sub-templates), CreateRowEmpty, CreateRow of slices / maps / JSON text / other, CreateRow of an existing row and Exporter.Export of it, UnmarshalJSON of a line (1/5 rejected part-way), Set, ImportAtKey, ImportAtPath with plain data; after every step every template (through CreateRowEmpty) and every live row is dumped and compared with the store model, and the direct oracle checks that nothing but the operation's target changed; plus whole Stream() runs over shared templates; a case is distinct by its operation list",
            "trusted_base": TB_TEMPLATE + ["hand model JL.model.Heap (object ids and a heap on top of the pure row / template model): which operations allocate a new Value object, which overwrite one in place and which only read is written by hand from row.go / template.go / value.go"],
            "assumptions": ["operations are given plain data: handing a Value or Row of one row to another (SetValue(k, other.GetValue(k2))) is explicit sharing, excluded and shown to interfere by Example C15_sharing_is_explicit",
                            "sharing below the top level of a row (nested rows inside Auto cells) is outside the model, as the property restricts clones to top-level modification"]},
})

# C01 is judged on every stream that writes lines: parsed rows (json), templated rows incl. leading hidden
# columns and long lines (template), and whole Stream() runs (stream)
PROPS["C01"]["streams"] = [{"name": "json"}, {"name": "template"}, {"name": "stream"}, {"name": "jl", "focus": "C01"}]
PROPS["C01"]["rule"] = PROPS["C01"]["rule"] + " ++ " + TEMPLATE_RULE + " ++ the stream stream of C07/C08 (every Write recorded separately) ++ the jl stream (the real command as a filter with stdin kept open: each line comes back whole before the next is sent)"

PROPS.update({
    "C19": {"streams": [{"name": "jl"}],
            "rule": "jl stream: the jl binary is built from /repo's working tree (go build ./cmd/jl) and run in a scratch directory; column lists of 1-4 columns (descriptors 'format', 'format(type)' over 9 formats x 19 type names, unknown names and malformed descriptors, input and output sides different in 2/3 of the columns, sub-rows to depth 2) rendered as row.yml and as the inline -t template; 1-5 input lines of C07's kinds; three runs per case (row.yml only; -t without file; -t with an unrelated row.yml present) compared with each other, with the library streamer on the equivalent templates, and — the file run and the inline run — with the model of cmd/jl; every sixth case also a malformed inline template and a malformed row.yml (exit status non-zero, empty stdout); a case is distinct by (columns, input)",
            "trusted_base": TB_TEMPLATE + ["hand model JL.model.Jl of cmd/jl/definition.go and of createTemplate / run in root.go; the regexp of parseDescriptor is a hand-written matcher; the two registries are copied by hand (tied by the jl stream: every format and type name occurs in generated descriptors)",
                                           "yaml.v3, cobra/viper flag handling, zerolog and the process exit path are not modelled: exercised on the real binary only"],
            "assumptions": ["equivalence of the file and inline forms is judged on descriptors without ':' (an inline value is split at its first ':')"]},
})

PROPS.update({
    "C20": {"streams": [{"name": "conc"}],
            "rule": "conc stream: per case one finished pair of templates (random columns over every format and raw type, always a binary([]byte) column on both sides and a sub-row on the output side) shared by G = 2..16 goroutines started together; each goroutine runs its own program 40 times (400 in the thorough tier): 2-4 lines through a private importer and exporter, CreateRowEmpty, CreateRow of JSON text as string and []byte, of a map, of a slice and of a row, MarshalJSON, and a private Streamer over its lines; the harness binary is built with -race and GORACE=halt_on_error=1; every iteration's results are compared with a sequential run of the same program made before the goroutines start, the prototypes are compared before and after, and the results observed in the concurrent run are evaluated against the template model; a case is distinct by (templates, programs, G)",
            "trusted_base": TB_TEMPLATE + ["Go's race detector (ThreadSanitizer runtime) and scheduler: absence of data races is evidenced on the schedules the runs expose, not proved", "hand model JL.model.Heap for the operation-level theorems"],
            "assumptions": ["no builder call runs concurrently with the goroutines (the property's premise)"]},
})

# C10 at row level ("the raw value of a column declared with raw type T is nil or a T after every successful
# import") is judged on the template stream as well
PROPS["C10"]["streams"] = [{"name": "cast"}, {"name": "template"}]
PROPS["C10"]["rule"] = PROPS["C10"]["rule"] + " ++ " + TEMPLATE_RULE
