#!/usr/bin/env python3
"""Writes /verif/MANIFEST.json from the table below (kept in one place so that the manifest stays valid)."""
import json, os
ROOT = os.path.dirname(os.path.dirname(os.path.abspath(__file__)))
AX = "Axioms under Print Assumptions (all declared by Coq's standard library, reached through Flocq definitions that occur inside the regenerated model): ClassicalDedekindReals.sig_forall_dec, ClassicalDedekindReals.sig_not_dec, FunctionalExtensionality.functional_extensionality_dep, Classical_Prop.classic."
TB1 = "Trusted: Coq 8.16.1 kernel + vm_compute; the Go->Gallina translator (cross-checked on every run by evaluating the regenerated model on the harness cases); Layer-0 specifications of the Go standard library functions involved (validated by the same cases); the Go harness and its direct oracles. "
CLAIMED = {
 "C09": {
  "technique": "Coq theorems (Flocq real-number bridge, lia) over the Gallina model regenerated from pkg/cast + differential run of the model against the real package + math/big oracle",
  "text": "Machine-checked proof that in the model of pkg/cast regenerated from the Go source on every run, every integer cast (10 targets) of every integer, bool, float64/float32 bit pattern and string/json.Number returns either an error or exactly the (truncated) source value, which fits the target; that integral values that fit succeed; and that the verdict is carrier-independent. Out-of-range float->int conversion is an arbitrary function, so the proof goes through only if the guards exclude NaN, infinities and every out-of-range value. The model is tied to the code by regeneration and by ~20k differential cases per run; a math/big oracle on the real package supplies failing inputs.",
  "note": TB1 + "int/uint are 64-bit (checked by the translator). " + AX},
 "C10": {
  "technique": "Coq theorems by exhaustive case analysis over the regenerated Gallina model of pkg/cast (value universe with VOther/VByteArr) + differential run on a ~40-type universe",
  "text": "Machine-checked proof that every cast function of the regenerated model (cast.To for every sample, ToDate, ToTimestamp, ToNumber), on every dynamic value — VOther standing for every unsupported dynamic type at once, VByteArr for byte arrays of any length — never panics, never exhausts the unrolling fuel, returns nil exactly for nil input and otherwise a value of exactly the requested kind, or an error whose sentinel wraps the root sentinel according to the table read from errors.go. Tied to the code by regeneration and ~7k differential cases per run over named types, typed nils, pointers, structs, maps, slices, funcs, channels, arrays. The row-level consequence (raw value of a typed column) is covered by the template model (see C13).",
  "note": TB1 + "The reflect fallback of ToBinary is a hand model guarded by an AST digest. " + AX},
 "C12": {
  "technique": "Coq theorems over the regenerated Gallina model of pkg/cast (decimal print/parse inverse proved on all of Z; JSON number grammar); floats under named strconv hypotheses + differential run and read-back oracle on the real package",
  "text": "Machine-checked proof that in the regenerated model every value of the ten integer types renders (ToString, ToNumber) as its canonical decimal, that this text satisfies encoding/json's number grammar and marshals, and that casting it back (as string and as json.Number) returns exactly the value; booleans likewise. PARTIAL for floats: shortest float formatting and parsing are strconv's and are oracles; the theorems prove that the regenerated code formats with verb 'f', precision -1 and the value's own bit size and parses at the same bit size, so that the hypotheses H_float_rt, H_float_syn, H_float_nonfinite (and the model-level premise H_f32_embed) give bit-exact read-back and non-marshalling of NaN/Inf. The hypotheses are tested against the installed strconv on every float of every run; a read-back oracle on the real package supplies failing inputs.",
  "note": TB1 + "Premises of the float theorems: H_float_rt, H_float_syn, H_float_nonfinite (about strconv), H_f32_embed (about the Layer-0 float32<->float64 conversions). " + AX},
 "C11": {
  "technique": "Coq theorems over the Gallina model regenerated from pkg/cast by the translator (little-endian bijection lemmas) + differential run of the model (vm_compute) against the real package",
  "text": "Machine-checked proof that the regenerated model of pkg/cast encodes every value of every fixed-width type as its little-endian image of the type's size, that decode-after-encode and encode-after-decode are identities for all values / all byte strings of that size, and that every other length is rejected with the sentinel; floats as raw bit patterns, bool as the normalising 1-byte case. Tied to the code by regeneration and ~10k differential cases per run.",
  "note": TB1 + AX},
}
TB2 = "Trusted: Coq 8.16.1 kernel + vm_compute; the hand model JL.model.Row of pkg/jsonline's row.go / value.go, tied to the code only by the correspondence check (every run: ~400 generated histories of public operations executed on the real package built from /repo's working tree, the model evaluated on the same histories inside coqc, every step's error class, row state and reader answers compared); the regenerated Layer-1 model of pkg/cast and of the jsonline conversions underneath it (translator); Layer-0 specifications of the Go standard library; the Go harness and its direct oracles. "
CLAIMED.update({
 "C06": {
  "technique": "Coq theorems (invariant by induction over operation histories + refinement to an association list) over a hand-written Gallina model of row.go, tied to the code by differential execution of generated histories; reference insertion-ordered map oracle on the real package",
  "text": "Machine-checked proof that in the row model every finite history of Set, SetAtIndex, SetValue, SetValueAtIndex, ImportAtKey, ImportAtIndex, Import (slices; maps in any iteration order), ImportAtPath, UnmarshalJSON and CloneRow, with arbitrary keys (all byte strings), indexes (all of Z), paths and values, successful or failing, keeps the invariant 'the key list has no duplicates and lists exactly the keys of the map'; that every mutator is a sequence of stores (replace in place or append) so that keys are never moved, duplicated or dropped; that the concrete row refines the abstract insertion-ordered association list; that lookups return the last stored value; that length, Has, iteration and in-range positional access follow the key list. Serialisation order is covered by C01/C03's writer theorems and by the harness oracle. The model is hand-written and tied to row.go by the rowops correspondence stream.",
  "note": TB2 + AX},
 "C17": {
  "technique": "Coq theorems (deep well-formedness invariant, induction on fuel and on histories, C10's cast totality) showing the Panic outcome of the hand-written row model unreachable + differential execution under recover() + resource/depth oracles on the real package",
  "text": "Machine-checked proof that in the row model — which returns Panic exactly where the Go code would panic (a panicking cast, a method call on a nil Value when a listed key is missing from the map, the b.([]byte)/str.(string) assertions of the binary conversions) — no mutator, no reader (Has, Get, GetAtIndex, GetValue, GetValueAtIndex, Len, Iter, GetAtPath, GetValueAtPath, FindValuesAtPath, the sixteen typed getters, Raw, Export) and no history of them from the empty row returns Panic, for every key, index in Z, path and value whose nested rows are themselves well formed; absent data come back as (nil,false) / zero values. PARTIAL: MapTo (reflect), String/DebugString, importer/exporter/streamer entry points are exercised on the implementation only (every call under recover()); stack depth at nesting 10^4 and the resource blow-up of nested marshal errors (O13) are runtime matters a Gallina model cannot exhibit and are checked by the harness's depth and resource oracles only.",
  "note": TB2 + AX},
 "C18": {
  "technique": "Coq theorems (induction over path segments) over the hand-written row model: path lookup = key-by-key navigation, import-at-path hit and frame lemmas + differential execution + built-vs-parsed document oracle on the real package",
  "text": "Machine-checked proof that in the row model GetValueAtPath(join \".\" keys) equals the reference key-by-key navigation for every row (built through the API or produced by the JSON reader), every non-empty list of segments without '.', empty segments included; that nested objects are reached identically through a row stored as a value and through an Auto value holding a row; that ImportAtPath replaces exactly the addressed value by the result of importing into it, leaves every diverging path untouched and reports a missing path without changing anything. PARTIAL: for FindValuesAtPath only the array-free case is a theorem; document order across arrays of objects is decided by the correspondence stream and by the harness's document oracle (reference walk over generated documents, built and parsed).",
  "note": TB2 + AX},
})
NOT_YET = "work in progress: the check for this property is not built yet (planned in DESIGN.md section 9)"

def main():
    props = [json.loads(l) for l in open(os.path.join(ROOT, "properties.jsonl"))]
    m = {"version": 1, "setup_cmd": "./setup.sh",
         "hooks": {"guard": "verif", "enable": "go build -tags verif (the harness is built with it from /repo's working tree)",
                   "baseline_off_cmd": "cd /repo && GOPROXY=off GOSUMDB=off GOTOOLCHAIN=local go test -json -vet=off -count=1 -timeout 25m ./...",
                   "source_commits": ["baf09cb"], "add_only": True},
         "engines": [
             {"name": "coq-proof", "path": "/verif/coq", "serves_properties": sorted(CLAIMED),
              "kind_free_text": "Coq 8.16.1 development: Layer 0 (Go stdlib specs), Layer 1 (regenerated from Go by /verif/translator on every run), hand models, proofs, property theorems"},
             {"name": "correspondence", "path": "/verif/harness", "serves_properties": sorted(CLAIMED),
              "kind_free_text": "Go harness running the real packages built from /repo's working tree; cases evaluated on the model by vm_compute inside coqc; direct property oracles for the failing-input search"}],
         "checks": [], "not_applicable": [],
         "notes": "See DESIGN.md. ./check <id> [--tier quick|thorough]; known findings and fixed defects in known-findings.json."}
    for p in props:
        i = p["id"]
        if i in CLAIMED:
            c = CLAIMED[i]
            m["checks"].append({"property_id": i, "quick_cmd": "./check %s --tier quick" % i, "thorough_cmd": "./check %s --tier thorough" % i,
                                "evidence_file": "/verif/evidence/%s.json" % i, "replay_cmd_template": "./check %s --replay {path}" % i,
                                "engine": "coq-proof",
                                "level_claimed": {"category": "proof", "text": c["text"], "design_ref": "DESIGN.md section 9, " + i},
                                "level_note": c["note"], "technique": c["technique"]})
        else:
            m["not_applicable"].append({"property_id": i, "reason": NOT_YET})
    json.dump(m, open(os.path.join(ROOT, "MANIFEST.json"), "w"), indent=1, ensure_ascii=False)

if __name__ == "__main__":
    main()
