#!/usr/bin/env python3
"""Debug helper: dbgcase.py <cases file> <case index> <expr using c> — evaluates a Gallina expression on one case of a generated case file."""
import sys, re, subprocess, os
f, idx, expr = sys.argv[1], int(sys.argv[2]), sys.argv[3]
s = open(f).read()
m = re.search(r"Definition cases : list (\w+) := \[\n", s)
ty = m.group(1)
head = s[:m.start()]
body = s[m.end():s.index("\n].\nDefinition M")]
ctor = {"rcase": "mkr", "tcase": "mktc", "cast_case": "mkc", "jcase": "mkjc", "hcase": "mkhc"}.get(ty, None)
parts = body.split(";\n" + ctor + " ")
c = parts[idx]
if not c.startswith(ctor):
    c = ctor + " " + c
out = head + "Definition c : %s := %s.\nEval vm_compute in (%s).\n" % (ty, c, expr)
p = "/verif/coq/cases/Dbg.v"
open(p, "w").write(out)
r = subprocess.run(["coqc", "-Q", "std", "JL.std", "-Q", "gen", "JL.gen", "-Q", "model", "JL.model", p], cwd="/verif/coq", capture_output=True, text=True)
print(r.stdout[-6000:], r.stderr[-3000:])
