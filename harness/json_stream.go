package main

// Stream `json`: the JSON layer of pkg/jsonline (row.UnmarshalJSON / MarshalJSON, importer,
// exporter, template.CreateRow) and of encoding/json as jsonline uses it (Decoder.Token with
// UseNumber, json.Marshal of strings), run on generated lines. Every line becomes a case
// `mkj line toks eof accept out rec strs` for JL.model.JsonRun; direct oracles for C16 (a line is
// accepted iff it is exactly one JSON object), C01 (what is written is one well-formed JSON
// object per line, in one Write) and C02 (import then export preserves the document).

import (
	"bytes"
	"encoding/json"
	"errors"
	"fmt"
	"io"
	"math"
	"os"
	"path/filepath"
	"strconv"
	"strings"
	"time"

	"github.com/cgi-fr/jsonline/pkg/jsonline"
)

type jsonLine struct {
	b     []byte
	class string
}

type jsonCtx struct {
	rep     *streamReport
	props   map[string]bool
	vcount  map[string]int
	samples *rng
	total   int
	idx     int
	off     int
}

func (c *jsonCtx) on(p string) bool { return len(c.props) == 0 || c.props[p] }

func (c *jsonCtx) check(name string) { c.rep.OracleChecks[name]++ }

func (c *jsonCtx) viol(prop, what string, line []byte, extra map[string]interface{}) {
	if prop != "C17" && strings.HasPrefix(what, "panic") && c.props["C17"] {
		c.viol("C17", what, line, extra) // a panic in a public entry point is C17's matter whatever oracle met it
	}
	if !c.on(prop) {
		return
	}
	k := prop + "|" + what
	c.vcount[k]++
	if c.vcount[k] > 40 {
		if c.vcount[k] == 41 {
			c.rep.Violations = append(c.rep.Violations, violation{Property: prop, What: what + " (further violations of this kind are not listed)",
				Input: map[string]interface{}{"stream": "json"}})
		}
		c.rep.Outcomes["violations-not-listed"]++
		return
	}
	in := map[string]interface{}{"stream": "json"}
	if line != nil {
		in["line"] = fmt.Sprintf("%q", line)
	}
	for k, v := range extra {
		in[k] = v
	}
	c.rep.Violations = append(c.rep.Violations, violation{Property: prop, What: what, Input: in})
}

func jsonShort(b []byte, n int) string {
	if len(b) > n {
		return fmt.Sprintf("%q…(%d bytes)", b[:n], len(b))
	}
	return fmt.Sprintf("%q", b)
}

// ---- what the real packages do on one line ----

// the Token loop of a fresh decoder (UseNumber)
func jsonTokenLoop(line []byte) (toks []json.Token, eof bool) {
	dec := json.NewDecoder(bytes.NewReader(line))
	dec.UseNumber()
	for len(toks) < 200000 {
		t, err := dec.Token()
		if err != nil {
			eof = err == io.EOF
			break
		}
		toks = append(toks, t)
	}
	return
}

func jsonTokGallina(t json.Token) string {
	switch x := t.(type) {
	case json.Delim:
		return fmt.Sprintf("(TDelim %d)", int(x))
	case string:
		return "(TStr " + gStr(x) + ")"
	case json.Number:
		return "(TNum " + gStr(string(x)) + ")"
	case float64: // cannot happen with UseNumber; printed so that a mismatch shows instead of a crash
		return "(TNum " + gStr(strconv.FormatFloat(x, 'g', -1, 64)) + ")"
	case bool:
		if x {
			return "(TBool true)"
		}
		return "(TBool false)"
	case nil:
		return "TNull"
	}
	return "TNull"
}

// jsonTokensUnique walks a complete, well-nested token list: every object has unique member names
func jsonTokensUnique(toks []json.Token) bool {
	type frame struct {
		obj     bool
		wantKey bool
		seen    map[string]bool
	}
	var st []frame
	valueDone := func() {
		if n := len(st); n > 0 && st[n-1].obj {
			st[n-1].wantKey = true
		}
	}
	for _, t := range toks {
		if n := len(st); n > 0 && st[n-1].obj && st[n-1].wantKey {
			if k, ok := t.(string); ok {
				if st[n-1].seen[k] {
					return false
				}
				st[n-1].seen[k] = true
				st[n-1].wantKey = false
				continue
			}
		}
		if d, ok := t.(json.Delim); ok {
			switch d {
			case '{':
				st = append(st, frame{obj: true, wantKey: true, seen: map[string]bool{}})
			case '[':
				st = append(st, frame{})
			default:
				if len(st) > 0 {
					st = st[:len(st)-1]
				}
				valueDone()
			}
			continue
		}
		valueDone()
	}
	return true
}

type jsonRun struct {
	row      jsonline.Row
	err      error
	panicked bool
	panicMsg string
}

func jsonUnmarshal(line []byte) (o jsonRun) {
	defer func() {
		if r := recover(); r != nil {
			o = jsonRun{panicked: true, panicMsg: fmt.Sprint(r)}
		}
	}()
	row := jsonline.NewRow()
	err := row.UnmarshalJSON(line)
	return jsonRun{row: row, err: err}
}

func jsonGuard(f func()) (panicMsg string) {
	defer func() {
		if r := recover(); r != nil {
			panicMsg = "panic: " + fmt.Sprint(r)
		}
	}()
	f()
	return ""
}

type recWriter struct {
	writes int
	data   []byte
	fail   bool
}

func (w *recWriter) Write(p []byte) (int, error) {
	w.writes++
	if w.fail {
		return 0, errors.New("write refused")
	}
	w.data = append(w.data, p...)
	return len(p), nil
}

func hasLowByte(b []byte) int {
	for i, c := range b {
		if c < 0x20 {
			return i
		}
	}
	return -1
}

// ---- one line ----

func (c *jsonCtx) line(l jsonLine) string {
	rep := c.rep
	line := l.b
	hasLF := bytes.IndexByte(line, '\n') >= 0

	// (i) tokens
	toks, eof := jsonTokenLoop(line)
	gtoks := make([]string, len(toks))
	var strs []string
	seenStr := map[string]bool{}
	for i, t := range toks {
		gtoks[i] = jsonTokGallina(t)
		if s, ok := t.(string); ok && !seenStr[s] && len(strs) < 40 {
			seenStr[s] = true
			strs = append(strs, s)
		}
	}

	// (ii) the row
	run := jsonUnmarshal(line)
	accept := !run.panicked && run.err == nil
	if run.panicked {
		rep.Outcomes["panic"]++
		c.viol("C16", "panic in UnmarshalJSON", line, map[string]interface{}{"panic": run.panicMsg})
	}
	outStr := ""
	outErr := false
	if accept {
		rep.Outcomes["accepted"]++
		if msg := jsonGuard(func() { outStr = run.row.String() }); msg != "" {
			outErr = true
			c.viol("C01", "panic in String() of an accepted row", line, map[string]interface{}{"panic": msg})
		}
		if strings.HasPrefix(outStr, "ERROR") {
			outErr = true
			rep.Outcomes["accepted-but-marshal-error"]++
		}
	} else if !run.panicked {
		rep.Outcomes["rejected"]++
	}

	// (iii) json.Marshal of the strings
	gstrs := make([]string, 0, len(strs))
	for _, s := range strs {
		m, err := json.Marshal(s)
		if err != nil {
			continue
		}
		gstrs = append(gstrs, "("+gStr(s)+", "+gStr(string(m))+")")
	}

	// the reference
	strictObj, strictVal := recognise(line, true)
	lenObj, _ := recognise(line, false)
	wellFormedStrings := strictObj == lenObj
	grec := "None"
	if wellFormedStrings {
		if strictObj {
			grec = "(Some true)"
		} else {
			grec = "(Some false)"
		}
	} else {
		rep.Outcomes["ill-formed-strings"]++
	}
	tree, treeOK := refVal{}, false
	if strictVal {
		tree, treeOK = refParse(line)
	}
	if treeOK != strictVal {
		c.viol("C16", "harness self-check failed: reference parser and strict recogniser disagree", line, nil)
	}
	unique := false
	if accept {
		if treeOK {
			unique = refUnique(tree)
			if unique != jsonTokensUnique(toks) {
				c.viol("C02", "member names decoded by the reference parser and by Decoder.Token do not collide alike", line, nil)
			}
		} else {
			unique = jsonTokensUnique(toks)
		}
		if !unique {
			rep.Outcomes["accepted-duplicate-names"]++
		}
	}
	gout := "None"
	if accept && unique && !outErr {
		gout = "(Some " + gStr(outStr) + ")"
	}
	geof, gacc := "false", "false"
	if eof {
		geof = "true"
	}
	if accept {
		gacc = "true"
	}
	term := fmt.Sprintf("mkj %s [%s] %s %s %s %s [%s]", gStr(string(line)), strings.Join(gtoks, ";"), geof, gacc, gout, grec, strings.Join(gstrs, "; "))

	// distribution
	rep.Distribution[l.class]++
	if strictObj {
		d := refDepth(tree)
		switch {
		case d >= 32:
			rep.Distribution["shape/valid-object/depth>=32"]++
		case d >= 8:
			rep.Distribution["shape/valid-object/depth>=8"]++
		case d >= 4:
			rep.Distribution["shape/valid-object/depth4-7"]++
		default:
			rep.Distribution["shape/valid-object/depth<=3"]++
		}
		if !refUnique(tree) {
			rep.Distribution["shape/valid-object/duplicate-names"]++
		}
		if hasLF {
			rep.Distribution["shape/valid-object/with-LF"]++
		}
	} else if strictVal {
		rep.Distribution["shape/valid-non-object"]++
	} else {
		rep.Distribution["shape/not-json"]++
	}
	switch {
	case len(line) >= 1024:
		rep.Distribution["length/>=1024"]++
	case len(line) >= 300:
		rep.Distribution["length/300-1023"]++
	default:
		rep.Distribution["length/<300"]++
	}
	if c.idx++; len(rep.Samples) < 10 && c.idx%(c.total/10+1) == c.off {
		rep.Samples = append(rep.Samples, fmt.Sprintf("%s %s => accept=%v eof=%v tokens=%d", l.class, jsonShort(line, 60), accept, eof, len(toks)))
	}

	// ---- direct oracles ----
	if c.on("C16") || c.props["C17"] {
		// (for C17 only the panics met on the way count: viol() routes them)
		c.oracleC16(line, hasLF, run, accept, wellFormedStrings, strictObj)
	}
	if accept && c.on("C01") {
		c.oracleC01Line(line, run.row)
	}
	if accept && treeOK && unique && c.on("C02") {
		c.oracleC02(line, hasLF, run.row, tree)
	}
	if !accept && !run.panicked && strictObj && wellFormedStrings && treeOK && c.on("C02") {
		// a valid object that is refused is not read and written back at all
		c.check("C02/a valid line is read")
		c.viol("C02", "a valid line is refused: it cannot be read and written back", line, map[string]interface{}{"error": fmt.Sprint(run.err)})
	}
	return term
}

func (c *jsonCtx) oracleC16(line []byte, hasLF bool, run jsonRun, accept bool, wellFormed bool, strictObj bool) {
	if run.panicked {
		return
	}
	if wellFormed {
		c.check("C16/UnmarshalJSON accepts iff the line is one JSON object")
		if accept && !strictObj {
			c.viol("C16", "accepted a line that is not exactly one JSON object", line, nil)
		}
		if !accept && strictObj {
			c.viol("C16", "rejected a valid JSON object", line, map[string]interface{}{"error": run.err.Error()})
		}
	}
	// the importer
	if !hasLF {
		c.check("C16/importer gives the verdict of UnmarshalJSON")
		var row jsonline.Row
		var err error
		more := false
		if msg := jsonGuard(func() {
			imp := jsonline.NewImporter(bytes.NewReader(append(append([]byte(nil), line...), '\n')))
			more = imp.Import()
			if more {
				row, err = imp.GetRow()
				// the end of the input, reached and asked again: every entry point still answers (no row, no panic)
				for k := 0; k < 2; k++ {
					if imp.Import() {
						break
					}
					_, _ = imp.GetRow()
					_, _ = imp.ReadOne()
				}
			}
		}); msg != "" {
			c.viol("C16", "panic in the importer", line, map[string]interface{}{"panic": msg})
		} else {
			switch {
			case !more:
				c.viol("C16", "Import() reports no line although one was supplied", line, nil)
			case accept && (err != nil || row == nil):
				c.viol("C16", "importer rejects a line that UnmarshalJSON accepts", line, map[string]interface{}{"error": fmt.Sprint(err)})
			case !accept && err == nil:
				c.viol("C16", "importer accepts a line that UnmarshalJSON rejects", line, nil)
			case !accept && row != nil:
				c.viol("C16", "importer returns a row together with an error", line, nil)
			}
		}
	}
	// the template
	for i := 0; i < 2; i++ {
		c.check("C16/CreateRow gives the verdict of UnmarshalJSON")
		var row jsonline.Row
		var err error
		how := "CreateRow(string)"
		msg := jsonGuard(func() {
			if i == 0 {
				row, err = jsonline.NewTemplate().CreateRow(string(line))
			} else {
				how = "CreateRow([]byte)"
				row, err = jsonline.NewTemplate().CreateRow(append([]byte(nil), line...))
			}
		})
		switch {
		case msg != "":
			c.viol("C16", "panic in "+how, line, map[string]interface{}{"panic": msg})
		case accept && (err != nil || row == nil):
			c.viol("C16", how+" rejects a line that UnmarshalJSON accepts", line, map[string]interface{}{"error": fmt.Sprint(err)})
		case !accept && err == nil:
			c.viol("C16", how+" accepts a line that UnmarshalJSON rejects", line, nil)
		case !accept && row != nil:
			c.viol("C16", how+" returns a row together with an error", line, nil)
		}
	}
}

// jsonCheckOutput: what one exported line must look like
func (c *jsonCtx) jsonCheckOutput(out []byte, line []byte, extra map[string]interface{}) {
	c.check("C01/output is one well-formed JSON object without control bytes")
	if obj, _ := recognise(out, true); !obj {
		c.viol("C01", "output is not a valid JSON object", line, withOut(extra, out))
	}
	if i := hasLowByte(out); i >= 0 {
		what := "raw control byte in output"
		if out[i] == '\n' {
			what = "line feed inside an output line"
		}
		c.viol("C01", what, line, withOut(extra, out))
	}
}

func withOut(extra map[string]interface{}, out []byte) map[string]interface{} {
	m := map[string]interface{}{"output": fmt.Sprintf("%q", out)}
	for k, v := range extra {
		m[k] = v
	}
	return m
}

// jsonCheckExport: Export(row) writes exactly want+"\n" in one Write, or fails having written nothing
func (c *jsonCtx) jsonCheckExport(row jsonline.Row, want []byte, wantErr bool, compare bool, line []byte, extra map[string]interface{}) {
	c.check("C01/Export writes the line in exactly one Write, or nothing")
	w := &recWriter{}
	var err error
	if msg := jsonGuard(func() { err = jsonline.NewExporter(w).Export(row) }); msg != "" {
		c.viol("C01", "panic in Export", line, withOut(extra, []byte(msg)))
		return
	}
	switch {
	case err != nil && w.writes > 0:
		c.viol("C01", "bytes written although Export returned an error", line, withOut(extra, w.data))
	case err == nil && w.writes == 0:
		c.viol("C01", "Export returned nil without writing", line, extra)
	case err == nil && w.writes > 1:
		c.viol("C01", "more than one Write for one row", line, withOut(extra, w.data))
	case err == nil:
		if len(w.data) == 0 || w.data[len(w.data)-1] != '\n' {
			c.viol("C01", "exported line does not end with a line feed", line, withOut(extra, w.data))
		} else {
			body := w.data[:len(w.data)-1]
			if compare && !wantErr && !bytes.Equal(body, want) {
				c.viol("C01", "Export wrote other bytes than MarshalJSON returns", line, withOut(extra, w.data))
			}
			if !compare || wantErr {
				c.jsonCheckOutput(body, line, extra)
			}
		}
	}
	if compare && (err != nil) != wantErr {
		c.viol("C01", "Export and MarshalJSON disagree on failure", line, extra)
	}
	// a writer that always fails
	c.check("C01/Export reports the failure of the writer")
	fw := &recWriter{fail: true}
	var ferr error
	if msg := jsonGuard(func() { ferr = jsonline.NewExporter(fw).Export(row) }); msg != "" {
		c.viol("C01", "panic in Export", line, withOut(extra, []byte(msg)))
	} else if ferr == nil {
		c.viol("C01", "Export returned nil although the writer failed", line, extra)
	} else if fw.writes > 1 {
		c.viol("C01", "more than one Write for one row", line, extra)
	}
}

func (c *jsonCtx) oracleC01Line(line []byte, row jsonline.Row) {
	var out []byte
	var err error
	if msg := jsonGuard(func() { out, err = row.MarshalJSON() }); msg != "" {
		c.viol("C01", "panic in MarshalJSON of an accepted row", line, map[string]interface{}{"panic": msg})
		return
	}
	if err == nil {
		c.jsonCheckOutput(out, line, nil)
	} else {
		c.check("C01/MarshalJSON of an accepted row fails")
	}
	c.jsonCheckExport(row, out, err != nil, true, line, nil)
}

func (c *jsonCtx) oracleC02(line []byte, hasLF bool, row jsonline.Row, tree refVal) {
	out, err := row.MarshalJSON()
	if err != nil {
		// nothing is written for this row (C01 checks that): a valid line is lost
		c.check("C02/an accepted valid line can be exported")
		c.viol("C02", "accepted line cannot be exported again (MarshalJSON fails)", line, map[string]interface{}{"error": err.Error()})
		return
	}
	c.check("C02/an accepted valid line can be exported")
	c.check("C02/output tree equals input tree")
	otree, ok := refParse(out)
	if !ok || !refEqual(tree, otree) {
		c.viol("C02", "output tree differs from input tree", line, withOut(nil, out))
	}
	c.check("C02/output is a fixed point")
	r2 := jsonUnmarshal(out)
	if r2.panicked || r2.err != nil {
		c.viol("C02", "output is not a fixed point", line, withOut(map[string]interface{}{"error": fmt.Sprint(r2.err, r2.panicMsg)}, out))
	} else if s := r2.row.String(); s != string(out) {
		c.viol("C02", "output is not a fixed point", line, withOut(map[string]interface{}{"second": fmt.Sprintf("%q", s)}, out))
	}
	if hasLF {
		return
	}
	c.check("C02/importer then exporter preserves the document")
	w := &recWriter{}
	var ierr, eerr error
	msg := jsonGuard(func() {
		imp := jsonline.NewImporter(bytes.NewReader(append(append([]byte(nil), line...), '\n')))
		if !imp.Import() {
			ierr = errors.New("Import() = false")
			return
		}
		var r jsonline.Row
		r, ierr = imp.GetRow()
		if ierr != nil {
			return
		}
		eerr = jsonline.NewExporter(w).Export(r)
	})
	switch {
	case msg != "":
		c.viol("C02", "panic in the importer/exporter pipeline", line, map[string]interface{}{"panic": msg})
	case ierr != nil || eerr != nil:
		c.viol("C02", "importer/exporter pipeline fails on a valid line", line, map[string]interface{}{"error": fmt.Sprint(ierr, eerr)})
	default:
		ptree, ok := refParse(bytes.TrimSuffix(w.data, []byte("\n")))
		if !ok || !refEqual(tree, ptree) {
			c.viol("C02", "pipeline output tree differs from input tree", line, withOut(nil, w.data))
		}
		if !bytes.Equal(w.data, append(append([]byte(nil), out...), '\n')) {
			c.viol("C02", "pipeline output differs from MarshalJSON of the imported row", line, withOut(nil, w.data))
		}
	}
}

// ---- rows built through the API ----

const jsonNasty = "\"\\/<>&'\x7f\n\r\t"

func jsonHostileString(r *rng) string {
	n := 0
	switch x := r.intn(10); {
	case x == 0:
		n = 0
	case x < 7:
		n = 1 + r.intn(3)
	default:
		n = 1 + r.intn(10)
	}
	var b []byte
	for i := 0; i < n; i++ {
		switch x := r.intn(100); {
		case x < 25:
			b = append(b, jgPlain[r.intn(len(jgPlain))])
		case x < 40:
			b = append(b, byte(r.intn(256)))
		case x < 50:
			b = append(b, byte(r.intn(0x20)))
		case x < 60:
			b = append(b, jsonNasty[r.intn(len(jsonNasty))])
		case x < 72:
			b = append(b, jgBadSeqs[r.intn(len(jgBadSeqs))]...)
		case x < 85:
			b = refAppendRune(b, jgSpecialCPs[r.intn(len(jgSpecialCPs))])
		case x < 92:
			b = append(b, "\xE2\x80\xA8\xE2\x80\xA9"[3*r.intn(2):][:3]...)
		default:
			b = refAppendRune(b, 0x10000+r.intn(0x100000))
		}
	}
	return string(b)
}

var jsonAPINumbers = []string{"1e", "", "01", "-0", "12", "1.5e3", "abc", "1 ", " 1", "\"x\"", "1\n", "{}", "-", "0x10", "1e400", "+1", ".5", "1.", "NaN", "123456789012345678901234567890", "1,2", "1}"}

var jsonAPIFloats = []float64{0, math.Copysign(0, -1), 1, -1.5, 1e21, 1e20, 1e-7, 1e-6, math.MaxFloat64, math.SmallestNonzeroFloat64, 0.1, 123456789.125,
	math.NaN(), math.Inf(1), math.Inf(-1)}

// jsonAPIValue: a value of the kinds a caller may store; direct = it contains a Row stored as a Value itself
func jsonAPIValue(r *rng, depth int) (v interface{}, kind string) {
	switch x := r.intn(100); {
	case x < 18:
		return jsonHostileString(r), "string"
	case x < 26:
		switch r.intn(6) {
		case 0:
			return int(r.next()), "int"
		case 1:
			return int64(r.next()), "int"
		case 2:
			return uint64(r.next()), "int"
		case 3:
			return int8(r.next()), "int"
		case 4:
			return uint8(r.next()), "int"
		default:
			return r.intn(1000) - 500, "int"
		}
	case x < 40:
		f := jsonAPIFloats[r.intn(len(jsonAPIFloats))]
		if r.intn(4) == 0 {
			f = math.Float64frombits(r.next())
		}
		if r.intn(5) == 0 {
			return float32(f), "float"
		}
		return f, "float"
	case x < 52:
		return json.Number(jsonAPINumbers[r.intn(len(jsonAPINumbers))]), "json.Number"
	case x < 57:
		return nil, "nil"
	case x < 62:
		return r.bool(), "bool"
	case x < 68:
		switch r.intn(3) {
		case 0:
			return []byte(nil), "[]byte"
		case 1:
			return []byte{}, "[]byte"
		default:
			return []byte(jsonHostileString(r)), "[]byte"
		}
	case x < 75:
		switch r.intn(5) {
		case 0:
			return time.Date(10000, 1, 1, 0, 0, 0, 0, time.UTC), "time"
		case 1:
			return time.Date(-1, 1, 1, 0, 0, 0, 0, time.UTC), "time"
		case 2:
			return time.Time{}, "time"
		case 3:
			return time.Unix(int64(r.intn(2000000000)), int64(r.intn(1000000000))).In(time.FixedZone("", (r.intn(57600)-28800)/60*60)), "time"
		default:
			return time.Unix(int64(r.intn(2000000000)), 0).UTC(), "time"
		}
	}
	if depth <= 0 {
		return jsonHostileString(r), "string"
	}
	switch r.intn(4) {
	case 0:
		row, _, _ := jsonAPIRow(r, depth-1)
		return row, "row"
	case 1:
		n := r.intn(4)
		l := make([]interface{}, n)
		for i := range l {
			if r.intn(3) == 0 {
				l[i], _, _ = jsonAPIRow(r, depth-1)
			} else {
				l[i], _ = jsonAPIValue(r, depth-1)
			}
		}
		return l, "[]interface{}"
	case 2:
		n := r.intn(3)
		m := map[string]interface{}{}
		for i := 0; i < n; i++ {
			m[jsonHostileString(r)], _ = jsonAPIValue(r, depth-1)
		}
		return m, "map"
	default:
		row, _, _ := jsonAPIRow(r, depth-1)
		return jsonline.NewValueAuto(row), "value(row)"
	}
}

// jsonAPIRow builds a row through the API; direct = some nested Row is stored as a Value itself
// (Export re-creates the row from Raw(), which turns such a row into a map: its output may then
// differ from MarshalJSON's in member order, so the byte comparison is skipped for those)
func jsonAPIRow(r *rng, depth int) (row jsonline.Row, desc []string, typed bool) {
	row = jsonline.NewRow()
	n := r.intn(5)
	if r.intn(8) == 0 {
		n = 5 + r.intn(6)
	}
	for i := 0; i < n; i++ {
		key := jsonHostileString(r)
		v, kind := jsonAPIValue(r, depth)
		how := r.intn(10)
		switch {
		case how < 5:
			row.Set(key, v)
			desc = append(desc, fmt.Sprintf("Set(%q, %s)", key, kind))
		case how < 9:
			if vv, ok := v.(jsonline.Value); ok {
				row.SetValue(key, vv)
			} else {
				row.SetValue(key, jsonline.NewValueAuto(v))
			}
			desc = append(desc, fmt.Sprintf("SetValue(%q, auto %s)", key, kind))
		default:
			f := []jsonline.Format{jsonline.String, jsonline.Numeric, jsonline.Boolean, jsonline.Binary, jsonline.DateTime, jsonline.Timestamp, jsonline.Hidden}[r.intn(7)]
			if _, isRow := v.(jsonline.Row); isRow {
				row.SetValue(key, jsonline.NewValueAuto(v))
			} else {
				row.SetValue(key, jsonline.NewValue(v, f, nil))
			}
			desc = append(desc, fmt.Sprintf("SetValue(%q, format %d %s)", key, f, kind))
			typed = true
		}
	}
	return row, desc, typed
}

// jsonHasDirectRow: some member of the row is a Row stored as a Value itself (not wrapped in a value)
func jsonHasDirectRow(row jsonline.Row) bool {
	it := row.IterValues()
	for _, v, ok := it(); ok; _, v, ok = it() {
		if _, isRow := v.(jsonline.Row); isRow {
			return true
		}
	}
	return false
}

func (c *jsonCtx) apiRows(r *rng, n int) {
	rep := c.rep
	for i := 0; i < n; i++ {
		var row jsonline.Row
		var desc []string
		typed := false
		if msg := jsonGuard(func() { row, desc, typed = jsonAPIRow(r, 3) }); msg != "" {
			c.viol("C01", "panic while building a row through the API", nil, map[string]interface{}{"panic": msg})
			continue
		}
		rep.Cases++
		rep.Distribution["api-row"]++
		extra := map[string]interface{}{"api": strings.Join(desc, "; ")}
		if !c.on("C01") {
			continue
		}
		var out []byte
		var err error
		if msg := jsonGuard(func() { out, err = row.MarshalJSON() }); msg != "" {
			rep.Outcomes["api/panic"]++
			c.viol("C01", "panic in MarshalJSON", nil, withOut(extra, []byte(msg)))
			continue
		}
		direct := jsonHasDirectRow(row)
		if err != nil {
			rep.Outcomes["api/marshal-error"]++
			c.check("C01/MarshalJSON fails on a row holding an unrepresentable value")
		} else {
			rep.Outcomes["api/marshal-ok"]++
			c.jsonCheckOutput(out, nil, extra)
		}
		if direct {
			rep.Outcomes["api/row stored as a Value itself"]++
		}
		if typed {
			rep.Outcomes["api/top-level value with a format other than Auto"]++
		}
		// Export re-creates the row from its template (CreateRow): the formats of the given row's own
		// values (Hidden included) are not kept, and a Row stored as a Value itself becomes a map; the
		// bytes are compared with MarshalJSON's only when neither applies
		c.jsonCheckExport(row, out, err != nil, !direct && !typed, nil, extra)
		if err == nil && c.on("C02") {
			// what was written can be read back and is written again identically
			// (a string that was not UTF-8 is written with \ufffd escapes, read back as U+FFFD and then
			// written raw: the bytes settle one round later, the tree must not move)
			if tree, ok := refParse(out); ok && refUnique(tree) {
				c.check("C02/api output is read back as the same tree and settles")
				r2 := jsonUnmarshal(out)
				if r2.panicked || r2.err != nil {
					c.viol("C02", "output of an API row is rejected on import", nil, withOut(extra, out))
				} else {
					s2 := r2.row.String()
					t2, ok2 := refParse([]byte(s2))
					if !ok2 || !refEqual(tree, t2) {
						c.viol("C02", "output of an API row changes when imported and exported again", nil, withOut(map[string]interface{}{"api": extra["api"], "second": fmt.Sprintf("%q", s2)}, out))
					}
					r3 := jsonUnmarshal([]byte(s2))
					if r3.panicked || r3.err != nil || r3.row.String() != s2 {
						c.viol("C02", "output of an API row is not a fixed point after one round", nil, withOut(map[string]interface{}{"api": extra["api"], "second": fmt.Sprintf("%q", s2)}, out))
					}
				}
			}
		}
		if len(rep.Samples) < 12 && c.samples.intn(n/2+1) == 0 {
			s := fmt.Sprintf("api-row %s => %s err=%v", strings.Join(desc, "; "), jsonShort(out, 60), err)
			if len(s) > 190 {
				s = s[:190]
			}
			rep.Samples = append(rep.Samples, s)
		}
	}
}

// ---- the schedule of lines ----

func jsonLines(r *rng, n int, thorough bool) []jsonLine {
	var ls []jsonLine
	add := func(b []byte, class string) { ls = append(ls, jsonLine{b, class}) }

	nValid := n * 45 / 100
	for i := 0; i < nValid; i++ {
		o := jgRandomOpts(r)
		if i < 3 {
			o.depth = 64 - i // the tail of the depth distribution is always present
			o.wide, o.longStr = false, false
		}
		class := "valid/depth<=3"
		switch {
		case o.longStr:
			class = "valid/long-string"
		case o.wide:
			class = "valid/wide"
		case o.depth >= 32:
			class = "valid/depth>=32"
		case o.depth >= 8:
			class = "valid/depth>=8"
		case o.depth >= 4:
			class = "valid/depth4-7"
		}
		if o.lf {
			class += "+LF"
		}
		if o.dup {
			class += "+dup"
		}
		add(jgValidDoc(r, o), class)
	}

	for _, h := range jgHandwritten {
		add([]byte(h), "handwritten-malformed")
	}
	add(jgDeepUnclosed(10000), "deep-unclosed-10000")
	if thorough {
		// 10000 arrays inside the object: the deepest document that can still be exported (one level more
		// and json.Marshal rejects what value.MarshalJSON returns: "exceeded max depth")
		add([]byte(`{"a":`+strings.Repeat("[", 10000)+strings.Repeat("]", 10000)+`}`), "valid/deep-closed-10000")
	}
	for _, d := range jgRichDocs {
		for i := 0; i < len(d); i++ {
			add([]byte(d[:i]), "truncated/exhaustive")
		}
		add([]byte(d), "valid/rich")
	}
	// numbers beyond float64 are valid JSON and are carried as they are
	add([]byte(`{"a":1e400,"b":-2.5E+1000,"c":[1e-400,123456789012345678901234567890.5]}`), "valid/numbers beyond float64")
	// an escaped backslash followed by the letters of an HTML escape: text, not an escape
	add([]byte(`{"a":"\\u003c","\\u0026k":["x\\u003e\\",{"b\\\\u003c":"\\\\u0026"}]}`), "valid/literal backslash-u")
	// valid shallow lines with very many containers (a count of open containers must go down again when one closes)
	add([]byte(`{"a":[`+strings.TrimSuffix(strings.Repeat(`[1,2],`, 12000), ",")+`]}`), "valid/12000 arrays")
	add([]byte(`{"a":[`+strings.TrimSuffix(strings.Repeat(`{"x":[]},`, 6000), ",")+`],"b":{}}`), "valid/12000 containers")
	rest := n - len(ls)
	if rest < 200 {
		rest = 200
	}
	nTrail, nTrunc, nNonObj := rest*10/100, rest*15/100, rest*4/100
	nMut := rest - nTrail - nTrunc - nNonObj
	for i := 0; i < nTrail; i++ {
		d := jgSmallDoc(r)
		add(append(d, jgTrailers[r.intn(len(jgTrailers))]...), "trailing")
		if i%4 == 0 {
			// the same trailer far behind the object: beyond what a decoder has buffered when it meets the closing brace
			// (encoding/json reads 512 bytes, then doubles)
			pad := strings.Repeat([]string{" ", "\t", " \r"}[r.intn(3)], []int{505, 512, 600, 1100, 5000}[r.intn(5)])
			add(append(append(append([]byte(nil), d...), pad...), jgTrailers[r.intn(len(jgTrailers))]...), "trailing/far")
		}
	}
	for i := 0; i < nTrunc; i++ {
		d := jgSmallDoc(r)
		if len(d) > 1 {
			if r.bool() {
				d = d[:1+r.intn(len(d)-1)]
			} else { // cut near the end: the closing brackets
				k := 1 + r.intn(4)
				if k >= len(d) {
					k = 1
				}
				d = d[:len(d)-k]
			}
		}
		add(d, "truncated")
	}
	for i := 0; i < nNonObj; i++ {
		g := &jgen{r: r, wsLevel: r.intn(3), budget: 10}
		var sb strings.Builder
		sb.WriteString(g.ws())
		if r.bool() {
			g.array(&sb, 1+r.intn(3), true)
		} else {
			sb.WriteString(g.scalar())
		}
		sb.WriteString(g.ws())
		add([]byte(sb.String()), "non-object-value")
	}
	for i := 0; i < nMut; i++ {
		k := 1
		switch x := r.intn(10); {
		case x >= 8:
			k = 3
		case x >= 5:
			k = 2
		}
		add(jgMutate(r, jgSmallDoc(r), k), fmt.Sprintf("mutated/%d", k))
	}
	return ls
}

func writeJSONCaseFiles(outDir string, terms []string, per int) []string {
	os.MkdirAll(outDir, 0o755)
	old, _ := filepath.Glob(filepath.Join(outDir, "JsonCases_*.v"))
	for _, f := range old {
		base := strings.TrimSuffix(f, ".v")
		os.Remove(f)
		for _, ext := range []string{".vo", ".vok", ".vos", ".glob"} {
			os.Remove(base + ext)
		}
		os.Remove(filepath.Join(filepath.Dir(f), "."+filepath.Base(base)+".aux"))
	}
	var files []string
	for i, k := 0, 0; i < len(terms); i, k = i+per, k+1 {
		j := i + per
		if j > len(terms) {
			j = len(terms)
		}
		var b strings.Builder
		b.WriteString("From Coq Require Import ZArith List.\nFrom JL.std Require Import GoBase GoJson.\nRequire Import JL.model.JsonRun.\nImport ListNotations.\nOpen Scope Z_scope.\n")
		fmt.Fprintf(&b, "Definition cases := [\n%s\n].\n", strings.Join(terms[i:j], ";\n"))
		fmt.Fprintf(&b, "Definition M := Eval vm_compute in json_mismatches %d cases.\nPrint M.\n", i)
		name := filepath.Join(outDir, fmt.Sprintf("JsonCases_%d.v", k))
		os.WriteFile(name, []byte(b.String()), 0o644)
		files = append(files, name)
	}
	return files
}

func jsonStream(seed uint64, tier string, outDir string, props map[string]bool, focus string) *streamReport {
	_ = focus
	r := newRng(seed, "json")
	n, nAPI := 2500, 300
	if tier == "thorough" {
		n, nAPI = 40000, 3000
	}
	rep := &streamReport{Stream: "json", Seed: seed, Distribution: map[string]int{}, Outcomes: map[string]int{}, OracleChecks: map[string]int{}}
	lines := jsonLines(r, n, tier == "thorough")
	c := &jsonCtx{rep: rep, props: props, vcount: map[string]int{}, samples: newRng(seed, "json/samples"), total: len(lines)}
	c.off = c.samples.intn(c.total/10 + 1)
	seen := map[string]bool{}
	terms := make([]string, 0, len(lines))
	for _, l := range lines {
		rep.Cases++
		if !seen[string(l.b)] {
			seen[string(l.b)] = true
			rep.Distinct++
		}
		if t := c.line(l); len(l.b) <= 16*1024 {
			terms = append(terms, t)
		} else {
			rep.Distribution["direct oracles only (line too large to be shipped to coqc)"]++
		}
	}
	c.apiRows(newRng(seed, "json/api"), nAPI)
	if len(rep.Samples) == 0 && len(lines) > 0 {
		rep.Samples = append(rep.Samples, jsonShort(lines[0].b, 100))
	}
	rep.CaseFiles = writeJSONCaseFiles(outDir, terms, 150)
	return rep
}
