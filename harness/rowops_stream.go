package main

// Stream "rowops": histories of public Row operations on the real package, dumped step by step
// (error class, canonical state, answers of a battery of readers) for the row model to be
// evaluated on inside coqc, plus direct oracles for C06 (insertion-ordered map), C17 (no panic)
// and C18 (dotted paths agree with key-by-key navigation, built or parsed).

import (
	"encoding/json"
	"errors"
	"fmt"
	"math"
	"os"
	"path/filepath"
	"sort"
	"strings"
	"time"

	"github.com/cgi-fr/jsonline/pkg/jsonline"
)

// ---------- Gallina printers for the row model (JL.model.Row) ----------

var formatNames = map[jsonline.Format]string{
	jsonline.String: "FString", jsonline.Numeric: "FNumeric", jsonline.Boolean: "FBoolean", jsonline.Binary: "FBinary",
	jsonline.Date: "FDate", jsonline.DateTime: "FDateTime", jsonline.Timestamp: "FTimestamp", jsonline.Auto: "FAuto",
	jsonline.Hidden: "FHidden",
}

func gFormat(f jsonline.Format) string {
	if n, ok := formatNames[f]; ok {
		return n
	}
	return "FBad"
}

// scalars seen anywhere in a case: their oracle transcripts are shipped with the case
type scalarSink struct {
	seen map[string]bool
	vals []interface{}
}

func (s *scalarSink) add(v interface{}) {
	if s == nil {
		return
	}
	switch v.(type) {
	case float64, float32, string, json.Number, []byte, int, int64, int32, int16, int8, uint, uint64, uint32, uint16, uint8, time.Time, bool:
		k := fmt.Sprintf("%T|%#v", v, v)
		if f, ok := v.(float64); ok {
			k = fmt.Sprintf("f64|%x", math.Float64bits(f))
		}
		if !s.seen[k] {
			s.seen[k] = true
			s.vals = append(s.vals, v)
		}
	}
}

func gList(items []string) string { return "[" + strings.Join(items, "; ") + "]" }

// a Go value as a term of type rv; Go maps are listed in sorted key order unless an order is given
func gRv(v interface{}, sink *scalarSink) string {
	switch x := v.(type) {
	case jsonline.Row:
		return "(RV (CRow " + gRow(x, sink) + "))"
	case jsonline.Value:
		return "(RV " + gCell(x, sink) + ")"
	case []interface{}:
		items := make([]string, len(x))
		for i, e := range x {
			items[i] = gRv(e, sink)
		}
		return "(RArr " + gList(items) + ")"
	case map[string]interface{}:
		keys := make([]string, 0, len(x))
		for k := range x {
			keys = append(keys, k)
		}
		sort.Strings(keys)
		return gRvMapOrdered(x, keys, sink)
	}
	sink.add(v)
	return "(RS " + gVal(v) + ")"
}

func gRvMapOrdered(x map[string]interface{}, keys []string, sink *scalarSink) string {
	items := make([]string, len(keys))
	for i, k := range keys {
		items[i] = "(" + gStr(k) + ", " + gRv(x[k], sink) + ")"
	}
	return "(RMap " + gList(items) + ")"
}

func gCell(v jsonline.Value, sink *scalarSink) string {
	if r, ok := v.(jsonline.Row); ok {
		return "(CRow " + gRow(r, sink) + ")"
	}
	sink.add(v.GetRawType())
	return fmt.Sprintf("(CVal %s %s %s)", gRv(v.Raw(), sink), gFormat(v.GetFormat()), gVal(v.GetRawType()))
}

func gOptCell(v jsonline.Value, ok bool, sink *scalarSink) string {
	if !ok || v == nil {
		return "None"
	}
	return "(Some " + gCell(v, sink) + ")"
}

func gRow(r jsonline.Row, sink *scalarSink) string {
	var cells, keys []string
	it := r.IterValues()
	for k, v, ok := it(); ok; k, v, ok = it() {
		keys = append(keys, gStr(k))
		if v != nil {
			cells = append(cells, "("+gStr(k)+", "+gCell(v, sink)+")")
		}
	}
	return "(MkRow " + gList(cells) + " " + gList(keys) + ")"
}

func jlSentinel(err error) string {
	switch {
	case errors.Is(err, jsonline.ErrUnsupportedFormat):
		return "ErrUnsupportedFormat"
	case errors.Is(err, jsonline.ErrUnsupportedImportType):
		return "ErrUnsupportedImportType"
	case errors.Is(err, jsonline.ErrUnsupportedExportType):
		return "ErrUnsupportedExportType"
	case errors.Is(err, jsonline.ErrPathNotFound):
		return "ErrPathNotFound"
	}
	return sentinelOf(err)
}

func gErr(err error, panicked bool) string {
	switch {
	case panicked:
		return "Panic"
	case err != nil:
		return "(Err " + jlSentinel(err) + ")"
	}
	return "(Ok tt)"
}

// ---------- generators ----------

var keyAlphabet = []string{"", "a", "ab", "b", "é", "a.b", "c"}

var rawTypeSamples = []interface{}{nil, nil, int64(0), int(0), uint8(0), int8(0), uint64(0), float64(0), float32(0), "", []byte{}, time.Time{}, json.Number(""), true}

var allFormats = []jsonline.Format{jsonline.String, jsonline.Numeric, jsonline.Boolean, jsonline.Binary, jsonline.Date, jsonline.DateTime,
	jsonline.Timestamp, jsonline.Auto, jsonline.Hidden}

type rowStruct struct{ A int }

func genScalar(r *rng) interface{} {
	switch r.intn(30) {
	case 0, 1:
		return nil
	case 2:
		return r.bool()
	case 3:
		return r.intn(300) - 20
	case 4:
		return int64(r.intn(100000)) - 500
	case 5:
		return int8(r.intn(256) - 128)
	case 6:
		return uint8(r.intn(256))
	case 7:
		return uint64(math.MaxUint64) - uint64(r.intn(3))
	case 8:
		return []float64{1.5, -0.0, 1e21, 255, 256, -1, 3.9999, 1e-7}[r.intn(8)]
	case 9:
		if r.intn(4) == 0 {
			return math.NaN()
		}
		return float32(2.5)
	case 10, 11:
		return []string{"x", "hello", "", "12", "-7", "300", "true", "false", "1.5", "abc", "é ", "\"q\\"}[r.intn(12)]
	case 12:
		return []string{"2021-09-24", "2021-02-30", "2021-09-24T10:11:12Z", "2021-09-24T10:11:12+05:30", "aGk=", "aGk", "AAAAAAAAAAA="}[r.intn(7)]
	case 13:
		return []byte([]string{"", "hi", "12", "\x01\x00", "\x01\x02\x03\x04\x05\x06\x07\x08"}[r.intn(5)])
	case 14:
		return []byte(nil)
	case 15, 16:
		return json.Number([]string{"12", "-3", "1.50", "1e3", "abc", "", "18446744073709551616", "0"}[r.intn(8)])
	case 17:
		return time.Unix(int64(r.intn(2000000000)), int64(r.intn(2))*500000000).UTC()
	case 18:
		return time.Unix(1632478272, 0).In(time.FixedZone("", 5*3600+1800))
	case 19:
		return rowStruct{r.intn(3)}
	case 20:
		x := r.intn(5)
		return &x
	case 21:
		return uint(r.intn(70000))
	case 22:
		return int16(r.intn(65536) - 32768)
	case 23:
		return int32(r.intn(1 << 20))
	case 24:
		return uint16(r.intn(65536))
	case 25:
		return uint32(r.intn(1<<31)) * 2
	default:
		return r.intn(10)
	}
}

// (mostly the small alphabet, so that operations meet existing keys; now and then a key that differs from one of
// them only by case or by Unicode normalisation, or that holds a quote, a NUL, digits only, or is very long)
var rareKeys = []string{"A", "AB", "e\u0301", "\"", "\x00", "1", "-0", "a b", " a", "null", strings.Repeat("k", 300), "a\nb", "\u2028"}

func genKey(r *rng) string {
	if r.intn(8) == 0 {
		return rareKeys[r.intn(len(rareKeys))]
	}
	return keyAlphabet[r.intn(len(keyAlphabet))]
}

func genRowValue(r *rng, depth int) jsonline.Row {
	row := jsonline.NewRow()
	n := r.intn(3)
	for i := 0; i < n; i++ {
		row.SetValue(genKey(r), genCellValue(r, depth+1))
	}
	return row
}

func genCellValue(r *rng, depth int) jsonline.Value {
	switch r.intn(8) {
	case 0:
		if depth < 3 {
			return genRowValue(r, depth)
		}
		fallthrough
	case 1:
		return jsonline.NewValueAuto(genValue(r, depth+1))
	case 2:
		return jsonline.NewValueNil(allFormats[r.intn(len(allFormats))], rawTypeSamples[r.intn(len(rawTypeSamples))])
	case 3:
		// the constructor dedicated to a format (no raw type): what NewValue(v, format, nil) builds
		v := genScalar(r)
		return []func(interface{}) jsonline.Value{jsonline.NewValueString, jsonline.NewValueNumeric, jsonline.NewValueBoolean, jsonline.NewValueBinary,
			jsonline.NewValueDate, jsonline.NewValueDateTime, jsonline.NewValueTimestamp, jsonline.NewValueHidden, jsonline.NewValueAuto}[r.intn(9)](v)
	default:
		f := allFormats[r.intn(len(allFormats))]
		if r.intn(12) == 0 {
			f = []jsonline.Format{jsonline.Format(-1), jsonline.Format(9), jsonline.Format(100), jsonline.Format(-128)}[r.intn(4)] // not a format: every use reports ErrUnsupportedFormat
		}
		return jsonline.NewValue(genScalar(r), f, rawTypeSamples[r.intn(len(rawTypeSamples))])
	}
}

// MapTo over the boundary values of every scalar type under each key a struct target looks up: no call panics (C17)
func (c *rowopsCtx) mapToSweep() {
	vals := []interface{}{uint64(math.MaxUint64), uint64(1 << 63), uint(1 << 63), uint64(1<<63 - 1), int64(math.MinInt64), int64(-1), int8(-128), int(-1), uint8(255), uint16(65535),
		uint32(math.MaxUint32), int32(math.MinInt32), math.NaN(), math.Inf(1), math.Inf(-1), -0.0, 1e300, float32(3.4e38), float32(math.Inf(1)), json.Number("1e400"), json.Number("-1"),
		json.Number("18446744073709551615"), json.Number("x"), json.Number(""), "", "12", []byte(nil), []byte{}, []byte{1, 2}, true, nil, time.Time{}, []interface{}{1}, map[string]interface{}{"x": 1}}
	for _, key := range []string{"a", "ab", "b", "c"} {
		for vi, v := range vals {
			for ti := 0; ti < 5; ti++ {
				row := jsonline.NewRow()
				row.Set(key, v)
				if vi%2 == 0 {
					_ = row.UnmarshalJSON([]byte(`{"c":1e400,"b":-1,"a":18446744073709551615,"ab":1.5}`)) // json.Number values under the other keys
					row.Set(key, v)
				}
				t := newMapTarget(ti)
				c.rep.OracleChecks["C17"]++
				if p, msg := guard(func() { row.MapTo(t) }); p {
					c.violate("C17", "panic in reader: "+msg, map[string]interface{}{"stream": "rowops", "history": fmt.Sprintf("Set(%q, %s)", key, describe(v)), "call": fmt.Sprintf("MapTo(%T)", t)})
				}
			}
		}
	}
}

// any value the API accepts as interface{}
func genValue(r *rng, depth int) interface{} {
	if depth < 3 {
		switch r.intn(14) {
		case 0:
			n := r.intn(4)
			arr := make([]interface{}, n)
			for i := range arr {
				arr[i] = genValue(r, depth+1)
			}
			return arr
		case 1:
			// at most one entry: a map that ends up imported into a sub-row is iterated in Go's map order,
			// which the model cannot be told (the top-level Import(map) operation observes its order)
			m := map[string]interface{}{}
			if r.intn(3) > 0 {
				m[genKey(r)] = genValue(r, depth+1)
			}
			return m
		case 2:
			return genRowValue(r, depth)
		case 3:
			return genCellValue(r, depth)
		}
	}
	return genScalar(r)
}

func genPath(r *rng) string {
	n := r.intn(4) + 1
	if r.intn(12) == 0 {
		n = 0
	}
	parts := make([]string, n)
	for i := range parts {
		parts[i] = []string{"a", "b", "ab", "c", "", "é", "zz"}[r.intn(7)]
	}
	return strings.Join(parts, ".")
}

// ---------- documents (for OUnmarshal and for C18) ----------

type jnode struct {
	kind  byte // 'o' 'a' 's' 'n' 'b' 'z'
	keys  []string
	kids  []*jnode
	s     string
	b     bool
}

func genDoc(r *rng, depth int, top bool) *jnode {
	k := r.intn(10)
	if top {
		k = 0
	}
	if depth >= 4 && k < 3 {
		k = 5
	}
	switch {
	case k == 0 || k == 1:
		n := &jnode{kind: 'o'}
		cnt := r.intn(4)
		if top {
			cnt = 1 + r.intn(4)
		}
		used := map[string]bool{}
		for i := 0; i < cnt; i++ {
			key := []string{"a", "b", "ab", "c", "", "é"}[r.intn(6)]
			if used[key] && !(top && r.intn(3) == 0) {
				continue
			}
			used[key] = true
			n.keys = append(n.keys, key)
			n.kids = append(n.kids, genDoc(r, depth+1, false))
		}
		return n
	case k == 2:
		n := &jnode{kind: 'a'}
		for i := r.intn(4); i > 0; i-- {
			n.kids = append(n.kids, genDoc(r, depth+1, false))
		}
		return n
	case k <= 5:
		return &jnode{kind: 's', s: []string{"x", "", "12", "true", "a.b", "é", "2021-09-24", "aGk="}[r.intn(8)]}
	case k <= 7:
		return &jnode{kind: 'n', s: []string{"1", "-0", "1.50", "1E+2", "123456789012345678901234567890", "0"}[r.intn(6)]}
	case k == 8:
		return &jnode{kind: 'b', b: r.bool()}
	}
	return &jnode{kind: 'z'}
}

func (n *jnode) text(sb *strings.Builder) {
	switch n.kind {
	case 'o':
		sb.WriteByte('{')
		for i, k := range n.keys {
			if i > 0 {
				sb.WriteByte(',')
			}
			kb, _ := json.Marshal(k)
			sb.Write(kb)
			sb.WriteByte(':')
			n.kids[i].text(sb)
		}
		sb.WriteByte('}')
	case 'a':
		sb.WriteByte('[')
		for i, k := range n.kids {
			if i > 0 {
				sb.WriteByte(',')
			}
			k.text(sb)
		}
		sb.WriteByte(']')
	case 's':
		b, _ := json.Marshal(n.s)
		sb.Write(b)
	case 'n':
		sb.WriteString(n.s)
	case 'b':
		if n.b {
			sb.WriteString("true")
		} else {
			sb.WriteString("false")
		}
	default:
		sb.WriteString("null")
	}
}

// what the jsonline reader hands to the row for this node (as a term of type rv)
func (n *jnode) gParsed(sink *scalarSink) string {
	switch n.kind {
	case 'o':
		var cells, keys []string
		for i, k := range n.keys {
			keys = append(keys, gStr(k))
			cells = append(cells, fmt.Sprintf("(%s, CVal %s FAuto VNil)", gStr(k), n.kids[i].gParsed(sink)))
		}
		return "(RV (CRow (MkRow " + gList(cells) + " " + gList(keys) + ")))"
	case 'a':
		items := make([]string, len(n.kids))
		for i, k := range n.kids {
			items[i] = k.gParsed(sink)
		}
		return "(RArr " + gList(items) + ")"
	case 's':
		sink.add(n.s)
		return "(RS (VStr " + gStr(n.s) + "))"
	case 'n':
		sink.add(json.Number(n.s))
		return "(RS (VNum " + gStr(n.s) + "))"
	case 'b':
		sink.add(n.b)
		if n.b {
			return "(RS (VBool true))"
		}
		return "(RS (VBool false))"
	}
	return "(RS VNil)"
}

// the same document built through the API: nested objects are rows stored as values
func (n *jnode) build() interface{} {
	switch n.kind {
	case 'o':
		row := jsonline.NewRow()
		for i, k := range n.keys {
			row.Set(k, n.kids[i].build())
		}
		return row
	case 'a':
		arr := make([]interface{}, len(n.kids))
		for i, k := range n.kids {
			arr[i] = k.build()
		}
		return arr
	case 's':
		return n.s
	case 'n':
		return json.Number(n.s)
	case 'b':
		return n.b
	}
	return nil
}

// reference navigation (C18): key by key through nested objects
func (n *jnode) navigate(path []string) (*jnode, bool) {
	cur := n
	for i, seg := range path {
		if cur.kind != 'o' {
			return nil, false
		}
		idx := -1
		for j, k := range cur.keys { // first occurrence wins only at top level duplicates: callers avoid duplicates
			if k == seg {
				idx = j
			}
		}
		if idx < 0 {
			return nil, false
		}
		cur = cur.kids[idx]
		_ = i
	}
	return cur, true
}

// reference search across arrays of objects (C18): addressed value of every element that has it, in document order
func (n *jnode) find(path []string) ([]*jnode, bool) {
	if n.kind != 'o' {
		return nil, false
	}
	idx := -1
	for j, k := range n.keys {
		if k == path[0] {
			idx = j
		}
	}
	if idx < 0 {
		return nil, false
	}
	v := n.kids[idx]
	if len(path) == 1 {
		return []*jnode{v}, true
	}
	switch v.kind {
	case 'o':
		return v.find(path[1:])
	case 'a':
		res := []*jnode{}
		for _, e := range v.kids {
			if e.kind == 'o' {
				if vs, ok := e.find(path[1:]); ok {
					res = append(res, vs...)
				}
			}
		}
		return res, true
	}
	return nil, false
}

func (n *jnode) hasDupKeys() bool {
	seen := map[string]bool{}
	for _, k := range n.keys {
		if seen[k] {
			return true
		}
		seen[k] = true
	}
	for _, c := range n.kids {
		if c.hasDupKeys() {
			return true
		}
	}
	return false
}

// canonical text of a raw value for comparing built and parsed documents (rows and maps alike)
func canonRaw(v interface{}) string {
	switch x := v.(type) {
	case jsonline.Row:
		var parts []string
		it := x.Iter()
		for k, val, ok := it(); ok; k, val, ok = it() {
			parts = append(parts, fmt.Sprintf("%q:%s", k, canonRaw(val)))
		}
		return "{" + strings.Join(parts, ",") + "}"
	case jsonline.Value:
		return canonRaw(x.Raw())
	case map[string]interface{}:
		keys := make([]string, 0, len(x))
		for k := range x {
			keys = append(keys, k)
		}
		sort.Strings(keys)
		var parts []string
		for _, k := range keys {
			parts = append(parts, fmt.Sprintf("%q:%s", k, canonRaw(x[k])))
		}
		return "{~" + strings.Join(parts, ",") + "}"
	case []interface{}:
		var parts []string
		for _, e := range x {
			parts = append(parts, canonRaw(e))
		}
		return "[" + strings.Join(parts, ",") + "]"
	case nil:
		return "null"
	}
	return fmt.Sprintf("%T(%v)", v, v)
}

func (n *jnode) canon() string {
	switch n.kind {
	case 'o':
		var parts []string
		for i, k := range n.keys {
			parts = append(parts, fmt.Sprintf("%q:%s", k, n.kids[i].canon()))
		}
		return "{" + strings.Join(parts, ",") + "}"
	case 'a':
		var parts []string
		for _, e := range n.kids {
			parts = append(parts, e.canon())
		}
		return "[" + strings.Join(parts, ",") + "]"
	case 's':
		return fmt.Sprintf("string(%v)", n.s)
	case 'n':
		return fmt.Sprintf("json.Number(%v)", n.s)
	case 'b':
		return fmt.Sprintf("bool(%v)", n.b)
	}
	return "null"
}

// ---------- running one history ----------

type typedGetter struct {
	name   string
	sample string // Gallina sample
	zero   string
	call   func(r jsonline.Row, k string) interface{}
}

var typedGetters = []typedGetter{
	{"GetString", "(VStr [])", "(VStr [])", func(r jsonline.Row, k string) interface{} { return r.GetString(k) }},
	{"GetInt", "(VInt KInt 0)", "(VInt KInt 0)", func(r jsonline.Row, k string) interface{} { return r.GetInt(k) }},
	{"GetInt64", "(VInt KInt64 0)", "(VInt KInt64 0)", func(r jsonline.Row, k string) interface{} { return r.GetInt64(k) }},
	{"GetInt32", "(VInt KInt32 0)", "(VInt KInt32 0)", func(r jsonline.Row, k string) interface{} { return r.GetInt32(k) }},
	{"GetInt16", "(VInt KInt16 0)", "(VInt KInt16 0)", func(r jsonline.Row, k string) interface{} { return r.GetInt16(k) }},
	{"GetInt8", "(VInt KInt8 0)", "(VInt KInt8 0)", func(r jsonline.Row, k string) interface{} { return r.GetInt8(k) }},
	{"GetUint", "(VInt KUint 0)", "(VInt KUint 0)", func(r jsonline.Row, k string) interface{} { return r.GetUint(k) }},
	{"GetUint64", "(VInt KUint64 0)", "(VInt KUint64 0)", func(r jsonline.Row, k string) interface{} { return r.GetUint64(k) }},
	{"GetUint32", "(VInt KUint32 0)", "(VInt KUint32 0)", func(r jsonline.Row, k string) interface{} { return r.GetUint32(k) }},
	{"GetUint16", "(VInt KUint16 0)", "(VInt KUint16 0)", func(r jsonline.Row, k string) interface{} { return r.GetUint16(k) }},
	{"GetUint8", "(VInt KUint8 0)", "(VInt KUint8 0)", func(r jsonline.Row, k string) interface{} { return r.GetUint8(k) }},
	{"GetFloat64", "(VF64 0)", "(VF64 0)", func(r jsonline.Row, k string) interface{} { return r.GetFloat64(k) }},
	{"GetFloat32", "(VF32 0)", "(VF32 0)", func(r jsonline.Row, k string) interface{} { return r.GetFloat32(k) }},
	{"GetBool", "(VBool true)", "(VBool false)", func(r jsonline.Row, k string) interface{} { return r.GetBool(k) }},
	{"GetBytes", "(VBytes {| bnil := false; bdata := [] |})", "(VBytes {| bnil := true; bdata := [] |})", func(r jsonline.Row, k string) interface{} { return r.GetBytes(k) }},
	{"GetTime", "(VTime zero_time)", "(VTime zero_time)", func(r jsonline.Row, k string) interface{} { return r.GetTime(k) }},
}

type mapToTarget struct {
	A string
	B int
	c int //nolint
	D []byte
	E float64
	F uint8
	G bool
	H []int
	Ab int8
}

type rowopsCtx struct {
	rep   *streamReport
	props map[string]bool
	r     *rng
}

func (c *rowopsCtx) violate(prop, what string, input interface{}) {
	if c.props[prop] {
		addViolation(c.rep, prop, what, input)
	}
}

// guarded call
func guard(f func()) (panicked bool, msg string) {
	defer func() {
		if r := recover(); r != nil {
			panicked = true
			msg = fmt.Sprint(r)
		}
	}()
	f()
	return
}

// one reader query on the real row: Gallina query term and Gallina answer term
func (c *rowopsCtx) runQuery(row jsonline.Row, sink *scalarSink, hist string) (string, string) {
	r := c.r
	var q, a string
	var desc string
	p, msg := guard(func() {
		switch r.intn(15) {
		case 13, 14:
			t := newMapTarget(r.intn(5))
			desc = fmt.Sprintf("MapTo(%T)", t)
			q = "QMapTo " + gMapTarget(t)
			row.MapTo(t)
			a = "AFields " + gMapFields(t)
		case 0:
			k := genKey(r)
			desc = "Has " + k
			q = "QHas " + gStr(k)
			if row.Has(k) {
				a = "ABool true"
			} else {
				a = "ABool false"
			}
		case 1:
			k := genKey(r)
			desc = "Get " + k
			q = "QGet " + gStr(k)
			v, ok := row.Get(k)
			if ok {
				a = "ARv (Some " + gRv(v, sink) + ")"
			} else {
				a = "ARv None"
			}
			if o := row.GetOrNil(k); !ok && o != nil {
				c.violate("C17", "GetOrNil returned non-nil for an absent key", map[string]interface{}{"stream": "rowops", "history": hist, "call": desc})
			}
		case 2:
			i := r.intn(9) - 2
			desc = fmt.Sprintf("GetAtIndex %d", i)
			q = "QGetAtIndex " + zs(int64(i))
			v, ok := row.GetAtIndex(i)
			_ = row.GetAtIndexOrNil(i)
			if ok {
				a = "ARv (Some " + gRv(v, sink) + ")"
			} else {
				a = "ARv None"
			}
		case 3:
			k := genKey(r)
			desc = "GetValue " + k
			q = "QGetValue " + gStr(k)
			v, ok := row.GetValue(k)
			a = "ACell " + gOptCell(v, ok, sink)
		case 4:
			i := r.intn(9) - 2
			desc = fmt.Sprintf("GetValueAtIndex %d", i)
			q = "QGetValueAtIndex " + zs(int64(i))
			v, ok := row.GetValueAtIndex(i)
			a = "ACell " + gOptCell(v, ok, sink)
		case 5:
			desc = "Raw"
			q = "QRaw"
			a = "ARv (Some " + gRv(row.Raw(), sink) + ")"
		case 6:
			p := genPath(r)
			desc = "GetAtPath " + p
			q = "QGetAtPath " + gStr(p)
			v, ok := row.GetAtPath(p)
			_ = row.GetAtPathOrNil(p)
			if ok {
				a = "ARv (Some " + gRv(v, sink) + ")"
			} else {
				a = "ARv None"
			}
		case 7:
			p := genPath(r)
			desc = "GetValueAtPath " + p
			q = "QGetValueAtPath " + gStr(p)
			v, ok := row.GetValueAtPath(p)
			a = "ACell " + gOptCell(v, ok, sink)
		case 8:
			p := genPath(r)
			desc = "FindValuesAtPath " + p
			q = "QFind " + gStr(p)
			vs, ok := row.FindValuesAtPath(p)
			if !ok {
				a = "ACells None"
			} else {
				items := make([]string, len(vs))
				for i, v := range vs {
					items[i] = gCell(v, sink)
				}
				a = "ACells (Some " + gList(items) + ")"
			}
		case 9, 10:
			g := typedGetters[r.intn(len(typedGetters))]
			k := genKey(r)
			desc = g.name + " " + k
			q = fmt.Sprintf("QTyped %s %s %s", g.sample, g.zero, gStr(k))
			v := g.call(row, k)
			sink.add(v)
			a = "AG " + gVal(v)
		case 11:
			desc = "Export"
			q = "QExport"
			v, err := row.Export()
			if err != nil {
				a = "AErr " + jlSentinel(err)
			} else {
				a = "ARv (Some " + gRv(v, sink) + ")"
			}
		default:
			desc = "Len"
			q = "QLen"
			a = "AZ " + zs(int64(row.Len()))
		}
	})
	if p {
		c.violate("C17", "panic in reader: "+msg, map[string]interface{}{"stream": "rowops", "history": hist, "call": desc})
		return q, "APanic"
	}
	return q, a
}

// unobserved public calls that must not panic (C17), results not compared with the model
func (c *rowopsCtx) pokes(row jsonline.Row, hist string) {
	r := c.r
	var desc string
	p, msg := guard(func() {
		switch r.intn(8) {
		case 0:
			desc = "MapTo(&struct)"
			var t mapToTarget
			row.MapTo(&t)
		case 1:
			desc = "MapTo(struct by value)"
			row.MapTo(mapToTarget{})
		case 2:
			desc = "MapTo(nil)"
			row.MapTo(nil)
		case 3:
			desc = "MapTo(&int)"
			x := 0
			row.MapTo(&x)
		case 4:
			desc = "String/DebugString/MarshalJSON"
			_ = row.String()
			_ = row.DebugString()
			_, _ = row.MarshalJSON()
		case 5:
			desc = "Iter"
			it := row.Iter()
			for _, _, ok := it(); ok; _, _, ok = it() {
			}
		case 6:
			desc = "CloneRow + Export + json.Marshal"
			cl := jsonline.CloneRow(row)
			_, _ = cl.Export()
			_, _ = json.Marshal(cl)
		default:
			desc = "GetFormat/GetRawType/UnmarshalJSON(garbage)"
			_ = row.GetFormat()
			_ = row.GetRawType()
			cl := jsonline.CloneRow(row)
			_ = cl.UnmarshalJSON([]byte(`{"a":[1,{"b":`))
			_ = cl.Import(5)
		}
	})
	if p {
		c.violate("C17", "panic: "+msg, map[string]interface{}{"stream": "rowops", "history": hist, "call": desc})
	}
}

// reference insertion-ordered key list maintained beside the real row (C06 direct oracle)
type refOrder struct{ keys []string }

func (o *refOrder) touch(k string) {
	for _, x := range o.keys {
		if x == k {
			return
		}
	}
	o.keys = append(o.keys, k)
}

func (o *refOrder) at(i int) string {
	if i < 0 || i >= len(o.keys) {
		return ""
	}
	return o.keys[i]
}

func rowKeys(row jsonline.Row) []string {
	var keys []string
	it := row.IterValues()
	for k, _, ok := it(); ok; k, _, ok = it() {
		keys = append(keys, k)
	}
	return keys
}

func (c *rowopsCtx) checkOrder(row jsonline.Row, ref *refOrder, hist string) {
	keys := rowKeys(row)
	in := map[string]interface{}{"stream": "rowops", "history": hist}
	if row.Len() != len(ref.keys) || len(keys) != len(ref.keys) {
		c.violate("C06", fmt.Sprintf("Len()=%d, iteration yields %d keys, %d distinct keys were inserted", row.Len(), len(keys), len(ref.keys)), in)
		return
	}
	for i, k := range keys {
		if k != ref.keys[i] {
			c.violate("C06", fmt.Sprintf("iteration order %q differs from first-insertion order %q", keys, ref.keys), in)
			return
		}
		if !row.Has(k) {
			c.violate("C06", fmt.Sprintf("key %q is iterated but Has reports false", k), in)
		}
		v1, ok1 := row.GetValueAtIndex(i)
		v2, ok2 := row.GetValue(k)
		if !ok1 || !ok2 || v1 != v2 {
			c.violate("C06", fmt.Sprintf("positional access %d and lookup of %q disagree", i, k), in)
		}
	}
	c.rep.OracleChecks["C06"]++
	// serialisation follows the same order: the text is one JSON object whose member names are the visible keys, in order
	var b []byte
	var err error
	if p, msg := guard(func() { b, err = row.MarshalJSON() }); p {
		c.violate("C06", "MarshalJSON panics on the row: "+msg, in)
		return
	}
	if err != nil {
		return
	}
	var visible []string
	for _, k := range keys {
		if v, _ := row.GetValue(k); v != nil && v.GetFormat() != jsonline.Hidden {
			visible = append(visible, k)
		}
	}
	tree, perr := refTree(b)
	if perr != nil || tree.kind != 'o' {
		c.violate("C06", fmt.Sprintf("serialisation %q is not a JSON object listing the keys %q (%v)", b, visible, perr), in)
		return
	}
	if fmt.Sprintf("%q", tree.keys) != fmt.Sprintf("%q", visible) {
		c.violate("C06", fmt.Sprintf("serialisation %s lists the members %q, the row's visible keys in first-insertion order are %q", b, tree.keys, visible), in)
	}
}

func describeOp(name string, args ...interface{}) string {
	parts := make([]string, len(args))
	for i, a := range args {
		parts[i] = describe(a)
	}
	return name + "(" + strings.Join(parts, ", ") + ")"
}

// one history: returns the Gallina term of the case (or "" when it had to be abandoned)
func (c *rowopsCtx) history(nops int) string {
	r := c.r
	row := jsonline.NewRow()
	ref := &refOrder{}
	sink := &scalarSink{seen: map[string]bool{}}
	var steps []string
	var hist []string
	for s := 0; s < nops; s++ {
		var op, desc string
		var err error
		keysBefore := rowKeys(row)
		abandon := false
		var newRow jsonline.Row
		noteCase("rowops", strings.Join(hist, " ; ")+" ; <next operation>")
		p, msg := guard(func() {
			switch r.intn(16) {
			case 0, 1:
				k, v := genKey(r), genValue(r, 0)
				desc = describeOp("Set", k, v)
				op = fmt.Sprintf("OSet %s %s", gStr(k), gRv(v, sink))
				row.Set(k, v)
				ref.touch(k)
			case 2:
				i, v := r.intn(9)-2, genValue(r, 0)
				desc = describeOp("SetAtIndex", i, v)
				op = fmt.Sprintf("OSetAtIndex %s %s", zs(int64(i)), gRv(v, sink))
				row.SetAtIndex(i, v)
				ref.touch(ref.at(i))
			case 3:
				k := genKey(r)
				if r.intn(8) == 0 {
					desc = describeOp("SetValue", k, nil)
					op = fmt.Sprintf("OSetValue %s None", gStr(k))
					row.SetValue(k, nil)
				} else {
					v := genCellValue(r, 0)
					desc = describeOp("SetValue", k, v)
					op = fmt.Sprintf("OSetValue %s (Some %s)", gStr(k), gCell(v, sink))
					row.SetValue(k, v)
				}
				ref.touch(k)
			case 4:
				i, v := r.intn(9)-2, genCellValue(r, 0)
				desc = describeOp("SetValueAtIndex", i, v)
				op = fmt.Sprintf("OSetValueAtIndex %s (Some %s)", zs(int64(i)), gCell(v, sink))
				row.SetValueAtIndex(i, v)
				ref.touch(ref.at(i))
			case 5, 6:
				k, v := genKey(r), genValue(r, 0)
				desc = describeOp("ImportAtKey", k, v)
				op = fmt.Sprintf("OImportAtKey %s %s", gStr(k), gRv(v, sink))
				wasNew := !row.Has(k)
				err = row.ImportAtKey(k, v)
				// a row handed for a NEW key is what a lookup of that key returns: same member names in the same order
				if given, isRow := v.(jsonline.Row); isRow && wasNew && err == nil {
					c.rep.OracleChecks["C06"]++
					got, _ := row.GetValue(k)
					gotRow, stillRow := got.(jsonline.Row)
					if !stillRow || fmt.Sprintf("%q", rowKeys(gotRow)) != fmt.Sprintf("%q", rowKeys(given)) {
						c.violate("C06", fmt.Sprintf("the row stored under the new key %q (members %q) is looked up as %T", k, rowKeys(given), got), map[string]interface{}{"stream": "rowops", "history": strings.Join(append(append([]string{}, hist...), desc), " ; ")})
					}
				}
				ref.touch(k)
			case 7:
				i, v := r.intn(9)-2, genValue(r, 0)
				desc = describeOp("ImportAtIndex", i, v)
				op = fmt.Sprintf("OImportAtIndex %s %s", zs(int64(i)), gRv(v, sink))
				err = row.ImportAtIndex(i, v)
				ref.touch(ref.at(i))
			case 8:
				n := r.intn(4)
				arr := make([]interface{}, n)
				for i := range arr {
					arr[i] = genValue(r, 1)
				}
				desc = describeOp("Import", arr)
				op = fmt.Sprintf("OImport %s", gRv(arr, sink))
				err = row.Import(arr)
				if err == nil {
					// index i refers to the i-th key at the time of its import ("" when there is none)
					for i := range arr {
						ref.touch(ref.at(i))
					}
				} else {
					for _, k := range rowKeys(row) {
						ref.touch(k)
					}
				}
			case 9:
				m := map[string]interface{}{}
				for i := r.intn(4); i > 0; i-- {
					m[genKey(r)] = genValue(r, 1)
				}
				if r.intn(6) == 0 {
					desc = describeOp("Import", 5)
					op = "OImport (RS (VInt KInt 5))"
					err = row.Import(5)
					break
				}
				desc = describeOp("Import", m)
				err = row.Import(m)
				if err != nil && len(m) > 1 {
					abandon = true // which entries were applied depends on the map iteration order
					break
				}
				// iteration order handed to the model: keys that existed first (sorted), then the new keys in the order they were pushed
				var order []string
				before := map[string]bool{}
				for _, k := range keysBefore {
					before[k] = true
				}
				for k := range m {
					if before[k] {
						order = append(order, k)
					}
				}
				sort.Strings(order)
				for _, k := range rowKeys(row) {
					if _, in := m[k]; in && !before[k] {
						order = append(order, k)
					}
				}
				op = "OImport " + gRvMapOrdered(m, order, sink)
				for _, k := range order {
					ref.touch(k)
				}
			case 10:
				p, v := genPath(r), genValue(r, 1)
				desc = describeOp("ImportAtPath", p, v)
				op = fmt.Sprintf("OImportAtPath %s %s", gStr(p), gRv(v, sink))
				err = row.ImportAtPath(p, v)
			case 11, 12:
				doc := genDoc(r, 0, true)
				var sb strings.Builder
				doc.text(&sb)
				txt := sb.String()
				members := make([]string, len(doc.keys))
				for i, k := range doc.keys {
					members[i] = "(" + gStr(k) + ", " + doc.kids[i].gParsed(sink) + ")"
				}
				okSyntax := "true"
				switch r.intn(6) {
				case 0: // trailing garbage after the object
					txt += " x"
					okSyntax = "false"
				case 1: // the next member cannot be read
					txt = txt[:len(txt)-1] + ",@"
					okSyntax = "false"
				case 2: // not an object
					txt = "[" + txt + "]"
					members = nil
					okSyntax = "false"
				case 3: // the text breaks INSIDE the value of a member (or right after its name): the members before it were read
					i := r.intn(len(doc.keys) + 1)
					sub := &jnode{kind: 'o', keys: doc.keys[:i], kids: doc.kids[:i]}
					var sb2 strings.Builder
					sub.text(&sb2)
					txt = strings.TrimSuffix(strings.TrimRight(sb2.String(), " \t\r\n"), "}")
					if i > 0 {
						txt += ","
					}
					kb, _ := json.Marshal(genKey(r))
					txt += string(kb) + []string{`:[1,}`, `:`, ``, `:{"x":`, `:tru`, `:"abc`, `:[1,{"y":2},`, `:1e`, `:]`}[r.intn(9)]
					members = members[:i]
					okSyntax = "false"
				}
				desc = describeOp("UnmarshalJSON", txt)
				op = fmt.Sprintf("OUnmarshal %s %s", gList(members), okSyntax)
				err = row.UnmarshalJSON([]byte(txt))
				if err == nil {
					for _, k := range doc.keys {
						ref.touch(k)
					}
				} else {
					for _, k := range rowKeys(row) {
						ref.touch(k)
					}
				}
				if okSyntax == "true" && err == nil {
					for _, k := range doc.keys {
						if !row.Has(k) {
							c.violate("C06", "member "+k+" of an unmarshalled object is missing from the row", map[string]interface{}{"stream": "rowops", "history": strings.Join(append(hist, desc), " ; ")})
						}
					}
				}
			case 13:
				desc = "r = CloneRow(r)"
				op = "OClone"
				newRow = jsonline.CloneRow(row)
				// a clone and its source are two maps: a key added to one is not a key of the other, whichever is written first
				// (the source is not used again by this history: the experiment is made on it and on a second clone)
				side := jsonline.CloneRow(row)
				nBefore := len(rowKeys(newRow))
				side.Set("only-in-the-second-clone", 1)
				row.Set("only-in-the-source", 2)
				side.Set("again-in-the-second-clone", 3)
				c.rep.OracleChecks["C06"]++
				sk, ok := rowKeys(side), rowKeys(row)
				if len(sk) != nBefore+2 || sk[nBefore] != "only-in-the-second-clone" || sk[nBefore+1] != "again-in-the-second-clone" || len(ok) != nBefore+1 || ok[nBefore] != "only-in-the-source" || len(rowKeys(newRow)) != nBefore {
					c.violate("C06", fmt.Sprintf("after CloneRow, keys added to a clone and to its source get mixed up: clone %q, source %q, untouched clone %q", sk, ok, rowKeys(newRow)),
						map[string]interface{}{"stream": "rowops", "history": strings.Join(append(append([]string{}, hist...), desc), " ; ")})
				}
			default:
				k := genKey(r)
				v := genScalar(r)
				desc = describeOp("Set", k, v)
				op = fmt.Sprintf("OSet %s %s", gStr(k), gRv(v, sink))
				row.Set(k, v)
				ref.touch(k)
			}
		})
		hist = append(hist, desc)
		hs := strings.Join(hist, " ; ")
		if p {
			c.violate("C17", "panic: "+msg, map[string]interface{}{"stream": "rowops", "history": hs, "call": desc})
			c.violate("C06", "the operation panicked, so the value was not stored: "+msg, map[string]interface{}{"stream": "rowops", "history": hs, "call": desc})
			c.rep.Outcomes["panic"]++
			if op == "" {
				return ""
			}
			steps = append(steps, fmt.Sprintf("mks (%s) Panic %s []", op, gRow(row, nil)))
			break
		}
		if abandon {
			break
		}
		if newRow != nil {
			row = newRow
		}
		if err != nil {
			c.rep.Outcomes["op error"]++
		} else {
			c.rep.Outcomes["op ok"]++
		}
		c.rep.Distribution["op:"+strings.SplitN(op, " ", 2)[0]]++
		c.checkOrder(row, ref, hs)
		// positional writes outside the range act on key "" (stated behaviour): nothing else may move
		for i, k := range keysBefore {
			now := rowKeys(row)
			if i >= len(now) || now[i] != k {
				c.violate("C06", fmt.Sprintf("key %q moved or disappeared: before %q after %q", k, keysBefore, now), map[string]interface{}{"stream": "rowops", "history": hs})
				break
			}
		}
		var qs []string
		nq := 3 + r.intn(4)
		for i := 0; i < nq; i++ {
			q, a := c.runQuery(row, sink, hs)
			if q != "" {
				qs = append(qs, "("+q+", "+a+")")
			}
		}
		c.pokes(row, hs)
		c.rep.OracleChecks["C17"] += nq + 2
		steps = append(steps, fmt.Sprintf("mks (%s) %s %s %s", op, gErr(err, false), gRow(row, sink), gList(qs)))
	}
	if len(steps) == 0 {
		return ""
	}
	tr := &transcript{}
	for _, v := range sink.vals {
		t := transcriptFor(v)
		tr.ffmt = append(tr.ffmt, t.ffmt...)
		tr.fparse = append(tr.fparse, t.fparse...)
		tr.f2i = append(tr.f2i, t.f2i...)
		tr.loc = append(tr.loc, t.loc...)
		tr.slow = append(tr.slow, t.slow...)
	}
	if len(c.rep.Samples) < 6 {
		c.rep.Samples = append(c.rep.Samples, strings.Join(hist, " ; "))
	}
	return fmt.Sprintf("mkr %s\n  [%s]", tr.gallina(), strings.Join(steps, ";\n   "))
}

// ---------- C18 direct oracle: built vs parsed documents, every path ----------

func (c *rowopsCtx) pathOracle() {
	r := c.r
	doc := genDoc(r, 0, true)
	if doc.hasDupKeys() {
		return
	}
	if r.intn(3) == 0 {
		// members whose NAME contains a dot: a path never designates them (its dots separate segments)
		for _, dotted := range []string{"a.b", "b.", ".c", "a.b.c"} {
			if r.bool() {
				doc.keys = append(doc.keys, dotted)
				doc.kids = append(doc.kids, &jnode{kind: 's', s: "literal member " + dotted})
			}
		}
	}
	var sb strings.Builder
	doc.text(&sb)
	txt := sb.String()
	parsed := jsonline.NewRow()
	if err := parsed.UnmarshalJSON([]byte(txt)); err != nil {
		c.violate("C18", "generated document rejected: "+err.Error(), map[string]interface{}{"stream": "rowops", "doc": txt})
		return
	}
	built, _ := doc.build().(jsonline.Row)
	segs := []string{"a", "b", "ab", "c", "", "é", "zz"}
	var paths [][]string
	for _, s1 := range segs {
		paths = append(paths, []string{s1})
		for _, s2 := range segs {
			paths = append(paths, []string{s1, s2})
			for _, s3 := range segs[:5] {
				paths = append(paths, []string{s1, s2, s3})
			}
		}
	}
	for i := 0; i < 6; i++ {
		paths = append(paths, []string{segs[r.intn(7)], segs[r.intn(7)], segs[r.intn(7)], segs[r.intn(7)]})
	}
	for _, p := range paths {
		ps := strings.Join(p, ".")
		in := map[string]interface{}{"stream": "rowops", "doc": txt, "path": ps}
		want, wok := doc.navigate(p)
		for which, row := range []jsonline.Row{parsed, built} {
			name := []string{"parsed", "built"}[which]
			var got interface{}
			var ok bool
			pn, msg := guard(func() { got, ok = row.GetAtPath(ps) })
			if pn {
				c.violate("C17", "panic in GetAtPath: "+msg, in)
				continue
			}
			c.rep.OracleChecks["C18"]++
			if ok != wok {
				c.violate("C18", fmt.Sprintf("path: GetAtPath on the %s row reports present=%v, key-by-key navigation says %v", name, ok, wok), in)
				continue
			}
			if ok && !sameValue(got, want) {
				c.violate("C18", fmt.Sprintf("path: GetAtPath on the %s row returns %s, key-by-key navigation gives %s", name, canonRaw(got), want.canon()), in)
			}
			// search across arrays
			var vs []jsonline.Value
			var fok bool
			pn, msg = guard(func() { vs, fok = row.FindValuesAtPath(ps) })
			if pn {
				c.violate("C17", "panic in FindValuesAtPath: "+msg, in)
				continue
			}
			wantF, wfok := doc.find(p)
			if fok != wfok {
				c.violate("C18", fmt.Sprintf("path: FindValuesAtPath on the %s row reports found=%v, reference says %v", name, fok, wfok), in)
				continue
			}
			if fok {
				var g, w []string
				same := len(vs) == len(wantF)
				for i, v := range vs {
					g = append(g, canonRaw(v))
					if same && !sameValue(v, wantF[i]) {
						same = false
					}
				}
				for _, n := range wantF {
					w = append(w, n.canon())
				}
				if !same {
					c.violate("C18", fmt.Sprintf("path: FindValuesAtPath on the %s row returns %q, reference (document order) %q", name, g, w), in)
				}
			}
		}
	}
	// importing at a path that key-by-key navigation does not find (absent key, a scalar or an ARRAY on the way) is
	// refused and changes nothing, on the parsed and on the built row
	for which, row := range []jsonline.Row{parsed, built} {
		if row == nil {
			continue
		}
		before := canonRaw(row)
		for _, mp := range paths {
			if _, ok := doc.navigate(mp); ok {
				continue
			}
			mps := strings.Join(mp, ".")
			c.rep.OracleChecks["C18"]++
			var err error
			if pn, msg := guard(func() { err = row.ImportAtPath(mps, 1) }); pn {
				c.violate("C17", "panic: "+msg, map[string]interface{}{"stream": "rowops", "doc": txt, "call": "ImportAtPath " + mps})
				break
			}
			if err == nil {
				c.violate("C18", fmt.Sprintf("path: ImportAtPath on a path that navigation does not find succeeded (%s row)", []string{"parsed", "built"}[which]), map[string]interface{}{"stream": "rowops", "doc": txt, "path": mps})
				break
			}
		}
		if after := canonRaw(row); after != before {
			c.violate("C18", fmt.Sprintf("path: refused imports changed the document: %s -> %s", before, after), map[string]interface{}{"stream": "rowops", "doc": txt})
			return
		}
	}
	// importing at a path changes exactly the addressed value
	p := paths[r.intn(len(paths))]
	ps := strings.Join(p, ".")
	if _, ok := doc.navigate(p); ok {
		before := canonRaw(parsed)
		err := parsed.ImportAtPath(ps, "NEW")
		in := map[string]interface{}{"stream": "rowops", "doc": txt, "path": ps}
		if err != nil {
			c.violate("C18", "path: ImportAtPath on an existing path failed: "+err.Error(), in)
			return
		}
		got, ok := parsed.GetAtPath(ps)
		if !ok || got != "NEW" {
			c.violate("C18", fmt.Sprintf("path: after ImportAtPath the addressed value is %v (present=%v)", got, ok), in)
		}
		// every other path is unchanged: compare the whole document with the addressed node replaced
		target, _ := doc.navigate(p)
		old := *target
		*target = jnode{kind: 's', s: "NEW"}
		if !sameValue(parsed, doc) {
			c.violate("C18", fmt.Sprintf("path: ImportAtPath changed more than the addressed value: %s -> %s, expected %s", before, canonRaw(parsed), doc.canon()), in)
		}
		*target = old
		c.rep.OracleChecks["C18"]++
	} else if err := parsed.ImportAtPath(ps, 1); err == nil {
		c.violate("C18", "path: ImportAtPath on a missing path succeeded", map[string]interface{}{"stream": "rowops", "doc": txt, "path": ps})
	}
}

// ---------- C17: resource and depth oracles on the real code (cost is not a notion of the model) ----------

func (c *rowopsCtx) resourceOracle(tier string) {
	// a nested value whose leaf cannot be marshalled: time and error size must stay polynomial in depth
	for depth := 1; depth <= 24; depth++ {
		leaf := jsonline.NewRow()
		leaf.Set("x", math.NaN())
		var cur jsonline.Row = leaf
		for i := 0; i < depth; i++ {
			up := jsonline.NewRow()
			up.SetValue("a", jsonline.NewValueAuto(cur))
			cur = up
		}
		start := time.Now()
		var out string
		p, msg := guard(func() { out = cur.String() })
		el := time.Since(start)
		in := map[string]interface{}{"stream": "rowops", "call": "String() of a row nested " + fmt.Sprint(depth) + " deep whose leaf is NaN", "resource": "nested"}
		if p {
			c.violate("C17", "panic: "+msg, in)
		}
		if el > 2*time.Second || len(out) > 100000*(depth+1) {
			c.violate("C17", fmt.Sprintf("resource: marshalling a failing value nested %d deep took %v and produced %d bytes of error text", depth, el, len(out)), in)
			break
		}
		c.rep.OracleChecks["C17"]++
	}
	// deep nesting: objects and arrays nested 10^4 deep are read and written back without crashing
	depths := []int{100, 1000}
	if tier == "thorough" {
		depths = append(depths, 10000)
	}
	for _, d := range depths {
		for _, open := range []string{"{\"a\":", "["} {
			closer := "}"
			if open == "[" {
				closer = "]"
			}
			txt := "{\"k\":" + strings.Repeat(open, d) + "1" + strings.Repeat(closer, d) + "}"
			in := map[string]interface{}{"stream": "rowops", "call": fmt.Sprintf("UnmarshalJSON/String of %q nested %d deep", open, d)}
			p, msg := guard(func() {
				row := jsonline.NewRow()
				if err := row.UnmarshalJSON([]byte(txt)); err == nil {
					_ = row.String()
					_, _ = row.GetAtPath("k.a.a.a")
					_ = jsonline.CloneRow(row)
				}
			})
			if p {
				c.violate("C17", "panic: "+msg, in)
			}
			c.rep.OracleChecks["C17"]++
		}
	}
}

func stripMapMark(s string) string { return strings.ReplaceAll(s, "{~", "{") }

// order-insensitive canonical forms: Raw() of a row used as a value is a Go map, which has no order
func canonRawSorted(v interface{}) string {
	switch x := v.(type) {
	case jsonline.Row:
		m := map[string]interface{}{}
		it := x.Iter()
		for k, val, ok := it(); ok; k, val, ok = it() {
			m[k] = val
		}
		return canonRawSorted(m)
	case jsonline.Value:
		return canonRawSorted(x.Raw())
	case map[string]interface{}:
		keys := make([]string, 0, len(x))
		for k := range x {
			keys = append(keys, k)
		}
		sort.Strings(keys)
		var parts []string
		for _, k := range keys {
			parts = append(parts, fmt.Sprintf("%q:%s", k, canonRawSorted(x[k])))
		}
		return "{" + strings.Join(parts, ",") + "}"
	case []interface{}:
		var parts []string
		for _, e := range x {
			parts = append(parts, canonRawSorted(e))
		}
		return "[" + strings.Join(parts, ",") + "]"
	}
	return canonRaw(v)
}

func (n *jnode) canonSorted() string {
	switch n.kind {
	case 'o':
		idx := make([]int, len(n.keys))
		for i := range idx {
			idx[i] = i
		}
		sort.Slice(idx, func(a, b int) bool { return n.keys[idx[a]] < n.keys[idx[b]] })
		var parts []string
		for _, i := range idx {
			parts = append(parts, fmt.Sprintf("%q:%s", n.keys[i], n.kids[i].canonSorted()))
		}
		return "{" + strings.Join(parts, ",") + "}"
	case 'a':
		var parts []string
		for _, e := range n.kids {
			parts = append(parts, e.canonSorted())
		}
		return "[" + strings.Join(parts, ",") + "]"
	}
	return n.canon()
}

// same value: member order is compared wherever the real value has one (rows), ignored where it is a Go map
func sameValue(got interface{}, want *jnode) bool {
	c := canonRaw(got)
	if strings.Contains(c, "{~") {
		return canonRawSorted(got) == want.canonSorted()
	}
	return c == want.canon()
}

// ---------- the stream ----------

func rowopsStream(seed uint64, tier string, outDir string, props map[string]bool, focus string) *streamReport {
	rep := &streamReport{Stream: "rowops", Seed: seed, Distribution: map[string]int{}, Outcomes: map[string]int{}, OracleChecks: map[string]int{}}
	c := &rowopsCtx{rep: rep, props: props, r: newRng(seed, "rowops")}
	nh, perFile := 800, 50
	npaths := 150
	if tier == "thorough" {
		nh, npaths = 8000, 4000
	}
	if focus == "C18" {
		npaths *= 3
	}
	var cases []string
	flush := func() {
		if len(cases) == 0 {
			return
		}
		name := fmt.Sprintf("RowCases_%d.v", len(rep.CaseFiles))
		var sb strings.Builder
		sb.WriteString("From Coq Require Import ZArith List.\nFrom JL.std Require Import GoBase GoFloat GoStrconv GoTime GoVal.\nFrom JL.model Require Import CastRun Row MapTo RowRun.\nImport ListNotations.\nOpen Scope Z_scope.\n")
		sb.WriteString("Definition cases : list rcase := [\n")
		sb.WriteString(strings.Join(cases, ";\n"))
		sb.WriteString("\n].\nDefinition M := Eval vm_compute in row_mismatches 0 cases.\nPrint M.\n")
		p := filepath.Join(outDir, name)
		if err := os.WriteFile(p, []byte(sb.String()), 0o644); err != nil {
			panic(err)
		}
		rep.CaseFiles = append(rep.CaseFiles, p)
		cases = nil
	}
	distinct := map[string]bool{}
	for i := 0; i < nh; i++ {
		n := 1 + c.r.intn(12)
		if i%10 == 0 {
			n = 25 + c.r.intn(15)
		}
		h := c.history(n)
		if h == "" {
			continue
		}
		rep.Cases++
		if !distinct[h] {
			distinct[h] = true
			rep.Distinct++
		}
		rep.Distribution[fmt.Sprintf("history length %d-%d", n/5*5, n/5*5+4)]++
		cases = append(cases, h)
		if len(cases) >= perFile {
			flush()
		}
	}
	flush()
	for i := 0; i < npaths; i++ {
		c.pathOracle()
	}
	if props["C17"] {
		c.resourceOracle(tier)
		c.mapToSweep()
	}
	return rep
}
