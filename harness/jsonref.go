package main

// A small order-preserving JSON reader written for the oracles (independent of encoding/json):
// it recognises exactly RFC 8259 texts and returns the document tree with members in textual
// order, strings decoded, number literals kept verbatim.

import (
	"fmt"
	"strings"
	"unicode/utf16"
	"unicode/utf8"
)

type refNode struct {
	kind byte // 'o' 'a' 's' 'n' 't' 'f' 'z'
	keys []string
	kids []*refNode
	s    string // decoded string or number literal
	raw  string // the exact text of the value
}

type refParser struct {
	b   []byte
	pos int
	err error
}

func (p *refParser) ws() {
	for p.pos < len(p.b) {
		switch p.b[p.pos] {
		case ' ', '\t', '\n', '\r':
			p.pos++
		default:
			return
		}
	}
}

func (p *refParser) fail(msg string) *refNode {
	if p.err == nil {
		p.err = fmt.Errorf("%s at %d", msg, p.pos)
	}
	return nil
}

func refTree(b []byte) (*refNode, error) {
	p := &refParser{b: b}
	p.ws()
	n := p.value(0)
	if p.err != nil {
		return nil, p.err
	}
	p.ws()
	if p.pos != len(p.b) {
		return nil, fmt.Errorf("trailing content at %d", p.pos)
	}
	return n, nil
}

// exactly one JSON object, optionally surrounded by whitespace
func refIsObject(b []byte) bool {
	n, err := refTree(b)
	return err == nil && n.kind == 'o'
}

func (p *refParser) value(depth int) *refNode {
	if p.err != nil {
		return nil
	}
	if depth > 20000 {
		return p.fail("too deep")
	}
	if p.pos >= len(p.b) {
		return p.fail("unexpected end")
	}
	start := p.pos
	var n *refNode
	switch c := p.b[p.pos]; {
	case c == '{':
		p.pos++
		n = &refNode{kind: 'o'}
		p.ws()
		if p.pos < len(p.b) && p.b[p.pos] == '}' {
			p.pos++
			break
		}
		for {
			p.ws()
			if p.pos >= len(p.b) || p.b[p.pos] != '"' {
				return p.fail("expected member name")
			}
			k := p.str()
			if p.err != nil {
				return nil
			}
			p.ws()
			if p.pos >= len(p.b) || p.b[p.pos] != ':' {
				return p.fail("expected ':'")
			}
			p.pos++
			p.ws()
			v := p.value(depth + 1)
			if p.err != nil {
				return nil
			}
			n.keys = append(n.keys, k)
			n.kids = append(n.kids, v)
			p.ws()
			if p.pos < len(p.b) && p.b[p.pos] == ',' {
				p.pos++
				continue
			}
			if p.pos < len(p.b) && p.b[p.pos] == '}' {
				p.pos++
				break
			}
			return p.fail("expected ',' or '}'")
		}
	case c == '[':
		p.pos++
		n = &refNode{kind: 'a'}
		p.ws()
		if p.pos < len(p.b) && p.b[p.pos] == ']' {
			p.pos++
			break
		}
		for {
			p.ws()
			v := p.value(depth + 1)
			if p.err != nil {
				return nil
			}
			n.kids = append(n.kids, v)
			p.ws()
			if p.pos < len(p.b) && p.b[p.pos] == ',' {
				p.pos++
				continue
			}
			if p.pos < len(p.b) && p.b[p.pos] == ']' {
				p.pos++
				break
			}
			return p.fail("expected ',' or ']'")
		}
	case c == '"':
		s := p.str()
		if p.err != nil {
			return nil
		}
		n = &refNode{kind: 's', s: s}
	case c == 't':
		if !p.lit("true") {
			return nil
		}
		n = &refNode{kind: 't'}
	case c == 'f':
		if !p.lit("false") {
			return nil
		}
		n = &refNode{kind: 'f'}
	case c == 'n':
		if !p.lit("null") {
			return nil
		}
		n = &refNode{kind: 'z'}
	case c == '-' || (c >= '0' && c <= '9'):
		if !p.num() {
			return nil
		}
		n = &refNode{kind: 'n', s: string(p.b[start:p.pos])}
	default:
		return p.fail("unexpected character")
	}
	n.raw = string(p.b[start:p.pos])
	return n
}

func (p *refParser) lit(w string) bool {
	if strings.HasPrefix(string(p.b[p.pos:]), w) {
		p.pos += len(w)
		return true
	}
	p.fail("bad literal")
	return false
}

func (p *refParser) num() bool {
	if p.b[p.pos] == '-' {
		p.pos++
	}
	if p.pos >= len(p.b) {
		p.fail("bad number")
		return false
	}
	switch {
	case p.b[p.pos] == '0':
		p.pos++
	case p.b[p.pos] >= '1' && p.b[p.pos] <= '9':
		for p.pos < len(p.b) && p.b[p.pos] >= '0' && p.b[p.pos] <= '9' {
			p.pos++
		}
	default:
		p.fail("bad number")
		return false
	}
	if p.pos < len(p.b) && p.b[p.pos] == '.' {
		p.pos++
		d := 0
		for p.pos < len(p.b) && p.b[p.pos] >= '0' && p.b[p.pos] <= '9' {
			p.pos++
			d++
		}
		if d == 0 {
			p.fail("bad fraction")
			return false
		}
	}
	if p.pos < len(p.b) && (p.b[p.pos] == 'e' || p.b[p.pos] == 'E') {
		p.pos++
		if p.pos < len(p.b) && (p.b[p.pos] == '+' || p.b[p.pos] == '-') {
			p.pos++
		}
		d := 0
		for p.pos < len(p.b) && p.b[p.pos] >= '0' && p.b[p.pos] <= '9' {
			p.pos++
			d++
		}
		if d == 0 {
			p.fail("bad exponent")
			return false
		}
	}
	return true
}

func hex4(b []byte) (rune, bool) {
	if len(b) < 4 {
		return 0, false
	}
	var r rune
	for _, c := range b[:4] {
		switch {
		case c >= '0' && c <= '9':
			r = r*16 + rune(c-'0')
		case c >= 'a' && c <= 'f':
			r = r*16 + rune(c-'a'+10)
		case c >= 'A' && c <= 'F':
			r = r*16 + rune(c-'A'+10)
		default:
			return 0, false
		}
	}
	return r, true
}

// a string literal: returns the decoded text (lone surrogates become U+FFFD; raw bytes are kept as they are)
func (p *refParser) str() string {
	p.pos++ // opening quote
	var sb strings.Builder
	for {
		if p.pos >= len(p.b) {
			p.fail("unterminated string")
			return ""
		}
		c := p.b[p.pos]
		switch {
		case c == '"':
			p.pos++
			return sb.String()
		case c < 0x20:
			p.fail("control character in string")
			return ""
		case c == '\\':
			p.pos++
			if p.pos >= len(p.b) {
				p.fail("unterminated escape")
				return ""
			}
			e := p.b[p.pos]
			p.pos++
			switch e {
			case '"', '\\', '/':
				sb.WriteByte(e)
			case 'b':
				sb.WriteByte('\b')
			case 'f':
				sb.WriteByte('\f')
			case 'n':
				sb.WriteByte('\n')
			case 'r':
				sb.WriteByte('\r')
			case 't':
				sb.WriteByte('\t')
			case 'u':
				r, ok := hex4(p.b[p.pos:])
				if !ok {
					p.fail("bad \\u escape")
					return ""
				}
				p.pos += 4
				if utf16.IsSurrogate(r) {
					if p.pos+6 <= len(p.b) && p.b[p.pos] == '\\' && p.b[p.pos+1] == 'u' {
						if r2, ok2 := hex4(p.b[p.pos+2:]); ok2 {
							if dec := utf16.DecodeRune(r, r2); dec != utf8.RuneError {
								p.pos += 6
								sb.WriteRune(dec)
								break
							}
						}
					}
					sb.WriteRune(utf8.RuneError)
					break
				}
				sb.WriteRune(r)
			default:
				p.fail("bad escape")
				return ""
			}
		default:
			sb.WriteByte(c)
			p.pos++
		}
	}
}

func (n *refNode) member(k string) *refNode {
	for i, x := range n.keys {
		if x == k {
			return n.kids[i]
		}
	}
	return nil
}
