module verif/harness

go 1.16

require github.com/cgi-fr/jsonline v0.0.0

replace github.com/cgi-fr/jsonline => /repo
