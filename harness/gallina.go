package main

import (
	"encoding/json"
	"fmt"
	"math"
	"reflect"
	"strings"
	"time"
)

// ---- printing Go values as Gallina terms of type gval (JL.std.GoVal) ----

func zs(n int64) string {
	if n < 0 {
		return fmt.Sprintf("(%d)", n)
	}
	return fmt.Sprintf("%d", n)
}

func gStr(s string) string {
	if len(s) == 0 {
		return "[]"
	}
	var b strings.Builder
	b.WriteByte('[')
	for i := 0; i < len(s); i++ {
		if i > 0 {
			b.WriteByte(';')
		}
		fmt.Fprintf(&b, "%d", s[i])
	}
	b.WriteByte(']')
	return b.String()
}

func gBytes(b []byte) string {
	if b == nil {
		return "{| bnil := true; bdata := [] |}"
	}
	return fmt.Sprintf("{| bnil := false; bdata := %s |}", gStr(string(b)))
}

func gTime(t time.Time) string {
	_, off := t.Zone()
	return fmt.Sprintf("{| tsec := %s; tnsec := %d; toff := %s |}", zs(t.Unix()), t.Nanosecond(), zs(int64(off)))
}

// other-type tags (only for readability of case files)
func otherTag(v interface{}) int {
	k := reflect.TypeOf(v).Kind()
	return int(k)
}

func gVal(v interface{}) string {
	switch x := v.(type) {
	case nil:
		return "VNil"
	case bool:
		if x {
			return "(VBool true)"
		}
		return "(VBool false)"
	case int:
		return fmt.Sprintf("(VInt KInt %s)", zs(int64(x)))
	case int64:
		return fmt.Sprintf("(VInt KInt64 %s)", zs(x))
	case int32:
		return fmt.Sprintf("(VInt KInt32 %s)", zs(int64(x)))
	case int16:
		return fmt.Sprintf("(VInt KInt16 %s)", zs(int64(x)))
	case int8:
		return fmt.Sprintf("(VInt KInt8 %s)", zs(int64(x)))
	case uint:
		return fmt.Sprintf("(VInt KUint %d)", uint64(x))
	case uint64:
		return fmt.Sprintf("(VInt KUint64 %d)", x)
	case uint32:
		return fmt.Sprintf("(VInt KUint32 %d)", x)
	case uint16:
		return fmt.Sprintf("(VInt KUint16 %d)", x)
	case uint8:
		return fmt.Sprintf("(VInt KUint8 %d)", x)
	case float64:
		return fmt.Sprintf("(VF64 %d)", math.Float64bits(x))
	case float32:
		return fmt.Sprintf("(VF32 %d)", math.Float32bits(x))
	case string:
		return fmt.Sprintf("(VStr %s)", gStr(x))
	case []byte:
		return fmt.Sprintf("(VBytes %s)", gBytes(x))
	case json.Number:
		return fmt.Sprintf("(VNum %s)", gStr(string(x)))
	case time.Time:
		return fmt.Sprintf("(VTime %s)", gTime(x))
	}
	rv := reflect.ValueOf(v)
	if rv.Kind() == reflect.Array && rv.Type().Elem().Kind() == reflect.Uint8 {
		b := make([]byte, rv.Len())
		for i := range b {
			b[i] = byte(rv.Index(i).Uint())
		}
		return fmt.Sprintf("(VByteArr %s)", gStr(string(b)))
	}
	return fmt.Sprintf("(VOther %d)", otherTag(v))
}

func gOptStr(s string, ok bool) string {
	if !ok {
		return "None"
	}
	return "(Some " + gStr(s) + ")"
}
