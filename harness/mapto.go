package main

// MapTo: the struct targets handed to Row.MapTo, described for the model by reflection (name, kind,
// exported) and read back after the call.

import (
	"fmt"
	"reflect"
	"strings"
)

type mapTarget1 struct {
	A  string
	Ab int8
	B  int
	c  int //nolint
	C  float64
}

type mapTarget2 struct {
	A  uint8
	Ab []byte
	B  bool
	C  float32
}

type mapTarget3 struct {
	A  int64
	Ab uint64
	B  []int
	C  string
	ab string //nolint
}

type mapTarget4 struct {
	A  float64
	Ab int16
	B  uint16
	C  int32
}

type mapTarget5 struct {
	A  uint
	Ab float32
	B  struct{ X int }
	C  *int
}

func newMapTarget(i int) interface{} {
	switch i % 5 {
	case 0:
		return &mapTarget1{}
	case 1:
		return &mapTarget2{}
	case 2:
		return &mapTarget3{}
	case 3:
		return &mapTarget4{}
	default:
		return &mapTarget5{}
	}
}

var kindNames = map[reflect.Kind]string{
	reflect.Int: "(FKInt KInt)", reflect.Int8: "(FKInt KInt8)", reflect.Int16: "(FKInt KInt16)", reflect.Int32: "(FKInt KInt32)", reflect.Int64: "(FKInt KInt64)",
	reflect.Uint: "(FKInt KUint)", reflect.Uint8: "(FKInt KUint8)", reflect.Uint16: "(FKInt KUint16)", reflect.Uint32: "(FKInt KUint32)", reflect.Uint64: "(FKInt KUint64)",
	reflect.Float64: "FKFloat64", reflect.Float32: "FKFloat32", reflect.String: "FKString", reflect.Bool: "FKBool",
}

// the Gallina description of *ptr's struct type
func gMapTarget(ptr interface{}) string {
	t := reflect.TypeOf(ptr).Elem()
	fs := make([]string, t.NumField())
	for i := range fs {
		f := t.Field(i)
		k, ok := kindNames[f.Type.Kind()]
		if !ok {
			k = "FKOther"
			if f.Type.Kind() == reflect.Slice && f.Type.Elem().Kind() == reflect.Uint8 {
				k = "FKBytes"
			}
		}
		fs[i] = fmt.Sprintf("mkfield %s %s %v", gStr(f.Name), k, f.PkgPath == "")
	}
	return "(MTStruct [" + strings.Join(fs, "; ") + "])"
}

// the fields of *ptr as the model shows them: exported fields of a scalar kind, VNil otherwise
func gMapFields(ptr interface{}) string {
	v := reflect.ValueOf(ptr).Elem()
	t := v.Type()
	out := make([]string, t.NumField())
	for i := range out {
		f := t.Field(i)
		_, scalar := kindNames[f.Type.Kind()]
		bytes := f.Type.Kind() == reflect.Slice && f.Type.Elem().Kind() == reflect.Uint8
		if f.PkgPath != "" || !(scalar || bytes) {
			out[i] = "VNil"
			continue
		}
		out[i] = gVal(v.Field(i).Interface())
	}
	return gList(out)
}
