package main

// Independent reference code for the stream `json`: an RFC 8259 recogniser (two modes) and an
// order-preserving reference parser. Nothing here uses encoding/json (nor unicode/utf8): the
// point is to judge what encoding/json + pkg/jsonline did with code that shares nothing with them.

// ---- UTF-8 (Unicode standard table 3-7), written out by hand ----

// refUTF8Len returns the length of the well-formed UTF-8 sequence at b[i:], or 0 when there is none.
func refUTF8Len(b []byte, i int) int {
	n := len(b) - i
	if n <= 0 {
		return 0
	}
	c0 := b[i]
	cont := func(k int) bool { return k < len(b) && b[k] >= 0x80 && b[k] <= 0xBF }
	switch {
	case c0 < 0x80:
		return 1
	case c0 >= 0xC2 && c0 <= 0xDF:
		if cont(i + 1) {
			return 2
		}
	case c0 >= 0xE0 && c0 <= 0xEF:
		if n < 3 {
			return 0
		}
		lo, hi := byte(0x80), byte(0xBF)
		if c0 == 0xE0 {
			lo = 0xA0 // no overlong forms
		}
		if c0 == 0xED {
			hi = 0x9F // no surrogates
		}
		if b[i+1] >= lo && b[i+1] <= hi && cont(i+2) {
			return 3
		}
	case c0 >= 0xF0 && c0 <= 0xF4:
		if n < 4 {
			return 0
		}
		lo, hi := byte(0x80), byte(0xBF)
		if c0 == 0xF0 {
			lo = 0x90
		}
		if c0 == 0xF4 {
			hi = 0x8F // nothing above U+10FFFF
		}
		if b[i+1] >= lo && b[i+1] <= hi && cont(i+2) && cont(i+3) {
			return 4
		}
	}
	return 0
}

func refAppendRune(dst []byte, c int) []byte {
	switch {
	case c < 0x80:
		return append(dst, byte(c))
	case c < 0x800:
		return append(dst, byte(0xC0|c>>6), byte(0x80|c&0x3F))
	case c < 0x10000:
		return append(dst, byte(0xE0|c>>12), byte(0x80|(c>>6)&0x3F), byte(0x80|c&0x3F))
	default:
		return append(dst, byte(0xF0|c>>18), byte(0x80|(c>>12)&0x3F), byte(0x80|(c>>6)&0x3F), byte(0x80|c&0x3F))
	}
}

func refHex(c byte) int {
	switch {
	case c >= '0' && c <= '9':
		return int(c - '0')
	case c >= 'a' && c <= 'f':
		return int(c-'a') + 10
	case c >= 'A' && c <= 'F':
		return int(c-'A') + 10
	}
	return -1
}

// refHex4 reads four hex digits at b[i:]; -1 when they are not there.
func refHex4(b []byte, i int) int {
	if i+4 > len(b) {
		return -1
	}
	v := 0
	for k := 0; k < 4; k++ {
		h := refHex(b[i+k])
		if h < 0 {
			return -1
		}
		v = v*16 + h
	}
	return v
}

// ---- (1) the recogniser ----

// strict : RFC 8259 with well-formed strings (unescaped characters are well-formed UTF-8 scalar
//
//	values >= U+0020 other than quote and backslash; a \uXXXX escape is a scalar value or
//	a high surrogate immediately followed by a \uXXXX low surrogate).
//
// lenient: any byte >= 0x20 other than quote and backslash may appear raw in a string, and any
//
//	\uXXXX is allowed. Everything else is the same.
type jrec struct {
	b      []byte
	i      int
	strict bool
}

func (p *jrec) ws() {
	for p.i < len(p.b) {
		switch p.b[p.i] {
		case ' ', '\t', '\n', '\r':
			p.i++
		default:
			return
		}
	}
}

func (p *jrec) lit(s string) bool {
	if len(p.b)-p.i < len(s) || string(p.b[p.i:p.i+len(s)]) != s {
		return false
	}
	p.i += len(s)
	return true
}

func (p *jrec) digits() int {
	n := 0
	for p.i < len(p.b) && p.b[p.i] >= '0' && p.b[p.i] <= '9' {
		p.i++
		n++
	}
	return n
}

// number = [ "-" ] ( "0" / digit1-9 *DIGIT ) [ "." 1*DIGIT ] [ ("e"/"E") [ "-"/"+" ] 1*DIGIT ]
func (p *jrec) number() bool {
	if p.i < len(p.b) && p.b[p.i] == '-' {
		p.i++
	}
	if p.i >= len(p.b) {
		return false
	}
	switch c := p.b[p.i]; {
	case c == '0':
		p.i++
	case c >= '1' && c <= '9':
		p.digits()
	default:
		return false
	}
	if p.i < len(p.b) && p.b[p.i] == '.' {
		p.i++
		if p.digits() == 0 {
			return false
		}
	}
	if p.i < len(p.b) && (p.b[p.i] == 'e' || p.b[p.i] == 'E') {
		p.i++
		if p.i < len(p.b) && (p.b[p.i] == '+' || p.b[p.i] == '-') {
			p.i++
		}
		if p.digits() == 0 {
			return false
		}
	}
	return true
}

// str: p.i is at the opening quote
func (p *jrec) str() bool {
	p.i++
	for p.i < len(p.b) {
		c := p.b[p.i]
		switch {
		case c == '"':
			p.i++
			return true
		case c == '\\':
			if p.i+1 >= len(p.b) {
				return false
			}
			switch p.b[p.i+1] {
			case '"', '\\', '/', 'b', 'f', 'n', 'r', 't':
				p.i += 2
			case 'u':
				u := refHex4(p.b, p.i+2)
				if u < 0 {
					return false
				}
				p.i += 6
				if p.strict && u >= 0xD800 && u <= 0xDFFF {
					if u >= 0xDC00 { // a low surrogate first
						return false
					}
					if p.i+1 >= len(p.b) || p.b[p.i] != '\\' || p.b[p.i+1] != 'u' {
						return false
					}
					l := refHex4(p.b, p.i+2)
					if l < 0xDC00 || l > 0xDFFF {
						return false
					}
					p.i += 6
				}
			default:
				return false
			}
		case c < 0x20:
			return false
		case c < 0x80:
			p.i++
		default:
			if p.strict {
				n := refUTF8Len(p.b, p.i)
				if n == 0 {
					return false
				}
				p.i += n
			} else {
				p.i++
			}
		}
	}
	return false
}

func (p *jrec) value() bool {
	if p.i >= len(p.b) {
		return false
	}
	switch c := p.b[p.i]; {
	case c == '{':
		p.i++
		p.ws()
		if p.i < len(p.b) && p.b[p.i] == '}' {
			p.i++
			return true
		}
		for {
			if p.i >= len(p.b) || p.b[p.i] != '"' || !p.str() {
				return false
			}
			p.ws()
			if p.i >= len(p.b) || p.b[p.i] != ':' {
				return false
			}
			p.i++
			p.ws()
			if !p.value() {
				return false
			}
			p.ws()
			if p.i >= len(p.b) {
				return false
			}
			if p.b[p.i] == '}' {
				p.i++
				return true
			}
			if p.b[p.i] != ',' {
				return false
			}
			p.i++
			p.ws()
		}
	case c == '[':
		p.i++
		p.ws()
		if p.i < len(p.b) && p.b[p.i] == ']' {
			p.i++
			return true
		}
		for {
			if !p.value() {
				return false
			}
			p.ws()
			if p.i >= len(p.b) {
				return false
			}
			if p.b[p.i] == ']' {
				p.i++
				return true
			}
			if p.b[p.i] != ',' {
				return false
			}
			p.i++
			p.ws()
		}
	case c == '"':
		return p.str()
	case c == 't':
		return p.lit("true")
	case c == 'f':
		return p.lit("false")
	case c == 'n':
		return p.lit("null")
	case c == '-' || (c >= '0' && c <= '9'):
		return p.number()
	}
	return false
}

// recognise: isValue = the line is exactly one JSON value surrounded by optional whitespace;
// isObject = moreover that value is an object.
func recognise(line []byte, strict bool) (isObject bool, isValue bool) {
	p := &jrec{b: line, strict: strict}
	p.ws()
	first := byte(0)
	if p.i < len(p.b) {
		first = p.b[p.i]
	}
	ok := p.value()
	if ok {
		p.ws()
		ok = p.i == len(p.b)
	}
	return ok && first == '{', ok
}

// ---- (2) the reference parser (strict documents only) ----

const (
	rkNull = iota
	rkTrue
	rkFalse
	rkNum
	rkStr
	rkArr
	rkObj
)

type refVal struct {
	kind int
	str  string // rkStr: the decoded string (UTF-8); rkNum: the literal text, verbatim
	arr  []refVal
	keys []string
	vals []refVal
}

func refSkipWS(b []byte, i int) int {
	for i < len(b) && (b[i] == ' ' || b[i] == '\t' || b[i] == '\n' || b[i] == '\r') {
		i++
	}
	return i
}

// refString decodes the literal whose opening quote is at b[i]; returns the index after the closing quote, or -1
func refString(b []byte, i int) (string, int) {
	var out []byte
	i++
	for i < len(b) {
		c := b[i]
		if c == '"' {
			return string(out), i + 1
		}
		if c < 0x20 {
			return "", -1
		}
		if c == '\\' {
			if i+1 >= len(b) {
				return "", -1
			}
			e := b[i+1]
			i += 2
			switch e {
			case '"':
				out = append(out, '"')
			case '\\':
				out = append(out, '\\')
			case '/':
				out = append(out, '/')
			case 'b':
				out = append(out, 8)
			case 'f':
				out = append(out, 12)
			case 'n':
				out = append(out, 10)
			case 'r':
				out = append(out, 13)
			case 't':
				out = append(out, 9)
			case 'u':
				u := refHex4(b, i)
				if u < 0 {
					return "", -1
				}
				i += 4
				if u >= 0xDC00 && u <= 0xDFFF {
					return "", -1
				}
				if u >= 0xD800 && u <= 0xDBFF {
					if i+6 > len(b) || b[i] != '\\' || b[i+1] != 'u' {
						return "", -1
					}
					l := refHex4(b, i+2)
					if l < 0xDC00 || l > 0xDFFF {
						return "", -1
					}
					i += 6
					u = 0x10000 + (u-0xD800)<<10 + (l - 0xDC00)
				}
				out = refAppendRune(out, u)
			default:
				return "", -1
			}
			continue
		}
		n := refUTF8Len(b, i)
		if n == 0 {
			return "", -1
		}
		out = append(out, b[i:i+n]...)
		i += n
	}
	return "", -1
}

func refNumber(b []byte, i int) int {
	p := &jrec{b: b, i: i}
	if !p.number() {
		return -1
	}
	return p.i
}

// refValue parses the value at b[i] (no leading whitespace); returns the index after it, or -1
func refValue(b []byte, i int) (refVal, int) {
	if i >= len(b) {
		return refVal{}, -1
	}
	has := func(s string) bool { return len(b)-i >= len(s) && string(b[i:i+len(s)]) == s }
	switch c := b[i]; {
	case c == '"':
		s, j := refString(b, i)
		return refVal{kind: rkStr, str: s}, j
	case c == 'n' && has("null"):
		return refVal{kind: rkNull}, i + 4
	case c == 't' && has("true"):
		return refVal{kind: rkTrue}, i + 4
	case c == 'f' && has("false"):
		return refVal{kind: rkFalse}, i + 5
	case c == '-' || (c >= '0' && c <= '9'):
		j := refNumber(b, i)
		if j < 0 {
			return refVal{}, -1
		}
		return refVal{kind: rkNum, str: string(b[i:j])}, j
	case c == '[':
		v := refVal{kind: rkArr}
		i = refSkipWS(b, i+1)
		if i < len(b) && b[i] == ']' {
			return v, i + 1
		}
		for {
			e, j := refValue(b, i)
			if j < 0 {
				return refVal{}, -1
			}
			v.arr = append(v.arr, e)
			i = refSkipWS(b, j)
			if i >= len(b) {
				return refVal{}, -1
			}
			if b[i] == ']' {
				return v, i + 1
			}
			if b[i] != ',' {
				return refVal{}, -1
			}
			i = refSkipWS(b, i+1)
		}
	case c == '{':
		v := refVal{kind: rkObj}
		i = refSkipWS(b, i+1)
		if i < len(b) && b[i] == '}' {
			return v, i + 1
		}
		for {
			if i >= len(b) || b[i] != '"' {
				return refVal{}, -1
			}
			k, j := refString(b, i)
			if j < 0 {
				return refVal{}, -1
			}
			i = refSkipWS(b, j)
			if i >= len(b) || b[i] != ':' {
				return refVal{}, -1
			}
			i = refSkipWS(b, i+1)
			e, j2 := refValue(b, i)
			if j2 < 0 {
				return refVal{}, -1
			}
			v.keys = append(v.keys, k)
			v.vals = append(v.vals, e)
			i = refSkipWS(b, j2)
			if i >= len(b) {
				return refVal{}, -1
			}
			if b[i] == '}' {
				return v, i + 1
			}
			if b[i] != ',' {
				return refVal{}, -1
			}
			i = refSkipWS(b, i+1)
		}
	}
	return refVal{}, -1
}

// refParse parses a whole document (ws value ws)
func refParse(line []byte) (refVal, bool) {
	i := refSkipWS(line, 0)
	v, j := refValue(line, i)
	if j < 0 {
		return refVal{}, false
	}
	if refSkipWS(line, j) != len(line) {
		return refVal{}, false
	}
	return v, true
}

func refEqual(a, b refVal) bool {
	if a.kind != b.kind || a.str != b.str || len(a.arr) != len(b.arr) || len(a.keys) != len(b.keys) {
		return false
	}
	for i := range a.arr {
		if !refEqual(a.arr[i], b.arr[i]) {
			return false
		}
	}
	for i := range a.keys {
		if a.keys[i] != b.keys[i] || !refEqual(a.vals[i], b.vals[i]) {
			return false
		}
	}
	return true
}

// refUnique: every object at every depth has unique member names
func refUnique(v refVal) bool {
	for i := range v.arr {
		if !refUnique(v.arr[i]) {
			return false
		}
	}
	if len(v.keys) > 0 {
		seen := make(map[string]bool, len(v.keys))
		for i, k := range v.keys {
			if seen[k] {
				return false
			}
			seen[k] = true
			if !refUnique(v.vals[i]) {
				return false
			}
		}
	}
	return true
}

func refDepth(v refVal) int {
	d := 0
	for i := range v.arr {
		if x := refDepth(v.arr[i]); x > d {
			d = x
		}
	}
	for i := range v.vals {
		if x := refDepth(v.vals[i]); x > d {
			d = x
		}
	}
	if v.kind == rkArr || v.kind == rkObj {
		return d + 1
	}
	return 0
}
