package main

import (
	"encoding/binary"
	"encoding/json"
	"fmt"
	"math"
	"strconv"
	"time"
)

// ---- the universe of dynamic source values for the cast stream ----

type (
	myInt    int
	myInt8   int8
	myU8     uint8
	myF64    float64
	myStr    string
	myBool   bool
	myBytes  []byte
	myNum    json.Number
	myTime   time.Time
	myArr4   [4]byte
	myStruct struct{ A int }
)

type srcVal struct {
	v    interface{}
	kind string // class for the distribution report
}

var boundaryExps = []uint{7, 8, 15, 16, 24, 31, 32, 53, 63, 64}

// integers within +-2 of every power of two / type bound, as big-ish int64/uint64 pairs
func boundaryInts() (signed []int64, unsigned []uint64) {
	seenS := map[int64]bool{}
	seenU := map[uint64]bool{}
	addS := func(x int64) {
		if !seenS[x] {
			seenS[x] = true
			signed = append(signed, x)
		}
	}
	addU := func(x uint64) {
		if !seenU[x] {
			seenU[x] = true
			unsigned = append(unsigned, x)
		}
	}
	for d := int64(-2); d <= 2; d++ {
		addS(d)
		if d >= 0 {
			addU(uint64(d))
		}
	}
	for _, e := range boundaryExps {
		for d := int64(-2); d <= 2; d++ {
			if e < 63 {
				p := int64(1) << e
				addS(p + d)
				addS(-p + d)
				addU(uint64(p + d))
			} else if e == 63 {
				if d < 0 {
					addS(math.MaxInt64 + d + 1)
				}
				if d >= 0 {
					addS(math.MinInt64 + d)
				}
				addU(uint64(1)<<63 + uint64(d))
			} else { // 64
				if d < 0 {
					addU(math.MaxUint64 + uint64(d) + 1)
				}
			}
		}
	}
	return
}

func fitsS(x int64, bits uint) bool {
	if bits == 64 {
		return true
	}
	return x >= -(int64(1)<<(bits-1)) && x < int64(1)<<(bits-1)
}

func fitsU(x uint64, bits uint) bool {
	if bits == 64 {
		return true
	}
	return x < uint64(1)<<bits
}

func intSources(r *rng, nRandom int) []srcVal {
	var out []srcVal
	s, u := boundaryInts()
	for i := 0; i < nRandom; i++ {
		x := r.next()
		sh := uint(r.intn(64))
		s = append(s, int64(x)>>sh)
		u = append(u, x>>sh)
	}
	for _, x := range s {
		out = append(out, srcVal{int64(x), "int64"}, srcVal{int(x), "int"})
		if fitsS(x, 32) {
			out = append(out, srcVal{int32(x), "int32"})
		}
		if fitsS(x, 16) {
			out = append(out, srcVal{int16(x), "int16"})
		}
		if fitsS(x, 8) {
			out = append(out, srcVal{int8(x), "int8"})
		}
	}
	for _, x := range u {
		out = append(out, srcVal{uint64(x), "uint64"}, srcVal{uint(x), "uint"})
		if fitsU(x, 32) {
			out = append(out, srcVal{uint32(x), "uint32"})
		}
		if fitsU(x, 16) {
			out = append(out, srcVal{uint16(x), "uint16"})
		}
		if fitsU(x, 8) {
			out = append(out, srcVal{uint8(x), "uint8"})
		}
	}
	return out
}

func float64Boundary() []float64 {
	var out []float64
	add := func(f float64) {
		out = append(out, f)
	}
	around := func(f float64) {
		add(f)
		up, dn := f, f
		for i := 0; i < 2; i++ {
			up = math.Nextafter(up, math.Inf(1))
			dn = math.Nextafter(dn, math.Inf(-1))
			add(up)
			add(dn)
		}
	}
	for _, e := range boundaryExps {
		p := math.Ldexp(1, int(e))
		around(p)
		around(-p)
		around(p - 1)
		around(-p - 1)
		around(p + 1)
		around(p - 0.5)
		around(-p + 0.5)
	}
	for _, f := range []float64{0, math.Copysign(0, -1), 0.5, -0.5, 1.5, -1.5, 0.1, -0.1, 0.9999999999999999, 1, -1, 2, 127.5, 128.5, -128.5, 255.5, 1e21, 1e22, 1e23, 5e-324, -5e-324,
		2.2250738585072014e-308, 2.225073858507201e-308, math.MaxFloat64, -math.MaxFloat64, math.SmallestNonzeroFloat64,
		math.MaxFloat32, -math.MaxFloat32, float64(math.MaxFloat32) * 1.0000001, math.SmallestNonzeroFloat32, 3.4028235677973366e38, 1e-46, 16777217, 9007199254740993,
		123456789.125, 1e15 + 0.3, 4.35, 0.3, 2.675, 1e-7, 123456.7} {
		add(f)
	}
	add(math.Inf(1))
	add(math.Inf(-1))
	add(math.NaN())
	add(math.Float64frombits(0x7FF0000000000001)) // signalling NaN, payload 1
	add(math.Float64frombits(0xFFF8000000000000)) // negative quiet NaN
	add(math.Float64frombits(0x7FFFFFFFFFFFFFFF))
	add(math.Float64frombits(0x7FF4000020000001))
	return out
}

func float32Boundary() []float32 {
	var out []float32
	add := func(f float32) { out = append(out, f) }
	around := func(f float32) {
		add(f)
		up, dn := f, f
		for i := 0; i < 2; i++ {
			up = math.Nextafter32(up, float32(math.Inf(1)))
			dn = math.Nextafter32(dn, float32(math.Inf(-1)))
			add(up)
			add(dn)
		}
	}
	for _, e := range boundaryExps {
		p := float32(math.Ldexp(1, int(e)))
		around(p)
		around(-p)
		around(p - 1)
		around(p - 0.5)
	}
	for _, f := range []float32{0, float32(math.Copysign(0, -1)), 0.5, -0.5, 1.5, 0.1, -0.1, 1, -1, 127.5, 255.5, 1e21, math.MaxFloat32, -math.MaxFloat32,
		math.SmallestNonzeroFloat32, 1.1754944e-38, 1.1754942e-38, 16777216, 16777218, 0.3, 4.35, 1e-7, 123456.7, 3.4028235e38} {
		add(f)
	}
	add(float32(math.Inf(1)))
	add(float32(math.Inf(-1)))
	add(float32(math.NaN()))
	add(math.Float32frombits(0x7F800001))
	add(math.Float32frombits(0xFFC00000))
	add(math.Float32frombits(0x7FFFFFFF))
	add(math.Float32frombits(0x7FA00001))
	// the float32 whose shortest decimal text, read as a float64 and then narrowed, rounds twice (to 0x15ae43fe):
	// a text must be parsed at the value's own bit size
	add(math.Float32frombits(0x15ae43fd))
	add(math.Float32frombits(0x95ae43fd))
	return out
}

func floatSources(r *rng, nRandom int) []srcVal {
	var out []srcVal
	for _, f := range float64Boundary() {
		out = append(out, srcVal{f, "float64"})
	}
	for _, f := range float32Boundary() {
		out = append(out, srcVal{f, "float32"})
	}
	for i := 0; i < nRandom; i++ {
		out = append(out, srcVal{math.Float64frombits(r.next()), "float64"})
		out = append(out, srcVal{math.Float32frombits(uint32(r.next())), "float32"})
		// random integers carried by floats
		out = append(out, srcVal{float64(int64(r.next()) >> uint(r.intn(64))), "float64"})
		out = append(out, srcVal{float32(int32(r.next()) >> uint(r.intn(32))), "float32"})
	}
	return out
}

var nonCanonicalTexts = []string{
	"", " ", "+5", "-", "+", "--5", "-+5", "010", "0x10", "0X1f", "0b101", "0o17", "1_0", "1__0", "_1", "1_", "0x_1", "0_1", "1e3", "1E3", "1.0", "1.5", "-1.5",
	" 5", "5 ", "5\n", "00", "-0", "+0", "0x", "0b", "0o", "0xg", "08", "09", "0777", "१२३", "1,000", "1.", ".5", "0.1", "-0.0", "1e400", "-1e400", "1e-400",
	"NaN", "nan", "Inf", "+Inf", "-Inf", "inf", "infinity", "Infinity", "0x1p-2", "0x1.8p1", "1_000.5",
	"true", "false", "TRUE", "FALSE", "True", "False", "t", "f", "T", "F", "1", "0", "tRuE", "yes", "no",
	"2006-01-02", "2021-02-29", "2020-02-29", "0000-01-01", "9999-12-31", "2006-1-2", "2006-13-01", "2006-00-10", "2006-01-32", "20060102", "2006-01-02 ", "2006-01-02T",
	"2006-01-02T15:04:05Z", "2006-01-02T15:04:05+07:00", "2006-01-02T15:04:05-23:59", "2006-01-02T15:04:05+23:59", "2006-01-02T15:04:05.999999999Z", "2006-01-02T15:04:05.5+01:00",
	"2006-01-02T15:04:05.1234567891Z", "2006-01-02t15:04:05Z", "2006-01-02T15:04:05z", "2006-01-02T5:04:05Z", "2006-01-02T15:04:05", "2006-01-02T15:04:05+24:00", "2006-01-02T15:04:05+07:60",
	"2006-01-02T24:00:00Z", "2006-01-02T23:59:60Z", "2006-01-02T15:04:05,5Z", "2006-01-02T15:04:05+0700", "2006-01-02T15:04:05+07", "0001-01-01T00:00:00Z", "9999-12-31T23:59:59Z",
	// wall clocks inside the hour repeated at the end of DST, with both offsets and a fraction (Paris, New York, St John's)
	"2021-10-31T02:30:00.5+02:00", "2021-10-31T02:30:00.5+01:00", "2021-10-31T02:30:00+02:00", "2021-11-07T01:30:00.25-04:00", "2021-11-07T01:30:00.25-05:00",
	"2021-11-07T01:30:00.5-02:30", "2021-11-07T01:30:00.5-03:30", "2021-03-28T02:30:00.5+01:00", "2021-03-14T02:30:00.5-05:00",
	"0000-01-01T00:00:00Z", "2006-02-30T00:00:00Z", "2020-02-29T12:00:00+05:30", "1969-12-31T23:59:59.5Z", "1969-12-31T23:59:59.5-00:30", "2006-01-02T15:04:05+00:00", "2006-01-02T15:04:05-00:00",
	"AQ==", "AAE=", "AAEC", "AAECAw==", "QUJD", "AQ", "A===", "AQ==\n", "A\nQ==", "AR==", "!!!!", "AAAAAAAAAAA=", "////", "++++",
	"hello", "héllo", "\x00", "\xff\xfe", "a\"b\\c", " ", "😀",
	// exponent spellings of integers (exact, beyond 2^53, at the bounds of the integer types), fractions in disguise
	"9007199254740993e0", "-9007199254740993e0", "9223372036854775807e0", "18446744073709551615e0", "1.8446744073709551615e19", "9.223372036854775807E+18",
	"27e18", "28e18", "36e18", "55e18", "92e18", "185e17", "1845e16", "19e18", "-27e18", "12e1", "1.27e2", "1.28e2", "2.55e2", "2.56e2", "6.5535e4", "4294967295e0", "1e0", "1E+0", "10e-1", "15e-1", "1e19", "1e20", "-1e0",
	// wall-clock years 0000 / 9999 whose UTC year is another one, and the reverse
	"9999-12-31T23:30:00-01:00", "9999-12-31T23:59:59-23:59", "9999-12-31T23:30:00+01:00", "0000-01-01T00:30:00+01:00", "0000-01-01T00:00:00+23:59", "0000-01-01T00:30:00-01:00",
}

func textSources(r *rng, nRandom int) []srcVal {
	var texts []string
	s, u := boundaryInts()
	for _, x := range s {
		texts = append(texts, strconv.FormatInt(x, 10))
	}
	for _, x := range u {
		texts = append(texts, strconv.FormatUint(x, 10))
	}
	// just outside the 64-bit ranges
	texts = append(texts, "9223372036854775808", "-9223372036854775809", "18446744073709551616", "18446744073709551617", "-18446744073709551615",
		"123456789012345678901234567890", "-123456789012345678901234567890")
	texts = append(texts, nonCanonicalTexts...)
	for _, f := range float64Boundary() {
		texts = append(texts, strconv.FormatFloat(f, 'f', -1, 64))
	}
	for _, f := range float32Boundary() {
		texts = append(texts, strconv.FormatFloat(float64(f), 'f', -1, 32))
	}
	for i := 0; i < nRandom; i++ {
		switch r.intn(6) {
		case 0:
			texts = append(texts, strconv.FormatInt(int64(r.next())>>uint(r.intn(64)), 10))
		case 1:
			texts = append(texts, strconv.FormatFloat(math.Float64frombits(r.next()), 'f', -1, 64))
		case 2:
			texts = append(texts, time.Unix(int64(r.next()%253402300800), 0).UTC().Add(time.Duration(r.intn(86400))*time.Second).Format(time.RFC3339))
		case 3:
			off := r.intn(2*1439+1) - 1439
			z := time.FixedZone("", off*60)
			texts = append(texts, time.Unix(int64(r.next()%253402214400), int64(r.intn(1000000000))).In(z).Format(time.RFC3339Nano))
		case 4:
			n := r.intn(12)
			b := make([]byte, n)
			for j := range b {
				b[j] = "0123456789+-_.eExXbBoO :TZ"[r.intn(26)]
			}
			texts = append(texts, string(b))
		default:
			n := r.intn(10)
			b := make([]byte, n)
			for j := range b {
				b[j] = byte(r.next())
			}
			texts = append(texts, string(b))
		}
	}
	var out []srcVal
	for _, t := range texts {
		out = append(out, srcVal{t, "string"}, srcVal{json.Number(t), "json.Number"})
	}
	// a subset of texts also as []byte
	for i, t := range texts {
		if i%3 == 0 {
			out = append(out, srcVal{[]byte(t), "[]byte(text)"})
		}
	}
	return out
}

func bytesSources(r *rng, nRandom int) []srcVal {
	var out []srcVal
	out = append(out, srcVal{[]byte(nil), "[]byte(nil)"}, srcVal{[]byte{}, "[]byte"})
	for n := 1; n <= 17; n++ {
		for k := 0; k < 3; k++ {
			b := make([]byte, n)
			for j := range b {
				switch k {
				case 0:
					b[j] = 0
				case 1:
					b[j] = 0xff
				default:
					b[j] = byte(r.next())
				}
			}
			out = append(out, srcVal{b, fmt.Sprintf("[]byte(len=%d)", n)})
		}
	}
	// lengths that equal a fixed width modulo 256 (a length held in a byte wraps there)
	for _, n := range []int{256, 257, 258, 260, 264, 512 + 8} {
		b := make([]byte, n)
		for j := range b {
			b[j] = byte(j)
		}
		out = append(out, srcVal{b, "[]byte(len=256k+size)"})
	}
	s, _ := boundaryInts()
	for _, x := range s {
		b := make([]byte, 8)
		binary.LittleEndian.PutUint64(b, uint64(x))
		out = append(out, srcVal{b, "[]byte(len=8)"})
		if fitsS(x, 32) {
			out = append(out, srcVal{b[:4:4], "[]byte(len=4)"})
		}
		if fitsS(x, 16) {
			out = append(out, srcVal{b[:2:2], "[]byte(len=2)"})
		}
	}
	for _, f := range float64Boundary() {
		b := make([]byte, 8)
		binary.LittleEndian.PutUint64(b, math.Float64bits(f))
		out = append(out, srcVal{b, "[]byte(len=8)"})
	}
	for _, f := range float32Boundary() {
		b := make([]byte, 4)
		binary.LittleEndian.PutUint32(b, math.Float32bits(f))
		out = append(out, srcVal{b, "[]byte(len=4)"})
	}
	for i := 0; i < nRandom; i++ {
		n := []int{1, 2, 4, 8, 8, 4, r.intn(18)}[r.intn(7)]
		b := make([]byte, n)
		for j := range b {
			b[j] = byte(r.next())
		}
		out = append(out, srcVal{b, fmt.Sprintf("[]byte(len=%d)", n)})
	}
	return out
}

func timeSources(r *rng, nRandom int) []srcVal {
	var out []srcVal
	add := func(t time.Time) { out = append(out, srcVal{t, "time.Time"}) }
	add(time.Time{})
	add(time.Unix(0, 0))
	add(time.Unix(0, 0).UTC())
	add(time.Unix(-1, 500000000).UTC())
	add(time.Unix(253402300799, 0).UTC())
	add(time.Unix(253402300800, 0).UTC())
	add(time.Unix(-62167219200, 0).UTC())
	add(time.Unix(-62167219201, 0).UTC())
	add(time.Unix(1e12, 0))
	add(time.Date(2020, 2, 29, 23, 59, 59, 999999999, time.FixedZone("", 5*3600+1800)))
	add(time.Date(2021, 3, 28, 2, 30, 0, 0, time.Local))
	add(time.Date(2021, 10, 31, 2, 30, 0, 0, time.Local))
	add(time.Date(1999, 12, 31, 23, 59, 59, 0, time.FixedZone("x", -(23*3600 + 59*60))))
	add(time.Date(1, 1, 1, 0, 0, 0, 0, time.FixedZone("x", 23*3600+59*60)))
	add(time.Date(2000, 1, 1, 0, 0, 0, 0, time.FixedZone("odd", 3600+30)))
	for i := 0; i < nRandom; i++ {
		sec := int64(r.next()%(253402300800+62135596800)) - 62135596800
		var t time.Time
		switch r.intn(3) {
		case 0:
			t = time.Unix(sec, 0)
		case 1:
			t = time.Unix(sec, int64(r.intn(1e9))).UTC()
		default:
			t = time.Unix(sec, int64(r.intn(1e9))).In(time.FixedZone("", (r.intn(2*1439+1)-1439)*60))
		}
		add(t)
	}
	return out
}

func otherSources() []srcVal {
	i := 5
	var np *int
	var nilMap map[string]interface{}
	var nilErr error
	_ = nilErr
	out := []srcVal{
		{myInt(5), "named"}, {myInt8(-3), "named"}, {myU8(7), "named"}, {myF64(1.5), "named"}, {myStr("12"), "named"}, {myBool(true), "named"},
		{myBytes{1, 2}, "named"}, {myNum("12"), "named"}, {myTime(time.Unix(5, 0)), "named"},
		{&i, "pointer"}, {np, "typed nil"}, {(*time.Time)(nil), "typed nil"}, {&time.Time{}, "pointer"}, {nilMap, "typed nil"}, {[]interface{}(nil), "typed nil"},
		{myStruct{1}, "struct"}, {struct{}{}, "struct"}, {map[string]interface{}{"a": 1}, "map"}, {map[int]int{}, "map"},
		{[]interface{}{1, "a"}, "slice"}, {[]int{1, 2}, "slice"}, {[]string{"a"}, "slice"}, {[]int8{1}, "slice"},
		{func() {}, "func"}, {make(chan int), "chan"}, {complex(1, 2), "complex"}, {uintptr(5), "uintptr"}, {complex64(1), "complex"},
		{[2]int8{1, 2}, "array"}, {[3]int{1, 2, 3}, "array"}, {[1]string{"a"}, "array"}, {[2]uint16{1, 2}, "array"}, {[0]int{}, "array"},
		{myArr4{1, 2, 3, 4}, "bytearray"}, {[2]myU8{1, 2}, "bytearray(named elem)"}, {[0]myU8{}, "bytearray(named elem)"},
		{fmt.Errorf("x"), "pointer"}, {time.Second, "named"}, {time.UTC, "pointer"}, {json.RawMessage("1"), "named"},
	}
	// byte arrays of every length 0..16
	out = append(out,
		srcVal{[0]byte{}, "bytearray"}, srcVal{[1]byte{255}, "bytearray"}, srcVal{[2]byte{1, 2}, "bytearray"}, srcVal{[3]byte{1, 2, 3}, "bytearray"},
		srcVal{[4]byte{0, 0, 128, 63}, "bytearray"}, srcVal{[5]byte{1, 2, 3, 4, 5}, "bytearray"}, srcVal{[6]byte{1}, "bytearray"}, srcVal{[7]byte{7}, "bytearray"},
		srcVal{[8]byte{0, 0, 0, 0, 0, 0, 240, 63}, "bytearray"}, srcVal{[9]byte{9}, "bytearray"}, srcVal{[10]byte{10}, "bytearray"}, srcVal{[11]byte{11}, "bytearray"},
		srcVal{[12]byte{12}, "bytearray"}, srcVal{[13]byte{13}, "bytearray"}, srcVal{[14]byte{14}, "bytearray"}, srcVal{[15]byte{15}, "bytearray"}, srcVal{[16]byte{16}, "bytearray"},
		srcVal{[4]uint8{1, 2, 3, 4}, "bytearray"})
	return out
}

type castTarget struct {
	name   string
	fn     int         // 0: cast.To(sample, v)   1: cast.ToDate   2: cast.ToTimestamp
	sample interface{} // for fn 0
	want   string      // %T of a successful non-nil result ("" = identity / none)
	bits   uint        // for integer targets
	signed bool
}

var castTargets = []castTarget{
	{"int", 0, int(0), "int", 64, true},
	{"int64", 0, int64(0), "int64", 64, true},
	{"int32", 0, int32(0), "int32", 32, true},
	{"int16", 0, int16(0), "int16", 16, true},
	{"int8", 0, int8(0), "int8", 8, true},
	{"uint", 0, uint(0), "uint", 64, false},
	{"uint64", 0, uint64(0), "uint64", 64, false},
	{"uint32", 0, uint32(0), "uint32", 32, false},
	{"uint16", 0, uint16(0), "uint16", 16, false},
	{"uint8", 0, uint8(0), "uint8", 8, false},
	{"float64", 0, float64(0), "float64", 0, false},
	{"float32", 0, float32(0), "float32", 0, false},
	{"bool", 0, true, "bool", 0, false},
	{"string", 0, "", "string", 0, false},
	{"[]byte", 0, []byte{}, "[]uint8", 0, false},
	{"time.Time", 0, time.Time{}, "time.Time", 0, false},
	{"json.Number", 0, json.Number(""), "json.Number", 0, false},
	{"nil", 0, nil, "", 0, false},
	{"date", 1, nil, "string", 0, false},
	{"timestamp", 2, nil, "int64", 0, false},
	// targets cast.To does not know: error wrapping the sentinel
	{"unknown:struct", 0, struct{}{}, "!", 0, false},
	{"unknown:named", 0, myInt(0), "!", 0, false},
	{"unknown:complex", 0, complex(0, 0), "!", 0, false},
	{"unknown:*int", 0, (*int)(nil), "!", 0, false},
}
