package main

import "os"

// splitmix64: every random choice of the harness derives from one state seeded by VERIF_SEED,
// so a case is reproducible from (seed, stream, index).
type rng struct{ s uint64 }

func newRng(seed uint64, stream string) *rng {
	h := seed*0x9E3779B97F4A7C15 + 0x1234567
	for i := 0; i < len(stream); i++ {
		h = (h ^ uint64(stream[i])) * 0x100000001B3
	}
	return &rng{h}
}

func (r *rng) next() uint64 {
	r.s += 0x9E3779B97F4A7C15
	z := r.s
	z = (z ^ (z >> 30)) * 0xBF58476D1CE4E5B9
	z = (z ^ (z >> 27)) * 0x94D049BB133111EB
	return z ^ (z >> 31)
}

func (r *rng) intn(n int) int {
	if n <= 0 {
		return 0
	}
	return int(r.next() % uint64(n))
}

func (r *rng) bool() bool { return r.next()&1 == 1 }

func (r *rng) pick(n int) int { return r.intn(n) }

// noteCase records what the harness is about to execute, so that the driver can name the input
// when the process dies in a way recover() cannot catch (stack overflow, out of memory)
func noteCase(stream, what string) {
	path := os.Getenv("VERIF_LASTCASE")
	if path == "" {
		return
	}
	_ = os.WriteFile(path, []byte(stream+"\n"+what), 0o644)
}
