package main

// Stream "alias": histories over several templates and rows of the real package (builder calls,
// CreateRowEmpty, CreateRow of every input kind, UnmarshalJSON, Set, ImportAtKey, ImportAtPath,
// Export through an exporter, one Stream step), dumped after every step for the store model
// (JL.model.Heap), plus the direct oracle of C15: an operation changes nothing but its target.

import (
	"bytes"
	"fmt"
	"os"
	"path/filepath"
	"strings"

	"github.com/cgi-fr/jsonline/pkg/jsonline"
)

type aliasObj struct {
	tpl    jsonline.Template // non-nil for a template
	row    jsonline.Row      // non-nil for a live row
	origin int               // for a row: the template it was created from (-1 unknown)
}

type aliasCtx struct {
	rep   *streamReport
	props map[string]bool
	r     *rng
	sink  *scalarSink
	objs  []aliasObj
}

func (c *aliasCtx) violate(prop, what string, input interface{}) {
	if c.props[prop] {
		addViolation(c.rep, prop, what, input)
	}
}

// what can be seen of an object without touching it
func (c *aliasCtx) snapshot(o aliasObj) string {
	if o.tpl != nil {
		r := o.tpl.CreateRowEmpty()
		return "template:" + r.DebugString() + "|" + r.String()
	}
	return "row:" + o.row.DebugString() + "|" + o.row.String()
}

func (c *aliasCtx) observe() []string {
	var obs []string
	for i, o := range c.objs {
		if o.tpl != nil {
			obs = append(obs, fmt.Sprintf("ObsTemplate %d %s", i, gRow(o.tpl.CreateRowEmpty(), c.sink)))
		} else {
			obs = append(obs, fmt.Sprintf("ObsRow %d %s", i, gRow(o.row, c.sink)))
		}
	}
	return obs
}

func (c *aliasCtx) pick(wantTpl bool) int {
	var idx []int
	for i, o := range c.objs {
		if (o.tpl != nil) == wantTpl {
			idx = append(idx, i)
		}
	}
	if len(idx) == 0 {
		return -1
	}
	return idx[c.r.intn(len(idx))]
}

func genPlainValue(r *rng) interface{} {
	for {
		v := genValue(r, 1)
		switch v.(type) {
		case jsonline.Value: // a Value (or Row) handed as data is explicit sharing: not part of this stream
			continue
		}
		return v
	}
}

func (c *aliasCtx) history(nops int) string {
	r := c.r
	c.objs = nil
	c.sink = &scalarSink{seen: map[string]bool{}}
	var steps, hist []string
	// every history starts with a template
	for s := 0; s < nops; s++ {
		var op, desc string
		target := -1 // object the operation is allowed to change
		newObj := aliasObj{}
		before := make([]string, len(c.objs))
		for i, o := range c.objs {
			before[i] = c.snapshot(o)
		}
		kind := r.intn(16)
		if len(c.objs) == 0 {
			kind = 0
		}
		noteCase("alias", strings.Join(hist, " ; ")+fmt.Sprintf(" ; <operation kind %d>", kind))
		p, msg := guard(func() {
			switch kind {
			case 0:
				desc = "NewTemplate()"
				op = "HNewTemplate"
				newObj.tpl = jsonline.NewTemplate()
			case 1, 2:
				t := c.pick(true)
				name := genKey(r)
				f := allFormats[r.intn(len(allFormats))]
				typ := rawTypeSamples[r.intn(len(rawTypeSamples))]
				if r.intn(4) == 0 {
					// byte-slice columns: the one raw type whose contents could be shared between a row and its clone
					f = jsonline.Binary
					typ = []interface{}{nil, []byte{}}[r.intn(2)]
				}
				desc = fmt.Sprintf("#%d.With(%q, %s, %T)", t, name, gFormat(f), typ)
				c.sink.add(typ)
				op = fmt.Sprintf("HWith %d %s %s %s", t, gStr(name), gFormat(f), gVal(typ))
				c.objs[t].tpl.With(name, f, typ)
				target = t
			case 3:
				t, sub := c.pick(true), c.pick(true)
				name := genKey(r)
				desc = fmt.Sprintf("#%d.WithRow(%q, #%d)", t, name, sub)
				op = fmt.Sprintf("HWithRow %d %s %d", t, gStr(name), sub)
				c.objs[t].tpl.WithRow(name, c.objs[sub].tpl)
				target = t
			case 4, 5:
				t := c.pick(true)
				desc = fmt.Sprintf("#%d.CreateRowEmpty()", t)
				op = fmt.Sprintf("HCreateEmpty %d", t)
				newObj.row = c.objs[t].tpl.CreateRowEmpty()
			case 6, 7:
				t := c.pick(true)
				var input interface{}
				var spare []interface{}
				var gin string
				switch r.intn(4) {
				case 0:
					// (spare capacity behind the slice, filled with a sentinel: an append by the callee would write there)
					n := r.intn(4)
					full := make([]interface{}, n+3)
					for i := range full {
						full[i] = "spare-capacity-sentinel"
					}
					arr := full[:n]
					for i := range arr {
						arr[i] = genPlainValue(r)
					}
					spare = full
					input, gin = arr, gRv(arr, c.sink)
				case 1:
					m := map[string]interface{}{}
					if r.bool() {
						m[genKey(r)] = genPlainValue(r)
					}
					input, gin = m, gRv(m, c.sink)
				case 2:
					doc := genDoc(r, 0, true)
					var sb strings.Builder
					doc.text(&sb)
					doc.gParsed(c.sink)
					input, gin = sb.String(), "(RS (VStr "+gStr(sb.String())+"))"
				default:
					input, gin = 7, "(RS (VInt KInt 7))"
				}
				desc = fmt.Sprintf("#%d.CreateRow(%s)", t, describe(input))
				op = fmt.Sprintf("HCreate %d %s", t, gin)
				argBefore := fmt.Sprintf("%#v|%#v", input, spare)
				row, err := c.objs[t].tpl.CreateRow(input)
				if err == nil && row != nil {
					newObj.row = row
				}
				// the argument belongs to the caller: CreateRow reads it and leaves it as it was
				c.rep.OracleChecks["C15"]++
				if argAfter := fmt.Sprintf("%#v|%#v", input, spare); argAfter != argBefore {
					c.violate("C15", fmt.Sprintf("alias: CreateRow changed its argument (or the memory behind it): %s -> %s", argBefore, argAfter), map[string]interface{}{"stream": "alias", "history": strings.Join(append(append([]string{}, hist...), desc), " ; ")})
				}
			case 8, 9:
				t, src := c.pick(true), c.pick(false)
				if src >= 0 && c.objs[src].origin >= 0 && r.bool() {
					t = c.objs[src].origin // re-create a row under the template it came from: same column declarations
				}
				if src < 0 {
					desc = "NewTemplate()"
					op = "HNewTemplate"
					newObj.tpl = jsonline.NewTemplate()
					break
				}
				if r.bool() {
					// what Exporter.Export does with a row: re-create it under the template, marshal, write; nothing is kept
					desc = fmt.Sprintf("#%d.GetExporter(w).Export(#%d)", t, src)
					op = fmt.Sprintf("HCreateFromRow %d %d", t, src)
					var buf bytes.Buffer
					_ = c.objs[t].tpl.GetExporter(&buf).Export(c.objs[src].row)
					row, err := c.objs[t].tpl.CreateRow(c.objs[src].row)
					if err == nil && row != nil {
						newObj.row = row
					}
				} else {
					desc = fmt.Sprintf("#%d.CreateRow(#%d)", t, src)
					op = fmt.Sprintf("HCreateFromRow %d %d", t, src)
					row, err := c.objs[t].tpl.CreateRow(c.objs[src].row)
					if err == nil && row != nil {
						newObj.row = row
					}
				}
			case 10, 11:
				rw := c.pick(false)
				if rw < 0 {
					desc, op = "NewTemplate()", "HNewTemplate"
					newObj.tpl = jsonline.NewTemplate()
					break
				}
				doc := genDoc(r, 0, true)
				var sb strings.Builder
				doc.text(&sb)
				doc.gParsed(c.sink)
				txt := sb.String()
				if r.intn(5) == 0 {
					txt = txt[:len(txt)-1] + ",@" // rejected part-way
				}
				desc = fmt.Sprintf("#%d.UnmarshalJSON(%s)", rw, txt)
				op = fmt.Sprintf("HUnmarshal %d %s", rw, gStr(txt))
				_ = c.objs[rw].row.UnmarshalJSON([]byte(txt))
				target = rw
			case 12:
				rw := c.pick(false)
				if rw < 0 {
					desc, op = "NewTemplate()", "HNewTemplate"
					newObj.tpl = jsonline.NewTemplate()
					break
				}
				k, v := genKey(r), genPlainValue(r)
				desc = fmt.Sprintf("#%d.Set(%q, %s)", rw, k, describe(v))
				op = fmt.Sprintf("HSet %d %s %s", rw, gStr(k), gRv(v, c.sink))
				argBefore := fmt.Sprintf("%#v", v)
				c.objs[rw].row.Set(k, v)
				c.rep.OracleChecks["C15"]++
				if argAfter := fmt.Sprintf("%#v", v); argAfter != argBefore {
					c.violate("C15", fmt.Sprintf("alias: %s changed its argument: %s -> %s", desc, argBefore, argAfter), map[string]interface{}{"stream": "alias", "history": strings.Join(append(append([]string{}, hist...), desc), " ; ")})
				}
				target = rw
			case 13, 14:
				rw := c.pick(false)
				if rw < 0 {
					desc, op = "NewTemplate()", "HNewTemplate"
					newObj.tpl = jsonline.NewTemplate()
					break
				}
				k, v := genKey(r), genPlainValue(r)
				if keys := rowKeys(c.objs[rw].row); len(keys) > 0 && r.intn(3) != 0 {
					k = keys[r.intn(len(keys))]
				}
				if cell, ok := c.objs[rw].row.GetValue(k); ok && cell != nil && cell.GetFormat() == jsonline.Binary && r.intn(3) != 0 {
					// payloads of several lengths, shorter and longer than what the column may hold already
					v = []string{"AAECAwQFBgcICQ==", "/////w==", "AQ==", "", "aGVsbG8gd29ybGQ=", "not base64"}[r.intn(6)]
				}
				desc = fmt.Sprintf("#%d.ImportAtKey(%q, %s)", rw, k, describe(v))
				op = fmt.Sprintf("HImportAtKey %d %s %s", rw, gStr(k), gRv(v, c.sink))
				argBefore := fmt.Sprintf("%#v", v)
				_ = c.objs[rw].row.ImportAtKey(k, v)
				c.rep.OracleChecks["C15"]++
				if argAfter := fmt.Sprintf("%#v", v); argAfter != argBefore {
					c.violate("C15", fmt.Sprintf("alias: %s changed its argument: %s -> %s", desc, argBefore, argAfter), map[string]interface{}{"stream": "alias", "history": strings.Join(append(append([]string{}, hist...), desc), " ; ")})
				}
				target = rw
			default:
				rw := c.pick(false)
				if rw < 0 {
					desc, op = "NewTemplate()", "HNewTemplate"
					newObj.tpl = jsonline.NewTemplate()
					break
				}
				// one-segment paths only: a longer path writes BELOW the top level, into a nested row that
				// CloneRow / CreateRow(row) share by design (outside C15, which speaks of the top level)
				p, v := genKey(r), genPlainValue(r)
				if strings.Contains(p, ".") {
					p = "a"
				}
				desc = fmt.Sprintf("#%d.ImportAtPath(%q, %s)", rw, p, describe(v))
				op = fmt.Sprintf("HImportAtPath %d %s %s", rw, gStr(p), gRv(v, c.sink))
				argBefore := fmt.Sprintf("%#v", v)
				_ = c.objs[rw].row.ImportAtPath(p, v)
				c.rep.OracleChecks["C15"]++
				if argAfter := fmt.Sprintf("%#v", v); argAfter != argBefore {
					c.violate("C15", fmt.Sprintf("alias: %s changed its argument: %s -> %s", desc, argBefore, argAfter), map[string]interface{}{"stream": "alias", "history": strings.Join(append(append([]string{}, hist...), desc), " ; ")})
				}
				target = rw
			}
		})
		hist = append(hist, desc)
		hs := strings.Join(hist, " ; ")
		if p {
			c.violate("C17", "panic: "+msg, map[string]interface{}{"stream": "alias", "history": hs})
			break
		}
		// C15: nothing but the target changed
		for i, o := range c.objs {
			if i == target {
				continue
			}
			c.rep.OracleChecks["C15"]++
			if after := c.snapshot(o); after != before[i] {
				c.violate("C15", fmt.Sprintf("alias: operation %q changed object #%d: %s -> %s", desc, i, before[i], after),
					map[string]interface{}{"stream": "alias", "history": hs})
			}
		}
		if newObj.tpl != nil || newObj.row != nil {
			newObj.origin = -1
			if newObj.row != nil && (strings.HasPrefix(op, "HCreate")) {
				fmt.Sscanf(strings.Fields(op)[1], "%d", &newObj.origin)
			}
			c.objs = append(c.objs, newObj)
		}
		c.rep.Distribution["op:"+strings.SplitN(op, " ", 2)[0]]++
		steps = append(steps, fmt.Sprintf("mkhs (%s) %s", op, gList(c.observe())))
	}
	if len(steps) == 0 {
		return ""
	}
	tr := &transcript{}
	for _, v := range c.sink.vals {
		t := transcriptFor(v)
		tr.ffmt = append(tr.ffmt, t.ffmt...)
		tr.fparse = append(tr.fparse, t.fparse...)
		tr.f2i = append(tr.f2i, t.f2i...)
		tr.loc = append(tr.loc, t.loc...)
		tr.slow = append(tr.slow, t.slow...)
	}
	if len(c.rep.Samples) < 5 {
		c.rep.Samples = append(c.rep.Samples, strings.Join(hist, " ; "))
	}
	return fmt.Sprintf("mkhc %s\n  [%s]", tr.gallina(), strings.Join(steps, ";\n   "))
}

// the rows an importer hands out are independent of one another, also when GetRow is asked twice for one line
func (c *aliasCtx) getRowTwiceOracle() {
	tpl := jsonline.NewTemplate().WithNumeric("n").WithString("s")
	imp := tpl.GetImporter(strings.NewReader("{\"n\":1,\"s\":\"a\",\"x\":[1]}\n{\"n\":2}\n"))
	p, msg := guard(func() {
		for imp.Import() {
			r1, e1 := imp.GetRow()
			r2, e2 := imp.GetRow()
			if e1 != nil || e2 != nil || r1 == nil || r2 == nil {
				continue
			}
			before := c.snapshot(aliasObj{row: r2})
			r1.Set("s", "changed")
			_ = r1.ImportAtKey("n", 99)
			r1.Set("new", true)
			c.rep.OracleChecks["C15"]++
			if after := c.snapshot(aliasObj{row: r2}); after != before {
				c.violate("C15", fmt.Sprintf("alias: two GetRow() calls for one line return rows that are not independent: writing one changed the other: %s -> %s", before, after),
					map[string]interface{}{"stream": "alias", "history": "imp.Import(); r1 = imp.GetRow(); r2 = imp.GetRow(); r1.Set / ImportAtKey"})
			}
		}
	})
	if p {
		c.violate("C17", "panic: "+msg, map[string]interface{}{"stream": "alias", "history": "GetRow twice"})
	}
}

// byte-slice columns: a clone (CloneRow, CreateRow(row), what Export does) holds the same bytes as its source;
// importing into the clone — a shorter payload, a longer one, a text that is not base64, through ImportAtKey,
// ImportAtPath or UnmarshalJSON — must leave the source's bytes as they were
func (c *aliasCtx) binaryCloneOracle() {
	r := c.r
	payloads := []string{"AAECAwQFBgcICQ==", "/////w==", "AQ==", "", "aGVsbG8gd29ybGQ=", "not base64", "AAAA"}
	for _, typ := range []interface{}{nil, []byte{}} {
		for _, f := range []jsonline.Format{jsonline.Binary, jsonline.Auto} {
			t := jsonline.NewTemplate().With("b", f, typ).WithNumeric("n")
			src := t.CreateRowEmpty()
			first := payloads[r.intn(len(payloads))]
			if f == jsonline.Auto {
				src.Set("b", []byte("0123456789"))
			} else if err := src.ImportAtKey("b", first); err != nil {
				continue
			}
			for mode := 0; mode < 3; mode++ {
				var clone jsonline.Row
				switch mode {
				case 0:
					clone = jsonline.CloneRow(src)
				case 1:
					clone, _ = t.CreateRow(src)
				default:
					clone, _ = jsonline.NewTemplate().With("b", jsonline.Binary, typ).CreateRow(src)
				}
				if clone == nil {
					continue
				}
				for _, next := range payloads {
					for how := 0; how < 3; how++ {
						before := c.snapshot(aliasObj{row: src})
						var desc string
						p, msg := guard(func() {
							switch how {
							case 0:
								desc = fmt.Sprintf("clone.ImportAtKey(\"b\", %q)", next)
								_ = clone.ImportAtKey("b", next)
							case 1:
								desc = fmt.Sprintf("clone.ImportAtPath(\"b\", %q)", next)
								_ = clone.ImportAtPath("b", next)
							default:
								desc = fmt.Sprintf("clone.UnmarshalJSON({\"b\":%q})", next)
								_ = clone.UnmarshalJSON([]byte(fmt.Sprintf(`{"b":%q}`, next)))
							}
						})
						ctx := map[string]interface{}{"stream": "alias", "history": fmt.Sprintf("t = NewTemplate().With(\"b\", %s, %T); src = t.CreateRowEmpty(); src.b <- %q; clone (mode %d) ; %s", gFormat(f), typ, first, mode, desc)}
						if p {
							c.violate("C17", "panic: "+msg, ctx)
						}
						c.rep.OracleChecks["C15"]++
						if after := c.snapshot(aliasObj{row: src}); after != before {
							c.violate("C15", fmt.Sprintf("alias: %s changed the row it was cloned from: %s -> %s", desc, before, after), ctx)
						}
					}
				}
			}
		}
	}
}

// a whole Stream() over a few lines with shared templates: templates and earlier rows untouched
func (c *aliasCtx) streamOracle() {
	r := c.r
	inCols, outCols := genCols(r, 0), genCols(r, 0)
	ti, to := buildTemplate(inCols), buildTemplate(outCols)
	keep := ti.CreateRowEmpty()
	keep.Set("zz", 1)
	snapT := func() string {
		a, b := ti.CreateRowEmpty(), to.CreateRowEmpty()
		return a.DebugString() + "|" + b.DebugString() + "|" + keep.DebugString()
	}
	before := snapT()
	var in strings.Builder
	for i := 0; i < 4; i++ {
		doc := genTemplDoc(r, inCols, 0)
		doc.text(&in)
		in.WriteByte('\n')
	}
	var out bytes.Buffer
	p, msg := guard(func() {
		_ = jsonline.NewStreamer(ti.GetImporter(strings.NewReader(in.String())), to.GetExporter(&out)).WithProcessor(jsonline.NoFailureProcessor).Stream()
	})
	ctx := map[string]interface{}{"stream": "alias", "input_template": descString(inCols), "output_template": descString(outCols), "lines": in.String()}
	if p {
		c.violate("C17", "panic in Stream: "+msg, ctx)
	}
	c.rep.OracleChecks["C15"]++
	if after := snapT(); after != before {
		c.violate("C15", fmt.Sprintf("alias: streaming lines changed a template or an existing row: %s -> %s", before, after), ctx)
	}
}

func aliasStream(seed uint64, tier string, outDir string, props map[string]bool, focus string) *streamReport {
	rep := &streamReport{Stream: "alias", Seed: seed, Distribution: map[string]int{}, Outcomes: map[string]int{}, OracleChecks: map[string]int{}}
	c := &aliasCtx{rep: rep, props: props, r: newRng(seed, "alias")}
	nh, perFile := 320, 20
	if tier == "thorough" {
		nh = 4000
	}
	var cases []string
	distinctSeen := map[string]bool{}
	flush := func() {
		if len(cases) == 0 {
			return
		}
		name := fmt.Sprintf("AliasCases_%d.v", len(rep.CaseFiles))
		var sb strings.Builder
		sb.WriteString("From Coq Require Import ZArith List.\nFrom JL.std Require Import GoBase GoFloat GoStrconv GoTime GoVal.\nFrom JL.model Require Import CastRun Row RowRun Template Heap HeapRun.\nImport ListNotations.\nOpen Scope Z_scope.\n")
		sb.WriteString("Definition cases : list hcase := [\n")
		sb.WriteString(strings.Join(cases, ";\n"))
		sb.WriteString("\n].\nDefinition M := Eval vm_compute in heap_mismatches 0 cases.\nPrint M.\n")
		p := filepath.Join(outDir, name)
		if err := os.WriteFile(p, []byte(sb.String()), 0o644); err != nil {
			panic(err)
		}
		rep.CaseFiles = append(rep.CaseFiles, p)
		cases = nil
	}
	for i := 0; i < nh; i++ {
		h := c.history(4 + c.r.intn(14))
		if h == "" {
			continue
		}
		rep.Cases++
		if !distinctSeen[h] {
			distinctSeen[h] = true
			rep.Distinct++
		}
		cases = append(cases, h)
		if len(cases) >= perFile {
			flush()
		}
	}
	flush()
	for i := 0; i < nh; i++ {
		c.streamOracle()
	}
	for i := 0; i < 1+nh/50; i++ {
		c.binaryCloneOracle()
	}
	c.getRowTwiceOracle()
	return rep
}
