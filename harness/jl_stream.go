package main

// Stream "jl": the command built from the working tree, run in a scratch directory with column
// definitions given (a) as row.yml, (b) as an inline -t template, (c) inline with an unrelated
// row.yml present; stdout and exit status compared with each other, with the library streamer on
// the equivalent templates (direct oracle of C19) and with the model of cmd/jl (JL.model.Jl).

import (
	"bufio"
	"bytes"
	"encoding/json"
	"fmt"
	"io"
	"math"
	"os"
	"os/exec"
	"path/filepath"
	"strings"
	"time"

	"github.com/cgi-fr/jsonline/pkg/jsonline"
)

type jlCol struct {
	name, in, out string
	inD, outD     colDesc // what the descriptors mean, when they are well formed (for the library oracle)
	wellFormed    bool
	sub           []jlCol
}

var formatWords = map[jsonline.Format]string{jsonline.String: "string", jsonline.Numeric: "numeric", jsonline.Boolean: "boolean", jsonline.Binary: "binary",
	jsonline.Date: "date", jsonline.DateTime: "datetime", jsonline.Timestamp: "timestamp", jsonline.Auto: "auto", jsonline.Hidden: "hidden"}

func genDescriptor(r *rng) (string, colDesc, bool) {
	if r.intn(9) == 0 { // malformed descriptors and unknown names silently mean auto / no raw type
		bad := []struct {
			s string
			f jsonline.Format
		}{{"", jsonline.Auto}, {"strng", jsonline.Auto}, {"string(", jsonline.Auto}, {"(int)", jsonline.Auto}, {"numeric(int", jsonline.Auto},
			{"auto()", jsonline.Auto}, {"string(int)x", jsonline.Auto}, {"numeric(unit16)", jsonline.Numeric}, {"Date", jsonline.Auto},
			{"string((int))", jsonline.Auto}, {"a:b", jsonline.Auto}}
		b := bad[r.intn(len(bad))]
		return b.s, colDesc{f: b.f}, true
	}
	f := allFormats[r.intn(len(allFormats))]
	d := colDesc{f: f}
	s := formatWords[f]
	if r.intn(2) == 0 {
		d.typName = typeNames[r.intn(len(typeNames))]
		s += "(" + d.typName + ")"
	}
	return s, d, true
}

func genJlCols(r *rng, depth int) []jlCol {
	n := 1 + r.intn(4)
	perm := r.perm(len(colNames))
	var cols []jlCol
	for i := 0; i < n; i++ {
		c := jlCol{name: colNames[perm[i]], wellFormed: true}
		if depth < 2 && r.intn(7) == 0 {
			c.sub = genJlCols(r, depth+1)
			c.in, c.out = "auto", "auto"
			c.inD, c.outD = colDesc{f: jsonline.Auto}, colDesc{f: jsonline.Auto}
		} else {
			var ok1, ok2 bool
			c.in, c.inD, ok1 = genDescriptor(r)
			if r.intn(3) == 0 {
				c.out, c.outD, ok2 = c.in, c.inD, ok1
			} else {
				c.out, c.outD, ok2 = genDescriptor(r)
			}
			c.wellFormed = ok1 && ok2 && !strings.Contains(c.in, ":") && !strings.Contains(c.out, ":")
		}
		cols = append(cols, c)
	}
	return cols
}

func allWellFormed(cols []jlCol) bool {
	for _, c := range cols {
		if !c.wellFormed || !allWellFormed(c.sub) {
			return false
		}
	}
	return true
}

func yamlOf(cols []jlCol, indent string, sb *strings.Builder) {
	for _, c := range cols {
		nb, _ := json.Marshal(c.name) // a JSON string is a YAML double-quoted scalar
		ib, _ := json.Marshal(c.in)
		ob, _ := json.Marshal(c.out)
		fmt.Fprintf(sb, "%s- name: %s\n%s  input: %s\n%s  output: %s\n", indent, nb, indent, ib, indent, ob)
		if len(c.sub) > 0 {
			fmt.Fprintf(sb, "%s  columns:\n", indent)
			yamlOf(c.sub, indent+"    ", sb)
		}
	}
}

func inlineOf(cols []jlCol) string {
	var parts []string
	for _, c := range cols {
		nb, _ := json.Marshal(c.name)
		if len(c.sub) > 0 {
			parts = append(parts, string(nb)+":"+inlineOf(c.sub))
			continue
		}
		desc := c.in + ":" + c.out
		if c.in == c.out && !strings.Contains(c.in, ":") && (len(c.name)+len(c.in))%2 == 0 {
			desc = c.in // one descriptor, no colon: it stands for both sides
		}
		vb, _ := json.Marshal(desc)
		parts = append(parts, string(nb)+":"+string(vb))
	}
	return "{" + strings.Join(parts, ",") + "}"
}

func gColdefs(cols []jlCol) string {
	items := make([]string, len(cols))
	for i, c := range cols {
		items[i] = fmt.Sprintf("Col %s %s %s %s", gStr(c.name), gStr(c.in), gStr(c.out), gColdefs(c.sub))
	}
	return gList(items)
}

func libTemplates(cols []jlCol) (jsonline.Template, jsonline.Template) {
	ti, to := jsonline.NewTemplate(), jsonline.NewTemplate()
	for _, c := range cols {
		if len(c.sub) > 0 {
			si, so := libTemplates(c.sub)
			ti.WithRow(c.name, si)
			to.WithRow(c.name, so)
			continue
		}
		ti.With(c.name, c.inD.f, typeSample[c.inD.typName])
		to.With(c.name, c.outD.f, typeSample[c.outD.typName])
	}
	return ti, to
}

type jlRun struct {
	stdout []byte
	stderr []byte
	exit   int
}

func runJl(bin, dir string, args []string, stdin string) jlRun {
	cmd := exec.Command(bin, args...)
	cmd.Dir = dir
	cmd.Env = append(os.Environ(), "HOME="+dir)
	cmd.Stdin = strings.NewReader(stdin)
	var out, errb bytes.Buffer
	cmd.Stdout, cmd.Stderr = &out, &errb
	err := cmd.Run()
	res := jlRun{stdout: out.Bytes(), stderr: errb.Bytes()}
	if err != nil {
		res.exit = 1
		if ee, ok := err.(*exec.ExitError); ok {
			res.exit = ee.ExitCode()
		}
	}
	return res
}

func jlStream(seed uint64, tier string, outDir string, props map[string]bool, focus string) *streamReport {
	rep := &streamReport{Stream: "jl", Seed: seed, Distribution: map[string]int{}, Outcomes: map[string]int{}, OracleChecks: map[string]int{}}
	r := newRng(seed, "jl")
	violate := func(what string, input interface{}) {
		// C19's own property, and C03 when the check of C03 runs this stream: the command must order, keep and drop
		// columns as the library does with the equivalent templates (cmd/jl builds the templates C03 speaks of)
		for _, pid := range []string{"C19", "C03"} {
			if props[pid] {
				addViolation(rep, pid, what, input)
			}
		}
	}
	repo := os.Getenv("VERIF_REPO")
	if repo == "" {
		repo = "/repo"
	}
	scratch, err := os.MkdirTemp("", "verif-jl-")
	if err != nil {
		panic(err)
	}
	defer os.RemoveAll(scratch)
	bin := filepath.Join(scratch, "jl")
	build := exec.Command("go", "build", "-o", bin, "./cmd/jl")
	build.Dir = repo
	build.Env = append(os.Environ(), "GOFLAGS=-mod=mod", "GOPROXY=off", "GOSUMDB=off", "GOTOOLCHAIN=local", "CGO_ENABLED=0")
	if out, err := build.CombinedOutput(); err != nil {
		fmt.Fprintf(os.Stderr, "cannot build cmd/jl: %v\n%s", err, out)
		os.Exit(3)
	}
	ncases, perFile := 60, 15
	if tier == "thorough" {
		ncases = 1500
	}
	var cases []string
	distinctSeen := map[string]bool{}
	flush := func() {
		if len(cases) == 0 {
			return
		}
		name := fmt.Sprintf("JlCases_%d.v", len(rep.CaseFiles))
		var sb strings.Builder
		sb.WriteString("From Coq Require Import ZArith List.\nFrom JL.std Require Import GoBase GoFloat GoStrconv GoTime GoVal.\nFrom JL.model Require Import CastRun Row RowRun Template TemplateRun Jl JlRun.\nImport ListNotations.\nOpen Scope Z_scope.\n")
		sb.WriteString("Definition cases : list jcase := [\n")
		sb.WriteString(strings.Join(cases, ";\n"))
		sb.WriteString("\n].\nDefinition M := Eval vm_compute in jl_mismatches 0 cases.\nPrint M.\n")
		p := filepath.Join(outDir, name)
		if err := os.WriteFile(p, []byte(sb.String()), 0o644); err != nil {
			panic(err)
		}
		rep.CaseFiles = append(rep.CaseFiles, p)
		cases = nil
	}
	mkdir := func(name string) string {
		d := filepath.Join(scratch, name)
		os.RemoveAll(d)
		os.MkdirAll(d, 0o755)
		return d
	}
	for i := 0; i < ncases; i++ {
		cols := genJlCols(r, 0)
		var yb strings.Builder
		yb.WriteString("columns:\n")
		yamlOf(cols, "  ", &yb)
		inline := inlineOf(cols)
		// input: lines of C07's kinds
		var descs []colDesc
		for _, c := range cols {
			d := c.inD
			d.name = c.name
			if len(c.sub) > 0 {
				d.sub = []colDesc{{name: "z", f: jsonline.Auto}}
			}
			descs = append(descs, d)
		}
		var lines []string
		sink := &scalarSink{seen: map[string]bool{}}
		for j := 1 + r.intn(5); j > 0; j-- {
			switch r.intn(8) {
			case 0:
				lines = append(lines, []string{``, `{"a":`, `[1]`, `{"a":1}x`, `null`}[r.intn(5)])
			default:
				doc := genTemplDoc(r, descs, 0)
				var sb strings.Builder
				doc.text(&sb)
				doc.gParsed(sink)
				lines = append(lines, sb.String())
			}
		}
		stdin := strings.Join(lines, "\n") + "\n"
		noteCase("jl", "columns "+yb.String()+" inline "+inline+" stdin "+stdin)
		ctx := map[string]interface{}{"stream": "jl", "row.yml": yb.String(), "inline": inline, "stdin": stdin}

		// (a) row.yml only
		da := mkdir("a")
		os.WriteFile(filepath.Join(da, "row.yml"), []byte(yb.String()), 0o644)
		ra := runJl(bin, da, nil, stdin)
		// (b) inline, no file
		rb := runJl(bin, mkdir("b"), []string{"-t", inline}, stdin)
		// (c) inline with an unrelated file present: the inline template replaces it entirely
		dc := mkdir("c")
		os.WriteFile(filepath.Join(dc, "row.yml"), []byte("columns:\n  - name: \"zzz\"\n    input: \"numeric\"\n    output: \"string\"\n  - name: \"zzy\"\n    input: \"hidden\"\n    output: \"hidden\"\n  - name: \""+cols[0].name+"\"\n    input: \"binary(int8)\"\n    output: \"binary(int8)\"\n"), 0o644)
		rc := runJl(bin, dc, []string{"-t", inline}, stdin)
		// (c') an empty or comment-only row.yml is no definition at all: the inline template alone decides
		if i%4 == 0 {
			de := mkdir("e")
			os.WriteFile(filepath.Join(de, "row.yml"), []byte([]string{"", "# columns come from -t\n", "\n\n", "---\n"}[r.intn(4)]), 0o644)
			re := runJl(bin, de, []string{"-t", inline}, stdin)
			rep.OracleChecks["C19"]++
			if re.exit != rb.exit || !bytes.Equal(re.stdout, rb.stdout) {
				violate(fmt.Sprintf("jl: with an empty row.yml present the inline template gives exit %d, %q; without the file, exit %d, %q", re.exit, re.stdout, rb.exit, rb.stdout), ctx)
			}
		}
		rep.OracleChecks["C19"] += 3
		if ra.exit != 0 || rb.exit != 0 || rc.exit != 0 {
			violate(fmt.Sprintf("jl: exit status %d / %d / %d for well-formed templates and per-line data errors only", ra.exit, rb.exit, rc.exit), ctx)
		}
		if !bytes.Equal(ra.stdout, rb.stdout) && !strings.Contains(yb.String(), "a:b") {
			violate(fmt.Sprintf("jl: row.yml and the equivalent inline template give different output: %q vs %q", ra.stdout, rb.stdout), ctx)
		}
		if !bytes.Equal(rb.stdout, rc.stdout) {
			violate(fmt.Sprintf("jl: an unrelated row.yml leaks into the inline template: %q vs %q", rb.stdout, rc.stdout), ctx)
		}
		// the library streamer with the equivalent templates
		{
			// the scalars of the rows the library builds on the way join the oracle transcripts of the model case
			// (also when some descriptor is malformed: the well-formed columns beside it still convert values)
			ti, to := libTemplates(cols)
			for _, l := range lines {
				guard(func() {
					if row, err := ti.GetImporter(strings.NewReader(l)).ReadOne(); err == nil && row != nil {
						_ = gRow(row, sink)
						if r2, err := to.CreateRow(row); err == nil && r2 != nil {
							_ = gRow(r2, sink)
							if e, err := r2.Export(); err == nil {
								_ = gRv(e, sink)
							}
						}
					}
				})
			}
		}
		if allWellFormed(cols) {
			ti, to := libTemplates(cols)
			var lib bytes.Buffer
			_ = jsonline.NewStreamer(ti.GetImporter(strings.NewReader(stdin)), to.GetExporter(&lib)).WithProcessor(jsonline.NoFailureProcessor).Stream()
			rep.OracleChecks["C19"]++
			if !bytes.Equal(lib.Bytes(), rb.stdout) {
				violate(fmt.Sprintf("jl: the command's output differs from the library streamer's with the equivalent templates: %q vs %q", rb.stdout, lib.Bytes()), ctx)
			}
		}
		// every line on its own through importer and exporter (no Streamer involved): what jl writes is the concatenation
		if allWellFormed(cols) {
			ti, to := libTemplates(cols)
			var each bytes.Buffer
			for _, l := range lines {
				guard(func() {
					if row, err := ti.GetImporter(strings.NewReader(l + "\n")).ReadOne(); err == nil && row != nil {
						var one bytes.Buffer
						if to.GetExporter(&one).Export(row) == nil {
							each.Write(one.Bytes())
						}
					}
				})
			}
			rep.OracleChecks["C19"]++
			if !bytes.Equal(each.Bytes(), rb.stdout) {
				violate(fmt.Sprintf("jl: the command writes %q; its input lines taken one by one through importer and exporter give %q (a line's outcome must not end or alter the run)", rb.stdout, each.Bytes()), ctx)
			}
		}
		rep.Outcomes[fmt.Sprintf("lines emitted %d of %d", bytes.Count(rb.stdout, []byte("\n")), len(lines))]++
		// model case: the inline run (file absent) and the file run
		tr := &transcript{}
		var jfl []string
		if t, err := refTree(bytes.TrimSpace(bytes.Split(append(rb.stdout, '\n'), []byte("\n"))[0])); err == nil {
			_ = t
		}
		for _, v := range sink.vals {
			t := transcriptFor(v)
			tr.ffmt, tr.fparse, tr.f2i, tr.loc, tr.slow = append(tr.ffmt, t.ffmt...), append(tr.fparse, t.fparse...), append(tr.f2i, t.f2i...), append(tr.loc, t.loc...), append(tr.slow, t.slow...)
			switch x := v.(type) {
			case float64:
				jfl = append(jfl, fmt.Sprintf("((false, %d), %s)", math.Float64bits(x), gOptMarshal(x)))
			case float32:
				jfl = append(jfl, fmt.Sprintf("((true, %d), %s)", math.Float32bits(x), gOptMarshal(x)))
			}
		}
		glines := make([]string, len(lines))
		for k, l := range lines {
			glines[k] = gStr(l)
		}
		seen := func(run jlRun) string {
			if run.exit != 0 {
				return "None"
			}
			return "(Some " + gStr(string(run.stdout)) + ")"
		}
		T := fmt.Sprintf("(mktt %s [] [] %s)", tr.gallina(), gList(jfl))
		cases = append(cases, fmt.Sprintf("mkjc %s %s %s %s %s", T, gColdefs(cols), gStr("{}"), gList(glines), seen(ra)))
		cases = append(cases, fmt.Sprintf("mkjc %s [] %s %s %s", T, gStr(inline), gList(glines), seen(rb)))
		rep.Cases += 2
		if key := gColdefs(cols) + "|" + stdin; !distinctSeen[key] {
			distinctSeen[key] = true
			rep.Distinct += 2 // the file form and the inline form of the same columns are two cases
		}
		if len(rep.Samples) < 4 {
			rep.Samples = append(rep.Samples, "jl -t '"+inline+"' < "+fmt.Sprintf("%q", stdin))
		}
		if len(cases) >= perFile {
			flush()
		}

		// logging options change neither the data nor the exit status
		vflags := [][]string{{"-v", "none"}, {"-v", "0"}, {"-v", "5"}, {"-v", "bogus"}, {"--log-json"}, {"-v", "trace", "--debug"}, {"-v", "warn", "--color", "no"}}
		vf := vflags[r.intn(len(vflags))]
		if i%3 == 0 {
			rd := runJl(bin, mkdir("d"), append([]string{"-t", inline}, vf...), stdin)
			rep.OracleChecks["C19"]++
			if rd.exit != rb.exit || !bytes.Equal(rd.stdout, rb.stdout) {
				violate(fmt.Sprintf("jl: with %q the command exits %d and writes %q; without, %d and %q", vf, rd.exit, rd.stdout, rb.exit, rb.stdout), ctx)
			}
		}

		// malformed templates: exit non-zero, nothing on stdout, whatever the logging options
		if i%6 == 0 {
			bad := []string{`{"a":`, `[1]`, `{"a":"string"}x`, `nope`, `{"a":"string",}`}[r.intn(5)]
			rm := runJl(bin, mkdir("m"), []string{"-t", bad}, stdin)
			rep.OracleChecks["C19"]++
			if rm.exit == 0 || len(rm.stdout) != 0 {
				violate(fmt.Sprintf("jl: malformed inline template %q: exit %d, stdout %q", bad, rm.exit, rm.stdout), ctx)
			}
			for _, fl := range vflags {
				rv := runJl(bin, mkdir("mv"), append([]string{"-t", bad}, fl...), stdin)
				rep.OracleChecks["C19"]++
				if rv.exit == 0 || len(rv.stdout) != 0 {
					violate(fmt.Sprintf("jl: malformed inline template %q with %q: exit %d, stdout %q", bad, fl, rv.exit, rv.stdout), ctx)
				}
			}
			cases = append(cases, fmt.Sprintf("mkjc %s [] %s %s %s", T, gStr(bad), gList(glines), seen(rm)))
			dy := mkdir("y")
			os.WriteFile(filepath.Join(dy, "row.yml"), []byte("columns:\n  - name: [unclosed\n"), 0o644)
			ry := runJl(bin, dy, nil, stdin)
			rep.OracleChecks["C19"]++
			if ry.exit == 0 || len(ry.stdout) != 0 {
				violate(fmt.Sprintf("jl: malformed row.yml: exit %d, stdout %q", ry.exit, ry.stdout), ctx)
			}
		}
	}
	flush()
	jlDescriptorSweep(bin, mkdir, rep, violate, tier)
	jlInteractive(bin, mkdir, rep, props)
	// a sub-row whose columns are literally named "input" and "output": row.yml and the inline form must agree
	{
		yml := "columns:\n  - name: \"r\"\n    input: \"auto\"\n    output: \"auto\"\n    columns:\n      - name: \"input\"\n        input: \"string\"\n        output: \"string\"\n      - name: \"output\"\n        input: \"numeric\"\n        output: \"numeric\"\n  - name: \"name\"\n    input: \"string\"\n    output: \"string\"\n"
		inline := `{"r":{"input":"string","output":"numeric"},"name":"string"}`
		stdin := `{"r":{"output":"7","input":5},"name":1}` + "\n" + `{"name":"x"}` + "\n" + `{"r":{"input":"a","output":"zz"}}` + "\n"
		dy := mkdir("io")
		os.WriteFile(filepath.Join(dy, "row.yml"), []byte(yml), 0o644)
		ry := runJl(bin, dy, nil, stdin)
		ri := runJl(bin, mkdir("ii"), []string{"-t", inline}, stdin)
		rep.OracleChecks["C19"]++
		if ry.exit != ri.exit || !bytes.Equal(ry.stdout, ri.stdout) {
			violate(fmt.Sprintf("jl: a sub-row with columns named input / output: row.yml gives exit %d, %q; the inline template gives exit %d, %q", ry.exit, ry.stdout, ri.exit, ri.stdout),
				map[string]interface{}{"stream": "jl", "row.yml": yml, "inline": inline, "stdin": stdin})
		}
	}
	return rep
}

// jl as a filter with its input kept open: each line written to stdin comes back on stdout, whole, before the next
// one is sent (one complete write per line: nothing is held back until the end of the run)
func jlInteractive(bin string, mkdir func(string) string, rep *streamReport, props map[string]bool) {
	cmd := exec.Command(bin, "-t", `{"a":"numeric","s":"string"}`)
	cmd.Dir = mkdir("i")
	cmd.Env = append(os.Environ(), "HOME="+cmd.Dir)
	stdin, err1 := cmd.StdinPipe()
	stdout, err2 := cmd.StdoutPipe()
	if err1 != nil || err2 != nil || cmd.Start() != nil {
		return
	}
	defer func() { stdin.Close(); cmd.Process.Kill(); cmd.Wait() }()
	lines := make(chan string, 8)
	go func() {
		sc := bufio.NewScanner(stdout)
		sc.Buffer(make([]byte, 1<<20), 1<<24)
		for sc.Scan() {
			lines <- sc.Text()
		}
		close(lines)
	}()
	for k, in := range []string{`{"a":1,"s":"x"}`, `{"s":"` + strings.Repeat("y", 5000) + `","a":2}`, `{"a":3}`} {
		if _, err := io.WriteString(stdin, in+"\n"); err != nil {
			return
		}
		rep.OracleChecks["C01:jl writes each line as it is read"]++
		select {
		case got, ok := <-lines:
			want := []string{`{"a":1,"s":"x"}`, `{"a":2,"s":"` + strings.Repeat("y", 5000) + `"}`, `{"a":3,"s":null}`}[k]
			if !ok || got != want {
				for _, pid := range []string{"C01", "C19"} {
					if props[pid] {
						addViolation(rep, pid, fmt.Sprintf("jl (stdin kept open): line %d comes back as %q, expected %q", k, truncStr(got, 120), truncStr(want, 120)), map[string]interface{}{"stream": "jl", "stdin_so_far": truncStr(in, 200)})
					}
				}
				return
			}
		case <-time.After(5 * time.Second):
			for _, pid := range []string{"C01", "C19"} {
				if props[pid] {
					addViolation(rep, pid, fmt.Sprintf("jl (stdin kept open): line %d was read but nothing reached stdout within 5 s: output is held back instead of being written line by line", k), map[string]interface{}{"stream": "jl", "stdin_so_far": truncStr(in, 200)})
				}
			}
			return
		}
	}
}

// a directed sweep: every format x every raw-type name of jl's registry as the descriptor of one column, on input and
// output side alike, fed with values on which the typed and the untyped conversions differ (integers, fractions,
// RFC 3339 texts with a fraction of a second, base64, booleans); stdout and exit status must be those of the library
// streamer on the equivalent templates
func jlDescriptorSweep(bin string, mkdir func(string) string, rep *streamReport, violate func(string, interface{}), tier string) {
	stdin := strings.Join([]string{`{"c":1632478272}`, `{"c":"2021-09-24T10:11:12.5-03:30"}`, `{"c":"2021-10-31T02:30:00.25+02:00"}`, `{"c":"x"}`, `{"c":1.5}`,
		`{"c":"AQ=="}`, `{"c":true}`, `{"c":null}`, `{"c":"12"}`, `{"c":"2021-09-24"}`, `{"c":12345678901234567890}`, `{"c":[1]}`}, "\n") + "\n"
	types := append([]string{""}, typeNames...)
	for fi, f := range allFormats {
		for ti, tn := range types {
			if tier != "thorough" && (fi+ti)%2 == 1 && tn != "time.Time" && tn != "json.Number" && tn != "[]byte" {
				continue // (the quick tier takes every descriptor with a capital or a bracket in it and half of the others)
			}
			desc := formatWords[f]
			if tn != "" {
				desc += "(" + tn + ")"
			}
			for _, other := range []string{desc, "auto", ""} {
				inline := fmt.Sprintf(`{"c":"%s:%s"}`, other, desc) // (other == "": an output-only descriptor ":desc")
				run := runJl(bin, mkdir("s"), []string{"-t", inline}, stdin)
				inF, inT := jsonline.Auto, interface{}(nil) // ("auto" and the empty descriptor both mean auto without raw type)
				if other == desc {
					inF, inT = f, typeSample[tn]
				}
				ti2 := jsonline.NewTemplate().With("c", inF, inT)
				to2 := jsonline.NewTemplate().With("c", f, typeSample[tn])
				var lib bytes.Buffer
				_ = jsonline.NewStreamer(ti2.GetImporter(strings.NewReader(stdin)), to2.GetExporter(&lib)).WithProcessor(jsonline.NoFailureProcessor).Stream()
				// the same column given as row.yml
				dy := mkdir("sy")
				os.WriteFile(filepath.Join(dy, "row.yml"), []byte(fmt.Sprintf("columns:\n  - name: \"c\"\n    input: %q\n    output: %q\n", other, desc)), 0o644)
				runY := runJl(bin, dy, nil, stdin)
				rep.OracleChecks["C19"]++
				if runY.exit != run.exit || !bytes.Equal(runY.stdout, run.stdout) {
					violate(fmt.Sprintf("jl: row.yml with input %q output %q gives exit %d, %q; the inline template %s gives exit %d, %q", other, desc, runY.exit, runY.stdout, inline, run.exit, run.stdout),
						map[string]interface{}{"stream": "jl", "inline": inline, "stdin": stdin})
				}
				rep.OracleChecks["C19"]++
				rep.Cases++
				if run.exit != 0 || !bytes.Equal(run.stdout, lib.Bytes()) {
					violate(fmt.Sprintf("jl -t %s: exit %d, output %q; the library streamer with With(\"c\", %s, %T) gives %q", inline, run.exit, run.stdout, formatWords[f], typeSample[tn], lib.Bytes()),
						map[string]interface{}{"stream": "jl", "inline": inline, "stdin": stdin})
				}
			}
		}
	}
}
