package main

import (
	"encoding/json"
	"errors"
	"fmt"
	"math"
	"os"
	"path/filepath"
	"reflect"
	"strings"
	"time"

	"github.com/cgi-fr/jsonline/pkg/cast"
)

var castSentinels = []struct {
	name string
	err  error
}{
	{"ErrUnableToCastToInt", cast.ErrUnableToCastToInt}, {"ErrUnableToCastToInt64", cast.ErrUnableToCastToInt64},
	{"ErrUnableToCastToInt32", cast.ErrUnableToCastToInt32}, {"ErrUnableToCastToInt16", cast.ErrUnableToCastToInt16},
	{"ErrUnableToCastToInt8", cast.ErrUnableToCastToInt8}, {"ErrUnableToCastToUint", cast.ErrUnableToCastToUint},
	{"ErrUnableToCastToUint64", cast.ErrUnableToCastToUint64}, {"ErrUnableToCastToUint32", cast.ErrUnableToCastToUint32},
	{"ErrUnableToCastToUint16", cast.ErrUnableToCastToUint16}, {"ErrUnableToCastToUint8", cast.ErrUnableToCastToUint8},
	{"ErrUnableToCastToFloat64", cast.ErrUnableToCastToFloat64}, {"ErrUnableToCastToFloat32", cast.ErrUnableToCastToFloat32},
	{"ErrUnableToCastToBool", cast.ErrUnableToCastToBool}, {"ErrUnableToCastToNumber", cast.ErrUnableToCastToNumber},
	{"ErrUnableToCastToString", cast.ErrUnableToCastToString}, {"ErrUnableToCastToBinary", cast.ErrUnableToCastToBinary},
	{"ErrUnableToCastToTime", cast.ErrUnableToCastToTime}, {"ErrUnableToCastToDate", cast.ErrUnableToCastToDate},
}

func sentinelOf(err error) string {
	for _, s := range castSentinels {
		if errors.Is(err, s.err) {
			return s.name
		}
	}
	if errors.Is(err, cast.ErrUnableToCast) {
		return "ErrUnableToCast"
	}
	return "ErrNoWrap"
}

type castOutcome struct {
	res      interface{}
	err      error
	panicked bool
	panicMsg string
}

func runCast(t castTarget, v interface{}) (o castOutcome) {
	defer func() {
		if r := recover(); r != nil {
			o = castOutcome{panicked: true, panicMsg: fmt.Sprint(r)}
		}
	}()
	switch t.fn {
	case 0:
		o.res, o.err = cast.To(t.sample, v)
	case 1:
		o.res, o.err = cast.ToDate(v)
	case 2:
		o.res, o.err = cast.ToTimestamp(v)
	}
	return
}

func (o castOutcome) gallina() string {
	switch {
	case o.panicked:
		return "Panic"
	case o.err != nil:
		return "(Err " + sentinelOf(o.err) + ")"
	default:
		return "(Ok " + gVal(o.res) + ")"
	}
}

// ---- oracle transcript: what the real standard library answers for the arguments a case may need ----

type transcript struct {
	ffmt, fparse, f2i, loc, slow []string
}

func (t *transcript) gallina() string {
	j := func(l []string) string { return "[" + strings.Join(l, "; ") + "]" }
	return fmt.Sprintf("(mkt %s %s %s %s %s)", j(t.ffmt), j(t.fparse), j(t.f2i), j(t.loc), j(t.slow))
}

var ikNames = []string{"KInt", "KInt64", "KInt32", "KInt16", "KInt8", "KUint", "KUint64", "KUint32", "KUint16", "KUint8"}

func f2iAll(f float64) [10]int64 {
	return [10]int64{int64(int(f)), int64(f), int64(int32(f)), int64(int16(f)), int64(int8(f)),
		int64(uint(f)), int64(uint64(f)), int64(uint32(f)), int64(uint16(f)), int64(uint8(f))}
}

func f2iAll32(f float32) [10]int64 {
	return [10]int64{int64(int(f)), int64(f), int64(int32(f)), int64(int16(f)), int64(int8(f)),
		int64(uint(f)), int64(uint64(f)), int64(uint32(f)), int64(uint16(f)), int64(uint8(f))}
}

func (t *transcript) addFloat(x64 float64, is32 bool, x32 float32) {
	bits := math.Float64bits(x64)
	for _, f := range []byte{'f', 'e', 'g'} {
		for _, bs := range []int{32, 64} {
			t.ffmt = append(t.ffmt, fmt.Sprintf("((%d, (-1), %d, %d), %s)", f, bs, bits, gStr(fmtFloat(x64, f, bs))))
		}
	}
	// T(f) for every integer type, as this machine computes it (only consulted by the model when
	// the value is not representable in T)
	var all [10]int64
	var fv string
	if is32 {
		all = f2iAll32(x32)
		fv = fmt.Sprintf("(F32 %d)", math.Float32bits(x32))
	} else {
		all = f2iAll(x64)
		fv = fmt.Sprintf("(F64 %d)", bits)
	}
	tr := math.Trunc(x64)
	for i, k := range ikNames {
		lo, hi := rangeOf(i)
		if !(tr >= lo && tr <= hi) || math.IsNaN(x64) { // candidates for being out of range (float compare is approximate: superset)
			val := all[i]
			var zsv string
			if i >= 5 { // unsigned: reinterpret
				zsv = fmt.Sprintf("%d", unsignedOf(i, val))
			} else {
				zsv = zs(val)
			}
			t.f2i = append(t.f2i, fmt.Sprintf("((%s, %s), %s)", k, fv, zsv))
		}
	}
}

func rangeOf(i int) (float64, float64) {
	switch i {
	case 0, 1:
		return -9223372036854775808, 9223372036854774784 // largest float64 below 2^63
	case 2:
		return math.MinInt32, math.MaxInt32
	case 3:
		return math.MinInt16, math.MaxInt16
	case 4:
		return math.MinInt8, math.MaxInt8
	case 5, 6:
		return 0, 18446744073709549568
	case 7:
		return 0, math.MaxUint32
	case 8:
		return 0, math.MaxUint16
	default:
		return 0, math.MaxUint8
	}
}

func unsignedOf(i int, v int64) uint64 {
	switch i {
	case 5, 6:
		return uint64(v)
	case 7:
		return uint64(uint32(v))
	case 8:
		return uint64(uint16(v))
	default:
		return uint64(uint8(v))
	}
}

func (t *transcript) addText(s string) {
	for _, bs := range []int{32, 64} {
		f, err := parseFloat(s, bs)
		if err != nil {
			t.fparse = append(t.fparse, fmt.Sprintf("((%d, %s), None)", bs, gStr(s)))
		} else {
			t.fparse = append(t.fparse, fmt.Sprintf("((%d, %s), Some %d)", bs, gStr(s), math.Float64bits(f)))
		}
	}
	if tm, err := time.Parse(time.RFC3339, s); err == nil {
		t.slow = append(t.slow, fmt.Sprintf("(%s, Some %s)", gStr(s), gTime(tm)))
	}
}

func (t *transcript) addUnix(n int64) {
	_, off := time.Unix(n, 0).Zone()
	t.loc = append(t.loc, fmt.Sprintf("(%s, %s)", zs(n), zs(int64(off))))
}

func transcriptFor(v interface{}) *transcript {
	t := &transcript{}
	switch x := v.(type) {
	case float64:
		t.addFloat(x, false, 0)
	case float32:
		t.addFloat(float64(x), true, x)
	case string:
		t.addText(x)
	case json.Number:
		t.addText(string(x))
	case []byte:
		t.addText(string(x))
		if r, err := safeToInt64(string(x)); err == nil {
			t.addUnix(r)
		}
	}
	if r, err := safeToInt64(v); err == nil {
		t.addUnix(r)
	}
	// the default branch of cast.ToDate renders the value with ToString and reads that text as
	// Unix seconds (a float32 prints as a different integer than its exact value)
	if s, err := safeToString(v); err == nil {
		if r, err := safeToInt64(s); err == nil {
			t.addUnix(r)
		}
	}
	return t
}

func safeToString(v interface{}) (s string, err error) {
	defer func() {
		if rec := recover(); rec != nil {
			err = fmt.Errorf("panic")
		}
	}()
	x, e := cast.ToString(v)
	if e != nil {
		return "", e
	}
	str, ok := x.(string)
	if !ok {
		return "", fmt.Errorf("not a string")
	}
	return str, nil
}

func safeToInt64(v interface{}) (r int64, err error) {
	defer func() {
		if rec := recover(); rec != nil {
			err = fmt.Errorf("panic")
		}
	}()
	x, e := cast.ToInt64(v)
	if e != nil {
		return 0, e
	}
	i, ok := x.(int64)
	if !ok {
		return 0, fmt.Errorf("not int64")
	}
	return i, nil
}

// ---- the stream ----

type violation struct {
	Property string      `json:"property"`
	What     string      `json:"what"`
	Input    interface{} `json:"input"`
	Known    string      `json:"known,omitempty"`
}

type streamReport struct {
	Stream       string         `json:"stream"`
	Seed         uint64         `json:"seed"`
	Cases        int            `json:"cases"`
	Distinct     int            `json:"distinct_nontrivial"`
	Distribution map[string]int `json:"distribution"`
	Outcomes     map[string]int `json:"outcomes"`
	Samples      []string       `json:"samples"`
	Violations   []violation    `json:"violations"`
	CaseFiles    []string       `json:"case_files"`
	OracleChecks map[string]int `json:"oracle_checks"`
	GoVersion    string         `json:"go_version"`
	TZ           string         `json:"tz"`
}

func describe(v interface{}) string {
	s := fmt.Sprintf("%T(%#v)", v, v)
	if len(s) > 120 {
		s = s[:120] + "…"
	}
	return s
}

var otherKinds = map[string]bool{"named": true, "pointer": true, "typed nil": true, "struct": true, "map": true, "slice": true, "func": true, "chan": true,
	"complex": true, "uintptr": true, "array": true, "bytearray": true, "bytearray(named elem)": true, "nil": true, "bool": true, "[]byte(nil)": true, "[]byte": true}

func isNumericKind(k string) bool {
	switch k {
	case "int", "int64", "int32", "int16", "int8", "uint", "uint64", "uint32", "uint16", "uint8", "float64", "float32", "bool":
		return true
	}
	return false
}

// relevance of a (target, source) pair to the property a check focuses on; pairs that are not
// relevant are still sampled at a low rate so that the model is validated everywhere
func relevance(focus string, t castTarget, s srcVal) float64 {
	isText := s.kind == "string" || s.kind == "json.Number"
	isBytes := strings.HasPrefix(s.kind, "[]byte")
	_, fixedT := sizeOfFixed(t.sample)
	_, boolT := t.sample.(bool)
	switch focus {
	case "C09":
		if t.bits != 0 && t.fn == 0 {
			if isNumericKind(s.kind) {
				return 1
			}
			if isText {
				return 0.5
			}
			if s.kind == "time.Time" {
				return 1 // a time accepted by an integer cast must be its Unix seconds (before 1970: negative)
			}
		}
	case "C10":
		if otherKinds[s.kind] || s.kind == "time.Time" {
			return 1
		}
		return 0.06
	case "C11":
		if t.name == "[]byte" && isNumericKind(s.kind) {
			return 1
		}
		if isBytes && (fixedT || boolT) && t.fn == 0 && s.kind != "[]byte(text)" {
			return 0.6
		}
	case "C12":
		if (t.name == "string" || t.name == "json.Number") && isNumericKind(s.kind) {
			return 1
		}
		if isText && (fixedT || boolT) && t.fn == 0 {
			return 0.12
		}
	case "C14":
		if t.name == "time.Time" || t.name == "date" || t.name == "timestamp" || t.name == "string" {
			if s.kind == "string" || s.kind == "time.Time" || s.kind == "int64" {
				return 1
			}
			if s.kind == "[]byte(text)" || s.kind == "int" || s.kind == "json.Number" {
				return 0.3
			}
		}
	case "":
		return 1
	}
	return 0.02
}

func castStream(seed uint64, tier string, outDir string, props map[string]bool, focus string) *streamReport {
	r := newRng(seed, "cast")
	nr := 40
	if tier == "thorough" {
		nr = 1500
	}
	var srcs []srcVal
	srcs = append(srcs, srcVal{nil, "nil"}, srcVal{true, "bool"}, srcVal{false, "bool"})
	srcs = append(srcs, intSources(r, nr)...)
	srcs = append(srcs, floatSources(r, nr)...)
	srcs = append(srcs, textSources(r, nr)...)
	srcs = append(srcs, bytesSources(r, nr)...)
	srcs = append(srcs, timeSources(r, nr/2)...)
	srcs = append(srcs, otherSources()...)

	rep := &streamReport{Stream: "cast", Seed: seed, Distribution: map[string]int{}, Outcomes: map[string]int{}, OracleChecks: map[string]int{}}
	seen := map[string]bool{}
	var lines []string
	for _, s := range srcs {
		tr := transcriptFor(s.v).gallina()
		gv := gVal(s.v)
		for _, t := range castTargets {
			// quick tier: thin out the cross product for the unknown targets
			if strings.HasPrefix(t.name, "unknown") && r.intn(8) != 0 {
				continue
			}
			if tier != "thorough" {
				if p := relevance(focus, t, s); p < 1 && float64(r.intn(10000)) >= p*10000 {
					continue
				}
			}
			o := runCast(t, s.v)
			rep.Cases++
			rep.Distribution[s.kind+"->"+t.name]++
			switch {
			case o.panicked:
				rep.Outcomes["panic"]++
			case o.err != nil:
				rep.Outcomes["error"]++
			default:
				rep.Outcomes["ok"]++
			}
			key := t.name + "|" + gv
			if !seen[key] {
				seen[key] = true
				rep.Distinct++
			}
			smp := "VNil"
			if t.fn == 0 {
				smp = gVal(t.sample)
			}
			lines = append(lines, fmt.Sprintf("mkc %d %s %s %s %s", t.fn, smp, gv, tr, o.gallina()))
			if len(rep.Samples) < 12 && r.intn(len(srcs)*len(castTargets)/12+1) == 0 {
				rep.Samples = append(rep.Samples, fmt.Sprintf("cast %s <- %s  =>  %s", t.name, describe(s.v), o.gallina()))
			}
			castOracles(rep, props, t, s.v, o)
		}
	}
	if len(rep.Samples) == 0 && len(lines) > 0 {
		rep.Samples = append(rep.Samples, lines[0])
	}
	rep.CaseFiles = writeCaseFiles(outDir, "CastCases", "JL.model.CastRun", "cast_case", "cast_mismatches", lines, 600)
	return rep
}

// writeCaseFiles shards Gallina case terms into files cases_<n>.v that print the mismatching indices
func writeCaseFiles(outDir, prefix, module, _ string, mism string, lines []string, per int) []string {
	os.MkdirAll(outDir, 0o755)
	old, _ := filepath.Glob(filepath.Join(outDir, prefix+"_*.v"))
	for _, f := range old {
		os.Remove(f)
		os.Remove(strings.TrimSuffix(f, ".v") + ".vo")
		os.Remove(strings.TrimSuffix(f, ".v") + ".glob")
	}
	var files []string
	for i, n := 0, 0; i < len(lines); i, n = i+per, n+1 {
		j := i + per
		if j > len(lines) {
			j = len(lines)
		}
		var b strings.Builder
		fmt.Fprintf(&b, "From Coq Require Import ZArith List.\nFrom JL.std Require Import GoBase GoFloat GoStrconv GoTime GoVal.\nRequire Import %s.\nImport ListNotations.\nOpen Scope Z_scope.\n", module)
		fmt.Fprintf(&b, "Definition cases := [\n%s\n].\n", strings.Join(lines[i:j], ";\n"))
		fmt.Fprintf(&b, "Definition M := Eval vm_compute in %s %d cases.\nPrint M.\n", mism, i)
		name := filepath.Join(outDir, fmt.Sprintf("%s_%d.v", prefix, n))
		os.WriteFile(name, []byte(b.String()), 0o644)
		files = append(files, name)
	}
	return files
}

func typeName(v interface{}) string {
	if v == nil {
		return "nil"
	}
	return reflect.TypeOf(v).String()
}
