// Command harness runs the real jsonline packages (built from /repo's working tree) on generated
// cases, judges their outcomes with direct property oracles, and writes the same cases with the
// observed outcomes as Gallina terms for the model to be evaluated on inside coqc.
package main

import (
	"encoding/json"
	"flag"
	"fmt"
	"os"
	"runtime"
	"strings"
)

func main() {
	stream := flag.String("stream", "cast", "stream of cases")
	seed := flag.Uint64("seed", 1, "PRNG seed")
	tier := flag.String("tier", "quick", "quick | thorough")
	out := flag.String("out", "/verif/coq/cases", "directory for the generated case files")
	props := flag.String("props", "", "comma-separated property ids whose direct oracles are enabled")
	report := flag.String("report", "", "path of the JSON report")
	focus := flag.String("focus", "", "property the case selection concentrates on (quick tier)")
	flag.Parse()
	pm := map[string]bool{}
	for _, p := range strings.Split(*props, ",") {
		if p != "" {
			pm[p] = true
		}
	}
	var rep *streamReport
	switch *stream {
	case "cast":
		rep = castStream(*seed, *tier, *out, pm, *focus)
	case "conc":
		rep = concStream(*seed, *tier, *out, pm, *focus)
	case "jl":
		rep = jlStream(*seed, *tier, *out, pm, *focus)
	case "alias":
		rep = aliasStream(*seed, *tier, *out, pm, *focus)
	case "json":
		rep = jsonStream(*seed, *tier, *out, pm, *focus)
	case "stream":
		rep = streamStream(*seed, *tier, *out, pm, *focus)
	case "template":
		rep = templateStream(*seed, *tier, *out, pm, *focus)
	case "rowops":
		rep = rowopsStream(*seed, *tier, *out, pm, *focus)
	default:
		fmt.Fprintln(os.Stderr, "unknown stream", *stream)
		os.Exit(2)
	}
	rep.GoVersion = runtime.Version()
	rep.TZ = os.Getenv("TZ")
	b, _ := json.MarshalIndent(rep, "", " ")
	if *report != "" {
		os.WriteFile(*report, b, 0o644)
	} else {
		os.Stdout.Write(b)
	}
}
