package main

// Stream "template": (input template, output template, lines / API inputs) on the real package,
// dumped for the template + writer model (JL.model.Template) to be evaluated on inside coqc,
// plus direct oracles for C03 (key order and presence), C04 (lexical class per format),
// C05 (emitted lines are fixed points), C13 (typed round trip) and C10 (raw type of a column).

import (
	"bytes"
	"encoding/base64"
	"encoding/json"
	"fmt"
	"math"
	"os"
	"path/filepath"
	"reflect"
	"regexp"
	"sort"
	"strings"
	"time"

	"github.com/cgi-fr/jsonline/pkg/cast"
	"github.com/cgi-fr/jsonline/pkg/jsonline"
)

type colDesc struct {
	name    string
	f       jsonline.Format
	typName string // "" = no raw type
	sub     []colDesc
}

var typeNames = []string{"int", "int64", "int32", "int16", "int8", "uint", "uint64", "uint32", "uint16", "uint8", "float64", "float32",
	"bool", "byte", "rune", "string", "[]byte", "time.Time", "json.Number"}

var typeSample = map[string]interface{}{
	"": nil, "int": int(0), "int64": int64(0), "int32": int32(0), "int16": int16(0), "int8": int8(0),
	"uint": uint(0), "uint64": uint64(0), "uint32": uint32(0), "uint16": uint16(0), "uint8": uint8(0),
	"float64": float64(0), "float32": float32(0), "bool": true, "byte": byte(0), "rune": rune(0),
	"string": "", "[]byte": []byte{}, "time.Time": time.Time{}, "json.Number": json.Number(""),
}

func (c colDesc) gallina(sink *scalarSink) string {
	if c.sub != nil {
		return "TSub " + gStr(c.name) + " " + gDescs(c.sub, sink)
	}
	sink.add(typeSample[c.typName])
	return fmt.Sprintf("TCol %s %s %s", gStr(c.name), gFormat(c.f), gVal(typeSample[c.typName]))
}

func gDescs(cols []colDesc, sink *scalarSink) string {
	items := make([]string, len(cols))
	for i, c := range cols {
		items[i] = c.gallina(sink)
	}
	return gList(items)
}

func buildTemplate(cols []colDesc) jsonline.Template {
	t := jsonline.NewTemplate()
	for _, c := range cols {
		if c.sub != nil {
			t.WithRow(c.name, buildTemplate(c.sub))
		} else {
			withColumn(t, c)
		}
	}
	return t
}

func dedicatedColumn(t jsonline.Template, name string, f jsonline.Format, typ interface{}) {
	switch f {
	case jsonline.String:
		t.WithMappedString(name, typ)
	case jsonline.Numeric:
		t.WithMappedNumeric(name, typ)
	case jsonline.Boolean:
		t.WithMappedBoolean(name, typ)
	case jsonline.Binary:
		t.WithMappedBinary(name, typ)
	case jsonline.Date:
		t.WithMappedDate(name, typ)
	case jsonline.DateTime:
		t.WithMappedDateTime(name, typ)
	case jsonline.Timestamp:
		t.WithMappedTimestamp(name, typ)
	case jsonline.Auto:
		t.WithMappedAuto(name, typ)
	default:
		t.With(name, f, typ)
	}
}

// one column through the generic builder or through the builder method dedicated to its format (every second column,
// by a hash of its description): WithString ... WithHidden, WithMappedString ... WithMappedAuto
func withColumn(t jsonline.Template, c colDesc) {
	typ := typeSample[c.typName]
	h := 0
	for _, b := range []byte(c.name + c.typName) {
		h = h*31 + int(b)
	}
	if h%2 == 0 || c.f == jsonline.Hidden && typ != nil {
		t.With(c.name, c.f, typ)
		return
	}
	if typ == nil {
		switch c.f {
		case jsonline.String:
			t.WithString(c.name)
		case jsonline.Numeric:
			t.WithNumeric(c.name)
		case jsonline.Boolean:
			t.WithBoolean(c.name)
		case jsonline.Binary:
			t.WithBinary(c.name)
		case jsonline.Date:
			t.WithDate(c.name)
		case jsonline.DateTime:
			t.WithDateTime(c.name)
		case jsonline.Timestamp:
			t.WithTimestamp(c.name)
		case jsonline.Auto:
			t.WithAuto(c.name)
		case jsonline.Hidden:
			t.WithHidden(c.name)
		default:
			t.With(c.name, c.f, typ)
		}
		return
	}
	switch c.f {
	case jsonline.String:
		t.WithMappedString(c.name, typ)
	case jsonline.Numeric:
		t.WithMappedNumeric(c.name, typ)
	case jsonline.Boolean:
		t.WithMappedBoolean(c.name, typ)
	case jsonline.Binary:
		t.WithMappedBinary(c.name, typ)
	case jsonline.Date:
		t.WithMappedDate(c.name, typ)
	case jsonline.DateTime:
		t.WithMappedDateTime(c.name, typ)
	case jsonline.Timestamp:
		t.WithMappedTimestamp(c.name, typ)
	case jsonline.Auto:
		t.WithMappedAuto(c.name, typ)
	default:
		t.With(c.name, c.f, typ)
	}
}

func (c colDesc) String() string {
	if c.sub != nil {
		parts := make([]string, len(c.sub))
		for i, s := range c.sub {
			parts[i] = s.String()
		}
		return c.name + ":{" + strings.Join(parts, ",") + "}"
	}
	d := strings.TrimPrefix(gFormat(c.f), "F")
	if c.typName != "" {
		d += "(" + c.typName + ")"
	}
	return c.name + ":" + strings.ToLower(d)
}

func descString(cols []colDesc) string {
	parts := make([]string, len(cols))
	for i, c := range cols {
		parts[i] = c.String()
	}
	return "{" + strings.Join(parts, ",") + "}"
}

// ---------- the lossless table of DESIGN.md section 8 ----------

var intTypes = []string{"int", "int64", "int32", "int16", "int8", "uint", "uint64", "uint32", "uint16", "uint8", "byte", "rune"}

func losslessTypes(f jsonline.Format) []string {
	with := func(base []string, more ...string) []string { return append(append([]string{}, base...), more...) }
	switch f {
	case jsonline.String:
		return with(intTypes, "float64", "float32", "bool", "string", "time.Time", "json.Number", "")
	case jsonline.Numeric:
		return with(intTypes, "float64", "float32", "bool", "time.Time", "json.Number", "")
	case jsonline.Boolean:
		return []string{"bool", ""}
	case jsonline.Binary:
		return with(intTypes, "float64", "float32", "bool", "string", "[]byte", "time.Time", "json.Number", "")
	case jsonline.DateTime:
		return []string{"time.Time", ""}
	case jsonline.Timestamp:
		return []string{"int", "int64", "int32", "int16", "int8", "uint32", "uint16", "uint8", "rune", "byte", "bool", "time.Time", ""}
	case jsonline.Auto:
		return with(intTypes, "float64", "float32", "bool", "string", "time.Time", "json.Number", "")
	case jsonline.Date:
		return []string{""}
	}
	return nil
}

func isLossless(c colDesc) bool {
	if c.sub != nil {
		for _, s := range c.sub {
			if !isLossless(s) {
				return false
			}
		}
		return true
	}
	if c.f == jsonline.Hidden {
		return true
	}
	for _, t := range losslessTypes(c.f) {
		if t == c.typName {
			return true
		}
	}
	return false
}

// ---------- generators ----------

var colNames = []string{"a", "b", "c", "d", "z", "é", "k"}

func genCols(r *rng, depth int) []colDesc {
	n := r.intn(5)
	if depth > 0 {
		n = 1 + r.intn(3)
	}
	perm := r.perm(len(colNames))
	var cols []colDesc
	for i := 0; i < n; i++ {
		c := colDesc{name: colNames[perm[i]]}
		switch {
		case depth < 2 && r.intn(8) == 0:
			c.sub = genCols(r, depth+1)
		default:
			c.f = allFormats[r.intn(len(allFormats))]
			if r.intn(2) == 0 {
				c.typName = typeNames[r.intn(len(typeNames))]
			}
			if r.intn(3) == 0 { // bias towards lossless descriptors (needed by C05)
				lt := losslessTypes(c.f)
				if len(lt) > 0 {
					c.typName = lt[r.intn(len(lt))]
				}
			}
		}
		cols = append(cols, c)
	}
	return cols
}

func (r *rng) perm(n int) []int {
	p := make([]int, n)
	for i := range p {
		p[i] = i
	}
	for i := n - 1; i > 0; i-- {
		j := r.intn(i + 1)
		p[i], p[j] = p[j], p[i]
	}
	return p
}

// a variant of a column list with the same names: other descriptors, possibly another order
func variantCols(r *rng, cols []colDesc) []colDesc {
	out := make([]colDesc, len(cols))
	for i, c := range cols {
		out[i] = c
		if c.sub != nil {
			out[i].sub = variantCols(r, c.sub)
		} else if r.intn(2) == 0 {
			out[i].f = allFormats[r.intn(len(allFormats))]
			out[i].typName = ""
			if r.intn(2) == 0 {
				lt := losslessTypes(out[i].f)
				if len(lt) > 0 {
					out[i].typName = lt[r.intn(len(lt))]
				}
			}
		}
	}
	return out
}

var templNumbers = []string{"-0.0", "-0e0", "-1e-400", "100000000000", "253402214400", "0", "1", "-1", "255", "256", "65536", "1.5", "-0", "1e3", "1E+2", "12345678901234567890", "253402300800", "1632478272", "-62135596801", "0.10", "127", "128", "-129", "4294967296"}
var templStrings = []string{"5138-11-16T09:46:40Z", "9999-12-31T23:59:59Z", "[1,2]", "{}", "\"12\"", "-0.0", "", "x", "12", "-7", "1.5", "true", "false", "aGk=", "aGk", "AAAAAAAAAAA=", "AQ==", "2021-09-24", "2021-02-30", "2021-09-24T10:11:12Z",
	"2021-09-24T10:11:12+05:30", "2021-09-24T10:11:12.5-03:30", "é", "<&>", "1e3", "0x10", " 1", "null", "1632478272", "18446744073709551615"}

func genTemplVal(r *rng, depth int) *jnode {
	switch k := r.intn(16); {
	case k < 5:
		return &jnode{kind: 'n', s: templNumbers[r.intn(len(templNumbers))]}
	case k < 10:
		return &jnode{kind: 's', s: templStrings[r.intn(len(templStrings))]}
	case k == 10:
		return &jnode{kind: 'b', b: r.bool()}
	case k == 11 || k == 12:
		return &jnode{kind: 'z'}
	case k == 13 && depth < 2:
		n := &jnode{kind: 'a'}
		for i := r.intn(3); i > 0; i-- {
			n.kids = append(n.kids, genTemplVal(r, depth+1))
		}
		return n
	case depth < 2:
		n := &jnode{kind: 'o'}
		perm := r.perm(4)
		for i := r.intn(4); i > 0; i-- {
			n.keys = append(n.keys, []string{"z", "a", "m", "b"}[perm[i]])
			n.kids = append(n.kids, genTemplVal(r, depth+1))
		}
		return n
	}
	return &jnode{kind: 'n', s: "7"}
}

// a value chosen against a column's format: texts and numbers that look like another class
func genAgainst(r *rng, f jsonline.Format) *jnode {
	str := func(l ...string) *jnode { return &jnode{kind: 's', s: l[r.intn(len(l))]} }
	num := func(l ...string) *jnode { return &jnode{kind: 'n', s: l[r.intn(len(l))]} }
	switch f {
	case jsonline.Numeric, jsonline.Timestamp:
		if r.bool() {
			return str("true", "[1,2]", "{}", "\"12\"", "null", "abc", "1e3", "0x10", "12", "-0.0", "1.5", " 1", "2021-09-24T10:11:12Z", "5138-11-16T09:46:40Z")
		}
		return num("-0.0", "1.5", "1e3", "-1e-400", "100000000000", "253402214400", "12345678901234567890", "9007199254740993", "9223372036854775807")
	case jsonline.Date:
		if r.intn(3) != 0 {
			return str("2021-09-24T10:11:12Z", "2021-03-04T05:06:07+02:00", "2021-02-30", "2021-09-24", "20210924", "2021-9-4", "0000-01-01", "9999-12-31", "2021/09/24", "2021.09.24", "24-09-2021")
		}
		return num("0", "1632478272", "253402300800", "100000000000")
	case jsonline.DateTime:
		if r.intn(3) != 0 {
			return str("2021-09-24", "2021-09-24T10:11:12Z", "2021-09-24T10:11:12.5-03:30", "5138-11-16T09:46:40Z", "9999-12-31T23:59:59Z", "2021-09-24 10:11:12", "1632478272")
		}
		return num("0", "1632478272", "253402300800", "100000000000", "1.5")
	case jsonline.Boolean:
		return str("true", "false", "1", "0", "yes", "TRUE", "t", "")
	case jsonline.Binary:
		return str("", "aGk=", "aGk", "AAAAAAAAAAA=", "AQ==", "@@", "a GVsbG8=", "aGk=\n")
	case jsonline.String, jsonline.Auto:
		if r.bool() {
			return num("-0.0", "1E+2", "0.10", "12345678901234567890")
		}
		return str("", "<&>", "é", "\"q\\", "null", "12")
	}
	return &jnode{kind: 'z'}
}

// an input object for templates with these columns: declared keys in any order, some missing, extra keys
func genTemplDoc(r *rng, cols []colDesc, depth int) *jnode {
	n := &jnode{kind: 'o'}
	var names []string
	for _, c := range cols {
		if r.intn(5) != 0 {
			names = append(names, c.name)
		}
	}
	for i := r.intn(3); i > 0; i-- {
		names = append(names, []string{"x", "y", "a", "w"}[r.intn(4)])
	}
	if len(cols) > 0 && r.intn(6) == 0 {
		// an undeclared key that differs from a declared column by case only
		if up := strings.ToUpper(cols[r.intn(len(cols))].name); findCol(cols, up) == nil {
			names = append(names, up)
		}
	}
	perm := r.perm(len(names))
	used := map[string]bool{}
	for _, pi := range perm {
		k := names[pi]
		if used[k] {
			continue
		}
		used[k] = true
		var v *jnode
		for _, c := range cols {
			if c.name == k && c.sub != nil && r.intn(4) != 0 {
				v = genTemplDoc(r, c.sub, depth+1)
			}
		}
		if v == nil {
			if col := findCol(cols, k); col != nil && col.sub == nil && r.intn(3) == 0 {
				v = genAgainst(r, col.f)
			} else {
				v = genTemplVal(r, depth)
			}
		}
		n.keys = append(n.keys, k)
		n.kids = append(n.kids, v)
	}
	if depth == 0 && len(n.keys) >= 2 && r.intn(8) == 0 {
		// an undeclared key met twice: it keeps the place of its first appearance
		for i, k := range n.keys {
			if findCol(cols, k) == nil && i < len(n.keys)-1 {
				n.keys = append(n.keys, k)
				n.kids = append(n.kids, &jnode{kind: 'n', s: "7"})
				break
			}
		}
	}
	return n
}

// ---------- running ----------

type tplWriter struct {
	writes [][]byte
}

func (w *tplWriter) Write(b []byte) (int, error) {
	w.writes = append(w.writes, append([]byte(nil), b...))
	return len(b), nil
}

type templCtx struct {
	rep   *streamReport
	props map[string]bool
	r     *rng
	sink  *scalarSink
	enc   map[string]bool
	parse map[string]string
	encL  []string
	parL  []string
}

func (c *templCtx) violate(prop, what string, input interface{}) {
	if c.props[prop] {
		addViolation(c.rep, prop, what, input)
	}
}

func (c *templCtx) addEnc(s string) {
	if c.enc[s] {
		return
	}
	c.enc[s] = true
	b, _ := json.Marshal(s)
	c.encL = append(c.encL, "("+gStr(s)+", "+gStr(string(b))+")")
}

func (c *templCtx) addEncTree(n *refNode) {
	if n == nil {
		return
	}
	if n.kind == 's' {
		c.addEnc(n.s)
	}
	for _, k := range n.keys {
		c.addEnc(k)
	}
	for _, k := range n.kids {
		c.addEncTree(k)
	}
}

func (c *templCtx) addParse(text string, members []string, ok bool) {
	if _, seen := c.parse[text]; seen {
		return
	}
	c.parse[text] = "x"
	okS := "false"
	if ok {
		okS = "true"
	}
	c.parL = append(c.parL, fmt.Sprintf("(%s, (%s, %s))", gStr(text), gList(members), okS))
}

func gResRow(row jsonline.Row, err error, panicked bool, sink *scalarSink) string {
	switch {
	case panicked:
		return "Panic"
	case err != nil:
		return "(Err " + jlSentinel(err) + ")"
	}
	return "(Ok " + gRow(row, sink) + ")"
}

func gResStr(b []byte, err error, panicked bool) string {
	switch {
	case panicked:
		return "Panic"
	case err != nil:
		return "(Err " + jlSentinel(err) + ")"
	}
	return "(Ok " + gStr(string(b)) + ")"
}

// the text of a document and the transcript entry of its traversal; variants that are not one object
func (c *templCtx) lineOf(doc *jnode) string {
	var sb strings.Builder
	doc.text(&sb)
	txt := sb.String()
	members := make([]string, len(doc.keys))
	for i, k := range doc.keys {
		members[i] = "(" + gStr(k) + ", " + doc.kids[i].gParsed(c.sink) + ")"
	}
	ok := true
	switch c.r.intn(14) {
	case 0:
		txt += " x"
		ok = false
	case 1:
		txt = txt[:len(txt)-1] + ",@"
		ok = false
	case 2:
		txt = "[" + txt + "]"
		members = nil
		ok = false
	case 3:
		txt = " " + txt + " "
	}
	c.addParse(txt, members, ok)
	for _, k := range doc.keys {
		c.addEnc(k)
	}
	return txt
}

func exportOnce(to jsonline.Template, input interface{}) (out []byte, err error, nwrites int, panicked bool, msg string) {
	w := &tplWriter{}
	panicked, msg = guard(func() { err = to.GetExporter(w).Export(input) })
	nwrites = len(w.writes)
	if nwrites > 0 {
		out = bytes.Join(w.writes, nil)
	}
	return
}

var (
	reDate      = regexp.MustCompile(`^\d{4}-\d{2}-\d{2}$`)
	reDateTime  = regexp.MustCompile(`^\d{4}-\d{2}-\d{2}T\d{2}:\d{2}:\d{2}(Z|[+-]\d{2}:\d{2})$`)
	reTimestamp = regexp.MustCompile(`^-?(0|[1-9][0-9]*)$`)
)

// is the emitted member in the lexical class of the format? (null is always allowed)
func inClass(f jsonline.Format, n *refNode) (bool, string) {
	if n.kind == 'z' {
		return true, ""
	}
	switch f {
	case jsonline.String:
		return n.kind == 's', "a JSON string"
	case jsonline.Numeric:
		return n.kind == 'n', "a JSON number"
	case jsonline.Boolean:
		return n.kind == 't' || n.kind == 'f', "true or false"
	case jsonline.Binary:
		if n.kind != 's' {
			return false, "a base64 string"
		}
		b, err := base64.StdEncoding.DecodeString(n.s)
		return err == nil && base64.StdEncoding.EncodeToString(b) == n.s, "canonical padded base64"
	case jsonline.Date:
		if n.kind != 's' || !reDate.MatchString(n.s) {
			return false, "YYYY-MM-DD"
		}
		_, err := time.Parse("2006-01-02", n.s)
		return err == nil, "a valid calendar date"
	case jsonline.DateTime:
		if n.kind != 's' || !reDateTime.MatchString(n.s) {
			return false, "an RFC 3339 date-time"
		}
		_, err := time.Parse(time.RFC3339, n.s)
		return err == nil, "a valid RFC 3339 date-time"
	case jsonline.Timestamp:
		return n.kind == 'n' && reTimestamp.MatchString(n.s), "an integer"
	}
	return true, ""
}

func sameNames(a, b []colDesc) bool {
	if len(a) != len(b) {
		return false
	}
	for i := range a {
		if a[i].name != b[i].name || (a[i].sub == nil) != (b[i].sub == nil) {
			return false
		}
		if a[i].sub != nil && !sameNames(a[i].sub, b[i].sub) {
			return false
		}
	}
	return true
}

func findCol(cols []colDesc, name string) *colDesc {
	for i := range cols {
		if cols[i].name == name {
			return &cols[i]
		}
	}
	return nil
}

// C03 at one level: visible declared columns first, in declaration order, once each; then the undeclared input keys in order of first appearance
func (c *templCtx) checkOrder(cols []colDesc, in, out *refNode, ctx map[string]interface{}, level string) {
	var want []string
	for _, col := range cols {
		if col.sub != nil || col.f != jsonline.Hidden {
			want = append(want, col.name)
		}
	}
	seen := map[string]bool{}
	if in != nil && in.kind == 'o' {
		for _, k := range in.keys {
			if findCol(cols, k) == nil && !seen[k] {
				seen[k] = true
				want = append(want, k)
			}
		}
	}
	got := fmt.Sprintf("%q", out.keys)
	if got != fmt.Sprintf("%q", want) {
		what := fmt.Sprintf("order: %s emits members %s, expected %q (visible declared columns in declaration order, then undeclared keys in order of first appearance)", level, got, want)
		if level != "top level" {
			what = "declared sub-row: " + what
		}
		c.violate("C03", what, ctx)
	}
	c.rep.OracleChecks["C03"]++
	if level == "top level" {
		for i, k := range out.keys {
			col := findCol(cols, k)
			if col != nil && col.sub == nil && (in == nil || in.kind != 'o' || in.member(k) == nil) && out.kids[i].kind != 'z' {
				c.violate("C03", fmt.Sprintf("order: declared column %q is missing from the input but is emitted as %s instead of null", k, out.kids[i].raw), ctx)
			}
		}
	}
	// below: sub-rows recursively; objects under any other column keep their input member order
	for i, k := range out.keys {
		col := findCol(cols, k)
		var inV *refNode
		if in != nil && in.kind == 'o' {
			inV = in.member(k)
		}
		outV := out.kids[i]
		switch {
		case col != nil && col.sub != nil:
			if outV.kind == 'o' && (inV == nil || inV.kind == 'o' || inV.kind == 'z') {
				c.checkOrder(col.sub, inV, outV, ctx, "sub-row "+k)
			}
		case inV != nil && (outV.kind == 'o' || outV.kind == 'a') && inV.kind == outV.kind:
			if at, ik, ok2 := orderDiff(inV, outV, k); at != "" {
				what := fmt.Sprintf("object under column %q: member order %q became %q", at, ik, ok2)
				if col != nil {
					what = "object under a declared column: " + what
				} else {
					what = "order: " + what
				}
				c.violate("C03", what, ctx)
			}
		}
	}
}

// the first object, at any depth below two values of the same shape, whose members kept their names but not their order
func orderDiff(in, out *refNode, at string) (string, []string, []string) {
	switch {
	case in.kind == 'o' && out.kind == 'o':
		if len(dedupe(in.keys)) != len(in.keys) {
			return "", nil, nil // a repeated name: which occurrence survives is not C03's matter
		}
		if fmt.Sprintf("%q", in.keys) != fmt.Sprintf("%q", out.keys) {
			if sameSet(in.keys, out.keys) {
				return at, in.keys, out.keys
			}
			return "", nil, nil
		}
		for i, k := range out.keys {
			if iv := in.member(k); iv != nil {
				if a, x, y := orderDiff(iv, out.kids[i], at+"."+k); a != "" {
					return a, x, y
				}
			}
		}
	case in.kind == 'a' && out.kind == 'a' && len(in.kids) == len(out.kids):
		for i := range in.kids {
			if a, x, y := orderDiff(in.kids[i], out.kids[i], fmt.Sprintf("%s[%d]", at, i)); a != "" {
				return a, x, y
			}
		}
	}
	return "", nil, nil
}

func dedupe(keys []string) []string {
	seen := map[string]bool{}
	var out []string
	for _, k := range keys {
		if !seen[k] {
			seen[k] = true
			out = append(out, k)
		}
	}
	return out
}

func sameSet(a, b []string) bool {
	x := append([]string(nil), dedupe(a)...)
	y := append([]string(nil), dedupe(b)...)
	sort.Strings(x)
	sort.Strings(y)
	return fmt.Sprintf("%q", x) == fmt.Sprintf("%q", y)
}

// C04: declared columns are emitted in their format's class, sub-rows recursively
func (c *templCtx) checkClass(cols []colDesc, out *refNode, ctx map[string]interface{}, sub bool) {
	for _, col := range cols {
		m := out.member(col.name)
		if m == nil {
			continue
		}
		if col.sub != nil {
			if m.kind == 'o' {
				c.checkClass(col.sub, m, ctx, true)
			}
			continue
		}
		if col.f == jsonline.Hidden {
			what := fmt.Sprintf("class: hidden column %q is emitted", col.name)
			if sub {
				what = "sub-row column not enforced: " + what
			}
			c.violate("C04", what, ctx)
			continue
		}
		c.rep.OracleChecks["C04"]++
		if ok, want := inClass(col.f, m); !ok {
			what := fmt.Sprintf("class: column %q declared %s is emitted as %s, not %s", col.name, col.String(), m.raw, want)
			if sub {
				what = "sub-row column not enforced: " + what
			} else if (col.f == jsonline.Date || col.f == jsonline.DateTime) && m.kind == 's' && yearOutOfRange(m.s) {
				what = "year outside 0-9999: " + what
			}
			c.violate("C04", what, ctx)
		}
	}
}

func yearOutOfRange(s string) bool {
	return strings.HasPrefix(s, "-") || (len(s) > 4 && s[4] != '-')
}

func (c *templCtx) oneCase(tier string) string {
	r := c.r
	c.sink = &scalarSink{seen: map[string]bool{}}
	c.enc, c.parse, c.encL, c.parL = map[string]bool{}, map[string]string{}, nil, nil
	var inCols, outCols []colDesc
	switch r.intn(6) {
	case 0:
		outCols = genCols(r, 0) // no input template
	case 1:
		inCols = genCols(r, 0) // no output template
	case 2:
		inCols, outCols = genCols(r, 0), genCols(r, 0)
	default:
		inCols = genCols(r, 0)
		outCols = variantCols(r, inCols)
	}
	ti, to := buildTemplate(inCols), buildTemplate(outCols)
	same := sameNames(inCols, outCols)
	ctxBase := func() map[string]interface{} {
		return map[string]interface{}{"stream": "template", "input_template": descString(inCols), "output_template": descString(outCols), "tz": os.Getenv("TZ")}
	}
	var probes []string
	// prototype rows
	probes = append(probes, fmt.Sprintf("PEmpty (Ok %s) (Ok %s)", gRow(ti.CreateRowEmpty(), c.sink), gRow(to.CreateRowEmpty(), c.sink)))
	for _, col := range append(append([]colDesc{}, inCols...), outCols...) {
		c.addEnc(col.name)
		for _, s := range col.sub {
			c.addEnc(s.name)
			for _, s2 := range s.sub {
				c.addEnc(s2.name)
			}
		}
	}
	nlines := 3 + r.intn(4)
	for i := 0; i < nlines; i++ {
		doc := genTemplDoc(r, inCols, 0)
		if len(inCols) == 0 {
			doc = genTemplDoc(r, outCols, 0)
		}
		if i == 0 && r.intn(10) == 0 {
			// a long line: the object and its newline must still reach the writer in one Write
			doc.keys = append(doc.keys, "long")
			doc.kids = append(doc.kids, &jnode{kind: 's', s: strings.Repeat("x", 4090+r.intn(20))})
		}
		line := c.lineOf(doc)
		noteCase("template", "input template "+descString(inCols)+" output template "+descString(outCols)+" line "+line)
		ctx := ctxBase()
		ctx["line"] = line
		if len(line) > 300 {
			ctx["line"] = line[:200] + "…(" + fmt.Sprint(len(line)) + " bytes)"
		}
		var row jsonline.Row
		var err error
		p, msg := guard(func() { row, err = ti.GetImporter(strings.NewReader(line)).ReadOne() })
		if p {
			c.violate("C17", "panic in Importer.ReadOne: "+msg, ctx)
		}
		seenRow := gResRow(row, err, p, c.sink)
		seenOut := seenRow
		c.rep.Outcomes[map[bool]string{true: "line rejected by importer", false: "line accepted by importer"}[err != nil]]++
		if err == nil && !p {
			// C10 at row level: the raw value of a typed column is nil or of exactly that type
			for _, col := range inCols {
				if col.sub == nil && col.typName != "" {
					raw := row.GetOrNil(col.name)
					c.rep.OracleChecks["C10"]++
					if raw != nil && reflect.TypeOf(raw) != reflect.TypeOf(typeSample[col.typName]) {
						c.violate("C10", fmt.Sprintf("column %s holds a %T after a successful import", col.String(), raw), ctx)
					}
				}
			}
			out, eerr, nw, ep, emsg := exportOnce(to, row)
			if ep {
				c.violate("C17", "panic in Exporter.Export: "+emsg, ctx)
			}
			c.feedSink(to, row)
			seenOut = gResStr(out, eerr, ep)
			c.rep.Outcomes[map[bool]string{true: "export error", false: "line emitted"}[eerr != nil]]++
			if eerr == nil && !ep {
				c.judgeOutput(inCols, outCols, same, line, out, nw, ctx, to)
			} else if nw != 0 {
				c.violate("C01", "bytes were written although Export returned an error", ctx)
			}
		}
		probes = append(probes, fmt.Sprintf("PLine %s %s %s", gStr(line), seenRow, seenOut))
	}
	// API inputs of CreateRow on the output template
	for i := 0; i < 2; i++ {
		var input interface{}
		var gin string
		switch r.intn(5) {
		case 0:
			arr := make([]interface{}, r.intn(5))
			for j := range arr {
				arr[j] = genAPIVal(r)
			}
			input, gin = arr, gRv(arr, c.sink)
		case 1:
			m := map[string]interface{}{}
			for _, col := range outCols {
				if r.bool() {
					m[col.name] = genAPIVal(r)
				}
			}
			if r.intn(3) == 0 {
				m["x"] = genAPIVal(r)
			}
			input, gin = m, gRv(m, c.sink)
		case 2:
			row := jsonline.NewRow()
			for _, col := range outCols {
				if r.bool() {
					row.Set(col.name, genAPIVal(r))
				}
			}
			if r.intn(3) == 0 {
				row.SetValue("y", jsonline.NewValue(genAPIVal(r), allFormats[r.intn(len(allFormats))], nil))
			}
			input, gin = row, gRv(row, c.sink)
		case 3:
			doc := genTemplDoc(r, outCols, 0)
			line := c.lineOf(doc)
			if r.bool() {
				input, gin = line, "(RS (VStr "+gStr(line)+"))"
			} else {
				input, gin = []byte(line), "(RS (VBytes "+gBytes([]byte(line))+"))"
			}
		default:
			input, gin = 5, "(RS (VInt KInt 5))"
		}
		ctx := ctxBase()
		ctx["create_row_input"] = describe(input)
		var row jsonline.Row
		var err error
		p, msg := guard(func() { row, err = to.CreateRow(input) })
		if p {
			c.violate("C17", "panic in Template.CreateRow: "+msg, ctx)
		}
		if m, isMap := input.(map[string]interface{}); isMap && err != nil && len(m) > 1 {
			continue // which entry fails first depends on the map iteration order
		}
		out, eerr, nw, ep, emsg := exportOnce(to, input)
		if ep {
			c.violate("C17", "panic in Exporter.Export: "+emsg, ctx)
		}
		c.feedSink(to, input)
		if eerr == nil && !ep {
			c.judgeOutput(nil, outCols, false, "", out, nw, ctx, to)
		}
		probes = append(probes, fmt.Sprintf("PCreate %s %s %s", gin, gResRow(row, err, p, c.sink), gResStr(out, eerr, ep)))
	}
	tr := &transcript{}
	var jfl []string
	for _, v := range c.sink.vals {
		t := transcriptFor(v)
		tr.ffmt = append(tr.ffmt, t.ffmt...)
		tr.fparse = append(tr.fparse, t.fparse...)
		tr.f2i = append(tr.f2i, t.f2i...)
		tr.loc = append(tr.loc, t.loc...)
		tr.slow = append(tr.slow, t.slow...)
		switch x := v.(type) {
		case float64:
			jfl = append(jfl, fmt.Sprintf("((false, %d), %s)", math.Float64bits(x), gOptMarshal(x)))
		case float32:
			jfl = append(jfl, fmt.Sprintf("((true, %d), %s)", math.Float32bits(x), gOptMarshal(x)))
		case string:
			c.addEnc(x)
		}
	}
	c.rep.Distribution[fmt.Sprintf("columns in=%d out=%d", len(inCols), len(outCols))]++
	if len(c.rep.Samples) < 6 {
		c.rep.Samples = append(c.rep.Samples, "in="+descString(inCols)+" out="+descString(outCols))
	}
	return fmt.Sprintf("mktc (mktt %s %s %s %s)\n  %s\n  %s\n  [%s]", tr.gallina(), gList(c.encL), gList(c.parL), gList(jfl),
		gDescs(inCols, c.sink), gDescs(outCols, c.sink), strings.Join(probes, ";\n   "))
}

// the scalars of the row the exporter builds (casts to the output raw types) join the oracle transcripts
func (c *templCtx) feedSink(to jsonline.Template, input interface{}) {
	guard(func() {
		if r, err := to.CreateRow(input); err == nil && r != nil {
			_ = gRow(r, c.sink)
			if e, err := r.Export(); err == nil {
				_ = gRv(e, c.sink)
			}
		}
	})
}

func gOptMarshal(v interface{}) string {
	b, err := json.Marshal(v)
	if err != nil {
		return "None"
	}
	return "(Some " + gStr(string(b)) + ")"
}

// values handed to CreateRow through the API
func genAPIVal(r *rng) interface{} {
	switch r.intn(12) {
	case 0:
		return nil
	case 1:
		return r.intn(70000) - 100
	case 2:
		return int64(1632478272)
	case 3:
		return []float64{1.5, 0, 255, -1, 1e21}[r.intn(5)]
	case 4:
		return templStrings[r.intn(len(templStrings))]
	case 5:
		return json.Number(templNumbers[r.intn(len(templNumbers))])
	case 6:
		return r.bool()
	case 7:
		return []byte{1, 2, 3, 4, 5, 6, 7, 8}[:r.intn(9)]
	case 8:
		return time.Unix(1632478272, 0).UTC()
	case 9:
		return uint8(r.intn(256))
	case 10:
		return []interface{}{1, "a"}
	}
	return "x"
}

// oracles on one emitted line
func (c *templCtx) judgeOutput(inCols, outCols []colDesc, same bool, line string, out []byte, nwrites int, ctx map[string]interface{}, to jsonline.Template) {
	c.rep.OracleChecks["C01"]++
	if nwrites != 1 {
		c.violate("C01", fmt.Sprintf("the line reached the writer in %d writes", nwrites), ctx)
	}
	if len(out) == 0 || out[len(out)-1] != '\n' || bytes.IndexByte(out[:len(out)-1], '\n') >= 0 {
		c.violate("C01", fmt.Sprintf("emitted bytes %q are not one line ending with a single newline", out), ctx)
		return
	}
	body := out[:len(out)-1]
	tree, perr := refTree(body)
	if perr != nil || tree.kind != 'o' {
		c.violate("C01", fmt.Sprintf("emitted line %q is not a valid JSON object: %v", body, perr), ctx)
		return
	}
	c.addEncTree(tree)
	ctx["output"] = string(body)
	// C04: lexical classes
	c.checkClass(outCols, tree, ctx, false)
	// C03: order and presence (stated for one column list shared by both templates, as jl builds them)
	if line != "" && (same || len(inCols) == 0) {
		if inTree, err := refTree([]byte(line)); err == nil && inTree.kind == 'o' {
			c.checkOrder(outCols, inTree, tree, ctx, "top level")
		}
	}
	// C05: the emitted line is a fixed point of its own output template when every descriptor is lossless
	lossless := true
	for _, col := range outCols {
		if !isLossless(col) {
			lossless = false
		}
	}
	// (a string holding ill-formed UTF-8, written as \ufffd escapes, is outside the domain of C05)
	if lossless && !bytes.Contains(body, []byte("\\ufffd")) {
		c.rep.OracleChecks["C05"]++
		row2, err := to.GetImporter(bytes.NewReader(body)).ReadOne()
		if err != nil {
			what := fmt.Sprintf("fixed point: the emitted line is rejected by its own output template: %v", err)
			if yearIssue(tree) {
				what = "year outside 0-9999: " + what
			}
			c.violate("C05", what, ctx)
			return
		}
		out2, err2, _, p2, _ := exportOnce(to, row2)
		if err2 != nil || p2 {
			c.violate("C05", fmt.Sprintf("fixed point: the emitted line cannot be re-emitted by its own output template: %v", err2), ctx)
			return
		}
		if !bytes.Equal(out2, out) {
			what := fmt.Sprintf("fixed point: second pass gives %q", out2)
			if t2, e := refTree(out2[:len(out2)-1]); e == nil && refSortedEqual(tree, t2) {
				what = "object under a declared column: " + what + " (same members, other order)"
			} else if yearIssue(tree) {
				what = "year outside 0-9999: " + what
			}
			c.violate("C05", what, ctx)
		}
	}
}

func yearIssue(n *refNode) bool {
	if n.kind == 's' && len(n.s) > 10 && yearOutOfRange(n.s) {
		return true
	}
	for _, k := range n.kids {
		if yearIssue(k) {
			return true
		}
	}
	return false
}

func refCanonSorted(n *refNode) string {
	switch n.kind {
	case 'o':
		idx := make([]int, len(n.keys))
		for i := range idx {
			idx[i] = i
		}
		sort.Slice(idx, func(a, b int) bool { return n.keys[idx[a]] < n.keys[idx[b]] })
		var parts []string
		for _, i := range idx {
			parts = append(parts, fmt.Sprintf("%q:%s", n.keys[i], refCanonSorted(n.kids[i])))
		}
		return "{" + strings.Join(parts, ",") + "}"
	case 'a':
		var parts []string
		for _, k := range n.kids {
			parts = append(parts, refCanonSorted(k))
		}
		return "[" + strings.Join(parts, ",") + "]"
	}
	return n.raw
}

func refSortedEqual(a, b *refNode) bool { return refCanonSorted(a) == refCanonSorted(b) }

// ---------- C13: typed columns survive write-then-read ----------

func valuesOfType(r *rng, t string) []interface{} {
	i64 := []int64{0, 1, -1, 127, 128, -128, -129, 255, 256, 32767, 32768, -32768, 65535, 65536, 1 << 31, 1<<31 - 1, -(1 << 31), 1 << 32, 1<<63 - 1, -(1 << 63), int64(r.next())}
	var out []interface{}
	add := func(v interface{}) { out = append(out, v) }
	switch t {
	case "int":
		for _, x := range i64 {
			add(int(x))
		}
	case "int64":
		for _, x := range i64 {
			add(x)
		}
	case "int32", "rune":
		for _, x := range i64 {
			add(int32(x))
		}
	case "int16":
		for _, x := range i64 {
			add(int16(x))
		}
	case "int8":
		for _, x := range i64 {
			add(int8(x))
		}
	case "uint":
		for _, x := range i64 {
			add(uint(x))
		}
	case "uint64":
		for _, x := range i64 {
			add(uint64(x))
		}
	case "uint32":
		for _, x := range i64 {
			add(uint32(x))
		}
	case "uint16":
		for _, x := range i64 {
			add(uint16(x))
		}
	case "uint8", "byte":
		for _, x := range i64 {
			add(uint8(x))
		}
	case "float64":
		for _, x := range []float64{0, math.Copysign(0, -1), 1, -1.5, 0.1, 1e21, 1e-7, math.MaxFloat64, math.SmallestNonzeroFloat64, 1 << 53, 1<<53 + 2, math.Float64frombits(r.next()&^(0x7ff<<52) | uint64(r.intn(2046)+1)<<52)} {
			add(x)
		}
	case "float32":
		for _, x := range []float32{0, 1, -1.5, 0.1, 1e21, 1e-7, math.MaxFloat32, math.SmallestNonzeroFloat32, 16777216} {
			add(x)
		}
	case "bool":
		add(true)
		add(false)
	case "string":
		// (control characters and runes Go's %q and JSON quote differently; non-BMP; U+2028; DEL)
		for _, x := range []string{"", "x", "é", "12", "true", "<&>", "\"\\", "a\nb", " ", "2021-09-24T10:11:12Z",
			"\\u003c", "x\\u0026\\", strings.Repeat("long text ", 300), `{"a":1}`, `[1,2]`, `{}`, `[]`, `"q"`, `null`, `-1.5e3`, "\a", "\v\f", "\x00\x1f", "\x7f", "\u2028\u2029", "\U0001F600", "\U000E0001", "\u00ad\ufeff", "tab\there"} {
			add(x)
		}
	case "[]byte":
		add([]byte{})
		add([]byte("hi"))
		add([]byte{0, 255, 1, 2, 3, 4, 5, 6, 7})
		add(bytes.Repeat([]byte{0xde, 0xad, 0xbe, 0xef}, 250))  // 1000 bytes: more than one read of a streaming base64 decoder
		add(bytes.Repeat([]byte{0, 1, 2, 3, 4, 5, 6}, 1000)) // 7000 bytes
	case "time.Time":
		for _, s := range []int64{0, 1, 1632478272, 253402214400, 951782400, -1, 4102444800} {
			add(time.Unix(s, 0))
			add(time.Unix(s, 0).UTC())
			add(time.Unix(s, 0).In(time.FixedZone("", 5*3600+1800)))
		}
	case "json.Number":
		for _, x := range []string{"0", "12", "-1.50", "1E+2", "123456789012345678901234567890"} {
			add(json.Number(x))
		}
	}
	return out
}

func equalRaw(a, b interface{}) bool {
	switch x := a.(type) {
	case time.Time:
		y, ok := b.(time.Time)
		return ok && x.Unix() == y.Unix()
	case float64:
		y, ok := b.(float64)
		return ok && math.Float64bits(x) == math.Float64bits(y)
	case float32:
		y, ok := b.(float32)
		return ok && math.Float32bits(x) == math.Float32bits(y)
	case []byte:
		y, ok := b.([]byte)
		return ok && bytes.Equal(x, y)
	}
	return reflect.DeepEqual(a, b)
}

func inLosslessDomain(f jsonline.Format, t string, v interface{}) bool {
	switch x := v.(type) {
	case float64:
		if f == jsonline.Numeric || f == jsonline.Auto {
			return !math.IsNaN(x) && !math.IsInf(x, 0)
		}
	case json.Number:
		if f == jsonline.Numeric || f == jsonline.Auto {
			var js json.Number
			return json.Unmarshal([]byte(x), &js) == nil
		}
	case time.Time:
		if f == jsonline.Binary {
			return x.Unix() > -(1<<55) && x.Unix() < 1<<55
		}
		return x.Year() >= 0 && x.Year() <= 9999
	}
	return true
}

// C10 at row level, through every way of handing a Value to a column: after a SUCCESSFUL import the raw value of the
// column is nil or of exactly the raw type the column then declares (a plain Value replaces format and raw type
// together; data is converted to the column's raw type)
func (c *templCtx) valueImportOracle() {
	var donors []jsonline.Value
	for _, f := range allFormats {
		for _, tn := range []string{"", "int", "int16", "uint8", "float64", "string", "[]byte", "bool", "json.Number", "time.Time"} {
			for _, x := range []interface{}{"42", int16(7), 2.5, true, []byte("AQ=="), "2021-09-24T10:11:12Z", int64(1632478272), nil} {
				if _, err := cast.To(typeSample[tn], x); err != nil {
					continue // (NewValue keeps the uncast value when the cast fails: such a donor is itself ill-typed)
				}
				donors = append(donors, jsonline.NewValue(x, f, typeSample[tn]))
			}
		}
	}
	for _, f := range allFormats {
		for _, tn := range append([]string{""}, typeNames...) {
			tpl := jsonline.NewTemplate().With("c", f, typeSample[tn]).WithNumeric("n")
			for di, d := range donors {
				for how := 0; how < 4; how++ {
					if (di+how)%3 != 0 {
						continue
					}
					row := tpl.CreateRowEmpty()
					var err error
					var desc string
					p, msg := guard(func() {
						switch how {
						case 0:
							desc = "ImportAtKey(\"c\", Value)"
							err = row.ImportAtKey("c", d)
						case 1:
							desc = "ImportAtIndex(0, Value)"
							err = row.ImportAtIndex(0, d)
						case 2:
							desc = "Import(map{c: Value})"
							err = row.Import(map[string]interface{}{"c": d})
						default:
							desc = "GetValue(\"c\").Import(Value)"
							cell, _ := row.GetValue("c")
							err = cell.Import(d)
						}
					})
					ctx := map[string]interface{}{"stream": "template", "column": fmt.Sprintf("%s(%s)", strings.ToLower(strings.TrimPrefix(gFormat(f), "F")), tn),
						"call": desc, "value": fmt.Sprintf("NewValue(%s, %s, %T)", describe(d.Raw()), gFormat(d.GetFormat()), d.GetRawType())}
					if p {
						c.violate("C17", "panic: "+msg, ctx)
						continue
					}
					c.rep.OracleChecks["C10"]++
					if err != nil {
						continue
					}
					cell, ok := row.GetValue("c")
					if !ok || cell == nil {
						continue
					}
					if raw, typ := cell.Raw(), cell.GetRawType(); raw != nil && typ != nil && reflect.TypeOf(raw) != reflect.TypeOf(typ) {
						c.violate("C10", fmt.Sprintf("after a successful %s the column declares raw type %T and holds a %T", desc, typ, raw), ctx)
					}
				}
			}
		}
	}
}

// C10 at column level, directed: after a line is accepted, the column of raw type T holds nil or a T — for every
// format x raw type and a few values of every JSON kind (the empty string and the empty array among them)
func (c *templCtx) typedAfterImport() {
	vals := []string{`""`, `"AQ=="`, `"x"`, `"12"`, `0`, `1.5`, `true`, `null`, `[]`, `{}`, `"2021-09-24"`, `"2021-09-24T10:11:12Z"`, `1632478272`, `"\u0000"`}
	for _, f := range allFormats {
		for _, tn := range typeNames {
			tpl := jsonline.NewTemplate().With("c", f, typeSample[tn])
			for _, v := range vals {
				line := `{"c":` + v + `}`
				var row jsonline.Row
				var err error
				if p, _ := guard(func() { row, err = tpl.GetImporter(strings.NewReader(line)).ReadOne() }); p || err != nil || row == nil {
					continue
				}
				c.rep.OracleChecks["C10"]++
				if raw := row.GetOrNil("c"); raw != nil && reflect.TypeOf(raw) != reflect.TypeOf(typeSample[tn]) {
					c.violate("C10", fmt.Sprintf("column %s(%s) holds a %T after a successful import", strings.ToLower(strings.TrimPrefix(gFormat(f), "F")), tn, raw),
						map[string]interface{}{"stream": "template", "line": line})
				}
			}
		}
	}
}

// C11 at column level: a binary column mapped to a fixed-width type accepts exactly the payloads of that width and
// re-emits exactly the bytes it accepted (every exponent / NaN payload class included); bool is the one-byte
// normalising special case
func (c *templCtx) binaryColumnOracle() {
	widths := map[string]int{"int8": 1, "uint8": 1, "byte": 1, "int16": 2, "uint16": 2, "int32": 4, "uint32": 4, "rune": 4, "float32": 4,
		"int64": 8, "uint64": 8, "int": 8, "uint": 8, "float64": 8}
	special := [][]byte{{}, {0}, {0xff}, {0, 0}, {0xff, 0x7f}, {0, 0, 0x80, 0x7f}, {1, 0, 0x80, 0x7f}, {0, 0, 0xc0, 0xff}, {0, 0, 0x80, 0xff}, {0, 0, 0, 0x80},
		{0, 0, 0, 0, 0, 0, 0xf0, 0x7f}, {1, 0, 0, 0, 0, 0, 0xf0, 0x7f}, {0, 0, 0, 0, 0, 0, 0xf8, 0xff}, {0, 0, 0, 0, 0, 0, 0xf0, 0xff}, {0, 0, 0, 0, 0, 0, 0, 0x80},
		{0xff, 0xff, 0xff, 0xff, 0xff, 0xff, 0xff, 0xff}, {0xff, 0xff, 0xff, 0xff}, {1, 2, 3}, {1, 2, 3, 4, 5}, {1, 2, 3, 4, 5, 6, 7, 8, 9}, []byte("true"), []byte("12345678"), []byte("1.5"), []byte("42"), []byte("-2e+3"), []byte("7")}
	for tn, w := range widths {
		tpl := jsonline.NewTemplate().WithMappedBinary("c", typeSample[tn])
		payloads := append([][]byte{}, special...)
		for _, extra := range []int{256, 512, 65536} {
			payloads = append(payloads, bytes.Repeat([]byte{7}, w+extra)) // a length that equals the size modulo 256 / 65536
		}
		for i := 0; i < 12; i++ {
			b := make([]byte, c.r.intn(18))
			for j := range b {
				b[j] = byte(c.r.next())
			}
			payloads = append(payloads, b)
		}
		// a JSON number is not a payload of any fixed width (its digits, read as base64, decode to 0, 3 or 6 bytes at best)
		for _, num := range []string{`12345678`, `1234`, `0`, `1.5`, `true`} {
			line := `{"c":` + num + `}`
			var err error
			guard(func() { _, err = tpl.GetImporter(strings.NewReader(line)).ReadOne() })
			c.rep.OracleChecks["C11"]++
			if err == nil {
				c.violate("C11", fmt.Sprintf("the JSON value %s is accepted as the payload of a binary column mapped to %s (%d bytes)", num, tn, w), map[string]interface{}{"stream": "template", "column": "binary(" + tn + ")", "line": line})
			}
		}
		for _, pl := range payloads {
			line := fmt.Sprintf(`{"c":%q}`, base64.StdEncoding.EncodeToString(pl))
			ctx := map[string]interface{}{"stream": "template", "column": "binary(" + tn + ")", "line": line, "payload_bytes": fmt.Sprintf("% x", pl)}
			var row jsonline.Row
			var err error
			if p, msg := guard(func() { row, err = tpl.GetImporter(strings.NewReader(line)).ReadOne() }); p {
				c.violate("C17", "panic in Importer.ReadOne: "+msg, ctx)
				continue
			}
			c.rep.OracleChecks["C11"]++
			if len(pl) != w {
				if err == nil {
					c.violate("C11", fmt.Sprintf("a %d-byte payload is accepted by a binary column mapped to %s (%d bytes)", len(pl), tn, w), ctx)
				}
				// a refused payload leaves nothing behind: the same row, used again, does not emit it — whether it was
				// offered through ImportAtKey or through Set
				for how := 0; how < 2; how++ {
					own := tpl.CreateRowEmpty()
					desc := "ImportAtKey"
					guard(func() {
						if how == 0 {
							_ = own.ImportAtKey("c", base64.StdEncoding.EncodeToString(pl))
						} else {
							desc = "Set"
							own.Set("c", append([]byte(nil), pl...))
						}
					})
					b, merr := own.MarshalJSON()
					c.rep.OracleChecks["C11"]++
					if merr == nil && string(b) != `{"c":null}` {
						c.violate("C11", fmt.Sprintf("after %s refused the %d-byte payload the row emits %s: the column kept an ill-sized payload", desc, len(pl), b), ctx)
					}
				}
				continue
			}
			if err != nil || row == nil {
				c.violate("C11", fmt.Sprintf("a well-sized payload is rejected by a binary column mapped to %s: %v", tn, err), ctx)
				continue
			}
			out, eerr, _, ep, _ := exportOnce(tpl, row)
			if eerr != nil || ep || string(out) != line+"\n" {
				c.violate("C11", fmt.Sprintf("the column re-emits %q (%v), not the payload it accepted", out, eerr), ctx)
			}
		}
	}
}

func (c *templCtx) typedRoundTrips() {
	for _, f := range allFormats {
		for _, t := range losslessTypes(f) {
			if t == "" {
				continue
			}
			tplGeneric := jsonline.NewTemplate().With("c", f, typeSample[t])
			tplDedicated := jsonline.NewTemplate()
			dedicatedColumn(tplDedicated, "c", f, typeSample[t])
			// (a column may be named ""; the builders must declare it like any other)
			if e := jsonline.NewTemplate(); true {
				dedicatedColumn(e, "", f, typeSample[t])
				c.rep.OracleChecks["C13"]++
				if cell, ok := e.CreateRowEmpty().GetValue(""); !ok || cell == nil || cell.GetFormat() != f || reflect.TypeOf(cell.GetRawType()) != reflect.TypeOf(typeSample[t]) {
					c.violate("C13", fmt.Sprintf("lossless: the builder dedicated to %s does not declare a column named \"\" with raw type %s (a value written under it cannot come back typed)", strings.ToLower(strings.TrimPrefix(gFormat(f), "F")), t),
						map[string]interface{}{"stream": "template", "column": fmt.Sprintf("%s(%s)", strings.ToLower(strings.TrimPrefix(gFormat(f), "F")), t), "name": ""})
				}
			}
			for vi, v := range valuesOfType(c.r, t) {
				if !inLosslessDomain(f, t, v) {
					continue
				}
				tpl := tplGeneric // every second value goes through the builder method dedicated to the format (WithMappedX)
				if vi%2 == 1 {
					tpl = tplDedicated
				}
				ctx := map[string]interface{}{"stream": "template", "column": fmt.Sprintf("%s(%s)", strings.ToLower(strings.TrimPrefix(gFormat(f), "F")), t), "value": describe(v), "tz": os.Getenv("TZ")}
				c.rep.OracleChecks["C13"]++
				for route := 0; route < 2; route++ {
					var line []byte
					var err error
					var p bool
					var msg string
					if route == 0 {
						p, msg = guard(func() {
							var row jsonline.Row
							row, err = tpl.CreateRow(map[string]interface{}{"c": v})
							if err == nil {
								line, err = row.MarshalJSON()
							}
						})
					} else {
						var nw int
						line, err, nw, p, msg = exportOnce(tpl, map[string]interface{}{"c": v})
						_ = nw
						line = bytes.TrimSuffix(line, []byte("\n"))
					}
					if p {
						c.violate("C17", "panic: "+msg, ctx)
						continue
					}
					if err != nil {
						c.violate("C13", fmt.Sprintf("lossless: the value cannot be written: %v", err), ctx)
						continue
					}
					var back jsonline.Row
					if route == 0 {
						back = tpl.CreateRowEmpty()
						err = back.UnmarshalJSON(line)
					} else {
						back, err = tpl.GetImporter(bytes.NewReader(line)).ReadOne()
					}
					if err != nil {
						c.violate("C13", fmt.Sprintf("lossless: the written line %s is rejected on read-back: %v", line, err), ctx)
						continue
					}
					got := back.GetOrNil("c")
					if reflect.TypeOf(got) != reflect.TypeOf(v) {
						c.violate("C13", fmt.Sprintf("lossless: read back as %T from %s", got, line), ctx)
					} else if !equalRaw(v, got) {
						c.violate("C13", fmt.Sprintf("lossless: read back as %s from %s", describe(got), line), ctx)
					}
				}
			}
		}
	}
}

// ---------- C05: systematic fixed-point sweep over the lossless pairings ----------

var sweepValues = []string{`null`, `true`, `false`, `0`, `1`, `-1`, `-0`, `-0.0`, `-0e0`, `-1e-400`, `1.5`, `0.10`, `1E+2`, `1e3`, `127`, `128`, `255`, `256`,
	`65535`, `65536`, `4294967296`, `9007199254740993`, `9223372036854775807`, `12345678901234567890`, `1632478272`, `100000000000`, `127174485600`,
	`253402214400`, `"x"`, `""`, `"12"`, `"-7"`, `"1.5"`, `"-0.0"`, `"true"`, `"aGk="`, `"AAAAAAAAAAA="`, `"AQ=="`, `"2021-09-24"`,
	`"2021-09-24T10:11:12Z"`, `"2021-09-24T10:11:12+05:30"`, `"2021-10-31T02:30:00.5+02:00"`, `"5138-11-16T09:46:40Z"`, `"9999-12-31T23:59:59Z"`, `"é"`, `"<&>"`}

// a directed sweep: every output descriptor (format x raw type, lossless or not) x four input
// templates x every sweep value, one column; every emitted line goes through the oracles of C01, C03,
// C04 and (lossless descriptors) C05 — what the random cases reach only with some probability
func (c *templCtx) fixedPointSweep() {
	inputs := []struct {
		name string
		cols []colDesc
	}{
		{"{}", nil},
		{"{c:datetime}", []colDesc{{name: "c", f: jsonline.DateTime}}},
		{"{c:string}", []colDesc{{name: "c", f: jsonline.String}}},
		{"{c:numeric}", []colDesc{{name: "c", f: jsonline.Numeric}}},
		{"{c:auto}", []colDesc{{name: "c", f: jsonline.Auto}}},
	}
	values := append(append(append([]string{}, sweepValues...), sweepMore...), sweepSized...)
	for _, f := range allFormats {
		for _, t := range append([]string{""}, typeNames...) {
			out := []colDesc{{name: "c", f: f, typName: t}}
			to := buildTemplate(out)
			for ii, in := range inputs {
				ti := buildTemplate(in.cols)
				for _, v := range values {
					line := `{"c":` + v + `}`
					var row jsonline.Row
					var err error
					if p, _ := guard(func() { row, err = ti.GetImporter(strings.NewReader(line)).ReadOne() }); p || err != nil || row == nil {
						continue
					}
					L, err, nw, p, _ := exportOnce(to, row)
					if err != nil || p {
						continue
					}
					ctx := map[string]interface{}{"stream": "template", "input_template": in.name, "output_template": descString(out), "line": line, "tz": os.Getenv("TZ")}
					save, saveL := c.enc, c.encL
					c.enc, c.encL = map[string]bool{}, nil
					c.judgeOutput(in.cols, out, ii == 0 || sameNames(in.cols, out), line, L, nw, ctx, to)
					c.enc, c.encL = save, saveL
					// C14 at column level: a date-time text with an explicit offset comes out of a date-time column (or a string
					// column holding a time) as the same instant with the same offset, sub-second digits dropped
					if c.props["C14"] && len(v) > 2 && v[0] == '"' && (f == jsonline.DateTime && (t == "" || t == "time.Time") || f == jsonline.String && t == "time.Time") {
						if wantSec, wantOff, ok := readRFC3339(v[1 : len(v)-1]); ok {
							c.rep.OracleChecks["C14"]++
							if tree, err := refTree(bytes.TrimSuffix(L, []byte("\n"))); err == nil && tree.kind == 'o' {
								if m := tree.member("c"); m != nil {
									gotSec, gotOff, ok2 := readRFC3339(m.s)
									if m.kind == 's' && ok2 && strings.Contains(m.s, ".") {
										c.violate("C14", fmt.Sprintf("the date-time %s is written back as %s: sub-second digits are dropped, not kept", v, m.raw), ctx)
									}
									if m.kind != 's' || !ok2 || gotSec != wantSec || gotOff != wantOff {
										c.violate("C14", fmt.Sprintf("the date-time %s is written back as %s: instant %d offset %d expected, got %d / %d", v, m.raw, wantSec, wantOff, gotSec, gotOff), ctx)
									}
								}
							}
						}
					}
				}
			}
		}
	}
}

// a wide template: twenty columns of every format (the 17th column is a column like the others), lines that fill
// them in several orders, with undeclared keys in between
func (c *templCtx) wideTemplate() {
	var cols []colDesc
	for i := 0; i < 20; i++ {
		f := allFormats[i%len(allFormats)]
		cols = append(cols, colDesc{name: fmt.Sprintf("c%02d", i), f: f})
	}
	tpl := buildTemplate(cols)
	val := func(f jsonline.Format, k int) string {
		switch f {
		case jsonline.Numeric, jsonline.Timestamp:
			return fmt.Sprint(1600000000 + k)
		case jsonline.Boolean:
			return "true"
		case jsonline.Binary:
			return `"AQID"`
		case jsonline.Date:
			return `"2021-09-24"`
		case jsonline.DateTime:
			return `"2021-09-24T10:11:12Z"`
		}
		return fmt.Sprintf(`"v%d"`, k)
	}
	for order := 0; order < 4; order++ {
		var parts []string
		for k := range cols {
			i := k
			switch order {
			case 1:
				i = len(cols) - 1 - k
			case 2:
				i = (k*7 + 3) % len(cols)
			case 3:
				if k%3 == 2 {
					continue // some columns missing
				}
			}
			parts = append(parts, fmt.Sprintf(`"%s":%s`, cols[i].name, val(cols[i].f, i)))
			if k%5 == 4 {
				parts = append(parts, fmt.Sprintf(`"extra%d":[%d]`, k, k))
			}
		}
		line := "{" + strings.Join(parts, ",") + "}"
		var row jsonline.Row
		var err error
		if p, _ := guard(func() { row, err = tpl.GetImporter(strings.NewReader(line)).ReadOne() }); p || err != nil || row == nil {
			c.violate("C04", fmt.Sprintf("wide template: a line of well-typed values is refused: %v", err), map[string]interface{}{"stream": "template", "line": line})
			continue
		}
		L, eerr, nw, p, _ := exportOnce(tpl, row)
		if eerr != nil || p {
			continue
		}
		ctx := map[string]interface{}{"stream": "template", "input_template": descString(cols), "output_template": descString(cols), "line": line, "tz": os.Getenv("TZ")}
		save, saveL := c.enc, c.encL
		c.enc, c.encL = map[string]bool{}, nil
		c.judgeOutput(cols, cols, true, line, L, nw, ctx, tpl)
		c.enc, c.encL = save, saveL
	}
}

// more values for the sweep: numbers beyond float64, fractional / exponent timestamps, date look-alikes
// with one-digit fields, control characters Go and JSON quote differently, arrays and objects whose
// members are not in alphabetical order
// (shapes with an exact size: strings of 4095 / 4096 / 65535 / 65536 bytes, arrays of 1 and 256 elements, nesting 16 and 64)
var sweepSized = func() []string {
	var out []string
	for _, n := range []int{4095, 4096, 65535, 65536} {
		out = append(out, `"`+strings.Repeat("s", n)+`"`)
	}
	var sb strings.Builder
	sb.WriteString("[")
	for i := 0; i < 256; i++ {
		if i > 0 {
			sb.WriteString(",")
		}
		fmt.Fprintf(&sb, "%d", i)
	}
	sb.WriteString("]")
	out = append(out, sb.String(), `[7]`, strings.Repeat("[", 16)+strings.Repeat("]", 16), strings.Repeat("[", 64)+strings.Repeat("]", 64),
		strings.Repeat(`{"k":`, 16)+`1`+strings.Repeat("}", 16), `"{\"a\":1}"`, `"[1,2]"`, `-1.5E+3`, `1E-2`, `"+1.5e3"`)
	return out
}()

var sweepMore = []string{`"\"\\\"x\\\"\""`, `"\"a\""`, `1566844858123456`, `1000000000000`, `999999999999`, `"\\u003c"`, `"a\\u0026b\\\\u003e"`, `"2021-09-24 "`, `" 2021-09-24"`, `"2021-09-24\t"`, `1e21`, `1.2345678901234568e+29`, `123456789012345678901234567890`, `18446744073709551615`, `9223372036854775808`, `"2023/02/03"`, `"2023.02.03"`, `"03/02/2023"`, `"2023-02-03Z"`, `"a\n\n"`, `"w\r\n\r\n"`, `"\n"`, `" x "`, `200000000000000`, `100000000000000`, `-200000000000000`, `253402300799`, `253402300800`, `253402250400`, `253402214400`, `-62167219200`, `-62167219201`, `-62167180000`, `-62167250000`, `"9999-12-31T23:30:00-01:00"`, `"0000-01-01T00:30:00+01:00"`, `1e400`, `-1E+999`, `1e-400`, `1632823189.5`, `1.6e9`, `0.0`, `"2021-9-4"`, `"2021-09-4"`, `"2021-9-04"`, `"21-09-24"`,
	`"2021-09-24T10:11:12"`, `"2021-09-24 10:11:12Z"`, `"a\u0007b"`, `"\u000b"`, `"\u007f"`, `"\u0000"`, `"\ud83d\ude00"`, `"\u2028"`,
	`[]`, `[1,"a",null]`, `{}`, `{"z":1,"a":2}`, `{"z":{"n":1,"b":[{"y":1,"x":2}]},"a":null,"m":"t"}`, `" 1"`, `"0x10"`, `"+5"`, `".5"`, `"5."`, `"007"`, `"NaN"`, `"Infinity"`,
	`"1e400"`, `"QQ="`, `"QQ"`, `"Q Q=="`, `"////"`, `"-_-_"`}

func yearOutOfRangeLine(L []byte) bool {
	t, err := refTree(bytes.TrimSuffix(L, []byte("\n")))
	return err == nil && yearIssue(t)
}

// ---------- the stream ----------

func templateStream(seed uint64, tier string, outDir string, props map[string]bool, focus string) *streamReport {
	rep := &streamReport{Stream: "template", Seed: seed, Distribution: map[string]int{}, Outcomes: map[string]int{}, OracleChecks: map[string]int{}}
	c := &templCtx{rep: rep, props: props, r: newRng(seed, "template")}
	ncases, perFile := 240, 30
	if tier == "thorough" {
		ncases = 6000
	}
	var cases []string
	distinctSeen := map[string]bool{}
	flush := func() {
		if len(cases) == 0 {
			return
		}
		name := fmt.Sprintf("TemplateCases_%d.v", len(rep.CaseFiles))
		var sb strings.Builder
		sb.WriteString("From Coq Require Import ZArith List.\nFrom JL.std Require Import GoBase GoFloat GoStrconv GoTime GoVal.\nFrom JL.model Require Import CastRun Row RowRun Template TemplateRun.\nImport ListNotations.\nOpen Scope Z_scope.\n")
		sb.WriteString("Definition cases : list tcase := [\n")
		sb.WriteString(strings.Join(cases, ";\n"))
		sb.WriteString("\n].\nDefinition M := Eval vm_compute in template_mismatches 0 cases.\nPrint M.\n")
		p := filepath.Join(outDir, name)
		if err := os.WriteFile(p, []byte(sb.String()), 0o644); err != nil {
			panic(err)
		}
		rep.CaseFiles = append(rep.CaseFiles, p)
		cases = nil
	}
	for i := 0; i < ncases; i++ {
		cs := c.oneCase(tier)
		rep.Cases++
		if !distinctSeen[cs] {
			distinctSeen[cs] = true
			rep.Distinct++
		}
		cases = append(cases, cs)
		if len(cases) >= perFile {
			flush()
		}
	}
	flush()
	if props["C13"] || props["C17"] {
		c.typedRoundTrips()
	}
	if props["C10"] || props["C17"] {
		c.valueImportOracle()
		c.typedAfterImport()
	}
	if props["C11"] {
		c.binaryColumnOracle()
	}
	if props["C05"] || props["C04"] || props["C03"] || props["C01"] || props["C14"] {
		c.fixedPointSweep()
		c.wideTemplate()
	}
	return rep
}
