package main

// Stream "conc": 2-16 goroutines share one finished pair of templates and run per-goroutine
// programs (lines through importer and exporter, CreateRow of every input kind, CreateRowEmpty,
// MarshalJSON, a private Streamer over several lines). The binary is built with -race: a report of
// the race detector makes the process exit 66 (the driver names the case that was running). Every
// goroutine's results are compared with a sequential run of the same program made beforehand
// (direct oracle of C20), and the results observed in the CONCURRENT run are handed to the
// template model: they must be the model's sequential results.

import (
	"bytes"
	"fmt"
	"math"
	"os"
	"path/filepath"
	"strings"
	"sync"

	"github.com/cgi-fr/jsonline/pkg/jsonline"
)

type concProbe struct {
	line string
	row  string // Gallina of the importer's result
	out  string // Gallina of the exporter's result
	raw  string // a canonical text of both, for the comparison between runs
}

func runLineProbe(ti, to jsonline.Template, line string, sink *scalarSink) concProbe {
	var row jsonline.Row
	var err error
	p, _ := guard(func() { row, err = ti.GetImporter(strings.NewReader(line)).ReadOne() })
	pr := concProbe{line: line}
	pr.row = gResRow(row, err, p, sink)
	pr.out = pr.row
	pr.raw = fmt.Sprintf("%v|%v|", p, err != nil)
	if err == nil && !p && row != nil {
		out, eerr, nw, ep, _ := exportOnce(to, row)
		pr.out = gResStr(out, eerr, ep)
		pr.raw += fmt.Sprintf("%s|%q|%v|%d|%v", gRow(row, nil), out, eerr != nil, nw, ep)
		if sink != nil {
			guard(func() {
				if r2, e := to.CreateRow(row); e == nil && r2 != nil {
					_ = gRow(r2, sink)
					if ex, e2 := r2.Export(); e2 == nil {
						_ = gRv(ex, sink)
					}
				}
			})
		}
	}
	return pr
}

// an input row shared (read-only) by all goroutines of the current case
var sharedInput jsonline.Row

// the other operations of the property, summarised as one text
func runAPIProgram(ti, to jsonline.Template, lines []string) string {
	var sb strings.Builder
	guard(func() {
		e := ti.CreateRowEmpty()
		sb.WriteString(gRow(e, nil) + "|" + e.String() + "\n")
		// a write below the top level of a row of one's own: the nested row of a declared sub-row belongs to the row
		// rows created from one input row shared by every goroutine are the creator's own
		if sharedInput != nil {
			for k := range lines {
				if own, err := to.CreateRow(sharedInput); err == nil && own != nil {
					_ = own.ImportAtKey("x", len(lines)*100+k)
					_ = own.ImportAtKey("undeclared", fmt.Sprint(len(lines[k])))
					sb.WriteString(own.String() + "\n")
				}
			}
		}
		for k, l := range lines {
			own := ti.CreateRowEmpty()
			_ = own.ImportAtPath("sub.q", len(l)*7+k)
			_ = own.ImportAtPath("sub", map[string]interface{}{"q": len(l)})
			sb.WriteString(own.String() + "\n")
		}
		for _, l := range lines {
			if r, err := to.CreateRow(l); err == nil {
				b, _ := r.MarshalJSON()
				sb.Write(b)
			} else {
				sb.WriteString("E")
			}
			if r, err := to.CreateRow([]byte(l)); err == nil {
				sb.WriteString(gRow(r, nil))
			}
			sb.WriteByte('\n')
		}
		r1, _ := ti.CreateRow(map[string]interface{}{"a": 1}) // (one key: the order of new keys of a map input is Go's map order)
		r2, _ := to.CreateRow([]interface{}{1, "2", nil, []byte{1}})
		for _, r := range []jsonline.Row{r1, r2} {
			if r != nil {
				sb.WriteString(gRow(r, nil) + "|" + r.String() + "\n")
				if r3, err := to.CreateRow(r); err == nil {
					sb.WriteString(r3.String() + "\n")
				}
			}
		}
		var out bytes.Buffer
		_ = jsonline.NewStreamer(ti.GetImporter(strings.NewReader(strings.Join(lines, "\n")+"\n")), to.GetExporter(&out)).WithProcessor(jsonline.NoFailureProcessor).Stream()
		sb.Write(out.Bytes())
	})
	return sb.String()
}

func setMember(doc *jnode, k string, v *jnode) {
	for i, x := range doc.keys {
		if x == k {
			doc.kids[i] = v
			return
		}
	}
	doc.keys = append(doc.keys, k)
	doc.kids = append(doc.kids, v)
}

func concStream(seed uint64, tier string, outDir string, props map[string]bool, focus string) *streamReport {
	rep := &streamReport{Stream: "conc", Seed: seed, Distribution: map[string]int{}, Outcomes: map[string]int{}, OracleChecks: map[string]int{}}
	r := newRng(seed, "conc")
	violate := func(what string, input interface{}) {
		if props["C20"] {
			addViolation(rep, "C20", what, input)
		}
	}
	ncases, iters := 24, 40
	if tier == "thorough" {
		ncases, iters = 300, 400
	}
	var cases []string
	distinctSeen := map[string]bool{}
	c := &templCtx{rep: rep, props: props, r: r}
	for i := 0; i < ncases; i++ {
		c.sink = &scalarSink{seen: map[string]bool{}}
		c.enc, c.parse, c.encL, c.parL = map[string]bool{}, map[string]string{}, nil, nil
		inCols := genCols(r, 0)
		outCols := variantCols(r, inCols)
		if r.intn(4) == 0 {
			outCols = genCols(r, 0)
		}
		// byte-slice raw types and a sub-row are always present in some column
		inCols = append(inCols, colDesc{name: "bin", f: jsonline.Binary, typName: "[]byte"})
		outCols = append(outCols, colDesc{name: "bin", f: jsonline.Binary, typName: "[]byte"}, colDesc{name: "sub", sub: []colDesc{{name: "q", f: jsonline.Numeric}}})
		// date and date-time columns are always present too: their conversions go through package-level layouts
		inCols = append(inCols, colDesc{name: "dt", f: jsonline.Date, typName: "time.Time"}, colDesc{name: "ts", f: jsonline.DateTime}, colDesc{name: "t2", f: jsonline.DateTime},
			colDesc{name: "sub", sub: []colDesc{{name: "q", f: jsonline.Numeric}}})
		outCols = append(outCols, colDesc{name: "dt", f: jsonline.Date}, colDesc{name: "ts", f: jsonline.String, typName: "time.Time"}, colDesc{name: "t2", f: jsonline.DateTime})
		ti, to := buildTemplate(inCols), buildTemplate(outCols)
		G := 2 + r.intn(15)
		// per-goroutine programs
		programs := make([][]string, G)
		for g := range programs {
			for k := 2 + r.intn(3); k > 0; k-- {
				doc := genTemplDoc(r, inCols, 0)
				if r.bool() {
					setMember(doc, "dt", &jnode{kind: 's', s: []string{"2021-09-24", "1999-12-31", "2020-02-29"}[r.intn(3)]})
					setMember(doc, "ts", &jnode{kind: 's', s: []string{"2021-09-24T10:11:12Z", "2021-10-31T02:30:00.5+02:00", "2021-09-24 10:11:12", "24/09/2021"}[r.intn(4)]})
					setMember(doc, "t2", &jnode{kind: 'n', s: []string{"1632478272", "0", "253402214400"}[r.intn(3)]})
				}
				programs[g] = append(programs[g], c.lineOf(doc))
			}
		}
		ctx := map[string]interface{}{"stream": "conc", "input_template": descString(inCols), "output_template": descString(outCols), "goroutines": G}
		noteCase("conc", fmt.Sprintf("%d goroutines sharing input template %s output template %s; programs %q", G, descString(inCols), descString(outCols), programs))
		sharedInput = jsonline.NewRow()
		_ = sharedInput.UnmarshalJSON([]byte(`{"x":1,"undeclared":"u","bin":"AQI=","k":[1,{"z":2}]}`))
		protoBefore := gRow(ti.CreateRowEmpty(), nil) + "|" + gRow(to.CreateRowEmpty(), nil)
		// sequential reference
		refProbes := make([][]concProbe, G)
		refAPI := make([]string, G)
		for g := range programs {
			for _, l := range programs[g] {
				refProbes[g] = append(refProbes[g], runLineProbe(ti, to, l, c.sink))
			}
			refAPI[g] = runAPIProgram(ti, to, programs[g])
		}
		// concurrent run, on templates of the same columns that no one has used yet: their first use is concurrent
		ti, to = buildTemplate(inCols), buildTemplate(outCols)
		got := make([][]concProbe, G)
		gotAPI := make([]string, G)
		bad := make([]string, G)
		var wg sync.WaitGroup
		start := make(chan struct{})
		for g := 0; g < G; g++ {
			wg.Add(1)
			go func(g int) {
				defer wg.Done()
				<-start
				for it := 0; it < iters; it++ {
					var probes []concProbe
					for _, l := range programs[g] {
						probes = append(probes, runLineProbe(ti, to, l, nil))
					}
					api := runAPIProgram(ti, to, programs[g])
					if it == 0 {
						got[g], gotAPI[g] = probes, api
					}
					for k := range probes {
						if probes[k].raw != refProbes[g][k].raw && bad[g] == "" {
							bad[g] = fmt.Sprintf("goroutine %d, iteration %d, line %q: %s, alone: %s", g, it, probes[k].line, probes[k].raw, refProbes[g][k].raw)
						}
					}
					if api != refAPI[g] && bad[g] == "" {
						bad[g] = fmt.Sprintf("goroutine %d, iteration %d: CreateRow / MarshalJSON / Stream results %q, alone: %q", g, it, api, refAPI[g])
					}
				}
			}(g)
		}
		close(start)
		wg.Wait()
		rep.OracleChecks["C20"] += G * iters
		for g := range bad {
			if bad[g] != "" {
				violate("concurrent: a goroutine does not obtain the results it obtains when running alone: "+bad[g], ctx)
				break
			}
		}
		if after := gRow(ti.CreateRowEmpty(), nil) + "|" + gRow(to.CreateRowEmpty(), nil); after != protoBefore {
			violate(fmt.Sprintf("concurrent: the shared templates changed: %s -> %s", protoBefore, after), ctx)
		}
		rep.Distribution[fmt.Sprintf("goroutines %d-%d", G/4*4, G/4*4+3)]++
		// model case: the results of the concurrent run are the model's sequential results
		var probes []string
		for g := range got {
			for _, p := range got[g] {
				probes = append(probes, fmt.Sprintf("PLine %s %s %s", gStr(p.line), p.row, p.out))
			}
		}
		tr := &transcript{}
		var jfl []string
		for _, v := range c.sink.vals {
			t := transcriptFor(v)
			tr.ffmt, tr.fparse, tr.f2i, tr.loc, tr.slow = append(tr.ffmt, t.ffmt...), append(tr.fparse, t.fparse...), append(tr.f2i, t.f2i...), append(tr.loc, t.loc...), append(tr.slow, t.slow...)
			switch x := v.(type) {
			case float64:
				jfl = append(jfl, fmt.Sprintf("((false, %d), %s)", math.Float64bits(x), gOptMarshal(x)))
			case float32:
				jfl = append(jfl, fmt.Sprintf("((true, %d), %s)", math.Float32bits(x), gOptMarshal(x)))
			}
		}
		cases = append(cases, fmt.Sprintf("mktc (mktt %s [] [] %s)\n  %s\n  %s\n  [%s]", tr.gallina(), gList(jfl),
			gDescs(inCols, c.sink), gDescs(outCols, c.sink), strings.Join(probes, ";\n   ")))
		rep.Cases++
		if key := cases[len(cases)-1]; !distinctSeen[key] {
			distinctSeen[key] = true
			rep.Distinct++
		}
		if len(rep.Samples) < 4 {
			rep.Samples = append(rep.Samples, fmt.Sprintf("%d goroutines x %d iterations, in=%s out=%s", G, iters, descString(inCols), descString(outCols)))
		}
	}
	perFile := 6
	for i := 0; i < len(cases); i += perFile {
		j := i + perFile
		if j > len(cases) {
			j = len(cases)
		}
		name := fmt.Sprintf("ConcCases_%d.v", len(rep.CaseFiles))
		var sb strings.Builder
		sb.WriteString("From Coq Require Import ZArith List.\nFrom JL.std Require Import GoBase GoFloat GoStrconv GoTime GoVal.\nFrom JL.model Require Import CastRun Row RowRun Template TemplateRun.\nImport ListNotations.\nOpen Scope Z_scope.\n")
		sb.WriteString("Definition cases : list tcase := [\n")
		sb.WriteString(strings.Join(cases[i:j], ";\n"))
		sb.WriteString("\n].\nDefinition M := Eval vm_compute in template_mismatches 0 cases.\nPrint M.\n")
		p := filepath.Join(outDir, name)
		if err := os.WriteFile(p, []byte(sb.String()), 0o644); err != nil {
			panic(err)
		}
		rep.CaseFiles = append(rep.CaseFiles, p)
	}
	return rep
}
