package main

import (
	"fmt"
	"time"
)

// C14 direct oracles beyond cast.ToTime of strings / int64 (those are in cast_oracles.go):
//   - cast.ToTimestamp of a time.Time or of a well-formed RFC 3339 string is the whole-second
//     instant: sub-second digits are dropped, never rounded up;
//   - cast.ToString / cast.To(string) of a time.Time with a whole-minute offset and a year
//     0001..9999 is a text that the independent reader maps back to the same instant and offset.
func c14More(rep *streamReport, t castTarget, v interface{}, o castOutcome) {
	if o.panicked {
		return
	}
	in := func() interface{} { return castInput(t, v) }
	switch {
	case t.fn == 2: // cast.ToTimestamp
		var want int64
		switch x := v.(type) {
		case time.Time:
			want = floorSeconds(x)
		case string:
			sec, _, ok := readRFC3339(x)
			if !ok || x[:4] == "0000" {
				return
			}
			want = sec
		default:
			return
		}
		rep.OracleChecks["C14"]++
		got, isI := o.res.(int64)
		if o.err != nil || !isI || got != want {
			addViolation(rep, "C14", fmt.Sprintf("timestamp %v (%v), expected the whole-second instant %d", o.res, o.err, want), in())
		}
	case t.fn == 0 && t.name == "string":
		x, isT := v.(time.Time)
		if !isT {
			return
		}
		_, off := x.Zone()
		y := x.Year()
		if off%60 != 0 || off <= -86400 || off >= 86400 || y < 1 || y > 9999 {
			return
		}
		rep.OracleChecks["C14"]++
		s, isS := o.res.(string)
		sec, off2, ok := readRFC3339(s)
		if o.err != nil || !isS || !ok || sec != floorSeconds(x) || off2 != off {
			addViolation(rep, "C14", fmt.Sprintf("time rendered as %q (%v): instant %d offset %d, expected %d / %d", s, o.err, sec, off2, floorSeconds(x), off), in())
		}
	}
}

// whole seconds since the epoch, rounding towards minus infinity, computed from the calendar
// fields in UTC (independent of Time.Unix)
func floorSeconds(x time.Time) int64 {
	u := x.UTC()
	s := fmt.Sprintf("%04d-%02d-%02dT%02d:%02d:%02dZ", u.Year(), int(u.Month()), u.Day(), u.Hour(), u.Minute(), u.Second())
	if u.Year() < 0 || u.Year() > 9999 {
		return x.Unix()
	}
	sec, _, ok := readRFC3339(s)
	if !ok {
		return x.Unix()
	}
	return sec
}
