package main

import (
	"bytes"
	"encoding/json"
	"errors"
	"fmt"
	"math"
	"math/big"
	"reflect"
	"regexp"
	"strconv"
	"time"

	"github.com/cgi-fr/jsonline/pkg/cast"
)

func fmtFloat(f float64, verb byte, bits int) string { return strconv.FormatFloat(f, verb, -1, bits) }
func parseFloat(s string, bits int) (float64, error) { return strconv.ParseFloat(s, bits) }

var canonicalDecimal = regexp.MustCompile(`^-?(0|[1-9][0-9]*)$`)
var jsonNumberRe = regexp.MustCompile(`^-?(0|[1-9][0-9]*)(\.[0-9]+)?([eE][+-]?[0-9]+)?$`)
var plainDecimalRe = regexp.MustCompile(`^-?(0|[1-9][0-9]*)(\.[0-9]+)?$`)

// mathematical value of a source, when it has one: (value, nonfinite, ok)
func srcValue(v interface{}) (q *big.Float, nonfinite bool, ok bool) {
	bf := func(x float64) (*big.Float, bool, bool) {
		if math.IsNaN(x) || math.IsInf(x, 0) {
			return nil, true, true
		}
		return new(big.Float).SetPrec(2000).SetFloat64(x), false, true
	}
	bi := func(x *big.Int) (*big.Float, bool, bool) {
		return new(big.Float).SetPrec(2000).SetInt(x), false, true
	}
	switch x := v.(type) {
	case int:
		return bi(big.NewInt(int64(x)))
	case int64:
		return bi(big.NewInt(x))
	case int32:
		return bi(big.NewInt(int64(x)))
	case int16:
		return bi(big.NewInt(int64(x)))
	case int8:
		return bi(big.NewInt(int64(x)))
	case uint:
		return bi(new(big.Int).SetUint64(uint64(x)))
	case uint64:
		return bi(new(big.Int).SetUint64(x))
	case uint32:
		return bi(new(big.Int).SetUint64(uint64(x)))
	case uint16:
		return bi(new(big.Int).SetUint64(uint64(x)))
	case uint8:
		return bi(new(big.Int).SetUint64(uint64(x)))
	case bool:
		if x {
			return bi(big.NewInt(1))
		}
		return bi(big.NewInt(0))
	case float64:
		return bf(x)
	case float32:
		return bf(float64(x))
	case string:
		if canonicalDecimal.MatchString(x) && x != "-0" {
			z, _ := new(big.Int).SetString(x, 10)
			return bi(z)
		}
	case json.Number:
		if canonicalDecimal.MatchString(string(x)) && x != "-0" {
			z, _ := new(big.Int).SetString(string(x), 10)
			return bi(z)
		}
	}
	return nil, false, false
}

func intRange(t castTarget) (*big.Int, *big.Int) {
	if t.signed {
		hi := new(big.Int).Lsh(big.NewInt(1), t.bits-1)
		lo := new(big.Int).Neg(hi)
		return lo, hi.Sub(hi, big.NewInt(1))
	}
	hi := new(big.Int).Lsh(big.NewInt(1), t.bits)
	return big.NewInt(0), hi.Sub(hi, big.NewInt(1))
}

func resultInt(v interface{}) (*big.Int, bool) {
	rv := reflect.ValueOf(v)
	switch rv.Kind() {
	case reflect.Int, reflect.Int64, reflect.Int32, reflect.Int16, reflect.Int8:
		return big.NewInt(rv.Int()), true
	case reflect.Uint, reflect.Uint64, reflect.Uint32, reflect.Uint16, reflect.Uint8:
		return new(big.Int).SetUint64(rv.Uint()), true
	}
	return nil, false
}

func addViolation(rep *streamReport, prop, what string, input interface{}) {
	if len(rep.Violations) < 400 {
		rep.Violations = append(rep.Violations, violation{Property: prop, What: what, Input: input})
	}
}

func castInput(t castTarget, v interface{}) map[string]interface{} {
	return map[string]interface{}{"stream": "cast", "target": t.name, "source_type": typeName(v), "source": describe(v), "source_gallina": gVal(v)}
}

// bitsEqual: identical Go type and identical bits
func bitsEqual(a, b interface{}) bool {
	if reflect.TypeOf(a) != reflect.TypeOf(b) {
		return false
	}
	switch x := a.(type) {
	case float64:
		return math.Float64bits(x) == math.Float64bits(b.(float64))
	case float32:
		return math.Float32bits(x) == math.Float32bits(b.(float32))
	}
	return reflect.DeepEqual(a, b)
}

func sizeOfFixed(v interface{}) (int, bool) {
	switch v.(type) {
	case int, int64, uint, uint64, float64:
		return 8, true
	case int32, uint32, float32:
		return 4, true
	case int16, uint16:
		return 2, true
	case int8, uint8:
		return 1, true
	}
	return 0, false
}

func refLE(v interface{}) []byte {
	var u uint64
	n, _ := sizeOfFixed(v)
	switch x := v.(type) {
	case int:
		u = uint64(x)
	case int64:
		u = uint64(x)
	case int32:
		u = uint64(uint32(x))
	case int16:
		u = uint64(uint16(x))
	case int8:
		u = uint64(uint8(x))
	case uint:
		u = uint64(x)
	case uint64:
		u = x
	case uint32:
		u = uint64(x)
	case uint16:
		u = uint64(x)
	case uint8:
		u = uint64(x)
	case float64:
		u = math.Float64bits(x)
	case float32:
		u = uint64(math.Float32bits(x))
	}
	b := make([]byte, n)
	for i := 0; i < n; i++ {
		b[i] = byte(u >> (8 * uint(i)))
	}
	return b
}

func safeTo(sample, v interface{}) (r interface{}, err error, panicked bool) {
	defer func() {
		if rec := recover(); rec != nil {
			panicked = true
		}
	}()
	r, err = cast.To(sample, v)
	return
}

// castOracles judges the real code's outcome against the property statements themselves.
func castOracles(rep *streamReport, props map[string]bool, t castTarget, v interface{}, o castOutcome) {
	in := func() interface{} { return castInput(t, v) }
	// ---- C10: total, typed, sentinel ----
	if props["C10"] {
		rep.OracleChecks["C10"]++
		switch {
		case o.panicked:
			addViolation(rep, "C10", "cast panicked: "+o.panicMsg, in())
		case o.err != nil:
			if o.res != nil {
				addViolation(rep, "C10", "non-nil result together with an error", in())
			}
			if !errors.Is(o.err, cast.ErrUnableToCast) {
				addViolation(rep, "C10", "error does not wrap cast.ErrUnableToCast: "+o.err.Error(), in())
			}
		default:
			if (o.res == nil) != (v == nil) {
				addViolation(rep, "C10", fmt.Sprintf("nil-ness: input nil=%v result nil=%v", v == nil, o.res == nil), in())
			}
			if t.want == "!" {
				addViolation(rep, "C10", "unknown target type accepted", in())
			} else if o.res != nil && t.want != "" && typeName(o.res) != t.want {
				addViolation(rep, "C10", fmt.Sprintf("result type %s, requested %s", typeName(o.res), t.want), in())
			}
		}
	}
	// ---- C09: integer targets ----
	if props["C09"] && t.bits != 0 && t.fn == 0 && !o.panicked {
		if q, nonfinite, ok := srcValue(v); ok {
			rep.OracleChecks["C09"]++
			lo, hi := intRange(t)
			if nonfinite {
				if o.err == nil {
					addViolation(rep, "C09", fmt.Sprintf("NaN/Inf accepted, result %v", o.res), in())
				}
			} else {
				tr, _ := q.Int(nil) // truncation toward zero
				if o.err == nil {
					got, isInt := resultInt(o.res)
					if !isInt || got.Cmp(tr) != 0 {
						addViolation(rep, "C09", fmt.Sprintf("result %v differs from the source value %s (wrapped, saturated or invented)", o.res, tr.String()), in())
					}
				} else if q.IsInt() && tr.Cmp(lo) >= 0 && tr.Cmp(hi) <= 0 {
					addViolation(rep, "C09", fmt.Sprintf("integral value %s fits %s but was rejected: %v", tr.String(), t.name, o.err), in())
				}
			}
		}
	}
	// ---- C09: a text in fraction / exponent notation (a value, but not a plain decimal): if it is accepted at all,
	// the result is exactly the number the text denotes
	if props["C09"] && t.bits != 0 && t.fn == 0 && !o.panicked && o.err == nil {
		var txt string
		switch x := v.(type) {
		case string:
			txt = x
		case json.Number:
			txt = string(x)
		}
		if txt != "" && jsonNumberRe.MatchString(txt) && !canonicalDecimal.MatchString(txt) {
			if exact, ok := new(big.Rat).SetString(txt); ok {
				rep.OracleChecks["C09"]++
				got, isInt := resultInt(o.res)
				if !isInt || !exact.IsInt() || exact.Num().Cmp(got) != 0 {
					addViolation(rep, "C09", fmt.Sprintf("the text %q denotes %s but the cast returns %v (a value invented by rounding)", txt, exact.RatString(), o.res), in())
				}
			}
		}
	}
	// ---- C09: a time accepted by an integer cast is its Unix seconds, exactly (as ToNumber / ToTimestamp read it)
	if tm, isTime := v.(time.Time); isTime && props["C09"] && t.bits != 0 && t.fn == 0 && !o.panicked && o.err == nil {
		rep.OracleChecks["C09"]++
		if got, isInt := resultInt(o.res); !isInt || got.Cmp(big.NewInt(tm.Unix())) != 0 {
			addViolation(rep, "C09", fmt.Sprintf("the time %s (Unix seconds %d) was cast to %v (wrapped or invented)", tm.Format(time.RFC3339), tm.Unix(), o.res), in())
		}
	}
	// ---- C11: binary form ----
	if props["C11"] && !o.panicked {
		if n, ok := sizeOfFixed(v); ok && t.name == "[]byte" {
			rep.OracleChecks["C11"]++
			b, isB := o.res.([]byte)
			if o.err != nil || !isB || !bytes.Equal(b, refLE(v)) || len(b) != n {
				addViolation(rep, "C11", fmt.Sprintf("binary form %v is not the %d-byte little-endian image %v", o.res, n, refLE(v)), in())
			} else {
				back, err, p := safeTo(v, b)
				if p || err != nil || !bitsEqual(back, v) {
					addViolation(rep, "C11", fmt.Sprintf("decoding the binary form gives %v (%v), not the original", back, err), in())
				}
			}
		}
		if bv, ok := v.([]byte); ok && t.fn == 0 {
			if n, fixed := sizeOfFixed(t.sample); fixed {
				rep.OracleChecks["C11"]++
				if len(bv) != n {
					if o.err == nil {
						addViolation(rep, "C11", fmt.Sprintf("%d-byte sequence accepted for %s (size %d)", len(bv), t.name, n), in())
					} else if !errors.Is(o.err, cast.ErrUnableToCast) {
						addViolation(rep, "C11", "length rejection does not wrap the sentinel", in())
					} else if o.res != nil {
						// a value next to the error is what NewValue / Row.Set keep when a cast fails: the payload would be accepted after all
						addViolation(rep, "C11", fmt.Sprintf("the %d-byte sequence is rejected for %s (size %d) but a value %v (%T) comes with the error: a column keeps it", len(bv), t.name, n, o.res, o.res), in())
					}
				} else {
					if o.err != nil {
						addViolation(rep, "C11", fmt.Sprintf("well-sized byte sequence rejected: %v", o.err), in())
					} else {
						re, err, p := safeTo([]byte{}, o.res)
						rb, _ := re.([]byte)
						if p || err != nil || !bytes.Equal(rb, bv) {
							addViolation(rep, "C11", fmt.Sprintf("re-encoding %v gives %v, not the accepted bytes", o.res, re), in())
						}
					}
				}
			}
			if _, isBool := t.sample.(bool); isBool {
				rep.OracleChecks["C11"]++
				if len(bv) != 1 && o.err == nil {
					addViolation(rep, "C11", "bool accepts a byte sequence whose length is not 1", in())
				}
				if len(bv) == 1 && (o.err != nil || o.res != (bv[0] != 0)) {
					addViolation(rep, "C11", "bool from one byte is not (b != 0)", in())
				}
			}
		}
		if bl, ok := v.(bool); ok && t.name == "[]byte" {
			rep.OracleChecks["C11"]++
			want := []byte{0}
			if bl {
				want = []byte{1}
			}
			if b, isB := o.res.([]byte); o.err != nil || !isB || !bytes.Equal(b, want) {
				addViolation(rep, "C11", "binary form of a bool is not 00/01", in())
			}
		}
	}
	// ---- C12: text / number rendering reads back ----
	if props["C12"] && !o.panicked && (t.name == "string" || t.name == "json.Number") {
		_, fixed := sizeOfFixed(v)
		_, isBool := v.(bool)
		if fixed || isBool {
			rep.OracleChecks["C12"]++
			var text string
			okText := o.err == nil
			if okText {
				switch x := o.res.(type) {
				case string:
					text = x
				case json.Number:
					text = string(x)
				default:
					okText = false
				}
			}
			finite := true
			switch x := v.(type) {
			case float64:
				finite = !math.IsNaN(x) && !math.IsInf(x, 0)
			case float32:
				finite = !math.IsNaN(float64(x)) && !math.IsInf(float64(x), 0)
			}
			switch {
			case !okText:
				addViolation(rep, "C12", fmt.Sprintf("rendering failed: %v", o.err), in())
			case isBool:
				want := map[string]map[bool]string{"string": {true: "true", false: "false"}, "json.Number": {true: "1", false: "0"}}[t.name][v.(bool)]
				back, err, p := safeTo(true, o.res)
				if text != want || p || err != nil || back != v {
					addViolation(rep, "C12", fmt.Sprintf("bool renders as %q and reads back as %v (%v)", text, back, err), in())
				}
			case finite:
				if !plainDecimalRe.MatchString(text) {
					addViolation(rep, "C12", fmt.Sprintf("rendered %q is not a plain decimal JSON number", text), in())
				}
				back, err, p := safeTo(v, o.res)
				if p || err != nil || !bitsEqual(back, v) {
					addViolation(rep, "C12", fmt.Sprintf("rendered %q reads back as %v (%v), not the original", text, back, err), in())
				}
				if t.name == "json.Number" {
					if _, err := json.Marshal(o.res); err != nil {
						addViolation(rep, "C12", fmt.Sprintf("number %q does not marshal: %v", text, err), in())
					}
				}
			default: // non-finite
				if t.name == "json.Number" {
					if _, err := json.Marshal(o.res); err == nil {
						addViolation(rep, "C12", fmt.Sprintf("non-finite float produced a number %q that marshals", text), in())
					}
				}
			}
		}
	}
	// ---- the oracle hypotheses H-float-rt / H-float-syn / H-float-nonfinite, tested on the real strconv ----
	if props["C12"] && t.name == "string" {
		var x64 float64
		bits := 0
		switch x := v.(type) {
		case float64:
			x64, bits = x, 64
		case float32:
			x64, bits = float64(x), 32
		}
		if bits != 0 {
			rep.OracleChecks["H-float"]++
			// H_parse_bool_digits (C13/C05)
			if z, e0 := strconv.ParseFloat("0", 64); e0 != nil || math.Float64bits(z) != 0 {
				addViolation(rep, "C12", "oracle hypothesis H_parse_bool_digits: ParseFloat(\"0\") is not +0.0", in())
			}
			if one, e1 := strconv.ParseFloat("1", 64); e1 != nil || math.Float64bits(one) != 0x3FF0000000000000 {
				addViolation(rep, "C12", "oracle hypothesis H_parse_bool_digits: ParseFloat(\"1\") is not 1.0", in())
			}
			txt := strconv.FormatFloat(x64, 'f', -1, bits)
			if math.IsNaN(x64) || math.IsInf(x64, 0) {
				if txt != "NaN" && txt != "+Inf" && txt != "-Inf" {
					addViolation(rep, "C12", "oracle hypothesis H-float-nonfinite does not hold for the installed strconv: "+txt, in())
				}
			} else {
				back, err := strconv.ParseFloat(txt, bits)
				if err != nil || math.Float64bits(back) != math.Float64bits(x64) {
					addViolation(rep, "C12", "oracle hypothesis H-float-rt does not hold for the installed strconv: "+txt, in())
				}
				if !plainDecimalRe.MatchString(txt) {
					addViolation(rep, "C12", "oracle hypothesis H-float-syn does not hold for the installed strconv: "+txt, in())
				}
				if bits == 32 && math.Float32bits(float32(x64)) != math.Float32bits(v.(float32)) {
					addViolation(rep, "C12", "float32 -> float64 -> float32 is not the identity", in())
				}
				// H_jfloat_rt (C13/C05): json.Marshal's text of a finite float is a JSON number read back as the value
				rep.OracleChecks["H-jfloat-rt"]++
				if jb, jerr := json.Marshal(v); jerr != nil || !jsonNumberRe.Match(jb) {
					addViolation(rep, "C12", fmt.Sprintf("oracle hypothesis H_jfloat_rt: json.Marshal gives %q (%v), not a JSON number", jb, jerr), in())
				} else if back, err := strconv.ParseFloat(string(jb), bits); err != nil || math.Float64bits(back) != math.Float64bits(x64) {
					addViolation(rep, "C12", fmt.Sprintf("oracle hypothesis H_jfloat_rt: %q is not read back as the value", jb), in())
				}
			}
		}
	}
	// ---- C14: timestamps are whole seconds (floor), time values render with their own offset (c14_oracles.go) ----
	if props["C14"] {
		c14More(rep, t, v, o)
	}
	// ---- C14 (cast level): explicit offsets, integer seconds ----
	if props["C14"] && !o.panicked && t.name == "time.Time" {
		switch x := v.(type) {
		case string:
			c14Text(rep, t, v, x, o)
		case int64:
			rep.OracleChecks["C14"]++
			tm, ok := o.res.(time.Time)
			if o.err != nil || !ok || tm.Unix() != x {
				addViolation(rep, "C14", fmt.Sprintf("integer %d not read as Unix seconds: %v %v", x, o.res, o.err), in())
			}
		}
	}
}

var rfc3339Re = regexp.MustCompile(`^(\d{4})-(\d{2})-(\d{2})T(\d{2}):(\d{2}):(\d{2})(\.\d+)?(Z|[+-]\d{2}:\d{2})$`)

// independent reading of an RFC 3339 string: (unix seconds floor, offset seconds, ok)
func readRFC3339(s string) (int64, int, bool) {
	m := rfc3339Re.FindStringSubmatch(s)
	if m == nil {
		return 0, 0, false
	}
	at := func(i int) int { n, _ := strconv.Atoi(m[i]); return n }
	y, mo, d, hh, mi, ss := at(1), at(2), at(3), at(4), at(5), at(6)
	if mo < 1 || mo > 12 || d < 1 || hh > 23 || mi > 59 || ss > 59 {
		return 0, 0, false
	}
	dim := []int{31, 28, 31, 30, 31, 30, 31, 31, 30, 31, 30, 31}[mo-1]
	if mo == 2 && (y%4 == 0 && y%100 != 0 || y%400 == 0) {
		dim = 29
	}
	if d > dim {
		return 0, 0, false
	}
	off := 0
	if m[8] != "Z" {
		h, _ := strconv.Atoi(m[8][1:3])
		mm, _ := strconv.Atoi(m[8][4:6])
		if h > 23 || mm > 59 {
			return 0, 0, false
		}
		off = (h*60 + mm) * 60
		if m[8][0] == '-' {
			off = -off
		}
	}
	// days from civil (Hinnant)
	yy := int64(y)
	if mo <= 2 {
		yy--
	}
	era := yy / 400
	if yy < 0 {
		era = (yy - 399) / 400
	}
	yoe := yy - era*400
	mp := int64(mo) - 3
	if mo <= 2 {
		mp = int64(mo) + 9
	}
	doy := (153*mp+2)/5 + int64(d) - 1
	doe := yoe*365 + yoe/4 - yoe/100 + doy
	days := era*146097 + doe - 719468
	return days*86400 + int64(hh)*3600 + int64(mi)*60 + int64(ss) - int64(off), off, true
}

func c14Text(rep *streamReport, t castTarget, v interface{}, s string, o castOutcome) {
	sec, off, ok := readRFC3339(s)
	if !ok {
		return
	}
	if y, _ := strconv.Atoi(s[:4]); y < 1 {
		return
	}
	rep.OracleChecks["C14"]++
	in := castInput(t, v)
	tm, isT := o.res.(time.Time)
	if o.err != nil || !isT {
		addViolation(rep, "C14", fmt.Sprintf("valid RFC 3339 string rejected: %v", o.err), in)
		return
	}
	_, gotOff := tm.Zone()
	if tm.Unix() != sec || gotOff != off {
		addViolation(rep, "C14", fmt.Sprintf("read as instant %d offset %d, expected %d / %d", tm.Unix(), gotOff, sec, off), in)
		return
	}
	back, err := cast.ToString(tm)
	bs, _ := back.(string)
	sec2, off2, ok2 := readRFC3339(bs)
	if err != nil || !ok2 || sec2 != sec || off2 != off {
		addViolation(rep, "C14", fmt.Sprintf("written back as %q (%v): instant %d offset %d, expected %d / %d", bs, err, sec2, off2, sec, off), in)
	}
}
