package main

import (
	"strings"
)

// Generators of the stream `json`: valid documents from the grammar (every spelling of strings,
// numbers and whitespace), and malformed lines (mutations, truncations, trailing content, a
// handwritten list). All randomness comes from the rng handed in.

type jgen struct {
	r       *rng
	lf      bool // LF allowed in insignificant whitespace
	wsLevel int  // 0 none, 1 sparse, 2 heavy
	dupWant bool // introduce a duplicate member name somewhere
	budget  int  // nodes still allowed
	wide    bool // many members per container
}

var jgSpecialCPs = []int{
	0x7F, 0x80, 0x85, 0x9F, 0xA0, 0xFF, 0x2028, 0x2029, '<', '>', '&', '\'', 0x1F600, 0x1F4A9, 0x10FFFF, 0x10000,
	0x378, 0xE0080, 0xFFFD, 0xFEFF, 0xFFFE, 0xFFFF, 0x1FFFE, 0x10FFFE, 0xFDD0, 0xD7FF, 0xE000, 0x7FF, 0x800,
	'"', '\\', '/', 0x00, 0x01, 0x1F, 0x0B, 0x1B, '\n', '\r', '\t', '\b', '\f', 0xE9, 0x20AC, 0x4E2D, 0x0301,
}

const (
	jgPlain   = "abcdefghijklmnopqrstuvwxyzABCDEFXYZ0123456789 _-"
	jgPunct   = "\"\\/<>&'{}[],:;=+*#%!?.~`|^@$()"
	jgLetters = "ualrse/'xU\n"
)

func (g *jgen) codePoint() int {
	r := g.r
	switch x := r.intn(100); {
	case x < 42:
		return int(jgPlain[r.intn(len(jgPlain))])
	case x < 52:
		return int(jgPunct[r.intn(len(jgPunct))])
	case x < 60:
		return r.intn(0x20)
	case x < 74:
		return jgSpecialCPs[r.intn(len(jgSpecialCPs))]
	case x < 82:
		return 0x80 + r.intn(0x800-0x80)
	case x < 92:
		c := 0x800 + r.intn(0x10000-0x800)
		if c >= 0xD800 && c <= 0xDFFF {
			c = 0x2028 + r.intn(2)
		}
		return c
	default:
		return 0x10000 + r.intn(0x110000-0x10000)
	}
}

func (g *jgen) hex4(v int) string {
	var b [4]byte
	mode := g.r.intn(3) // lower, upper, mixed
	for i := 0; i < 4; i++ {
		d := (v >> uint(12-4*i)) & 0xF
		up := mode == 1 || (mode == 2 && g.r.bool())
		switch {
		case d < 10:
			b[i] = byte('0' + d)
		case up:
			b[i] = byte('A' + d - 10)
		default:
			b[i] = byte('a' + d - 10)
		}
	}
	return string(b[:])
}

func jgShort(c int) string {
	switch c {
	case '"':
		return `\"`
	case '\\':
		return `\\`
	case '/':
		return `\/`
	case 8:
		return `\b`
	case 12:
		return `\f`
	case 10:
		return `\n`
	case 13:
		return `\r`
	case 9:
		return `\t`
	}
	return ""
}

// spell writes one code point in one of its valid spellings
func (g *jgen) spell(sb *strings.Builder, c int) {
	r := g.r
	uesc := func() {
		if c >= 0x10000 {
			v := c - 0x10000
			sb.WriteString(`\u` + g.hex4(0xD800+v>>10) + `\u` + g.hex4(0xDC00+v&0x3FF))
		} else {
			sb.WriteString(`\u` + g.hex4(c))
		}
	}
	raw := func() { sb.Write(refAppendRune(nil, c)) }
	sh := jgShort(c)
	switch {
	case c < 0x20:
		if sh != "" && r.intn(3) != 0 {
			sb.WriteString(sh)
		} else {
			uesc()
		}
	case c == '"' || c == '\\':
		if r.intn(4) != 0 {
			sb.WriteString(sh)
		} else {
			uesc()
		}
	case c == '/':
		switch r.intn(4) {
		case 0:
			sb.WriteString(sh)
		case 1:
			uesc()
		default:
			raw()
		}
	default:
		if r.intn(4) == 0 {
			uesc()
		} else {
			raw()
		}
	}
}

func (g *jgen) codePoints(maxLen int) []int {
	r := g.r
	n := 0
	switch x := r.intn(10); {
	case x == 0:
		n = 0
	case x < 7:
		n = 1 + r.intn(4)
	default:
		n = 1 + r.intn(maxLen)
	}
	cps := make([]int, n)
	for i := range cps {
		cps[i] = g.codePoint()
	}
	return cps
}

func (g *jgen) literalOf(cps []int) string {
	var sb strings.Builder
	sb.WriteByte('"')
	for _, c := range cps {
		g.spell(&sb, c)
	}
	sb.WriteByte('"')
	return sb.String()
}

func cpsKey(cps []int) string {
	var b []byte
	for _, c := range cps {
		b = refAppendRune(b, c)
	}
	return string(b)
}

var jgNumbers = []string{
	"0", "-0", "1E+2", "1e-2", "0.10", "123456789012345678901234567890", "-123456789012345678901234567890",
	"1e-400", "1e400", "-1.5e+10", "0e0", "0.0", "-0.0", "1", "-1", "9223372036854775807", "9223372036854775808",
	"-9223372036854775808", "18446744073709551615", "1.7976931348623157e308", "5e-324", "0E-0", "0e+00",
	"1.0", "1.00000000000000000000000000001", "0.1e1", "12E0", "3.14", "42", "-0e-0", "100", "2.5E-3",
}

func (g *jgen) number() string {
	r := g.r
	if r.intn(10) < 4 {
		return jgNumbers[r.intn(len(jgNumbers))]
	}
	var sb strings.Builder
	if r.intn(4) == 0 {
		sb.WriteByte('-')
	}
	dig := func(n int) {
		for i := 0; i < n; i++ {
			sb.WriteByte(byte('0' + r.intn(10)))
		}
	}
	if r.intn(5) == 0 {
		sb.WriteByte('0')
	} else {
		sb.WriteByte(byte('1' + r.intn(9)))
		dig(r.intn(1 + r.intn(18)))
	}
	if r.intn(3) == 0 {
		sb.WriteByte('.')
		dig(1 + r.intn(6))
	}
	if r.intn(4) == 0 {
		sb.WriteByte("eE"[r.intn(2)])
		switch r.intn(3) {
		case 0:
			sb.WriteByte('+')
		case 1:
			sb.WriteByte('-')
		}
		dig(1 + r.intn(3))
	}
	return sb.String()
}

// ws: insignificant whitespace for one slot
func (g *jgen) ws() string {
	r := g.r
	switch g.wsLevel {
	case 0:
		return ""
	case 1:
		if r.intn(100) >= 15 {
			return ""
		}
	default:
		if r.intn(100) >= 60 {
			return ""
		}
	}
	n := 1 + r.intn(3)
	var b []byte
	for i := 0; i < n; i++ {
		if g.lf && r.intn(3) == 0 {
			b = append(b, '\n')
		} else {
			b = append(b, " \t\r  "[r.intn(5)])
		}
	}
	return string(b)
}

func (g *jgen) scalar() string {
	r := g.r
	switch x := r.intn(100); {
	case x < 40:
		return g.literalOf(g.codePoints(12))
	case x < 75:
		return g.number()
	case x < 83:
		return "true"
	case x < 91:
		return "false"
	default:
		return "null"
	}
}

func (g *jgen) nChildren(spine bool) int {
	r := g.r
	if g.wide {
		return 12 + r.intn(30)
	}
	if spine {
		return 1 + r.intn(2)
	}
	switch x := r.intn(10); {
	case x == 0:
		return 0
	case x < 6:
		return 1 + r.intn(2)
	default:
		return 1 + r.intn(5)
	}
}

// value: depthLeft = how many more container levels may be opened below this point; spine = this
// value must be a container (it carries the chain that reaches the requested depth)
func (g *jgen) value(sb *strings.Builder, depthLeft int, spine bool) {
	r := g.r
	g.budget--
	container := spine && depthLeft > 0
	if !container && depthLeft > 0 && g.budget > 0 && r.intn(100) < 28 {
		container = true
		if depthLeft > 3 {
			depthLeft = 1 + r.intn(3)
		}
	}
	if !container {
		sb.WriteString(g.scalar())
		return
	}
	if r.bool() {
		g.object(sb, depthLeft, spine)
	} else {
		g.array(sb, depthLeft, spine)
	}
}

func (g *jgen) array(sb *strings.Builder, depthLeft int, spine bool) {
	r := g.r
	sb.WriteByte('[')
	n := g.nChildren(spine)
	if spine && depthLeft <= 1 && r.intn(4) == 0 {
		n = 0
	}
	sp := -1
	if spine && depthLeft > 1 {
		sp = r.intn(n)
	}
	wide := g.wide
	g.wide = false
	for i := 0; i < n; i++ {
		if i > 0 {
			sb.WriteByte(',')
		}
		sb.WriteString(g.ws())
		g.value(sb, depthLeft-1, i == sp)
		sb.WriteString(g.ws())
	}
	g.wide = wide
	if n == 0 {
		sb.WriteString(g.ws())
	}
	sb.WriteByte(']')
}

func (g *jgen) object(sb *strings.Builder, depthLeft int, spine bool) {
	r := g.r
	sb.WriteByte('{')
	n := g.nChildren(spine)
	if spine && depthLeft <= 1 && r.intn(4) == 0 {
		n = 0
	}
	sp := -1
	if spine && depthLeft > 1 {
		sp = r.intn(n)
	}
	dupAt := -1
	if g.dupWant && n >= 1 && r.intn(2) == 0 {
		g.dupWant = false
		n++
		dupAt = 1 + r.intn(n-1)
	}
	wide := g.wide
	g.wide = false
	seen := map[string]bool{}
	var keys [][]int
	for i := 0; i < n; i++ {
		if i > 0 {
			sb.WriteByte(',')
		}
		sb.WriteString(g.ws())
		var cps []int
		if i == dupAt {
			cps = keys[r.intn(len(keys))] // the same name, spelled afresh
		} else {
			for try := 0; ; try++ {
				cps = g.codePoints(8)
				if try > 20 {
					cps = append(cps, 'k', '0'+i%10, '0'+(i/10)%10)
				}
				if !seen[cpsKey(cps)] {
					break
				}
			}
			seen[cpsKey(cps)] = true
		}
		keys = append(keys, cps)
		sb.WriteString(g.literalOf(cps))
		sb.WriteString(g.ws())
		sb.WriteByte(':')
		sb.WriteString(g.ws())
		g.value(sb, depthLeft-1, i == sp)
		sb.WriteString(g.ws())
	}
	g.wide = wide
	if n == 0 {
		sb.WriteString(g.ws())
	}
	sb.WriteByte('}')
}

func jgDepth(r *rng) int {
	switch x := r.intn(1000); {
	case x < 200:
		return 1
	case x < 450:
		return 2
	case x < 650:
		return 3
	case x < 850:
		return 4 + r.intn(4)
	case x < 930:
		return 8 + r.intn(8)
	case x < 970:
		return 16 + r.intn(16)
	case x < 990:
		return 32 + r.intn(32)
	default:
		return 64
	}
}

type jdocOpts struct {
	depth   int
	lf      bool
	dup     bool
	wsLevel int
	wide    bool
	longStr bool
}

// validDoc: a top-level object (text) following opts
func jgValidDoc(r *rng, o jdocOpts) []byte {
	g := &jgen{r: r, lf: o.lf, wsLevel: o.wsLevel, dupWant: o.dup, wide: o.wide}
	g.budget = 24
	if o.depth >= 8 {
		g.budget = 8
	}
	var sb strings.Builder
	sb.WriteString(g.ws())
	if o.longStr {
		// one long string value / key among a few members
		sb.WriteString(`{"long":`)
		n := 200 + r.intn(500)
		cps := make([]int, n)
		for i := range cps {
			cps[i] = g.codePoint()
		}
		sb.WriteString(g.literalOf(cps))
		sb.WriteString(`,`)
		cps = cps[:20+r.intn(40)]
		sb.WriteString(g.literalOf(cps))
		sb.WriteString(`:`)
		g.value(&sb, 2, false)
		sb.WriteString(`}`)
	} else {
		g.object(&sb, o.depth, true)
	}
	sb.WriteString(g.ws())
	return []byte(sb.String())
}

func jgRandomOpts(r *rng) jdocOpts {
	o := jdocOpts{depth: jgDepth(r)}
	switch x := r.intn(100); {
	case x < 45:
		o.wsLevel = 0
	case x < 80:
		o.wsLevel = 1
	default:
		o.wsLevel = 2
	}
	if r.intn(100) < 3 {
		o.lf = true
		if o.wsLevel == 0 {
			o.wsLevel = 2
		}
	}
	o.dup = r.intn(100) < 9
	if o.depth <= 3 {
		switch x := r.intn(100); {
		case x < 2:
			o.wide = true
		case x < 4:
			o.longStr = true
		}
	}
	return o
}

// small documents rich in features, used as the material of mutations and truncations
func jgSmallDoc(r *rng) []byte {
	o := jdocOpts{depth: 1 + r.intn(3), wsLevel: r.intn(3) % 2}
	if r.intn(6) == 0 {
		o.wsLevel = 2
	}
	return jgValidDoc(r, o)
}

// ---- malformed ----

var jgStructural = []byte("{}[],:\"\\ -+.eE0123456789tfn")

var jgBadSeqs = []string{
	"\x80", "\xC0", "\xC1", "\xF5", "\xFF", "\xED\xA0\x80", "\xED\xBF\xBF", "\xE0\x80\x80", "\xC0\x80", "\xF0\x80\x80\x80",
	"\xF4\x90\x80\x80", "\xE2\x82", "\xF0\x9F\x98", "\xC3", "\xE2", "\xF0\x9F", "\xBF", "\xFE", "\xC2\x20", "\xEF\xBB\xBF",
}

func jgMutBytes(r *rng) []byte {
	switch x := r.intn(100); {
	case x < 60:
		return []byte{jgStructural[r.intn(len(jgStructural))]}
	case x < 72:
		return []byte{byte(r.intn(0x20))}
	case x < 76:
		return []byte{0x7F}
	case x < 82:
		return []byte{jgLetters[r.intn(len(jgLetters))]}
	default:
		return []byte(jgBadSeqs[r.intn(len(jgBadSeqs))])
	}
}

// jgMutate applies k byte mutations (insert / delete / replace)
func jgMutate(r *rng, doc []byte, k int) []byte {
	b := append([]byte(nil), doc...)
	for i := 0; i < k; i++ {
		switch op := r.intn(3); {
		case op == 0 || len(b) == 0: // insert
			p := r.intn(len(b) + 1)
			m := jgMutBytes(r)
			nb := append([]byte(nil), b[:p]...)
			nb = append(nb, m...)
			b = append(nb, b[p:]...)
		case op == 1: // delete
			p := r.intn(len(b))
			b = append(b[:p:p], b[p+1:]...)
		default: // replace
			p := r.intn(len(b))
			m := jgMutBytes(r)
			nb := append([]byte(nil), b[:p]...)
			nb = append(nb, m...)
			b = append(nb, b[p+1:]...)
		}
	}
	return b
}

var jgTrailers = []string{
	" {}", "{}", "x", "1", ",", "]", "}", "\"", " null", "\x00", ":", " \t[]", "\xEF\xBB\xBF", " true", "-", "/", "//c", "/**/",
	" ,", " }", "\t]", " \"a\"", " 0", "\r{}", " \r\t x", "\x1F", "\x7F", "\xC2\xA0", "\xE2\x80\xA8", "\x0B", "\x0C", "e", "[",
	"{", " {", ",{}", "\x80", "\xFF",
}

// a document with every kind of token position, for exhaustive truncation
var jgRichDocs = []string{
	`{"a\n\u00e9\ud83d\ude00":[1,-2.5e+3,true,false,null,{"b":{}}], "c" : "é😀\\" }`,
	` {"k":[[],{},[{"x":0.1E-2}]],"":"\u2028\/"}` + "\t",
	`{"n":-0,"m":[10,2e5,"s\"t"],"t":true,"f":false,"z":null}`,
}

var jgHandwritten = []string{
	"", " ", "\t", "\r", " \t\r ", "\n", " \n ",
	"[]", "[{}]", "1", `"s"`, "true", "null", "false", " [] ", "[1,2]", `{}`, ` {} `, "\t{}\r", `{"a":1}`, "{}\n", "\n{}",
	`{} {}`, `{}x`, `{}1`, `{},`, `{}]`, `{}}`, `{}{}`, `{}"`, `{} null`, `{}[`, `{}:`,
	`{"a":tru}`, `nul`, `-`, `1.`, `01`, `1e`, `1e+`, `.5`, `+1`,
	`{"a":nul}`, `{"a":-}`, `{"a":1.}`, `{"a":01}`, `{"a":1e}`, `{"a":1e+}`, `{"a":.5}`, `{"a":+1}`, `{"a":fals}`, `{"a":truee}`,
	`{"a":nulll}`, `{"a":True}`, `{"a":NULL}`, `{"a":NaN}`, `{"a":Infinity}`, `{"a":-Infinity}`, `{"a":0x10}`, `{"a":1_000}`,
	`{"a":-01}`, `{"a":00}`, `{"a":0.}`, `{"a":1.e2}`, `{"a":1e2.5}`, `{"a":--1}`, `{"a":1-}`, `{"a":1+1}`, `{"a":1e1e1}`, `{"a":- 1}`,
	`{"a":1 2}`, `{"a":1.5.5}`, `{"a":-0}`, `{"a":-0.0e-0}`, `{"a":2E+308}`, `{"a":0e}`, `{"a":0E+}`, `{"a":1E400}`,
	`"\ud800"`, `"\udc00"`, `"\ud800A"`, `"\ud800\ud800"`, `"\ud800\n"`, `"\ud800\u0041"`,
	`{"a":"\ud800"}`, `{"a":"\udc00"}`, `{"a":"\ud800A"}`, `{"a":"\ud800\ud800"}`, `{"a":"\ud800\n"}`, `{"a":"\ud800\u0041"}`,
	`{"a":"\ud800\udc00"}`, `{"a":"\uD83D\uDE00"}`, `{"a":"\udc00\ud800"}`, `{"a":"\udbff\udfff"}`, `{"a":"\ud800\udbff"}`,
	`{"\ud800":1}`, `{"\udfff":1,"\udc00":2}`, `{"a":"\ud800\"}`, `{"a":"\ud800\u"}`, `{"a":"\ud800\udc0"}`, `{"a":"\ud800\\udc00"}`,
	`{"a":"\ud800\ud800\udc00"}`, `{"a":"x\udc00y\ud800z"}`,
	`{"a":"\x"}`, `{"a":"\'"}`, `{"a":"\u12"}`, `{"a":"\u12G4"}`, `{"a":"\U0041"}`, `{"a":"\a"}`, `{"a":"\0"}`, `{"a":"\v"}`, `{"a":"\e"}`,
	`{"a":"\u"}`, `{"a":"\u 041"}`, `{"a":"\u+041"}`, `{"a":"\u-041"}`, `{"a":"\`, `{"a":"\"`, `{"a":"\\"}`, `{"a":"\\\"}`, `{"a":"\/"}`,
	`{"a":"\u0000"}`, `{"a":"\u001f\u007f\u0080"}`, `{"a":"\uFFFF\ufffe\uFEFF\ufffd"}`, `{"a":"\u2028\u2029"}`, `{"a":"<>&"}`, `{"a":"\u003c\u003E\u0026"}`,
	`{"a" 1}`, `{,}`, `{"a":1,}`, `[1 2]`, `[1,]`, `[,1]`, `{"a"::1}`, `{"a":1 "b":2}`, `{1:2}`, `{"a"}`, `{"a":}`,
	`{"a":[1 2]}`, `{"a":[1,]}`, `{"a":[,1]}`, `{"a":[,]}`, `{"a":[1,,2]}`, `{"a":1,,"b":2}`, `{,"a":1}`, `{"a":1;"b":2}`, `{"a"=1}`,
	`{"a":1,"b"}`, `{"a":1,"b":}`, `{"a":1,:2}`, `{:1}`, `{"a":{"b"}}`, `{"a":{,}}`, `{"a":[:]}`, `{"a":["b":1]}`, `{"a":{1}}`,
	`{true:1}`, `{null:1}`, `{[]:1}`, `{{}:1}`, `{"a":1,2}`, `{"a":1,true:2}`, `{'a':1}`, `{a:1}`, `{"a":'b'}`, `{"a":b}`,
	`{"a":[}`, `{"a":[1}]`, `{]`, `{"a":{]}`, `{"a":[{]}}`, `{"a":(1)}`, `[}`, `{"a":[]]}`, `{"a":{}}}`, `{{}}`, `{[]}`, `{"a":[[]}`,
	`{"a":1]`, `{"a":[1}`, `}`, `]`, `}{`, `][`, `{"a":}}`, `{"a":]}`,
	`{`, `{"`, `{"a`, `{"a"`, `{"a":`, `{"a":1`, `{"a":1,`, `{"a":[`, `{"a":[1`, `{"a":[1,`, `{"a":{`, `{"a":"`, `{"a":"b`, `{"a":t`, `{"a":-`, `{"a":1.`, `{"a":1e`,
	"\xEF\xBB\xBF{}", "\xEF\xBB\xBF{\"a\":1}", "{\xEF\xBB\xBF}", "{}\xEF\xBB\xBF", "\xFE\xFF{}", "\xEF\xBB{}",
	"{\"a\":\"\x00\"}", "{\"a\":\"\x1f\"}", "{\"a\":\"\t\"}", "{\"a\":\"\r\"}", "{\"a\":\"\n\"}", "{\"a\":\"\x7f\"}", "{\"a\x01\":1}",
	"{\"a\":\"\x80\"}", "{\"a\":\"\xC0\x80\"}", "{\"a\":\"\xC1\xBF\"}", "{\"a\":\"\xF5\x80\x80\x80\"}", "{\"a\":\"\xFF\"}",
	"{\"a\":\"\xED\xA0\x80\"}", "{\"a\":\"\xED\xBF\xBF\"}", "{\"a\":\"\xE0\x80\x80\"}", "{\"a\":\"\xE2\x82\"}", "{\"a\":\"\xF0\x9F\x98\"}",
	"{\"a\":\"\xF4\x8F\xBF\xBF\"}", "{\"a\":\"\xF4\x90\x80\x80\"}", "{\"a\":\"\xED\x9F\xBF\xEE\x80\x80\"}", "{\"\xFF\":1,\"\xFE\":2}", "{\"\xFF\":1,\"\\ufffd\":2}",
	"{\"a\":\"\xC2\"}", "{\"a\":\"\xE2\x80\xA8\xE2\x80\xA9\"}", "{\"a\":\"\xC2\x80\xC2\x9F\"}", "{\"a\":\"\xF0\x90\x80\x80\"}", "{\"a\":\"\xF0\x8F\xBF\xBF\"}",
	"{\"a\":\x00}", "{\x00}", "{\"a\"\x00:1}", "{\"a\":1\x00}", "\x00{}", "{}\x00", "{\x0B}", "{\x0C}", "{\xC2\xA0}", "{\xE2\x80\xA8}", "{\"a\":1\x0B}",
	"{\"a\":\xFF}", "{\"a\":1\xFF}", "\xFF", "\x80{}", "{\"a\":tr\xFFue}",
	`{"a":1}//c`, `{"a":1}/**/`, `{/**/"a":1}`, `{"a":/**/1}`, `{"a":1,//
}`, `{"a":1}#`,
	`{"a":1,"a":2}`, `{"a":1,"\u0061":2}`, `{"a":{"b":1,"b":2}}`, `{"a":[{"b":1,"b":2}]}`, `{"a":{"x":1},"a":{"y":2}}`, `{"a":1,"a":{"y":2}}`,
	`{"a":{"x":1},"a":2}`, `{"a":[1],"a":[2,3]}`, `{"a":"s","a":null}`, `{"a":null,"a":"s"}`, `{"":1,"":2}`, `{"a":1,"b":2,"a":3}`,
	`{"":0}`, `{"":{"":{"":[]}}}`, `{"a":[[[[[[[[[[[[[[[[]]]]]]]]]]]]]]]]}`, `{"a":[[[[[[[[[[[[[[[[]]]]]]]]]]]]]]]}`,
	`{"a":1e999999999999999999999}`, `{"a":-1E-999999999999999999999}`, `{"a":0.00000000000000000000000000000000000000001}`,
	`{"a": "b" , "c" : [ 1 , 2 ] }`, "{\t\"a\"\t:\t1\t}", "{\r\"a\"\r:\r1\r}", "{\n\"a\"\n:\n1\n}", "{\"a\":[\n]}", "{\"a\":1}\r", "\r{\"a\":1}\r\r",
	`{"a":"` + "\xEF\xBF\xBD" + `"}`, `{"a":"\uFFFD"}`, `{"a":"\ud83d\ude00😀"}`, `{"a":"\u00e9é"}`,
}

func jgDeepUnclosed(n int) []byte {
	return []byte(strings.Repeat("[", n))
}
