#!/bin/bash
# Build the framework from files on disk only (offline): tools, regenerated Layer-1 model, every proof.
set -e
cd "$(dirname "$0")"
export GOFLAGS=-mod=mod GOPROXY=off GOSUMDB=off GOTOOLCHAIN=local CGO_ENABLED=0
mkdir -p bin build evidence replays coq/gen coq/cases
(cd translator && go build -o ../bin/translator .)
cp /repo/go.sum harness/go.sum
(cd harness && go build -tags verif -o ../bin/harness .)
./bin/translator -repo /repo -out coq/gen
(cd coq && coq_makefile -f _CoqProject -o Makefile >/dev/null && timeout 3000 make -j16)
echo "setup done"
