(* Layer 2 — hand model of cmd/jl: descriptor parsing (definition.go parseDescriptor and the two
   registries), template pairs from the decoded row.yml (parse) and from the inline JSON template
   (createTemplateFromRow), createTemplate, and run (stream with a processor that logs and never
   fails). YAML text -> []ColumnDefinition is yaml.v3's and is not modelled: the model starts from
   the decoded structure; flags, logging and the exit path are exercised by the harness only. *)
From Coq Require Import ZArith List Bool.
From JL.std Require Import GoBase GoFloat GoStrconv GoTime GoVal GoJson.
From JL.gen Require Import CastGen ConvGen.
From JL.model Require Import Row Template TemplateJson.
Import ListNotations.
Open Scope Z_scope.

(* ---------- the registries (definition.go:186-220) ---------- *)
Definition s_ (l : list Z) : str := l.

Definition format_registry : list (str * format) :=
  [ ([115;116;114;105;110;103], FString); ([110;117;109;101;114;105;99], FNumeric); ([98;111;111;108;101;97;110], FBoolean);
    ([98;105;110;97;114;121], FBinary); ([100;97;116;101], FDate); ([100;97;116;101;116;105;109;101], FDateTime);
    ([116;105;109;101;115;116;97;109;112], FTimestamp); ([97;117;116;111], FAuto); ([104;105;100;100;101;110], FHidden) ].

Definition type_registry : list (str * gval) :=
  [ ([105;110;116], VInt KInt 0); ([105;110;116;54;52], VInt KInt64 0); ([105;110;116;51;50], VInt KInt32 0);
    ([105;110;116;49;54], VInt KInt16 0); ([105;110;116;56], VInt KInt8 0);
    ([117;105;110;116], VInt KUint 0); ([117;105;110;116;54;52], VInt KUint64 0); ([117;105;110;116;51;50], VInt KUint32 0);
    ([117;105;110;116;49;54], VInt KUint16 0); ([117;105;110;116;56], VInt KUint8 0);
    ([102;108;111;97;116;54;52], VF64 0); ([102;108;111;97;116;51;50], VF32 0);
    ([98;111;111;108], VBool true); ([98;121;116;101], VInt KUint8 0); ([114;117;110;101], VInt KInt32 0);
    ([115;116;114;105;110;103], VStr []); ([91;93;98;121;116;101], VBytes (mkbytes []));
    ([116;105;109;101;46;84;105;109;101], VTime zero_time); ([106;115;111;110;46;78;117;109;98;101;114], VNum []) ].

(* ---------- parseDescriptor: the regexp ^([^\(]+)(?:\(([^\)]+)\))?$ ---------- *)
Fixpoint take_until (c : Z) (s : str) : str * str :=
  match s with
  | [] => ([], [])
  | x :: r => if x =? c then ([], s) else let '(a, b) := take_until c r in (x :: a, b)
  end.

(* Some (format part, type part or "") when the descriptor matches *)
Definition descriptor_parts (s : str) : option (str * str) :=
  let '(g1, rest) := take_until 40 s in
  match g1, rest with
  | [], _ => None
  | _, [] => Some (g1, [])
  | _, _ :: r =>                      (* rest starts with '(' *)
      let '(g2, rest2) := take_until 41 r in
      match g2, rest2 with
      | [], _ => None
      | _, [c] => if c =? 41 then Some (g1, g2) else None
      | _, _ => None
      end
  end.

Definition parse_descriptor (s : str) : format * gval :=
  match descriptor_parts s with
  | None => (FAuto, VNil)
  | Some (g1, g2) =>
      (match alookup g1 format_registry with Some f => f | None => FAuto end,
       match alookup g2 type_registry with Some t => t | None => VNil end)
  end.

(* ---------- column definitions (decoded row.yml) ---------- *)
Inductive coldef := Col (name input output : str) (sub : list coldef).

Section Jl.
  Context (O : oracles).
  Definition FUELJ : nat := 48.

  (* parse (definition.go:118): With on both templates, then WithRow when the column has columns *)
  Fixpoint of_yaml (n : nat) (cols : list coldef) (ti to : template) : res (template * template) :=
    match n with
    | 0%nat => Fuel
    | S n' =>
        match cols with
        | [] => Ok (ti, to)
        | Col name input output sub :: rest =>
            let '(fi, typi) := parse_descriptor input in
            let '(fo, typo) := parse_descriptor output in
            let ti1 := with_col name fi typi ti in
            let to1 := with_col name fo typo to in
            match sub with
            | [] => of_yaml n' rest ti1 to1
            | _ =>
                bind (of_yaml n' sub new_template new_template) (fun st =>
                bind (with_row O FUELJ name (fst st) ti1) (fun ti2 =>
                bind (with_row O FUELJ name (snd st) to1) (fun to2 => of_yaml n' rest ti2 to2)))
            end
        end
    end.

  (* strings.SplitN(s, ":", 2) *)
  Definition split_colon (s : str) : str * option str :=
    let '(a, rest) := take_until 58 s in
    match rest with
    | [] => (a, None)
    | _ :: b => (a, Some b)
    end.

  (* createTemplateFromRow (definition.go:150) on the members of the parsed inline template *)
  Fixpoint of_inline (n : nat) (m : list (str * cell)) (l : list str) (ti to : template) : res (template * template) :=
    match n with
    | 0%nat => Fuel
    | S n' =>
        match l with
        | [] => Ok (ti, to)
        | k :: rest =>
            match alookup k m with
            | None => Panic
            | Some c =>
                match cell_export O FUELJ c with
                | Ok (RS (VStr desc)) =>
                    let '(a, b) := split_colon desc in
                    let '(fi, typi) := parse_descriptor a in
                    let '(fo, typo) := match b with Some b' => parse_descriptor b' | None => (fi, typi) end in
                    of_inline n' m rest (with_col k fi typi ti) (with_col k fo typo to)
                | Ok (RV (CRow (MkRow m2 l2))) =>
                    bind (of_inline n' m2 l2 new_template new_template) (fun st =>
                    bind (with_row O FUELJ k (fst st) ti) (fun ti2 =>
                    bind (with_row O FUELJ k (snd st) to) (fun to2 => of_inline n' m rest ti2 to2)))
                | Ok _ => of_inline n' m rest ti to
                | Err e => Err e
                | Panic => Panic
                | Fuel => Fuel
                end
            end
        end
    end.

  (* createTemplateFromString: json.Unmarshal of the inline text into a new row, then the above *)
  Definition of_inline_text (text : str) : res (template * template) :=
    let '(ms, ok) := parse_top_rv text in
    let '(r, e) := row_unmarshal O FUELJ ms ok new_row in
    bind e (fun _ => let '(MkRow m l) := r in of_inline FUELJ m l new_template new_template).

  (* createTemplate (root.go:285): the file's columns, replaced entirely by the inline template when one is given *)
  Definition create_template (file_cols : list coldef) (inline : str) : res (template * template) :=
    bind (of_yaml FUELJ file_cols new_template new_template) (fun file =>
      (* len(tf.template) > 0 && tf.template != "{}" *)
      if str_eqb inline [] || str_eqb inline [123; 125] then Ok file else of_inline_text inline).

  (* run: what reaches stdout for a list of input lines; per-line errors are logged and skipped *)
  Context (jfloat : bool -> Z -> option str) (jother : Z -> option str).

  Fixpoint run_lines (ti to : template) (lines : list str) : str :=
    match lines with
    | [] => []
    | line :: rest =>
        match jl_pipeline O jfloat jother FUELJ ti to line with
        | Ok out => out ++ run_lines ti to rest
        | _ => run_lines ti to rest
        end
    end.

  Definition jl_run (file_cols : list coldef) (inline : str) (lines : list str) : res str :=
    bind (create_template file_cols inline) (fun t => Ok (run_lines (fst t) (snd t) lines)).
End Jl.
