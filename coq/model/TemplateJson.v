(* The text layer plugged under the template model: jsonline's reader hands the row what
   JL.std.GoJson.parse_top finds (nested objects as rows holding Auto values, arrays as
   slices, numbers as json.Number), and strings are written by GoJson.encode_string. *)
From Coq Require Import ZArith List Bool.
From JL.std Require Import GoBase GoFloat GoStrconv GoTime GoVal GoJson.
From JL.gen Require Import CastGen ConvGen.
From JL.model Require Import Row Template.
Import ListNotations.
Open Scope Z_scope.

(* the row parseobject builds in a fresh row (row.go:593): a new key gets an Auto value, a repeated
   key is imported into that Auto value, which replaces its raw value *)
Definition obj_row (ms : list (str * rv)) : crow :=
  fold_left (fun r kv => set_cell (fst kv) (CVal (snd kv) FAuto VNil) (push_if_absent (fst kv) r)) ms new_row.

(* what handledelim returns for a parsed value *)
Fixpoint rv_of_jv (v : jv) : rv :=
  match v with
  | JNull => RS VNil
  | JBool b => RS (VBool b)
  | JNum lit => RS (VNum lit)
  | JStr s => RS (VStr s)
  | JArr l => RArr (map rv_of_jv l)
  | JObj m => RV (CRow (obj_row (map (fun kv => (fst kv, rv_of_jv (snd kv))) m)))
  end.

Definition parse_top_rv (s : str) : list (str * rv) * bool :=
  let '(ms, ok) := parse_top s in (map (fun kv => (fst kv, rv_of_jv (snd kv))) ms, ok).

Section Instances.
  Context (O : oracles) (jfloat : bool -> Z -> option str) (jother : Z -> option str).

  Definition jl_get_row := get_row O parse_top_rv.
  Definition jl_create_row := create_row O parse_top_rv.
  Definition jl_marshal_row := marshal_row O encode_string jfloat jother.
  Definition jl_export_bytes := export_bytes O encode_string parse_top_rv jfloat jother.
  Definition jl_pipeline := pipeline O encode_string parse_top_rv jfloat jother.
End Instances.
