(* Running the stream model on harness cases (harness/stream_stream.go).

   A group = one byte stream with the scanner's buffer sizes and the TRANSCRIPT of the real
   templates on each distinct line of the stream taken alone (so R := str,
   get_row tok = Ok tok | Err, export_row tok = Ok bytes | Err are looked up in the transcript);
   its runs = (reader fault offset, the sizes the reader returned per Read call, write-fault
   schedule, processor, and the OBSERVED return value and event log of the real Stream()).
   [stream_mismatches] lists (group, run, model) triples on which a model disagrees with the
   observation: model 1 = Stream over the chunk-free scanner specification, model 2 = Stream over
   the operational scanner fed with the observed chunking. *)
From Coq Require Import ZArith List Bool.
From JL.std Require Import GoBase GoScanner.
From JL.model Require Import Stream.
Import ListNotations.
Open Scope Z_scope.

Inductive trent := TOut (b : str) | TRej | TXErr | TPanic.

Inductive pdesc := PDefault | PTolerant | PFailNth (n : nat) | PFailOnErr.

Definition proc_of (p : pdesc) : nat -> option eclass -> option eclass :=
  match p with
  | PDefault => DefaultProcessor
  | PTolerant => NoFailureProcessor
  | PFailNth n => fun i _ => if Nat.eqb i n then Some (EcCustom 0) else None
  | PFailOnErr => fun _ e => match e with Some _ => Some (EcCustom 0) | None => None end
  end.

Fixpoint tr_lookup (tr : list (str * trent)) (tok : str) : option trent :=
  match tr with
  | [] => None
  | (t, e) :: r => if str_eqb t tok then Some e else tr_lookup r tok
  end.

(* a token that is not in the transcript makes the model panic, i.e. shows up as a mismatch *)
Definition tr_get_row (tr : list (str * trent)) (tok : str) : res str :=
  match tr_lookup tr tok with
  | Some (TOut _) | Some TXErr => Ok tok
  | Some TRej => Err ErrNoWrap
  | _ => Panic
  end.

Definition tr_export_row (tr : list (str * trent)) (tok : str) : res str :=
  match tr_lookup tr tok with
  | Some (TOut b) => Ok b
  | Some TXErr => Err ErrNoWrap
  | _ => Panic
  end.

Fixpoint wf_of (l : list (nat * Z)) (j : nat) : option Z :=
  match l with
  | [] => None
  | (i, n) :: r => if Nat.eqb i j then Some n else wf_of r j
  end.

Record srun := mkrun {
  r_k : option Z;
  r_chunks : list Z;
  r_wf : list (nat * Z);
  r_proc : pdesc;
  r_res : sres;
  r_trace : list event
}.

Record sgroup := mkgrp {
  g_stream : str;
  g_initial : Z;
  g_max : Z;
  g_tr : list (str * trent);
  g_runs : list srun
}.

(* classes are compared without the sentinel / number they carry *)
Definition eclass_eqb (a b : eclass) : bool :=
  match a, b with
  | EcRead, EcRead | EcTooLong, EcTooLong | EcWrite, EcWrite
  | EcImport _, EcImport _ | EcExport _, EcExport _ | EcCustom _, EcCustom _ => true
  | _, _ => false
  end.

Definition oclass_eqb (a b : option eclass) : bool :=
  match a, b with
  | None, None => true
  | Some x, Some y => eclass_eqb x y
  | _, _ => false
  end.

Definition event_eqb (a b : event) : bool :=
  match a, b with
  | EvCall x, EvCall y => oclass_eqb x y
  | EvWrite p n, EvWrite q m => str_eqb p q && (n =? m)
  | _, _ => false
  end.

Fixpoint list_eqb {A} (eqb : A -> A -> bool) (a b : list A) : bool :=
  match a, b with
  | [], [] => true
  | x :: a', y :: b' => eqb x y && list_eqb eqb a' b'
  | _, _ => false
  end.

Definition sres_eqb (a b : sres) : bool :=
  match a, b with
  | ROk, ROk | RPanic, RPanic | RFuel, RFuel => true
  | RErr x, RErr y => eclass_eqb x y
  | _, _ => false
  end.

Definition obs_eqb (a b : sres * list event) : bool :=
  sres_eqb (fst a) (fst b) && list_eqb event_eqb (snd a) (snd b).

Definition run_model1 (g : sgroup) (r : srun) : sres * list event :=
  Stream str (tr_get_row (g_tr g)) (tr_export_row (g_tr g)) (wf_of (r_wf r)) (proc_of (r_proc r))
         (sc_cap (g_initial g) (g_max g)) (g_stream g) (r_k r).

Definition run_model2 (g : sgroup) (r : srun) : sres * list event :=
  StreamChunked str (tr_get_row (g_tr g)) (tr_export_row (g_tr g)) (wf_of (r_wf r)) (proc_of (r_proc r))
         (sc_cap (g_initial g) (g_max g)) (g_stream g) (r_k r) (r_chunks r).

Fixpoint run_mismatches (g : sgroup) (gi : Z) (ri : Z) (rs : list srun) : list (Z * Z * Z) :=
  match rs with
  | [] => []
  | r :: rs' =>
      let obs := (r_res r, r_trace r) in
      (if obs_eqb (run_model1 g r) obs then [] else [(gi, ri, 1)]) ++
      (if obs_eqb (run_model2 g r) obs then [] else [(gi, ri, 2)]) ++
      run_mismatches g gi (ri + 1) rs'
  end.

Fixpoint stream_mismatches (base : Z) (gs : list sgroup) : list (Z * Z * Z) :=
  match gs with
  | [] => []
  | g :: gs' => run_mismatches g base 0 (g_runs g) ++ stream_mismatches (base + 1) gs'
  end.
