(* Layer 2 — hand model of Row.MapTo (row.go, after fix F4b): reflect is reduced to what the
   function observes of its argument — whether it is a non-nil pointer to a struct, and for each
   field its name, kind, and whether it can be set. [Panic] is produced exactly where the reflect
   setters would panic (SetInt on a field that is not of an integer kind, ...), so that "MapTo
   never panics" is a statement about the guards of the Go code. *)
From Coq Require Import ZArith List Bool.
From JL.std Require Import GoBase GoFloat GoStrconv GoTime GoVal.
From JL.gen Require Import CastGen ConvGen.
From JL.model Require Import Row.
Import ListNotations.
Open Scope Z_scope.

Inductive fkind :=
| FKInt (k : ikind)        (* any of the ten integer kinds; signedness is in k *)
| FKFloat64 | FKFloat32 | FKString | FKBool | FKBytes
| FKOther.                 (* any other kind: slices of other types, structs, pointers, ... *)

Record field := mkfield { f_name : str; f_kind : fkind; f_exported : bool }.

Inductive mtarget :=
| MTStruct (fields : list field)     (* a non-nil pointer to a struct *)
| MTOtherArg.                        (* nil, a non-pointer, a nil pointer, a pointer to a non-struct *)

(* LcFirst: the first rune lowered (field names are ASCII here) *)
Definition lc_first (s : str) : str :=
  match s with
  | c :: r => (if (65 <=? c) && (c <=? 90) then c + 32 else c) :: r
  | [] => []
  end.

(* reflect.Value.SetInt / SetUint / SetFloat / SetString / SetBool / SetBytes on a field of kind fk:
   the value the field holds afterwards, or Panic when the kind does not allow the setter *)
Definition set_int (fk : fkind) (z : Z) : res gval :=
  match fk with
  | FKInt k => if isigned k then Ok (VInt k (conv_int k z)) else Panic
  | _ => Panic
  end.
Definition set_uint (fk : fkind) (z : Z) : res gval :=
  match fk with
  | FKInt k => if isigned k then Panic else Ok (VInt k (conv_int k z))
  | _ => Panic
  end.
Definition set_float (fk : fkind) (x : Z) : res gval :=
  match fk with
  | FKFloat64 => Ok (VF64 x)
  | FKFloat32 => Ok (VF32 (f32_of_f64 x))
  | _ => Panic
  end.

Section MapTo.
  Context (O : oracles).

  Definition is_int_kind (fk : fkind) : bool := match fk with FKInt k => isigned k | _ => false end.
  Definition is_uint_kind (fk : fkind) : bool := match fk with FKInt k => negb (isigned k) | _ => false end.
  Definition is_float_kind (fk : fkind) : bool := match fk with FKFloat64 | FKFloat32 => true | _ => false end.

  (* mapToField (row.go): None = the field keeps its value *)
  Definition map_to_field (fk : fkind) (value : rv) : res (option gval) :=
    match value with
    | RS (VInt k z) =>
        if isigned k then
          match ToInt64 O (VInt k z) with
          | Ok (VInt KInt64 i) => if is_int_kind fk then bind (set_int fk i) (fun g => Ok (Some g)) else Ok None
          | Ok _ => if is_int_kind fk then Panic else Ok None       (* i.(int64) on something else *)
          | Err _ => if is_int_kind fk then Panic else Ok None      (* i.(int64) on nil *)
          | Panic => Panic | Fuel => Fuel
          end
        else
          match ToUint64 O (VInt k z) with
          | Ok (VInt KUint64 i) => if is_uint_kind fk then bind (set_uint fk i) (fun g => Ok (Some g)) else Ok None
          | Ok _ => if is_uint_kind fk then Panic else Ok None
          | Err _ => if is_uint_kind fk then Panic else Ok None
          | Panic => Panic | Fuel => Fuel
          end
    | RS (VF64 x) | RS (VF32 x) =>
        match ToFloat64 O (match value with RS g => g | _ => VNil end) with
        | Ok (VF64 f) => if is_float_kind fk then bind (set_float fk f) (fun g => Ok (Some g)) else Ok None
        | Ok _ => if is_float_kind fk then Panic else Ok None
        | Err _ => if is_float_kind fk then Panic else Ok None
        | Panic => Panic | Fuel => Fuel
        end
    | RS (VStr s) => match fk with FKString => Ok (Some (VStr s)) | _ => Ok None end
    | RS (VBool b) => match fk with FKBool => Ok (Some (VBool b)) | _ => Ok None end
    | RS (VBytes b) => match fk with FKBytes => Ok (Some (VBytes b)) | _ => Ok None end
    | _ => Ok None
    end.

  Fixpoint map_to_fields (n : nat) (r : crow) (fs : list field) : res (list (option gval)) :=
    match fs with
    | [] => Ok []
    | f :: rest =>
        if negb (f_exported f) then bind (map_to_fields n r rest) (fun t => Ok (None :: t))
        else
          bind (row_get n (lc_first (f_name f)) r) (fun got =>
            match got with
            | None => bind (map_to_fields n r rest) (fun t => Ok (None :: t))
            | Some value =>
                bind (map_to_field (f_kind f) value) (fun o =>
                bind (map_to_fields n r rest) (fun t => Ok (o :: t)))
            end)
    end.

  (* MapTo(v): the new value of each field (None = untouched) *)
  Definition map_to (n : nat) (r : crow) (t : mtarget) : res (list (option gval)) :=
    match t with
    | MTOtherArg => Ok []
    | MTStruct fs => map_to_fields n r fs
    end.
End MapTo.

(* what a zero struct shows after MapTo: per exported field of a scalar kind its value, VNil otherwise *)
Definition zero_of (fk : fkind) : gval :=
  match fk with
  | FKInt k => VInt k 0 | FKFloat64 => VF64 0 | FKFloat32 => VF32 0
  | FKString => VStr [] | FKBool => VBool false | FKBytes => VBytes {| bnil := true; bdata := [] |} | FKOther => VNil
  end.
Fixpoint fields_of_struct (fs : list field) (l : list (option gval)) : list gval :=
  match fs, l with
  | f :: fs', o :: l' =>
      (if f_exported f then match o with Some g => g | None => zero_of (f_kind f) end else VNil)
      :: fields_of_struct fs' l'
  | _, _ => []
  end.
Definition fields_after (t : mtarget) (l : list (option gval)) : list gval :=
  match t with MTStruct fs => fields_of_struct fs l | MTOtherArg => [] end.

