(* Layer 2 — model of pkg/jsonline's streaming code:
     importer  (importer.go:51-118, with the `failed` flag of fix F2),
     exporter.Export (exporter.go:67-85),
     streamer.Stream (streamer.go:80-103) with an arbitrary processor.

   Definitions only (proofs: JL.proofs.StreamProofs).

   PARAMETERS (Section variables, no axioms):
     R            abstract row type
     get_row      what  t.CreateRowEmpty() + row.UnmarshalJSON(token)  gives under the input
                  template (importer.go:91-94)
     export_row   what  t.CreateRow(row)  under the output template followed by row.MarshalJSON()
                  gives (exporter.go:68-76), without the line separator
     Sc, s_scan, s_err   the scanner: one Scan() call and Err().  Instantiated below with the
                  chunk-free specification JL.std.GoScanner.scan and with the chunked machine
                  cscan (for the chunking-independence theorem).

   THE ENVIRONMENT.
     writer     a fault schedule  wf : nat -> option Z : the j-th Write call (j = 0,1,…) either
                accepts everything (None) or accepts only n bytes (clamped to [0,len]) and returns
                an error (Some n).
     processor  proc : nat -> option eclass -> option eclass : on its i-th call (i = 0,1,…), having
                received the error class e (None: err == nil), it returns nil (None) or an error of
                the given class.  DefaultProcessor = fun _ e => e; NoFailureProcessor =
                fun _ _ => None.  (A processor that MUTATES the row it receives is outside this
                model: the row handed to Export is the row GetRow returned.)

   OBSERVABLES.  One trace of events in the order they happen: every processor call with the error
   class it received, every Write call with the buffer it was given and the number of bytes the
   writer accepted; and Stream's return value.  [writes_of] and [calls_of] project the trace. *)
From Coq Require Import ZArith List Bool Lia.
From JL.std Require Import GoBase GoScanner.
Import ListNotations.
Open Scope Z_scope.

(* error classes (never the error text) *)
Inductive eclass :=
| EcRead                      (* io:read     the reader's non-EOF error, through Scanner.Err() *)
| EcTooLong                   (* io:toolong  bufio.ErrTooLong, through Scanner.Err() *)
| EcWrite                     (* io:write    the writer's error *)
| EcImport (s : sentinel)     (* line rejected by UnmarshalJSON under the input template *)
| EcExport (s : sentinel)     (* row rejected by CreateRow / MarshalJSON under the output template *)
| EcCustom (n : Z).           (* an error made up by a custom processor *)

Definition eclass_of_serr (e : serr) : eclass :=
  match e with STooLong => EcTooLong | _ => EcRead end.

Inductive event :=
| EvCall (e : option eclass)        (* processor(row, err): err == nil (None) or its class *)
| EvWrite (p : str) (n : Z).        (* w.Write(p) accepted n bytes *)

(* return value of Stream() *)
Inductive sres :=
| ROk                      (* nil *)
| RErr (e : eclass)        (* the error the processor returned *)
| RPanic                   (* get_row / export_row panicked *)
| RFuel.                   (* model fuel exhausted, or get_row / export_row ran out of fuel *)

Definition writes_of (t : list event) : list (str * Z) :=
  flat_map (fun ev => match ev with EvWrite p n => [(p, n)] | _ => [] end) t.
Definition calls_of (t : list event) : list (option eclass) :=
  flat_map (fun ev => match ev with EvCall e => [e] | _ => [] end) t.

Definition DefaultProcessor : nat -> option eclass -> option eclass := fun _ e => e.
Definition NoFailureProcessor : nat -> option eclass -> option eclass := fun _ _ => None.

Section Stream.
  Variable R : Type.
  Variable get_row : str -> res R.
  Variable export_row : R -> res str.

  Variable Sc : Type.
  Variable s_scan : Sc -> option str * Sc.
  Variable s_err : Sc -> option serr.

  Variable wf : nat -> option Z.
  Variable proc : nat -> option eclass -> option eclass.

  (* ---------------- importer ---------------- *)

  Record importer := mkimp {
    i_sc : Sc;           (* i.s *)
    i_tok : str;         (* i.s.Bytes() *)
    i_failed : bool      (* i.failed *)
  }.

  Definition NewImporter (sc : Sc) : importer := mkimp sc [] false.

  (* func (i *importer) Import() bool   (importer.go:81-95) *)
  Definition Import (i : importer) : bool * importer :=
    let '(t, sc') := s_scan (i_sc i) in
    match t with
    | Some tok => (true, mkimp sc' tok (i_failed i))
    | None =>
        match s_err sc' with
        | Some _ => if i_failed i then (false, mkimp sc' [] true)
                    else (true, mkimp sc' [] true)
        | None => (false, mkimp sc' [] (i_failed i))
        end
    end.

  Inductive grres :=
  | GrOk (r : R)
  | GrErr (e : eclass)
  | GrPanic
  | GrFuel.

  (* func (i *importer) GetRow() (Row, error)   (importer.go:97-112) *)
  Definition GetRow (i : importer) : grres * importer :=
    match s_err (i_sc i) with
    | Some e => (GrErr (eclass_of_serr e), mkimp (i_sc i) (i_tok i) true)
    | None =>
        match get_row (i_tok i) with
        | Ok r => (GrOk r, i)
        | Err s => (GrErr (EcImport s), i)
        | Panic => (GrPanic, i)
        | Fuel => (GrFuel, i)
        end
    end.

  (* func (i *importer) ReadOne() (Row, error)   (importer.go:114-120): None = (nil, nil) *)
  Definition ReadOne (i : importer) : option grres * importer :=
    let '(more, i1) := Import i in
    if more then let '(g, i2) := GetRow i1 in (Some g, i2) else (None, i1).

  (* ---------------- observer state ---------------- *)

  Record ost := mkost {
    o_calls : nat;           (* processor calls so far *)
    o_writes : nat;          (* Write calls so far *)
    o_trace : list event     (* most recent first *)
  }.

  Definition ost0 : ost := mkost O O [].

  Definition call (o : ost) (e : option eclass) : option eclass * ost :=
    (proc (o_calls o) e, mkost (S (o_calls o)) (o_writes o) (EvCall e :: o_trace o)).

  (* w.Write(p): true = no error *)
  Definition write (o : ost) (p : str) : bool * ost :=
    let len := lenZ p in
    match wf (o_writes o) with
    | None => (true, mkost (o_calls o) (S (o_writes o)) (EvWrite p len :: o_trace o))
    | Some n => (false, mkost (o_calls o) (S (o_writes o))
                              (EvWrite p (Z.max 0 (Z.min n len)) :: o_trace o))
    end.

  (* ---------------- exporter ---------------- *)

  Inductive xres := XOk | XErr (e : eclass) | XPanic | XFuel.

  (* func (e *exporter) Export(input interface{}) error   (exporter.go:67-85) *)
  Definition Export (o : ost) (r : R) : xres * ost :=
    match export_row r with
    | Ok b =>
        (* b = append(b, lineSeparator); e.w.Write(b): ONE Write call *)
        let '(ok, o1) := write o (b ++ [10]) in
        if ok then (XOk, o1) else (XErr EcWrite, o1)
    | Err s => (XErr (EcExport s), o)
    | Panic => (XPanic, o)
    | Fuel => (XFuel, o)
    end.

  (* ---------------- streamer ---------------- *)

  (* func (s *streamer) Stream() error   (streamer.go:80-103); one unit of fuel per iteration *)
  Fixpoint stream_loop (fuel : nat) (i : importer) (o : ost) : sres * ost :=
    match fuel with
    | O => (RFuel, o)
    | S fuel' =>
        let '(more, i1) := Import i in
        if negb more then (ROk, o)
        else
          let '(g, i2) := GetRow i1 in
          match g with
          | GrErr e =>
              let '(pe, o1) := call o (Some e) in
              match pe with
              | Some x => (RErr x, o1)
              | None => stream_loop fuel' i2 o1          (* continue *)
              end
          | GrPanic => (RPanic, o)
          | GrFuel => (RFuel, o)
          | GrOk r =>
              let '(pe, o1) := call o None in
              match pe with
              | Some x => (RErr x, o1)
              | None =>
                  let '(x, o2) := Export o1 r in
                  match x with
                  | XOk => stream_loop fuel' i2 o2
                  | XErr e =>
                      let '(pe2, o3) := call o2 (Some e) in
                      match pe2 with
                      | Some y => (RErr y, o3)
                      | None => stream_loop fuel' i2 o3
                      end
                  | XPanic => (RPanic, o2)
                  | XFuel => (RFuel, o2)
                  end
              end
          end
    end.

  Definition stream_fuel (fuel : nat) (sc : Sc) : sres * list event :=
    let '(r, o) := stream_loop fuel (NewImporter sc) ost0 in (r, rev (o_trace o)).

End Stream.

Arguments mkimp {Sc}.
Arguments i_sc {Sc}.
Arguments i_tok {Sc}.
Arguments i_failed {Sc}.
Arguments GrOk {R}.
Arguments GrErr {R}.
Arguments GrPanic {R}.
Arguments GrFuel {R}.

(* ---------------- the two instances ---------------- *)

Section Instances.
  Variable R : Type.
  Variable get_row : str -> res R.
  Variable export_row : R -> res str.
  Variable wf : nat -> option Z.
  Variable proc : nat -> option eclass -> option eclass.

  (* jsonline.NewStreamer(NewImporterSized(reader, initial, max).WithTemplate(ti),
                          NewExporter(writer).WithTemplate(to)).WithProcessor(proc).Stream()
     over the chunk-free scanner specification.  C = sc_cap initial max;
     s = the reader's byte stream, k = its fault offset. *)
  Definition Stream (C : Z) (s : str) (k : option Z) : sres * list event :=
    stream_fuel R get_row export_row sstate (scan C) sc_err wf proc
                (sc_measure (sc_init s k) + 2) (sc_init s k).

  (* the same over the operational scanner reading through a chunking reader *)
  Definition StreamChunked (C : Z) (s : str) (k : option Z) (chunks : list Z) : sres * list event :=
    stream_fuel R get_row export_row cstate (cscan C) c_public_err wf proc
                (length s + 4) (c_init s k chunks).
End Instances.
