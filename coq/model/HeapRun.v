(* Running the store model on harness histories over several templates and rows (C15). *)
From Coq Require Import ZArith List Bool.
From JL.std Require Import GoBase GoFloat GoStrconv GoTime GoVal GoJson.
From JL.gen Require Import CastGen ConvGen.
From JL.model Require Import CastRun Row RowRun Template TemplateJson Heap.
Import ListNotations.
Open Scope Z_scope.

(* what is observed of object rid after a step: a live row is dumped as it is; of a template only
   what it produces is visible (CreateRowEmpty) *)
Inductive hobs :=
| ObsRow (rid : nat) (seen : crow)
| ObsTemplate (rid : nat) (seen : crow).

Record hstepc := mkhs { hs_op : hop; hs_obs : list hobs }.
Record hcase := mkhc { hc_tr : otr; hc_steps : list hstepc }.

Definition obs_ok (O : oracles) (W : world) (o : hobs) : bool :=
  match o with
  | ObsRow rid seen =>
      match view W rid with
      | Some r => crow_eqb (norm_crow NF r) (norm_crow NF seen)
      | None => false
      end
  | ObsTemplate rid seen =>
      match view W rid with
      | Some t => match clone_row O FUEL t with
                  | Ok r => crow_eqb (norm_crow NF r) (norm_crow NF seen)
                  | _ => false
                  end
      | None => false
      end
  end.

Fixpoint obs_mismatch (O : oracles) (W : world) (i j : Z) (os : list hobs) : list (Z * Z) :=
  match os with
  | [] => []
  | o :: rest => (if obs_ok O W o then [] else [(i, j)]) ++ obs_mismatch O W i (j + 1) rest
  end.

Fixpoint hsteps_mismatch (O : oracles) (W : world) (i : Z) (ss : list hstepc) : list (Z * Z) :=
  match ss with
  | [] => []
  | s :: rest =>
      let W' := hstep O parse_top_rv W (hs_op s) in
      obs_mismatch O W' i 0 (hs_obs s) ++ hsteps_mismatch O W' (i + 1) rest
  end.

Definition hcase_mismatch (c : hcase) : list (Z * Z) :=
  hsteps_mismatch (oracles_of (hc_tr c)) empty_world 0 (hc_steps c).

Fixpoint heap_mismatches (i : Z) (l : list hcase) : list (Z * list (Z * Z)) :=
  match l with
  | [] => []
  | c :: r =>
      match hcase_mismatch c with
      | [] => heap_mismatches (i + 1) r
      | m => (i, m) :: heap_mismatches (i + 1) r
      end
  end.
