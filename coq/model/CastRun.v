(* Running the generated cast model on harness cases: transcripts -> oracles, equality of
   outcomes, list of mismatching case indices (evaluated with vm_compute inside coqc). *)
From Coq Require Import ZArith List Bool.
From JL.std Require Import GoBase GoFloat GoStrconv GoTime GoVal.
From JL.gen Require Import CastGen.
Import ListNotations.
Open Scope Z_scope.

Record otr := mkt {
  t_ffmt : list ((Z * Z * Z * Z) * str);
  t_fparse : list ((Z * str) * option Z);
  t_f2i : list ((ikind * fval) * Z);
  t_loc : list (Z * Z);
  t_slow : list (str * option gtime);
}.

Definition fval_eqb (a b : fval) : bool :=
  match a, b with
  | F64 x, F64 y | F32 x, F32 y => x =? y
  | _, _ => false
  end.

Fixpoint lookup {K V} (eqb : K -> K -> bool) (k : K) (l : list (K * V)) (d : V) : V :=
  match l with
  | [] => d
  | (k', v) :: r => if eqb k k' then v else lookup eqb k r d
  end.

Definition oracles_of (t : otr) : oracles := {|
  o_ffmt := fun f p b x =>
    lookup (fun a c => let '(a1, a2, a3, a4) := a in let '(c1, c2, c3, c4) := c in
                       (a1 =? c1) && (a2 =? c2) && (a3 =? c3) && (a4 =? c4)) (f, p, b, x) (t_ffmt t) [63];
  o_fparse := fun b s =>
    lookup (fun a c => (fst a =? fst c) && str_eqb (snd a) (snd c)) (b, s) (t_fparse t) None;
  o_f2i := fun k f =>
    lookup (fun a c => ikind_eqb (fst a) (fst c) && fval_eqb (snd a) (snd c)) (k, f) (t_f2i t) (-77);
  o_local_off := fun s => lookup Z.eqb s (t_loc t) (-99);
  o_time_parse_slow := fun s => lookup str_eqb s (t_slow t) None;
|}.

Definition gtime_eqb (a b : gtime) : bool :=
  (tsec a =? tsec b) && (tnsec a =? tnsec b) && (toff a =? toff b).

Definition gbytes_eqb (a b : gbytes) : bool :=
  Bool.eqb (bnil a) (bnil b) && str_eqb (bdata a) (bdata b).

Definition gval_eqb (a b : gval) : bool :=
  match a, b with
  | VNil, VNil => true
  | VBool x, VBool y => Bool.eqb x y
  | VInt k x, VInt k' y => ikind_eqb k k' && (x =? y)
  | VF64 x, VF64 y | VF32 x, VF32 y => x =? y
  | VStr x, VStr y | VNum x, VNum y | VByteArr x, VByteArr y => str_eqb x y
  | VBytes x, VBytes y => gbytes_eqb x y
  | VTime x, VTime y => gtime_eqb x y
  | VOther x, VOther y => x =? y
  | _, _ => false
  end.

Definition sentinel_eqb (a b : sentinel) : bool :=
  match a, b with
  | ErrUnableToCast, ErrUnableToCast
  | ErrUnableToCastToInt, ErrUnableToCastToInt | ErrUnableToCastToInt64, ErrUnableToCastToInt64
  | ErrUnableToCastToInt32, ErrUnableToCastToInt32 | ErrUnableToCastToInt16, ErrUnableToCastToInt16
  | ErrUnableToCastToInt8, ErrUnableToCastToInt8
  | ErrUnableToCastToUint, ErrUnableToCastToUint | ErrUnableToCastToUint64, ErrUnableToCastToUint64
  | ErrUnableToCastToUint32, ErrUnableToCastToUint32 | ErrUnableToCastToUint16, ErrUnableToCastToUint16
  | ErrUnableToCastToUint8, ErrUnableToCastToUint8
  | ErrUnableToCastToFloat64, ErrUnableToCastToFloat64 | ErrUnableToCastToFloat32, ErrUnableToCastToFloat32
  | ErrUnableToCastToBool, ErrUnableToCastToBool | ErrUnableToCastToNumber, ErrUnableToCastToNumber
  | ErrUnableToCastToString, ErrUnableToCastToString | ErrUnableToCastToBinary, ErrUnableToCastToBinary
  | ErrUnableToCastToTime, ErrUnableToCastToTime | ErrUnableToCastToDate, ErrUnableToCastToDate
  | ErrUnsupportedFormat, ErrUnsupportedFormat | ErrUnsupportedImportType, ErrUnsupportedImportType
  | ErrUnsupportedExportType, ErrUnsupportedExportType | ErrPathNotFound, ErrPathNotFound
  | ErrNoWrap, ErrNoWrap => true
  | _, _ => false
  end.

Definition res_eqb {A} (eqb : A -> A -> bool) (a b : res A) : bool :=
  match a, b with
  | Ok x, Ok y => eqb x y
  | Err x, Err y => sentinel_eqb x y
  | Panic, Panic => true
  | _, _ => false
  end.

Record cast_case := mkc {
  cc_fn : Z;            (* 0: cast.To(sample, v)   1: cast.ToDate(v)   2: cast.ToTimestamp(v) *)
  cc_sample : gval;
  cc_src : gval;
  cc_tr : otr;
  cc_seen : res gval;   (* what the real package returned *)
}.

Definition run_cast (c : cast_case) : res gval :=
  let O := oracles_of (cc_tr c) in
  if cc_fn c =? 0 then To O (cc_sample c) (cc_src c)
  else if cc_fn c =? 1 then ToDate O (cc_src c)
  else ToTimestamp O (cc_src c).

Fixpoint cast_mismatches (i : Z) (l : list cast_case) : list (Z * res gval) :=
  match l with
  | [] => []
  | c :: r =>
      let m := run_cast c in
      if res_eqb gval_eqb m (cc_seen c) then cast_mismatches (i + 1) r
      else (i, m) :: cast_mismatches (i + 1) r
  end.
