(* Layer 2 — rows and templates over an explicit store of Value objects (property C15).
   In Go a row holds POINTERS to Value objects: Import mutates the object in place, SetValue
   stores the pointer it is given, CloneRow / CreateRow / Set allocate new objects. Here a row
   maps its keys to object ids ([vid]) and a heap gives each object's content (a pure [cell] of
   JL.model.Row: sharing BELOW the top level of a row is outside this model, as it is outside
   the property). Every operation is defined from the pure functions of Row.v / Template.v
   applied to the target's [view], followed by one of two primitive effects on the store:
     [store_fresh]  a NEW object is allocated and bound to the key    (Set, SetValue of a new
                    Value, CreateRow's fills, CloneRow, a key that did not exist)
     [mutate]       the object bound to an existing key is overwritten in place (Import)
   so that which objects an operation allocates, which it writes and which it merely reads is
   explicit. *)
From Coq Require Import ZArith List Bool Lia PeanoNat.
From JL.std Require Import GoBase GoFloat GoStrconv GoTime GoVal.
From JL.gen Require Import CastGen ConvGen.
From JL.model Require Import Row Template.
Import ListNotations.
Open Scope Z_scope.

Definition vid := nat.

Record hrow := MkH { hm : list (str * vid); hl : list str }.

Record world := MkW {
  heap : list (vid * cell);     (* content of each allocated Value object *)
  next : vid;                   (* next free id *)
  rows : list hrow;             (* templates' prototypes and live rows alike, by index *)
}.

Definition empty_world : world := MkW [] 0%nat [].

Fixpoint hget (h : list (vid * cell)) (i : vid) : option cell :=
  match h with
  | [] => None
  | (j, c) :: r => if Nat.eqb i j then Some c else hget r i
  end.

Definition hset (h : list (vid * cell)) (i : vid) (c : cell) : list (vid * cell) := (i, c) :: h.

Definition get_row_h (W : world) (rid : nat) : option hrow := nth_error (rows W) rid.

Fixpoint set_nth {A} (l : list A) (n : nat) (x : A) : list A :=
  match l, n with
  | [], _ => []
  | _ :: r, O => x :: r
  | y :: r, S n' => y :: set_nth r n' x
  end.

(* the row as the pure model sees it: each key with the content of its object *)
Definition view_row (h : list (vid * cell)) (r : hrow) : crow :=
  MkRow (flat_map (fun kv => match hget h (snd kv) with Some c => [(fst kv, c)] | None => [] end) (hm r)) (hl r).

Definition view (W : world) (rid : nat) : option crow :=
  match get_row_h W rid with Some r => Some (view_row (heap W) r) | None => None end.

(* the object ids a row owns *)
Definition ids_of (r : hrow) : list vid := map snd (hm r).

(* ---------- primitive effects ---------- *)
(* bind key k of row rid to a NEW object holding c *)
Definition store_fresh (W : world) (rid : nat) (k : str) (c : cell) : world :=
  match get_row_h W rid with
  | None => W
  | Some r =>
      let i := next W in
      let r' := MkH (aset k i (hm r)) (if ahas k (hm r) then hl r else hl r ++ [k]) in
      MkW (hset (heap W) i c) (S i) (set_nth (rows W) rid r')
  end.

(* overwrite, in place, the object bound to key k of row rid *)
Definition mutate (W : world) (rid : nat) (k : str) (c : cell) : world :=
  match get_row_h W rid with
  | None => W
  | Some r =>
      match alookup k (hm r) with
      | Some i => MkW (hset (heap W) i c) (next W) (rows W)
      | None => W
      end
  end.

(* a new empty row; its index is the previous number of rows *)
Definition alloc_row (W : world) : world := MkW (heap W) (next W) (rows W ++ [MkH [] []]).

(* SetValue(k2, r.GetValue(k)) : the SAME object is bound in another row — the only way the API shares *)
Definition share (W : world) (src : nat) (k : str) (dst : nat) (k2 : str) : world :=
  match get_row_h W src, get_row_h W dst with
  | Some r, Some d =>
      match alookup k (hm r) with
      | Some i =>
          MkW (heap W) (next W)
              (set_nth (rows W) dst (MkH (aset k2 i (hm d)) (if ahas k2 (hm d) then hl d else hl d ++ [k2])))
      | None => W
      end
  | _, _ => W
  end.

Section Ops.
  Context (O : oracles).
  Context (parse_top : str -> list (str * rv) * bool).
  Definition FUELH : nat := 48.

  (* build, key by key, a new row holding fresh objects with the contents of a pure row *)
  Fixpoint fill_fresh (W : world) (rid : nat) (m : list (str * cell)) (l : list str) : world :=
    match l with
    | [] => W
    | k :: l' =>
        match alookup k m with
        | Some c => fill_fresh (store_fresh W rid k c) rid m l'
        | None => fill_fresh W rid m l'
        end
    end.

  Definition new_row_from (W : world) (r : crow) : world :=
    let W1 := alloc_row W in fill_fresh W1 (length (rows W)) (row_m r) (row_l r).

  (* write a pure result back over the target row: keys that existed are mutated in place when
     [inplace] says so and rebound to fresh objects otherwise; new keys get fresh objects *)
  Fixpoint write_back (inplace : str -> bool) (W : world) (rid : nat) (old : crow) (m : list (str * cell)) (l : list str) : world :=
    match l with
    | [] => W
    | k :: l' =>
        match alookup k m with
        | Some c =>
            let W' :=
              match alookup k (row_m old) with
              | Some c0 =>
                  if inplace k then mutate W rid k c
                  else store_fresh W rid k c
              | None => store_fresh W rid k c
              end in
            write_back inplace W' rid old m l'
        | None => write_back inplace W rid old m l'
        end
    end.

  Inductive hop :=
  | HNewTemplate                                         (* NewTemplate(): a new empty prototype row *)
  | HWith (t : nat) (name : str) (f : format) (typ : gval) (* builder call on template t *)
  | HWithRow (t : nat) (name : str) (sub : nat)          (* t.WithRow(name, sub): stores sub.CreateRowEmpty() *)
  | HCreateEmpty (t : nat)                               (* t.CreateRowEmpty() / CloneRow *)
  | HCreate (t : nat) (input : rv)                       (* t.CreateRow(map | slice | text | other) *)
  | HCreateFromRow (t : nat) (src : nat)                 (* t.CreateRow(row) — what Exporter.Export does *)
  | HUnmarshal (r : nat) (text : str)                    (* r.UnmarshalJSON(text) — importing a line *)
  | HSet (r : nat) (k : str) (v : rv)
  | HImportAtKey (r : nat) (k : str) (v : rv)
  | HImportAtPath (r : nat) (p : str) (v : rv)
  | HShare (src : nat) (k : str) (dst : nat) (k2 : str). (* dst.SetValue(k2, src.GetValue(k)): explicit sharing *)

  Definition hstep (W : world) (o : hop) : world :=
    match o with
    | HNewTemplate => alloc_row W
    | HWith t name f typ => store_fresh W t name (CVal rnil f typ)
    | HWithRow t name sub =>
        match view W sub with
        | Some sv => match clone_row O FUELH sv with Ok r => store_fresh W t name (CRow r) | _ => W end
        | None => W
        end
    | HCreateEmpty t =>
        match view W t with
        | Some tv => match clone_row O FUELH tv with Ok r => new_row_from W r | _ => W end
        | None => W
        end
    | HCreate t input =>
        match view W t with
        | Some tv => match create_row O parse_top FUELH tv input with Ok r => new_row_from W r | _ => W end
        | None => W
        end
    | HCreateFromRow t src =>
        match view W t, view W src with
        | Some tv, Some sv => match create_row O parse_top FUELH tv (RV (CRow sv)) with Ok r => new_row_from W r | _ => W end
        | _, _ => W
        end
    | HUnmarshal r text =>
        match view W r with
        | Some rv0 => let '(r', _) := unmarshal_text O parse_top FUELH text rv0 in
                      write_back (fun _ => true) W r rv0 (row_m r') (row_l r')
        | None => W
        end
    | HSet r k v =>
        match view W r with
        | Some rv0 => match row_set O k v rv0 with
                      | Ok r' => match alookup k (row_m r') with Some c => store_fresh W r k c | None => W end
                      | _ => W
                      end
        | None => W
        end
    | HImportAtKey r k v =>
        match view W r with
        | Some rv0 => let '(r', _) := import_at_key O FUELH k v rv0 in
                      match alookup k (row_m r') with
                      | Some c => if ahas k (row_m rv0) then mutate W r k c else store_fresh W r k c
                      | None => W
                      end
        | None => W
        end
    | HImportAtPath r p v =>
        match view W r with
        | Some rv0 => let '(r', _) := import_at_path O FUELH p v rv0 in
                      match split_dot p with
                      | k :: _ => match alookup k (row_m r') with
                                  | Some c => if ahas k (row_m rv0) then mutate W r k c else W
                                  | None => W
                                  end
                      | [] => W
                      end
        | None => W
        end
    | HShare src k dst k2 => share W src k dst k2
    end.

  Definition hrun (ops : list hop) (W : world) : world := fold_left hstep ops W.
End Ops.
