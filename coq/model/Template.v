(* Layer 2 — hand model of template.go, of the writers (row.MarshalJSON, value.MarshalJSON, the
   leaf encoders of json.Marshal) and of exporter.Export / importer.GetRow, over the row model.
   What the model takes from outside (Section variables, instantiated by JL.std.GoJson for
   the text layer and by oracle transcripts for floats):
     enc_string  : json.Marshal of a Go string (quotes, escapes, HTML escaping, U+FFFD)
     parse_top   : the traversal of row.UnmarshalJSON over a text: the top-level members whose
                   value was completely read, and whether the text was syntactically one object
     jfloat      : json.Marshal of a float64 / float32 (None: unsupported value, NaN or Inf)
     jother      : json.Marshal of a value of a dynamic type outside the model (None: error) *)
From Coq Require Import ZArith List Bool Lia.
From JL.std Require Import GoBase GoFloat GoStrconv GoTime GoVal GoBase64 GoJsonNum.
From JL.gen Require Import CastGen ConvGen.
From JL.model Require Import Row.
Import ListNotations.
Open Scope Z_scope.

(* ---------- Time.MarshalJSON: RFC 3339 with nanoseconds, strict ---------- *)
Fixpoint trim_zeros_rev (s : str) : str :=
  match s with
  | 48 :: r => trim_zeros_rev r
  | _ => s
  end.
Definition fmt_frac (nsec : Z) : str :=
  if nsec =? 0 then []
  else 46 :: rev (trim_zeros_rev (rev (pad_left 9 (dec_nat nsec)))).

Definition fmt_rfc3339nano (t : gtime) : str :=
  let c := civil_of t in
  fmt_date_civil c ++ [84] ++ pad2 (chh c) ++ [58] ++ pad2 (cmi c) ++ [58] ++ pad2 (css c)
  ++ fmt_frac (tnsec t) ++ fmt_zone (toff t).

Definition time_marshal (t : gtime) : option str :=
  let c := civil_of t in
  if (cy c <? 0) || (9999 <? cy c) then None
  else if 86400 <=? Z.abs (toff t) then None
  else Some ([34] ++ fmt_rfc3339nano t ++ [34]).

(* strings.Join(parts, sep) *)
Fixpoint join_with (sep : str) (parts : list str) : str :=
  match parts with
  | [] => []
  | [p] => p
  | p :: rest => p ++ sep ++ join_with sep rest
  end.

Definition s_null : str := [110; 117; 108; 108].
Definition s_true : str := [116; 114; 117; 101].
Definition s_false : str := [102; 97; 108; 115; 101].

Section WithText.
  Context (O : oracles).
  Context (enc_string : str -> str).
  Context (parse_top : str -> list (str * rv) * bool).
  Context (jfloat : bool -> Z -> option str).     (* is32, bit pattern *)
  Context (jother : Z -> option str).

  Definition opt_res (o : option str) : res str :=
    match o with Some s => Ok s | None => Err ErrNoWrap end.

  (* json.Marshal of a scalar held in an interface{} *)
  Definition marshal_gval (g : gval) : res str :=
    match g with
    | VNil => Ok s_null
    | VBool b => Ok (if b then s_true else s_false)
    | VInt _ z => Ok (dec z)
    | VF64 x => opt_res (jfloat false x)
    | VF32 x => opt_res (jfloat true x)
    | VStr s => Ok (enc_string s)
    | VBytes b => if bnil b then Ok s_null else Ok ([34] ++ base64_encode (bdata b) ++ [34])
    | VNum s => opt_res (marshal_number s)
    | VTime t => opt_res (time_marshal t)
    | VByteArr s => Ok ([91] ++ join_with [44] (map dec s) ++ [93])
    | VOther tag => opt_res (jother tag)
    end.

  Fixpoint marshal_list (rec : rv -> res str) (l : list rv) : res (list str) :=
    match l with
    | [] => Ok []
    | x :: t => bind (rec x) (fun s => bind (marshal_list rec t) (fun ss => Ok (s :: ss)))
    end.

  Fixpoint marshal_members (rec : rv -> res str) (m : list (str * rv)) : res (list str) :=
    match m with
    | [] => Ok []
    | (k, x) :: t => bind (rec x) (fun s => bind (marshal_members rec t) (fun ss => Ok ((enc_string k ++ [58] ++ s) :: ss)))
    end.

  (* the loop of row.MarshalJSON (row.go:507): visible members in key-list order *)
  Fixpoint marshal_row_members (rec : cell -> res str) (m : list (str * cell)) (l : list str) : res (list str) :=
    match l with
    | [] => Ok []
    | k :: l' =>
        match alookup k m with
        | None => Panic
        | Some c =>
            if format_eqb (cell_format c) FHidden then marshal_row_members rec m l'
            else bind (rec c) (fun s => bind (marshal_row_members rec m l') (fun ss => Ok ((enc_string k ++ [58] ++ s) :: ss)))
        end
    end.

  (* json.Marshal(v) for a raw value, value.MarshalJSON, row.MarshalJSON *)
  Fixpoint marshal_rv (n : nat) (v : rv) : res str :=
    match n with
    | 0%nat => Fuel
    | S n' =>
        match v with
        | RS g => marshal_gval g
        | RArr l => bind (marshal_list (marshal_rv n') l) (fun ss => Ok ([91] ++ join_with [44] ss ++ [93]))
        | RMap m => bind (marshal_members (marshal_rv n') (sort_by_key m)) (fun ss => Ok ([123] ++ join_with [44] ss ++ [125]))
        | RV c => marshal_cell n' c
        end
    end
  with marshal_cell (n : nat) (c : cell) : res str :=
    match n with
    | 0%nat => Fuel
    | S n' =>
        match c with
        | CVal raw f _ =>
            if rv_is_nil raw then Ok s_null
            else bind (export_scalar O f raw) (fun e => marshal_rv n' e)
        | CRow r => marshal_row n' r
        end
    end
  with marshal_row (n : nat) (r : crow) : res str :=
    match n with
    | 0%nat => Fuel
    | S n' =>
        let '(MkRow m l) := r in
        bind (marshal_row_members (marshal_cell n') m l) (fun ss => Ok ([123] ++ join_with [44] ss ++ [125]))
    end.

  (* ---------- templates: a prototype row (template.go) ---------- *)
  Definition template := crow.
  Definition new_template : template := new_row.

  (* With(name, format, rawtype) and the WithX / WithMappedX builders: NewValue(nil, f, rawtype) *)
  Definition with_col (name : str) (f : format) (typ : gval) (t : template) : template :=
    set_value name (Some (CVal rnil f typ)) t.

  (* CreateRowEmpty() *)
  Definition create_row_empty (n : nat) (t : template) : res crow := clone_row O n t.

  (* WithRow(name, rowt): stores rowt.CreateRowEmpty() *)
  Definition with_row (n : nat) (name : str) (sub : template) (t : template) : res template :=
    bind (create_row_empty n sub) (fun r => Ok (set_value name (Some (CRow r)) t)).

  (* the cell CreateRow builds for an incoming value (template.go:196-243, after fix F8) *)
  Definition fill_cell (target : option cell) (val : rv) : res cell :=
    match target with
    | Some c =>
        match cast_to O (cell_rawtype c) val with
        | Ok _ => new_value O val (cell_format c) (cell_rawtype c)
        | Err e => Err e
        | Panic => Panic | Fuel => Fuel
        end
    | None => Ok (new_value_auto val)
    end.

  Fixpoint create_from_arr (i : Z) (vals : list rv) (r : crow) : res crow :=
    match vals with
    | [] => Ok r
    | x :: rest =>
        bind (fill_cell (get_value_at_index i r) x) (fun c =>
          create_from_arr (i + 1) rest (set_value_at_index i (Some c) r))
    end.

  Fixpoint create_from_map (kvs : list (str * rv)) (r : crow) : res crow :=
    match kvs with
    | [] => Ok r
    | (k, x) :: rest =>
        bind (fill_cell (get_value k r) x) (fun c => create_from_map rest (set_value k (Some c) r))
    end.

  Fixpoint create_from_row (n : nat) (m2 : list (str * cell)) (l2 : list str) (r : crow) : res crow :=
    match l2 with
    | [] => Ok r
    | k :: rest =>
        match alookup k m2 with
        | None => Panic
        | Some c2 =>
            bind (cell_raw n c2) (fun raw =>
            bind (fill_cell (get_value k r) raw) (fun c =>
              create_from_row n m2 rest (set_value k (Some c) r)))
        end
    end.

  Definition unmarshal_text (n : nat) (text : str) (r : crow) : crow * res unit :=
    let '(ms, ok) := parse_top text in row_unmarshal O n ms ok r.

  (* CreateRow(v) *)
  Definition create_row (n : nat) (t : template) (v : rv) : res crow :=
    bind (clone_row O n t) (fun result =>
      match v with
      | RArr vals => create_from_arr 0 vals result
      | RMap kvs => create_from_map kvs result
      | RV (CRow (MkRow m2 l2)) => create_from_row n m2 l2 result
      | RS (VStr s) => let '(r', e) := unmarshal_text n s result in bind e (fun _ => Ok r')
      | RS (VBytes b) => let '(r', e) := unmarshal_text n (bdata b) result in bind e (fun _ => Ok r')
      | _ => Err ErrUnsupportedImportType
      end).

  (* importer.GetRow on one token (importer.go:97): CreateRowEmpty then UnmarshalJSON *)
  Definition get_row (n : nat) (ti : template) (line : str) : res crow :=
    bind (create_row_empty n ti) (fun r =>
      let '(r', e) := unmarshal_text n line r in bind e (fun _ => Ok r')).

  (* exporter.Export(input) up to the Write call: the bytes handed to the writer in one call *)
  Definition export_bytes (n : nat) (to : template) (input : rv) : res str :=
    bind (create_row n to input) (fun row =>
    bind (marshal_row n row) (fun b => Ok (b ++ [10]))).

  (* one line through importer -> exporter, as Stream does *)
  Definition pipeline (n : nat) (ti to : template) (line : str) : res str :=
    bind (get_row n ti line) (fun row => export_bytes n to (RV (CRow row))).
End WithText.
