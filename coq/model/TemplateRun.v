(* Running the template / writer model on harness cases (evaluated with vm_compute inside coqc). *)
From Coq Require Import ZArith List Bool.
From JL.std Require Import GoBase GoFloat GoStrconv GoTime GoVal.
From JL.gen Require Import CastGen ConvGen.
From JL.std Require Import GoJson.
From JL.model Require Import CastRun Row RowRun Template TemplateJson.
Import ListNotations.
Open Scope Z_scope.

(* column descriptors as the harness (and cmd/jl) build templates from *)
Inductive tdesc :=
| TCol (name : str) (f : format) (typ : gval)
| TSub (name : str) (cols : list tdesc).

Section Build.
  Context (O : oracles).

  (* With(name, f, typ) for a column; With(name, auto, nil) then WithRow(name, sub) for a sub-row *)
  Fixpoint build_template (n : nat) (cols : list tdesc) (t : template) : res template :=
    match n with
    | 0%nat => Fuel
    | S n' =>
        match cols with
        | [] => Ok t
        | TCol name f typ :: rest => build_template n' rest (with_col name f typ t)
        | TSub name sub :: rest =>
            bind (build_template n' sub new_template) (fun st =>
            bind (with_row O FUEL name st t) (fun t' => build_template n' rest t'))
        end
    end.
End Build.

(* transcripts standing for the text layer and the float encoder *)
Record ttr := mktt {
  tt_otr : otr;
  tt_enc : list (str * str);                              (* json.Marshal(string) *)
  tt_parse : list (str * (list (str * rv) * bool));       (* UnmarshalJSON traversal of a text *)
  tt_jfloat : list ((bool * Z) * option str);             (* json.Marshal(float) *)
}.

(* the text layer is the model's own (JL.std.GoJson); the transcripts of json.Marshal(string) and of the
   reader's traversal shipped with a case are compared with it (codes 7 and 8) *)
Definition enc_of (t : ttr) (s : str) : str := encode_string s.
Definition parse_of (t : ttr) (s : str) : list (str * rv) * bool := parse_top_rv s.

Definition members_eqb (a b : list (str * rv)) : bool :=
  list_eqb (fun p q => str_eqb (fst p) (fst q) && rv_eqb (norm_rv NF (snd p)) (norm_rv NF (snd q))) a b.

Definition text_layer_mismatch (t : ttr) : list Z :=
  (if forallb (fun se => str_eqb (encode_string (fst se)) (snd se)) (tt_enc t) then [] else [7])
  ++ (if forallb (fun te => let '(ms, ok) := parse_top_rv (fst te) in
                            members_eqb ms (fst (snd te)) && Bool.eqb ok (snd (snd te))) (tt_parse t) then [] else [8]).
Definition jfloat_of (t : ttr) (is32 : bool) (x : Z) : option str :=
  lookup (fun a b => Bool.eqb (fst a) (fst b) && (snd a =? snd b)) (is32, x) (tt_jfloat t) None.

Inductive tprobe :=
| PLine (line : str) (seen_row : res crow) (seen_out : res str)        (* importer.GetRow, then exporter.Export of the row *)
| PCreate (input : rv) (seen_row : res crow) (seen_out : res str)      (* output template: CreateRow(input), Export(input) *)
| PEmpty (seen_in seen_out : res crow).                                (* CreateRowEmpty of both templates *)

Record tcase := mktc {
  tc_tr : ttr;
  tc_in : list tdesc;
  tc_out : list tdesc;
  tc_probes : list tprobe;
}.

Definition res_crow_eqb (a b : res crow) : bool :=
  res_eqb (fun x y => crow_eqb (norm_crow NF x) (norm_crow NF y)) a b.
Definition res_str_eqb (a b : res str) : bool := res_eqb str_eqb a b.

Definition run_probe (T : ttr) (ti to : template) (p : tprobe) : list Z :=
  let O := oracles_of (tt_otr T) in
  let gr := get_row O (parse_of T) FUEL in
  let eb := export_bytes O (enc_of T) (parse_of T) (jfloat_of T) (fun _ => None) FUEL in
  match p with
  | PLine line seen_row seen_out =>
      let r := gr ti line in
      (if res_crow_eqb r seen_row then [] else [1])
      ++ (if res_str_eqb (bind r (fun row => eb to (RV (CRow row)))) seen_out then [] else [2])
  | PCreate input seen_row seen_out =>
      (if res_crow_eqb (create_row O (parse_of T) FUEL to input) seen_row then [] else [3])
      ++ (if res_str_eqb (eb to input) seen_out then [] else [4])
  | PEmpty a b =>
      (if res_crow_eqb (create_row_empty O FUEL ti) a then [] else [5])
      ++ (if res_crow_eqb (create_row_empty O FUEL to) b then [] else [6])
  end.

Fixpoint probes_mismatch (T : ttr) (ti to : template) (i : Z) (ps : list tprobe) : list (Z * list Z) :=
  match ps with
  | [] => []
  | p :: rest =>
      match run_probe T ti to p with
      | [] => probes_mismatch T ti to (i + 1) rest
      | m => (i, m) :: probes_mismatch T ti to (i + 1) rest
      end
  end.

Definition tcase_mismatch (c : tcase) : list (Z * list Z) :=
  let O := oracles_of (tt_otr (tc_tr c)) in
  match build_template O FUEL (tc_in c) new_template, build_template O FUEL (tc_out c) new_template with
  | Ok ti, Ok to =>
      match text_layer_mismatch (tc_tr c) with
      | [] => probes_mismatch (tc_tr c) ti to 0 (tc_probes c)
      | m => (-2, m) :: probes_mismatch (tc_tr c) ti to 0 (tc_probes c)
      end
  | _, _ => [(-1, [0])]
  end.

Fixpoint template_mismatches (i : Z) (l : list tcase) : list (Z * list (Z * list Z)) :=
  match l with
  | [] => []
  | c :: r =>
      match tcase_mismatch c with
      | [] => template_mismatches (i + 1) r
      | m => (i, m) :: template_mismatches (i + 1) r
      end
  end.
