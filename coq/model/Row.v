(* Layer 2 — hand model of pkg/jsonline's values and rows (value.go, row.go), function for
   function, for the code as it is in /repo now (after the fix: commits recorded in
   known-findings.json). A row is the Go triple reduced to what is ever read: the map from keys
   to cells and the container/list of keys (the key->element index is written but never read).
   Everything is purely functional: a method that mutates through a pointer returns the new
   value. Recursion through nested rows / nested imported values is by explicit fuel, with
   [Fuel] as a distinct outcome. Sharing of one Value between two rows is outside this model
   (see Heap.v, property C15). *)
From Coq Require Import ZArith List Bool Lia.
From JL.std Require Import GoBase GoFloat GoStrconv GoTime GoVal GoBase64.
From JL.gen Require Import CastGen ConvGen.
Import ListNotations.
Open Scope Z_scope.

Inductive format :=
| FString | FNumeric | FBoolean | FBinary | FDate | FDateTime | FTimestamp | FAuto | FHidden
| FBad.   (* any other value of the Format type *)

Definition format_eqb (a b : format) : bool :=
  match a, b with
  | FString, FString | FNumeric, FNumeric | FBoolean, FBoolean | FBinary, FBinary | FDate, FDate
  | FDateTime, FDateTime | FTimestamp, FTimestamp | FAuto, FAuto | FHidden, FHidden | FBad, FBad => true
  | _, _ => false
  end.

(* raw values: a Go interface{} as jsonline sees it *)
Inductive rv :=
| RS (g : gval)                  (* nil, scalars, and every dynamic type cast cannot tell apart *)
| RArr (l : list rv)             (* []interface{} *)
| RMap (m : list (str * rv))     (* map[string]interface{}; the list order is the iteration order *)
| RV (c : cell)                  (* a jsonline Value (a *value or a Row) held in an interface{} *)
with cell :=                     (* a jsonline.Value *)
| CVal (raw : rv) (f : format) (typ : gval)   (* *value *)
| CRow (r : crow)                             (* a Row used as a Value *)
with crow := MkRow (m : list (str * cell)) (l : list str).

Definition rnil : rv := RS VNil.
Definition row_m (r : crow) := let '(MkRow m _) := r in m.
Definition row_l (r : crow) := let '(MkRow _ l) := r in l.
Definition new_row : crow := MkRow [] [].

Definition rv_is_nil (v : rv) : bool := match v with RS VNil => true | _ => false end.

(* how pkg/cast sees a raw value: composites and jsonline values fall in its default branches *)
Definition to_gval (v : rv) : gval :=
  match v with
  | RS g => g
  | RArr _ => VOther 23
  | RMap _ => VOther 21
  | RV _ => VOther 22
  end.

(* ---------- association lists standing for Go maps ---------- *)
Fixpoint alookup {A} (k : str) (m : list (str * A)) : option A :=
  match m with
  | [] => None
  | (k', v) :: r => if str_eqb k k' then Some v else alookup k r
  end.

Fixpoint aset {A} (k : str) (v : A) (m : list (str * A)) : list (str * A) :=
  match m with
  | [] => [(k, v)]
  | (k', v') :: r => if str_eqb k k' then (k, v) :: r else (k', v') :: aset k v r
  end.

Definition ahas {A} (k : str) (m : list (str * A)) : bool :=
  match alookup k m with Some _ => true | None => false end.

(* bytewise order on strings and sorting of association lists by key (Go sorts map keys) *)
Fixpoint str_ltb (a b : str) : bool :=
  match a, b with
  | [], [] => false
  | [], _ :: _ => true
  | _ :: _, [] => false
  | x :: a', y :: b' => if x <? y then true else if y <? x then false else str_ltb a' b'
  end.

Fixpoint insert_sorted {A} (k : str) (v : A) (l : list (str * A)) : list (str * A) :=
  match l with
  | [] => [(k, v)]
  | (k', v') :: r => if str_ltb k k' then (k, v) :: l else (k', v') :: insert_sorted k v r
  end.
Definition sort_by_key {A} (l : list (str * A)) : list (str * A) :=
  fold_right (fun kv acc => insert_sorted (fst kv) (snd kv) acc) [] l.

(* the loop "for cur := l.Front(); ...; index--": the key at position index, "" when there is none *)
Definition key_at (l : list str) (index : Z) : str :=
  if index <? 0 then [] else nth (Z.to_nat index) l [].

(* strings.Split(s, ".") *)
Fixpoint split_dot_aux (s cur : str) : list str :=
  match s with
  | [] => [rev cur]
  | c :: r => if c =? 46 then rev cur :: split_dot_aux r [] else split_dot_aux r (c :: cur)
  end.
Definition split_dot (s : str) : list str := split_dot_aux s [].

Definition lift (r : res gval) : res rv :=
  match r with Ok g => Ok (RS g) | Err e => Err e | Panic => Panic | Fuel => Fuel end.

Definition no_err {A} (r : res A) : res unit :=
  match r with Ok _ => Ok tt | Err e => Err e | Panic => Panic | Fuel => Fuel end.

(* same dynamic type (what a comma-ok type assertion tests) *)
Definition same_kind (a b : gval) : bool :=
  match a, b with
  | VBool _, VBool _ | VF64 _, VF64 _ | VF32 _, VF32 _ | VStr _, VStr _ | VBytes _, VBytes _
  | VNum _, VNum _ | VTime _, VTime _ => true
  | VInt k _, VInt k' _ => ikind_eqb k k'
  | _, _ => false
  end.

(* zero values of the typed getters *)
Definition zero_time : gtime := {| tsec := -62135596800; tnsec := 0; toff := 0 |}.

Section WithOracles.
  Context (O : oracles).

  (* cast.To(typ, v): with a nil sample it hands the value back untouched, composites included *)
  Definition cast_to (typ : gval) (v : rv) : res rv :=
    match To O typ (to_gval v) with
    | Ok g => match v with
              | RS _ => Ok (RS g)
              | _ => match g with VOther _ => Ok v | _ => Ok (RS g) end
              end
    | Err e => Err e | Panic => Panic | Fuel => Fuel
    end.

  (* NewValue(v, f, rawtype): keeps the uncast value when the cast fails (value.go:83) *)
  Definition new_value (v : rv) (f : format) (typ : gval) : res cell :=
    match cast_to typ v with
    | Ok r => Ok (CVal r f typ)
    | Err _ => Ok (CVal v f typ)
    | Panic => Panic | Fuel => Fuel
    end.

  Definition new_value_auto (v : rv) : cell := CVal v FAuto VNil.

  Definition cell_format (c : cell) : format := match c with CVal _ f _ => f | CRow _ => FAuto end.
  Definition cell_rawtype (c : cell) : gval := match c with CVal _ _ t => t | CRow _ => VNil end.

  (* ---------- Raw() (value.go:189, row.go:129) ---------- *)
  Fixpoint cells_raw (rec : cell -> res rv) (m : list (str * cell)) (l : list str) : res (list (str * rv)) :=
    match l with
    | [] => Ok []
    | k :: l' =>
        match alookup k m with
        | None => Panic                       (* r.m[k] is a nil Value: method call on a nil interface *)
        | Some c => bind (rec c) (fun v => bind (cells_raw rec m l') (fun t => Ok (aset k v t)))
        end
    end.

  Fixpoint cell_raw (n : nat) (c : cell) : res rv :=
    match n with
    | 0%nat => Fuel
    | S n' =>
        match c with
        | CVal raw _ _ => Ok raw
        | CRow (MkRow m l) => bind (cells_raw (cell_raw n') m l) (fun t => Ok (RMap t))
        end
    end.

  Definition row_raw (n : nat) (r : crow) : res rv := cell_raw n (CRow r).

  (* ---------- Export() (value.go:193, row.go:141) ---------- *)
  Definition export_scalar (f : format) (raw : rv) : res rv :=
    match f with
    | FString => lift (exportToString O (to_gval raw))
    | FNumeric => lift (exportToNumber O (to_gval raw))
    | FBoolean => lift (exportToBool O (to_gval raw))
    | FBinary => lift (exportToBinary O (to_gval raw))
    | FDate => lift (exportToDate O (to_gval raw))
    | FDateTime => lift (exportToDateTime O (to_gval raw))
    | FTimestamp => lift (exportToTimestamp O (to_gval raw))
    | FAuto | FHidden => Ok raw
    | FBad => Err ErrUnsupportedFormat
    end.

  Fixpoint cell_export (n : nat) (c : cell) : res rv :=
    match n with
    | 0%nat => Fuel
    | S n' =>
        match c with
        | CVal raw f _ => if rv_is_nil raw then Ok rnil else export_scalar f raw
        | CRow (MkRow m l) => bind (cells_raw (cell_export n') m l) (fun t => Ok (RMap t))
        end
    end.

  (* ---------- Import(val) on a *value (value.go:221) ---------- *)
  Definition import_scalar (f : format) (typ : gval) (v : rv) : res rv :=
    match f with
    | FString => lift (importFromString O (to_gval v) typ)
    | FNumeric => lift (importFromNumeric O (to_gval v) typ)
    | FBoolean => lift (importFromBoolean O (to_gval v) typ)
    | FBinary => lift (importFromBinary O (to_gval v) typ)
    | FDate => lift (importFromDate O (to_gval v) typ)
    | FDateTime => lift (importFromDateTime O (to_gval v) typ)
    | FTimestamp => lift (importFromTimestamp O (to_gval v) typ)
    | FAuto | FHidden => cast_to typ v
    | FBad => Err ErrUnsupportedFormat
    end.

  (* the *value after the call, and the error if any. A failed conversion leaves a nil raw
     value (v.raw, err = f(...) assigns the nil result); a format outside the nine known ones leaves the
     value as it was. *)
  (* (a row is a Value too, but is converted like any other data: fix F11) *)
  Definition value_import (n : nat) (raw : rv) (f : format) (typ : gval) (v : rv) : cell * res unit :=
    if rv_is_nil v then (CVal rnil f typ, Ok tt)
    else match v with
         | RV (CVal raw' f' typ') =>      (* a plain Value: format, raw and raw type are taken from it *)
             (CVal raw' f' typ', Ok tt)
         | _ =>
             match import_scalar f typ v with
             | Ok r => (CVal r f typ, Ok tt)
             | Err e => (CVal (match f with FBad => raw | _ => rnil end) f typ, Err e)   (* (an unknown format assigns nothing: the default arm of the switch) *)
             | Panic => (CVal raw f typ, Panic)
             | Fuel => (CVal raw f typ, Fuel)
             end
         end.

  (* ---------- row mutators ---------- *)
  Definition push_if_absent (k : str) (r : crow) : crow :=
    let '(MkRow m l) := r in if ahas k m then r else MkRow m (l ++ [k]).

  Definition set_cell (k : str) (c : cell) (r : crow) : crow :=
    let '(MkRow m l) := r in MkRow (aset k c m) l.

  (* SetValue(key, val) (row.go); a nil Value is stored as an Auto value holding nil *)
  Definition set_value (k : str) (c : option cell) (r : crow) : crow :=
    set_cell k (match c with Some c => c | None => new_value_auto rnil end) (push_if_absent k r).

  Definition set_value_at_index (i : Z) (c : option cell) (r : crow) : crow :=
    set_value (key_at (row_l r) i) c r.

  (* the Value a raw argument is, when it is one (val.(Value)) *)
  Definition as_value (v : rv) : option cell := match v with RV c => Some c | _ => None end.

  (* Set(key, val) (row.go:283) *)
  Definition row_set (k : str) (v : rv) (r : crow) : res crow :=
    let r1 := push_if_absent k r in
    match alookup k (row_m r) with
    | Some c =>
        let typ := cell_rawtype c in
        let f := cell_format c in
        match cast_to typ v with
        | Ok _ => bind (new_value v f typ) (fun c' => Ok (set_cell k c' r1))
        | Err _ => bind (new_value rnil f typ) (fun c' => Ok (set_cell k c' r1))
        | Panic => Panic | Fuel => Fuel
        end
    | None =>
        match as_value v with
        | Some c => Ok (set_cell k c r1)
        | None => Ok (set_cell k (new_value_auto v) r1)
        end
    end.

  Definition row_set_at_index (i : Z) (v : rv) (r : crow) : res crow := row_set (key_at (row_l r) i) v r.

  (* the two loops of row.Import (row.go:157), over the ImportAtKey they call *)
  Fixpoint import_arr (iak : str -> rv -> crow -> crow * res unit) (i : Z) (vals : list rv) (r : crow) : crow * res unit :=
    match vals with
    | [] => (r, Ok tt)
    | x :: rest =>
        let '(r', e) := iak (key_at (row_l r) i) x r in
        match e with Ok _ => import_arr iak (i + 1) rest r' | _ => (r', e) end
    end.
  Fixpoint import_map (iak : str -> rv -> crow -> crow * res unit) (kvs : list (str * rv)) (r : crow) : crow * res unit :=
    match kvs with
    | [] => (r, Ok tt)
    | (k, x) :: rest =>
        let '(r', e) := iak k x r in
        match e with Ok _ => import_map iak rest r' | _ => (r', e) end
    end.

  (* Import(val) on any Value, ImportAtKey / ImportAtIndex / row.Import — mutually recursive
     through nested rows (row.go:157-205) *)
  Fixpoint cell_import (n : nat) (c : cell) (v : rv) : cell * res unit :=
    match n with
    | 0%nat => (c, Fuel)
    | S n' =>
        match c with
        | CVal raw f typ => value_import n' raw f typ v
        | CRow sub => let '(sub', e) := row_import n' v sub in (CRow sub', e)
        end
    end
  with import_at_key (n : nat) (k : str) (v : rv) (r : crow) : crow * res unit :=
    match n with
    | 0%nat => (r, Fuel)
    | S n' =>
        let r1 := push_if_absent k r in
        match alookup k (row_m r) with
        | Some c => let '(c', e) := cell_import n' c v in (set_cell k c' r1, e)
        | None =>
            match as_value v with
            | Some c => (set_cell k c r1, Ok tt)
            | None => (set_cell k (new_value_auto v) r1, Ok tt)
            end
        end
    end
  with row_import (n : nat) (v : rv) (r : crow) : crow * res unit :=
    match n with
    | 0%nat => (r, Fuel)
    | S n' =>
        match v with
        | RArr vals => import_arr (import_at_key n') 0 vals r
        | RMap kvs => import_map (import_at_key n') kvs r
        | _ => (r, Err ErrUnsupportedImportType)
        end
    end.

  Definition import_at_index (n : nat) (i : Z) (v : rv) (r : crow) : crow * res unit :=
    import_at_key n (key_at (row_l r) i) v r.

  (* UnmarshalJSON(data) seen from the row (row.go parseobject): the top-level members whose
     value was completely parsed, in order, and whether the text was syntactically one object.
     An existing key is imported into, a new key gets an Auto value; the first import error
     stops the traversal. *)
  Fixpoint unmarshal_members (n : nat) (ms : list (str * rv)) (r : crow) : crow * res unit :=
    match ms with
    | [] => (r, Ok tt)
    | (k, v) :: rest =>
        match alookup k (row_m r) with
        | Some c =>
            let '(c', e) := cell_import n c v in
            match e with
            | Ok _ => unmarshal_members n rest (set_cell k c' r)
            | _ => (set_cell k c' r, e)
            end
        | None => unmarshal_members n rest (set_cell k (new_value_auto v) (push_if_absent k r))
        end
    end.

  Definition row_unmarshal (n : nat) (ms : list (str * rv)) (syntax_ok : bool) (r : crow) : crow * res unit :=
    let '(r', e) := unmarshal_members n ms r in
    match e with
    | Ok _ => (r', if syntax_ok then Ok tt else Err ErrNoWrap)
    | _ => (r', e)
    end.

  (* ---------- readers ---------- *)
  Definition row_has (k : str) (r : crow) : bool := ahas k (row_m r).
  Definition row_len (r : crow) : Z := Z.of_nat (length (row_l r)).
  Definition get_value (k : str) (r : crow) : option cell := alookup k (row_m r).
  Definition get_value_at_index (i : Z) (r : crow) : option cell := get_value (key_at (row_l r) i) r.

  (* Get(key): (raw, true) | (nil, false) *)
  Definition row_get (n : nat) (k : str) (r : crow) : res (option rv) :=
    match get_value k r with
    | Some c => bind (cell_raw n c) (fun v => Ok (Some v))
    | None => Ok None
    end.
  Definition row_get_at_index (n : nat) (i : Z) (r : crow) : res (option rv) := row_get n (key_at (row_l r) i) r.
  Definition row_get_or_nil (n : nat) (k : str) (r : crow) : res rv :=
    bind (row_get n k r) (fun o => Ok (match o with Some v => v | None => rnil end)).

  (* IterValues: the pairs in list order (a key of the list missing from the map yields a nil Value) *)
  Definition iter_values (r : crow) : list (str * option cell) :=
    map (fun k => (k, alookup k (row_m r))) (row_l r).

  (* Iter: keys with Raw() of each value *)
  Fixpoint iter_raw (n : nat) (m : list (str * cell)) (l : list str) : res (list (str * rv)) :=
    match l with
    | [] => Ok []
    | k :: l' =>
        match alookup k m with
        | None => Panic
        | Some c => bind (cell_raw n c) (fun v => bind (iter_raw n m l') (fun t => Ok ((k, v) :: t)))
        end
    end.

  (* the row a Value gives access to for path navigation: a Row, or a value holding a Row *)
  Definition sub_row (c : cell) : option crow :=
    match c with
    | CRow r => Some r
    | CVal (RV (CRow r)) _ _ => Some r
    | CVal _ _ _ => None
    end.

  (* GetValueAtPath(path) over the split path (row.go:349) *)
  Fixpoint get_value_at_keys (keys : list str) (r : crow) : option cell :=
    match keys with
    | [] => Some (CRow r)          (* not reachable: strings.Split never returns an empty slice *)
    | [k] => get_value k r
    | k :: rest =>
        match get_value k r with
        | None => None
        | Some c => match sub_row c with Some sub => get_value_at_keys rest sub | None => None end
        end
    end.
  Definition get_value_at_path (p : str) (r : crow) : option cell := get_value_at_keys (split_dot p) r.

  Definition get_at_path (n : nat) (p : str) (r : crow) : res (option rv) :=
    match get_value_at_path p r with
    | Some c => bind (cell_raw n c) (fun v => Ok (Some v))
    | None => Ok None
    end.

  (* ImportAtPath(path, val): value.Import(val) through the pointer GetValueAtPath returned;
     functionally, the row rebuilt along the path (row.go:207) *)
  Fixpoint import_at_keys (n : nat) (keys : list str) (v : rv) (r : crow) : option (crow * res unit) :=
    match keys with
    | [] => None
    | [k] =>
        match get_value k r with
        | None => None
        | Some c => let '(c', e) := cell_import n c v in Some (set_cell k c' r, e)
        end
    | k :: rest =>
        match get_value k r with
        | None => None
        | Some (CRow sub) =>
            match import_at_keys n rest v sub with
            | Some (sub', e) => Some (set_cell k (CRow sub') r, e)
            | None => None
            end
        | Some (CVal (RV (CRow sub)) f t) =>
            match import_at_keys n rest v sub with
            | Some (sub', e) => Some (set_cell k (CVal (RV (CRow sub')) f t) r, e)
            | None => None
            end
        | Some (CVal _ _ _) => None
        end
    end.

  Definition import_at_path (n : nat) (p : str) (v : rv) (r : crow) : crow * res unit :=
    match import_at_keys n (split_dot p) v r with
    | Some (r', e) => (r', e)
    | None => (r, Err ErrPathNotFound)
    end.

  (* the loop of FindValuesAtPath over the elements of an array: rows that have the path contribute *)
  Fixpoint find_in_elems (rec : crow -> res (option (list cell))) (elems : list rv) : res (option (list cell)) :=
    match elems with
    | [] => Ok (Some [])
    | RV (CRow er) :: more =>
        bind (rec er) (fun found =>
        bind (find_in_elems rec more) (fun tl =>
          Ok (match found, tl with
              | Some vs, Some t => Some (vs ++ t)
              | None, Some t => Some t
              | _, None => None
              end)))
    | _ :: more => find_in_elems rec more
    end.

  (* FindValuesAtPath(path) over the split path (row.go:375): SplitN(path, ".", 2) at each level *)
  Fixpoint find_values_at_keys (n : nat) (keys : list str) (r : crow) : res (option (list cell)) :=
    match n with
    | 0%nat => Fuel
    | S n' =>
        match keys with
        | [] => Ok None
        | [k] => Ok (match get_value k r with Some c => Some [c] | None => None end)
        | k :: rest =>
            match get_value k r with
            | None => Ok None
            | Some (CRow sub) => find_values_at_keys n' rest sub
            | Some (CVal (RV (CRow sub)) _ _) => find_values_at_keys n' rest sub
            | Some (CVal (RArr elems) _ _) => find_in_elems (find_values_at_keys n' rest) elems
            | Some (CVal _ _ _) => Ok None
            end
        end
    end.
  Definition find_values_at_path (n : nat) (p : str) (r : crow) : res (option (list cell)) :=
    find_values_at_keys n (split_dot p) r.

  (* typed getters (row.go:GetString ...): cast.ToX(GetOrNil(key)) then a comma-ok assertion *)
  Definition typed_get (n : nat) (sample : gval) (zero : gval) (k : str) (r : crow) : res gval :=
    bind (row_get_or_nil n k r) (fun v =>
      match To O sample (to_gval v) with
      | Ok g => if same_kind g zero then Ok g else Ok zero
      | Err _ => Ok zero
      | Panic => Panic
      | Fuel => Fuel
      end).

  (* CloneRow: one fresh value per key, built from Raw(), format and raw type (row.go:117) *)
  Definition clone_value (n : nat) (c : cell) : res cell :=
    bind (cell_raw n c) (fun raw => new_value raw (cell_format c) (cell_rawtype c)).

  Fixpoint clone_cells (n : nat) (m : list (str * cell)) (l : list str) (acc : crow) : res crow :=
    match l with
    | [] => Ok acc
    | k :: l' =>
        match alookup k m with
        | None => Panic
        | Some c => bind (clone_value n c) (fun c' => clone_cells n m l' (set_value k (Some c') acc))
        end
    end.

  Definition clone_row (n : nat) (r : crow) : res crow := clone_cells n (row_m r) (row_l r) new_row.
End WithOracles.
