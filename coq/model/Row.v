(* Layer 2 — hand model of pkg/jsonline's values and rows (value.go, row.go), function for
   function. A row is the Go triple reduced to what is ever read: the map from keys to cells
   and the container/list of keys (the key->element index is written but never read).
   Everything is purely functional; recursion through nested rows is by explicit fuel, with
   [Fuel] as a distinct outcome. *)
From Coq Require Import ZArith List Bool Lia.
From JL.std Require Import GoBase GoFloat GoStrconv GoTime GoVal GoBase64.
From JL.gen Require Import CastGen ConvGen.
Import ListNotations.
Open Scope Z_scope.

Inductive format :=
| FString | FNumeric | FBoolean | FBinary | FDate | FDateTime | FTimestamp | FAuto | FHidden
| FBad.   (* any other value of the Format type *)

Definition format_eqb (a b : format) : bool :=
  match a, b with
  | FString, FString | FNumeric, FNumeric | FBoolean, FBoolean | FBinary, FBinary | FDate, FDate
  | FDateTime, FDateTime | FTimestamp, FTimestamp | FAuto, FAuto | FHidden, FHidden | FBad, FBad => true
  | _, _ => false
  end.

(* raw values: a Go interface{} as jsonline sees it *)
Inductive rv :=
| RS (g : gval)                  (* nil, scalars, and every dynamic type cast cannot tell apart *)
| RArr (l : list rv)             (* []interface{} *)
| RMap (m : list (str * rv))     (* map[string]interface{}; the list order is the iteration order *)
| RRow (r : crow)                (* a Row held as a raw value (what the JSON reader builds) *)
with cell :=                     (* a jsonline.Value held by a row *)
| CVal (raw : rv) (f : format) (typ : gval)   (* *value *)
| CRow (r : crow)                             (* a Row used as a Value *)
| CNil                                        (* a nil Value interface *)
with crow := MkRow (m : list (str * cell)) (l : list str).

Definition rnil : rv := RS VNil.
Definition row_m (r : crow) := let '(MkRow m _) := r in m.
Definition row_l (r : crow) := let '(MkRow _ l) := r in l.
Definition new_row : crow := MkRow [] [].

Definition rv_is_nil (v : rv) : bool := match v with RS VNil => true | _ => false end.

(* how pkg/cast sees a raw value: composites fall in its default branches *)
Definition to_gval (v : rv) : gval :=
  match v with
  | RS g => g
  | RArr _ => VOther 23
  | RMap _ => VOther 21
  | RRow _ => VOther 22
  end.

(* ---------- association lists standing for Go maps ---------- *)
Fixpoint alookup {A} (k : str) (m : list (str * A)) : option A :=
  match m with
  | [] => None
  | (k', v) :: r => if str_eqb k k' then Some v else alookup k r
  end.

Fixpoint aset {A} (k : str) (v : A) (m : list (str * A)) : list (str * A) :=
  match m with
  | [] => [(k, v)]
  | (k', v') :: r => if str_eqb k k' then (k, v) :: r else (k', v') :: aset k v r
  end.

Definition ahas {A} (k : str) (m : list (str * A)) : bool :=
  match alookup k m with Some _ => true | None => false end.

(* the loop "for cur := l.Front(); ...; index--": the key at position index, "" when there is none *)
Definition key_at (l : list str) (index : Z) : str :=
  if index <? 0 then [] else nth (Z.to_nat index) l [].

Section WithOracles.
  Context (O : oracles).

  Definition lift (r : res gval) : res rv :=
    match r with Ok g => Ok (RS g) | Err e => Err e | Panic => Panic | Fuel => Fuel end.

  (* cast.To(typ, v): with a nil sample it hands the value back untouched, composites included *)
  Definition cast_to (typ : gval) (v : rv) : res rv :=
    match To O typ (to_gval v) with
    | Ok g => match v with
              | RS _ => Ok (RS g)
              | _ => match g with VOther _ => Ok v | _ => Ok (RS g) end
              end
    | Err e => Err e | Panic => Panic | Fuel => Fuel
    end.

  (* NewValue(v, f, rawtype): keeps the uncast value when the cast fails *)
  Definition new_value (v : rv) (f : format) (typ : gval) : res cell :=
    match cast_to typ v with
    | Ok r => Ok (CVal r f typ)
    | Err _ => Ok (CVal v f typ)
    | Panic => Panic | Fuel => Fuel
    end.

  Definition new_value_auto (v : rv) : cell := CVal v FAuto VNil.

  Definition cell_format (c : cell) : res format :=
    match c with CVal _ f _ => Ok f | CRow _ => Ok FAuto | CNil => Panic end.
  Definition cell_rawtype (c : cell) : res gval :=
    match c with CVal _ _ t => Ok t | CRow _ => Ok VNil | CNil => Panic end.

  (* ---------- Raw() ---------- *)
  Fixpoint cells_raw (rec : cell -> res rv) (m : list (str * cell)) (l : list str) : res (list (str * rv)) :=
    match l with
    | [] => Ok []
    | k :: l' =>
        match alookup k m with
        | None => Panic                       (* r.m[k] is a nil Value: method call on nil interface *)
        | Some c => bind (rec c) (fun v => bind (cells_raw rec m l') (fun t => Ok (aset k v t)))
        end
    end.

  Fixpoint cell_raw (n : nat) (c : cell) : res rv :=
    match n with
    | 0%nat => Fuel
    | S n' =>
        match c with
        | CVal raw _ _ => Ok raw
        | CRow (MkRow m l) => bind (cells_raw (cell_raw n') m l) (fun t => Ok (RMap t))
        | CNil => Panic
        end
    end.

  Definition row_raw (n : nat) (r : crow) : res rv := cell_raw n (CRow r).

  (* ---------- Export() ---------- *)
  Definition export_scalar (f : format) (raw : rv) : res rv :=
    match f with
    | FString => lift (exportToString O (to_gval raw))
    | FNumeric => lift (exportToNumber O (to_gval raw))
    | FBoolean => lift (exportToBool O (to_gval raw))
    | FBinary => lift (exportToBinary O (to_gval raw))
    | FDate => lift (exportToDate O (to_gval raw))
    | FDateTime => lift (exportToDateTime O (to_gval raw))
    | FTimestamp => lift (exportToTimestamp O (to_gval raw))
    | FAuto | FHidden => Ok raw
    | FBad => Err ErrUnsupportedFormat
    end.

  Fixpoint cells_export (rec : cell -> res rv) (m : list (str * cell)) (l : list str) : res (list (str * rv)) :=
    match l with
    | [] => Ok []
    | k :: l' =>
        match alookup k m with
        | None => Panic
        | Some c => bind (rec c) (fun v => bind (cells_export rec m l') (fun t => Ok (aset k v t)))
        end
    end.

  Fixpoint cell_export (n : nat) (c : cell) : res rv :=
    match n with
    | 0%nat => Fuel
    | S n' =>
        match c with
        | CVal raw f _ => if rv_is_nil raw then Ok rnil else export_scalar f raw
        | CRow (MkRow m l) =>
            match cells_export (cell_export n') m l with
            | Ok t => Ok (RMap t)
            | Err _ => Err ErrNoWrap     (* fmt.Errorf("%w", err): the class of the inner error is kept by the caller *)
            | Panic => Panic | Fuel => Fuel
            end
        | CNil => Panic
        end
    end.

  (* ---------- Import(val) on a *value ---------- *)
  Definition import_scalar (f : format) (typ : gval) (v : rv) : res rv :=
    match f with
    | FString => lift (importFromString O (to_gval v) typ)
    | FNumeric => lift (importFromNumeric O (to_gval v) typ)
    | FBoolean => lift (importFromBoolean O (to_gval v) typ)
    | FBinary => lift (importFromBinary O (to_gval v) typ)
    | FDate => lift (importFromDate O (to_gval v) typ)
    | FDateTime => lift (importFromDateTime O (to_gval v) typ)
    | FTimestamp => lift (importFromTimestamp O (to_gval v) typ)
    | FAuto | FHidden => cast_to typ v
    | FBad => Err ErrUnsupportedFormat
    end.

  (* the cell after the call, and the error if any: a failed import leaves a nil raw value *)
  Definition value_import (n : nat) (raw : rv) (f : format) (typ : gval) (v : rv) : cell * res unit :=
    if rv_is_nil v then (CVal rnil f typ, Ok tt)
    else match v with
         | RRow r =>            (* val.(Value): format, raw and raw type are taken from it *)
             match row_raw n r with
             | Ok m => (CVal m FAuto VNil, Ok tt)
             | Err e => (CVal raw f typ, Err e)
             | Panic => (CVal raw f typ, Panic)
             | Fuel => (CVal raw f typ, Fuel)
             end
         | _ =>
             match import_scalar f typ v with
             | Ok r => (CVal r f typ, Ok tt)
             | Err e => (CVal rnil f typ, Err e)
             | Panic => (CVal raw f typ, Panic)
             | Fuel => (CVal raw f typ, Fuel)
             end
         end.

  (* ---------- row mutators ---------- *)
  Definition push_if_absent (k : str) (r : crow) : crow :=
    let '(MkRow m l) := r in if ahas k m then r else MkRow m (l ++ [k]).

  Definition set_cell (k : str) (c : cell) (r : crow) : crow :=
    let '(MkRow m l) := r in MkRow (aset k c m) l.

  (* SetValue(key, val) *)
  Definition set_value (k : str) (c : cell) (r : crow) : crow := set_cell k c (push_if_absent k r).

  Definition set_value_at_index (i : Z) (c : cell) (r : crow) : crow := set_value (key_at (row_l r) i) c r.

  (* the Value a raw argument is, when it is one (val.(Value)) *)
  Definition as_value (v : rv) : option cell := match v with RRow r => Some (CRow r) | _ => None end.

  (* Set(key, val) *)
  Definition row_set (k : str) (v : rv) (r : crow) : res crow :=
    let r1 := push_if_absent k r in
    match alookup k (row_m r) with
    | Some c =>
        bind (cell_rawtype c) (fun typ => bind (cell_format c) (fun f =>
          match cast_to typ v with
          | Ok _ => bind (new_value v f typ) (fun c' => Ok (set_cell k c' r1))
          | Err _ => bind (new_value rnil f typ) (fun c' => Ok (set_cell k c' r1))
          | Panic => Panic | Fuel => Fuel
          end))
    | None =>
        match as_value v with
        | Some c => Ok (set_cell k c r1)
        | None => Ok (set_cell k (new_value_auto v) r1)
        end
    end.

  Definition row_set_at_index (i : Z) (v : rv) (r : crow) : res crow := row_set (key_at (row_l r) i) v r.

  (* ImportAtKey / ImportAtIndex / Import, mutually recursive through nested rows *)
  Fixpoint import_at_key (n : nat) (k : str) (v : rv) (r : crow) : crow * res unit :=
    match n with
    | 0%nat => (r, Fuel)
    | S n' =>
        let r1 := push_if_absent k r in
        match alookup k (row_m r) with
        | Some (CVal raw f typ) =>
            let '(c', e) := value_import n' raw f typ v in
            (set_cell k c' r1, match e with Ok _ => Ok tt | Err x => Err x | Panic => Panic | Fuel => Fuel end)
        | Some (CRow sub) =>
            let '(sub', e) := row_import n' v sub in (set_cell k (CRow sub') r1, e)
        | Some CNil => (r1, Panic)
        | None =>
            match as_value v with
            | Some c => (set_cell k c r1, Ok tt)
            | None => (set_cell k (new_value_auto v) r1, Ok tt)
            end
        end
    end
  with row_import (n : nat) (v : rv) (r : crow) : crow * res unit :=
    match n with
    | 0%nat => (r, Fuel)
    | S n' =>
        match v with
        | RArr vals =>
            (fix go (i : Z) (vals : list rv) (r : crow) : crow * res unit :=
               match vals with
               | [] => (r, Ok tt)
               | x :: rest =>
                   let '(r', e) := import_at_key n' (key_at (row_l r) i) x r in
                   match e with Ok _ => go (i + 1) rest r' | _ => (r', e) end
               end) 0 vals r
        | RMap kvs =>
            (fix go (kvs : list (str * rv)) (r : crow) : crow * res unit :=
               match kvs with
               | [] => (r, Ok tt)
               | (k, x) :: rest =>
                   let '(r', e) := import_at_key n' k x r in
                   match e with Ok _ => go rest r' | _ => (r', e) end
               end) kvs r
        | _ => (r, Err ErrUnsupportedImportType)
        end
    end.

  Definition import_at_index (n : nat) (i : Z) (v : rv) (r : crow) : crow * res unit :=
    import_at_key n (key_at (row_l r) i) v r.

  (* ---------- readers ---------- *)
  Definition row_has (k : str) (r : crow) : bool := ahas k (row_m r).
  Definition row_len (r : crow) : Z := Z.of_nat (length (row_l r)).
  Definition get_value (k : str) (r : crow) : option cell := alookup k (row_m r).
  Definition get_value_at_index (i : Z) (r : crow) : option cell := get_value (key_at (row_l r) i) r.

  (* Get(key): (raw, true) | (nil, false); a nil Value panics *)
  Definition row_get (n : nat) (k : str) (r : crow) : res (option rv) :=
    match get_value k r with
    | Some c => bind (cell_raw n c) (fun v => Ok (Some v))
    | None => Ok None
    end.
  Definition row_get_at_index (n : nat) (i : Z) (r : crow) : res (option rv) := row_get n (key_at (row_l r) i) r.

  (* IterValues / Iter: the pairs in list order *)
  Definition iter_values (r : crow) : list (str * option cell) :=
    map (fun k => (k, alookup k (row_m r))) (row_l r).

  (* CloneRow: one fresh value per key, built from Raw(), format and raw type *)
  Definition clone_value (n : nat) (c : cell) : res cell :=
    bind (cell_raw n c) (fun raw => bind (cell_format c) (fun f => bind (cell_rawtype c) (fun t => new_value raw f t))).

  Fixpoint clone_cells (n : nat) (m : list (str * cell)) (l : list str) (acc : crow) : res crow :=
    match l with
    | [] => Ok acc
    | k :: l' =>
        match alookup k m with
        | None => Panic
        | Some c => bind (clone_value n c) (fun c' => clone_cells n m l' (set_value k c' acc))
        end
    end.

  Definition clone_row (n : nat) (r : crow) : res crow := clone_cells n (row_m r) (row_l r) new_row.
End WithOracles.
