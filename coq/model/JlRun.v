(* Running the jl model on harness cases: the real binary's stdout and exit status against jl_run. *)
From Coq Require Import ZArith List Bool.
From JL.std Require Import GoBase GoFloat GoStrconv GoTime GoVal GoJson.
From JL.gen Require Import CastGen ConvGen.
From JL.model Require Import CastRun Row RowRun Template TemplateJson TemplateRun Jl.
Import ListNotations.
Open Scope Z_scope.

Record jcase := mkjc {
  jc_tr : ttr;
  jc_file : list coldef;          (* decoded row.yml ([] when there is none) *)
  jc_inline : str;                (* the -t argument ("{}" when not given) *)
  jc_lines : list str;            (* stdin, split in lines *)
  jc_seen : option str;           (* Some stdout when the command exits 0, None when it exits non-zero with empty stdout *)
}.

Definition run_jcase (c : jcase) : option str :=
  let T := jc_tr c in
  match jl_run (oracles_of (tt_otr T)) (jfloat_of T) (fun _ => None) (jc_file c) (jc_inline c) (jc_lines c) with
  | Ok out => Some out
  | _ => None
  end.

Fixpoint jl_mismatches (i : Z) (l : list jcase) : list Z :=
  match l with
  | [] => []
  | c :: r =>
      (if opt_eqb str_eqb (run_jcase c) (jc_seen c) then [] else [i]) ++ jl_mismatches (i + 1) r
  end.
