(* Running the JSON layer (JL.std.GoJson) on harness cases of stream `json`: every case carries
   what the real encoding/json and the real jsonline row did on one line; the model is evaluated
   on the same line with vm_compute and every observable is compared. *)
From Coq Require Import ZArith List Bool.
From JL.std Require Import GoBase GoJsonNum GoJson GoJsonMarshal.
Import ListNotations.
Open Scope Z_scope.

Definition tok_eqb (a b : tok) : bool :=
  match a, b with
  | TDelim x, TDelim y => x =? y
  | TStr x, TStr y | TNum x, TNum y => str_eqb x y
  | TBool x, TBool y => Bool.eqb x y
  | TNull, TNull => true
  | _, _ => false
  end.

Fixpoint toks_eqb (a b : list tok) : bool :=
  match a, b with
  | [], [] => true
  | x :: a', y :: b' => tok_eqb x y && toks_eqb a' b'
  | _, _ => false
  end.

Definition ostr_eqb (a b : option str) : bool :=
  match a, b with
  | Some x, Some y => str_eqb x y
  | None, None => true
  | _, _ => false
  end.

Record json_case := mkj {
  jc_line : str;                       (* the input line *)
  jc_toks : list tok;                  (* tokens returned by the real Decoder.Token loop (UseNumber) *)
  jc_eof : bool;                       (* the error that ended the loop was io.EOF *)
  jc_accept : bool;                    (* jsonline.NewRow().UnmarshalJSON(line) returned nil *)
  jc_out : option str;                 (* row.String() bytes when accepted and every object has unique member names *)
  jc_rec : option bool;                (* verdict of the harness's own RFC 8259 recogniser (object), when the
                                          line's strings are well-formed *)
  jc_strs : list (str * str);          (* (s, json.Marshal(s)) for strings seen in the line *)
}.

(* codes of the observables that differ *)
Definition json_check (c : json_case) : list Z :=
  let '(toks, eof) := tokenize (jc_line c) in
  let '(m, ok) := parse_tokens toks eof in
  (if toks_eqb toks (jc_toks c) && Bool.eqb eof (jc_eof c) then [] else [1])
  ++ (if Bool.eqb ok (jc_accept c) then [] else [2])
  ++ (match jc_out c with
      | Some o => if ostr_eqb (write_row m) (Some o) then [] else [3]
      | None => []
      end)
  ++ (match jc_rec c with
      | Some r => if Bool.eqb (is_json_object (jc_line c)) r then [] else [4]
      | None => []
      end)
  ++ (if forallb (fun p => str_eqb (encode_string (fst p)) (snd p)) (jc_strs c) then [] else [5])
  ++ (if forallb (fun p => negb (utf8_valid (fst p)) || ostr_eqb (decode_string (encode_string (fst p))) (Some (fst p)))
                 (jc_strs c) then [] else [6]).

Fixpoint json_mismatches (i : Z) (l : list json_case) : list (Z * list Z) :=
  match l with
  | [] => []
  | c :: r =>
      match json_check c with
      | [] => json_mismatches (i + 1) r
      | codes => (i, codes) :: json_mismatches (i + 1) r
      end
  end.
