(* Layer 2 — the streaming model, continued: the importer's other entry point and the state in which
   a run of the streamer leaves the importer.

   Definitions only (proofs: JL.proofs.StreamPullProofs).  Same parameters and same observables as
   JL.model.Stream.

   (1) PULL MODE.  What a caller writes who does not use Streamer.Stream but pulls the rows himself
       through Importer.ReadOne (importer.go:114-120) and hands them to Exporter.Export, every error
       being noted and otherwise ignored (harness/stream_stream.go, runPull):

           for {
               row, err := imp.ReadOne()
               if row == nil && err == nil { break }
               if err != nil { note(err); continue }
               note(nil)
               if err := exp.Export(row); err != nil { note(err) }
           }

       [note] is the observer's side of a processor call: it records the event EvCall and counts
       it, and has no say on what happens next.  [pull_loop] produces the same kind of trace as
       Stream.stream_loop (a call event per note, write events from Export) and returns, with the
       result, the importer and the observer state it stopped in.

   (2) THE FINAL IMPORTER.  Stream.stream_loop returns the result and the observer state;
       [stream_loop_st] is the same loop that also returns the importer it stopped in
       (stream_loop = stream_loop_st without that component: theorem stream_loop_st_forget), so
       that "what happens after the end" can be stated: the caller still holds the importer and
       the streamer, and may call Import / GetRow / ReadOne / Stream again. *)
From Coq Require Import ZArith List Bool Lia.
From JL.std Require Import GoBase GoScanner.
From JL.model Require Import Stream.
Import ListNotations.
Open Scope Z_scope.

Section Pull.
  Variable R : Type.
  Variable get_row : str -> res R.
  Variable export_row : R -> res str.

  Variable Sc : Type.
  Variable s_scan : Sc -> option str * Sc.
  Variable s_err : Sc -> option serr.

  Variable wf : nat -> option Z.

  Notation importer := (importer Sc).
  Notation Import := (Import Sc s_scan s_err).
  Notation GetRow := (GetRow R get_row Sc s_err).
  Notation ReadOne := (ReadOne R get_row Sc s_scan s_err).
  Notation Export := (Export R export_row wf).

  (* note(err): the caller's own bookkeeping — the event of a processor call, without a processor *)
  Definition note (o : ost) (e : option eclass) : ost :=
    mkost (S (o_calls o)) (o_writes o) (EvCall e :: o_trace o).

  (* the hand-written loop above; one unit of fuel per iteration.
     ROk = the loop was left by `break`; RPanic / RFuel as in stream_loop; never RErr *)
  Fixpoint pull_loop (fuel : nat) (i : importer) (o : ost) : sres * importer * ost :=
    match fuel with
    | O => (RFuel, i, o)
    | S fuel' =>
        let '(g, i1) := ReadOne i in
        match g with
        | None => (ROk, i1, o)                                   (* (nil, nil): break *)
        | Some (GrErr e) => pull_loop fuel' i1 (note o (Some e)) (* note(err); continue *)
        | Some GrPanic => (RPanic, i1, o)
        | Some GrFuel => (RFuel, i1, o)
        | Some (GrOk r) =>
            let o1 := note o None in                             (* note(nil) *)
            let '(x, o2) := Export o1 r in
            match x with
            | XOk => pull_loop fuel' i1 o2
            | XErr e => pull_loop fuel' i1 (note o2 (Some e))    (* note(err) *)
            | XPanic => (RPanic, i1, o2)
            | XFuel => (RFuel, i1, o2)
            end
        end
    end.

  (* Stream.stream_loop, returning also the importer it stopped in: after the Import() that said
     false (nil), after the GetRow() of the iteration the processor stopped (an error), or where the
     model gave up (panic, fuel) *)
  Section WithProcessor.
    Variable proc : nat -> option eclass -> option eclass.
    Notation call := (call proc).

    Fixpoint stream_loop_st (fuel : nat) (i : importer) (o : ost) : sres * importer * ost :=
      match fuel with
      | O => (RFuel, i, o)
      | S fuel' =>
          let '(more, i1) := Import i in
          if negb more then (ROk, i1, o)
          else
            let '(g, i2) := GetRow i1 in
            match g with
            | GrErr e =>
                let '(pe, o1) := call o (Some e) in
                match pe with
                | Some x => (RErr x, i2, o1)
                | None => stream_loop_st fuel' i2 o1
                end
            | GrPanic => (RPanic, i2, o)
            | GrFuel => (RFuel, i2, o)
            | GrOk r =>
                let '(pe, o1) := call o None in
                match pe with
                | Some x => (RErr x, i2, o1)
                | None =>
                    let '(x, o2) := Export o1 r in
                    match x with
                    | XOk => stream_loop_st fuel' i2 o2
                    | XErr e =>
                        let '(pe2, o3) := call o2 (Some e) in
                        match pe2 with
                        | Some y => (RErr y, i2, o3)
                        | None => stream_loop_st fuel' i2 o3
                        end
                    | XPanic => (RPanic, i2, o2)
                    | XFuel => (RFuel, i2, o2)
                    end
                end
            end
      end.
  End WithProcessor.

  (* forget the final importer; keep the result and the events in the order they happened *)
  Definition observe (x : sres * importer * ost) : sres * list event :=
    let '(r, _, o) := x in (r, rev (o_trace o)).

  Definition pull_fuel (fuel : nat) (sc : Sc) : sres * list event :=
    observe (pull_loop fuel (NewImporter Sc sc) ost0).
End Pull.

(* ---------------- the two instances (as Stream.Stream / Stream.StreamChunked) ---------------- *)

Section Instances.
  Variable R : Type.
  Variable get_row : str -> res R.
  Variable export_row : R -> res str.
  Variable wf : nat -> option Z.

  (* the pull loop over NewImporterSized(reader, initial, max).WithTemplate(ti) and
     NewExporter(writer).WithTemplate(to), chunk-free scanner specification *)
  Definition Pull (C : Z) (s : str) (k : option Z) : sres * list event :=
    pull_fuel R get_row export_row sstate (scan C) sc_err wf
              (sc_measure (sc_init s k) + 2) (sc_init s k).

  (* the same over the operational scanner reading through a chunking reader *)
  Definition PullChunked (C : Z) (s : str) (k : option Z) (chunks : list Z) : sres * list event :=
    pull_fuel R get_row export_row cstate (cscan C) c_public_err wf
              (length s + 4) (c_init s k chunks).

  (* a whole run of Streamer.Stream that also hands back the importer and the observer state, so
     that one can go on: the first component is Stream's return value *)
  Definition StreamSt (proc : nat -> option eclass -> option eclass) (C : Z) (s : str) (k : option Z)
    : sres * importer sstate * ost :=
    stream_loop_st R get_row export_row sstate (scan C) sc_err wf proc
                   (sc_measure (sc_init s k) + 2) (NewImporter sstate (sc_init s k)) ost0.

  Definition StreamChunkedSt (proc : nat -> option eclass -> option eclass) (C : Z) (s : str) (k : option Z)
                             (chunks : list Z) : sres * importer cstate * ost :=
    stream_loop_st R get_row export_row cstate (cscan C) c_public_err wf proc
                   (length s + 4) (NewImporter cstate (c_init s k chunks)) ost0.
End Instances.
