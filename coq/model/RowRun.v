(* Running the row model on harness histories: operations, queries, canonical forms,
   comparison with what the real package showed (evaluated with vm_compute inside coqc). *)
From Coq Require Import ZArith List Bool.
From JL.std Require Import GoBase GoFloat GoStrconv GoTime GoVal.
From JL.gen Require Import CastGen ConvGen.
From JL.model Require Import CastRun Row MapTo.
Import ListNotations.
Open Scope Z_scope.

Definition FUEL : nat := 48.

(* ---------- operations on one row ---------- *)
Inductive rop :=
| OSet (k : str) (v : rv)
| OSetAtIndex (i : Z) (v : rv)
| OSetValue (k : str) (c : option cell)
| OSetValueAtIndex (i : Z) (c : option cell)
| OImportAtKey (k : str) (v : rv)
| OImportAtIndex (i : Z) (v : rv)
| OImport (v : rv)                    (* maps: the list order is the iteration order that was observed *)
| OImportAtPath (p : str) (v : rv)
| OUnmarshal (ms : list (str * rv)) (syntax_ok : bool)
| OClone.                             (* r = CloneRow(r) *)

Section Run.
  Context (O : oracles).

  Definition of_res (r0 : crow) (x : res crow) : crow * res unit :=
    match x with Ok r => (r, Ok tt) | Err e => (r0, Err e) | Panic => (r0, Panic) | Fuel => (r0, Fuel) end.

  Definition step (r : crow) (o : rop) : crow * res unit :=
    match o with
    | OSet k v => of_res r (row_set O k v r)
    | OSetAtIndex i v => of_res r (row_set_at_index O i v r)
    | OSetValue k c => (set_value k c r, Ok tt)
    | OSetValueAtIndex i c => (set_value_at_index i c r, Ok tt)
    | OImportAtKey k v => import_at_key O FUEL k v r
    | OImportAtIndex i v => import_at_index O FUEL i v r
    | OImport v => row_import O FUEL v r
    | OImportAtPath p v => import_at_path O FUEL p v r
    | OUnmarshal ms ok => row_unmarshal O FUEL ms ok r
    | OClone => of_res r (clone_row O FUEL r)
    end.

  (* ---------- queries ---------- *)
  Inductive rq :=
  | QHas (k : str) | QGet (k : str) | QGetAtIndex (i : Z) | QGetValue (k : str) | QGetValueAtIndex (i : Z)
  | QLen | QIter | QGetAtPath (p : str) | QGetValueAtPath (p : str) | QFind (p : str)
  | QTyped (sample zero : gval) (k : str) | QRaw | QExport
  | QMapTo (t : mtarget).

  Inductive rout :=
  | ABool (b : bool) | AZ (z : Z) | ARv (o : option rv) | ACell (o : option cell)
  | ACells (o : option (list cell)) | AG (g : gval) | AIter (l : list (str * rv))
  | AErr (e : sentinel) | APanic | AFuel
  | AFields (l : list gval).    (* MapTo on a zero struct: the exported fields afterwards (VNil: not shown) *)

  Definition out_of {A} (f : A -> rout) (x : res A) : rout :=
    match x with Ok a => f a | Err e => AErr e | Panic => APanic | Fuel => AFuel end.

  Definition query (r : crow) (q : rq) : rout :=
    match q with
    | QHas k => ABool (row_has k r)
    | QGet k => out_of ARv (row_get FUEL k r)
    | QGetAtIndex i => out_of ARv (row_get_at_index FUEL i r)
    | QGetValue k => ACell (get_value k r)
    | QGetValueAtIndex i => ACell (get_value_at_index i r)
    | QLen => AZ (row_len r)
    | QIter => out_of AIter (iter_raw FUEL (row_m r) (row_l r))
    | QGetAtPath p => out_of ARv (get_at_path FUEL p r)
    | QGetValueAtPath p => ACell (get_value_at_path p r)
    | QFind p => out_of ACells (find_values_at_path FUEL p r)
    | QTyped s z k => out_of AG (typed_get O FUEL s z k r)
    | QRaw => out_of (fun v => ARv (Some v)) (row_raw FUEL r)
    | QExport => out_of (fun v => ARv (Some v)) (cell_export O FUEL (CRow r))
    | QMapTo t => out_of AFields (bind (map_to O FUEL r t) (fun l => Ok (fields_after t l)))
    end.
End Run.

(* ---------- canonical forms: map of a row listed along its key list; Go maps sorted by key ---------- *)
Fixpoint norm_rv (n : nat) (v : rv) : rv :=
  match n with
  | 0%nat => v
  | S n' =>
      match v with
      | RS g => RS g
      | RArr l => RArr (map (norm_rv n') l)
      | RMap m => RMap (sort_by_key (map (fun kv => (fst kv, norm_rv n' (snd kv))) m))
      | RV c => RV (norm_cell n' c)
      end
  end
with norm_cell (n : nat) (c : cell) : cell :=
  match n with
  | 0%nat => c
  | S n' =>
      match c with
      | CVal raw f t => CVal (norm_rv n' raw) f t
      | CRow r => CRow (norm_crow n' r)
      end
  end
with norm_crow (n : nat) (r : crow) : crow :=
  match n with
  | 0%nat => r
  | S n' =>
      let '(MkRow m l) := r in
      MkRow (flat_map (fun k => match alookup k m with Some c => [(k, norm_cell n' c)] | None => [] end) l) l
  end.

Fixpoint list_eqb {A} (eqb : A -> A -> bool) (a b : list A) : bool :=
  match a, b with
  | [], [] => true
  | x :: a', y :: b' => eqb x y && list_eqb eqb a' b'
  | _, _ => false
  end.

Fixpoint rv_eqb (a b : rv) : bool :=
  match a, b with
  | RS x, RS y => gval_eqb x y
  | RArr x, RArr y =>
      (fix go (x y : list rv) : bool :=
         match x, y with
         | [], [] => true
         | a :: x', b :: y' => rv_eqb a b && go x' y'
         | _, _ => false
         end) x y
  | RMap x, RMap y =>
      (fix go (x y : list (str * rv)) : bool :=
         match x, y with
         | [], [] => true
         | (k, a) :: x', (k', b) :: y' => str_eqb k k' && rv_eqb a b && go x' y'
         | _, _ => false
         end) x y
  | RV c, RV d => cell_eqb c d
  | _, _ => false
  end
with cell_eqb (a b : cell) : bool :=
  match a, b with
  | CVal r f t, CVal r' f' t' => rv_eqb r r' && format_eqb f f' && gval_eqb t t'
  | CRow r, CRow r' => crow_eqb r r'
  | _, _ => false
  end
with crow_eqb (a b : crow) : bool :=
  match a, b with
  | MkRow m l, MkRow m' l' =>
      (fix go (x y : list (str * cell)) : bool :=
         match x, y with
         | [], [] => true
         | (k, a) :: x', (k', b) :: y' => str_eqb k k' && cell_eqb a b && go x' y'
         | _, _ => false
         end) m m' && list_eqb str_eqb l l'
  end.

Definition opt_eqb {A} (eqb : A -> A -> bool) (a b : option A) : bool :=
  match a, b with Some x, Some y => eqb x y | None, None => true | _, _ => false end.

Definition NF : nat := 64.
Definition rout_norm (a : rout) : rout :=
  match a with
  | ARv o => ARv (option_map (norm_rv NF) o)
  | ACell o => ACell (option_map (norm_cell NF) o)
  | ACells o => ACells (option_map (map (norm_cell NF)) o)
  | AIter l => AIter (map (fun kv => (fst kv, norm_rv NF (snd kv))) l)
  | x => x
  end.

Definition rout_eqb (a b : rout) : bool :=
  match rout_norm a, rout_norm b with
  | ABool x, ABool y => Bool.eqb x y
  | AZ x, AZ y => x =? y
  | ARv x, ARv y => opt_eqb rv_eqb x y
  | ACell x, ACell y => opt_eqb cell_eqb x y
  | ACells x, ACells y => opt_eqb (list_eqb cell_eqb) x y
  | AG x, AG y => gval_eqb x y
  | AIter x, AIter y => list_eqb (fun p q => str_eqb (fst p) (fst q) && rv_eqb (snd p) (snd q)) x y
  | AErr x, AErr y => sentinel_eqb x y
  | APanic, APanic => true
  | AFields x, AFields y => list_eqb gval_eqb x y
  | _, _ => false
  end.

(* ---------- one history ---------- *)
Record rstep := mks {
  s_op : rop;
  s_err : res unit;                 (* what the real operation returned / panicked *)
  s_state : crow;                   (* the real row afterwards, canonical *)
  s_queries : list (rq * rout);     (* readers run on the real row afterwards, with their answers *)
}.

Record rcase := mkr {
  r_tr : otr;
  r_steps : list rstep;
}.

(* indices (step, query; query = -1 for the state / error) at which model and code differ *)
Fixpoint queries_mismatch (O : oracles) (r : crow) (i j : Z) (qs : list (rq * rout)) : list (Z * Z) :=
  match qs with
  | [] => []
  | (q, seen) :: rest =>
      (if rout_eqb (query O r q) seen then [] else [(i, j)]) ++ queries_mismatch O r i (j + 1) rest
  end.

Fixpoint steps_mismatch (O : oracles) (r : crow) (i : Z) (ss : list rstep) : list (Z * Z) :=
  match ss with
  | [] => []
  | s :: rest =>
      let '(r', e) := step O r (s_op s) in
      (if res_eqb (fun _ _ => true) e (s_err s) then [] else [(i, -1)])
      ++ (if crow_eqb (norm_crow NF r') (norm_crow NF (s_state s)) then [] else [(i, -2)])
      ++ queries_mismatch O r' i 0 (s_queries s)
      ++ steps_mismatch O r' (i + 1) rest
  end.

Definition rcase_mismatch (c : rcase) : list (Z * Z) :=
  steps_mismatch (oracles_of (r_tr c)) new_row 0 (r_steps c).

Fixpoint row_mismatches (i : Z) (l : list rcase) : list (Z * list (Z * Z)) :=
  match l with
  | [] => []
  | c :: r =>
      match rcase_mismatch c with
      | [] => row_mismatches (i + 1) r
      | m => (i, m) :: row_mismatches (i + 1) r
      end
  end.
