(* Layer 0 — encoding/base64.StdEncoding (padded, non-strict: CR and LF are skipped anywhere,
   non-zero trailing bits are accepted), as an executable specification. *)
From Coq Require Import ZArith List Bool Lia.
From JL.std Require Import GoBase.
Open Scope Z_scope.

Definition b64_char (n : Z) : Z :=
  if n <? 26 then 65 + n
  else if n <? 52 then 97 + (n - 26)
  else if n <? 62 then 48 + (n - 52)
  else if n =? 62 then 43 else 47.

Definition b64_val (c : Z) : option Z :=
  if (65 <=? c) && (c <=? 90) then Some (c - 65)
  else if (97 <=? c) && (c <=? 122) then Some (c - 97 + 26)
  else if (48 <=? c) && (c <=? 57) then Some (c - 48 + 52)
  else if c =? 43 then Some 62
  else if c =? 47 then Some 63
  else None.

Fixpoint base64_encode (s : str) : str :=
  match s with
  | [] => []
  | [a] => [b64_char (a / 4); b64_char (a mod 4 * 16); 61; 61]
  | [a; b] => [b64_char (a / 4); b64_char (a mod 4 * 16 + b / 16); b64_char (b mod 16 * 4); 61]
  | a :: b :: c :: r =>
      b64_char (a / 4) :: b64_char (a mod 4 * 16 + b / 16)
      :: b64_char (b mod 16 * 4 + c / 64) :: b64_char (c mod 64) :: base64_encode r
  end.

Fixpoint b64_quanta (s : str) : option str :=
  match s with
  | [] => Some []
  | [c0; c1; 61; 61] =>
      match b64_val c0, b64_val c1 with
      | Some a, Some b => Some [a * 4 + b / 16]
      | _, _ => None
      end
  | [c0; c1; c2; 61] =>
      match b64_val c0, b64_val c1, b64_val c2 with
      | Some a, Some b, Some c => Some [a * 4 + b / 16; b mod 16 * 16 + c / 4]
      | _, _, _ => None
      end
  | c0 :: c1 :: c2 :: c3 :: r =>
      match b64_val c0, b64_val c1, b64_val c2, b64_val c3 with
      | Some a, Some b, Some c, Some d =>
          match b64_quanta r with
          | Some t => Some ((a * 4 + b / 16) :: (b mod 16 * 16 + c / 4) :: (c mod 4 * 64 + d) :: t)
          | None => None
          end
      | _, _, _, _ => None
      end
  | _ => None
  end.

Definition base64_decode (s : str) : option str :=
  b64_quanta (filter (fun c => negb ((c =? 10) || (c =? 13))) s).
