(* Layer 0 — encoding/json's number validity check (isValidNumber), which is the JSON number
   grammar of RFC 8259, and the marshalling of a json.Number. *)
From Coq Require Import ZArith List Bool Lia.
From JL.std Require Import GoBase GoStrconv.
Import ListNotations.
Open Scope Z_scope.

Fixpoint skip_digits (s : str) : str :=
  match s with
  | c :: r => if is_digit c then skip_digits r else s
  | [] => []
  end.

(* after the integer part: optional fraction, optional exponent, end *)
Definition num_tail (s : str) : bool :=
  let s1 := match s with
            | c0 :: c :: r => if (c0 =? 46) && is_digit c then skip_digits r else s
            | _ => s
            end in
  let s2 := match s1 with
            | e :: r0 =>
                if ((e =? 101) || (e =? 69)) && (2 <=? Z.of_nat (length s1)) then
                  match r0 with
                  | sg :: r1 =>
                      if (sg =? 43) || (sg =? 45) then
                        match r1 with [] => [0] (* "e+" at the end: invalid *) | _ => skip_digits r1 end
                      else skip_digits r0
                  | [] => s1
                  end
                else s1
            | [] => []
            end in
  match s2 with [] => true | _ => false end.

Definition is_json_number (s : str) : bool :=
  let body := match s with c :: r => if c =? 45 then r else s | [] => s end in
  match body with
  | [] => false
  | c :: r =>
      if c =? 48 then num_tail r
      else if (49 <=? c) && (c <=? 57) then num_tail (skip_digits r)
      else false
  end.

(* json.Marshal(json.Number(s)): "" is written as 0, an invalid literal is an error *)
Definition marshal_number (s : str) : option str :=
  match s with
  | [] => Some [48]
  | _ => if is_json_number s then Some s else None
  end.
