(* Layer 0 — strconv: integer and boolean parsing/printing as executable specifications
   that follow the Go source (strconv/atoi.go, itoa.go, atob.go). Float formatting and
   parsing are oracles (see GoOracle.v). *)
From Coq Require Import ZArith List Bool Lia.
From JL.std Require Import GoBase.
Open Scope Z_scope.

(* ASCII helpers *)
Definition c_0 := 48. Definition c_9 := 57.
Definition c_plus := 43. Definition c_minus := 45. Definition c_us := 95.
Definition lower (c : Z) : Z := Z.lor c 32.

Definition is_digit (c : Z) : bool := (48 <=? c) && (c <=? 57).

(* ---------- printing ---------- *)

(* decimal digits of a non-negative number, most significant first; fuel bounds the number
   of digits (any fuel > number of digits gives the same answer) *)
Fixpoint dec_digits_fuel (fuel : nat) (n : Z) (acc : str) : str :=
  match fuel with
  | O => acc
  | S f => if n <? 10 then (48 + n) :: acc
           else dec_digits_fuel f (n / 10) ((48 + n mod 10) :: acc)
  end.

Definition dec_nat (n : Z) : str := dec_digits_fuel (S (Z.to_nat (Z.log2 n))) n [].

(* strconv.FormatInt(z, 10) / FormatUint / Itoa *)
Definition dec (z : Z) : str :=
  if z <? 0 then c_minus :: dec_nat (- z) else dec_nat z.

Definition FormatBool (b : bool) : str :=
  if b then [116; 114; 117; 101] else [102; 97; 108; 115; 101].

(* ---------- parsing ---------- *)

Definition digit_val (c : Z) : option Z :=
  if (48 <=? c) && (c <=? 57) then Some (c - 48)
  else if (97 <=? lower c) && (lower c <=? 122) then Some (lower c - 97 + 10)
  else None.

(* the digit loop of ParseUint: value in unbounded Z, [us] records that an underscore was skipped *)
Fixpoint digits_loop (base0 : bool) (base : Z) (s : str) (n : Z) (us : bool) : option (Z * bool) :=
  match s with
  | [] => Some (n, us)
  | c :: s' =>
      if (c =? c_us) && base0 then digits_loop base0 base s' n true
      else match digit_val c with
           | None => None
           | Some d => if base <=? d then None else digits_loop base0 base s' (n * base + d) us
           end
  end.

(* strconv.underscoreOK *)
Inductive saw := SawCaret | SawDigit | SawUs | SawBang.
Fixpoint underscore_loop (hex : bool) (s : str) (sw : saw) : bool :=
  match s with
  | [] => match sw with SawUs => false | _ => true end
  | c :: s' =>
      if is_digit c || (hex && (97 <=? lower c) && (lower c <=? 102)) then underscore_loop hex s' SawDigit
      else if c =? c_us then
             match sw with SawDigit => underscore_loop hex s' SawUs | _ => false end
           else match sw with SawUs => false | _ => underscore_loop hex s' SawBang end
  end.

Definition underscoreOK (s : str) : bool :=
  let s1 := match s with c :: r => if (c =? c_minus) || (c =? c_plus) then r else s | [] => s end in
  match s1 with
  | c0 :: c1 :: r =>
      if (c0 =? 48) && ((lower c1 =? 98) || (lower c1 =? 111) || (lower c1 =? 120))
      then underscore_loop (lower c1 =? 120) r SawDigit
      else underscore_loop false s1 SawCaret
  | _ => underscore_loop false s1 SawCaret
  end.

(* ParseUint(s, base, bitSize) for base = 0 or 2..36; None = any error (syntax or range) *)
Definition ParseUint (s : str) (base bitSize : Z) : option Z :=
  match s with
  | [] => None
  | c0 :: r0 =>
      let base0 := base =? 0 in
      let '(b, body) :=
        if base0 then
          if c0 =? 48 then
            match r0 with
            | c1 :: r1 =>
                if (3 <=? Z.of_nat (length s)) && (lower c1 =? 98) then (2, r1)
                else if (3 <=? Z.of_nat (length s)) && (lower c1 =? 111) then (8, r1)
                else if (3 <=? Z.of_nat (length s)) && (lower c1 =? 120) then (16, r1)
                else (8, r0)
            | [] => (8, r0)
            end
          else (10, s)
        else (base, s) in
      if negb base0 && ((b <? 2) || (36 <? b)) then None else
      let bits := if bitSize =? 0 then 64 else bitSize in
      if (bits <? 0) || (64 <? bits) then None else
      match digits_loop base0 b body 0 false with
      | None => None
      | Some (n, us) =>
          if (2 ^ bits - 1 <? n) then None
          else if us && negb (underscoreOK s) then None
          else Some n
      end
  end.

(* ParseInt(s, base, bitSize) *)
Definition ParseInt (s : str) (base bitSize : Z) : option Z :=
  match s with
  | [] => None
  | c0 :: r0 =>
      let '(neg, body) :=
        if c0 =? c_plus then (false, r0) else if c0 =? c_minus then (true, r0) else (false, s) in
      let bits := if bitSize =? 0 then 64 else bitSize in
      (* ParseUint(body, base, 64): a range error there also fails the cutoff test below *)
      match body with
      | [] => None
      | _ =>
        match ParseUint body base 64 with
        | None =>
            (* distinguish syntax from range: both are errors for the caller *)
            None
        | Some un =>
            let cutoff := 2 ^ (bits - 1) in
            if negb neg && (cutoff <=? un) then None
            else if neg && (cutoff <? un) then None
            else Some (if neg then - un else un)
        end
      end
  end.

Definition ParseBool (s : str) : option bool :=
  if str_eqb s [49] || str_eqb s [116] || str_eqb s [84]
     || str_eqb s [84;82;85;69] || str_eqb s [116;114;117;101] || str_eqb s [84;114;117;101] then Some true
  else if str_eqb s [48] || str_eqb s [102] || str_eqb s [70]
     || str_eqb s [70;65;76;83;69] || str_eqb s [102;97;108;115;101] || str_eqb s [70;97;108;115;101] then Some false
  else None.
