(* Layer 0 — the Decoder.Token model of GoJson.v with one extra switch: when [strict] is true a
   string literal on which encoding/json would SUBSTITUTE U+FFFD (ill-formed UTF-8 bytes, a
   \uXXXX surrogate escape that is not part of a high+low pair) is an error instead.
   With strict = false these functions are the ones of GoJson.v (lemmas g*_false in
   JL.proofs.JsonLex). The strict run is what the theorems about the RFC 8259 grammar are
   stated for: the grammar is defined over well-formed strings only, and

      no_substitution b  :=  "the lenient run accepts b only if the strict run does"

   is the exact hypothesis of the C16 equivalence. Definitions only, executable, axiom-free. *)
From Coq Require Import ZArith List Bool Lia.
From JL.std Require Import GoBase GoStrconv GoJsonNum GoJson.
Import ListNotations.
Open Scope Z_scope.

(* the decoding step at the head of a string body performs no U+FFFD substitution *)
Definition step_exact (s : str) : bool :=
  match s with
  | [] => true
  | c :: r =>
      if c =? 92 then
        match r with
        | e :: r1 =>
            if e =? 117 then
              match r1 with
              | a :: b :: c2 :: d :: r2 =>
                  match hex4 a b c2 d with
                  | Some rr =>
                      if is_surrogate rr then
                        match getu4 r2 with
                        | Some rr1 => is_high rr && is_low rr1
                        | None => false
                        end
                      else true
                  | None => true
                  end
              | _ => true
              end
            else true
        | [] => true
        end
      else if c <? 128 then true
      else match utf8_size s with O => false | _ => true end
  end.

Definition gstr_step (strict : bool) (s : str) : sstep :=
  if strict && negb (step_exact s) then SErr else str_step s.

Fixpoint gscan_str (strict : bool) (fuel : nat) (s : str) : option (str * str) :=
  match fuel with
  | O => None
  | S f =>
      match gstr_step strict s with
      | SEnd r => Some ([], r)
      | SEmit o r => match gscan_str strict f r with
                     | Some (x, r') => Some (o ++ x, r')
                     | None => None
                     end
      | SErr => None
      end
  end.

Definition gscan_scalar (strict : bool) (s : str) : option (tok * str) :=
  match s with
  | [] => None
  | c :: r =>
      if c =? 34 then
        match gscan_str strict (length r) r with
        | Some (x, r') => Some (TStr x, r')
        | None => None
        end
      else scan_scalar s
  end.

Definition gtoken_nosep (strict : bool) (st : tstate) (stk : list tstate) (s : str) : tres :=
  match s with
  | [] => REof
  | c :: r =>
      if c =? 91 then
        if value_allowed st then RTok (TDelim 91) ArrayStart (st :: stk) r else RErr
      else if c =? 93 then
        match st with
        | ArrayStart | ArrayComma =>
            match stk with
            | p :: stk' => RTok (TDelim 93) (value_end p) stk' r
            | [] => RErr
            end
        | _ => RErr
        end
      else if c =? 123 then
        if value_allowed st then RTok (TDelim 123) ObjectStart (st :: stk) r else RErr
      else if c =? 125 then
        match st with
        | ObjectStart | ObjectComma =>
            match stk with
            | p :: stk' => RTok (TDelim 125) (value_end p) stk' r
            | [] => RErr
            end
        | _ => RErr
        end
      else if (c =? 58) || (c =? 44) then RErr
      else if (c =? 34) && (match st with ObjectStart | ObjectKey => true | _ => false end) then
        match gscan_scalar strict s with
        | Some (t, r') => RTok t ObjectColon stk r'
        | None => RErr
        end
      else if value_allowed st then
        match gscan_scalar strict s with
        | Some (t, r') => RTok t (value_end st) stk r'
        | None => RErr
        end
      else RErr
  end.

Definition gtoken (strict : bool) (st : tstate) (stk : list tstate) (s : str) : tres :=
  match skip_ws s with
  | [] => REof
  | c :: r =>
      if c =? 58 then
        match st with
        | ObjectColon => gtoken_nosep strict ObjectValue stk (skip_ws r)
        | _ => RErr
        end
      else if c =? 44 then
        match st with
        | ArrayComma => gtoken_nosep strict ArrayValue stk (skip_ws r)
        | ObjectComma => gtoken_nosep strict ObjectKey stk (skip_ws r)
        | _ => RErr
        end
      else gtoken_nosep strict st stk (c :: r)
  end.

Fixpoint gtok_run (strict : bool) (fuel : nat) (st : tstate) (stk : list tstate) (s : str) : list tok * bool :=
  match fuel with
  | O => ([], false)
  | S f =>
      match gtoken strict st stk s with
      | RTok t st' stk' r => let (l, b) := gtok_run strict f st' stk' r in (t :: l, b)
      | REof => ([], true)
      | RErr => ([], false)
      end
  end.

Definition gtokenize (strict : bool) (s : str) : list tok * bool :=
  gtok_run strict (S (length s)) TopValue [] s.

Definition gparse_top (strict : bool) (s : str) : list (str * jv) * bool :=
  let (toks, eof) := gtokenize strict s in parse_tokens toks eof.

(* row.UnmarshalJSON restricted to lines on which the decoder substitutes nothing *)
Definition parse_top_strict (s : str) : list (str * jv) * bool := gparse_top true s.

(* the hypothesis of the C16 equivalence: if the line is accepted at all, it is accepted
   without any U+FFFD substitution inside its strings *)
Definition no_substitution (b : str) : Prop :=
  snd (parse_top b) = true -> snd (parse_top_strict b) = true.
