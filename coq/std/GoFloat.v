(* Layer 0 — IEEE floats as bit patterns, semantics through Flocq.
   A float64/float32 is carried as its 64/32-bit pattern (a Z), so that every NaN payload,
   both zeros and every subnormal is a distinct value, as "bit for bit" requires. *)
From Coq Require Import ZArith List Bool Lia.
From Flocq Require Import Core IEEE754.Binary IEEE754.Bits.
From Flocq Require IEEE754.BinarySingleNaN.
From JL.std Require Import GoBase.
Open Scope Z_scope.

Definition b64 (x : Z) : binary64 := b64_of_bits (x mod 2 ^ 64).
Definition b32 (x : Z) : binary32 := b32_of_bits (x mod 2 ^ 32).

Definition norm64 (m e : Z) (szero : bool) : binary64 :=
  Binary.binary_normalize 53 1024 eq_refl eq_refl BinarySingleNaN.mode_NE m e szero.
Definition norm32 (m e : Z) (szero : bool) : binary32 :=
  Binary.binary_normalize 24 128 eq_refl eq_refl BinarySingleNaN.mode_NE m e szero.

(* ---- comparisons (Go's <, >, <=, >=, ==, != on floats: any comparison with NaN is false, != is true) ---- *)
Definition f64_cmp (x y : Z) : option comparison := Bcompare 53 1024 (b64 x) (b64 y).
Definition f32_cmp (x y : Z) : option comparison := Bcompare 24 128 (b32 x) (b32 y).

Definition cmp_lt (c : option comparison) := match c with Some Lt => true | _ => false end.
Definition cmp_gt (c : option comparison) := match c with Some Gt => true | _ => false end.
Definition cmp_le (c : option comparison) := match c with Some Lt | Some Eq => true | _ => false end.
Definition cmp_ge (c : option comparison) := match c with Some Gt | Some Eq => true | _ => false end.
Definition cmp_eq (c : option comparison) := match c with Some Eq => true | _ => false end.
Definition cmp_ne (c : option comparison) := negb (cmp_eq c).

Definition f64_lt x y := cmp_lt (f64_cmp x y).
Definition f64_gt x y := cmp_gt (f64_cmp x y).
Definition f64_le x y := cmp_le (f64_cmp x y).
Definition f64_ge x y := cmp_ge (f64_cmp x y).
Definition f64_eq x y := cmp_eq (f64_cmp x y).
Definition f64_ne x y := cmp_ne (f64_cmp x y).
Definition f32_lt x y := cmp_lt (f32_cmp x y).
Definition f32_gt x y := cmp_gt (f32_cmp x y).
Definition f32_le x y := cmp_le (f32_cmp x y).
Definition f32_ge x y := cmp_ge (f32_cmp x y).
Definition f32_eq x y := cmp_eq (f32_cmp x y).
Definition f32_ne x y := cmp_ne (f32_cmp x y).

(* ---- integer -> float (round to nearest even), also the implicit conversion of an untyped
        integer constant to a float type in a comparison ---- *)
Definition f64_of_Z (z : Z) : Z := bits_of_b64 (norm64 z 0 false).
Definition f32_of_Z (z : Z) : Z := bits_of_b32 (norm32 z 0 false).

(* ---- float <-> float ---- *)
Definition f64_of_f32 (x : Z) : Z :=
  match b32 x with
  | B754_zero _ _ s => bits_of_b64 (B754_zero 53 1024 s)
  | B754_infinity _ _ s => bits_of_b64 (B754_infinity 53 1024 s)
  | B754_nan _ _ s pl _ =>        (* cvtss2sd: payload kept in the top bits, quiet bit set *)
      (if s then 2 ^ 63 else 0) + 2047 * 2 ^ 52 + Z.lor (Zpos pl * 2 ^ 29) (2 ^ 51)
  | B754_finite _ _ s m e _ => bits_of_b64 (norm64 (cond_Zopp s (Zpos m)) e s)
  end.

Definition f32_of_f64 (x : Z) : Z :=
  match b64 x with
  | B754_zero _ _ s => bits_of_b32 (B754_zero 24 128 s)
  | B754_infinity _ _ s => bits_of_b32 (B754_infinity 24 128 s)
  | B754_nan _ _ s pl _ =>        (* cvtsd2ss: top payload bits kept, quiet bit set *)
      (if s then 2 ^ 31 else 0) + 255 * 2 ^ 23 + Z.lor (Zpos pl / 2 ^ 29) (2 ^ 22)
  | B754_finite _ _ s m e _ => bits_of_b32 (norm32 (cond_Zopp s (Zpos m)) e s)
  end.

(* ---- classification and truncation ---- *)
Inductive fclass := FNaN | FInf (neg : bool) | FFin.

Definition f64_class (x : Z) : fclass :=
  match b64 x with
  | B754_nan _ _ _ _ _ => FNaN | B754_infinity _ _ s => FInf s | _ => FFin end.
Definition f32_class (x : Z) : fclass :=
  match b32 x with
  | B754_nan _ _ _ _ _ => FNaN | B754_infinity _ _ s => FInf s | _ => FFin end.

(* the integer part toward zero of a finite float (0 for the others; callers test the class) *)
Definition f64_trunc (x : Z) : Z := Btrunc 53 1024 (b64 x).
Definition f32_trunc (x : Z) : Z := Btrunc 24 128 (b32 x).

Definition f64_is_int (x : Z) : bool :=
  match f64_class x with FFin => f64_eq (f64_of_Z (f64_trunc x)) x | _ => false end.

(* a float operand of either size *)
Inductive fval := F64 (bits : Z) | F32 (bits : Z).
Definition fv_class (f : fval) := match f with F64 x => f64_class x | F32 x => f32_class x end.
Definition fv_trunc (f : fval) := match f with F64 x => f64_trunc x | F32 x => f32_trunc x end.

(* Go's T(f) for an integer type T: the truncated value when it is representable in T;
   otherwise the result is implementation-defined — an arbitrary function [oor] that no
   theorem may assume anything about. *)
Definition f2i (oor : ikind -> fval -> Z) (k : ikind) (f : fval) : Z :=
  match fv_class f with
  | FFin => let t := fv_trunc f in if in_rangeb k t then t else oor k f
  | _ => oor k f
  end.
