(* Layer 0 — the formal universe shared by every model file.
   Go strings / []byte are lists of bytes (bytes are Z in [0,256)), Go integers are Z
   with an explicit kind, floats are bit patterns (Z), outcomes are Ok/Err/Panic/Fuel. *)
From Coq Require Export ZArith List Bool Lia.
Export ListNotations.
Open Scope Z_scope.

Definition byte := Z.
Definition str := list byte.

Definition is_byte (b : Z) : Prop := 0 <= b < 256.
Definition bytes_ok (s : str) : Prop := Forall is_byte s.

Fixpoint str_eqb (a b : str) : bool :=
  match a, b with
  | [], [] => true
  | x :: a', y :: b' => (x =? y) && str_eqb a' b'
  | _, _ => false
  end.

Lemma str_eqb_eq a b : str_eqb a b = true <-> a = b.
Proof.
  revert b; induction a as [|x a IH]; intros [|y b]; simpl; split; intro H;
    try congruence; try discriminate.
  - apply andb_true_iff in H as [H1 H2]. apply Z.eqb_eq in H1. apply IH in H2. congruence.
  - inversion H; subst. rewrite Z.eqb_refl. simpl. apply IH. reflexivity.
Qed.

Lemma str_eqb_refl a : str_eqb a a = true.
Proof. apply str_eqb_eq; reflexivity. Qed.

(* ---------- integer kinds ---------- *)

Inductive ikind :=
| KInt | KInt64 | KInt32 | KInt16 | KInt8
| KUint | KUint64 | KUint32 | KUint16 | KUint8.

Definition ikind_eqb (a b : ikind) : bool :=
  match a, b with
  | KInt, KInt | KInt64, KInt64 | KInt32, KInt32 | KInt16, KInt16 | KInt8, KInt8
  | KUint, KUint | KUint64, KUint64 | KUint32, KUint32 | KUint16, KUint16 | KUint8, KUint8 => true
  | _, _ => false
  end.

Lemma ikind_eqb_eq a b : ikind_eqb a b = true <-> a = b.
Proof. destruct a, b; simpl; split; intro; try reflexivity; try discriminate. Qed.

(* size in bytes; int and uint are 64-bit (the translator checks the build's word size) *)
Definition isize (k : ikind) : Z :=
  match k with
  | KInt | KInt64 | KUint | KUint64 => 8
  | KInt32 | KUint32 => 4
  | KInt16 | KUint16 => 2
  | KInt8 | KUint8 => 1
  end.

Definition isigned (k : ikind) : bool :=
  match k with
  | KInt | KInt64 | KInt32 | KInt16 | KInt8 => true
  | _ => false
  end.

Definition ibits (k : ikind) : Z := 8 * isize k.

Definition imin (k : ikind) : Z := if isigned k then - 2 ^ (ibits k - 1) else 0.
Definition imax (k : ikind) : Z := if isigned k then 2 ^ (ibits k - 1) - 1 else 2 ^ (ibits k) - 1.

Definition in_range (k : ikind) (z : Z) : Prop := imin k <= z <= imax k.
Definition in_rangeb (k : ikind) (z : Z) : bool := (imin k <=? z) && (z <=? imax k).

Lemma in_rangeb_spec k z : in_rangeb k z = true <-> in_range k z.
Proof. unfold in_rangeb, in_range. rewrite andb_true_iff, !Z.leb_le. tauto. Qed.

(* Go's integer conversion T(x): reduce modulo 2^bits into the target's range *)
Definition conv_int (k : ikind) (z : Z) : Z :=
  let m := 2 ^ ibits k in
  let r := z mod m in
  if isigned k then (if r <? m / 2 then r else r - m) else r.

Lemma pow2_ibits_pos k : 0 < 2 ^ ibits k.
Proof. apply Z.pow_pos_nonneg; [lia | destruct k; cbv; discriminate]. Qed.

Lemma pow2_ibits_half k : 2 ^ ibits k = 2 * 2 ^ (ibits k - 1).
Proof. rewrite <- Z.pow_succ_r by (destruct k; cbv; discriminate). f_equal. lia. Qed.

Lemma conv_int_id k z : in_range k z -> conv_int k z = z.
Proof.
  unfold in_range, conv_int, imin, imax. intros H.
  pose proof (pow2_ibits_pos k) as Hp. pose proof (pow2_ibits_half k) as Hh.
  set (m := 2 ^ ibits k) in *. set (h := 2 ^ (ibits k - 1)) in *.
  assert (Hd : m / 2 = h) by (rewrite Hh, Z.mul_comm; apply Z.div_mul; lia).
  rewrite Hd. destruct (isigned k).
  - destruct (Z_lt_le_dec z 0) as [Hn|Hn].
    + assert (E : z mod m = z + m) by (symmetry; apply Z.mod_unique with (q := -1); lia).
      rewrite E. destruct (Z.ltb_spec (z + m) h); lia.
    + rewrite Z.mod_small by lia. destruct (Z.ltb_spec z h); lia.
  - apply Z.mod_small; lia.
Qed.

Lemma conv_int_range k z : in_range k (conv_int k z).
Proof.
  unfold in_range, conv_int, imin, imax.
  pose proof (pow2_ibits_pos k) as Hp. pose proof (pow2_ibits_half k) as Hh.
  set (m := 2 ^ ibits k) in *. set (h := 2 ^ (ibits k - 1)) in *.
  assert (Hd : m / 2 = h) by (rewrite Hh, Z.mul_comm; apply Z.div_mul; lia).
  rewrite Hd. pose proof (Z.mod_pos_bound z m Hp).
  destruct (isigned k); [destruct (Z.ltb_spec (z mod m) h)|]; lia.
Qed.

Lemma conv_int_mod k z : conv_int k z mod 2 ^ ibits k = z mod 2 ^ ibits k.
Proof.
  unfold conv_int. pose proof (pow2_ibits_pos k) as Hp.
  set (m := 2 ^ ibits k) in *.
  destruct (isigned k); [destruct (Z.ltb_spec (z mod m) (m / 2))|].
  - apply Z.mod_mod; lia.
  - replace (z mod m - m) with (z mod m + (-1) * m) by lia. rewrite Z.mod_add by lia. apply Z.mod_mod; lia.
  - apply Z.mod_mod; lia.
Qed.

(* ---------- outcomes ---------- *)

(* error sentinels of pkg/cast (the set is read from errors.go by the translator, which
   fails when it changes) and the error classes of pkg/jsonline *)
Inductive sentinel :=
| ErrUnableToCast
| ErrUnableToCastToInt | ErrUnableToCastToInt64 | ErrUnableToCastToInt32
| ErrUnableToCastToInt16 | ErrUnableToCastToInt8
| ErrUnableToCastToUint | ErrUnableToCastToUint64 | ErrUnableToCastToUint32
| ErrUnableToCastToUint16 | ErrUnableToCastToUint8
| ErrUnableToCastToFloat64 | ErrUnableToCastToFloat32
| ErrUnableToCastToBool | ErrUnableToCastToNumber | ErrUnableToCastToString
| ErrUnableToCastToBinary | ErrUnableToCastToTime | ErrUnableToCastToDate
(* pkg/jsonline *)
| ErrUnsupportedFormat | ErrUnsupportedImportType | ErrUnsupportedExportType | ErrPathNotFound
| ErrNoWrap.          (* an error value that wraps none of the packages' sentinels *)

Inductive res (A : Type) :=
| Ok (a : A)
| Err (e : sentinel)
| Panic            (* Go would panic here *)
| Fuel.            (* the model ran out of recursion fuel: proved unreachable *)
Arguments Ok {A} a.
Arguments Err {A} e.
Arguments Panic {A}.
Arguments Fuel {A}.

Definition bind {A B} (r : res A) (f : A -> res B) : res B :=
  match r with Ok a => f a | Err e => Err e | Panic => Panic | Fuel => Fuel end.

(* ---------- little-endian bytes ---------- *)

Fixpoint le_bytes (n : nat) (z : Z) : str :=
  match n with
  | O => []
  | S n' => (z mod 256) :: le_bytes n' (z / 256)
  end.

Fixpoint le_value (s : str) : Z :=
  match s with
  | [] => 0
  | b :: s' => b + 256 * le_value s'
  end.

Lemma le_bytes_length n z : length (le_bytes n z) = n.
Proof. revert z; induction n; simpl; intros; auto. Qed.

Lemma le_bytes_ok n z : bytes_ok (le_bytes n z).
Proof.
  revert z; induction n as [|n IH]; simpl; intros; constructor.
  - unfold is_byte. apply Z.mod_pos_bound. lia.
  - apply IH.
Qed.

Lemma le_value_bytes n z : 0 <= z < 256 ^ Z.of_nat n -> le_value (le_bytes n z) = z.
Proof.
  revert z; induction n as [|n IH]; intros z Hz.
  - simpl in *. lia.
  - cbn [le_bytes le_value]. rewrite IH.
    + pose proof (Z.div_mod z 256 ltac:(lia)). lia.
    + rewrite Nat2Z.inj_succ, Z.pow_succ_r in Hz by lia.
      split; [apply Z.div_pos; lia | apply Z.div_lt_upper_bound; lia].
Qed.

Lemma le_value_range s : bytes_ok s -> 0 <= le_value s < 256 ^ Z.of_nat (length s).
Proof.
  induction 1 as [|b s Hb _ IH]; cbn [le_value length].
  - simpl. lia.
  - rewrite Nat2Z.inj_succ, Z.pow_succ_r by lia. unfold is_byte in Hb. lia.
Qed.

Lemma le_bytes_value s : bytes_ok s -> le_bytes (length s) (le_value s) = s.
Proof.
  induction 1 as [|b s Hb Hs IH]; cbn [le_value length le_bytes]; [reflexivity|].
  unfold is_byte in Hb.
  assert (Hm : (b + 256 * le_value s) mod 256 = b)
    by (symmetry; apply Z.mod_unique with (q := le_value s); lia).
  assert (Hq : (b + 256 * le_value s) / 256 = le_value s)
    by (symmetry; apply Z.div_unique with (r := b); lia).
  rewrite Hm, Hq, IH. reflexivity.
Qed.

(* encoding/binary.LittleEndian.PutUintN(b, v): panics when len(b) < N *)
Definition put_le (n : nat) (b : str) (v : Z) : option str :=
  if (Z.of_nat (length b) <? Z.of_nat n) then None
  else Some (le_bytes n v ++ skipn n b).

(* encoding/binary.LittleEndian.UintN(b): panics when len(b) < N *)
Definition get_le (n : nat) (b : str) : option Z :=
  if (Z.of_nat (length b) <? Z.of_nat n) then None
  else Some (le_value (firstn n b)).

(* make([]byte, n) *)
Definition make_bytes (n : Z) : str := repeat 0 (Z.to_nat n).

Definition set_at (b : str) (i : Z) (v : Z) : option str :=
  if (i <? 0) || (Z.of_nat (length b) <=? i) then None
  else Some (firstn (Z.to_nat i) b ++ v :: skipn (S (Z.to_nat i)) b).

Definition get_at (b : str) (i : Z) : option Z :=
  if (i <? 0) then None else nth_error b (Z.to_nat i).

(* a Go []byte: nil-ness is observable (json.Marshal prints null), content is a str *)
Record gbytes := { bnil : bool; bdata : str }.
Definition mkbytes (s : str) : gbytes := {| bnil := false; bdata := s |}.
Definition blen (b : gbytes) : Z := Z.of_nat (length (bdata b)).
