(* Layer 0 — executable specification of bufio.Scanner with bufio.ScanLines and
   Scanner.Buffer(buf, max), as used by pkg/jsonline/importer.go:61-64.

   Source modelled: $GOROOT/src/bufio/scan.go (go1.23): Scan (l.139-254), advance, setErr,
   Buffer, ScanLines, dropCR.

   THE READER.  A reader is described by (byte stream d, optional fault offset k): it delivers
   the bytes of d in order, in pieces of any positive size; once k bytes have been delivered it
   returns (0, non-EOF error) — also when k = length d, i.e. instead of EOF; at the end of d it
   returns (0, io.EOF).  Data and error are never returned by the same Read call (this is how
   bytes.Reader, strings.Reader, os.File and the harness readers behave; a reader that returns
   (n > 0, io.EOF) differs in exactly one situation, a final unterminated line of exactly C bytes,
   see [scan] below).

   TWO MODELS.
   (1) [scan] — the CHUNK-FREE specification of one Scan() call: it looks at the unconsumed
       stream as a whole.  This is what the importer model (JL.model.Stream) is instantiated with.
   (2) [cscan] — an operational model of the same call over a reader that returns data in
       chunks (list of chunk sizes, one per Read call), with the scanner's buffer.  Chunk-size
       independence is a THEOREM (JL.proofs.StreamProofs.cscan_refines_scan / C07_chunking):
       for every chunking the sequence of Scan() results of (2) is that of (1).  The harness
       additionally validates (1) and (2) against the real bufio.Scanner under random chunkings.

   CAPACITY.  The buffer starts with len = cap(buf) = `initial`, doubles when full, capped at
   `max`; when it is full and len(buf) >= max, Scan fails with ErrTooLong.  The largest buffer
   ever used therefore has C = Z.max initial max bytes ([sc_cap]); a line is delivered iff the
   line INCLUDING its LF terminator fits in C bytes, i.e. iff its raw length (CR included, LF
   excluded) is < C; a final unterminated line is delivered iff its length is < C (with exactly C
   bytes the buffer is full before the reader had a chance to report EOF: ErrTooLong).
   The intermediate buffer sizes and the start/end indices are not observable through
   Scan/Bytes/Err and are not modelled: the model keeps the bytes buf[start:end]. *)
From Coq Require Import ZArith List Bool Lia.
From JL.std Require Import GoBase.
Import ListNotations.
Open Scope Z_scope.

(* Scanner.err once set: io.EOF, bufio.ErrTooLong, or the reader's own (non-EOF) error *)
Inductive serr := SEof | STooLong | SRead.

Definition serr_eqb (a b : serr) : bool :=
  match a, b with SEof, SEof | STooLong, STooLong | SRead, SRead => true | _, _ => false end.

(* Scanner.Err(): "if s.err == io.EOF { return nil }"  (scan.go:97-103) *)
Definition err_public (e : serr) : option serr :=
  match e with SEof => None | x => Some x end.

(* Scanner.Buffer(make([]byte, 0, initial), max): largest buffer the scanner will ever hold *)
Definition sc_cap (initial max : Z) : Z := Z.max initial max.

(* dropCR (scan.go:337-342): one trailing CR is dropped *)
Fixpoint drop_cr (l : str) : str :=
  match l with
  | [] => []
  | b :: l' => match l' with
               | [] => if b =? 13 then [] else [b]
               | _ => b :: drop_cr l'
               end
  end.

(* ---------------------------------------------------------------------------------- *)
(* (1) chunk-free specification                                                         *)

Definition kdec (k : option Z) : option Z := option_map (fun x => x - 1) k.
Definition k_hit (k : option Z) : bool := match k with Some x => x <=? 0 | None => false end.

Inductive span_res :=
| SpLine (l : str) (rest : str) (k : option Z)   (* a LF was found: l = bytes before it *)
| SpFull (w : str)                               (* `room` bytes without LF: the buffer is full *)
| SpEnd (w : str) (e : serr).                    (* the reader ended (EOF / fault) after w, no LF in w *)

(* Walk over the unconsumed stream d: at most `room` bytes fit in the buffer, the reader fails
   once k more bytes have been delivered.  The three checks are ordered as the real loop meets
   them: buffer full (ErrTooLong, scan.go:199-206) is detected BEFORE the next Read, so it wins
   over a fault or EOF at the same offset. *)
Fixpoint span (d : str) (room : Z) (k : option Z) : span_res :=
  if room <=? 0 then SpFull []
  else if k_hit k then SpEnd [] SRead
  else match d with
       | [] => SpEnd [] SEof
       | b :: d' =>
           if b =? 10 then SpLine [] d' (kdec k)
           else match span d' (room - 1) (kdec k) with
                | SpLine l r k' => SpLine (b :: l) r k'
                | SpFull w => SpFull (b :: w)
                | SpEnd w e => SpEnd (b :: w) e
                end
       end.

(* first LF of a byte string: bytes.IndexByte(data, '\n') *)
Fixpoint cut_lf (b : str) : option (str * str) :=
  match b with
  | [] => None
  | x :: b' => if x =? 10 then Some ([], b')
               else match cut_lf b' with Some (l, r) => Some (x :: l, r) | None => None end
  end.

(* ScanLines(data, atEOF) (scan.go:350-364): Some (token, rest) or None = "request more data" *)
Definition scan_lines (data : str) (atEOF : bool) : option (str * str) :=
  match data with
  | [] => None
  | _ => match cut_lf data with
         | Some (l, r) => Some (drop_cr l, r)
         | None => if atEOF then Some (drop_cr data, []) else None
         end
  end.

Inductive sstate :=
| Run (d : str) (k : option Z)     (* s.err == nil; d = every byte not yet consumed by a token
                                      (buffered or still in the reader); the reader fails after
                                      k more bytes of d (None: never, it ends with EOF) *)
| Stopped (b : str) (e : serr).    (* s.err = e; b = buf[start:end] *)

(* One call of Scanner.Scan(): Some token = true with Bytes() = token; None = false. *)
Definition scan (C : Z) (st : sstate) : option str * sstate :=
  match st with
  | Run d k =>
      match span d C k with
      | SpLine l rest k' => (Some (drop_cr l), Run rest k')
      | SpFull w => (None, Stopped w STooLong)
      | SpEnd w e =>
          (* s.err := e, then split(buf[start:end], atEOF = true) (scan.go:152-183) *)
          match w with
          | [] => (None, Stopped [] e)
          | _ => (Some (drop_cr w), Stopped [] e)
          end
      end
  | Stopped b e =>
      (* Scan() called again after it returned false (importer.Import does that): s.err != nil,
         so split runs with atEOF = true on what is left in the buffer.  After ErrTooLong the
         buffer still holds the C bytes of the over-long line: they come out as ONE MORE TOKEN. *)
      match scan_lines b true with
      | Some (tok, rest) => (Some tok, Stopped rest e)
      | None => (None, Stopped [] e)
      end
  end.

(* Scanner.Err() *)
Definition sc_err (st : sstate) : option serr :=
  match st with Run _ _ => None | Stopped _ e => err_public e end.

Definition sc_init (s : str) (k : option Z) : sstate := Run s k.

(* a bound on the number of further Scan() calls that can return true *)
Definition sc_measure (st : sstate) : nat :=
  match st with Run d _ => length d + 2 | Stopped b _ => length b end.

(* ---------------------------------------------------------------------------------- *)
(* (2) operational model over a chunking reader                                          *)

Record cstate := mkcs {
  c_buf : str;            (* buf[start:end] *)
  c_rd : str;             (* bytes the reader has not delivered yet *)
  c_k : option Z;         (* the reader fails after c_k more bytes *)
  c_chunks : list Z;      (* sizes the reader would like to return, one per Read call (a size < 1
                             counts as 1; when the list is exhausted the reader returns all it can) *)
  c_err : option serr;    (* s.err *)
  c_stuck : bool          (* model fuel exhausted: proved unreachable *)
}.

Fixpoint takeZ (n : Z) (l : str) : str :=
  match l with [] => [] | x :: l' => if n <=? 0 then [] else x :: takeZ (n - 1) l' end.
Fixpoint dropZ (n : Z) (l : str) : str :=
  match l with [] => [] | x :: l' => if n <=? 0 then l else dropZ (n - 1) l' end.
Definition lenZ (l : str) : Z := Z.of_nat (length l).

(* number of bytes the next Read call returns: at least 1, at most the chunk size, the room in
   the buffer, what is left, and what is left before the fault *)
Definition read_size (room : Z) (st : cstate) : Z :=
  let want := match c_chunks st with c :: _ => Z.max 1 c | [] => room end in
  let lim := match c_k st with Some k => Z.min k (lenZ (c_rd st)) | None => lenZ (c_rd st) end in
  Z.max 1 (Z.min (Z.min want room) lim).

(* the loop of Scan() (scan.go:146-253) *)
Fixpoint cscan_loop (fuel : nat) (C : Z) (st : cstate) : option str * cstate :=
  match fuel with
  | O => (None, mkcs (c_buf st) (c_rd st) (c_k st) (c_chunks st) (c_err st) true)
  | S fuel' =>
      let atEOF := match c_err st with Some _ => true | None => false end in
      match scan_lines (c_buf st) atEOF with
      | Some (tok, rest) =>
          (Some tok, mkcs rest (c_rd st) (c_k st) (c_chunks st) (c_err st) (c_stuck st))
      | None =>
          if atEOF then
            (* "Shut it down": start = end = 0 *)
            (None, mkcs [] (c_rd st) (c_k st) (c_chunks st) (c_err st) (c_stuck st))
          else if C <=? lenZ (c_buf st) then
            (* buffer full and len(buf) >= maxTokenSize *)
            (None, mkcs (c_buf st) (c_rd st) (c_k st) (c_chunks st) (Some STooLong) (c_stuck st))
          else if k_hit (c_k st) then
            cscan_loop fuel' C (mkcs (c_buf st) (c_rd st) (c_k st) (tl (c_chunks st)) (Some SRead) (c_stuck st))
          else match c_rd st with
               | [] => cscan_loop fuel' C (mkcs (c_buf st) [] (c_k st) (tl (c_chunks st)) (Some SEof) (c_stuck st))
               | _ =>
                   let n := read_size (C - lenZ (c_buf st)) st in
                   cscan_loop fuel' C
                     (mkcs (c_buf st ++ takeZ n (c_rd st)) (dropZ n (c_rd st))
                           (option_map (fun k => k - n) (c_k st)) (tl (c_chunks st)) None (c_stuck st))
               end
      end
  end.

Definition cscan (C : Z) (st : cstate) : option str * cstate :=
  cscan_loop (length (c_rd st) + 3) C st.

Definition c_public_err (st : cstate) : option serr :=
  match c_err st with Some e => err_public e | None => None end.

Definition c_init (s : str) (k : option Z) (chunks : list Z) : cstate :=
  mkcs [] s k chunks None false.

(* the whole run of a scanner on which Scan() is called n times: (Scan result, Err() after it) *)
Fixpoint scan_n (n : nat) (C : Z) (st : sstate) : list (option str * option serr) :=
  match n with
  | O => []
  | S n' => let '(t, st') := scan C st in (t, sc_err st') :: scan_n n' C st'
  end.

Fixpoint cscan_n (n : nat) (C : Z) (st : cstate) : list (option str * option serr) :=
  match n with
  | O => []
  | S n' => let '(t, st') := cscan C st in (t, c_public_err st') :: cscan_n n' C st'
  end.

(* ---------------------------------------------------------------------------------- *)
(* the lines of a byte stream (vocabulary of the theorems)                              *)

(* s = l1 ++ [LF] ++ l2 ++ [LF] ++ … ++ ln ++ [LF] ++ tail, no LF inside the li and tail *)
Fixpoint split_lf (s : str) : list str * str :=
  match s with
  | [] => ([], [])
  | b :: s' =>
      let '(L, t) := split_lf s' in
      if b =? 10 then ([] :: L, t)
      else match L with
           | [] => ([], b :: t)
           | l :: L' => ((b :: l) :: L', t)
           end
  end.

Fixpoint join_lf (L : list str) (t : str) : str :=
  match L with
  | [] => t
  | l :: L' => l ++ 10 :: join_lf L' t
  end.

(* the raw lines (CR still there, LF removed); a final unterminated line counts when non-empty *)
Definition raw_lines (s : str) : list str :=
  let '(L, t) := split_lf s in L ++ match t with [] => [] | _ => [t] end.

(* what bufio.ScanLines delivers *)
Definition lines (s : str) : list str := map drop_cr (raw_lines s).

Definition no_lf (l : str) : Prop := ~ In 10 l.
