(* The named hypotheses about oracle functions (strconv float text, time.Local). They are
   premises of the theorems that use them, never axioms; each is tested against the real
   standard library on every run by the harness. *)
From Coq Require Import ZArith List Bool Lia.
From JL.std Require Import GoBase GoFloat GoStrconv GoTime GoVal GoJsonNum.
Import ListNotations.
Open Scope Z_scope.

Definition no_exponent (s : str) : bool := forallb (fun c => negb ((c =? 101) || (c =? 69))) s.
Definition plain_decimal (s : str) : bool := is_json_number s && no_exponent s.

(* H-float-rt: strconv's documented round trip — formatting with 'f', precision -1 and the
   value's bit size, then parsing at that bit size, returns the value (sign of zero included) *)
Definition H_float_rt (O : oracles) : Prop :=
  (forall x, 0 <= x < 2 ^ 64 -> f64_class x = FFin ->
     ParseFloat O (FormatFloat O x 102 (-1) 64) 64 = Some x)
  /\ (forall x, 0 <= x < 2 ^ 32 -> f32_class x = FFin ->
     ParseFloat O (FormatFloat O (f64_of_f32 x) 102 (-1) 32) 32 = Some (f64_of_f32 x)).

(* H-float-syn: that text is a plain decimal literal -?digits(.digits)? *)
Definition H_float_syn (O : oracles) : Prop :=
  (forall x, f64_class x = FFin -> plain_decimal (FormatFloat O x 102 (-1) 64) = true)
  /\ (forall x, f32_class x = FFin -> plain_decimal (FormatFloat O (f64_of_f32 x) 102 (-1) 32) = true).

(* H-float-nonfinite: NaN and infinities print as NaN, +Inf, -Inf *)
Definition nonfinite_text (s : str) : Prop :=
  s = [78; 97; 78] \/ s = [43; 73; 110; 102] \/ s = [45; 73; 110; 102].
Definition H_float_nonfinite (O : oracles) : Prop :=
  (forall x, f64_class x <> FFin -> nonfinite_text (FormatFloat O x 102 (-1) 64))
  /\ (forall x, f32_class x <> FFin -> nonfinite_text (FormatFloat O (f64_of_f32 x) 102 (-1) 32)).

(* a model-level fact about the two float conversions of GoFloat (widening then narrowing a
   finite float32 is the identity); kept as a named premise until proved from Flocq *)
Definition H_f32_embed : Prop :=
  forall x, 0 <= x < 2 ^ 32 -> f32_class x = FFin -> f32_of_f64 (f64_of_f32 x) = x.

(* H-zone: the local offset is a whole number of minutes, less than a day *)
Definition H_zone (O : oracles) : Prop :=
  forall s, - 86400 < o_local_off O s < 86400 /\ o_local_off O s mod 60 = 0.
