(* Named hypotheses used by the float / bool instances of the lossless table (C13, C05) in
   addition to those of GoHyps.v. They are premises of the theorems that use them, never axioms.
     H_parse_bool_digits : strconv.ParseFloat reads the texts "0" and "1" (what ToNumber writes for a
                           bool) as +0.0 and 1.0
     H_jfloat_rt         : the text json.Marshal writes for a finite float (the oracle [jfloat] of
                           the template model: verb 'f', or 'e' for exponents < -6 or >= 21, bit size
                           of the value) is a JSON number that strconv.ParseFloat reads back, at the
                           same bit size, as the value *)
From Coq Require Import ZArith List Bool.
From JL.std Require Import GoBase GoFloat GoStrconv GoTime GoVal GoJsonNum GoJson.
Import ListNotations.
Open Scope Z_scope.

Definition H_parse_bool_digits (O : oracles) : Prop :=
  ParseFloat O [48] 64 = Some 0                                (* "0" -> +0.0 *)
  /\ ParseFloat O [49] 64 = Some 4607182418800017408.          (* "1" -> 1.0 = 0x3FF0000000000000 *)

Definition H_jfloat_rt (O : oracles) (jfloat : bool -> Z -> option str) : Prop :=
  (forall x, 0 <= x < 2 ^ 64 -> f64_class x = FFin ->
     exists t, jfloat false x = Some t /\ jnumber t /\ ParseFloat O t 64 = Some x)
  /\ (forall x, 0 <= x < 2 ^ 32 -> f32_class x = FFin ->
     exists t, jfloat true x = Some t /\ jnumber t /\ ParseFloat O t 32 = Some (f64_of_f32 x)).
