(* Layer 0 — encoding/json as pkg/jsonline uses it (go1.23.5), definitions only.

   Part A  model of what the code does
     - unicode/utf8.DecodeRune / EncodeRune                         (utf8_size, utf8_encode)
     - decode.go unquoteBytes + scanner.go string states            (str_step, scan_str)
     - scanner.go number states                                     (scan_number)
     - stream.go Decoder.Token / peek / tokenState machine          (token, tokenize)
     - row.go UnmarshalJSON / parseobject / parsearray / handledelim (p_value, p_object, p_array, parse_top)
     - encode.go appendString (escapeHTML = true)                    (enc_step, encode_string)
     - json.Marshal of the value tree a parsed row holds             (write_jv)
   Part B  an independent reference
     - byte-level RFC 8259 grammar as an inductive relation          (spells)
     - a recursive-descent recogniser written without Part A         (is_json_value, is_json_object)

   Everything is executable and axiom-free. Bytes are Z in 0..255 (GoBase.str). *)
From Coq Require Import ZArith List Bool Lia.
From JL.std Require Import GoBase GoStrconv GoJsonNum.
Import ListNotations.
Open Scope Z_scope.

Inductive jv :=
| JNull
| JBool (b : bool)
| JNum (lit : str)                 (* json.Number: the literal text, verbatim (UseNumber) *)
| JStr (s : str)                   (* decoded bytes *)
| JArr (l : list jv)
| JObj (m : list (str * jv)).      (* members in order, duplicates kept *)

Inductive tok :=
| TDelim (c : Z) | TStr (s : str) | TNum (lit : str) | TBool (b : bool) | TNull.

Definition in_rng (lo hi b : Z) : bool := (lo <=? b) && (b <=? hi).

(* ================================================================================== *)
(* Part A.1  UTF-8                                                                     *)
(* ================================================================================== *)

Definition is_cont (b : Z) : bool := in_rng 128 191 b.

(* unicode/utf8.DecodeRune(p): the size of the well-formed sequence at the head of p, or 0 when
   DecodeRune returns (RuneError, 1) (or p is empty). Tables `first` and `acceptRanges`:
   00-7F as | 80-C1 xx | C2-DF s1 | E0 s2 (A0-BF) | E1-EC s3 | ED s4 (80-9F) | EE-EF s3 |
   F0 s5 (90-BF) | F1-F3 s6 | F4 s7 (80-8F) | F5-FF xx. *)
Definition utf8_size (s : str) : nat :=
  match s with
  | [] => 0%nat
  | b0 :: r =>
      if b0 <? 128 then 1%nat
      else if b0 <? 194 then 0%nat
      else if b0 <? 224 then
        match r with
        | b1 :: _ => if is_cont b1 then 2%nat else 0%nat
        | _ => 0%nat
        end
      else if b0 <? 240 then
        match r with
        | b1 :: b2 :: _ =>
            if in_rng (if b0 =? 224 then 160 else 128) (if b0 =? 237 then 159 else 191) b1 && is_cont b2
            then 3%nat else 0%nat
        | _ => 0%nat
        end
      else if b0 <? 245 then
        match r with
        | b1 :: b2 :: b3 :: _ =>
            if in_rng (if b0 =? 240 then 144 else 128) (if b0 =? 244 then 143 else 191) b1
               && is_cont b2 && is_cont b3
            then 4%nat else 0%nat
        | _ => 0%nat
        end
      else 0%nat
  end.

(* the UTF-8 form of a code point (utf8.EncodeRune on a valid rune) *)
Definition utf8_encode (c : Z) : str :=
  if c <? 128 then [c]
  else if c <? 2048 then [192 + c / 64; 128 + c mod 64]
  else if c <? 65536 then [224 + c / 4096; 128 + (c / 64) mod 64; 128 + c mod 64]
  else [240 + c / 262144; 128 + (c / 4096) mod 64; 128 + (c / 64) mod 64; 128 + c mod 64].

Definition is_surrogate (c : Z) : bool := in_rng 55296 57343 c.
Definition is_high (c : Z) : bool := in_rng 55296 56319 c.
Definition is_low (c : Z) : bool := in_rng 56320 57343 c.
Definition combine_surr (hi lo : Z) : Z := 65536 + (hi - 55296) * 1024 + (lo - 56320).
Definition rune_error : str := [239; 191; 189].      (* U+FFFD *)

(* a whole string is well-formed UTF-8 *)
Fixpoint utf8_valid_fuel (fuel : nat) (s : str) : bool :=
  match fuel with
  | O => match s with [] => true | _ => false end
  | S f =>
      match s with
      | [] => true
      | _ => match utf8_size s with
             | O => false
             | n => utf8_valid_fuel f (skipn n s)
             end
      end
  end.
Definition utf8_valid (s : str) : bool := utf8_valid_fuel (length s) s.

(* ================================================================================== *)
(* Part A.2  string literals: scanner.go stateInString* + decode.go unquoteBytes       *)
(* ================================================================================== *)

Definition hexval (c : Z) : option Z :=
  if in_rng 48 57 c then Some (c - 48)
  else if in_rng 97 102 c then Some (c - 87)
  else if in_rng 65 70 c then Some (c - 55)
  else None.

Definition hex4 (a b c d : Z) : option Z :=
  match hexval a, hexval b, hexval c, hexval d with
  | Some x, Some y, Some z, Some w => Some (((x * 16 + y) * 16 + z) * 16 + w)
  | _, _, _, _ => None
  end.

(* decode.go getu4 *)
Definition getu4 (s : str) : option Z :=
  match s with
  | bs :: u :: a :: b :: c :: d :: _ => if (bs =? 92) && (u =? 117) then hex4 a b c d else None
  | _ => None
  end.

(* the one-character escapes: scanner accepts b f n r t backslash slash quote (and u) *)
Definition short_esc (e : Z) : option Z :=
  if e =? 34 then Some 34 else if e =? 92 then Some 92 else if e =? 47 then Some 47
  else if e =? 98 then Some 8 else if e =? 102 then Some 12 else if e =? 110 then Some 10
  else if e =? 114 then Some 13 else if e =? 116 then Some 9 else None.

Inductive sstep :=
| SEnd (rest : str)                 (* closing quote consumed *)
| SEmit (out : str) (rest : str)    (* one unit decoded *)
| SErr.                             (* scanner error or unexpected EOF *)

(* one unit of a string body (the bytes after the opening quote) *)
Definition str_step (s : str) : sstep :=
  match s with
  | [] => SErr
  | c :: r =>
      if c =? 34 then SEnd r
      else if c =? 92 then
        match r with
        | [] => SErr
        | e :: r1 =>
            if e =? 117 then
              match r1 with
              | a :: b :: c2 :: d :: r2 =>
                  match hex4 a b c2 d with
                  | None => SErr
                  | Some rr =>
                      if is_surrogate rr then
                        (* utf16.DecodeRune(rr, getu4(rest)): a pair only for high then low *)
                        match getu4 r2 with
                        | Some rr1 =>
                            if is_high rr && is_low rr1
                            then SEmit (utf8_encode (combine_surr rr rr1)) (skipn 6 r2)
                            else SEmit rune_error r2
                        | None => SEmit rune_error r2
                        end
                      else SEmit (utf8_encode rr) r2
                  end
              | _ => SErr
              end
            else match short_esc e with
                 | Some d => SEmit [d] r1
                 | None => SErr
                 end
        end
      else if c <? 32 then SErr
      else if c <? 128 then SEmit [c] r
      else match utf8_size s with
           | O => SEmit rune_error r             (* invalid UTF-8: one byte -> U+FFFD *)
           | n => SEmit (firstn n s) (skipn n s)
           end
  end.

(* body after the opening quote -> (decoded bytes, rest after the closing quote) *)
Fixpoint scan_str (fuel : nat) (s : str) : option (str * str) :=
  match fuel with
  | O => None
  | S f =>
      match str_step s with
      | SEnd r => Some ([], r)
      | SEmit o r => match scan_str f r with
                     | Some (x, r') => Some (o ++ x, r')
                     | None => None
                     end
      | SErr => None
      end
  end.

(* decoding a complete literal (with its quotes) *)
Definition decode_string (lit : str) : option str :=
  match lit with
  | q :: r => if q =? 34 then
                match scan_str (length r) r with
                | Some (x, []) => Some x
                | _ => None
                end
              else None
  | [] => None
  end.

(* ================================================================================== *)
(* Part A.3  numbers: scanner.go stateNeg state0 state1 stateDot stateDot0 stateE ...   *)
(* ================================================================================== *)

Fixpoint span_digits (s : str) : str * str :=
  match s with
  | c :: r => if is_digit c then let (a, b) := span_digits r in (c :: a, b) else ([], s)
  | [] => ([], [])
  end.

(* (literal, rest); None = scanner error or unexpected EOF inside the literal *)
Definition scan_number (s : str) : option (str * str) :=
  let (sg, s0) := match s with
                  | c :: r => if c =? 45 then ([45], r) else ([], s)
                  | [] => ([], s)
                  end in
  match s0 with
  | [] => None
  | c :: r =>
      let ipart := if c =? 48 then Some ([48], r)
                   else if in_rng 49 57 c then let (ds, r') := span_digits r in Some (c :: ds, r')
                   else None in
      match ipart with
      | None => None
      | Some (ip, s1) =>
          let frac := match s1 with
                      | d :: r1 =>
                          if d =? 46 then
                            match span_digits r1 with
                            | ([], _) => None
                            | (ds, r2) => Some (46 :: ds, r2)
                            end
                          else Some ([], s1)
                      | [] => Some ([], s1)
                      end in
          match frac with
          | None => None
          | Some (fp, s2) =>
              let ex := match s2 with
                        | e :: r2 =>
                            if (e =? 101) || (e =? 69) then
                              let (sgn, r3) := match r2 with
                                               | x :: r3 => if (x =? 43) || (x =? 45) then ([x], r3) else ([], r2)
                                               | [] => ([], r2)
                                               end in
                              match span_digits r3 with
                              | ([], _) => None
                              | (ds, r4) => Some (e :: sgn ++ ds, r4)
                              end
                            else Some ([], s2)
                        | [] => Some ([], s2)
                        end in
              match ex with
              | None => None
              | Some (ep, s3) => Some (sg ++ ip ++ fp ++ ep, s3)
              end
          end
      end
  end.

(* ================================================================================== *)
(* Part A.4  Decoder.Token                                                             *)
(* ================================================================================== *)

Definition is_ws (c : Z) : bool := (c =? 32) || (c =? 9) || (c =? 13) || (c =? 10).   (* scanner.go isSpace *)

Fixpoint skip_ws (s : str) : str :=
  match s with
  | c :: r => if is_ws c then skip_ws r else s
  | [] => []
  end.

(* what Decode(&x) reads when Token sends it a scalar: exactly one string, number or literal.
   readValue stops at the byte after the value (stateEndTop returns scanEnd for any byte,
   space or not), so nothing after the value is looked at here. With UseNumber a number
   becomes json.Number(text) and cannot fail to convert. *)
Definition scan_scalar (s : str) : option (tok * str) :=
  match s with
  | [] => None
  | c :: r =>
      if c =? 34 then
        match scan_str (length r) r with
        | Some (x, r') => Some (TStr x, r')
        | None => None
        end
      else if c =? 116 then
        match r with
        | a :: b :: c2 :: r' => if (a =? 114) && (b =? 117) && (c2 =? 101) then Some (TBool true, r') else None
        | _ => None
        end
      else if c =? 102 then
        match r with
        | a :: b :: c2 :: d :: r' =>
            if (a =? 97) && (b =? 108) && (c2 =? 115) && (d =? 101) then Some (TBool false, r') else None
        | _ => None
        end
      else if c =? 110 then
        match r with
        | a :: b :: c2 :: r' => if (a =? 117) && (b =? 108) && (c2 =? 108) then Some (TNull, r') else None
        | _ => None
        end
      else if (c =? 45) || is_digit c then
        match scan_number s with
        | Some (lit, r') => Some (TNum lit, r')
        | None => None
        end
      else None
  end.

Inductive tstate :=
| TopValue | ArrayStart | ArrayValue | ArrayComma
| ObjectStart | ObjectKey | ObjectColon | ObjectValue | ObjectComma.

Definition value_allowed (st : tstate) : bool :=
  match st with TopValue | ArrayStart | ArrayValue | ObjectValue => true | _ => false end.

Definition value_end (st : tstate) : tstate :=
  match st with
  | ArrayStart | ArrayValue => ArrayComma
  | ObjectValue => ObjectComma
  | s => s
  end.

Inductive tres :=
| RTok (t : tok) (st : tstate) (stk : list tstate) (rest : str)
| REof        (* peek hit the end of the data: Token returns io.EOF, whatever the state *)
| RErr.       (* SyntaxError / io.ErrUnexpectedEOF *)

(* Token once the separators have been dealt with; s starts at a non-space byte *)
Definition token_nosep (st : tstate) (stk : list tstate) (s : str) : tres :=
  match s with
  | [] => REof
  | c :: r =>
      if c =? 91 then
        if value_allowed st then RTok (TDelim 91) ArrayStart (st :: stk) r else RErr
      else if c =? 93 then
        match st with
        | ArrayStart | ArrayComma =>
            match stk with
            | p :: stk' => RTok (TDelim 93) (value_end p) stk' r
            | [] => RErr
            end
        | _ => RErr
        end
      else if c =? 123 then
        if value_allowed st then RTok (TDelim 123) ObjectStart (st :: stk) r else RErr
      else if c =? 125 then
        match st with
        | ObjectStart | ObjectComma =>
            match stk with
            | p :: stk' => RTok (TDelim 125) (value_end p) stk' r
            | [] => RErr
            end
        | _ => RErr
        end
      else if (c =? 58) || (c =? 44) then RErr
      else if (c =? 34) && (match st with ObjectStart | ObjectKey => true | _ => false end) then
        match scan_scalar s with
        | Some (t, r') => RTok t ObjectColon stk r'
        | None => RErr
        end
      else if value_allowed st then
        match scan_scalar s with
        | Some (t, r') => RTok t (value_end st) stk r'
        | None => RErr
        end
      else RErr
  end.

(* One call of Token. The Go loop `continue`s after consuming ':' (only in ObjectColon) or ','
   (only in ArrayComma / ObjectComma); the state it continues in (ObjectValue, ArrayValue,
   ObjectKey) accepts no separator, so the loop runs at most twice and the second round is
   token_nosep, where ':' and ',' are errors. *)
Definition token (st : tstate) (stk : list tstate) (s : str) : tres :=
  match skip_ws s with
  | [] => REof
  | c :: r =>
      if c =? 58 then
        match st with
        | ObjectColon => token_nosep ObjectValue stk (skip_ws r)
        | _ => RErr
        end
      else if c =? 44 then
        match st with
        | ArrayComma => token_nosep ArrayValue stk (skip_ws r)
        | ObjectComma => token_nosep ObjectKey stk (skip_ws r)
        | _ => RErr
        end
      else token_nosep st stk (c :: r)
  end.

(* Token() called until it returns an error: the tokens, and whether that error was io.EOF *)
Fixpoint tok_run (fuel : nat) (st : tstate) (stk : list tstate) (s : str) : list tok * bool :=
  match fuel with
  | O => ([], false)          (* out of fuel: proved unreachable (JsonProofs.tok_run_fuel) *)
  | S f =>
      match token st stk s with
      | RTok t st' stk' r => let (l, b) := tok_run f st' stk' r in (t :: l, b)
      | REof => ([], true)
      | RErr => ([], false)
      end
  end.

Definition tokenize (s : str) : list tok * bool := tok_run (S (length s)) TopValue [] s.

(* ================================================================================== *)
(* Part A.5  row.go UnmarshalJSON / parseobject / parsearray / handledelim              *)
(* ================================================================================== *)

(* The functions below run on the list of tokens that the remaining calls of Token() will
   return (the list ends where Token() returns an error).
   dec.More() is: the next non-space byte exists and is neither ']' nor '}'; here it is: a next
   token exists and is neither TDelim ']' nor TDelim '}'. The two differ only when the next
   byte exists but the next Token() call fails (a stray byte, a separator followed by a closing
   delimiter, a closing delimiter of the wrong kind): the Go loop then enters its body and
   returns the error of that Token() call, while the model leaves the loop and fails on the
   closing token, which is missing. Both reject with the same members imported so far.
   Likewise `if err == io.EOF { break }` in parseobject leads to a second Token() that returns
   io.EOF again, an error. *)
Fixpoint p_value (fuel : nat) (t : tok) (rest : list tok) : option (jv * list tok) :=   (* handledelim *)
  match fuel with
  | O => None
  | S f =>
      match t with
      | TDelim c =>
          if c =? 123 then
            match p_object f rest [] with
            | (m, Some r) => Some (JObj m, r)
            | (_, None) => None
            end
          else if c =? 91 then
            match p_array f rest [] with
            | Some (l, r) => Some (JArr l, r)
            | None => None
            end
          else None                                  (* "Unexpected delimiter" *)
      | TStr s => Some (JStr s, rest)
      | TNum n => Some (JNum n, rest)
      | TBool b => Some (JBool b, rest)
      | TNull => Some (JNull, rest)
      end
  end
(* parseobject: members imported so far (in order) and, on success, the tokens left *)
with p_object (fuel : nat) (toks : list tok) (acc : list (str * jv)) : list (str * jv) * option (list tok) :=
  match fuel with
  | O => (rev acc, None)
  | S f =>
      match toks with
      | [] => (rev acc, None)                        (* More() false, closing Token() fails *)
      | TDelim c :: rest =>
          if c =? 125 then (rev acc, Some rest)      (* More() false, closing '}' *)
          else (rev acc, None)                       (* ']' : wrong close; '{' '[' : key is not a string *)
      | TStr k :: rest =>
          match rest with
          | [] => (rev acc, None)                    (* Token() for the value fails *)
          | t :: rest' =>
              match p_value f t rest' with
              | Some (v, r) => p_object f r ((k, v) :: acc)
              | None => (rev acc, None)
              end
          end
      | _ :: _ => (rev acc, None)                    (* key is not a string *)
      end
  end
with p_array (fuel : nat) (toks : list tok) (acc : list jv) : option (list jv * list tok) :=   (* parsearray *)
  match fuel with
  | O => None
  | S f =>
      match toks with
      | [] => None
      | TDelim c :: rest =>
          if c =? 93 then Some (rev acc, rest)
          else if c =? 125 then None
          else match p_value f (TDelim c) rest with
               | Some (v, r) => p_array f r (v :: acc)
               | None => None
               end
      | t :: rest =>
          match p_value f t rest with
          | Some (v, r) => p_array f r (v :: acc)
          | None => None
          end
      end
  end.

(* row.UnmarshalJSON on a fresh decoder: the top-level members whose value was completely
   parsed, and whether the call succeeds ('{' first, object closed, then Token() = io.EOF) *)
Definition parse_tokens (toks : list tok) (eof : bool) : list (str * jv) * bool :=
  match toks with
  | TDelim c :: rest =>
      if c =? 123 then
        match p_object (2 * length rest + 2)%nat rest [] with
        | (m, Some []) => (m, eof)
        | (m, _) => (m, false)
        end
      else ([], false)
  | _ => ([], false)
  end.

Definition parse_top (s : str) : list (str * jv) * bool :=
  let (toks, eof) := tokenize s in parse_tokens toks eof.

(* ================================================================================== *)
(* Part A.6  encode.go appendString with escapeHTML, json.Marshal of the tree          *)
(* ================================================================================== *)

Definition hexdig (n : Z) : Z := if n <? 10 then 48 + n else 87 + n.      (* "0123456789abcdef" *)

(* one step of appendString on a non-empty source: (bytes appended, rest of the source) *)
Definition enc_step (s : str) : str * str :=
  match s with
  | [] => ([], [])
  | c :: r =>
      if c <? 128 then
        if (c =? 34) || (c =? 92) then ([92; c], r)
        else if c =? 8 then ([92; 98], r)
        else if c =? 12 then ([92; 102], r)
        else if c =? 10 then ([92; 110], r)
        else if c =? 13 then ([92; 114], r)
        else if c =? 9 then ([92; 116], r)
        else if (c <? 32) || (c =? 60) || (c =? 62) || (c =? 38)
             then ([92; 117; 48; 48; hexdig (c / 16); hexdig (c mod 16)], r)
        else ([c], r)
      else
        match utf8_size s with
        | O => ([92; 117; 102; 102; 102; 100], r)                       (* � *)
        | n =>
            match s with
            | b0 :: b1 :: b2 :: r3 =>
                if (b0 =? 226) && (b1 =? 128) && ((b2 =? 168) || (b2 =? 169))
                then ([92; 117; 50; 48; 50; hexdig (b2 - 160)], r3)     (*     *)
                else (firstn n s, skipn n s)
            | _ => (firstn n s, skipn n s)
            end
        end
  end.

Fixpoint enc_body (fuel : nat) (s : str) : str :=
  match fuel with
  | O => []
  | S f =>
      match s with
      | [] => []
      | _ => let (o, r) := enc_step s in o ++ enc_body f r
      end
  end.

(* json.Marshal(string(s)) *)
Definition encode_string (s : str) : str := 34 :: enc_body (length s) s ++ [34].

Fixpoint join (sep : Z) (l : list str) : str :=
  match l with
  | [] => []
  | [x] => x
  | x :: r => x ++ sep :: join sep r
  end.

Definition lit_null : str := [110; 117; 108; 108].
Definition lit_true : str := [116; 114; 117; 101].
Definition lit_false : str := [102; 97; 108; 115; 101].

Fixpoint opt_all {A} (l : list (option A)) : option (list A) :=
  match l with
  | [] => Some []
  | Some x :: r => match opt_all r with Some y => Some (x :: y) | None => None end
  | None :: _ => None
  end.

(* what row.MarshalJSON / json.Marshal write for the tree: compact, members in list order;
   None = marshal error (an invalid json.Number) *)
Fixpoint write_jv (v : jv) : option str :=
  match v with
  | JNull => Some lit_null
  | JBool true => Some lit_true
  | JBool false => Some lit_false
  | JNum lit => marshal_number lit
  | JStr s => Some (encode_string s)
  | JArr l =>
      match opt_all (map write_jv l) with
      | Some parts => Some (91 :: join 44 parts ++ [93])
      | None => None
      end
  | JObj m =>
      match opt_all (map (fun kv => match write_jv (snd kv) with
                                    | Some b => Some (encode_string (fst kv) ++ 58 :: b)
                                    | None => None
                                    end) m) with
      | Some parts => Some (123 :: join 44 parts ++ [125])
      | None => None
      end
  end.

(* ================================================================================== *)
(* Part B.1  the reference grammar (RFC 8259), independent of Part A                   *)
(* ================================================================================== *)

(* Relations have the form  R input value rest : the production consumes a prefix of
   [input], denotes [value] and leaves [rest]. *)

(* ws = *( %x20 / %x09 / %x0A / %x0D ) *)
Inductive ws : str -> str -> Prop :=
| ws_nil s : ws s s
| ws_cons c s s' : c = 32 \/ c = 9 \/ c = 10 \/ c = 13 -> ws s s' -> ws (c :: s) s'.

Definition scalar (c : Z) : Prop := 0 <= c < 55296 \/ 57344 <= c <= 1114111.

Inductive hexd : Z -> Z -> Prop :=
| hexd_dec c : 48 <= c <= 57 -> hexd c (c - 48)
| hexd_low c : 97 <= c <= 102 -> hexd c (c - 87)
| hexd_up c : 65 <= c <= 70 -> hexd c (c - 55).

Inductive hex4d : str -> Z -> Prop :=
| hex4d_intro a b c d x y z w :
    hexd a x -> hexd b y -> hexd c z -> hexd d w -> hex4d [a; b; c; d] (x * 4096 + y * 256 + z * 16 + w).

(* escape = %x22 / %x5C / %x2F / b / f / n / r / t *)
Inductive esc1 : Z -> Z -> Prop :=
| esc_quote : esc1 34 34 | esc_bslash : esc1 92 92 | esc_slash : esc1 47 47
| esc_b : esc1 98 8 | esc_f : esc1 102 12 | esc_n : esc1 110 10 | esc_r : esc1 114 13 | esc_t : esc1 116 9.

(* the characters of a string up to and including the closing quotation mark.
   Well-formed strings only: unescaped characters are UTF-8 encoded Unicode scalar values
   (%x20-21 / %x23-5B / %x5D-10FFFF), a \uXXXX escape is a scalar value or a high surrogate
   followed by a \uXXXX low surrogate. *)
Inductive jchars : str -> str -> str -> Prop :=
| C_end r : jchars (34 :: r) [] r
| C_raw c s x r :
    scalar c -> 32 <= c -> c <> 34 -> c <> 92 ->
    jchars s x r -> jchars (utf8_encode c ++ s) (utf8_encode c ++ x) r
| C_esc e d s x r :
    esc1 e d -> jchars s x r -> jchars (92 :: e :: s) (d :: x) r
| C_u h c s x r :
    hex4d h c -> scalar c -> jchars s x r -> jchars (92 :: 117 :: h ++ s) (utf8_encode c ++ x) r
| C_pair h1 c1 h2 c2 s x r :
    hex4d h1 c1 -> 55296 <= c1 <= 56319 -> hex4d h2 c2 -> 56320 <= c2 <= 57343 ->
    jchars s x r ->
    jchars (92 :: 117 :: h1 ++ 92 :: 117 :: h2 ++ s)
           (utf8_encode (65536 + (c1 - 55296) * 1024 + (c2 - 56320)) ++ x) r.

(* number = [ minus ] int [ frac ] [ exp ] *)
Definition digit (c : Z) : Prop := 48 <= c <= 57.
Definition digits1 (s : str) : Prop := s <> [] /\ Forall digit s.
Definition jint (s : str) : Prop := s = [48] \/ exists d ds, 49 <= d <= 57 /\ Forall digit ds /\ s = d :: ds.
Definition jfrac (s : str) : Prop := s = [] \/ exists ds, digits1 ds /\ s = 46 :: ds.
Definition jexp (s : str) : Prop :=
  s = [] \/ exists e sg ds, (e = 101 \/ e = 69) /\ (sg = [] \/ sg = [43] \/ sg = [45]) /\ digits1 ds /\ s = e :: sg ++ ds.
Definition jnumber (lit : str) : Prop :=
  exists sg i f e, (sg = [] \/ sg = [45]) /\ jint i /\ jfrac f /\ jexp e /\ lit = sg ++ i ++ f ++ e.

Inductive jvalue : str -> jv -> str -> Prop :=
| V_null r : jvalue (110 :: 117 :: 108 :: 108 :: r) JNull r
| V_true r : jvalue (116 :: 114 :: 117 :: 101 :: r) (JBool true) r
| V_false r : jvalue (102 :: 97 :: 108 :: 115 :: 101 :: r) (JBool false) r
| V_num lit r : jnumber lit -> jvalue (lit ++ r) (JNum lit) r
| V_str s x r : jchars s x r -> jvalue (34 :: s) (JStr x) r
| V_arr0 s r : ws s (93 :: r) -> jvalue (91 :: s) (JArr []) r
| V_arr s l r : jelems s l r -> jvalue (91 :: s) (JArr l) r
| V_obj0 s r : ws s (125 :: r) -> jvalue (123 :: s) (JObj []) r
| V_obj s m r : jmembers s m r -> jvalue (123 :: s) (JObj m) r
(* ws value ws ( "]" / "," elements ) *)
with jelems : str -> list jv -> str -> Prop :=
| E_last s s1 v s2 r :
    ws s s1 -> jvalue s1 v s2 -> ws s2 (93 :: r) -> jelems s [v] r
| E_more s s1 v s2 s3 l r :
    ws s s1 -> jvalue s1 v s2 -> ws s2 (44 :: s3) -> jelems s3 l r -> jelems s (v :: l) r
(* ws string ws ":" ws value ws ( "}" / "," members ) *)
with jmembers : str -> list (str * jv) -> str -> Prop :=
| M_last s s1 k s2 s3 s4 v s5 r :
    ws s (34 :: s1) -> jchars s1 k s2 -> ws s2 (58 :: s3) -> ws s3 s4 -> jvalue s4 v s5 ->
    ws s5 (125 :: r) -> jmembers s [(k, v)] r
| M_more s s1 k s2 s3 s4 v s5 s6 m r :
    ws s (34 :: s1) -> jchars s1 k s2 -> ws s2 (58 :: s3) -> ws s3 s4 -> jvalue s4 v s5 ->
    ws s5 (44 :: s6) -> jmembers s6 m r -> jmembers s ((k, v) :: m) r.

(* JSON-text = ws value ws *)
Definition spells (b : str) (v : jv) : Prop :=
  exists s1 r, ws b s1 /\ jvalue s1 v r /\ ws r [].

(* ================================================================================== *)
(* Part B.2  the reference recogniser (uses nothing of Part A except utf8_encode, which   *)
(*           the grammar itself uses, and GoJsonNum.is_json_number on the number span)   *)
(* ================================================================================== *)

Fixpoint r_ws (s : str) : str :=
  match s with
  | c :: r => if (c =? 32) || (c =? 9) || (c =? 10) || (c =? 13) then r_ws r else s
  | [] => []
  end.

Definition r_hex (c : Z) : option Z :=
  if (48 <=? c) && (c <=? 57) then Some (c - 48)
  else if (97 <=? c) && (c <=? 102) then Some (c - 87)
  else if (65 <=? c) && (c <=? 70) then Some (c - 55)
  else None.

Definition r_hex4 (s : str) : option (Z * str) :=
  match s with
  | a :: b :: c :: d :: r =>
      match r_hex a, r_hex b, r_hex c, r_hex d with
      | Some x, Some y, Some z, Some w => Some (x * 4096 + y * 256 + z * 16 + w, r)
      | _, _, _, _ => None
      end
  | _ => None
  end.

Definition r_scalar (c : Z) : bool := ((0 <=? c) && (c <? 55296)) || ((57344 <=? c) && (c <=? 1114111)).
Definition r_cont (b : Z) : bool := (128 <=? b) && (b <=? 191).

(* one unescaped non-ASCII character: read the code point the bytes would denote, accept when
   it is a scalar value whose UTF-8 form is exactly those bytes (shortest form) *)
Definition r_utf8 (s : str) : option str :=
  match s with
  | b0 :: b1 :: r =>
      if (192 <=? b0) && (b0 <? 224) then
        let c := (b0 - 192) * 64 + (b1 - 128) in
        if r_cont b1 && r_scalar c && str_eqb (utf8_encode c) [b0; b1] then Some r else None
      else
        match r with
        | b2 :: r2 =>
            if (224 <=? b0) && (b0 <? 240) then
              let c := (b0 - 224) * 4096 + (b1 - 128) * 64 + (b2 - 128) in
              if r_cont b1 && r_cont b2 && r_scalar c && str_eqb (utf8_encode c) [b0; b1; b2] then Some r2 else None
            else
              match r2 with
              | b3 :: r3 =>
                  if (240 <=? b0) && (b0 <? 248) then
                    let c := (b0 - 240) * 262144 + (b1 - 128) * 4096 + (b2 - 128) * 64 + (b3 - 128) in
                    if r_cont b1 && r_cont b2 && r_cont b3 && r_scalar c && str_eqb (utf8_encode c) [b0; b1; b2; b3]
                    then Some r3 else None
                  else None
              | _ => None
              end
        | _ => None
        end
  | _ => None
  end.

(* characters up to and including the closing quote; returns the rest *)
Fixpoint r_chars (fuel : nat) (s : str) : option str :=
  match fuel with
  | O => None
  | S f =>
      match s with
      | [] => None
      | c :: r =>
          if c =? 34 then Some r
          else if c =? 92 then
            match r with
            | [] => None
            | e :: r1 =>
                if (e =? 34) || (e =? 92) || (e =? 47) || (e =? 98) || (e =? 102) || (e =? 110) || (e =? 114) || (e =? 116)
                then r_chars f r1
                else if e =? 117 then
                  match r_hex4 r1 with
                  | None => None
                  | Some (c1, r2) =>
                      if r_scalar c1 then r_chars f r2
                      else if (55296 <=? c1) && (c1 <=? 56319) then
                        match r2 with
                        | bs :: u :: r3 =>
                            if (bs =? 92) && (u =? 117) then
                              match r_hex4 r3 with
                              | Some (c2, r4) => if (56320 <=? c2) && (c2 <=? 57343) then r_chars f r4 else None
                              | None => None
                              end
                            else None
                        | _ => None
                        end
                      else None
                  end
                else None
            end
          else if c <? 32 then None
          else if c <? 128 then r_chars f r
          else match r_utf8 s with
               | Some r' => r_chars f r'
               | None => None
               end
      end
  end.

Definition r_numchar (c : Z) : bool :=
  ((48 <=? c) && (c <=? 57)) || (c =? 45) || (c =? 43) || (c =? 46) || (c =? 101) || (c =? 69).

Fixpoint r_span (s : str) : str * str :=
  match s with
  | c :: r => if r_numchar c then let (a, b) := r_span r in (c :: a, b) else ([], s)
  | [] => ([], [])
  end.

(* a value starting at the head of s (no leading whitespace); returns the rest *)
Fixpoint r_value (fuel : nat) (s : str) : option str :=
  match fuel with
  | O => None
  | S f =>
      match s with
      | [] => None
      | c :: r =>
          if c =? 34 then r_chars (length r) r
          else if c =? 123 then
            match r_ws r with
            | c1 :: r1 => if c1 =? 125 then Some r1 else r_members f (c1 :: r1)
            | [] => None
            end
          else if c =? 91 then
            match r_ws r with
            | c1 :: r1 => if c1 =? 93 then Some r1 else r_elems f (c1 :: r1)
            | [] => None
            end
          else if c =? 116 then
            match r with
            | a :: b :: c2 :: r' => if (a =? 114) && (b =? 117) && (c2 =? 101) then Some r' else None
            | _ => None
            end
          else if c =? 102 then
            match r with
            | a :: b :: c2 :: d :: r' => if (a =? 97) && (b =? 108) && (c2 =? 115) && (d =? 101) then Some r' else None
            | _ => None
            end
          else if c =? 110 then
            match r with
            | a :: b :: c2 :: r' => if (a =? 117) && (b =? 108) && (c2 =? 108) then Some r' else None
            | _ => None
            end
          else
            let (lit, r') := r_span s in
            if is_json_number lit then Some r' else None
      end
  end
(* s is at the first non-space byte of an element *)
with r_elems (fuel : nat) (s : str) : option str :=
  match fuel with
  | O => None
  | S f =>
      match r_value f s with
      | None => None
      | Some r =>
          match r_ws r with
          | c :: r1 =>
              if c =? 93 then Some r1
              else if c =? 44 then r_elems f (r_ws r1)
              else None
          | [] => None
          end
      end
  end
(* s is at the first non-space byte of a member *)
with r_members (fuel : nat) (s : str) : option str :=
  match fuel with
  | O => None
  | S f =>
      match s with
      | q :: r =>
          if q =? 34 then
            match r_chars (length r) r with
            | None => None
            | Some r1 =>
                match r_ws r1 with
                | col :: r2 =>
                    if col =? 58 then
                      match r_value f (r_ws r2) with
                      | None => None
                      | Some r3 =>
                          match r_ws r3 with
                          | c :: r4 =>
                              if c =? 125 then Some r4
                              else if c =? 44 then r_members f (r_ws r4)
                              else None
                          | [] => None
                          end
                      end
                    else None
                | [] => None
                end
            end
          else None
      | [] => None
      end
  end.

Definition is_json_value (b : str) : bool :=
  match r_value (2 * length b + 2)%nat (r_ws b) with
  | Some r => match r_ws r with [] => true | _ => false end
  | None => false
  end.

Definition is_json_object (b : str) : bool :=
  match r_ws b with
  | c :: _ => (c =? 123) && is_json_value b
  | [] => false
  end.
