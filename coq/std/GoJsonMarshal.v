(* Layer 0 — row.MarshalJSON as called directly (Row.String, Exporter.Export), with the one limit
   encoding/json adds on the way: every top-level member is a jsonline.Value, a json.Marshaler, and
   json.Marshal re-scans a Marshaler's output with compact(), whose scanner refuses more than
   10000 nested containers (scanner.go maxNestingDepth: "exceeded max depth"). Decoder.Token has
   no such limit, so a line nested deeper than that is read but cannot be written back.
   (Nested rows and arrays are re-scanned too, but their depth is below the member's.) *)
From Coq Require Import ZArith List Bool Lia.
From JL.std Require Import GoBase GoStrconv GoJsonNum GoJson.
Import ListNotations.
Open Scope Z_scope.

Fixpoint jdepth (v : jv) : Z :=
  match v with
  | JArr l => 1 + fold_right (fun x acc => Z.max (jdepth x) acc) 0 l
  | JObj m => 1 + fold_right (fun kv acc => Z.max (jdepth (snd kv)) acc) 0 m
  | _ => 0
  end.

Definition max_nesting : Z := 10000.

(* json.Marshal(v) where v is the jsonline.Value holding the tree *)
Definition marshal_member (v : jv) : option str :=
  if jdepth v <=? max_nesting then write_jv v else None.

(* row.MarshalJSON for the row whose members (all Auto, none hidden) hold these trees *)
Definition write_row (m : list (str * jv)) : option str :=
  match opt_all (map (fun kv => match marshal_member (snd kv) with
                                | Some b => Some (encode_string (fst kv) ++ 58 :: b)
                                | None => None
                                end) m) with
  | Some parts => Some (123 :: join 44 parts ++ [125])
  | None => None
  end.
