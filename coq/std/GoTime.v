(* Layer 0 — package time, for the two layouts jsonline uses (RFC 3339 and 2006-01-02):
   proleptic Gregorian calendar, Format, Parse (the strict fast path of time.Parse for
   RFC 3339; what the fast path rejects is delegated to an oracle), time.Unix, Time.Unix. *)
From Coq Require Import ZArith List Bool Lia.
From JL.std Require Import GoBase GoStrconv.
Open Scope Z_scope.

(* a time.Time: Unix seconds, nanoseconds, and the zone offset (seconds east of UTC) in
   force for it — all that Format and Unix() observe *)
Record gtime := { tsec : Z; tnsec : Z; toff : Z }.

(* ---------- calendar (days since 1970-01-01 <-> civil date) ---------- *)

Definition days_from_civil (y m d : Z) : Z :=
  let y' := if m <=? 2 then y - 1 else y in
  let era := y' / 400 in
  let yoe := y' - era * 400 in
  let mp := if 2 <? m then m - 3 else m + 9 in
  let doy := (153 * mp + 2) / 5 + d - 1 in
  let doe := yoe * 365 + yoe / 4 - yoe / 100 + doy in
  era * 146097 + doe - 719468.

Definition civil_from_days (z : Z) : Z * Z * Z :=
  let z' := z + 719468 in
  let era := z' / 146097 in
  let doe := z' - era * 146097 in
  let yoe := (doe - doe / 1460 + doe / 36524 - doe / 146096) / 365 in
  let y := yoe + era * 400 in
  let doy := doe - (365 * yoe + yoe / 4 - yoe / 100) in
  let mp := (5 * doy + 2) / 153 in
  let d := doy - (153 * mp + 2) / 5 + 1 in
  let m := if mp <? 10 then mp + 3 else mp - 9 in
  (if m <=? 2 then y + 1 else y, m, d).

Definition is_leap (y : Z) : bool :=
  ((y mod 4 =? 0) && negb (y mod 100 =? 0)) || (y mod 400 =? 0).

Definition days_in (m y : Z) : Z :=
  if m =? 2 then (if is_leap y then 29 else 28)
  else if (m =? 4) || (m =? 6) || (m =? 9) || (m =? 11) then 30 else 31.

(* ---------- formatting ---------- *)

Definition pad2 (n : Z) : str := [48 + n / 10 mod 10; 48 + n mod 10].

(* time.appendInt(b, x, width) *)
Definition pad_left (w : nat) (s : str) : str := repeat 48 (w - length s) ++ s.
Definition append_int (x : Z) (w : nat) : str :=
  if x <? 0 then c_minus :: pad_left w (dec_nat (- x)) else pad_left w (dec_nat x).

Record civil := { cy : Z; cmo : Z; cd : Z; chh : Z; cmi : Z; css : Z }.

(* the wall clock of [t] in its own zone *)
(* Go keeps the instant as a 64-bit count of seconds since the year -292277022399 and computes
   dates from it with wrapping uint64 arithmetic; for |seconds| below ~9.2e18 - 6.2e10 this is
   the identity, beyond it the date wraps exactly as modelled here *)
Definition unix_to_absolute : Z := 9223372028715321600.
Definition abs_wrap (a : Z) : Z := (a + unix_to_absolute) mod 2 ^ 64 - unix_to_absolute.

Definition civil_of (t : gtime) : civil :=
  let a := abs_wrap (tsec t + toff t) in
  let days := a / 86400 in
  let r := a mod 86400 in
  let '(y, m, d) := civil_from_days days in
  {| cy := y; cmo := m; cd := d; chh := r / 3600; cmi := r mod 3600 / 60; css := r mod 60 |}.

(* Time.Year() *)
Definition time_Year (t : gtime) : Z := cy (civil_of t).

Definition fmt_date_civil (c : civil) : str :=
  append_int (cy c) 4 ++ [45] ++ pad2 (cmo c) ++ [45] ++ pad2 (cd c).

(* the "Z07:00" element *)
Definition fmt_zone (off : Z) : str :=
  if off =? 0 then [90]
  else let zone := Z.quot off 60 in
       let '(sg, z) := if zone <? 0 then (45, - zone) else (43, zone) in
       sg :: pad2 (z / 60) ++ [58] ++ pad2 (z mod 60).

Definition fmt_rfc3339 (t : gtime) : str :=
  let c := civil_of t in
  fmt_date_civil c ++ [84] ++ pad2 (chh c) ++ [58] ++ pad2 (cmi c) ++ [58] ++ pad2 (css c)
  ++ fmt_zone (toff t).

Definition fmt_date (t : gtime) : str := fmt_date_civil (civil_of t).

(* ---------- parsing ---------- *)

(* the parseUint closure of time.parseRFC3339: all digits, value within [lo, hi] *)
Fixpoint digits_value (s : str) (acc : Z) : option Z :=
  match s with
  | [] => Some acc
  | c :: r => if is_digit c then digits_value r (acc * 10 + (c - 48)) else None
  end.

Definition parse_field (s : str) (lo hi : Z) : option Z :=
  match digits_value s 0 with
  | Some x => if (x <? lo) || (hi <? x) then None else Some x
  | None => None
  end.

Definition sub (s : str) (i j : nat) : str := firstn (j - i) (skipn i s).
Definition char_at (s : str) (i : nat) : Z := nth i s (-1).

Fixpoint take_digits (s : str) : str * str :=
  match s with
  | c :: r => if is_digit c then let '(d, rest) := take_digits r in (c :: d, rest) else ([], s)
  | [] => ([], [])
  end.

(* time.parseNanoseconds on the digits after the '.': at most nine are used, the rest dropped *)
Definition nanos_of_digits (d : str) : Z :=
  let d9 := firstn 9 d in
  match digits_value d9 0 with
  | Some v => v * 10 ^ (9 - Z.of_nat (length d9))
  | None => 0
  end.

Definition unix_of_civil (y mo d hh mi ss : Z) : Z :=
  days_from_civil y mo d * 86400 + hh * 3600 + mi * 60 + ss.

(* time.parseRFC3339 (the fast path of time.Parse for layout RFC3339) *)
Definition parse_rfc3339_fast (s : str) : option gtime :=
  if (length s <? 19)%nat then None else
  match parse_field (sub s 0 4) 0 9999, parse_field (sub s 5 7) 1 12 with
  | Some y, Some mo =>
    match parse_field (sub s 8 10) 1 (days_in mo y), parse_field (sub s 11 13) 0 23,
          parse_field (sub s 14 16) 0 59, parse_field (sub s 17 19) 0 59 with
    | Some d, Some hh, Some mi, Some ss =>
      if negb ((char_at s 4 =? 45) && (char_at s 7 =? 45) && (char_at s 10 =? 84)
               && (char_at s 13 =? 58) && (char_at s 16 =? 58)) then None else
      let rest := skipn 19 s in
      let '(nsec, rest) :=
        match rest with
        | c0 :: c1 :: _ =>
            if (c0 =? 46) && is_digit c1 then
              let '(ds, r) := take_digits (skipn 1 rest) in (nanos_of_digits ds, r)
            else (0, rest)
        | _ => (0, rest)
        end in
      let base := unix_of_civil y mo d hh mi ss in
      match rest with
      | [90] => Some {| tsec := base; tnsec := nsec; toff := 0 |}
      | [sg; h1; h2; col; m1; m2] =>
          match parse_field [h1; h2] 0 23, parse_field [m1; m2] 0 59 with
          | Some hr, Some mm =>
              if negb (((sg =? 45) || (sg =? 43)) && (col =? 58)) then None else
              let zo := (hr * 60 + mm) * 60 in
              let zo := if sg =? 45 then - zo else zo in
              Some {| tsec := base - zo; tnsec := nsec; toff := zo |}
          | _, _ => None
          end
      | _ => None
      end
    | _, _, _, _ => None
    end
  | _, _ => None
  end.

(* time.Parse("2006-01-02", s) succeeds: exactly dddd-dd-dd with a valid month and day *)
Definition date_layout_ok (s : str) : bool :=
  match s with
  | [y1; y2; y3; y4; d1; m1; m2; d2; a1; a2] =>
      match parse_field [y1; y2; y3; y4] 0 9999, parse_field [m1; m2] 1 12 with
      | Some y, Some mo =>
          match parse_field [a1; a2] 1 (days_in mo y) with
          | Some _ => (d1 =? 45) && (d2 =? 45)
          | None => false
          end
      | _, _ => false
      end
  | _ => false
  end.

Inductive layout := LRFC3339 | LDate.
