(* Layer 0 — Go dynamic values (the contents of an interface{}) as far as pkg/cast can tell
   them apart, and the oracles standing for the standard-library functions that are not
   given an executable specification (float text, the local time zone, the lenient general
   time parser, implementation-defined float->int conversion). *)
From Coq Require Import ZArith List Bool Lia.
From JL.std Require Import GoBase GoFloat GoStrconv GoTime.
Open Scope Z_scope.

Inductive gval :=
| VNil
| VBool (b : bool)
| VInt (k : ikind) (z : Z)        (* invariant (wf_gval): in_range k z *)
| VF64 (bits : Z)                 (* invariant: 0 <= bits < 2^64 *)
| VF32 (bits : Z)                 (* invariant: 0 <= bits < 2^32 *)
| VStr (s : str)
| VBytes (b : gbytes)
| VNum (s : str)                  (* json.Number *)
| VTime (t : gtime)
| VByteArr (s : str)              (* an array whose element kind is uint8, any length *)
| VOther (tag : Z).               (* every other dynamic type: named types, pointers (typed
                                     nils included), structs, maps, slices, funcs, channels,
                                     rows, values ...: a Go type switch sends them all to default *)

Definition wf_gval (v : gval) : Prop :=
  match v with
  | VInt k z => in_range k z
  | VF64 x => 0 <= x < 2 ^ 64
  | VF32 x => 0 <= x < 2 ^ 32
  | VStr s | VNum s | VByteArr s => bytes_ok s
  | VBytes b => bytes_ok (bdata b) /\ (bnil b = true -> bdata b = [])
  | _ => True
  end.

Record oracles := {
  (* strconv.FormatFloat(x, fmt, prec, bitSize), x given as float64 bits *)
  o_ffmt : Z -> Z -> Z -> Z -> str;
  (* strconv.ParseFloat(s, bitSize): float64 bits of the result, None on error *)
  o_fparse : Z -> str -> option Z;
  (* T(f) for f outside T's range, NaN or infinite: implementation-defined *)
  o_f2i : ikind -> fval -> Z;
  (* time.Local: offset in seconds east of UTC in force at a Unix time *)
  o_local_off : Z -> Z;
  (* time.Parse(RFC3339, s) when the strict fast path rejects s (the lenient general parser) *)
  o_time_parse_slow : str -> option gtime;
}.

Section WithOracles.
  Context (O : oracles).

  Definition FormatFloat (x fmt prec bits : Z) : str := o_ffmt O fmt prec bits x.
  Definition ParseFloat (s : str) (bits : Z) : option Z := o_fparse O bits s.
  Definition cvt_f2i (k : ikind) (f : fval) : Z := f2i (o_f2i O) k f.

  (* time.Unix(sec, 0): in the Local zone *)
  Definition time_Unix (sec : Z) : gtime := {| tsec := sec; tnsec := 0; toff := o_local_off O sec |}.

  Definition time_Parse (l : layout) (s : str) : option gtime :=
    match l with
    | LRFC3339 =>
        match parse_rfc3339_fast s with
        | Some t => Some t
        | None => o_time_parse_slow O s
        end
    | LDate =>
        (* only success matters to the callers of this layout; the value is midnight UTC *)
        if date_layout_ok s then
          match s with
          | [y1; y2; y3; y4; _; m1; m2; _; a1; a2] =>
              match digits_value [y1; y2; y3; y4] 0, digits_value [m1; m2] 0, digits_value [a1; a2] 0 with
              | Some y, Some mo, Some d => Some {| tsec := unix_of_civil y mo d 0 0 0; tnsec := 0; toff := 0 |}
              | _, _, _ => None
              end
          | _ => None
          end
        else None
    end.

  Definition time_Format (l : layout) (t : gtime) : str :=
    match l with LRFC3339 => fmt_rfc3339 t | LDate => fmt_date t end.
End WithOracles.

(* Go's == on two interface values holding scalars: same dynamic type and equal values
   (IEEE equality on floats). Only used for comparisons the cast package makes. *)
Definition iface_eq (a b : gval) : bool :=
  match a, b with
  | VNil, VNil => true
  | VBool x, VBool y => Bool.eqb x y
  | VInt k x, VInt k' y => ikind_eqb k k' && (x =? y)
  | VF64 x, VF64 y => f64_eq x y
  | VF32 x, VF32 y => f32_eq x y
  | VStr x, VStr y => str_eqb x y
  | VNum x, VNum y => str_eqb x y
  | _, _ => false
  end.

(* x.(string) / x.([]byte): None stands for the run-time panic of a failed assertion *)
Definition as_string (v : gval) : option str := match v with VStr s => Some s | _ => None end.
Definition as_bytes (v : gval) : option gbytes := match v with VBytes b => Some b | _ => None end.

(* the reflect fallback in the default branch of cast.ToBinary (hand model; the translator
   checks a digest of that block): an array whose element kind is uint8 is copied *)
Definition reflect_bytearray (i : gval) : res gval :=
  match i with
  | VByteArr s => Ok (VBytes (mkbytes s))
  | _ => Err ErrUnableToCastToBinary
  end.
