(* C14 — date-time handling over the GENERATED cast / conversion model: what ToTime, ToString,
   ToTimestamp and the date-time / timestamp import-export functions do with RFC 3339 text,
   integer seconds and time values, for an arbitrary oracle record (local zone, lenient parser).
   The calendar and text lemmas are in TimeCalendar.v (closed under the global context). *)
From Coq Require Import ZArith List Bool Lia.
From JL.std Require Import GoBase GoFloat GoStrconv GoTime GoVal GoBase64 GoHyps.
From JL.gen Require Import CastGen ConvGen.
From JL.proofs Require Import CastTactics StrconvProofs CastBinary CastInt TimeCalendar.
Import ListNotations.
Open Scope Z_scope.

(* H-zone at the instant n: the local offset in force at n is a whole number of minutes, less
   than a day, and the local wall clock of n has a year 0000..9999 *)
Definition zone_hyp (O : oracles) (n : Z) : Prop :=
  off_ok (o_local_off O n) /\ sec_range (n + o_local_off O n).

Lemma H_zone_off_ok O : H_zone O -> forall n, off_ok (o_local_off O n).
Proof. intros H n. exact (H n). Qed.

(* the time a well-formed text denotes *)
Definition time_of_text (y mo d hh mi ss : Z) (frac : str) (zs : zspec) : gtime :=
  {| tsec := unix_of_civil y mo d hh mi ss - zone_off zs;
     tnsec := horner frac 0 * 10 ^ 9 / 10 ^ Z.of_nat (length frac);
     toff := zone_off zs |}.

Section TimeProofs.
  Context (O : oracles).

  Ltac range_k := unfold in_range, imin, imax; cbn [isigned ibits isize];
                  repeat match goal with |- context [2 ^ ?n] => let v := eval compute in (2 ^ n) in change (2 ^ n) with v end.
  Ltac range_k_in H := unfold in_range, imin, imax in H; cbn [isigned ibits isize] in H;
                  repeat match type of H with context [2 ^ ?n] => let v := eval compute in (2 ^ n) in change (2 ^ n) with v in H end.

  (* ---------- text -> time ---------- *)
  Lemma time_Parse_text y mo d hh mi ss frac zs :
    civil_ok y mo d hh mi ss -> Forall digit_char frac -> zone_ok zs ->
    time_Parse O LRFC3339 (rfc3339_text y mo d hh mi ss frac zs) = Some (time_of_text y mo d hh mi ss frac zs).
  Proof. intros Hc Hf Hz. unfold time_Parse. rewrite format_parse by assumption. reflexivity. Qed.

  Lemma ToTime_text y mo d hh mi ss frac zs :
    civil_ok y mo d hh mi ss -> Forall digit_char frac -> zone_ok zs ->
    ToTime O (VStr (rfc3339_text y mo d hh mi ss frac zs)) = Ok (VTime (time_of_text y mo d hh mi ss frac zs)).
  Proof. intros Hc Hf Hz. cast_unfold_top. rewrite time_Parse_text by assumption. reflexivity. Qed.

  Lemma ToTimestamp_text y mo d hh mi ss frac zs :
    civil_ok y mo d hh mi ss -> Forall digit_char frac -> zone_ok zs ->
    ToTimestamp O (VStr (rfc3339_text y mo d hh mi ss frac zs))
    = Ok (VInt KInt64 (unix_of_civil y mo d hh mi ss - zone_off zs)).
  Proof. intros Hc Hf Hz. cast_unfold_top. rewrite time_Parse_text by assumption. reflexivity. Qed.

  (* ---------- time -> text, time -> timestamp ---------- *)
  (* (since fix F7 ToString refuses a time whose year is outside 0..9999) *)
  Lemma ToString_time t : year_ok t -> ToString O (VTime t) = Ok (VStr (fmt_rfc3339 t)).
  Proof.
    intros [H1 H2]. change (ToString O (VTime t))
      with (if (time_Year t <? 0) || (time_Year t >? 9999) then Err ErrUnableToCastToString else Ok (VStr (fmt_rfc3339 t))).
    unfold time_Year. destruct (Z.ltb_spec (cy (civil_of t)) 0); [lia|].
    rewrite Z.gtb_ltb. destruct (Z.ltb_spec 9999 (cy (civil_of t))); [lia | reflexivity].
  Qed.

  Lemma ToTimestamp_time t : ToTimestamp O (VTime t) = Ok (VInt KInt64 (tsec t)).
  Proof. reflexivity. Qed.

  Lemma ToTime_time t : ToTime O (VTime t) = Ok (VTime t).
  Proof. reflexivity. Qed.

  Lemma year_ok_of_text y mo d hh mi ss frac zs :
    civil_ok y mo d hh mi ss -> year_ok (time_of_text y mo d hh mi ss frac zs).
  Proof.
    intros Hc. unfold time_of_text.
    set (t := {| tsec := _; tnsec := _; toff := zone_off zs |}).
    assert (E : tsec t + toff t = unix_of_civil y mo d hh mi ss) by (cbn [tsec toff t]; lia).
    destruct (civil_of_unix t y mo d hh mi ss Hc E) as [_ Hr]. exact (proj2 (sec_range_year t Hr)).
  Qed.

  Lemma ToString_time_of_text y mo d hh mi ss frac zs :
    civil_ok y mo d hh mi ss -> zone_ok zs ->
    ToString O (VTime (time_of_text y mo d hh mi ss frac zs)) = Ok (VStr (rfc3339_text y mo d hh mi ss [] (zcanon zs))).
  Proof.
    intros Hc Hz. rewrite ToString_time.
    - unfold time_of_text. rewrite fmt_of_parsed by assumption. reflexivity.
    - now apply year_ok_of_text.
  Qed.

  (* ---------- integers -> time ---------- *)
  Lemma ToTime_int64 n : ToTime O (VInt KInt64 n) = Ok (VTime (time_Unix O n)).
  Proof. reflexivity. Qed.

  Lemma ToTime_int k z :
    in_range k z -> z <= 9223372036854775807 -> ToTime O (VInt k z) = Ok (VTime (time_Unix O z)).
  Proof.
    intros Hk Hmax. assert (H64 : in_range KInt64 z) by (destruct k; range_k_in Hk; range_k; lia).
    destruct k; range_k_in Hk; cast_unfold_top;
      rewrite ?(conv_int_id KUint64 z) by (range_k; lia);
      repeat match goal with |- context [?a >? ?b] => destruct (Z.gtb_spec a b); [lia|] end;
      rewrite ?(conv_int_id KInt64 z) by exact H64; reflexivity.
  Qed.

  Lemma time_Parse_dec_none z : o_time_parse_slow O (dec z) = None -> time_Parse O LRFC3339 (dec z) = None.
  Proof. intros H. unfold time_Parse. rewrite parse_fast_dec_none. exact H. Qed.

  Lemma ToTime_dec_text z :
    in_range KInt64 z -> o_time_parse_slow O (dec z) = None ->
    ToTime O (VStr (dec z)) = Ok (VTime (time_Unix O z)) /\ ToTime O (VNum (dec z)) = Ok (VTime (time_Unix O z)).
  Proof.
    intros Hr Hs. range_k_in Hr.
    assert (Ep : ParseInt (dec z) 0 64 = Some z).
    { rewrite ParseInt_dec by lia. change (2 ^ (64 - 1)) with 9223372036854775808.
      rewrite !(proj2 (Z.leb_le _ _)) by lia. reflexivity. }
    split.
    - cast_unfold_top. rewrite (time_Parse_dec_none z Hs), Ep. reflexivity.
    - cast_unfold_top. cast_unfold_4. rewrite Ep. reflexivity.
  Qed.

  (* ---------- the import / export functions of the two column formats ---------- *)
  Lemma importFromTimestamp_int64 n : importFromTimestamp O (VInt KInt64 n) VNil = Ok (VInt KInt64 n).
  Proof. reflexivity. Qed.

  Lemma exportToDateTime_time t : year_ok t -> exportToDateTime O (VTime t) = Ok (VStr (fmt_rfc3339 t)).
  Proof.
    intros Hy. unfold exportToDateTime, exportToDateTime_5, exportToDateTime_body.
    rewrite ToTime_time. rewrite (ToString_time t Hy). reflexivity.
  Qed.

  Lemma exportToDateTime_int64 n :
    year_ok (time_Unix O n) -> exportToDateTime O (VInt KInt64 n) = Ok (VStr (fmt_rfc3339 (time_Unix O n))).
  Proof.
    intros Hy. unfold exportToDateTime, exportToDateTime_5, exportToDateTime_body.
    rewrite ToTime_int64. rewrite (ToString_time _ Hy). reflexivity.
  Qed.

  Lemma exportToTimestamp_time t : exportToTimestamp O (VTime t) = Ok (VInt KInt64 (tsec t)).
  Proof. reflexivity. Qed.

  Lemma exportToTimestamp_int64 n : exportToTimestamp O (VInt KInt64 n) = Ok (VInt KInt64 n).
  Proof. reflexivity. Qed.

  Lemma importFromDateTime_text y mo d hh mi ss frac zs :
    civil_ok y mo d hh mi ss -> Forall digit_char frac -> zone_ok zs ->
    importFromDateTime O (VStr (rfc3339_text y mo d hh mi ss frac zs)) VNil
    = Ok (VTime (time_of_text y mo d hh mi ss frac zs)).
  Proof.
    intros Hc Hf Hz. unfold importFromDateTime. rewrite ToTime_text by assumption. reflexivity.
  Qed.

  Lemma importFromDateTime_int64 n : importFromDateTime O (VInt KInt64 n) VNil = Ok (VTime (time_Unix O n)).
  Proof. reflexivity. Qed.

  Lemma exportToTimestamp_text y mo d hh mi ss frac zs :
    civil_ok y mo d hh mi ss -> Forall digit_char frac -> zone_ok zs ->
    exportToTimestamp O (VStr (rfc3339_text y mo d hh mi ss frac zs))
    = Ok (VInt KInt64 (unix_of_civil y mo d hh mi ss - zone_off zs)).
  Proof.
    intros Hc Hf Hz.
    change (exportToTimestamp O ?v) with
      (match ToTimestamp O v with Ok v_i64 => Ok v_i64 | Err _ => Err ErrUnsupportedExportType | Panic => Panic | Fuel => Fuel end).
    rewrite ToTimestamp_text by assumption. reflexivity.
  Qed.

  (* ---------- the rendering of timestamp n reads back as instant n ---------- *)
  Lemma render_timestamp_instant n :
    zone_hyp O n ->
    parse_rfc3339_fast (fmt_rfc3339 (time_Unix O n)) = Some {| tsec := n; tnsec := 0; toff := o_local_off O n |}.
  Proof.
    intros [Ho Hr]. exact (parse_format_rfc3339_range (time_Unix O n) Hr Ho).
  Qed.

  Lemma ToTimestamp_of_fast s t : parse_rfc3339_fast s = Some t -> ToTimestamp O (VStr s) = Ok (VInt KInt64 (tsec t)).
  Proof. intros H. cast_unfold_top. unfold time_Parse. rewrite H. reflexivity. Qed.

  Lemma ToTime_of_fast s t : parse_rfc3339_fast s = Some t -> ToTime O (VStr s) = Ok (VTime t).
  Proof. intros H. cast_unfold_top. unfold time_Parse. rewrite H. reflexivity. Qed.
End TimeProofs.

(* ====================================================================== *)
(* the C14 statements (restated in props/C14.v)                            *)
(* ====================================================================== *)

Lemma c14_explicit_offset (O : oracles) y mo d hh mi ss (frac : str) zs :
  civil_ok y mo d hh mi ss -> Forall digit_char frac -> zone_ok zs ->
  let s := rfc3339_text y mo d hh mi ss frac zs in
  let instant := unix_of_civil y mo d hh mi ss - zone_off zs in
  exists t s',
    ToTime O (VStr s) = Ok (VTime t) /\ tsec t = instant /\ toff t = zone_off zs
    /\ ToString O (VTime t) = Ok (VStr s')
    /\ s' = rfc3339_text y mo d hh mi ss [] (zcanon zs)
    /\ parse_rfc3339_fast s' = Some {| tsec := instant; tnsec := 0; toff := zone_off zs |}
    /\ ToTime O (VStr s') = Ok (VTime {| tsec := instant; tnsec := 0; toff := zone_off zs |}).
Proof.
  intros Hc Hf Hz s instant.
  exists (time_of_text y mo d hh mi ss frac zs), (rfc3339_text y mo d hh mi ss [] (zcanon zs)).
  destruct (zcanon_ok zs Hz) as [Hz' Eo].
  assert (Ep : parse_rfc3339_fast (rfc3339_text y mo d hh mi ss [] (zcanon zs))
               = Some {| tsec := instant; tnsec := 0; toff := zone_off zs |}).
  { rewrite format_parse by (try assumption; constructor). rewrite Eo. reflexivity. }
  split; [exact (ToTime_text O y mo d hh mi ss frac zs Hc Hf Hz)|].
  split; [reflexivity|]. split; [reflexivity|].
  split; [exact (ToString_time_of_text O y mo d hh mi ss frac zs Hc Hz)|].
  split; [reflexivity|]. split; [exact Ep|]. exact (ToTime_of_fast O _ _ Ep).
Qed.

Lemma c14_unix_seconds (O : oracles) :
  (forall n, ToTime O (VInt KInt64 n) = Ok (VTime {| tsec := n; tnsec := 0; toff := o_local_off O n |}))
  /\ (forall k z, in_range k z -> z <= 9223372036854775807 ->
        ToTime O (VInt k z) = Ok (VTime {| tsec := z; tnsec := 0; toff := o_local_off O z |}))
  /\ (forall z, in_range KInt64 z -> o_time_parse_slow O (dec z) = None ->
        ToTime O (VStr (dec z)) = Ok (VTime {| tsec := z; tnsec := 0; toff := o_local_off O z |})
        /\ ToTime O (VNum (dec z)) = Ok (VTime {| tsec := z; tnsec := 0; toff := o_local_off O z |})).
Proof.
  split; [exact (ToTime_int64 O)|]. split; [exact (ToTime_int O) | exact (ToTime_dec_text O)].
Qed.

Lemma importFromTimestamp_num (O : oracles) n :
  in_range KInt64 n -> importFromTimestamp O (VNum (dec n)) VNil = Ok (VInt KInt64 n).
Proof.
  intros Hr. unfold importFromTimestamp.
  change (ToInt64 O (VNum (dec n))) with (To O (sample KInt64) (VNum (dec n))).
  rewrite (ToInt_num_src O KInt64 (dec n)), (ToInt_text_src O KInt64 (dec n)), (parse_for_dec KInt64 n).
  apply in_rangeb_spec in Hr. rewrite Hr. reflexivity.
Qed.

Lemma c14_ts_to_dt (O : oracles) n :
  zone_hyp O n -> in_range KInt64 n ->
  exists s,
    importFromTimestamp O (VInt KInt64 n) VNil = Ok (VInt KInt64 n)
    /\ importFromTimestamp O (VNum (dec n)) VNil = Ok (VInt KInt64 n)
    /\ exportToDateTime O (VInt KInt64 n) = Ok (VStr s)
    /\ parse_rfc3339_fast s = Some {| tsec := n; tnsec := 0; toff := o_local_off O n |}
    /\ (forall O', ToTimestamp O' (VStr s) = Ok (VInt KInt64 n)
                   /\ exportToTimestamp O' (VStr s) = Ok (VInt KInt64 n)
                   /\ ToTime O' (VStr s) = Ok (VTime {| tsec := n; tnsec := 0; toff := o_local_off O n |})).
Proof.
  intros Hz Hr. exists (fmt_rfc3339 (time_Unix O n)).
  pose proof (render_timestamp_instant O n Hz) as Ep.
  assert (Hy : year_ok (time_Unix O n)).
  { destruct Hz as [_ Hs]. apply (sec_range_year (time_Unix O n)). exact Hs. }
  split; [reflexivity|]. split; [exact (importFromTimestamp_num O n Hr)|]. split; [exact (exportToDateTime_int64 O n Hy)|].
  split; [exact Ep|]. intros O'.
  pose proof (ToTimestamp_of_fast O' _ _ Ep) as Et. cbn [tsec] in Et.
  split; [exact Et|]. split; [|exact (ToTime_of_fast O' _ _ Ep)].
  change (exportToTimestamp O' ?v) with
    (match ToTimestamp O' v with Ok v_i64 => Ok v_i64 | Err _ => Err ErrUnsupportedExportType | Panic => Panic | Fuel => Fuel end).
  rewrite Et. reflexivity.
Qed.

Lemma c14_dt_to_ts (O : oracles) y mo d hh mi ss (frac : str) zs :
  civil_ok y mo d hh mi ss -> Forall digit_char frac -> zone_ok zs ->
  let s := rfc3339_text y mo d hh mi ss frac zs in
  let instant := unix_of_civil y mo d hh mi ss - zone_off zs in
  exists t,
    importFromDateTime O (VStr s) VNil = Ok (VTime t) /\ tsec t = instant /\ toff t = zone_off zs
    /\ exportToTimestamp O (VTime t) = Ok (VInt KInt64 instant)
    /\ ToTimestamp O (VStr s) = Ok (VInt KInt64 instant)
    /\ exportToTimestamp O (VStr s) = Ok (VInt KInt64 instant)
    /\ exportToDateTime O (VTime t) = Ok (VStr (rfc3339_text y mo d hh mi ss [] (zcanon zs))).
Proof.
  intros Hc Hf Hz s instant. exists (time_of_text y mo d hh mi ss frac zs).
  split; [exact (importFromDateTime_text O y mo d hh mi ss frac zs Hc Hf Hz)|].
  split; [reflexivity|]. split; [reflexivity|]. split; [reflexivity|].
  split; [exact (ToTimestamp_text O y mo d hh mi ss frac zs Hc Hf Hz)|].
  split; [exact (exportToTimestamp_text O y mo d hh mi ss frac zs Hc Hf Hz)|].
  rewrite exportToDateTime_time by (now apply year_ok_of_text). unfold time_of_text. rewrite fmt_of_parsed by assumption. reflexivity.
Qed.

Lemma c14_subsecond_floor (O : oracles) y mo d hh mi ss (frac : str) zs :
  civil_ok y mo d hh mi ss -> Forall digit_char frac -> zone_ok zs ->
  let s := rfc3339_text y mo d hh mi ss frac zs in
  let instant := unix_of_civil y mo d hh mi ss - zone_off zs in
  exists t,
    ToTime O (VStr s) = Ok (VTime t) /\ tsec t = instant
    /\ tnsec t = horner frac 0 * 10 ^ 9 / 10 ^ Z.of_nat (length frac) /\ 0 <= tnsec t < 10 ^ 9
    /\ ToString O (VTime t) = Ok (VStr (rfc3339_text y mo d hh mi ss [] (zcanon zs)))
    /\ ToTimestamp O (VTime t) = Ok (VInt KInt64 instant)
    /\ ToTimestamp O (VStr s) = Ok (VInt KInt64 instant).
Proof.
  intros Hc Hf Hz s instant. exists (time_of_text y mo d hh mi ss frac zs).
  split; [exact (ToTime_text O y mo d hh mi ss frac zs Hc Hf Hz)|].
  split; [reflexivity|]. split; [reflexivity|].
  split; [exact (frac_floor_range frac Hf)|].
  split; [exact (ToString_time_of_text O y mo d hh mi ss frac zs Hc Hz)|].
  split; [reflexivity|]. exact (ToTimestamp_text O y mo d hh mi ss frac zs Hc Hf Hz).
Qed.

Lemma c14_nanos_ignored (O : oracles) a ns ns' off :
  ToString O (VTime {| tsec := a; tnsec := ns; toff := off |}) = ToString O (VTime {| tsec := a; tnsec := ns'; toff := off |})
  /\ ToTimestamp O (VTime {| tsec := a; tnsec := ns; toff := off |}) = Ok (VInt KInt64 a)
  /\ exportToTimestamp O (VTime {| tsec := a; tnsec := ns; toff := off |}) = Ok (VInt KInt64 a).
Proof. repeat split; reflexivity. Qed.

Lemma c14_zone_independent (O1 O2 : oracles) n :
  zone_hyp O1 n -> zone_hyp O2 n ->
  exists s1 s2,
    exportToDateTime O1 (VInt KInt64 n) = Ok (VStr s1) /\ exportToDateTime O2 (VInt KInt64 n) = Ok (VStr s2)
    /\ option_map tsec (parse_rfc3339_fast s1) = Some n /\ option_map tsec (parse_rfc3339_fast s2) = Some n
    /\ (forall O', ToTimestamp O' (VStr s1) = Ok (VInt KInt64 n) /\ ToTimestamp O' (VStr s2) = Ok (VInt KInt64 n)).
Proof.
  intros H1 H2. exists (fmt_rfc3339 (time_Unix O1 n)), (fmt_rfc3339 (time_Unix O2 n)).
  pose proof (render_timestamp_instant O1 n H1) as E1. pose proof (render_timestamp_instant O2 n H2) as E2.
  assert (Hy1 : year_ok (time_Unix O1 n)) by (destruct H1 as [_ Hs]; exact (proj2 (sec_range_year (time_Unix O1 n) Hs))).
  assert (Hy2 : year_ok (time_Unix O2 n)) by (destruct H2 as [_ Hs]; exact (proj2 (sec_range_year (time_Unix O2 n) Hs))).
  split; [exact (exportToDateTime_int64 O1 n Hy1)|]. split; [exact (exportToDateTime_int64 O2 n Hy2)|].
  split; [rewrite E1; reflexivity|]. split; [rewrite E2; reflexivity|].
  intros O'. split; [exact (ToTimestamp_of_fast O' _ _ E1) | exact (ToTimestamp_of_fast O' _ _ E2)].
Qed.

(* ---------- the hypotheses are satisfiable ---------- *)
Definition ex_oracles (off : Z -> Z) : oracles :=
  {| o_ffmt := fun _ _ _ _ => []; o_fparse := fun _ _ => None; o_f2i := fun _ _ => 0;
     o_local_off := off; o_time_parse_slow := fun _ => None |}.

(* Europe/Paris in 2024: +01:00, +02:00 between the last Sundays of March and October 01:00 UTC *)
Definition paris_2024 (s : Z) : Z := if (1711846800 <=? s) && (s <? 1729990800) then 7200 else 3600.
(* America/St_Johns in 2024: -03:30, -02:30 in summer *)
Definition st_johns_2024 (s : Z) : Z := if (1710048600 <=? s) && (s <? 1730608200) then -9000 else -12600.

Example zone_hyp_paris :
  zone_hyp (ex_oracles paris_2024) 1711846799 /\ zone_hyp (ex_oracles paris_2024) 1711846800
  /\ exportToDateTime (ex_oracles paris_2024) (VInt KInt64 1711846799)
     = Ok (VStr [50;48;50;52;45;48;51;45;51;49;84;48;49;58;53;57;58;53;57;43;48;49;58;48;48])
  /\ exportToDateTime (ex_oracles paris_2024) (VInt KInt64 1711846800)
     = Ok (VStr [50;48;50;52;45;48;51;45;51;49;84;48;51;58;48;48;58;48;48;43;48;50;58;48;48]).
Proof.
  unfold zone_hyp, off_ok, sec_range. cbn [o_local_off ex_oracles]. unfold paris_2024.
  repeat split; try (vm_compute; congruence); vm_compute; reflexivity.
Qed.

Example zone_hyp_half_hours :
  zone_hyp (ex_oracles (fun _ => 19800)) 0 /\ zone_hyp (ex_oracles st_johns_2024) 1710048600
  /\ zone_hyp (ex_oracles (fun _ => 0)) 253402214400
  /\ exportToDateTime (ex_oracles st_johns_2024) (VInt KInt64 1710048599)
     = Ok (VStr [50;48;50;52;45;48;51;45;49;48;84;48;49;58;53;57;58;53;57;45;48;51;58;51;48]).
Proof.
  unfold zone_hyp, off_ok, sec_range. cbn [o_local_off ex_oracles]. unfold st_johns_2024.
  repeat split; try (vm_compute; congruence); vm_compute; reflexivity.
Qed.
