(* C10 — casts are total and return exactly the requested type: lemmas over CastGen. *)
From Coq Require Import ZArith List Bool Lia.
From JL.std Require Import GoBase GoFloat GoStrconv GoTime GoVal GoBase64.
From JL.gen Require Import CastGen.
From JL.proofs Require Import CastTactics.
Import ListNotations.
Open Scope Z_scope.

Inductive vkind :=
| KNil | KBool | KI (k : ikind) | KF64 | KF32 | KStr | KBytes | KNum | KTime | KByteArr | KOther.

Definition kind_of (v : gval) : vkind :=
  match v with
  | VNil => KNil | VBool _ => KBool | VInt k _ => KI k | VF64 _ => KF64 | VF32 _ => KF32
  | VStr _ => KStr | VBytes _ => KBytes | VNum _ => KNum | VTime _ => KTime
  | VByteArr _ => KByteArr | VOther _ => KOther
  end.

(* what a cast owes its caller: no panic, no fuel exhaustion; a nil error comes with a result that
   is nil exactly when the input is nil and otherwise of exactly the wanted kind; an error wraps
   the root sentinel *)
Definition good (want : option vkind) (v : gval) (r : res gval) : Prop :=
  match r with
  | Ok x => (x = VNil <-> v = VNil)
            /\ (x <> VNil -> match want with Some k => kind_of x = k | None => True end)
  | Err e => cast_sentinel_wraps_root e = true
  | Panic => False
  | Fuel => False
  end.

Ltac cast_names := cast_unfold_top; lazy beta iota zeta delta [good kind_of cast_sentinel_wraps_root].

Lemma put_le_make' n v : put_le n (make_bytes (Z.of_nat n)) v = Some (le_bytes n v).
Proof.
  unfold put_le, make_bytes. rewrite Nat2Z.id, repeat_length.
  rewrite Z.ltb_irrefl. rewrite skipn_all2 by (rewrite repeat_length; lia).
  rewrite app_nil_r. reflexivity.
Qed.

Lemma get_le_len n b : (blen b =? Z.of_nat n) = true -> exists z, get_le n (bdata b) = Some z.
Proof.
  unfold blen, get_le. intros H. apply Z.eqb_eq in H. rewrite H, Z.ltb_irrefl. eexists; reflexivity.
Qed.

Lemma get_at_len1 b : (blen b =? 1) = true -> exists z, get_at (bdata b) 0 = Some z.
Proof.
  unfold blen, get_at. intros H. apply Z.eqb_eq in H. destruct (bdata b) as [|x r]; [discriminate|].
  exists x. reflexivity.
Qed.

(* finishing tactic: after case analysis every goal is a trivial fact about constructors *)
Ltac fin :=
  repeat match goal with
  | |- _ /\ _ => split
  | |- _ <-> _ => split
  | |- _ -> _ => intro
  | H : _ = _ |- _ => discriminate H
  | H : ?x <> ?x |- _ => contradiction H; reflexivity
  end; try reflexivity; try congruence; try exact I; try tauto.

Section CastTotal.
  Context (O : oracles).

  (* one step of case analysis on an innermost opaque scrutinee *)
  Ltac destruct_inner x :=
    lazymatch x with
    | context [match ?y with _ => _ end] => destruct_inner y
    | _ => cast_no_levels x; let E := fresh "E" in destruct x eqn:E
    end.

  Ltac step :=
    match goal with
    | |- context [put_le 8 (make_bytes 8) ?v] => change (make_bytes 8) with (make_bytes (Z.of_nat 8)); rewrite put_le_make'
    | |- context [put_le 4 (make_bytes 4) ?v] => change (make_bytes 4) with (make_bytes (Z.of_nat 4)); rewrite put_le_make'
    | |- context [put_le 2 (make_bytes 2) ?v] => change (make_bytes 2) with (make_bytes (Z.of_nat 2)); rewrite put_le_make'
    | |- context [set_at (make_bytes 1) 0 ?v] => change (set_at (make_bytes 1) 0 v) with (Some [v])
    | H : (blen ?b =? 8) = true |- context [get_le 8 (bdata ?b)] =>
        let z := fresh "z" in let E := fresh "E" in destruct (get_le_len 8 b H) as [z E]; rewrite E
    | H : (blen ?b =? 4) = true |- context [get_le 4 (bdata ?b)] =>
        let z := fresh "z" in let E := fresh "E" in destruct (get_le_len 4 b H) as [z E]; rewrite E
    | H : (blen ?b =? 2) = true |- context [get_le 2 (bdata ?b)] =>
        let z := fresh "z" in let E := fresh "E" in destruct (get_le_len 2 b H) as [z E]; rewrite E
    | H : (blen ?b =? 1) = true |- context [get_at (bdata ?b) 0] =>
        let z := fresh "z" in let E := fresh "E" in destruct (get_at_len1 b H) as [z E]; rewrite E
    | |- context [match ?x with _ => _ end] => destruct_inner x
    end.


  Lemma orb_false_blen b n : (bnil b || negb (blen b =? n)) = false -> (blen b =? n) = true.
  Proof. destruct (bnil b), (blen b =? n); cbn; congruence. Qed.

  Lemma negb_false_blen b n : negb (blen b =? n) = false -> (blen b =? n) = true.
  Proof. destruct (blen b =? n); cbn; congruence. Qed.

  Ltac prep :=
    repeat match goal with
    | H : (bnil ?b || negb (blen ?b =? ?n)) = false |- _ => apply orb_false_blen in H
    | H : negb (blen ?b =? ?n) = false |- _ => apply negb_false_blen in H
    end.

  Ltac loop n := repeat (prep; step; n; lazy beta iota zeta delta [good kind_of cast_sentinel_wraps_root]).
  Ltac crush2 :=
    cast_names; loop cast_unfold_top;
    try (progress cast_unfold_4; loop cast_unfold_4;
         try (progress cast_unfold_3; loop cast_unfold_3;
              try (progress cast_unfold_2; loop cast_unfold_2;
                   try (progress cast_unfold_1; loop cast_unfold_1;
                        try (progress cast_unfold_0; loop cast_unfold_0)))));
    lazy beta iota zeta delta [good kind_of cast_sentinel_wraps_root]; fin.

  Lemma ToInt_good v : good (Some (KI KInt)) v (ToInt O v).
  Proof. destruct v as [| b | k z | x | x | s | b | s | t | s | g]; try destruct k; crush2. Qed.
  Lemma ToInt64_good v : good (Some (KI KInt64)) v (ToInt64 O v).
  Proof. destruct v as [| b | k z | x | x | s | b | s | t | s | g]; try destruct k; crush2. Qed.

  Lemma ToInt32_good v : good (Some (KI KInt32)) v (ToInt32 O v).
  Proof. destruct v as [| b | k z | x | x | s | b | s | t | s | g]; try destruct k; crush2. Qed.

  Lemma ToInt16_good v : good (Some (KI KInt16)) v (ToInt16 O v).
  Proof. destruct v as [| b | k z | x | x | s | b | s | t | s | g]; try destruct k; crush2. Qed.

  Lemma ToInt8_good v : good (Some (KI KInt8)) v (ToInt8 O v).
  Proof. destruct v as [| b | k z | x | x | s | b | s | t | s | g]; try destruct k; crush2. Qed.

  Lemma ToUint_good v : good (Some (KI KUint)) v (ToUint O v).
  Proof. destruct v as [| b | k z | x | x | s | b | s | t | s | g]; try destruct k; crush2. Qed.

  Lemma ToUint64_good v : good (Some (KI KUint64)) v (ToUint64 O v).
  Proof. destruct v as [| b | k z | x | x | s | b | s | t | s | g]; try destruct k; crush2. Qed.

  Lemma ToUint32_good v : good (Some (KI KUint32)) v (ToUint32 O v).
  Proof. destruct v as [| b | k z | x | x | s | b | s | t | s | g]; try destruct k; crush2. Qed.

  Lemma ToUint16_good v : good (Some (KI KUint16)) v (ToUint16 O v).
  Proof. destruct v as [| b | k z | x | x | s | b | s | t | s | g]; try destruct k; crush2. Qed.

  Lemma ToUint8_good v : good (Some (KI KUint8)) v (ToUint8 O v).
  Proof. destruct v as [| b | k z | x | x | s | b | s | t | s | g]; try destruct k; crush2. Qed.

  Lemma ToFloat64_good v : good (Some (KF64)) v (ToFloat64 O v).
  Proof. destruct v as [| b | k z | x | x | s | b | s | t | s | g]; try destruct k; crush2. Qed.

  Lemma ToFloat32_good v : good (Some (KF32)) v (ToFloat32 O v).
  Proof. destruct v as [| b | k z | x | x | s | b | s | t | s | g]; try destruct k; crush2. Qed.

  Lemma ToBool_good v : good (Some (KBool)) v (ToBool O v).
  Proof. destruct v as [| b | k z | x | x | s | b | s | t | s | g]; try destruct k; crush2. Qed.

  Lemma ToString_good v : good (Some (KStr)) v (ToString O v).
  Proof. destruct v as [| b | k z | x | x | s | b | s | t | s | g]; try destruct k; crush2. Qed.

  Lemma ToBinary_good v : good (Some (KBytes)) v (ToBinary O v).
  Proof. destruct v as [| b | k z | x | x | s | b | s | t | s | g]; try destruct k; crush2. Qed.

  Lemma ToTime_good v : good (Some (KTime)) v (ToTime O v).
  Proof. destruct v as [| b | k z | x | x | s | b | s | t | s | g]; try destruct k; crush2. Qed.

  Lemma ToNumber_good v : good (Some (KNum)) v (ToNumber O v).
  Proof. destruct v as [| b | k z | x | x | s | b | s | t | s | g]; try destruct k; crush2. Qed.

  Lemma ToDate_good v : good (Some (KStr)) v (ToDate O v).
  Proof. destruct v as [| b | k z | x | x | s | b | s | t | s | g]; try destruct k; crush2. Qed.

  Lemma ToTimestamp_good v : good (Some (KI KInt64)) v (ToTimestamp O v).
  Proof. destruct v as [| b | k z | x | x | s | b | s | t | s | g]; try destruct k; crush2. Qed.

  (* cast.To: the requested type is given by a sample value *)
  Definition result_kind (tgt : gval) : option vkind :=
    match tgt with VNil => None | _ => Some (kind_of tgt) end.

  Lemma To_good tgt v : good (result_kind tgt) v (To O tgt v).
  Proof.
    destruct tgt as [| b | k z | x | x | s | b | s | t | s | g]; try destruct k;
      unfold To; cbv zeta; cbn [result_kind kind_of];
      first [ apply ToInt_good | apply ToInt64_good | apply ToInt32_good | apply ToInt16_good | apply ToInt8_good
            | apply ToUint_good | apply ToUint64_good | apply ToUint32_good | apply ToUint16_good | apply ToUint8_good
            | apply ToFloat64_good | apply ToFloat32_good | apply ToBool_good | apply ToString_good
            | apply ToBinary_good | apply ToTime_good | apply ToNumber_good
            | idtac ].
    - (* nil target: identity *) cbn. split; [tauto | trivial].
    - (* unknown target: [N]byte sample *) reflexivity.
    - (* unknown target: any other dynamic type *) reflexivity.
  Qed.
End CastTotal.
