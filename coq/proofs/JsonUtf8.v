(* UTF-8: Go's table-driven utf8.DecodeRune (utf8_size) against the arithmetic definition of
   the encoding (utf8_encode) used by the reference grammar. *)
From Coq Require Import ZArith List Bool Lia.
From JL.std Require Import GoBase GoJson.
Import ListNotations.
Open Scope Z_scope.

Ltac Zify.zify_post_hook ::= Z.div_mod_to_equations.

Ltac zb1 :=
  match goal with
  | |- context[?a =? ?b] => destruct (Z.eqb_spec a b)
  | |- context[?a <? ?b] => destruct (Z.ltb_spec a b)
  | |- context[?a <=? ?b] => destruct (Z.leb_spec a b)
  end.
Ltac zb := repeat (zb1; try (exfalso; lia); cbn [andb orb negb]).

Ltac zbh H :=
  repeat (match type of H with
          | context[?a =? ?b] => destruct (Z.eqb_spec a b)
          | context[?a <? ?b] => destruct (Z.ltb_spec a b)
          | context[?a <=? ?b] => destruct (Z.leb_spec a b)
          end; try (exfalso; lia); cbn [andb orb negb] in H).

Lemma enc1 c : c < 128 -> utf8_encode c = [c].
Proof. intros. unfold utf8_encode. zb. reflexivity. Qed.

Lemma enc2 b0 b1 : 194 <= b0 < 224 -> 128 <= b1 <= 191 ->
  utf8_encode ((b0 - 192) * 64 + (b1 - 128)) = [b0; b1] /\ 128 <= (b0 - 192) * 64 + (b1 - 128) < 2048.
Proof.
  intros. split; [|lia]. unfold utf8_encode. zb. f_equal; [lia|]. f_equal. lia.
Qed.

Lemma enc3 b0 b1 b2 : 224 <= b0 < 240 -> 128 <= b1 <= 191 -> 128 <= b2 <= 191 ->
  (b0 = 224 -> 160 <= b1) ->
  let c := (b0 - 224) * 4096 + (b1 - 128) * 64 + (b2 - 128) in
  utf8_encode c = [b0; b1; b2] /\ 2048 <= c < 65536.
Proof.
  intros. subst c. split; [|lia]. unfold utf8_encode. zb.
  f_equal; [lia|]. f_equal; [lia|]. f_equal. lia.
Qed.

Lemma enc4 b0 b1 b2 b3 : 240 <= b0 < 245 -> 128 <= b1 <= 191 -> 128 <= b2 <= 191 -> 128 <= b3 <= 191 ->
  (b0 = 240 -> 144 <= b1) -> (b0 = 244 -> b1 <= 143) ->
  let c := (b0 - 240) * 262144 + (b1 - 128) * 4096 + (b2 - 128) * 64 + (b3 - 128) in
  utf8_encode c = [b0; b1; b2; b3] /\ 65536 <= c <= 1114111.
Proof.
  intros. subst c. split; [|lia]. unfold utf8_encode. zb.
  f_equal; [lia|]. f_equal; [lia|]. f_equal; [lia|]. f_equal. lia.
Qed.

Lemma utf8_encode_length c : (1 <= length (utf8_encode c) <= 4)%nat.
Proof. unfold utf8_encode. zb; cbn; lia. Qed.

Lemma utf8_encode_nonnil c : utf8_encode c <> [].
Proof. unfold utf8_encode. zb; discriminate. Qed.

(* the head byte of a multi-byte form is >= 194, of a one-byte form the code point itself *)
Lemma utf8_encode_head c : 0 <= c <= 1114111 ->
  exists b t, utf8_encode c = b :: t /\ (c < 128 -> b = c /\ t = []) /\ (128 <= c -> 194 <= b < 245 /\ t <> []).
Proof.
  intros. unfold utf8_encode. zb; eexists; eexists; (split; [reflexivity|]); split; intros;
    first [ exfalso; lia | split; [lia|discriminate] | split; [lia|reflexivity] ].
Qed.

(* DecodeRune accepts the encoding of every scalar value, with its exact length *)
Lemma utf8_size_encode c r : scalar c -> utf8_size (utf8_encode c ++ r) = length (utf8_encode c).
Proof.
  unfold scalar. intros Hs. unfold utf8_encode.
  destruct (Z.ltb_spec c 128); [|destruct (Z.ltb_spec c 2048); [|destruct (Z.ltb_spec c 65536)]];
    cbn [app utf8_size length]; unfold is_cont, in_rng; zb; reflexivity.
Qed.

(* ... and nothing else: a non-zero size at a non-ASCII head is the encoding of a scalar value *)
Lemma utf8_size_decode b0 r n :
  128 <= b0 -> utf8_size (b0 :: r) = n -> n <> 0%nat ->
  exists c, scalar c /\ 128 <= c /\ firstn n (b0 :: r) = utf8_encode c /\ length (utf8_encode c) = n.
Proof.
  intros Hb H Hn. unfold utf8_size in H.
  destruct (Z.ltb_spec b0 128); [lia|].
  destruct (Z.ltb_spec b0 194); [congruence|].
  destruct (Z.ltb_spec b0 224).
  { destruct r as [|b1 r]; [congruence|]. unfold is_cont, in_rng in H.
    destruct (Z.leb_spec 128 b1); cbn [andb] in H; [|congruence].
    destruct (Z.leb_spec b1 191); [|congruence]. subst n.
    destruct (enc2 b0 b1) as [E R]; try lia.
    exists ((b0 - 192) * 64 + (b1 - 128)). unfold scalar. rewrite E. cbn. repeat split; try lia. }
  destruct (Z.ltb_spec b0 240).
  { destruct r as [|b1 [|b2 r]]; try congruence. unfold is_cont, in_rng in H.
    destruct (enc3 b0 b1 b2) as [E R]; try lia.
    all: try (exists ((b0 - 224) * 4096 + (b1 - 128) * 64 + (b2 - 128)); unfold scalar; rewrite E;
              revert H; zb; intros; try congruence; subst n; cbn; repeat split; try lia).
    all: revert H; zb; intros; try congruence; try lia. }
  destruct (Z.ltb_spec b0 245); [|congruence].
  destruct r as [|b1 [|b2 [|b3 r]]]; try congruence. unfold is_cont, in_rng in H.
  destruct (enc4 b0 b1 b2 b3) as [E R]; try lia.
  all: try (exists ((b0 - 240) * 262144 + (b1 - 128) * 4096 + (b2 - 128) * 64 + (b3 - 128)); unfold scalar; rewrite E;
            revert H; zb; intros; try congruence; subst n; cbn; repeat split; try lia).
  all: revert H; zb; intros; try congruence; try lia.
Qed.
