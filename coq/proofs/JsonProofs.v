(* The JSON layer: closed theorems for C16 (accepted iff exactly one valid JSON object),
   C01 (what is written is one valid JSON object, no raw LF) and C02 (read-then-write is
   lossless and order preserving), over the executable models of JL.std.GoJson.

   Files: JsonUtf8 (utf8.DecodeRune vs the encoding), JsonNumber (number grammar vs scanner vs
   isValidNumber), JsonStr (string literals: decoder, encoder, grammar), JsonTok (Token machine
   infrastructure), JsonParseC (grammar => reader accepts and rebuilds the tree), JsonParseS
   (strict reader accepts => grammar), JsonWrite (writer => grammar), JsonRec (reference
   recogniser <=> grammar), JsonFuel (parser fuel is never exhausted). *)
From Coq Require Import ZArith List Bool Lia.
From JL.std Require Import GoBase GoStrconv GoJsonNum GoJson GoJsonStrict GoJsonMarshal.
From JL.proofs Require Import JsonUtf8 JsonNumber JsonStr JsonTok JsonParseC JsonParseS JsonWrite JsonRec JsonFuel.
Import ListNotations.
Open Scope Z_scope.

(* ================= strings (C01 heart) ================= *)

(* For EVERY byte string s (ill-formed UTF-8, control characters, quotes, U+2028 ... included):
   json.Marshal(s) is a string literal of the reference grammar denoting s with each ill-formed
   byte replaced by U+FFFD; it is accepted by the reference recogniser; it contains only bytes
   0x20..0xFF, hence no line feed; decoding it gives that string back, and s itself when s is
   well-formed UTF-8. *)
Theorem encode_string_valid s :
  bytes_ok s ->
  (forall t, jvalue (encode_string s ++ t) (JStr (sanitize s)) t)
  /\ is_json_value (encode_string s) = true
  /\ Forall (fun b => 32 <= b < 256) (encode_string s)
  /\ ~ In 10 (encode_string s)
  /\ decode_string (encode_string s) = Some (sanitize s)
  /\ (utf8_valid s = true -> decode_string (encode_string s) = Some s).
Proof.
  intros Hs. split; [intros t; apply encode_string_spells; exact Hs|].
  split.
  { apply is_json_value_iff. exists (JStr (sanitize s)). exists (encode_string s), [].
    split; [apply ws_nil|]. split; [|apply ws_nil].
    pose proof (encode_string_spells s [] Hs) as H. rewrite app_nil_r in H. exact H. }
  split; [apply encode_string_bytes; exact Hs|].
  split; [apply encode_string_no_lf; exact Hs|].
  split; [apply decode_encode_gen; exact Hs|].
  intros Hv. apply decode_encode; auto.
Qed.

Example encode_string_valid_example :
  bytes_ok [1; 60; 226; 128; 168; 255; 195; 169; 127; 34; 10]
  /\ sanitize [1; 60; 226; 128; 168; 255; 195; 169; 127; 34; 10]
     = [1; 60; 226; 128; 168; 239; 191; 189; 195; 169; 127; 34; 10].
Proof. split; [repeat constructor; unfold is_byte; lia|vm_compute; reflexivity]. Qed.

(* ================= writer (C01 core) ================= *)

(* Whatever json.Marshal / row.MarshalJSON write for a tree is a JSON value of the reference
   grammar (an object for an object), made of bytes 0x20..0xFF only: no raw LF. *)
Theorem write_valid v out :
  jv_bytes_ok v -> write_jv v = Some out ->
  spells out (sanitize_jv v)
  /\ is_json_value out = true
  /\ (forall m, v = JObj m -> is_json_object out = true)
  /\ Forall (fun b => 32 <= b < 256) out
  /\ ~ In 10 out.
Proof.
  intros Hok Hw. pose proof (write_spells v out Hw Hok) as Hs.
  split; [exact Hs|]. split; [apply is_json_value_iff; eauto|].
  split.
  { intros m ->. apply is_json_object_iff. cbn [sanitize_jv] in Hs. eauto. }
  split; [eapply write_bytes; eauto|eapply write_no_lf; eauto].
Qed.

Lemma opt_all_mono {A B} (f g : A -> option B) l parts :
  (forall x y, f x = Some y -> g x = Some y) ->
  opt_all (map f l) = Some parts -> opt_all (map g l) = Some parts.
Proof.
  intros H. revert parts. induction l as [|x l IH]; intros parts E; [exact E|].
  cbn [map opt_all] in *. destruct (f x) as [y|] eqn:Ef; [|discriminate].
  rewrite (H x y Ef). destruct (opt_all (map f l)) as [ys|]; [|discriminate].
  rewrite (IH ys eq_refl). exact E.
Qed.

(* row.MarshalJSON as called by Row.String / Exporter.Export: the same text, or an error *)
Theorem write_row_write_jv m out : write_row m = Some out -> write_jv (JObj m) = Some out.
Proof.
  unfold write_row. cbn [write_jv]. intros H.
  match type of H with match opt_all (map ?f m) with _ => _ end = _ =>
    destruct (opt_all (map f m)) as [parts|] eqn:E; [|discriminate] end.
  erewrite opt_all_mono; [exact H| |exact E].
  intros [k v] y. cbn [fst snd]. unfold marshal_member.
  destruct (jdepth v <=? max_nesting); [auto|discriminate].
Qed.

Theorem write_row_valid m out :
  jv_bytes_ok (JObj m) -> write_row m = Some out ->
  is_json_object out = true /\ Forall (fun b => 32 <= b < 256) out /\ ~ In 10 out.
Proof.
  intros Hok Hw. apply write_row_write_jv in Hw.
  destruct (write_valid (JObj m) out Hok Hw) as (_ & _ & Ho & Hb & Hl). eauto.
Qed.

Theorem write_row_shallow m :
  Forall (fun kv => jdepth (snd kv) <= max_nesting) m -> write_row m = write_jv (JObj m).
Proof.
  intros H. unfold write_row. cbn [write_jv].
  match goal with |- match opt_all ?a with _ => _ end = match opt_all ?b with _ => _ end =>
    replace a with b; [reflexivity|] end.
  induction H as [|[k v] m Hd _ IH]; [reflexivity|]. cbn [map fst snd] in *. rewrite IH. f_equal.
  unfold marshal_member. destruct (Z.leb_spec (jdepth v) max_nesting); [reflexivity|lia].
Qed.

Example write_valid_example :
  write_jv (JObj [([97; 1], JArr [JNum [49; 69; 43; 50]; JStr [255]; JObj []])])
  = Some [123; 34;97;92;117;48;48;48;49;34; 58; 91; 49;69;43;50; 44; 34;92;117;102;102;102;100;34; 44; 123;125; 93; 125].
Proof. vm_compute. reflexivity. Qed.

(* ================= reader: completeness and round trip (C02 core, C16 <=) ================= *)

(* every text the grammar derives as the object m is accepted and gives exactly m: all members,
   in order, at every depth, strings decoded, number literals verbatim *)
Theorem parse_complete b m : spells b (JObj m) -> parse_top b = (m, true).
Proof. intros H. rewrite <- gparse_top_false. apply gparse_complete. exact H. Qed.

Theorem parse_complete_strict b m : spells b (JObj m) -> parse_top_strict b = (m, true).
Proof. apply gparse_complete. Qed.

(* what is read is written back as a text that spells the same tree, and re-reading that text
   gives the same tree and the same bytes (fixed point) *)
Theorem roundtrip b m :
  spells b (JObj m) ->
  parse_top b = (m, true)
  /\ exists out, write_jv (JObj m) = Some out
       /\ spells out (JObj m)
       /\ parse_top out = (m, true)
       /\ write_jv (JObj (fst (parse_top out))) = Some out
       /\ ~ In 10 out.
Proof.
  intros H. split; [apply parse_complete; exact H|].
  destruct H as (s1 & r & _ & Hv & _).
  pose proof (proj1 grammar_wf _ _ _ Hv) as Hwf.
  destruct (wf_writes _ Hwf) as (Hok & Hsan & out & Hw).
  exists out. split; [exact Hw|].
  pose proof (write_spells _ _ Hw Hok) as Hs. rewrite Hsan in Hs.
  split; [exact Hs|]. pose proof (parse_complete out m Hs) as Hp.
  split; [exact Hp|]. rewrite Hp. cbn [fst]. split; [exact Hw|eapply write_no_lf; eauto].
Qed.

(* the same through row.MarshalJSON with encoding/json's nesting limit: members nested at most
   10000 deep are written; deeper ones are read but cannot be written (marshal error) *)
Theorem roundtrip_row b m :
  spells b (JObj m) -> Forall (fun kv => jdepth (snd kv) <= max_nesting) m ->
  exists out, write_row (fst (parse_top b)) = Some out /\ spells out (JObj m)
              /\ parse_top out = (m, true) /\ write_row (fst (parse_top out)) = Some out.
Proof.
  intros H Hd. destruct (roundtrip b m H) as (Hp & out & Hw & Hs & Hp2 & _ & _).
  exists out. rewrite Hp, Hp2. cbn [fst]. rewrite (write_row_shallow m Hd). auto.
Qed.

(* the writer's output for a well-formed tree reads back as that tree *)
Theorem write_read m out :
  jv_wf (JObj m) -> write_jv (JObj m) = Some out -> parse_top out = (m, true).
Proof.
  intros Hwf Hw. destruct (wf_writes _ Hwf) as (Hok & Hsan & _).
  pose proof (write_spells _ _ Hw Hok) as Hs. rewrite Hsan in Hs. apply parse_complete. exact Hs.
Qed.

Example roundtrip_example :
  (* {"a" : [1E+2, "é😀"] , "a":{}}  — duplicate names are kept, in order *)
  parse_top [123;34;97;34;32;58;32;91;49;69;43;50;44;32;34;92;117;48;48;101;57;92;117;100;56;51;100;92;117;100;101;48;48;34;93;32;44;32;34;97;34;58;123;125;125]
  = ([([97], JArr [JNum [49;69;43;50]; JStr [195;169;240;159;152;128]]); ([97], JObj [])], true).
Proof. vm_compute. reflexivity. Qed.

(* ================= reader: soundness (C16 =>) ================= *)

(* a line accepted without any U+FFFD substitution is exactly one JSON object of the grammar *)
Theorem parse_sound_strict b m : parse_top_strict b = (m, true) -> spells b (JObj m).
Proof. apply gparse_sound. Qed.

Theorem parse_sound b :
  no_substitution b -> snd (parse_top b) = true -> is_json_object b = true.
Proof.
  intros Hns Ha. specialize (Hns Ha). unfold parse_top_strict in Hns.
  destruct (gparse_top true b) as [m ok] eqn:E. cbn [snd] in Hns. subst ok.
  apply is_json_object_iff. exists m. apply gparse_sound. exact E.
Qed.

(* C16 core *)
Theorem parse_iff b :
  no_substitution b -> (snd (parse_top b) = true <-> is_json_object b = true).
Proof.
  intros Hns. split; [apply parse_sound; exact Hns|].
  intros H. apply is_json_object_iff in H as (m & Hm). rewrite (parse_complete b m Hm). reflexivity.
Qed.

(* the hypothesis is only about lines that encoding/json repairs: a line of the grammar needs none *)
Theorem spells_no_substitution b m : spells b (JObj m) -> no_substitution b.
Proof. intros H _. unfold parse_top_strict. rewrite (gparse_complete true b m H). reflexivity. Qed.

(* a rejected line: whatever was imported so far, the call fails (jsonline returns a nil row) *)
Theorem reject_not_object b : snd (parse_top b) = false -> is_json_object b = false.
Proof.
  intros H. destruct (is_json_object b) eqn:E; [|reflexivity].
  apply is_json_object_iff in E as (m & Hm). rewrite (parse_complete b m Hm) in H. discriminate.
Qed.

(* ================= fuel ================= *)

(* tokenize never runs out of fuel: any fuel above the input length gives the same run *)
Theorem tokenize_fuel s k : tok_run (S (length s) + k) TopValue [] s = tokenize s.
Proof. unfold tokenize. apply tok_run_fuel; lia. Qed.

(* parse_tokens never runs out of fuel *)
Theorem parse_fuel rest k :
  p_object (2 * length rest + 2 + k) rest [] = p_object (2 * length rest + 2) rest [].
Proof. apply parse_tokens_fuel. Qed.
