(* Soundness of the strict reader: whatever gparse_top true accepts is a text of the RFC 8259
   grammar spelling exactly the object returned; and the classic holes of hand-written readers
   (trailing garbage, literal prefixes, truncated input) stated on the lenient reader. *)
From Coq Require Import ZArith List Bool Lia.
From JL.std Require Import GoBase GoStrconv GoJsonNum GoJson GoJsonStrict.
From JL.proofs Require Import JsonUtf8 JsonNumber JsonStr JsonTok JsonParseC.
Import ListNotations.
Open Scope Z_scope.

(* ---------- grammar fragments that correspond to machine states ---------- *)

Definition jestart (s : str) (l : list jv) (r : str) : Prop :=
  (l = [] /\ ws s (93 :: r)) \/ jelems s l r.
Definition jetail (s : str) (l : list jv) (r : str) : Prop :=
  (l = [] /\ ws s (93 :: r)) \/ exists s3, ws s (44 :: s3) /\ jelems s3 l r.
Definition jmstart (s : str) (m : list (str * jv)) (r : str) : Prop :=
  (m = [] /\ ws s (125 :: r)) \/ jmembers s m r.
Definition jmtail (s : str) (m : list (str * jv)) (r : str) : Prop :=
  (m = [] /\ ws s (125 :: r)) \/ exists s6, ws s (44 :: s6) /\ jmembers s6 m r.

Lemma glue_elems s s1 v s2 l r :
  ws s s1 -> jvalue s1 v s2 -> jetail s2 l r -> jelems s (v :: l) r.
Proof.
  intros W V [[-> T]|(s3 & T & E)]; [eapply E_last|eapply E_more]; eauto.
Qed.

Lemma glue_members s s1 k s2 s3 s4 v s5 m r :
  ws s (34 :: s1) -> jchars s1 k s2 -> ws s2 (58 :: s3) -> ws s3 s4 -> jvalue s4 v s5 ->
  jmtail s5 m r -> jmembers s ((k, v) :: m) r.
Proof.
  intros A B C D E [[-> T]|(s6 & T & M)]; [eapply M_last|eapply M_more]; eauto.
Qed.

(* ---------- inversion of the recursive descent ---------- *)

Lemma p_value_inv f t rest v rest' :
  p_value f t rest = Some (v, rest') ->
  exists f', f = S f' /\
    ((is_delim t = false /\ v = tok_val t /\ rest' = rest)
     \/ (t = TDelim 123 /\ exists m, p_object f' rest [] = (m, Some rest') /\ v = JObj m)
     \/ (t = TDelim 91 /\ exists l, p_array f' rest [] = Some (l, rest') /\ v = JArr l)).
Proof.
  destruct f as [|f]; [discriminate|]. intros H. exists f. split; [reflexivity|].
  cbn [p_value] in H. destruct t as [c|x|x|x|].
  - destruct (Z.eqb_spec c 123).
    + subst. right; left. split; [reflexivity|].
      destruct (p_object f rest []) as [m [r|]] eqn:E; [|discriminate]. inversion H; subst. eauto.
    + destruct (Z.eqb_spec c 91); [|discriminate]. subst. right; right. split; [reflexivity|].
      destruct (p_array f rest []) as [[l r]|] eqn:E; [|discriminate]. inversion H; subst. eauto.
  - inversion H; subst. left. auto.
  - inversion H; subst. left. auto.
  - inversion H; subst. left. auto.
  - inversion H; subst. left. auto.
Qed.

Lemma p_object_inv f toks acc ms rest' :
  p_object f toks acc = (ms, Some rest') ->
  exists f', f = S f' /\
    ((exists tl, toks = TDelim 125 :: tl /\ ms = rev acc /\ rest' = tl)
     \/ (exists k t2 tl v r, toks = TStr k :: t2 :: tl /\ p_value f' t2 tl = Some (v, r) /\
                             p_object f' r ((k, v) :: acc) = (ms, Some rest'))).
Proof.
  destruct f as [|f]; [discriminate|]. intros H. exists f. split; [reflexivity|].
  cbn [p_object] in H. destruct toks as [|t tl]; [discriminate|].
  destruct t as [c|k|x|x|]; try discriminate.
  - destruct (Z.eqb_spec c 125); [|discriminate]. subst. inversion H; subst. left. eauto.
  - destruct tl as [|t2 tl]; [discriminate|].
    destruct (p_value f t2 tl) as [[v r]|] eqn:E; [|discriminate].
    right. exists k, t2, tl, v, r. auto.
Qed.

Lemma p_array_inv f toks acc l rest' :
  p_array f toks acc = Some (l, rest') ->
  exists f', f = S f' /\
    ((exists tl, toks = TDelim 93 :: tl /\ l = rev acc /\ rest' = tl)
     \/ (exists t tl v r, toks = t :: tl /\ t <> TDelim 93 /\ p_value f' t tl = Some (v, r) /\
                          p_array f' r (v :: acc) = Some (l, rest'))).
Proof.
  destruct f as [|f]; [discriminate|]. intros H. exists f. split; [reflexivity|].
  cbn [p_array] in H. destruct toks as [|t tl]; [discriminate|].
  destruct t as [c|x|x|x|].
  - destruct (Z.eqb_spec c 93).
    + subst. inversion H; subst. left. eauto.
    + destruct (Z.eqb_spec c 125); [discriminate|].
      destruct (p_value f (TDelim c) tl) as [[v r]|] eqn:E; [|discriminate].
      right. exists (TDelim c), tl, v, r. repeat split; auto. congruence.
  - destruct (p_value f (TStr x) tl) as [[v r]|] eqn:E; [|discriminate].
    right. exists (TStr x), tl, v, r. repeat split; auto. discriminate.
  - destruct (p_value f (TNum x) tl) as [[v r]|] eqn:E; [|discriminate].
    right. exists (TNum x), tl, v, r. repeat split; auto. discriminate.
  - destruct (p_value f (TBool x) tl) as [[v r]|] eqn:E; [|discriminate].
    right. exists (TBool x), tl, v, r. repeat split; auto. discriminate.
  - destruct (p_value f TNull tl) as [[v r]|] eqn:E; [|discriminate].
    right. exists TNull, tl, v, r. repeat split; auto. discriminate.
Qed.

Lemma parse_tokens_inv toks eof m :
  parse_tokens toks eof = (m, true) ->
  exists rest f, toks = TDelim 123 :: rest /\ p_object f rest [] = (m, Some []) /\ eof = true.
Proof.
  unfold parse_tokens. destruct toks as [|[c|x|x|x|] rest]; try discriminate.
  destruct (Z.eqb_spec c 123); [|discriminate]. subst.
  destruct (p_object (2 * length rest + 2)%nat rest []) as [m0 [[|x y]|]] eqn:E;
    intros H; inversion H; subst; try discriminate.
  exists rest, (2 * length rest + 2)%nat. auto.
Qed.

(* ---------- shape of single token steps ---------- *)

Lemma gtoks_cons strict st stk s t l flag :
  gtoks strict st stk s = (t :: l, flag) ->
  exists st1 stk1 s1, gtoken strict st stk s = RTok t st1 stk1 s1 /\ gtoks strict st1 stk1 s1 = (l, flag).
Proof.
  rewrite gtoks_unfold. destruct (gtoken strict st stk s) as [t' st1 stk1 s1| |]; try discriminate.
  destruct (gtoks strict st1 stk1 s1) as [l' b] eqn:E. intros H; inversion H; subst.
  exists st1, stk1, s1. split; [reflexivity|exact E].
Qed.

Lemma gtoken_close_obj strict st stk s st1 stk1 s1 :
  gtoken strict st stk s = RTok (TDelim 125) st1 stk1 s1 ->
  skip_ws s = 125 :: s1 /\ exists q, stk = q :: stk1 /\ st1 = value_end q.
Proof.
  intros H. apply gtoken_inv in H as (p & st' & H & Hp). apply gtoken_nosep_inv in H.
  destruct H as [(_ & T & _)|[(_ & T & _)|[(_ & T & _)|[(P & _ & C & Q)|[(_ & _ & E & _)|(_ & E & _)]]]]];
    try discriminate T; try (apply gscan_scalar_nodelim in E; discriminate E).
  destruct Hp as [(Ep & -> & _)|[(r0 & _ & _ & _ & ->)|(r0 & _ & _ & [(_ & ->)|(_ & ->)])]];
    try discriminate C.
  split; [congruence|exact Q].
Qed.

Lemma gtoken_close_arr strict st stk s st1 stk1 s1 :
  gtoken strict st stk s = RTok (TDelim 93) st1 stk1 s1 ->
  skip_ws s = 93 :: s1 /\ exists q, stk = q :: stk1 /\ st1 = value_end q.
Proof.
  intros H. apply gtoken_inv in H as (p & st' & H & Hp). apply gtoken_nosep_inv in H.
  destruct H as [(_ & T & _)|[(P & _ & C & Q)|[(_ & T & _)|[(_ & T & _)|[(_ & _ & E & _)|(_ & E & _)]]]]];
    try discriminate T; try (apply gscan_scalar_nodelim in E; discriminate E).
  destruct Hp as [(Ep & -> & _)|[(r0 & _ & _ & _ & ->)|(r0 & _ & _ & [(_ & ->)|(_ & ->)])]];
    try discriminate C.
  split; [congruence|exact Q].
Qed.

Lemma nosep_arrcomma strict stk p t st1 stk1 s1 :
  gtoken_nosep strict ArrayComma stk p = RTok t st1 stk1 s1 -> t = TDelim 93.
Proof.
  intros H. apply gtoken_nosep_inv in H.
  destruct H as [(_ & _ & V & _)|[(_ & T & _)|[(_ & _ & V & _)|[(_ & _ & V & _)|[(V & _)|(V & _)]]]]];
    try discriminate V. exact T.
Qed.

Lemma nosep_objcolon strict stk p t st1 stk1 s1 :
  gtoken_nosep strict ObjectColon stk p = RTok t st1 stk1 s1 -> False.
Proof.
  intros H. apply gtoken_nosep_inv in H.
  destruct H as [(_ & _ & V & _)|[(_ & _ & V & _)|[(_ & _ & V & _)|[(_ & _ & V & _)|[(V & _)|(V & _)]]]]];
    discriminate V.
Qed.

(* the first token of an array element *)
Lemma elem_start strict st stk s t st1 stk1 s1 :
  gtoken strict st stk s = RTok t st1 stk1 s1 ->
  st = ArrayStart \/ st = ArrayComma -> t <> TDelim 93 ->
  exists p st', gtoken_nosep strict st' stk p = RTok t st1 stk1 s1 /\ value_allowed st' = true /\
    value_end st' = ArrayComma /\
    ((st = ArrayStart /\ ws s p) \/ (st = ArrayComma /\ exists r0, ws s (44 :: r0) /\ ws r0 p)).
Proof.
  intros H Hst Nt. apply gtoken_inv in H as (p & st' & H & Hp).
  destruct Hp as [(-> & -> & _)|[(r0 & _ & _ & -> & _)|(r0 & E & -> & [(-> & ->)|(-> & _)])]].
  - destruct Hst as [-> | ->].
    + exists (skip_ws s), ArrayStart. repeat split; auto. left. split; [reflexivity|apply ws_skip].
    + apply nosep_arrcomma in H. contradiction.
  - destruct Hst as [Q|Q]; discriminate Q.
  - exists (skip_ws r0), ArrayValue. repeat split; auto. right. split; [reflexivity|].
    exists r0. split; [rewrite <- E; apply ws_skip|apply ws_skip].
  - destruct Hst as [Q|Q]; discriminate Q.
Qed.

Lemma nosep_key st stk p t st1 stk1 s1 :
  gtoken_nosep true st stk p = RTok t st1 stk1 s1 ->
  value_allowed st = false -> arr_close_state st = false -> t <> TDelim 125 ->
  key_state st = true /\
  exists k p', p = 34 :: p' /\ t = TStr k /\ jchars p' k s1 /\ st1 = ObjectColon /\ stk1 = stk.
Proof.
  intros H V A Nt. apply gtoken_nosep_inv in H.
  destruct H as [(_ & _ & V' & _)|[(_ & _ & V' & _)|[(_ & _ & V' & _)|[(_ & T & _)|[(K & (p' & ->) & E & -> & ->)|(V' & _)]]]]];
    try congruence.
  split; [exact K|]. cbn [gscan_scalar] in E. change (34 =? 34) with true in E. cbv iota in E.
  match type of E with context[gscan_str true ?f ?q] => destruct (gscan_str true f q) as [[x r']|] eqn:G end;
    [|discriminate E].
  inversion E; subst. apply gscan_str_sound in G. exists x, p'. auto.
Qed.

(* the first token of an object member is its key *)
Lemma key_start st stk s t st1 stk1 s1 :
  gtoken true st stk s = RTok t st1 stk1 s1 ->
  st = ObjectStart \/ st = ObjectComma -> t <> TDelim 125 ->
  exists k p', t = TStr k /\ jchars p' k s1 /\ st1 = ObjectColon /\ stk1 = stk /\
    ((st = ObjectStart /\ ws s (34 :: p')) \/
     (st = ObjectComma /\ exists r0, ws s (44 :: r0) /\ ws r0 (34 :: p'))).
Proof.
  intros H Hst Nt. apply gtoken_inv in H as (p & st' & H & Hp).
  destruct Hp as [(Ep & -> & _)|[(r0 & _ & _ & -> & _)|(r0 & E & Ep & [(-> & _)|(-> & ->)])]].
  - destruct Hst as [-> | ->].
    + apply nosep_key in H as (_ & k & p' & Eq & -> & J & -> & ->); auto.
      exists k, p'. repeat split; auto. left. split; [reflexivity|].
      rewrite <- Eq, Ep. apply ws_skip.
    + apply nosep_key in H as (K & _); auto. discriminate K.
  - destruct Hst as [Q|Q]; discriminate Q.
  - destruct Hst as [Q|Q]; discriminate Q.
  - apply nosep_key in H as (_ & k & p' & Eq & -> & J & -> & ->); auto.
    exists k, p'. repeat split; auto. right. split; [reflexivity|].
    exists r0. split; [rewrite <- E; apply ws_skip|rewrite <- Eq, Ep; apply ws_skip].
Qed.

Lemma colon_step strict stk s t st1 stk1 s1 :
  gtoken strict ObjectColon stk s = RTok t st1 stk1 s1 ->
  exists r0, ws s (58 :: r0) /\ gtoken_nosep strict ObjectValue stk (skip_ws r0) = RTok t st1 stk1 s1.
Proof.
  intros H. apply gtoken_inv in H as (p & st' & H & Hp).
  destruct Hp as [(_ & -> & _)|[(r0 & E & -> & _ & ->)|(r0 & _ & _ & [(Q & _)|(Q & _)])]];
    try discriminate Q.
  - apply nosep_objcolon in H. contradiction.
  - exists r0. split; [rewrite <- E; apply ws_skip|exact H].
Qed.

(* ---------- the main induction ---------- *)

Definition SV (f : nat) : Prop :=
  forall flag t rest v rest' st stk p st1 stk1 s1,
    p_value f t rest = Some (v, rest') ->
    gtoken_nosep true st stk p = RTok t st1 stk1 s1 ->
    value_allowed st = true ->
    gtoks true st1 stk1 s1 = (rest, flag) ->
    exists r, jvalue p v r /\ gtoks true (value_end st) stk r = (rest', flag).

Definition SA (f : nat) : Prop :=
  forall flag toks acc l rest' st q stk s,
    p_array f toks acc = Some (l, rest') ->
    gtoks true st (q :: stk) s = (toks, flag) ->
    st = ArrayStart \/ st = ArrayComma ->
    exists l' r, l = rev acc ++ l' /\
      (st = ArrayStart -> jestart s l' r) /\ (st = ArrayComma -> jetail s l' r) /\
      gtoks true (value_end q) stk r = (rest', flag).

Definition SO (f : nat) : Prop :=
  forall flag toks acc ms rest' st q stk s,
    p_object f toks acc = (ms, Some rest') ->
    gtoks true st (q :: stk) s = (toks, flag) ->
    st = ObjectStart \/ st = ObjectComma ->
    exists m' r, ms = rev acc ++ m' /\
      (st = ObjectStart -> jmstart s m' r) /\ (st = ObjectComma -> jmtail s m' r) /\
      gtoks true (value_end q) stk r = (rest', flag).

Lemma descent_sound f : SV f /\ SA f /\ SO f.
Proof.
  induction f as [|f (IV & IA & IO)].
  { split; [|split].
    - intros flag t rest v rest' st stk p st1 stk1 s1 H. apply p_value_inv in H as (f' & E & _). discriminate E.
    - intros flag toks acc l rest' st q stk s H. apply p_array_inv in H as (f' & E & _). discriminate E.
    - intros flag toks acc ms rest' st q stk s H. apply p_object_inv in H as (f' & E & _). discriminate E. }
  split; [|split].
  - (* value *)
    intros flag t rest v rest' st stk p st1 stk1 s1 Pv Tn Va G.
    apply p_value_inv in Pv as (f' & Ef & Hc). injection Ef as <-.
    destruct Hc as [(D & -> & ->)|[(-> & m & Po & ->)|(-> & l & Pa & ->)]].
    + apply gtoken_nosep_inv in Tn.
      destruct Tn as [(_ & -> & _)|[(_ & -> & _)|[(_ & -> & _)|[(_ & -> & _)|[(K & _)|(_ & E & -> & ->)]]]]];
        try discriminate D.
      * rewrite (value_allowed_nokey st Va) in K. discriminate K.
      * exists s1. split; [|exact G]. apply gscan_scalar_sound in E as [_ E]. exact E.
    + apply gtoken_nosep_inv in Tn.
      destruct Tn as [(_ & T & _)|[(_ & T & _)|[(-> & _ & _ & -> & ->)|[(_ & T & _)|[(_ & _ & E & _)|(_ & E & _)]]]]];
        try discriminate T; try (apply gscan_scalar_nodelim in E; discriminate E).
      destruct (IO flag rest [] m rest' ObjectStart st stk s1 Po G (or_introl eq_refl))
        as (m' & r & Em & J & _ & G2).
      cbn [rev app] in Em. subst m'. exists r. split; [|exact G2].
      destruct (J eq_refl) as [(-> & W)|M]; [apply V_obj0|apply V_obj]; auto.
    + apply gtoken_nosep_inv in Tn.
      destruct Tn as [(-> & _ & _ & -> & ->)|[(_ & T & _)|[(_ & T & _)|[(_ & T & _)|[(_ & _ & E & _)|(_ & E & _)]]]]];
        try discriminate T; try (apply gscan_scalar_nodelim in E; discriminate E).
      destruct (IA flag rest [] l rest' ArrayStart st stk s1 Pa G (or_introl eq_refl))
        as (l' & r & El & J & _ & G2).
      cbn [rev app] in El. subst l'. exists r. split; [|exact G2].
      destruct (J eq_refl) as [(-> & W)|M]; [apply V_arr0|apply V_arr]; auto.
  - (* array *)
    intros flag toks acc l rest' st q stk s Pa G Hst.
    apply p_array_inv in Pa as (f' & Ef & Hc). injection Ef as <-.
    destruct Hc as [(tl & -> & -> & ->)|(t & tl & v & r1 & -> & Nt & Pv & Pa)].
    + apply gtoks_cons in G as (st1 & stk1 & s1 & Tk & G).
      apply gtoken_close_arr in Tk as (Es & q' & Eq & ->). injection Eq as <- <-.
      assert (W : ws s (93 :: s1)) by (rewrite <- Es; apply ws_skip).
      exists [], s1. rewrite app_nil_r. split; [reflexivity|].
      split; [intros _; left; auto|]. split; [intros _; left; auto|exact G].
    + apply gtoks_cons in G as (st1 & stk1 & s1 & Tk & G).
      destruct (elem_start _ _ _ _ _ _ _ _ Tk Hst Nt) as (p & st' & Tn & Va & Ve & Pos).
      destruct (IV flag t tl v r1 st' (q :: stk) p st1 stk1 s1 Pv Tn Va G) as (r & Jv & G2).
      rewrite Ve in G2.
      destruct (IA flag r1 (v :: acc) l rest' ArrayComma q stk r Pa G2 (or_intror eq_refl))
        as (l'' & r2 & El & _ & Jt & G3).
      specialize (Jt eq_refl).
      exists (v :: l''), r2. split; [rewrite El; cbn [rev]; rewrite <- app_assoc; reflexivity|].
      split; [|split; [|exact G3]].
      * intros ->. destruct Pos as [(_ & W)|(Q & _)]; [|discriminate Q].
        right. eapply glue_elems; eauto.
      * intros ->. destruct Pos as [(Q & _)|(_ & r0 & W1 & W2)]; [discriminate Q|].
        right. exists r0. split; [exact W1|]. eapply glue_elems; eauto.
  - (* object *)
    intros flag toks acc ms rest' st q stk s Po G Hst.
    apply p_object_inv in Po as (f' & Ef & Hc). injection Ef as <-.
    destruct Hc as [(tl & -> & -> & ->)|(k & t2 & tl & v & r1 & -> & Pv & Po)].
    + apply gtoks_cons in G as (st1 & stk1 & s1 & Tk & G).
      apply gtoken_close_obj in Tk as (Es & q' & Eq & ->). injection Eq as <- <-.
      assert (W : ws s (125 :: s1)) by (rewrite <- Es; apply ws_skip).
      exists [], s1. rewrite app_nil_r. split; [reflexivity|].
      split; [intros _; left; auto|]. split; [intros _; left; auto|exact G].
    + apply gtoks_cons in G as (st1 & stk1 & s1 & Tk & G).
      assert (Nt : TStr k <> TDelim 125) by discriminate.
      destruct (key_start _ _ _ _ _ _ _ Tk Hst Nt) as (k' & p' & Ek & Jc & -> & -> & Pos).
      injection Ek as <-.
      apply gtoks_cons in G as (st2 & stk2 & s2 & Tk2 & G).
      apply colon_step in Tk2 as (r0 & Wc & Tn).
      destruct (IV flag t2 tl v r1 ObjectValue (q :: stk) (skip_ws r0) st2 stk2 s2 Pv Tn eq_refl G)
        as (r & Jv & G2).
      cbn [value_end] in G2.
      destruct (IO flag r1 ((k, v) :: acc) ms rest' ObjectComma q stk r Po G2 (or_intror eq_refl))
        as (m'' & r2 & Em & _ & Jt & G3).
      specialize (Jt eq_refl).
      exists ((k, v) :: m''), r2. split; [rewrite Em; cbn [rev]; rewrite <- app_assoc; reflexivity|].
      split; [|split; [|exact G3]].
      * intros ->. destruct Pos as [(_ & W)|(Q & _)]; [|discriminate Q].
        right. eapply glue_members; eauto using ws_skip.
      * intros ->. destruct Pos as [(Q & _)|(_ & r00 & W1 & W2)]; [discriminate Q|].
        right. exists r00. split; [exact W1|]. eapply glue_members; eauto using ws_skip.
Qed.

(* ---------- top level ---------- *)

Lemma nosep_not_eof strict st stk c r : gtoken_nosep strict st stk (c :: r) <> REof.
Proof.
  unfold gtoken_nosep.
  destruct (c =? 91); [destruct (value_allowed st); discriminate|].
  destruct (c =? 93); [destruct st; try discriminate; destruct stk; discriminate|].
  destruct (c =? 123); [destruct (value_allowed st); discriminate|].
  destruct (c =? 125); [destruct st; try discriminate; destruct stk; discriminate|].
  destruct ((c =? 58) || (c =? 44)); [discriminate|].
  match goal with |- context[gscan_scalar ?a ?b] => destruct (gscan_scalar a b) as [[t' r']|] end;
    destruct ((c =? 34) && _); try discriminate; destruct (value_allowed st); discriminate.
Qed.

Lemma gtoken_top_eof strict stk s : gtoken strict TopValue stk s = REof -> skip_ws s = [].
Proof.
  unfold gtoken. destruct (skip_ws s) as [|c r]; [reflexivity|].
  destruct (c =? 58); [discriminate|]. destruct (c =? 44); [discriminate|].
  intros H. apply nosep_not_eof in H. contradiction.
Qed.

Lemma gtoks_top_end strict stk s : gtoks strict TopValue stk s = ([], true) -> ws s [].
Proof.
  rewrite gtoks_unfold. destruct (gtoken strict TopValue stk s) as [t st1 stk1 s1| |] eqn:E.
  - destruct (gtoks strict st1 stk1 s1). discriminate.
  - intros _. apply gtoken_top_eof in E. rewrite <- E. apply ws_skip.
  - discriminate.
Qed.

Theorem gparse_sound : forall b m, gparse_top true b = (m, true) -> spells b (JObj m).
Proof.
  intros b m H. unfold gparse_top in H. rewrite gtokenize_gtoks in H.
  destruct (gtoks true TopValue [] b) as [toks eof] eqn:G.
  apply parse_tokens_inv in H as (rest & f & -> & Po & ->).
  apply gtoks_cons in G as (st1 & stk1 & s1 & Tk & G).
  apply gtoken_inv in Tk as (p & st' & Tn & Hp).
  destruct Hp as [(-> & -> & _)|[(r0 & _ & _ & Q & _)|(r0 & _ & _ & [(Q & _)|(Q & _)])]];
    try discriminate Q.
  apply gtoken_nosep_inv in Tn.
  destruct Tn as [(_ & T & _)|[(_ & T & _)|[(Ep & _ & _ & -> & ->)|[(_ & T & _)|[(_ & _ & E & _)|(_ & E & _)]]]]];
    try discriminate T; try (apply gscan_scalar_nodelim in E; discriminate E).
  destruct (proj2 (proj2 (descent_sound f)) true rest [] m [] ObjectStart TopValue [] s1 Po G (or_introl eq_refl))
    as (m' & r & Em & J & _ & G2).
  cbn [rev app] in Em. subst m'. cbn [value_end] in G2. apply gtoks_top_end in G2.
  exists (123 :: s1), r. split; [rewrite <- Ep; apply ws_skip|]. split; [|exact G2].
  destruct (J eq_refl) as [(-> & W)|M]; [apply V_obj0|apply V_obj]; auto.
Qed.

(* ---------- the classic holes, on the lenient reader ---------- *)

Theorem literal_prefix_rejects : forall bad,
  In bad [[116;114;117]; [110;117;108]; [45]; [49;46]; [48;49]; [102;97;108;115]; [49;101]; [49;101;43]; [46;53]; [43;49]] ->
  snd (parse_top ([123;34;97;34;58] ++ bad ++ [125])) = false.
Proof.
  intros bad H; repeat (destruct H as [<-|H]; [vm_compute; reflexivity|]); destruct H.
Qed.

(* ---------- the grammar is stable under appending to the rest ---------- *)

Lemma ws_app s r x : ws s r -> ws (s ++ x) (r ++ x).
Proof. induction 1; [constructor|]. cbn [app]. apply ws_cons; auto. Qed.

Lemma jchars_app s k r x : jchars s k r -> jchars (s ++ x) k (r ++ x).
Proof.
  induction 1.
  - cbn [app]. apply C_end.
  - rewrite <- app_assoc. apply C_raw; auto.
  - cbn [app]. apply C_esc; auto.
  - cbn [app]. rewrite <- app_assoc. apply C_u; auto.
  - cbn [app]. rewrite <- app_assoc. cbn [app]. rewrite <- app_assoc. apply C_pair; auto.
Qed.

Lemma grammar_app :
  (forall s v r, jvalue s v r -> forall x, jvalue (s ++ x) v (r ++ x))
  /\ (forall s l r, jelems s l r -> forall x, jelems (s ++ x) l (r ++ x))
  /\ (forall s m r, jmembers s m r -> forall x, jmembers (s ++ x) m (r ++ x)).
Proof.
  apply jgrammar_min.
  - intros r x. cbn [app]. constructor.
  - intros r x. cbn [app]. constructor.
  - intros r x. cbn [app]. constructor.
  - intros lit r H x. rewrite <- app_assoc. constructor. exact H.
  - intros s k r H x. cbn [app]. constructor. apply jchars_app. exact H.
  - intros s r H x. cbn [app]. apply V_arr0. apply (ws_app _ _ x) in H. exact H.
  - intros s l r _ H x. cbn [app]. apply V_arr. apply H.
  - intros s r H x. cbn [app]. apply V_obj0. apply (ws_app _ _ x) in H. exact H.
  - intros s m r _ H x. cbn [app]. apply V_obj. apply H.
  - intros s s1 v s2 r W1 _ Hv W2 x. eapply E_last; [apply ws_app; exact W1|apply Hv|].
    apply (ws_app _ _ x) in W2. exact W2.
  - intros s s1 v s2 s3 l r W1 _ Hv W2 _ He x.
    eapply E_more; [apply ws_app; exact W1|apply Hv| |apply He].
    apply (ws_app _ _ x) in W2. exact W2.
  - intros s s1 k s2 s3 s4 v s5 r W1 Hk W2 W3 _ Hv W4 x.
    apply (ws_app _ _ x) in W1, W2, W4.
    eapply M_last; [exact W1|apply jchars_app; exact Hk|exact W2|apply ws_app; exact W3|apply Hv|exact W4].
  - intros s s1 k s2 s3 s4 v s5 s6 m r W1 Hk W2 W3 _ Hv W4 _ Hm x.
    apply (ws_app _ _ x) in W1, W2, W4.
    eapply M_more; [exact W1|apply jchars_app; exact Hk|exact W2|apply ws_app; exact W3|apply Hv|exact W4|apply Hm].
Qed.

(* an object drives the token machine whatever follows it *)
Lemma obj_runs strict b s m r st stk :
  ws b s -> jvalue s (JObj m) r -> value_allowed st = true ->
  runs strict st stk b (toks_of (JObj m)) (value_end st) stk r.
Proof.
  intros W V Va. apply runs0_runs. inversion V; subst.
  - rewrite (skip_ws_to b 123 s0 W eq_refl).
    exists (TDelim 123), [TDelim 125], ObjectStart, (st :: stk), s0. split; [reflexivity|]. split.
    + unfold gtoken_nosep. cbn. rewrite Va. reflexivity.
    + econstructor; [|constructor]. apply close_obj; [reflexivity|]. apply skip_ws_to; auto.
  - rewrite (skip_ws_to b 123 s0 W eq_refl).
    match goal with Hm : jmembers _ _ _ |- _ => destruct (proj2 (proj2 grammar_runs) _ _ _ Hm) as [_ Hr] end.
    exists (TDelim 123), (mtoks m ++ [TDelim 125]), ObjectStart, (st :: stk), s0. split; [reflexivity|]. split.
    + unfold gtoken_nosep. cbn. rewrite Va. reflexivity.
    + apply runs0_runs. apply Hr. auto.
Qed.

Lemma parse_tokens_obj_app m l' fl :
  parse_tokens (toks_of (JObj m) ++ l') fl = (m, match l' with [] => fl | _ :: _ => false end).
Proof.
  rewrite toks_of_obj. cbn [app]. unfold parse_tokens. cbn [Z.eqb Pos.eqb].
  assert (F : Forall (fun kv : str * jv => value_parses (snd kv)) m)
    by (apply Forall_forall; intros; apply value_parses_all).
  rewrite <- app_assoc. cbn [app].
  rewrite (members_parse m F _ [] l') by (rewrite !app_length; cbn [length]; lia).
  destruct l'; reflexivity.
Qed.

(* anything but whitespace after the object rejects *)
Theorem trailing_rejects : forall b m c r,
  spells b (JObj m) -> is_ws c = false -> snd (parse_top (b ++ c :: r)) = false.
Proof.
  intros b m c r (s1 & r1 & W1 & V & W2) Hc.
  apply (ws_app _ _ (c :: r)) in W1, W2. cbn [app] in W2.
  apply (proj1 grammar_app _ _ _) with (x := c :: r) in V.
  pose proof (obj_runs false _ _ _ _ TopValue [] W1 V eq_refl) as R.
  rewrite <- gparse_top_false. unfold gparse_top. rewrite gtokenize_gtoks.
  rewrite (runs_gtoks _ _ _ _ _ _ _ _ R). cbn [value_end].
  destruct (gtoks false TopValue [] (r1 ++ c :: r)) as [l' fl] eqn:G.
  rewrite parse_tokens_obj_app. cbn [snd].
  rewrite gtoks_unfold in G.
  destruct (gtoken false TopValue [] (r1 ++ c :: r)) as [t st1 stk1 s2| |] eqn:Tk.
  - destruct (gtoks false st1 stk1 s2). inversion G; subst. reflexivity.
  - apply gtoken_top_eof in Tk. rewrite (skip_ws_ws _ _ W2 Hc) in Tk. discriminate Tk.
  - inversion G; subst. reflexivity.
Qed.

(* ---------- truncation: splitting an append ---------- *)

Lemma app_split {A} (a b p w : list A) :
  a ++ b = p ++ w ->
  (exists z, z <> [] /\ a = p ++ z /\ w = z ++ b) \/ (exists y, p = a ++ y /\ b = y ++ w).
Proof.
  revert p. induction a as [|c a IH]; intros p H.
  - right. exists p. auto.
  - destruct p as [|c' p].
    + left. exists (c :: a). repeat split; auto. discriminate.
    + cbn [app] in H. injection H as <- H. apply IH in H.
      destruct H as [(z & Nz & -> & ->)|(y & -> & ->)].
      * left. exists z. auto.
      * right. exists y. auto.
Qed.

(* ---------- truncation: strings ---------- *)

Lemma scan_nil f : gscan_str false f [] = None.
Proof. destruct f; reflexivity. Qed.

Lemma high_fail f : forall u, Forall (fun b => 128 <= b) u -> gscan_str false f u = None.
Proof.
  induction f as [|f IH]; intros u H; [reflexivity|].
  destruct u as [|c r]; [reflexivity|].
  inversion H as [|? ? Hc Hr]; subst.
  cbn [gscan_str]. rewrite gstr_step_false. unfold str_step.
  destruct (Z.eqb_spec c 34); [lia|]. destruct (Z.eqb_spec c 92); [lia|].
  destruct (Z.ltb_spec c 32); [lia|]. destruct (Z.ltb_spec c 128); [lia|].
  destruct (utf8_size (c :: r)) as [|k] eqn:U.
  - rewrite (IH r Hr). reflexivity.
  - match goal with |- context[gscan_str false f ?X] => rewrite (IH X); [reflexivity|] end.
    apply Forall_skipn_. exact H.
Qed.

Definition str_tr (x r p w : str) : Prop :=
  (forall f, gscan_str false f p = None)
  \/ (exists y, r = y ++ w /\ forall f, (length p <= f)%nat -> gscan_str false f p = Some (x, y)).

Lemma unit_trunc (u o : str) :
  (forall s', jchar1 (u ++ s') o s') ->
  (forall p z, u = p ++ z -> z <> [] -> forall f, gscan_str false f p = None) ->
  forall s x r, (forall p w, s = p ++ w -> str_tr x r p w) ->
  forall p w, u ++ s = p ++ w -> str_tr (o ++ x) r p w.
Proof.
  intros J Hu s x r IH p w E. apply app_split in E.
  destruct E as [(z & Nz & Eu & _)|(y' & -> & Es)].
  - left. eapply Hu; eauto.
  - specialize (J y'). pose proof (gstr_step_dec false (u ++ y')) as D.
    rewrite (jchar1_step false _ _ _ J) in D.
    destruct (IH y' w Es) as [N|(y & -> & S)].
    + left. intros [|f]; [reflexivity|]. cbn [gscan_str].
      rewrite (jchar1_step false _ _ _ J), N. reflexivity.
    + right. exists y. split; [reflexivity|]. intros f Hf.
      destruct f as [|f]; [lia|]. apply (gscan_emit false f _ _ _ _ _ J). apply S. lia.
Qed.

Lemma prefix_firstn {A} (u p z : list A) :
  u = p ++ z -> z <> [] -> exists k, (k < length u)%nat /\ p = firstn k u.
Proof.
  intros -> Nz. exists (length p). split.
  - rewrite app_length. destruct z; [contradiction|]. cbn [length]. lia.
  - rewrite firstn_app, Nat.sub_diag, firstn_all. cbn [firstn]. rewrite app_nil_r. reflexivity.
Qed.

Lemma short_u_fail a b c d k f :
  (k < 6)%nat -> gscan_str false f (firstn k [92; 117; a; b; c; d]) = None.
Proof.
  intros L. destruct k as [|[|[|[|[|[|k]]]]]]; cbn [firstn]; try (destruct f; reflexivity). lia.
Qed.

Lemma short_pair_fail a b c d c1 a' b' c' d' k f :
  hex4 a b c d = Some c1 -> is_surrogate c1 = true ->
  (k < 12)%nat -> gscan_str false f (firstn k [92; 117; a; b; c; d; 92; 117; a'; b'; c'; d']) = None.
Proof.
  intros Hh Hs L.
  destruct k as [|[|[|[|[|[|k]]]]]]; cbn [firstn]; try (destruct f; reflexivity).
  destruct f as [|f]; [reflexivity|]. cbn [gscan_str]. rewrite gstr_step_false, str_step_u, Hh, Hs.
  destruct k as [|[|[|[|[|[|k]]]]]]; cbn [firstn getu4]; try (destruct f; reflexivity). lia.
Qed.

Lemma str_trunc q x r : jchars q x r -> forall p w, q = p ++ w -> str_tr x r p w.
Proof.
  induction 1 as [r | c s x r Hs H32 H34 H92 J IH | e d s x r He J IH | h c s x r Hh Hs J IH
                  | h1 c1 h2 c2 s x r Hh1 Hc1 Hh2 Hc2 J IH]; intros p w E.
  - destruct p as [|c p].
    + left. apply scan_nil.
    + cbn [app] in E. injection E as <- ->. right. exists p. split; [reflexivity|].
      intros f Hf. destruct f as [|f]; [cbn [length] in Hf; lia|]. reflexivity.
  - refine (unit_trunc (utf8_encode c) (utf8_encode c) _ _ s x r IH p w E).
    + intros s'. apply J1_raw; auto.
    + intros p0 z Eu Nz f. destruct (Z.ltb_spec c 128) as [Hlt|Hge].
      * rewrite enc1 in Eu by assumption. destruct p0 as [|c0 p0]; [apply scan_nil|].
        cbn [app] in Eu. injection Eu as _ Eu. destruct p0; [|discriminate Eu].
        cbn [app] in Eu. subst z. contradiction.
      * assert (Hr : 128 <= c <= 1114111) by (unfold scalar in Hs; lia).
        pose proof (utf8_encode_bytes c Hr) as B. rewrite Eu in B. apply Forall_app in B as [B _].
        apply high_fail. eapply Forall_impl; [|exact B]. cbv beta. intros; lia.
  - refine (unit_trunc [92; e] [d] _ _ s x r IH p w E).
    + intros s'. apply J1_esc; auto.
    + intros p0 z Eu Nz f. destruct (prefix_firstn _ _ _ Eu Nz) as (k & L & ->).
      cbn [length] in L. destruct k as [|[|k]]; cbn [firstn]; try (destruct f; reflexivity). lia.
  - destruct (hex4d_shape _ _ Hh) as (a & b & c0 & d & ->).
    refine (unit_trunc [92; 117; a; b; c0; d] (utf8_encode c) _ _ s x r IH p w E).
    + intros s'. apply (J1_u [a; b; c0; d]); auto.
    + intros p0 z Eu Nz f. destruct (prefix_firstn _ _ _ Eu Nz) as (k & L & ->).
      apply short_u_fail. exact L.
  - destruct (hex4d_shape _ _ Hh1) as (a & b & c0 & d & ->).
    destruct (hex4d_shape _ _ Hh2) as (a' & b' & c0' & d' & ->).
    refine (unit_trunc [92; 117; a; b; c0; d; 92; 117; a'; b'; c0'; d']
             (utf8_encode (65536 + (c1 - 55296) * 1024 + (c2 - 56320))) _ _ s x r IH p w E).
    + intros s'. apply (J1_pair [a; b; c0; d] c1 [a'; b'; c0'; d'] c2); auto.
    + intros p0 z Eu Nz f. destruct (prefix_firstn _ _ _ Eu Nz) as (k & L & ->).
      apply (short_pair_fail a b c0 d c1); auto.
      * apply hex4d_hex4. exact Hh1.
      * unfold is_surrogate, in_rng. zb; reflexivity.
Qed.

(* ---------- truncation: numbers ---------- *)

Lemma span_trunc p w :
  snd (span_digits p) = [] \/ span_digits (p ++ w) = (fst (span_digits p), snd (span_digits p) ++ w).
Proof.
  induction p as [|c p IH]; [left; reflexivity|].
  cbn [span_digits app]. destruct (is_digit c).
  - destruct (span_digits p) as [a b]. cbn [fst snd] in *.
    destruct IH as [->|E]; [left; reflexivity|right; rewrite E; reflexivity].
  - right. reflexivity.
Qed.

Definition num_tr (F : str -> option (str * str)) : Prop :=
  forall p w a r, F (p ++ w) = Some (a, r) ->
    F p = None \/ (exists a', F p = Some (a', [])) \/ (exists y, r = y ++ w /\ F p = Some (a, y)).

Lemma sc_int_tr : num_tr sc_int.
Proof.
  intros p w a r. destruct p as [|c p]; [left; reflexivity|].
  cbn [app]. unfold sc_int. destruct (c =? 48).
  - intros H; inversion H; subst. right; right. exists p. auto.
  - destruct (in_rng 49 57 c); [|discriminate].
    destruct (span_trunc p w) as [E|E].
    + intros _. right; left. destruct (span_digits p) as [ds y]. cbn [snd] in E. subst y. eauto.
    + rewrite E. destruct (span_digits p) as [ds y]. cbn [fst snd].
      intros H; inversion H; subst. right; right. exists y. auto.
Qed.

Lemma sc_frac_tr : num_tr sc_frac.
Proof.
  intros p w a r. destruct p as [|d p]; [right; left; exists []; reflexivity|].
  cbn [app]. unfold sc_frac. destruct (d =? 46).
  - destruct (span_trunc p w) as [E|E].
    + intros _. destruct (span_digits p) as [ds y]. cbn [snd] in E. subst y.
      destruct ds; [left; reflexivity|right; left; eauto].
    + rewrite E. destruct (span_digits p) as [ds y]. cbn [fst snd].
      destruct ds; [discriminate|]. intros H; inversion H; subst. right; right. exists y. auto.
  - intros H; inversion H; subst. right; right. exists (d :: p). auto.
Qed.

Lemma sc_exp_tr : num_tr sc_exp.
Proof.
  intros p w a r. destruct p as [|e p]; [right; left; exists []; reflexivity|].
  cbn [app]. unfold sc_exp. destruct ((e =? 101) || (e =? 69)).
  - destruct p as [|x p]; [intros _; left; reflexivity|].
    cbn [app]. unfold sc_esign. destruct ((x =? 43) || (x =? 45)).
    + destruct (span_trunc p w) as [E|E].
      * intros _. destruct (span_digits p) as [ds y]. cbn [snd] in E. subst y.
        destruct ds; [left; reflexivity|right; left; eauto].
      * rewrite E. destruct (span_digits p) as [ds y]. cbn [fst snd].
        destruct ds; [discriminate|]. intros H; inversion H; subst. right; right. exists y. auto.
    + destruct (span_trunc (x :: p) w) as [E|E].
      * intros _. destruct (span_digits (x :: p)) as [ds y]. cbn [snd] in E. subst y.
        destruct ds; [left; reflexivity|right; left; eauto].
      * cbn [app] in E. rewrite E. destruct (span_digits (x :: p)) as [ds y]. cbn [fst snd].
        destruct ds; [discriminate|]. intros H; inversion H; subst. right; right. exists y. auto.
  - intros H; inversion H; subst. right; right. exists (e :: p). auto.
Qed.

Lemma sc_all_tr sg : num_tr (sc_all sg).
Proof.
  intros p w a r. unfold sc_all.
  destruct (sc_int (p ++ w)) as [[ip s1]|] eqn:E1; [|discriminate].
  destruct (sc_int_tr p w ip s1 E1) as [N|[(a' & S)|(y & -> & S)]]; rewrite S || rewrite N.
  { intros _. left. reflexivity. }
  { intros _. right; left. cbn. eauto. }
  destruct (sc_frac (y ++ w)) as [[fp s2]|] eqn:E2; [|discriminate].
  destruct (sc_frac_tr y w fp s2 E2) as [N|[(a' & S2)|(y2 & -> & S2)]]; rewrite S2 || rewrite N.
  { intros _. left. reflexivity. }
  { intros _. right; left. cbn. eauto. }
  destruct (sc_exp (y2 ++ w)) as [[ep s3]|] eqn:E3; [|discriminate].
  destruct (sc_exp_tr y2 w ep s3 E3) as [N|[(a' & S3)|(y3 & -> & S3)]]; rewrite S3 || rewrite N.
  { intros _. left. reflexivity. }
  { intros _. right; left. eauto. }
  intros H; inversion H; subst. right; right. exists y3. auto.
Qed.

Lemma num_trunc c p w lit s1 :
  scan_number ((c :: p) ++ w) = Some (lit, s1) ->
  scan_number (c :: p) = None \/ (exists lit', scan_number (c :: p) = Some (lit', []))
  \/ (exists y, s1 = y ++ w /\ scan_number (c :: p) = Some (lit, y)).
Proof.
  rewrite !scan_number_eq. cbn [app]. unfold sc_sign. destruct (c =? 45).
  - apply sc_all_tr.
  - apply (sc_all_tr [] (c :: p) w).
Qed.

(* ---------- truncation: one token ---------- *)

Lemma scalar_trunc c p w t s1 :
  gscan_scalar true ((c :: p) ++ w) = Some (t, s1) ->
  gscan_scalar false (c :: p) = None \/ (exists lit, gscan_scalar false (c :: p) = Some (TNum lit, []))
  \/ (exists y, s1 = y ++ w /\ gscan_scalar false (c :: p) = Some (t, y)).
Proof.
  cbn [app gscan_scalar]. destruct (Z.eqb_spec c 34) as [->|N34].
  - match goal with |- context[gscan_str true ?f ?q] => destruct (gscan_str true f q) as [[x r']|] eqn:G end;
      [|discriminate].
    intros H; inversion H; subst. apply gscan_str_sound in G.
    destruct (str_trunc _ _ _ G p w eq_refl) as [N|(y & -> & S)].
    + left. rewrite N. reflexivity.
    + right; right. exists y. split; [reflexivity|]. rewrite S by apply Nat.le_refl. reflexivity.
  - unfold scan_scalar. destruct (Z.eqb_spec c 34); [contradiction|].
    destruct (c =? 116).
    { destruct p as [|a [|b [|c2 y]]]; cbn [app]; try (intros _; left; reflexivity).
      destruct ((a =? 114) && (b =? 117) && (c2 =? 101)); [|discriminate].
      intros H; inversion H; subst. right; right. exists y. auto. }
    destruct (c =? 102).
    { destruct p as [|a [|b [|c2 [|d y]]]]; cbn [app]; try (intros _; left; reflexivity).
      destruct ((a =? 97) && (b =? 108) && (c2 =? 115) && (d =? 101)); [|discriminate].
      intros H; inversion H; subst. right; right. exists y. auto. }
    destruct (c =? 110).
    { destruct p as [|a [|b [|c2 y]]]; cbn [app]; try (intros _; left; reflexivity).
      destruct ((a =? 117) && (b =? 108) && (c2 =? 108)); [|discriminate].
      intros H; inversion H; subst. right; right. exists y. auto. }
    destruct ((c =? 45) || is_digit c); [|discriminate].
    match goal with |- context[scan_number ?q] => destruct (scan_number q) as [[lit r']|] eqn:E end; [|discriminate].
    intros H; inversion H; subst.
    destruct (num_trunc c p w lit s1 E) as [N|[(lit' & S)|(y & -> & S)]].
    + left. rewrite N. reflexivity.
    + right; left. exists lit'. rewrite S. reflexivity.
    + right; right. exists y. split; [reflexivity|]. rewrite S. reflexivity.
Qed.

Definition tr_end (res : tres) : Prop :=
  res = REof \/ res = RErr \/ exists lit st1 stk1, res = RTok (TNum lit) st1 stk1 [].

Lemma nosep_trunc st stk p w t st1 stk1 s1 :
  gtoken_nosep true st stk (p ++ w) = RTok t st1 stk1 s1 ->
  tr_end (gtoken_nosep false st stk p)
  \/ exists y, s1 = y ++ w /\ gtoken_nosep false st stk p = RTok t st1 stk1 y.
Proof.
  destruct p as [|c p]; [intros _; left; left; reflexivity|].
  cbn [app]. unfold gtoken_nosep.
  destruct (c =? 91).
  { destruct (value_allowed st); [|discriminate]. intros H; inversion H; subst. right. exists p. auto. }
  destruct (c =? 93).
  { destruct st; try discriminate; destruct stk; try discriminate;
      intros H; inversion H; subst; right; exists p; auto. }
  destruct (c =? 123).
  { destruct (value_allowed st); [|discriminate]. intros H; inversion H; subst. right. exists p. auto. }
  destruct (c =? 125).
  { destruct st; try discriminate; destruct stk; try discriminate;
      intros H; inversion H; subst; right; exists p; auto. }
  destruct ((c =? 58) || (c =? 44)); [discriminate|].
  assert (K : forall X,
    match gscan_scalar true (c :: p ++ w) with Some (t0, r') => RTok t0 X stk r' | None => RErr end
      = RTok t st1 stk1 s1 ->
    tr_end (match gscan_scalar false (c :: p) with Some (t0, r') => RTok t0 X stk r' | None => RErr end)
    \/ exists y, s1 = y ++ w /\
         match gscan_scalar false (c :: p) with Some (t0, r') => RTok t0 X stk r' | None => RErr end
         = RTok t st1 stk1 y).
  { intros X. destruct (gscan_scalar true (c :: p ++ w)) as [[t0 r0]|] eqn:E; [|discriminate].
    intros H; inversion H; subst.
    destruct (scalar_trunc c p w _ _ E) as [N|[(lit & S)|(y & -> & S)]]; rewrite ?N, ?S.
    - left. right; left. reflexivity.
    - left. right; right. eauto.
    - right. exists y. auto. }
  destruct ((c =? 34) && _); [apply K|].
  destruct (value_allowed st); [apply K|discriminate].
Qed.

Lemma skip_ws_app p w :
  skip_ws (p ++ w) = match skip_ws p with [] => skip_ws w | c :: r => c :: r ++ w end.
Proof.
  induction p as [|c p IH]; [reflexivity|]. cbn [app skip_ws].
  destruct (is_ws c); [exact IH|reflexivity].
Qed.

Lemma step_trunc st stk p w t st1 stk1 s1 :
  gtoken true st stk (p ++ w) = RTok t st1 stk1 s1 ->
  tr_end (gtoken false st stk p)
  \/ exists y, s1 = y ++ w /\ gtoken false st stk p = RTok t st1 stk1 y.
Proof.
  unfold gtoken. rewrite skip_ws_app.
  destruct (skip_ws p) as [|c r]; [intros _; left; left; reflexivity|].
  destruct (c =? 58).
  { destruct st; try discriminate. rewrite skip_ws_app.
    destruct (skip_ws r) as [|c' r']; [intros _; left; left; reflexivity|].
    apply (nosep_trunc ObjectValue stk (c' :: r') w). }
  destruct (c =? 44).
  { destruct st; try discriminate; rewrite skip_ws_app;
      (destruct (skip_ws r) as [|c' r']; [intros _; left; left; reflexivity|]).
    - apply (nosep_trunc ArrayValue stk (c' :: r') w).
    - apply (nosep_trunc ObjectKey stk (c' :: r') w). }
  apply (nosep_trunc st stk (c :: r) w).
Qed.

(* ---------- truncation: the whole run ---------- *)

Definition trunc_of (l T : list tok) : Prop :=
  exists j extra, (j < length l)%nat /\ T = firstn j l ++ extra /\
                  (extra = [] \/ exists lit, extra = [TNum lit]).

Lemma gtoks_nil strict st stk : gtoks strict st stk [] = ([], true).
Proof. reflexivity. Qed.

Lemma runs_trunc st stk s l st' stk' s' :
  runs true st stk s l st' stk' s' -> ws s' [] ->
  forall p w, s = p ++ w -> skip_ws w <> [] ->
  forall T, gtoks false st stk p = (T, true) -> trunc_of l T.
Proof.
  induction 1 as [st stk s|st stk s t st1 stk1 s1 l st' stk' s' Tk _ IH]; intros Hw p w E Nw T G.
  - exfalso. apply Nw. pose proof (skip_ws_ws _ _ Hw I) as Z. rewrite E, skip_ws_app in Z.
    destruct (skip_ws p); [exact Z|discriminate Z].
  - subst s. apply step_trunc in Tk. rewrite gtoks_unfold in G.
    destruct Tk as [[Q|[Q|(lit & sa & ka & Q)]]|(y & -> & Q)]; rewrite Q in G.
    + inversion G; subst. exists 0%nat, []. cbn [length firstn app]. repeat split; auto. lia.
    + discriminate G.
    + rewrite gtoks_nil in G. inversion G; subst. exists 0%nat, [TNum lit].
      cbn [length firstn app]. repeat split; eauto. lia.
    + destruct (gtoks false st1 stk1 y) as [T' b] eqn:G'. inversion G; subst.
      destruct (IH Hw y w eq_refl Nw T' G') as (j & extra & L & -> & X).
      exists (S j), extra. cbn [length firstn app]. repeat split; auto. lia.
Qed.

(* ---------- bracket balance of what the descent consumes ---------- *)

Definition delta (t : tok) : Z :=
  match t with
  | TDelim c => if (c =? 123) || (c =? 91) then 1 else if (c =? 125) || (c =? 93) then -1 else 0
  | _ => 0
  end.
Fixpoint bal (l : list tok) : Z := match l with [] => 0 | t :: r => delta t + bal r end.
Fixpoint nonneg (d : Z) (l : list tok) : Prop :=
  match l with [] => True | t :: r => 0 <= d + delta t /\ nonneg (d + delta t) r end.

Lemma bal_app a b : bal (a ++ b) = bal a + bal b.
Proof. induction a as [|t a IH]; cbn [app bal]; [reflexivity|]. rewrite IH. lia. Qed.

Lemma nonneg_app a : forall d b, nonneg d a -> nonneg (d + bal a) b -> nonneg d (a ++ b).
Proof.
  induction a as [|t a IH]; cbn [app bal nonneg]; intros d b Ha Hb.
  - rewrite Z.add_0_r in Hb. exact Hb.
  - destruct Ha as [A1 A2]. split; [exact A1|]. apply IH; [exact A2|].
    replace (d + delta t + bal a) with (d + (delta t + bal a)) by lia. exact Hb.
Qed.

Lemma nonneg_mono l : forall d d', d <= d' -> nonneg d l -> nonneg d' l.
Proof.
  induction l as [|t l IH]; cbn [nonneg]; [auto|]. intros d d' L [A B]. split; [lia|].
  eapply IH; [|exact B]. lia.
Qed.

Lemma nonneg_firstn l : forall d j, 0 <= d -> nonneg d l -> 0 <= d + bal (firstn j l).
Proof.
  induction l as [|t l IH]; intros d j D N.
  - rewrite firstn_nil. cbn [bal]. lia.
  - destruct j as [|j]; cbn [firstn bal]; [lia|]. destruct N as [A B].
    specialize (IH (d + delta t) j A B). lia.
Qed.

Lemma nonneg_wrap o c inner :
  delta (TDelim o) = 1 -> delta (TDelim c) = -1 -> nonneg 0 inner -> bal inner = 0 ->
  nonneg 0 (TDelim o :: inner ++ [TDelim c]) /\ bal (TDelim o :: inner ++ [TDelim c]) = 0.
Proof.
  intros Ho Hc N B. split.
  - cbn [nonneg]. rewrite Ho. split; [lia|]. apply nonneg_app.
    + eapply nonneg_mono; [|exact N]. lia.
    + cbn [nonneg]. rewrite B, Hc. split; [lia|exact I].
  - cbn [bal]. rewrite bal_app, Ho, B. cbn [bal]. rewrite Hc. lia.
Qed.

Lemma parse_bal f :
  (forall t rest v rest', p_value f t rest = Some (v, rest') ->
     exists cons, t :: rest = cons ++ rest' /\ nonneg 0 cons /\ bal cons = 0)
  /\ (forall toks acc l rest', p_array f toks acc = Some (l, rest') ->
     exists inner, toks = inner ++ TDelim 93 :: rest' /\ nonneg 0 inner /\ bal inner = 0)
  /\ (forall toks acc ms rest', p_object f toks acc = (ms, Some rest') ->
     exists inner, toks = inner ++ TDelim 125 :: rest' /\ nonneg 0 inner /\ bal inner = 0).
Proof.
  induction f as [|f (IV & IA & IO)].
  { split; [|split].
    - intros t rest v rest' H. apply p_value_inv in H as (f' & E & _). discriminate E.
    - intros toks acc l rest' H. apply p_array_inv in H as (f' & E & _). discriminate E.
    - intros toks acc ms rest' H. apply p_object_inv in H as (f' & E & _). discriminate E. }
  split; [|split].
  - intros t rest v rest' H. apply p_value_inv in H as (f' & Ef & Hc). injection Ef as <-.
    destruct Hc as [(D & -> & ->)|[(-> & m & Po & ->)|(-> & l & Pa & ->)]].
    + exists [t]. split; [reflexivity|]. destruct t; try discriminate D; cbn; repeat split; lia.
    + apply IO in Po as (inner & -> & N & B).
      destruct (nonneg_wrap 123 125 inner eq_refl eq_refl N B) as [N' B'].
      exists (TDelim 123 :: inner ++ [TDelim 125]). split; [|split; assumption].
      cbn [app]. rewrite <- app_assoc. reflexivity.
    + apply IA in Pa as (inner & -> & N & B).
      destruct (nonneg_wrap 91 93 inner eq_refl eq_refl N B) as [N' B'].
      exists (TDelim 91 :: inner ++ [TDelim 93]). split; [|split; assumption].
      cbn [app]. rewrite <- app_assoc. reflexivity.
  - intros toks acc l rest' H. apply p_array_inv in H as (f' & Ef & Hc). injection Ef as <-.
    destruct Hc as [(tl & -> & -> & ->)|(t & tl & v & r1 & -> & Nt & Pv & Pa)].
    + exists []. cbn. auto.
    + apply IV in Pv as (cons & Ec & N1 & B1). apply IA in Pa as (inner & -> & N2 & B2).
      exists (cons ++ inner). rewrite Ec, <- app_assoc. split; [reflexivity|]. split.
      * apply nonneg_app; [exact N1|]. rewrite B1. exact N2.
      * rewrite bal_app. lia.
  - intros toks acc ms rest' H. apply p_object_inv in H as (f' & Ef & Hc). injection Ef as <-.
    destruct Hc as [(tl & -> & -> & ->)|(k & t2 & tl & v & r1 & -> & Pv & Po)].
    + exists []. cbn. auto.
    + apply IV in Pv as (cons & Ec & N1 & B1). apply IO in Po as (inner & -> & N2 & B2).
      exists (TStr k :: cons ++ inner). rewrite Ec. cbn [app]. rewrite <- app_assoc.
      split; [reflexivity|]. split.
      * cbn [nonneg delta]. split; [lia|]. apply nonneg_app; [exact N1|].
        rewrite B1. exact N2.
      * cbn [bal delta]. rewrite bal_app. lia.
Qed.

(* ---------- a proper prefix of an accepted line is rejected ---------- *)

Definition skip_trailing_ws (b : str) : str := rev (skip_ws (rev b)).

Lemma skip_ws_nil_all w : skip_ws w = [] -> Forall (fun c => is_ws c = true) w.
Proof.
  induction w as [|c w IH]; [constructor|]. cbn [skip_ws]. destruct (is_ws c) eqn:E; [|discriminate].
  intros H. constructor; auto.
Qed.

Lemma skip_ws_allws a x : Forall (fun c => is_ws c = true) a -> skip_ws (a ++ x) = skip_ws x.
Proof.
  induction 1 as [|c a Hc _ IH]; [reflexivity|]. cbn [app skip_ws]. rewrite Hc. exact IH.
Qed.

Lemma trailing_len p w : skip_ws w = [] -> (length (skip_trailing_ws (p ++ w)) <= length p)%nat.
Proof.
  intros H. unfold skip_trailing_ws. rewrite rev_length, rev_app_distr.
  rewrite skip_ws_allws by (apply Forall_rev, skip_ws_nil_all, H).
  pose proof (skip_ws_length (rev p)) as L. rewrite rev_length in L. exact L.
Qed.

Theorem truncated_rejects : forall b m n,
  spells b (JObj m) -> (n < length (skip_trailing_ws b))%nat -> snd (parse_top (firstn n b)) = false.
Proof.
  intros b m n (s1 & r1 & W1 & V & W2) Hn.
  pose proof (obj_runs true _ _ _ _ TopValue [] W1 V eq_refl) as R. cbn [value_end] in R.
  pose proof (firstn_skipn n b) as E.
  assert (Nw : skip_ws (skipn n b) <> []).
  { intros Z. pose proof (trailing_len (firstn n b) (skipn n b) Z) as L. rewrite E in L.
    pose proof (firstn_le_length n b). lia. }
  rewrite <- gparse_top_false. unfold gparse_top. rewrite gtokenize_gtoks.
  destruct (gtoks false TopValue [] (firstn n b)) as [T fl] eqn:G.
  destruct (parse_tokens T fl) as [m' ok] eqn:P. cbn [snd]. destruct ok; [|reflexivity]. exfalso.
  apply parse_tokens_inv in P as (rest & f & -> & Po & ->).
  destruct (runs_trunc _ _ _ _ _ _ _ R W2 _ _ (eq_sym E) Nw _ G) as (j & extra & L & ET & X).
  apply (proj2 (proj2 (parse_bal f))) in Po as (inner & -> & _ & Bi).
  assert (F : Forall (fun kv : str * jv => value_parses (snd kv)) m)
    by (apply Forall_forall; intros; apply value_parses_all).
  pose proof (members_parse m F _ [] [] (Nat.le_refl _)) as Pm.
  apply (proj2 (proj2 (parse_bal _))) in Pm as (innerL & EL & NL & _).
  apply app_inj_tail in EL as [EL _]. subst innerL.
  rewrite toks_of_obj in ET, L.
  destruct j as [|j].
  - cbn [firstn app] in ET. destruct X as [->|(lit & ->)]; discriminate ET.
  - cbn [firstn app] in ET. injection ET as ET.
    cbn [length] in L. rewrite app_length in L. cbn [length] in L.
    rewrite firstn_app in ET. replace (j - length (mtoks m))%nat with 0%nat in ET by lia.
    cbn [firstn] in ET. rewrite app_nil_r in ET.
    apply (f_equal bal) in ET. rewrite !bal_app in ET. cbn [bal] in ET.
    change (delta (TDelim 125)) with (-1) in ET.
    pose proof (nonneg_firstn (mtoks m) 0 j (Z.le_refl 0) NL) as Q.
    assert (bal extra = 0) by (destruct X as [->|(lit & ->)]; reflexivity).
    lia.
Qed.


Print Assumptions gparse_sound.
Print Assumptions literal_prefix_rejects.
Print Assumptions trailing_rejects.
Print Assumptions truncated_rejects.
