(* Completeness of the reader: every text the RFC 8259 grammar derives is tokenised into the
   token list of its value (strict or not), and the recursive descent of row.UnmarshalJSON
   rebuilds exactly that value, in order. *)
From Coq Require Import ZArith List Bool Lia.
From JL.std Require Import GoBase GoStrconv GoJsonNum GoJson GoJsonStrict.
From JL.proofs Require Import JsonUtf8 JsonNumber JsonStr JsonTok.
Import ListNotations.
Open Scope Z_scope.

Fixpoint toks_of (v : jv) : list tok :=
  match v with
  | JNull => [TNull]
  | JBool b => [TBool b]
  | JNum l => [TNum l]
  | JStr s => [TStr s]
  | JArr l => TDelim 91 :: flat_map toks_of l ++ [TDelim 93]
  | JObj m => TDelim 123 :: flat_map (fun kv => TStr (fst kv) :: toks_of (snd kv)) m ++ [TDelim 125]
  end.

Definition etoks (l : list jv) : list tok := flat_map toks_of l.
Definition mtoks (m : list (str * jv)) : list tok := flat_map (fun kv => TStr (fst kv) :: toks_of (snd kv)) m.

Lemma toks_of_arr l : toks_of (JArr l) = TDelim 91 :: etoks l ++ [TDelim 93].
Proof. reflexivity. Qed.
Lemma toks_of_obj m : toks_of (JObj m) = TDelim 123 :: mtoks m ++ [TDelim 125].
Proof. reflexivity. Qed.
Lemma etoks_cons v l : etoks (v :: l) = toks_of v ++ etoks l.
Proof. reflexivity. Qed.
Lemma mtoks_cons k v m : mtoks ((k, v) :: m) = TStr k :: toks_of v ++ mtoks m.
Proof. reflexivity. Qed.

Lemma toks_of_scalar t : is_delim t = false -> toks_of (tok_val t) = [t].
Proof. destruct t; cbn; intros; try discriminate; reflexivity. Qed.

Lemma toks_of_head v : exists t l, toks_of v = t :: l /\ t <> TDelim 93 /\ t <> TDelim 125.
Proof. destruct v; eexists; eexists; (split; [reflexivity|]); split; discriminate. Qed.

(* ---------- runs of the token machine ---------- *)

Inductive runs (strict : bool) : tstate -> list tstate -> str -> list tok -> tstate -> list tstate -> str -> Prop :=
| runs_nil st stk s : runs strict st stk s [] st stk s
| runs_cons st stk s t st1 stk1 s1 l st' stk' s' :
    gtoken strict st stk s = RTok t st1 stk1 s1 ->
    runs strict st1 stk1 s1 l st' stk' s' ->
    runs strict st stk s (t :: l) st' stk' s'.

Lemma runs_app strict st stk s l1 st1 stk1 s1 l2 st2 stk2 s2 :
  runs strict st stk s l1 st1 stk1 s1 -> runs strict st1 stk1 s1 l2 st2 stk2 s2 ->
  runs strict st stk s (l1 ++ l2) st2 stk2 s2.
Proof.
  induction 1; intros; cbn [app]; [assumption|]. econstructor; eauto.
Qed.

Lemma runs_gtoks strict st stk s l st' stk' s' :
  runs strict st stk s l st' stk' s' ->
  gtoks strict st stk s = let (l', b) := gtoks strict st' stk' s' in (l ++ l', b).
Proof.
  induction 1 as [st stk s|st stk s t st1 stk1 s1 l st' stk' s' E _ IH].
  - destruct (gtoks strict st stk s); reflexivity.
  - rewrite gtoks_unfold, E, IH. destruct (gtoks strict st' stk' s'). reflexivity.
Qed.

(* a run whose first token is read at a position where whitespace and separator are done *)
Definition runs0 strict st stk p l st' stk' s' : Prop :=
  exists t l1 st1 stk1 s1,
    l = t :: l1 /\ gtoken_nosep strict st stk p = RTok t st1 stk1 s1 /\ runs strict st1 stk1 s1 l1 st' stk' s'.

Lemma runs0_app strict st stk p l1 st1 stk1 s1 l2 st2 stk2 s2 :
  runs0 strict st stk p l1 st1 stk1 s1 -> runs strict st1 stk1 s1 l2 st2 stk2 s2 ->
  runs0 strict st stk p (l1 ++ l2) st2 stk2 s2.
Proof.
  intros (t & l & sa & ka & pa & -> & E & R) R2.
  exists t, (l ++ l2), sa, ka, pa. repeat split; auto. eapply runs_app; eauto.
Qed.

Lemma nosep_sep_err strict st stk c r : c = 58 \/ c = 44 -> gtoken_nosep strict st stk (c :: r) = RErr.
Proof. intros [-> | ->]; reflexivity. Qed.

Lemma runs0_runs strict st stk s l st' stk' s' :
  runs0 strict st stk (skip_ws s) l st' stk' s' -> runs strict st stk s l st' stk' s'.
Proof.
  intros (t & l1 & sa & ka & pa & -> & E & R).
  destruct (skip_ws s) as [|c r] eqn:Es; [discriminate|].
  destruct (Z.eq_dec c 58) as [->|N1]; [rewrite nosep_sep_err in E by auto; discriminate|].
  destruct (Z.eq_dec c 44) as [->|N2]; [rewrite nosep_sep_err in E by auto; discriminate|].
  econstructor; [|exact R]. rewrite (gtoken_at_value strict st stk s c r Es N1 N2). exact E.
Qed.

Lemma runs_after_colon strict stk s r0 l st' stk' s' :
  skip_ws s = 58 :: r0 -> runs0 strict ObjectValue stk (skip_ws r0) l st' stk' s' ->
  runs strict ObjectColon stk s l st' stk' s'.
Proof.
  intros Es (t & l1 & sa & ka & pa & -> & E & R). econstructor; [|exact R].
  unfold gtoken. rewrite Es. exact E.
Qed.

Lemma runs_after_comma_arr strict stk s r0 l st' stk' s' :
  skip_ws s = 44 :: r0 -> runs0 strict ArrayValue stk (skip_ws r0) l st' stk' s' ->
  runs strict ArrayComma stk s l st' stk' s'.
Proof.
  intros Es (t & l1 & sa & ka & pa & -> & E & R). econstructor; [|exact R].
  unfold gtoken. rewrite Es. exact E.
Qed.

Lemma runs_after_comma_obj strict stk s r0 l st' stk' s' :
  skip_ws s = 44 :: r0 -> runs0 strict ObjectKey stk (skip_ws r0) l st' stk' s' ->
  runs strict ObjectComma stk s l st' stk' s'.
Proof.
  intros Es (t & l1 & sa & ka & pa & -> & E & R). econstructor; [|exact R].
  unfold gtoken. rewrite Es. exact E.
Qed.

Lemma value_allowed_nokey st : value_allowed st = true -> key_state st = false.
Proof. destruct st; cbn; congruence. Qed.

(* a scalar in a value position *)
Lemma nosep_scalar strict st stk c s t r :
  vhead c -> c <> 91 -> c <> 123 -> value_allowed st = true ->
  gscan_scalar strict (c :: s) = Some (t, r) ->
  gtoken_nosep strict st stk (c :: s) = RTok t (value_end st) stk r.
Proof.
  intros Hv N1 N2 Va E. unfold gtoken_nosep. unfold vhead in Hv.
  destruct (Z.eqb_spec c 91); [lia|]. destruct (Z.eqb_spec c 93); [lia|].
  destruct (Z.eqb_spec c 123); [lia|]. destruct (Z.eqb_spec c 125); [lia|].
  destruct (Z.eqb_spec c 58); [lia|]. destruct (Z.eqb_spec c 44); [lia|]. cbn [orb].
  fold (key_state st). rewrite (value_allowed_nokey st Va), andb_false_r, Va, E. reflexivity.
Qed.

Lemma close_arr strict st q stk s r :
  arr_close_state st = true -> skip_ws s = 93 :: r ->
  gtoken strict st (q :: stk) s = RTok (TDelim 93) (value_end q) stk r.
Proof.
  intros Hs Es. rewrite (gtoken_at_value strict st (q :: stk) s 93 r Es) by lia.
  destruct st; try discriminate; reflexivity.
Qed.

Lemma close_obj strict st q stk s r :
  obj_close_state st = true -> skip_ws s = 125 :: r ->
  gtoken strict st (q :: stk) s = RTok (TDelim 125) (value_end q) stk r.
Proof.
  intros Hs Es. rewrite (gtoken_at_value strict st (q :: stk) s 125 r Es) by lia.
  destruct st; try discriminate; reflexivity.
Qed.

Lemma skip_ws_to s c r : ws s (c :: r) -> is_ws c = false -> skip_ws s = c :: r.
Proof. intros. apply skip_ws_ws; auto. Qed.

Lemma skip_ws_value s s1 v s2 : ws s s1 -> jvalue s1 v s2 -> skip_ws s = s1.
Proof.
  intros Hw Hv. apply skip_ws_ws; auto.
  destruct (jvalue_head _ _ _ Hv) as (c & s' & -> & Hc). cbn. apply vhead_nows; auto.
Qed.

(* ---------- the grammar drives the token machine ---------- *)

Scheme jvalue_min := Minimality for jvalue Sort Prop
  with jelems_min := Minimality for jelems Sort Prop
  with jmembers_min := Minimality for jmembers Sort Prop.
Combined Scheme jgrammar_min from jvalue_min, jelems_min, jmembers_min.

Definition PV (s : str) (v : jv) (r : str) : Prop :=
  jvalue s v r /\
  (vfollow r -> forall strict st stk, value_allowed st = true ->
     runs0 strict st stk s (toks_of v) (value_end st) stk r).
Definition PE (s : str) (l : list jv) (r : str) : Prop :=
  jelems s l r /\
  (forall strict st q stk, st = ArrayStart \/ st = ArrayValue ->
     runs0 strict st (q :: stk) (skip_ws s) (etoks l ++ [TDelim 93]) (value_end q) stk r).
Definition PM (s : str) (m : list (str * jv)) (r : str) : Prop :=
  jmembers s m r /\
  (forall strict st q stk, st = ObjectStart \/ st = ObjectKey ->
     runs0 strict st (q :: stk) (skip_ws s) (mtoks m ++ [TDelim 125]) (value_end q) stk r).

Lemma scalar_runs0 s v r :
  jvalue s v r -> (match v with JArr _ | JObj _ => False | _ => True end) -> PV s v r.
Proof.
  intros Hv Hsc. split; [exact Hv|]. intros Hf strict st stk Va.
  pose proof (gscan_scalar_complete strict s v r Hv Hf) as Hc.
  destruct (jvalue_head _ _ _ Hv) as (c & s' & -> & Hh).
  assert (Hex : exists t, gscan_scalar strict (c :: s') = Some (t, r) /\ tok_val t = v /\ is_delim t = false)
    by (destruct v; try contradiction; exact Hc).
  destruct Hex as (t & E & Tv & Td).
  assert (N : c <> 91 /\ c <> 123).
  { split; intros ->; cbv in E; discriminate E. }
  destruct N as [N1 N2].
  exists t, [], (value_end st), stk, r. split; [rewrite <- Tv; apply toks_of_scalar; auto|].
  split; [apply nosep_scalar; auto|constructor].
Qed.

Theorem grammar_runs :
  (forall s v r, jvalue s v r -> PV s v r)
  /\ (forall s l r, jelems s l r -> PE s l r)
  /\ (forall s m r, jmembers s m r -> PM s m r).
Proof.
  apply jgrammar_min.
  - intros r. apply scalar_runs0; [constructor|exact I].
  - intros r. apply scalar_runs0; [constructor|exact I].
  - intros r. apply scalar_runs0; [constructor|exact I].
  - intros lit r H. apply scalar_runs0; [constructor; auto|exact I].
  - intros s x r H. apply scalar_runs0; [constructor; auto|exact I].
  - (* [] *)
    intros s r Hw. split; [constructor; auto|]. intros _ strict st stk Va.
    exists (TDelim 91), [TDelim 93], ArrayStart, (st :: stk), s. split; [reflexivity|]. split.
    + unfold gtoken_nosep. cbn. rewrite Va. reflexivity.
    + econstructor; [|constructor]. apply close_arr; [reflexivity|]. apply skip_ws_to; auto.
  - (* [ elems ] *)
    intros s l r _ [He Hr]. split; [constructor; auto|]. intros _ strict st stk Va.
    exists (TDelim 91), (etoks l ++ [TDelim 93]), ArrayStart, (st :: stk), s. split; [reflexivity|]. split.
    + unfold gtoken_nosep. cbn. rewrite Va. reflexivity.
    + apply runs0_runs. apply Hr. auto.
  - (* {} *)
    intros s r Hw. split; [constructor; auto|]. intros _ strict st stk Va.
    exists (TDelim 123), [TDelim 125], ObjectStart, (st :: stk), s. split; [reflexivity|]. split.
    + unfold gtoken_nosep. cbn. rewrite Va. reflexivity.
    + econstructor; [|constructor]. apply close_obj; [reflexivity|]. apply skip_ws_to; auto.
  - (* { members } *)
    intros s m r _ [Hm Hr]. split; [constructor; auto|]. intros _ strict st stk Va.
    exists (TDelim 123), (mtoks m ++ [TDelim 125]), ObjectStart, (st :: stk), s. split; [reflexivity|]. split.
    + unfold gtoken_nosep. cbn. rewrite Va. reflexivity.
    + apply runs0_runs. apply Hr. auto.
  - (* last element *)
    intros s s1 v s2 r Hw1 _ [Hv Hr] Hw2. split; [eapply E_last; eauto|].
    intros strict st q stk Hst. rewrite (skip_ws_value s s1 v s2 Hw1 Hv).
    cbn [etoks flat_map]. rewrite app_nil_r.
    eapply runs0_app.
    + apply Hr; [eapply ws_vfollow; eauto|destruct Hst as [-> | ->]; reflexivity].
    + econstructor; [|constructor]. apply close_arr; [destruct Hst as [-> | ->]; reflexivity|].
      apply skip_ws_to; auto.
  - (* element , elements *)
    intros s s1 v s2 s3 l r Hw1 _ [Hv Hr] Hw2 _ [He Hre]. split; [eapply E_more; eauto|].
    intros strict st q stk Hst. rewrite (skip_ws_value s s1 v s2 Hw1 Hv).
    rewrite etoks_cons, <- app_assoc.
    eapply runs0_app.
    + apply Hr; [eapply ws_vfollow; eauto|destruct Hst as [-> | ->]; reflexivity].
    + replace (value_end st) with ArrayComma by (destruct Hst as [-> | ->]; reflexivity).
      eapply runs_after_comma_arr; [apply skip_ws_to; eauto|]. apply Hre. auto.
  - (* last member *)
    intros s s1 k s2 s3 s4 v s5 r Hw1 Hk Hw2 Hw3 _ [Hv Hr] Hw4. split; [eapply M_last; eauto|].
    intros strict st q stk Hst. rewrite (skip_ws_to s 34 s1 Hw1 eq_refl).
    cbn [mtoks flat_map]. rewrite app_nil_r. cbn [fst snd app].
    exists (TStr k), (toks_of v ++ [TDelim 125]), ObjectColon, (q :: stk), s2. split; [reflexivity|]. split.
    + unfold gtoken_nosep. cbn [Z.eqb Pos.eqb orb andb].
      assert (K : key_state st = true) by (destruct Hst as [-> | ->]; reflexivity).
      fold (key_state st). rewrite K. cbn [gscan_scalar]. rewrite Z.eqb_refl.
      match goal with |- context[gscan_str strict ?f s1] => rewrite (gscan_str_complete _ _ _ Hk strict f) by apply Nat.le_refl end. reflexivity.
    + eapply runs_after_colon; [apply skip_ws_to; eauto|].
      rewrite (skip_ws_value s3 s4 v s5 Hw3 Hv).
      eapply runs0_app.
      * apply Hr; [eapply ws_vfollow; eauto|reflexivity].
      * econstructor; [|constructor]. apply close_obj; [reflexivity|]. apply skip_ws_to; auto.
  - (* member , members *)
    intros s s1 k s2 s3 s4 v s5 s6 m r Hw1 Hk Hw2 Hw3 _ [Hv Hr] Hw4 _ [Hm Hrm]. split; [eapply M_more; eauto|].
    intros strict st q stk Hst. rewrite (skip_ws_to s 34 s1 Hw1 eq_refl).
    rewrite mtoks_cons. cbn [app].
    exists (TStr k), ((toks_of v ++ mtoks m) ++ [TDelim 125]), ObjectColon, (q :: stk), s2. split; [reflexivity|]. split.
    + unfold gtoken_nosep. cbn [Z.eqb Pos.eqb orb andb].
      assert (K : key_state st = true) by (destruct Hst as [-> | ->]; reflexivity).
      fold (key_state st). rewrite K. cbn [gscan_scalar]. rewrite Z.eqb_refl.
      match goal with |- context[gscan_str strict ?f s1] => rewrite (gscan_str_complete _ _ _ Hk strict f) by apply Nat.le_refl end. reflexivity.
    + eapply runs_after_colon; [apply skip_ws_to; eauto|].
      rewrite (skip_ws_value s3 s4 v s5 Hw3 Hv). rewrite <- app_assoc.
      eapply runs0_app.
      * apply Hr; [eapply ws_vfollow; eauto|reflexivity].
      * eapply runs_after_comma_obj; [apply skip_ws_to; eauto|]. apply Hrm. auto.
Qed.

Theorem gtokenize_complete strict b v : spells b v -> gtokenize strict b = (toks_of v, true).
Proof.
  intros (s1 & r & Hw1 & Hv & Hw2).
  destruct (proj1 grammar_runs _ _ _ Hv) as [_ Hr].
  specialize (Hr (ws_nil_vfollow _ Hw2) strict TopValue [] eq_refl).
  rewrite <- (skip_ws_value b s1 v r Hw1 Hv) in Hr. apply runs0_runs in Hr.
  rewrite gtokenize_gtoks, (runs_gtoks _ _ _ _ _ _ _ _ Hr). cbn [value_end].
  rewrite (gtoks_unfold strict TopValue [] r). unfold gtoken.
  rewrite (skip_ws_ws r [] Hw2 I). rewrite app_nil_r. reflexivity.
Qed.

(* ---------- the recursive descent rebuilds the value from its tokens ---------- *)

Section jv_induction.
  Variable P : jv -> Prop.
  Hypothesis HNull : P JNull.
  Hypothesis HBool : forall b, P (JBool b).
  Hypothesis HNum : forall l, P (JNum l).
  Hypothesis HStr : forall s, P (JStr s).
  Hypothesis HArr : forall l, Forall P l -> P (JArr l).
  Hypothesis HObj : forall m, Forall (fun kv => P (snd kv)) m -> P (JObj m).
  Fixpoint jv_ind2 (v : jv) : P v :=
    match v with
    | JNull => HNull
    | JBool b => HBool b
    | JNum l => HNum l
    | JStr s => HStr s
    | JArr l => HArr l ((fix go (l : list jv) : Forall P l :=
                           match l with
                           | [] => Forall_nil _
                           | x :: r => Forall_cons x (jv_ind2 x) (go r)
                           end) l)
    | JObj m => HObj m ((fix go (m : list (str * jv)) : Forall (fun kv => P (snd kv)) m :=
                           match m with
                           | [] => Forall_nil _
                           | kv :: r => Forall_cons kv (jv_ind2 (snd kv)) (go r)
                           end) m)
    end.
End jv_induction.

Definition value_parses (v : jv) : Prop :=
  forall f rest, (2 * length (toks_of v) <= f)%nat ->
    exists t l, toks_of v = t :: l /\ p_value f t (l ++ rest) = Some (v, rest).

Lemma p_array_step f t r acc :
  t <> TDelim 93 -> t <> TDelim 125 ->
  p_array (S f) (t :: r) acc =
  match p_value f t r with Some (v, r') => p_array f r' (v :: acc) | None => None end.
Proof.
  intros N1 N2. cbn [p_array]. destruct t as [c| | | |]; try reflexivity.
  destruct (Z.eqb_spec c 93); [subst; contradiction|].
  destruct (Z.eqb_spec c 125); [subst; contradiction|]. reflexivity.
Qed.

Lemma toks_of_length v : (1 <= length (toks_of v))%nat.
Proof. destruct (toks_of_head v) as (t & l & -> & _). cbn [length]. lia. Qed.

Lemma elems_parse l : Forall value_parses l ->
  forall f acc rest, (2 * length (etoks l ++ [TDelim 93]) + 1 <= f)%nat ->
    p_array f (etoks l ++ TDelim 93 :: rest) acc = Some (rev acc ++ l, rest).
Proof.
  induction 1 as [|v l Hv _ IH]; intros f acc rest Hf.
  - destruct f as [|f]; [cbn in Hf; lia|]. cbn. rewrite app_nil_r. reflexivity.
  - rewrite etoks_cons, <- app_assoc in Hf. rewrite app_length in Hf.
    rewrite etoks_cons, <- app_assoc.
    pose proof (toks_of_length v) as L1.
    destruct f as [|f]; [lia|].
    destruct (toks_of_head v) as (t & lv & Et & N1 & N2).
    destruct (Hv f (etoks l ++ TDelim 93 :: rest)) as (t' & lv' & Et' & Ep); [lia|].
    rewrite Et in Et'. inversion Et'; subst t' lv'. rewrite Et. cbn [app].
    rewrite p_array_step by assumption. rewrite Ep.
    rewrite IH by lia. cbn [rev]. rewrite <- app_assoc. reflexivity.
Qed.

Lemma members_parse m : Forall (fun kv => value_parses (snd kv)) m ->
  forall f acc rest, (2 * length (mtoks m ++ [TDelim 125]) + 1 <= f)%nat ->
    p_object f (mtoks m ++ TDelim 125 :: rest) acc = (rev acc ++ m, Some rest).
Proof.
  induction 1 as [|[k v] m Hv _ IH]; intros f acc rest Hf.
  - destruct f as [|f]; [cbn in Hf; lia|]. cbn. rewrite app_nil_r. reflexivity.
  - rewrite mtoks_cons in Hf. cbn [app] in Hf. rewrite <- app_assoc in Hf. cbn [length] in Hf.
    rewrite app_length in Hf.
    rewrite mtoks_cons. cbn [app]. rewrite <- app_assoc.
    pose proof (toks_of_length v) as L1.
    destruct f as [|f]; [lia|]. cbn [snd] in Hv.
    destruct (Hv f (mtoks m ++ TDelim 125 :: rest)) as (t & lv & Et & Ep); [lia|].
    rewrite Et. cbn [app p_object]. rewrite Ep.
    rewrite IH by lia. cbn [rev]. rewrite <- app_assoc. reflexivity.
Qed.

Theorem value_parses_all v : value_parses v.
Proof.
  induction v using jv_ind2; unfold value_parses; intros f rest Hf.
  - destruct f; [cbn in Hf; lia|]. exists TNull, []. split; reflexivity.
  - destruct f; [cbn in Hf; lia|]. exists (TBool b), []. split; reflexivity.
  - destruct f; [cbn in Hf; lia|]. exists (TNum l), []. split; reflexivity.
  - destruct f; [cbn in Hf; lia|]. exists (TStr s), []. split; reflexivity.
  - rewrite toks_of_arr in *. destruct f; [cbn in Hf; lia|].
    exists (TDelim 91), (etoks l ++ [TDelim 93]). split; [reflexivity|].
    cbn [p_value]. cbn [Z.eqb Pos.eqb]. rewrite <- app_assoc. cbn [app].
    rewrite (elems_parse l H) by (cbn [length] in Hf; lia). reflexivity.
  - rewrite toks_of_obj in *. destruct f; [cbn in Hf; lia|].
    exists (TDelim 123), (mtoks m ++ [TDelim 125]). split; [reflexivity|].
    cbn [p_value]. cbn [Z.eqb Pos.eqb]. rewrite <- app_assoc. cbn [app].
    rewrite (members_parse m H) by (cbn [length] in Hf; lia). reflexivity.
Qed.

Theorem parse_tokens_complete m eof : parse_tokens (toks_of (JObj m)) eof = (m, eof).
Proof.
  rewrite toks_of_obj. unfold parse_tokens. cbn [Z.eqb Pos.eqb].
  assert (F : Forall (fun kv : str * jv => value_parses (snd kv)) m)
    by (apply Forall_forall; intros; apply value_parses_all).
  rewrite (members_parse m F _ [] []) by lia. reflexivity.
Qed.

(* C02 core, first half / C16 completeness: a text that spells the object (JObj m) is accepted
   and yields exactly the members m, in order — with or without strictness *)
Theorem gparse_complete strict b m : spells b (JObj m) -> gparse_top strict b = (m, true).
Proof.
  intros H. unfold gparse_top. rewrite (gtokenize_complete strict b _ H). apply parse_tokens_complete.
Qed.
