(* Layer 0 lemmas: decimal printing and Go's integer parsing are inverse on canonical
   decimals, and a successful parse is always within the requested bit size. *)
From Coq Require Import ZArith List Bool Lia.
From JL.std Require Import GoBase GoStrconv.
Import ListNotations.
Open Scope Z_scope.

Definition digit_char (c : Z) : Prop := 48 <= c <= 57.

Definition horner (s : str) (acc : Z) : Z := fold_left (fun a c => a * 10 + (c - 48)) s acc.

Lemma horner_app s t acc : horner (s ++ t) acc = horner t (horner s acc).
Proof. unfold horner. apply fold_left_app. Qed.

Lemma digit_val_digit c : digit_char c -> digit_val c = Some (c - 48).
Proof.
  unfold digit_char, digit_val. intros H.
  destruct (Z.leb_spec 48 c); [|lia]. destruct (Z.leb_spec c 57); [|lia]. reflexivity.
Qed.

Lemma digits_loop_digits base0 s n us :
  Forall digit_char s -> digits_loop base0 10 s n us = Some (horner s n, us).
Proof.
  intros H. revert n. induction H as [|c s Hc Hs IH]; intros n; cbn [digits_loop horner fold_left].
  - reflexivity.
  - assert (E : (c =? c_us) = false) by (apply Z.eqb_neq; unfold digit_char, c_us in *; lia).
    rewrite E. cbn [andb]. rewrite digit_val_digit by exact Hc.
    destruct (Z.leb_spec 10 (c - 48)); [unfold digit_char in Hc; lia|].
    apply IH.
Qed.

Lemma dec_fuel_spec fuel n acc :
  0 <= n < 10 ^ Z.of_nat (S fuel) ->
  exists d, dec_digits_fuel (S fuel) n acc = d ++ acc /\ Forall digit_char d /\ horner d 0 = n
            /\ (0 < n -> exists c r, d = c :: r /\ c <> 48) /\ (n = 0 -> d = [48]).
Proof.
  revert n acc. induction fuel as [|f IH]; intros n acc Hn.
  - assert (Hlt : n < 10) by (replace (10 ^ Z.of_nat 1) with 10 in Hn by reflexivity; lia).
    cbn [dec_digits_fuel]. destruct (Z.ltb_spec n 10); [|lia].
    exists [48 + n]. split; [reflexivity|]. split; [constructor; [unfold digit_char; lia | constructor]|].
    split; [unfold horner; cbn [fold_left]; lia|]. split.
    + intros Hp. exists (48 + n), []. split; [reflexivity | lia].
    + intros ->. reflexivity.
  - remember (S f) as f1. cbn [dec_digits_fuel]. destruct (Z.ltb_spec n 10) as [Hlt|Hge].
    + exists [48 + n]. split; [reflexivity|]. split; [constructor; [unfold digit_char; lia | constructor]|].
      split; [unfold horner; cbn [fold_left]; lia|]. split.
      * intros Hp. exists (48 + n), []. split; [reflexivity | lia].
      * intros ->. reflexivity.
    + assert (Hq : 0 <= n / 10 < 10 ^ Z.of_nat f1).
      { rewrite (Nat2Z.inj_succ f1), Z.pow_succ_r in Hn by lia.
        split; [apply Z.div_pos; lia | apply Z.div_lt_upper_bound; lia]. }
      subst f1.
      destruct (IH (n / 10) ((48 + n mod 10) :: acc) Hq) as [d [Hd [Hall [Hh [Hnz _]]]]].
      exists (d ++ [48 + n mod 10]). rewrite Hd, <- app_assoc. split; [reflexivity|].
      pose proof (Z.mod_pos_bound n 10 ltac:(lia)) as Hm.
      split; [apply Forall_app; split; [exact Hall | constructor; [unfold digit_char; lia | constructor]]|].
      split.
      * rewrite horner_app, Hh. unfold horner; cbn [fold_left].
        pose proof (Z.div_mod n 10 ltac:(lia)). lia.
      * split; [|lia]. intros _.
        assert (Hq0 : 0 < n / 10) by (apply Z.div_str_pos; lia).
        destruct (Hnz Hq0) as [c [r [-> Hc]]]. exists c, (r ++ [48 + n mod 10]). split; [reflexivity | exact Hc].
Qed.

Lemma pow10_log2 n : 0 < n -> n < 10 ^ Z.of_nat (S (Z.to_nat (Z.log2 n))).
Proof.
  intros Hn. pose proof (Z.log2_spec n Hn) as [_ Hu]. pose proof (Z.log2_nonneg n) as Hl.
  rewrite Nat2Z.inj_succ, Z2Nat.id by exact Hl.
  apply Z.lt_le_trans with (1 := Hu).
  apply Z.pow_le_mono_l. lia.
Qed.

Lemma dec_nat_spec n :
  0 <= n ->
  Forall digit_char (dec_nat n) /\ horner (dec_nat n) 0 = n
  /\ (0 < n -> exists c r, dec_nat n = c :: r /\ c <> 48) /\ (n = 0 -> dec_nat n = [48]).
Proof.
  intros Hn. unfold dec_nat.
  assert (Hb : 0 <= n < 10 ^ Z.of_nat (S (Z.to_nat (Z.log2 n)))).
  { destruct (Z.eq_dec n 0) as [->|Hnz]; [simpl; lia|]. split; [lia | apply pow10_log2; lia]. }
  destruct (dec_fuel_spec _ n [] Hb) as [d [Hd [Hall [Hh [Hnz Hz]]]]].
  rewrite app_nil_r in Hd. rewrite Hd. repeat split; assumption.
Qed.

(* ---- ParseUint / ParseInt on canonical decimals ---- *)
Lemma ParseUint_dec n bits :
  0 <= n -> 0 < bits <= 64 ->
  ParseUint (dec_nat n) 0 bits = if n <=? 2 ^ bits - 1 then Some n else None.
Proof.
  intros Hn Hb. destruct (dec_nat_spec n Hn) as [Hall [Hh [Hnz Hz]]].
  assert (Ebits : (bits =? 0) = false) by (apply Z.eqb_neq; lia).
  assert (Ebad : ((bits <? 0) || (64 <? bits)) = false).
  { destruct (Z.ltb_spec bits 0); [lia|]. destruct (Z.ltb_spec 64 bits); [lia|]. reflexivity. }
  destruct (Z.eq_dec n 0) as [->|Hne].
  - rewrite (Hz eq_refl). unfold ParseUint. cbn [Z.eqb length]. 
    rewrite Ebits, Ebad. cbn. 
    assert (H0 : (2 ^ bits - 1 <? 0) = false) by (apply Z.ltb_ge; pose proof (Z.pow_pos_nonneg 2 bits); lia).
    rewrite H0. destruct (Z.leb_spec 0 (2 ^ bits - 1)); [reflexivity|].
    pose proof (Z.pow_pos_nonneg 2 bits). lia.
  - destruct (Hnz ltac:(lia)) as [c [r [E Hc]]]. unfold ParseUint. rewrite E.
    change (0 =? 0) with true. cbv iota.
    assert (Ec : (c =? 48) = false) by (apply Z.eqb_neq; exact Hc). rewrite Ec.
    cbn [negb andb]. rewrite Ebits, Ebad. rewrite <- E.
    rewrite digits_loop_digits by exact Hall. rewrite Hh.
    destruct (Z.ltb_spec (2 ^ bits - 1) n); destruct (Z.leb_spec n (2 ^ bits - 1)); try lia; reflexivity.
Qed.

Lemma dec_nat_nonempty n : 0 <= n -> dec_nat n <> [].
Proof.
  intros Hn. destruct (dec_nat_spec n Hn) as [_ [_ [Hnz Hz]]].
  destruct (Z.eq_dec n 0) as [->|]; [rewrite Hz by reflexivity; discriminate|].
  destruct (Hnz ltac:(lia)) as [c [r [-> _]]]. discriminate.
Qed.

Lemma dec_nat_first n : 0 <= n -> exists c r, dec_nat n = c :: r /\ digit_char c.
Proof.
  intros Hn. destruct (dec_nat_spec n Hn) as [Hall _].
  destruct (dec_nat n) as [|c r] eqn:E; [exfalso; apply (dec_nat_nonempty n Hn); exact E|].
  exists c, r. split; [reflexivity | inversion Hall; assumption].
Qed.

Lemma ParseInt_dec z bits :
  0 < bits <= 64 ->
  ParseInt (dec z) 0 bits = if (- 2 ^ (bits - 1) <=? z) && (z <=? 2 ^ (bits - 1) - 1) then Some z else None.
Proof.
  intros Hb. assert (Ebits : (bits =? 0) = false) by (apply Z.eqb_neq; lia).
  assert (Hp : 0 < 2 ^ (bits - 1)) by (apply Z.pow_pos_nonneg; lia).
  assert (Hle : 2 ^ (bits - 1) <= 2 ^ 63) by (apply Z.pow_le_mono_r; lia).
  unfold dec. destruct (Z.ltb_spec z 0) as [Hneg|Hpos].
  - (* negative: "-" ++ digits *)
    unfold ParseInt. change (c_minus =? c_plus) with false. change (c_minus =? c_minus) with true. cbv iota.
    destruct (dec_nat_first (- z) ltac:(lia)) as [c [r [E Hc]]]. rewrite E, <- E, Ebits.
    rewrite (ParseUint_dec (- z)) by lia.
    destruct (Z.leb_spec (- z) (2 ^ 64 - 1)) as [H64|H64].
    + cbn [negb andb]. destruct (Z.ltb_spec (2 ^ (bits - 1)) (- z)).
      * destruct (Z.leb_spec (- 2 ^ (bits - 1)) z); [lia|]. reflexivity.
      * destruct (Z.leb_spec (- 2 ^ (bits - 1)) z); [|lia].
        destruct (Z.leb_spec z (2 ^ (bits - 1) - 1)); [|lia]. cbn [andb]. f_equal. lia.
    + destruct (Z.leb_spec (- 2 ^ (bits - 1)) z); [|reflexivity].
      change (2 ^ 64) with (2 * 2 ^ 63) in H64. lia.
  - (* non-negative: the digits; the first is not a sign *)
    destruct (dec_nat_first z Hpos) as [c [r [E Hc]]]. unfold ParseInt. rewrite E.
    assert (E1 : (c =? c_plus) = false) by (apply Z.eqb_neq; unfold digit_char, c_plus in *; lia).
    assert (E2 : (c =? c_minus) = false) by (apply Z.eqb_neq; unfold digit_char, c_minus in *; lia).
    rewrite E1, E2, <- E, Ebits. rewrite (ParseUint_dec z) by lia.
    destruct (Z.leb_spec z (2 ^ 64 - 1)) as [H64|H64].
    + cbn [negb andb]. destruct (Z.leb_spec (2 ^ (bits - 1)) z).
      * destruct (Z.leb_spec z (2 ^ (bits - 1) - 1)); [lia|]. rewrite andb_false_r. reflexivity.
      * destruct (Z.leb_spec (- 2 ^ (bits - 1)) z); [|lia].
        destruct (Z.leb_spec z (2 ^ (bits - 1) - 1)); [|lia]. reflexivity.
    + destruct (Z.leb_spec z (2 ^ (bits - 1) - 1)); [|rewrite andb_false_r; reflexivity].
      change (2 ^ 64) with (2 * 2 ^ 63) in H64. lia.
Qed.

Lemma ParseUint_dec_neg z bits : z < 0 -> ParseUint (dec z) 0 bits = None.
Proof.
  intros Hz. unfold dec. destruct (Z.ltb_spec z 0); [|lia].
  unfold ParseUint. change (0 =? 0) with true. cbv iota. change (c_minus =? 48) with false. cbv iota.
  cbn [negb andb]. destruct (if bits =? 0 then 64 else bits) eqn:Eb; cbn [Z.ltb Z.compare orb];
  try (destruct ((64 <? Z.pos p)); try reflexivity);
  try reflexivity.
Qed.

(* ---- a successful parse is within the bit size, for every string ---- *)
Lemma digit_val_nonneg c d : digit_val c = Some d -> 0 <= d.
Proof.
  unfold digit_val. destruct ((48 <=? c) && (c <=? 57)) eqn:E1.
  - intros H; inversion H; subst. apply andb_true_iff in E1 as [E _]. apply Z.leb_le in E. lia.
  - destruct ((97 <=? lower c) && (lower c <=? 122)) eqn:E2; [|discriminate].
    intros H; inversion H; subst. apply andb_true_iff in E2 as [E _]. apply Z.leb_le in E. lia.
Qed.

Lemma digits_loop_nonneg base0 base s n us r us' :
  0 <= base -> 0 <= n -> digits_loop base0 base s n us = Some (r, us') -> 0 <= r.
Proof.
  intros Hb. revert n us. induction s as [|c s IH]; intros n us Hn H; cbn [digits_loop] in H.
  - inversion H; subst; exact Hn.
  - destruct ((c =? c_us) && base0); [eapply IH; eauto|].
    destruct (digit_val c) as [d|] eqn:Ed; [|discriminate].
    destruct (base <=? d); [discriminate|].
    apply digit_val_nonneg in Ed. eapply IH; [|exact H]. nia.
Qed.

Lemma ParseUint_range s base bits z :
  ParseUint s base bits = Some z -> 0 <= z <= 2 ^ (if bits =? 0 then 64 else bits) - 1.
Proof.
  unfold ParseUint. destruct s as [|c0 r0]; [discriminate|].
  set (bb := if base =? 0 then _ else _). destruct bb as [b body] eqn:Ebb.
  destruct (negb (base =? 0) && ((b <? 2) || (36 <? b))) eqn:Eg; [discriminate|].
  destruct ((if bits =? 0 then 64 else bits) <? 0) eqn:E1; [discriminate|].
  destruct (64 <? (if bits =? 0 then 64 else bits)) eqn:E2; [discriminate|]. cbn [orb].
  destruct (digits_loop (base =? 0) b body 0 false) as [[n us]|] eqn:Ed; [|discriminate].
  destruct (2 ^ (if bits =? 0 then 64 else bits) - 1 <? n) eqn:E3; [discriminate|].
  destruct (us && negb (underscoreOK (c0 :: r0))); [discriminate|].
  intros H; inversion H; subst. apply Z.ltb_ge in E3. split; [|exact E3].
  assert (Hb : 0 <= b).
  { subst bb. destruct (base =? 0) eqn:E0.
    - destruct (c0 =? 48); [|inversion Ebb; lia].
      destruct r0 as [|c1 r1]; [inversion Ebb; lia|].
      repeat match type of Ebb with (if ?c then _ else _) = _ => destruct c end; inversion Ebb; lia.
    - inversion Ebb; subst. cbn [negb andb] in Eg.
      destruct (Z.ltb_spec b 2); [discriminate|]. lia. }
  eapply digits_loop_nonneg; [exact Hb | | exact Ed]. lia.
Qed.

Lemma ParseInt_range s base bits z :
  0 <= bits ->
  ParseInt s base bits = Some z ->
  - 2 ^ ((if bits =? 0 then 64 else bits) - 1) <= z <= 2 ^ ((if bits =? 0 then 64 else bits) - 1) - 1.
Proof.
  intros Hbits.
  assert (Hp : 0 < 2 ^ ((if bits =? 0 then 64 else bits) - 1)).
  { apply Z.pow_pos_nonneg; [lia|]. destruct (Z.eqb_spec bits 0); lia. }
  unfold ParseInt. destruct s as [|c0 r0]; [discriminate|].
  set (nb := if c0 =? c_plus then _ else _). destruct nb as [neg body].
  destruct body as [|b0 b1]; [discriminate|].
  destruct (ParseUint (b0 :: b1) base 64) as [un|] eqn:Eu; [|discriminate].
  apply ParseUint_range in Eu.
  destruct neg; cbn [negb andb].
  - destruct (Z.ltb_spec (2 ^ ((if bits =? 0 then 64 else bits) - 1)) un); [discriminate|].
    intros Hz; inversion Hz; subst. lia.
  - destruct (Z.leb_spec (2 ^ ((if bits =? 0 then 64 else bits) - 1)) un); [discriminate|].
    intros Hz; inversion Hz; subst. lia.
Qed.
