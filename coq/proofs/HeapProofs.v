(* C15 — templates, the rows they create and clones never alias each other: ownership
   invariant of the store model (JL.model.Heap) and the frame property. *)
From Coq Require Import ZArith List Bool Lia PeanoNat.
From JL.std Require Import GoBase GoFloat GoStrconv GoTime GoVal.
From JL.gen Require Import CastGen ConvGen.
From JL.model Require Import Row Template Heap.
Import ListNotations.

(* every object id held by a row is allocated, and no two rows hold the same object *)
Definition owned (W : world) : Prop :=
  (forall rid r i, nth_error (rows W) rid = Some r -> In i (ids_of r) -> (i < next W)%nat)
  /\ (forall a b ra rb i, a <> b -> nth_error (rows W) a = Some ra -> nth_error (rows W) b = Some rb ->
        In i (ids_of ra) -> ~ In i (ids_of rb)).

Lemma owned_empty : owned empty_world.
Proof.
  split.
  - intros rid r i H. destruct rid; discriminate.
  - intros a b ra rb i _ H. destruct a; discriminate.
Qed.

(* ---------- list plumbing ---------- *)
Lemma nth_set_nth_same {A} (l : list A) n x : (n < length l)%nat -> nth_error (set_nth l n x) n = Some x.
Proof. revert n. induction l as [|y l IH]; intros [|n] H; cbn in *; try lia; auto; apply IH; lia. Qed.

Lemma nth_set_nth_other {A} (l : list A) n m x : n <> m -> nth_error (set_nth l n x) m = nth_error l m.
Proof.
  revert n m. induction l as [|y l IH]; intros [|n] [|m] H; cbn; auto; try congruence; apply IH; congruence.
Qed.

Lemma set_nth_length {A} (l : list A) n x : length (set_nth l n x) = length l.
Proof. revert n. induction l as [|y l IH]; intros [|n]; cbn; auto. Qed.

Lemma hget_hset_other h i j c : i <> j -> hget (hset h j c) i = hget h i.
Proof. intros H. unfold hset. cbn. destruct (Nat.eqb_spec i j); [contradiction | reflexivity]. Qed.

Lemma hget_hset_same h i c : hget (hset h i c) i = Some c.
Proof. unfold hset. cbn. now rewrite Nat.eqb_refl. Qed.

Lemma ids_aset k (i : vid) (m : list (str * vid)) j : In j (map snd (aset k i m)) -> j = i \/ In j (map snd m).
Proof.
  induction m as [|[k' v] m IH]; cbn; [intros [H|[]]; auto|].
  destruct (str_eqb k k'); cbn; intros [H|H]; auto. destruct (IH H); auto.
Qed.

Lemma alookup_ids (k : str) (m : list (str * vid)) i : alookup k m = Some i -> In i (map snd m).
Proof.
  induction m as [|[k' v] m IH]; cbn; [discriminate|]. destruct (str_eqb k k'); [intros [= ->]; now left | auto].
Qed.

(* the view of a row only depends on the contents of the objects it holds *)
Lemma view_row_ext h h' r : (forall i, In i (ids_of r) -> hget h' i = hget h i) -> view_row h' r = view_row h r.
Proof.
  intros H. unfold view_row. f_equal. unfold ids_of in H. induction (hm r) as [|[k i] m IH]; [reflexivity|].
  cbn [flat_map fst snd]. rewrite (H i) by (now left). rewrite IH; [reflexivity|]. intros j Hj. apply H. now right.
Qed.

(* ---------- the two primitive effects ---------- *)
Lemma store_fresh_owned W rid k c : owned W -> owned (store_fresh W rid k c).
Proof.
  intros [Hlt Hdj]. unfold store_fresh, get_row_h. destruct (nth_error (rows W) rid) as [r|] eqn:E; [|split; auto].
  assert (Hrid : (rid < length (rows W))%nat) by (apply nth_error_Some; congruence).
  split; cbn [rows next heap].
  - intros x rx i Hx Hi. destruct (Nat.eq_dec rid x) as [<-|Hd].
    + rewrite nth_set_nth_same in Hx by exact Hrid. injection Hx as <-. unfold ids_of in Hi. cbn [hm] in Hi.
      apply ids_aset in Hi as [->|Hi]; [lia|]. specialize (Hlt rid r i E Hi). lia.
    + rewrite nth_set_nth_other in Hx by exact Hd. specialize (Hlt x rx i Hx Hi). lia.
  - intros a b ra rb i Hab Ha Hb Hia Hib.
    destruct (Nat.eq_dec rid a) as [<-|Hda]; destruct (Nat.eq_dec rid b) as [<-|Hdb]; try contradiction.
    + rewrite nth_set_nth_same in Ha by exact Hrid. injection Ha as <-. rewrite nth_set_nth_other in Hb by exact Hdb.
      unfold ids_of in Hia. cbn [hm] in Hia. apply ids_aset in Hia as [->|Hia].
      * specialize (Hlt b rb (next W) Hb Hib). lia.
      * exact (Hdj rid b r rb i Hab E Hb Hia Hib).
    + rewrite nth_set_nth_same in Hb by exact Hrid. injection Hb as <-. rewrite nth_set_nth_other in Ha by exact Hda.
      unfold ids_of in Hib. cbn [hm] in Hib. apply ids_aset in Hib as [->|Hib].
      * specialize (Hlt a ra (next W) Ha Hia). lia.
      * exact (Hdj a rid ra r i Hab Ha E Hia Hib).
    + rewrite nth_set_nth_other in Ha by exact Hda. rewrite nth_set_nth_other in Hb by exact Hdb.
      exact (Hdj a b ra rb i Hab Ha Hb Hia Hib).
Qed.

Lemma store_fresh_frame W rid k c x : owned W -> x <> rid -> view (store_fresh W rid k c) x = view W x.
Proof.
  intros [Hlt _] Hx. unfold store_fresh, get_row_h. destruct (nth_error (rows W) rid) as [r|] eqn:E; [|reflexivity].
  unfold view, get_row_h. cbn [rows heap]. rewrite nth_set_nth_other by congruence.
  destruct (nth_error (rows W) x) as [rx|] eqn:Ex; [|reflexivity]. f_equal. apply view_row_ext.
  intros i Hi. apply hget_hset_other. specialize (Hlt x rx i Ex Hi). lia.
Qed.

Lemma store_fresh_rows_length W rid k c : length (rows (store_fresh W rid k c)) = length (rows W).
Proof.
  unfold store_fresh, get_row_h. destruct (nth_error (rows W) rid); [|reflexivity]. cbn. apply set_nth_length.
Qed.

Lemma mutate_owned W rid k c : owned W -> owned (mutate W rid k c).
Proof.
  intros H. unfold mutate, get_row_h. destruct (nth_error (rows W) rid) as [r|]; auto.
  destruct (alookup k (hm r)); auto.
Qed.

Lemma mutate_frame W rid k c x : owned W -> x <> rid -> view (mutate W rid k c) x = view W x.
Proof.
  intros [_ Hdj] Hx. unfold mutate, get_row_h. destruct (nth_error (rows W) rid) as [r|] eqn:E; [|reflexivity].
  destruct (alookup k (hm r)) as [i|] eqn:Ei; [|reflexivity].
  unfold view, get_row_h. cbn [rows heap]. destruct (nth_error (rows W) x) as [rx|] eqn:Ex; [|reflexivity].
  f_equal. apply view_row_ext. intros j Hj. apply hget_hset_other. intros ->.
  apply (Hdj rid x r rx i); auto. unfold ids_of. eapply alookup_ids; eauto.
Qed.

Lemma mutate_rows_length W rid k c : length (rows (mutate W rid k c)) = length (rows W).
Proof.
  unfold mutate, get_row_h. destruct (nth_error (rows W) rid) as [r|]; [|reflexivity].
  destruct (alookup k (hm r)); reflexivity.
Qed.

Lemma alloc_row_owned W : owned W -> owned (alloc_row W).
Proof.
  intros [Hlt Hdj]. unfold alloc_row. split; cbn [rows next].
  - intros rid r i Hr Hi. destruct (Nat.lt_ge_cases rid (length (rows W))) as [Hl|Hl].
    + rewrite nth_error_app1 in Hr by exact Hl. eauto.
    + rewrite nth_error_app2 in Hr by exact Hl. destruct (rid - length (rows W))%nat as [|n]; cbn in Hr; [|destruct n; discriminate].
      injection Hr as <-. destruct Hi.
  - intros a b ra rb i Hab Ha Hb Hia Hib.
    destruct (Nat.lt_ge_cases a (length (rows W))) as [Hla|Hla]; destruct (Nat.lt_ge_cases b (length (rows W))) as [Hlb|Hlb].
    + rewrite nth_error_app1 in Ha, Hb by assumption. eapply Hdj; eauto.
    + rewrite nth_error_app2 in Hb by exact Hlb. destruct (b - length (rows W))%nat as [|n]; cbn in Hb; [|destruct n; discriminate].
      injection Hb as <-. destruct Hib.
    + rewrite nth_error_app2 in Ha by exact Hla. destruct (a - length (rows W))%nat as [|n]; cbn in Ha; [|destruct n; discriminate].
      injection Ha as <-. destruct Hia.
    + rewrite nth_error_app2 in Ha by exact Hla. destruct (a - length (rows W))%nat as [|n]; cbn in Ha; [|destruct n; discriminate].
      injection Ha as <-. destruct Hia.
Qed.

Lemma alloc_row_frame W x : (x < length (rows W))%nat -> view (alloc_row W) x = view W x.
Proof. intros H. unfold view, get_row_h, alloc_row. cbn [rows heap]. now rewrite nth_error_app1 by exact H. Qed.

(* ---------- folds of primitives ---------- *)
Section Steps.
  Context (O : oracles) (parse_top : str -> list (str * rv) * bool).

  Lemma fill_fresh_spec m : forall l W rid x,
    owned W -> x <> rid ->
    owned (fill_fresh W rid m l) /\ view (fill_fresh W rid m l) x = view W x
    /\ length (rows (fill_fresh W rid m l)) = length (rows W).
  Proof.
    induction l as [|k l IH]; intros W rid x Ho Hx; cbn [fill_fresh]; [auto|].
    destruct (alookup k m) as [c|]; [|apply IH; auto].
    destruct (IH (store_fresh W rid k c) rid x (store_fresh_owned _ _ _ _ Ho) Hx) as [H1 [H2 H3]].
    split; [exact H1|]. split; [rewrite H2; now apply store_fresh_frame | rewrite H3; apply store_fresh_rows_length].
  Qed.

  Lemma new_row_from_spec W r x :
    owned W -> (x < length (rows W))%nat ->
    owned (new_row_from W r) /\ view (new_row_from W r) x = view W x.
  Proof.
    intros Ho Hx. unfold new_row_from.
    destruct (fill_fresh_spec (row_m r) (row_l r) (alloc_row W) (length (rows W)) x (alloc_row_owned _ Ho)) as [H1 [H2 _]]; [lia|].
    split; [exact H1|]. rewrite H2. now apply alloc_row_frame.
  Qed.

  Lemma write_back_spec inplace old m : forall l W rid x,
    owned W -> x <> rid ->
    owned (write_back inplace W rid old m l) /\ view (write_back inplace W rid old m l) x = view W x.
  Proof.
    induction l as [|k l IH]; intros W rid x Ho Hx; cbn [write_back]; [auto|].
    destruct (alookup k m) as [c|]; [|apply IH; auto].
    destruct (alookup k (row_m old)) as [c0|]; [destruct (inplace k)|].
    - destruct (IH (mutate W rid k c) rid x (mutate_owned _ _ _ _ Ho) Hx) as [H1 H2].
      split; [exact H1 | rewrite H2; now apply mutate_frame].
    - destruct (IH (store_fresh W rid k c) rid x (store_fresh_owned _ _ _ _ Ho) Hx) as [H1 H2].
      split; [exact H1 | rewrite H2; now apply store_fresh_frame].
    - destruct (IH (store_fresh W rid k c) rid x (store_fresh_owned _ _ _ _ Ho) Hx) as [H1 H2].
      split; [exact H1 | rewrite H2; now apply store_fresh_frame].
  Qed.

  (* the row an operation may write: none for the creation operations (they only write the row
     they create, which did not exist before) *)
  Definition target (o : hop) : option nat :=
    match o with
    | HWith t _ _ _ | HWithRow t _ _ => Some t
    | HUnmarshal r _ | HSet r _ _ | HImportAtKey r _ _ | HImportAtPath r _ _ => Some r
    | HShare _ _ dst _ => Some dst
    | _ => None
    end.

  Definition no_sharing (o : hop) : Prop := match o with HShare _ _ _ _ => False | _ => True end.

  Theorem hstep_owned_frame W o x :
    owned W -> no_sharing o -> (x < length (rows W))%nat -> target o <> Some x ->
    owned (hstep O parse_top W o) /\ view (hstep O parse_top W o) x = view W x.
  Proof.
    intros Ho Hn Hx Ht. destruct o; cbn [hstep target no_sharing] in *; try contradiction.
    - split; [now apply alloc_row_owned | now apply alloc_row_frame].
    - split; [now apply store_fresh_owned | apply store_fresh_frame; auto; congruence].
    - destruct (view W sub) as [sv|]; [|auto]. destruct (clone_row O FUELH sv); auto.
      split; [now apply store_fresh_owned | apply store_fresh_frame; auto; congruence].
    - destruct (view W t) as [tv|]; [|auto]. destruct (clone_row O FUELH tv); auto. now apply new_row_from_spec.
    - destruct (view W t) as [tv|]; [|auto]. destruct (create_row O parse_top FUELH tv input); auto. now apply new_row_from_spec.
    - destruct (view W t) as [tv|]; [|auto]. destruct (view W src) as [sv|]; [|auto].
      destruct (create_row O parse_top FUELH tv (RV (CRow sv))); auto. now apply new_row_from_spec.
    - destruct (view W r) as [rv0|]; [|auto]. destruct (unmarshal_text O parse_top FUELH text rv0) as [r' e].
      apply write_back_spec; auto; congruence.
    - destruct (view W r) as [rv0|]; [|auto]. destruct (row_set O k v rv0) as [r'| | |]; auto.
      destruct (alookup k (row_m r')); auto. split; [now apply store_fresh_owned | apply store_fresh_frame; auto; congruence].
    - destruct (view W r) as [rv0|]; [|auto]. destruct (import_at_key O FUELH k v rv0) as [r' e].
      destruct (alookup k (row_m r')); auto. destruct (ahas k (row_m rv0)).
      + split; [now apply mutate_owned | apply mutate_frame; auto; congruence].
      + split; [now apply store_fresh_owned | apply store_fresh_frame; auto; congruence].
    - destruct (view W r) as [rv0|]; [|auto]. destruct (import_at_path O FUELH p v rv0) as [r' e].
      destruct (split_dot p) as [|k ks]; auto. destruct (alookup k (row_m r')); auto. destruct (ahas k (row_m rv0)); auto.
      split; [now apply mutate_owned | apply mutate_frame; auto; congruence].
  Qed.

  Lemma new_row_from_owned W r : owned W -> owned (new_row_from W r).
  Proof.
    intros Ho. unfold new_row_from.
    apply (fill_fresh_spec (row_m r) (row_l r) (alloc_row W) (length (rows W)) (S (length (rows W))));
      [now apply alloc_row_owned | lia].
  Qed.

  Lemma write_back_owned inplace W rid old m l : owned W -> owned (write_back inplace W rid old m l).
  Proof. intros Ho. apply (write_back_spec inplace old m l W rid (S rid)); [exact Ho | lia]. Qed.

  Theorem hstep_owned W o : owned W -> no_sharing o -> owned (hstep O parse_top W o).
  Proof.
    intros Ho Hn. destruct o; cbn [hstep no_sharing] in *; try contradiction.
    - now apply alloc_row_owned.
    - now apply store_fresh_owned.
    - destruct (view W sub) as [sv|]; [|auto]. destruct (clone_row O FUELH sv); auto. now apply store_fresh_owned.
    - destruct (view W t) as [tv|]; [|auto]. destruct (clone_row O FUELH tv); auto. now apply new_row_from_owned.
    - destruct (view W t) as [tv|]; [|auto]. destruct (create_row O parse_top FUELH tv input); auto. now apply new_row_from_owned.
    - destruct (view W t) as [tv|]; [|auto]. destruct (view W src) as [sv|]; [|auto].
      destruct (create_row O parse_top FUELH tv (RV (CRow sv))); auto. now apply new_row_from_owned.
    - destruct (view W r) as [rv0|]; [|auto]. destruct (unmarshal_text O parse_top FUELH text rv0) as [r' e].
      now apply write_back_owned.
    - destruct (view W r) as [rv0|]; [|auto]. destruct (row_set O k v rv0) as [r'| | |]; auto.
      destruct (alookup k (row_m r')); auto. now apply store_fresh_owned.
    - destruct (view W r) as [rv0|]; [|auto]. destruct (import_at_key O FUELH k v rv0) as [r' e].
      destruct (alookup k (row_m r')); auto. destruct (ahas k (row_m rv0)); [now apply mutate_owned | now apply store_fresh_owned].
    - destruct (view W r) as [rv0|]; [|auto]. destruct (import_at_path O FUELH p v rv0) as [r' e].
      destruct (split_dot p) as [|k ks]; auto. destruct (alookup k (row_m r')); auto. destruct (ahas k (row_m rv0)); auto.
      now apply mutate_owned.
  Qed.

  Theorem hrun_owned ops : forall W, owned W -> Forall no_sharing ops -> owned (hrun O parse_top ops W).
  Proof.
    induction ops as [|o ops IH]; intros W Ho Hn; [exact Ho|]. inversion Hn as [|? ? H1 H2]; subst.
    change (hrun O parse_top (o :: ops) W) with (hrun O parse_top ops (hstep O parse_top W o)).
    apply IH; [now apply hstep_owned | exact H2].
  Qed.

  Lemma hstep_rows_grow W o : (length (rows W) <= length (rows (hstep O parse_top W o)))%nat.
  Proof.
    assert (Hff : forall m l W0 rid, length (rows (fill_fresh W0 rid m l)) = length (rows W0)).
    { intros m l. induction l as [|k l IH]; intros W0 rid; cbn [fill_fresh]; auto.
      destruct (alookup k m); auto. rewrite IH. apply store_fresh_rows_length. }
    assert (Hnr : forall W0 r, length (rows (new_row_from W0 r)) = S (length (rows W0))).
    { intros W0 r. unfold new_row_from. rewrite Hff. unfold alloc_row. cbn. rewrite app_length. cbn. lia. }
    assert (Hwb : forall inplace old m l W0 rid, length (rows (write_back inplace W0 rid old m l)) = length (rows W0)).
    { intros inplace old m l. induction l as [|k l IH]; intros W0 rid; cbn [write_back]; auto.
      destruct (alookup k m); auto. destruct (alookup k (row_m old)); [destruct (inplace k)|]; rewrite IH;
        auto using mutate_rows_length, store_fresh_rows_length. }
    destruct o; cbn [hstep].
    - unfold alloc_row. cbn. rewrite app_length. lia.
    - rewrite store_fresh_rows_length. lia.
    - destruct (view W sub); auto. destruct (clone_row O FUELH c); auto. rewrite store_fresh_rows_length. lia.
    - destruct (view W t); auto. destruct (clone_row O FUELH c); auto. rewrite Hnr. lia.
    - destruct (view W t); auto. destruct (create_row O parse_top FUELH c input); auto. rewrite Hnr. lia.
    - destruct (view W t); auto. destruct (view W src); auto. destruct (create_row O parse_top FUELH c (RV (CRow c0))); auto. rewrite Hnr. lia.
    - destruct (view W r); auto. destruct (unmarshal_text O parse_top FUELH text c). rewrite Hwb. lia.
    - destruct (view W r); auto. destruct (row_set O k v c); auto. destruct (alookup k (row_m a)); auto. rewrite store_fresh_rows_length. lia.
    - destruct (view W r); auto. destruct (import_at_key O FUELH k v c). destruct (alookup k (row_m c0)); auto.
      destruct (ahas k (row_m c)); [rewrite mutate_rows_length | rewrite store_fresh_rows_length]; lia.
    - destruct (view W r); auto. destruct (import_at_path O FUELH p v c). destruct (split_dot p); auto.
      destruct (alookup s (row_m c0)); auto. destruct (ahas s (row_m c)); auto. rewrite mutate_rows_length. lia.
    - unfold share. destruct (get_row_h W src); auto. destruct (get_row_h W dst); auto. destruct (alookup k (hm h)); auto.
      cbn. rewrite set_nth_length. lia.
  Qed.

  (* every history without explicit sharing keeps the ownership invariant, and leaves every row
     (template prototype or live row) that no operation targets exactly as it was *)
  Theorem hrun_owned_frame ops : forall W x,
    owned W -> Forall no_sharing ops -> (x < length (rows W))%nat -> Forall (fun o => target o <> Some x) ops ->
    owned (hrun O parse_top ops W) /\ view (hrun O parse_top ops W) x = view W x.
  Proof.
    induction ops as [|o ops IH]; intros W x Ho Hn Hx Ht; [auto|].
    inversion Hn as [|? ? Hn1 Hn2]; subst. inversion Ht as [|? ? Ht1 Ht2]; subst.
    destruct (hstep_owned_frame W o x Ho Hn1 Hx Ht1) as [H1 H2].
    change (hrun O parse_top (o :: ops) W) with (hrun O parse_top ops (hstep O parse_top W o)).
    destruct (IH (hstep O parse_top W o) x H1 Hn2) as [H3 H4]; auto.
    - pose proof (hstep_rows_grow W o). lia.
    - split; [exact H3 | now rewrite H4].
  Qed.
End Steps.
