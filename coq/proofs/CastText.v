(* C12 — numbers rendered as text or JSON numbers read back exactly: lemmas over CastGen. *)
From Coq Require Import ZArith List Bool Lia.
From JL.std Require Import GoBase GoFloat GoStrconv GoTime GoVal GoBase64 GoJsonNum.
From JL.gen Require Import CastGen.
From JL.proofs Require Import CastTactics CastBinary StrconvProofs CastInt.
Import ListNotations.
Open Scope Z_scope.

Lemma skip_digits_all s : Forall digit_char s -> skip_digits s = [].
Proof.
  induction 1 as [|c s Hc _ IH]; [reflexivity|]. cbn [skip_digits].
  unfold is_digit. unfold digit_char in Hc.
  destruct (Z.leb_spec 48 c); [|lia]. destruct (Z.leb_spec c 57); [|lia]. exact IH.
Qed.

Lemma json_number_dec_nat n : 0 <= n -> is_json_number (dec_nat n) = true.
Proof.
  intros Hn. destruct (dec_nat_spec n Hn) as [Hall [_ [Hnz Hz]]].
  destruct (Z.eq_dec n 0) as [->|Hne]; [rewrite Hz by reflexivity; reflexivity|].
  destruct (Hnz ltac:(lia)) as [c [r [E Hc]]]. rewrite E in *.
  inversion Hall as [|? ? Hdc Hr]; subst. unfold digit_char in Hdc.
  unfold is_json_number.
  destruct (Z.eqb_spec c 45); [lia|].
  destruct (Z.eqb_spec c 48); [contradiction|].
  destruct (Z.leb_spec 49 c); [|lia]. destruct (Z.leb_spec c 57); [|lia]. cbn [andb].
  rewrite skip_digits_all by exact Hr. reflexivity.
Qed.

Lemma json_number_dec z : is_json_number (dec z) = true.
Proof.
  unfold dec. destruct (Z.ltb_spec z 0) as [Hneg|Hpos].
  - pose proof (json_number_dec_nat (- z) ltac:(lia)) as HJ.
    destruct (dec_nat_first (- z) ltac:(lia)) as [c [r [E Hc]]]. rewrite E in *.
    unfold is_json_number in *. unfold c_minus. change (45 =? 45) with true. cbv iota.
    unfold digit_char in Hc. destruct (Z.eqb_spec c 45); [lia|]. exact HJ.
  - apply json_number_dec_nat. lia.
Qed.

Section CastText.
  Context (O : oracles).

  Ltac range_k := unfold in_range, imin, imax; cbn [isigned ibits isize];
                  repeat match goal with |- context [2 ^ ?n] => let v := eval compute in (2 ^ n) in change (2 ^ n) with v end.
  Ltac range_k_in H := unfold in_range, imin, imax in H; cbn [isigned ibits isize] in H;
                  repeat match type of H with context [2 ^ ?n] => let v := eval compute in (2 ^ n) in change (2 ^ n) with v in H end.

  Lemma ToString_int k z : in_range k z -> ToString O (VInt k z) = Ok (VStr (dec z)).
  Proof.
    intros H. destruct k; range_k_in H; cast_unfold_top;
      rewrite ?conv_int_id by (range_k; lia); reflexivity.
  Qed.

  Lemma ToNumber_int k z : in_range k z -> ToNumber O (VInt k z) = Ok (VNum (dec z)).
  Proof.
    intros H. destruct k; range_k_in H; cast_unfold_top;
      rewrite ?conv_int_id by (range_k; lia); reflexivity.
  Qed.

  Lemma int_text_roundtrip k z :
    in_range k z ->
    To O (sample k) (VStr (dec z)) = Ok (VInt k z) /\ To O (sample k) (VNum (dec z)) = Ok (VInt k z).
  Proof.
    intros H. assert (E : To O (sample k) (VStr (dec z)) = Ok (VInt k z)).
    { rewrite (ToInt_text_src O k (dec z)), (parse_for_dec k z).
      apply in_rangeb_spec in H. rewrite H. reflexivity. }
    split; [exact E | rewrite (ToInt_num_src O k (dec z)); exact E].
  Qed.

  (* bool *)
  Lemma bool_text b :
    ToString O (VBool b) = Ok (VStr (FormatBool b))
    /\ ToNumber O (VBool b) = Ok (VNum (if b then [49] else [48]))
    /\ To O (VBool true) (VStr (FormatBool b)) = Ok (VBool b).
  Proof. destruct b; repeat split; reflexivity. Qed.

  (* floats: what jsonline contributes is the choice of verb, precision and bit size on both
     sides; the digits are strconv's *)
  Lemma f64_text x :
    ToString O (VF64 x) = Ok (VStr (FormatFloat O x 102 (-1) 64))
    /\ ToNumber O (VF64 x) = Ok (VNum (FormatFloat O x 102 (-1) 64)).
  Proof. split; reflexivity. Qed.

  Lemma f32_text x :
    ToString O (VF32 x) = Ok (VStr (FormatFloat O (f64_of_f32 x) 102 (-1) 32))
    /\ ToNumber O (VF32 x) = Ok (VNum (FormatFloat O (f64_of_f32 x) 102 (-1) 32)).
  Proof. split; reflexivity. Qed.

  Lemma f64_read s :
    To O (VF64 0) (VStr s) = match ParseFloat O s 64 with Some v => Ok (VF64 v) | None => Err ErrUnableToCastToFloat64 end
    /\ To O (VF64 0) (VNum s) = To O (VF64 0) (VStr s).
  Proof. split; reflexivity. Qed.

  Lemma f32_read s :
    To O (VF32 0) (VStr s) = match ParseFloat O s 32 with Some v => Ok (VF32 (f32_of_f64 v)) | None => Err ErrUnableToCastToFloat32 end
    /\ To O (VF32 0) (VNum s) = To O (VF32 0) (VStr s).
  Proof. split; reflexivity. Qed.
End CastText.
