(* JSON numbers: Go's isValidNumber (is_json_number), the scanner number states (scan_number) and the
   reader's character-class span (r_span) all agree with the RFC 8259 number grammar (jnumber). *)
From Coq Require Import ZArith List Bool Lia.
From JL.std Require Import GoBase GoStrconv GoJsonNum GoJson.
Import ListNotations.
Open Scope Z_scope.

Definition num_follow (r : str) : Prop := match r with [] => True | c :: _ => r_numchar c = false end.

(* ---------------------------------------------------------------------------------- *)
(* digits                                                                              *)
(* ---------------------------------------------------------------------------------- *)

Lemma is_digit_iff c : is_digit c = true <-> digit c.
Proof. unfold is_digit, digit. rewrite andb_true_iff, Z.leb_le, Z.leb_le. tauto. Qed.

Lemma is_digit_false_iff c : is_digit c = false <-> ~ digit c.
Proof.
  rewrite <- is_digit_iff. destruct (is_digit c); split; intro H; congruence.
Qed.

(* the head of r, if any, satisfies P *)
Definition hd_ok (P : Z -> Prop) (r : str) : Prop := match r with [] => True | c :: _ => P c end.
Definition nodig (r : str) : Prop := hd_ok (fun c => is_digit c = false) r.
Definition nofrac (r : str) : Prop := hd_ok (fun c => is_digit c = false /\ c <> 46) r.

Lemma hd_ok_weaken (P Q : Z -> Prop) r : (forall c, P c -> Q c) -> hd_ok P r -> hd_ok Q r.
Proof. destruct r; simpl; auto. Qed.

Lemma span_digits_app ds r : Forall digit ds -> nodig r -> span_digits (ds ++ r) = (ds, r).
Proof.
  induction 1 as [|d ds Hd Hds IH]; intros Hr; simpl.
  - destruct r as [|c r]; simpl; auto. unfold nodig, hd_ok in Hr. rewrite Hr. reflexivity.
  - apply is_digit_iff in Hd. rewrite Hd, IH; auto.
Qed.

Lemma span_digits_inv s : forall ds r,
  span_digits s = (ds, r) -> s = ds ++ r /\ Forall digit ds /\ nodig r.
Proof.
  induction s as [|c s IH]; simpl; intros ds r H.
  - inversion H; subst. repeat split; constructor.
  - destruct (is_digit c) eqn:E.
    + destruct (span_digits s) as [a b] eqn:Es. inversion H; subst.
      destruct (IH _ _ eq_refl) as (H1 & H2 & H3). subst s. repeat split; auto.
      constructor; auto. apply is_digit_iff; auto.
    + inversion H; subst. repeat split; auto.
Qed.

Lemma skip_span s : skip_digits s = snd (span_digits s).
Proof.
  induction s as [|c s IH]; simpl; auto. destruct (is_digit c); simpl; auto.
  rewrite IH. destruct (span_digits s); reflexivity.
Qed.

Lemma skip_digits_app ds r : Forall digit ds -> nodig r -> skip_digits (ds ++ r) = r.
Proof. intros. rewrite skip_span, span_digits_app; auto. Qed.

Lemma skip_digits_inv s :
  exists ds, s = ds ++ skip_digits s /\ Forall digit ds /\ nodig (skip_digits s).
Proof.
  rewrite skip_span. destruct (span_digits s) as [ds r] eqn:E.
  apply span_digits_inv in E. exists ds. simpl. exact E.
Qed.

Lemma skip_digits_nil s : skip_digits s = [] -> Forall digit s.
Proof.
  intros H. destruct (skip_digits_inv s) as (ds & H1 & H2 & _).
  rewrite H, app_nil_r in H1. subst; auto.
Qed.

Lemma skip_digits_all ds : Forall digit ds -> skip_digits ds = [].
Proof.
  intros H. rewrite <- (app_nil_r ds) at 1. apply skip_digits_app; auto. exact I.
Qed.

Lemma digit_not_sign d : digit d -> (d =? 43) || (d =? 45) = false.
Proof.
  unfold digit. intros H. apply orb_false_iff. split; apply Z.eqb_neq; lia.
Qed.

Lemma r_numchar_false c :
  r_numchar c = false ->
  is_digit c = false /\ c <> 45 /\ c <> 43 /\ c <> 46 /\ c <> 101 /\ c <> 69.
Proof.
  unfold r_numchar, is_digit. rewrite !orb_false_iff, !Z.eqb_neq. tauto.
Qed.

(* ---------------------------------------------------------------------------------- *)
(* heads of the grammar pieces                                                          *)
(* ---------------------------------------------------------------------------------- *)

Lemma exp_follow_hd e r : jexp e -> num_follow r -> nofrac (e ++ r).
Proof.
  intros [->|(c & sg & ds & Hc & _ & _ & ->)] Hr.
  - simpl. destruct r as [|x r]; simpl; auto. apply r_numchar_false in Hr. tauto.
  - simpl. unfold is_digit. destruct Hc; subst; split; try reflexivity; lia.
Qed.

Lemma frac_hd f r : jfrac f -> nofrac r -> nodig (f ++ r).
Proof.
  intros [->|(ds & _ & ->)] Hr.
  - simpl. revert Hr. apply hd_ok_weaken. tauto.
  - reflexivity.
Qed.

(* ---------------------------------------------------------------------------------- *)
(* num_tail                                                                             *)
(* ---------------------------------------------------------------------------------- *)

Definition tail1 (s : str) : str :=
  match s with
  | c0 :: c :: r => if (c0 =? 46) && is_digit c then skip_digits r else s
  | _ => s
  end.

Definition tail2 (s1 : str) : str :=
  match s1 with
  | e :: r0 =>
      if ((e =? 101) || (e =? 69)) && (2 <=? Z.of_nat (length s1)) then
        match r0 with
        | sg :: r1 =>
            if (sg =? 43) || (sg =? 45) then
              match r1 with [] => [0] | _ => skip_digits r1 end
            else skip_digits r0
        | [] => s1
        end
      else s1
  | [] => []
  end.

Lemma num_tail_eq s : num_tail s = match tail2 (tail1 s) with [] => true | _ => false end.
Proof. reflexivity. Qed.

Lemma tail1_inv s : exists f, jfrac f /\ s = f ++ tail1 s.
Proof.
  destruct s as [|c0 [|c r]]; try (exists []; split; [left; reflexivity | reflexivity]).
  unfold tail1. destruct ((c0 =? 46) && is_digit c) eqn:E.
  - apply andb_true_iff in E. destruct E as [E1 E2]. apply Z.eqb_eq in E1. subst c0.
    apply is_digit_iff in E2.
    destruct (skip_digits_inv r) as (ds & H1 & H2 & _).
    exists (46 :: c :: ds). split.
    + right. exists (c :: ds). split; [|reflexivity]. split; [discriminate|]. constructor; auto.
    + simpl. rewrite <- H1. reflexivity.
  - exists []. split; [left; reflexivity | reflexivity].
Qed.

Lemma tail1_app f r : jfrac f -> nofrac r -> tail1 (f ++ r) = r.
Proof.
  intros [->|(ds & [Hne Hds] & ->)] Hr.
  - simpl. destruct r as [|c0 [|c r]]; auto. unfold tail1.
    destruct Hr as [_ Hr]. apply Z.eqb_neq in Hr. rewrite Hr. reflexivity.
  - destruct ds as [|d ds]; [congruence|]. inversion Hds; subst.
    simpl. replace (is_digit d) with true by (symmetry; apply is_digit_iff; auto).
    apply skip_digits_app; auto. revert Hr. apply hd_ok_weaken. tauto.
Qed.

Lemma tail2_nil s1 : tail2 s1 = [] -> jexp s1.
Proof.
  destruct s1 as [|e r0]; [left; reflexivity|]. unfold tail2.
  destruct ((e =? 101) || (e =? 69)) eqn:E; cbn [andb]; [|discriminate].
  destruct (2 <=? Z.of_nat (length (e :: r0))); [|discriminate].
  assert (He : e = 101 \/ e = 69).
  { apply orb_true_iff in E. rewrite !Z.eqb_eq in E. exact E. }
  destruct r0 as [|sg r1]; [discriminate|].
  destruct ((sg =? 43) || (sg =? 45)) eqn:S.
  - destruct r1 as [|x r1]; [discriminate|]. intros H. apply skip_digits_nil in H.
    right. exists e, [sg], (x :: r1). repeat split; auto; try discriminate.
    apply orb_true_iff in S. rewrite !Z.eqb_eq in S. destruct S; subst; auto.
  - intros H. apply skip_digits_nil in H.
    right. exists e, [], (sg :: r1). repeat split; auto; discriminate.
Qed.

Lemma tail2_exp e : jexp e -> tail2 e = [].
Proof.
  intros [->|(c & sg & ds & Hc & Hsg & [Hne Hds] & ->)]; [reflexivity|].
  destruct ds as [|d ds]; [congruence|].
  assert (E : (c =? 101) || (c =? 69) = true).
  { apply orb_true_iff. rewrite !Z.eqb_eq. exact Hc. }
  assert (Hd : digit d) by (inversion Hds; auto).
  unfold tail2.
  destruct Hsg as [->|[->| ->]]; cbn [app]; rewrite E; cbn [andb].
  - destruct (2 <=? Z.of_nat (length _)) eqn:L;
      [|apply Z.leb_gt in L; cbn [length] in L; lia].
    rewrite (digit_not_sign d Hd). apply skip_digits_all; auto.
  - destruct (2 <=? Z.of_nat (length _)) eqn:L;
      [|apply Z.leb_gt in L; cbn [length] in L; lia].
    cbn [Z.eqb Pos.eqb orb]. apply skip_digits_all; auto.
  - destruct (2 <=? Z.of_nat (length _)) eqn:L;
      [|apply Z.leb_gt in L; cbn [length] in L; lia].
    cbn [Z.eqb Pos.eqb orb]. apply skip_digits_all; auto.
Qed.

Lemma num_tail_inv s : num_tail s = true -> exists f e, jfrac f /\ jexp e /\ s = f ++ e.
Proof.
  rewrite num_tail_eq. destruct (tail2 (tail1 s)) eqn:E; [|discriminate]. intros _.
  apply tail2_nil in E. destruct (tail1_inv s) as (f & Hf & Hs).
  exists f, (tail1 s). auto.
Qed.

Lemma num_tail_app f e : jfrac f -> jexp e -> num_tail (f ++ e) = true.
Proof.
  intros Hf He. rewrite num_tail_eq, tail1_app, tail2_exp; auto.
  rewrite <- (app_nil_r e). apply exp_follow_hd; auto. exact I.
Qed.

(* ---------------------------------------------------------------------------------- *)
(* is_json_number                                                                       *)
(* ---------------------------------------------------------------------------------- *)

Definition is_body (body : str) : bool :=
  match body with
  | [] => false
  | c :: r =>
      if c =? 48 then num_tail r
      else if (49 <=? c) && (c <=? 57) then num_tail (skip_digits r)
      else false
  end.

Lemma is_json_number_eq s :
  is_json_number s = is_body (match s with c :: r => if c =? 45 then r else s | [] => s end).
Proof. reflexivity. Qed.

Lemma is_body_inv b : is_body b = true -> exists i f e, jint i /\ jfrac f /\ jexp e /\ b = i ++ f ++ e.
Proof.
  destruct b as [|c r]; [discriminate|]. unfold is_body.
  destruct (c =? 48) eqn:E0.
  - apply Z.eqb_eq in E0. subst c. intros H. apply num_tail_inv in H.
    destruct H as (f & e & Hf & He & ->). exists [48], f, e. repeat split; auto. left; reflexivity.
  - destruct ((49 <=? c) && (c <=? 57)) eqn:E1; [|discriminate].
    apply andb_true_iff in E1. rewrite !Z.leb_le in E1.
    intros H. apply num_tail_inv in H. destruct H as (f & e & Hf & He & Hs).
    destruct (skip_digits_inv r) as (ds & H1 & H2 & _). rewrite Hs in H1.
    exists (c :: ds), f, e. repeat split; auto.
    + right. exists c, ds. auto.
    + simpl. rewrite <- H1. reflexivity.
Qed.

Lemma is_body_app i t : jint i -> nodig t -> num_tail t = true -> is_body (i ++ t) = true.
Proof.
  intros [->|(d & ds & Hd & Hds & ->)] Ht Hn.
  - exact Hn.
  - simpl. replace (d =? 48) with false by (symmetry; apply Z.eqb_neq; lia).
    replace ((49 <=? d) && (d <=? 57)) with true
      by (symmetry; apply andb_true_iff; rewrite !Z.leb_le; lia).
    rewrite skip_digits_app; auto.
Qed.

Lemma jint_head i : jint i -> exists c r, i = c :: r /\ digit c.
Proof.
  intros [->|(d & ds & Hd & _ & ->)].
  - exists 48, []. split; auto. unfold digit; lia.
  - exists d, ds. split; auto. unfold digit; lia.
Qed.

Lemma is_json_number_iff lit : is_json_number lit = true <-> jnumber lit.
Proof.
  split.
  - rewrite is_json_number_eq. destruct lit as [|c r]; [discriminate|].
    destruct (c =? 45) eqn:E; intros H; apply is_body_inv in H;
      destruct H as (i & f & e & Hi & Hf & He & Hb).
    + apply Z.eqb_eq in E. subst c. exists [45], i, f, e. repeat split; auto.
      simpl. rewrite Hb. reflexivity.
    + exists [], i, f, e. repeat split; auto.
  - intros (sg & i & f & e & Hsg & Hi & Hf & He & ->).
    assert (Hb : is_body (i ++ f ++ e) = true).
    { apply is_body_app; auto.
      - apply frac_hd; auto. rewrite <- (app_nil_r e). apply exp_follow_hd; auto. exact I.
      - apply num_tail_app; auto. }
    rewrite is_json_number_eq. destruct Hsg as [->| ->].
    + simpl. destruct (jint_head i Hi) as (c & r & -> & Hc). simpl.
      replace (c =? 45) with false by (symmetry; apply Z.eqb_neq; unfold digit in Hc; lia).
      exact Hb.
    + exact Hb.
Qed.

(* ---------------------------------------------------------------------------------- *)
(* scan_number, stage by stage                                                          *)
(* ---------------------------------------------------------------------------------- *)

Definition sc_sign (s : str) : str * str :=
  match s with
  | c :: r => if c =? 45 then ([45], r) else ([], s)
  | [] => ([], s)
  end.

Definition sc_int (s0 : str) : option (str * str) :=
  match s0 with
  | [] => None
  | c :: r =>
      if c =? 48 then Some ([48], r)
      else if in_rng 49 57 c then let (ds, r') := span_digits r in Some (c :: ds, r')
      else None
  end.

Definition sc_frac (s1 : str) : option (str * str) :=
  match s1 with
  | d :: r1 =>
      if d =? 46 then
        match span_digits r1 with
        | ([], _) => None
        | (ds, r2) => Some (46 :: ds, r2)
        end
      else Some ([], s1)
  | [] => Some ([], s1)
  end.

Definition sc_esign (r2 : str) : str * str :=
  match r2 with
  | x :: r3 => if (x =? 43) || (x =? 45) then ([x], r3) else ([], r2)
  | [] => ([], r2)
  end.

Definition sc_exp (s2 : str) : option (str * str) :=
  match s2 with
  | e :: r2 =>
      if (e =? 101) || (e =? 69) then
        let (sgn, r3) := sc_esign r2 in
        match span_digits r3 with
        | ([], _) => None
        | (ds, r4) => Some (e :: sgn ++ ds, r4)
        end
      else Some ([], s2)
  | [] => Some ([], s2)
  end.

Definition sc_all (sg s0 : str) : option (str * str) :=
  match sc_int s0 with
  | None => None
  | Some (ip, s1) =>
      match sc_frac s1 with
      | None => None
      | Some (fp, s2) =>
          match sc_exp s2 with
          | None => None
          | Some (ep, s3) => Some (sg ++ ip ++ fp ++ ep, s3)
          end
      end
  end.

Lemma scan_number_eq s : scan_number s = let (sg, s0) := sc_sign s in sc_all sg s0.
Proof.
  destruct s as [|c r]; [reflexivity|].
  unfold scan_number, sc_sign. destruct (c =? 45).
  - destruct r; reflexivity.
  - reflexivity.
Qed.

Lemma sc_int_sound s0 ip s1 : sc_int s0 = Some (ip, s1) -> jint ip /\ s0 = ip ++ s1.
Proof.
  destruct s0 as [|c r]; [discriminate|]. unfold sc_int.
  destruct (c =? 48) eqn:E0.
  - apply Z.eqb_eq in E0. subst c. intros H; inversion H; subst. split; [left|]; reflexivity.
  - unfold in_rng. destruct ((49 <=? c) && (c <=? 57)) eqn:E1; [|discriminate].
    apply andb_true_iff in E1. rewrite !Z.leb_le in E1.
    destruct (span_digits r) as [ds r'] eqn:Es. intros H; inversion H; subst.
    apply span_digits_inv in Es. destruct Es as (-> & Hds & _). split; [|reflexivity].
    right. exists c, ds. auto.
Qed.

Lemma sc_int_complete i r : jint i -> nodig r -> sc_int (i ++ r) = Some (i, r).
Proof.
  intros [->|(d & ds & Hd & Hds & ->)] Hr; [reflexivity|].
  simpl. unfold in_rng.
  replace (d =? 48) with false by (symmetry; apply Z.eqb_neq; lia).
  replace ((49 <=? d) && (d <=? 57)) with true
    by (symmetry; apply andb_true_iff; rewrite !Z.leb_le; lia).
  rewrite span_digits_app; auto.
Qed.

Lemma sc_frac_sound s1 fp s2 : sc_frac s1 = Some (fp, s2) -> jfrac fp /\ s1 = fp ++ s2.
Proof.
  destruct s1 as [|d r1]; unfold sc_frac.
  - intros H; inversion H; subst. split; [left|]; reflexivity.
  - destruct (d =? 46) eqn:E.
    + apply Z.eqb_eq in E. subst d. destruct (span_digits r1) as [ds r2] eqn:Es.
      apply span_digits_inv in Es. destruct Es as (-> & Hds & _).
      destruct ds as [|x ds]; [discriminate|]. intros H; inversion H; subst.
      split; [|reflexivity]. right. exists (x :: ds). split; [|reflexivity].
      split; [discriminate|auto].
    + intros H; inversion H; subst. split; [left|]; reflexivity.
Qed.

Lemma sc_frac_complete f r : jfrac f -> nofrac r -> sc_frac (f ++ r) = Some (f, r).
Proof.
  intros [->|(ds & [Hne Hds] & ->)] Hr.
  - simpl. destruct r as [|c r]; [reflexivity|]. unfold sc_frac.
    destruct Hr as [_ Hr]. apply Z.eqb_neq in Hr. rewrite Hr. reflexivity.
  - simpl. rewrite span_digits_app; auto.
    + destruct ds; [congruence|reflexivity].
    + revert Hr. apply hd_ok_weaken. tauto.
Qed.

Lemma sc_esign_sound r2 sgn r3 :
  sc_esign r2 = (sgn, r3) -> (sgn = [] \/ sgn = [43] \/ sgn = [45]) /\ r2 = sgn ++ r3.
Proof.
  destruct r2 as [|x r]; unfold sc_esign.
  - intros H; inversion H; subst. auto.
  - destruct ((x =? 43) || (x =? 45)) eqn:E; intros H; inversion H; subst; auto.
    apply orb_true_iff in E. rewrite !Z.eqb_eq in E. destruct E; subst; auto.
Qed.

Lemma sc_exp_sound s2 ep s3 : sc_exp s2 = Some (ep, s3) -> jexp ep /\ s2 = ep ++ s3.
Proof.
  destruct s2 as [|e r2]; unfold sc_exp.
  - intros H; inversion H; subst. split; [left|]; reflexivity.
  - destruct ((e =? 101) || (e =? 69)) eqn:E.
    + apply orb_true_iff in E. rewrite !Z.eqb_eq in E.
      destruct (sc_esign r2) as [sgn r3] eqn:Esg. apply sc_esign_sound in Esg.
      destruct Esg as (Hsgn & ->).
      destruct (span_digits r3) as [ds r4] eqn:Es.
      apply span_digits_inv in Es. destruct Es as (-> & Hds & _).
      destruct ds as [|x ds]; [discriminate|]. intros H; inversion H; subst.
      split.
      * right. exists e, sgn, (x :: ds). repeat split; auto. discriminate.
      * simpl. rewrite <- app_assoc. reflexivity.
    + intros H; inversion H; subst. split; [left|]; reflexivity.
Qed.

Lemma sc_exp_complete e r : jexp e -> num_follow r -> sc_exp (e ++ r) = Some (e, r).
Proof.
  intros [->|(c & sg & ds & Hc & Hsg & [Hne Hds] & ->)] Hr.
  - simpl. destruct r as [|x r]; [reflexivity|]. unfold sc_exp.
    apply r_numchar_false in Hr. destruct Hr as (_ & _ & _ & _ & H1 & H2).
    apply Z.eqb_neq in H1, H2. rewrite H1, H2. reflexivity.
  - assert (E : (c =? 101) || (c =? 69) = true).
    { apply orb_true_iff. rewrite !Z.eqb_eq. exact Hc. }
    assert (Hnr : nodig r).
    { revert Hr. unfold num_follow, nodig. destruct r; simpl; auto.
      intros H. apply r_numchar_false in H. tauto. }
    destruct ds as [|d ds]; [congruence|].
    assert (Hd : digit d) by (inversion Hds; auto).
    assert (Hsp : span_digits ((d :: ds) ++ r) = (d :: ds, r)) by (apply span_digits_app; auto).
    cbn [app] in Hsp.
    destruct Hsg as [->|[->| ->]]; cbn [app]; unfold sc_exp; rewrite E; unfold sc_esign.
    + rewrite (digit_not_sign d Hd). rewrite Hsp. reflexivity.
    + cbn [Z.eqb Pos.eqb orb]. rewrite Hsp. reflexivity.
    + cbn [Z.eqb Pos.eqb orb]. rewrite Hsp. reflexivity.
Qed.

Lemma sc_all_sound sg s0 lit r :
  sc_all sg s0 = Some (lit, r) ->
  exists i f e, jint i /\ jfrac f /\ jexp e /\ lit = sg ++ i ++ f ++ e /\ s0 = (i ++ f ++ e) ++ r.
Proof.
  unfold sc_all.
  destruct (sc_int s0) as [[ip s1]|] eqn:E1; [|discriminate].
  destruct (sc_frac s1) as [[fp s2]|] eqn:E2; [|discriminate].
  destruct (sc_exp s2) as [[ep s3]|] eqn:E3; [|discriminate].
  intros H; inversion H; subst.
  apply sc_int_sound in E1. apply sc_frac_sound in E2. apply sc_exp_sound in E3.
  destruct E1 as (Hi & ->). destruct E2 as (Hf & ->). destruct E3 as (He & ->).
  exists ip, fp, ep. repeat split; auto. rewrite <- !app_assoc. reflexivity.
Qed.

Lemma sc_all_complete sg i f e r :
  jint i -> jfrac f -> jexp e -> num_follow r ->
  sc_all sg ((i ++ f ++ e) ++ r) = Some (sg ++ i ++ f ++ e, r).
Proof.
  intros Hi Hf He Hr. unfold sc_all. rewrite <- !app_assoc.
  assert (H2 : nofrac (e ++ r)) by (apply exp_follow_hd; auto).
  assert (H1 : nodig (f ++ e ++ r)) by (apply frac_hd; auto).
  rewrite sc_int_complete, sc_frac_complete, sc_exp_complete; auto.
Qed.

Lemma scan_number_sound s lit r : scan_number s = Some (lit, r) -> jnumber lit /\ s = lit ++ r.
Proof.
  rewrite scan_number_eq. destruct s as [|c s']; unfold sc_sign.
  - intros H. apply sc_all_sound in H. destruct H as (i & f & e & Hi & Hf & He & -> & Hs).
    split; [|exact Hs]. exists [], i, f, e. auto.
  - destruct (c =? 45) eqn:E; intros H; apply sc_all_sound in H;
      destruct H as (i & f & e & Hi & Hf & He & -> & Hs).
    + apply Z.eqb_eq in E. subst c. split.
      * exists [45], i, f, e. auto.
      * rewrite Hs. reflexivity.
    + split; [|exact Hs]. exists [], i, f, e. auto.
Qed.

Lemma scan_number_complete lit r : jnumber lit -> num_follow r -> scan_number (lit ++ r) = Some (lit, r).
Proof.
  intros (sg & i & f & e & Hsg & Hi & Hf & He & ->) Hr.
  rewrite scan_number_eq. destruct Hsg as [->| ->].
  - cbn [app]. destruct (jint_head i Hi) as (c & t & Ei & Hc).
    assert (Hs : sc_sign ((i ++ f ++ e) ++ r) = ([], (i ++ f ++ e) ++ r)).
    { rewrite Ei. cbn [app]. unfold sc_sign.
      replace (c =? 45) with false by (symmetry; apply Z.eqb_neq; unfold digit in Hc; lia).
      reflexivity. }
    rewrite Hs. apply (sc_all_complete []); auto.
  - cbn [app sc_sign Z.eqb Pos.eqb]. apply (sc_all_complete [45]); auto.
Qed.

(* ---------------------------------------------------------------------------------- *)
(* r_span                                                                               *)
(* ---------------------------------------------------------------------------------- *)

Lemma r_span_app l r :
  Forall (fun c => r_numchar c = true) l -> num_follow r -> r_span (l ++ r) = (l, r).
Proof.
  induction 1 as [|c l Hc Hl IH]; intros Hr; simpl.
  - destruct r as [|c r]; simpl; auto. simpl in Hr. rewrite Hr. reflexivity.
  - rewrite Hc, IH; auto.
Qed.

Lemma r_span_sound s lit r : r_span s = (lit, r) -> s = lit ++ r /\ num_follow r.
Proof.
  revert lit r. induction s as [|c s IH]; simpl; intros lit r H.
  - inversion H; subst. split; [reflexivity|exact I].
  - destruct (r_numchar c) eqn:E.
    + destruct (r_span s) as [a b] eqn:Es. inversion H; subst.
      destruct (IH _ _ eq_refl) as (H1 & H2). subst s. auto.
    + inversion H; subst. split; [reflexivity|]. simpl. exact E.
Qed.

Lemma digit_numchar c : digit c -> r_numchar c = true.
Proof.
  intros H. apply is_digit_iff in H. unfold is_digit in H. unfold r_numchar. rewrite H. reflexivity.
Qed.

Lemma digits_numchar ds : Forall digit ds -> Forall (fun c => r_numchar c = true) ds.
Proof. apply Forall_impl. exact digit_numchar. Qed.

Lemma jnumber_chars lit : jnumber lit -> Forall (fun c => r_numchar c = true) lit.
Proof.
  intros (sg & i & f & e & Hsg & Hi & Hf & He & ->).
  rewrite !Forall_app. repeat split.
  - destruct Hsg as [->| ->]; repeat constructor.
  - destruct Hi as [->|(d & ds & Hd & Hds & ->)]; [repeat constructor|].
    constructor; [apply digit_numchar; unfold digit; lia | apply digits_numchar; auto].
  - destruct Hf as [->|(ds & [_ Hds] & ->)]; constructor; [reflexivity | apply digits_numchar; auto].
  - destruct He as [->|(c & sg' & ds & Hc & Hsg' & [_ Hds] & ->)]; constructor.
    + destruct Hc; subst; reflexivity.
    + rewrite Forall_app. split; [|apply digits_numchar; auto].
      destruct Hsg' as [->|[->| ->]]; repeat constructor.
Qed.

Lemma r_span_number lit r : jnumber lit -> num_follow r -> r_span (lit ++ r) = (lit, r).
Proof. intros H Hr. apply r_span_app; auto. apply jnumber_chars; auto. Qed.

Lemma jnumber_head lit : jnumber lit -> exists c r, lit = c :: r /\ (c = 45 \/ is_digit c = true).
Proof.
  intros (sg & i & f & e & Hsg & Hi & Hf & He & ->).
  destruct (jint_head i Hi) as (c & t & -> & Hc). destruct Hsg as [->| ->].
  - exists c, (t ++ f ++ e). split; [reflexivity|]. right. apply is_digit_iff; auto.
  - exists 45, ((c :: t) ++ f ++ e). split; [reflexivity|]. left; reflexivity.
Qed.

Lemma jnumber_marshal lit : jnumber lit -> marshal_number lit = Some lit.
Proof.
  intros H. destruct (jnumber_head lit H) as (c & r & -> & _).
  apply is_json_number_iff in H. unfold marshal_number. rewrite H. reflexivity.
Qed.

Print Assumptions is_json_number_iff.
Print Assumptions scan_number_sound.
Print Assumptions scan_number_complete.
Print Assumptions r_span_number.
Print Assumptions r_span_sound.
Print Assumptions jnumber_chars.
Print Assumptions jnumber_head.
Print Assumptions jnumber_marshal.
