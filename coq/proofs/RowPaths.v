(* C18 — dotted-path access agrees with key-by-key navigation; importing at a path changes
   exactly the addressed value. *)
From Coq Require Import ZArith List Bool Lia.
From JL.std Require Import GoBase GoFloat GoStrconv GoTime GoVal.
From JL.gen Require Import CastGen ConvGen.
From JL.model Require Import CastRun Row RowRun.
From JL.proofs Require Import RowProofs.
Import ListNotations.
Open Scope Z_scope.

(* ---------- strings.Split(path, ".") inverts joining with "." ---------- *)
Definition no_dot (s : str) : Prop := ~ In 46 s.

Fixpoint join_dot (keys : list str) : str :=
  match keys with
  | [] => []
  | [k] => k
  | k :: rest => k ++ [46] ++ join_dot rest
  end.

Lemma split_dot_aux_nodot s cur : no_dot s -> split_dot_aux s cur = [rev cur ++ s].
Proof.
  revert cur. induction s as [|c s IH]; intros cur Hn; cbn.
  - now rewrite app_nil_r.
  - destruct (c =? 46) eqn:E; [apply Z.eqb_eq in E; subst; exfalso; apply Hn; now left|].
    rewrite IH by (intros H; apply Hn; now right). cbn. now rewrite <- app_assoc.
Qed.

Lemma split_dot_aux_app s cur rest :
  no_dot s -> split_dot_aux (s ++ 46 :: rest) cur = (rev cur ++ s) :: split_dot_aux rest [].
Proof.
  revert cur. induction s as [|c s IH]; intros cur Hn; cbn.
  - now rewrite app_nil_r.
  - destruct (c =? 46) eqn:E; [apply Z.eqb_eq in E; subst; exfalso; apply Hn; now left|].
    rewrite IH by (intros H; apply Hn; now right). cbn. now rewrite <- app_assoc.
Qed.

Lemma split_join keys : keys <> [] -> Forall no_dot keys -> split_dot (join_dot keys) = keys.
Proof.
  unfold split_dot. induction keys as [|k rest IH]; [congruence|]. intros _ H.
  inversion H as [|? ? Hk Hrest]; subst. destruct rest as [|k2 rest].
  - cbn. now rewrite split_dot_aux_nodot.
  - change (join_dot (k :: k2 :: rest)) with (k ++ 46 :: join_dot (k2 :: rest)).
    rewrite split_dot_aux_app by exact Hk. cbn [rev app]. f_equal. apply IH; [discriminate | exact Hrest].
Qed.

(* ---------- key-by-key navigation ---------- *)
(* the reference walk: at each segment look the key up in the row the current value gives
   access to (a row, or a value holding a row); a further segment on anything else, or a
   missing key, is absence *)
Fixpoint navigate (keys : list str) (c : cell) : option cell :=
  match keys with
  | [] => Some c
  | k :: rest =>
      match sub_row c with
      | Some r => match get_value k r with Some c' => navigate rest c' | None => None end
      | None => None
      end
  end.

Lemma gvak_cons2 k k2 rest r :
  get_value_at_keys (k :: k2 :: rest) r =
  match get_value k r with
  | None => None
  | Some c => match sub_row c with Some sub => get_value_at_keys (k2 :: rest) sub | None => None end
  end.
Proof. reflexivity. Qed.

Lemma nav_cons k rest c :
  navigate (k :: rest) c =
  match sub_row c with
  | Some r => match get_value k r with Some c' => navigate rest c' | None => None end
  | None => None
  end.
Proof. reflexivity. Qed.

Lemma get_agrees keys r : keys <> [] -> get_value_at_keys keys r = navigate keys (CRow r).
Proof.
  revert r. induction keys as [|k rest IH]; intros r Hne; [congruence|].
  rewrite nav_cons. cbn [sub_row]. destruct rest as [|k2 rest].
  - cbn. destruct (get_value k r); reflexivity.
  - rewrite gvak_cons2. destruct (get_value k r) as [c|]; [|reflexivity].
    rewrite nav_cons. destruct (sub_row c) as [sub|] eqn:E; [|reflexivity].
    rewrite IH by discriminate. rewrite nav_cons. reflexivity.
Qed.

Theorem path_get_agrees keys r :
  keys <> [] -> Forall no_dot keys ->
  get_value_at_path (join_dot keys) r = navigate keys (CRow r).
Proof. intros Hne Hnd. unfold get_value_at_path. rewrite split_join by assumption. now apply get_agrees. Qed.

(* ---------- importing at a path ---------- *)
Section ImportAtPath.
  Context (O : oracles).

  Lemma get_set_same k c r : get_value k (set_cell k c r) = Some c.
  Proof. destruct r as [m l]. unfold get_value; cbn. apply alookup_aset_same. Qed.

  Lemma get_set_other k k' c r : k <> k' -> get_value k' (set_cell k c r) = get_value k' r.
  Proof. destruct r as [m l]. unfold get_value; cbn. now apply alookup_aset_other. Qed.

  (* the addressed value is replaced by the result of importing into it *)
  Lemma import_at_keys_hit n keys v : forall r r' e,
    import_at_keys O n keys v r = Some (r', e) ->
    exists c, get_value_at_keys keys r = Some c
              /\ get_value_at_keys keys r' = Some (fst (cell_import O n c v))
              /\ e = snd (cell_import O n c v).
  Proof.
    induction keys as [|k rest IH]; intros r r' e; [discriminate|]. cbn [import_at_keys get_value_at_keys].
    destruct rest as [|k2 rest].
    - destruct (get_value k r) as [c0|] eqn:E; [|discriminate].
      destruct (cell_import O n c0 v) as [c' e'] eqn:Ec. intros [= <- <-].
      exists c0. rewrite get_set_same, Ec. repeat split; reflexivity.
    - destruct (get_value k r) as [[raw f t|sub]|] eqn:E; [| |discriminate].
      + destruct raw as [g|l0|m0|[raw' f' t'|sub]]; try discriminate.
        destruct (import_at_keys O n (k2 :: rest) v sub) as [[sub' e']|] eqn:E2; [|discriminate].
        intros [= <- <-]. destruct (IH _ _ _ E2) as [c [H1 [H2 H3]]].
        exists c. rewrite get_set_same. cbn [sub_row]. repeat split; assumption.
      + destruct (import_at_keys O n (k2 :: rest) v sub) as [[sub' e']|] eqn:E2; [|discriminate].
        intros [= <- <-]. destruct (IH _ _ _ E2) as [c [H1 [H2 H3]]].
        exists c. rewrite get_set_same. cbn [sub_row]. repeat split; assumption.
  Qed.

  (* two paths diverge when, at the first position where they differ, both still have a segment *)
  Fixpoint diverge (a b : list str) : Prop :=
    match a, b with
    | x :: a', y :: b' => x <> y \/ (x = y /\ diverge a' b')
    | _, _ => False
    end.

  (* every path that diverges from the addressed one still leads to the same value *)
  Lemma import_at_keys_frame n keys v : forall r r' e other,
    import_at_keys O n keys v r = Some (r', e) -> diverge keys other ->
    get_value_at_keys other r' = get_value_at_keys other r.
  Proof.
    induction keys as [|k rest IH]; intros r r' e other; [discriminate|].
    destruct other as [|k' other']; [cbn; tauto|]. intros Himp Hd.
    assert (Hset : forall c, r' = set_cell k c r -> k <> k' ->
                   get_value_at_keys (k' :: other') r' = get_value_at_keys (k' :: other') r).
    { intros c -> Hn. cbn [get_value_at_keys]. rewrite get_set_other by exact Hn. reflexivity. }
    cbn [import_at_keys] in Himp. destruct rest as [|k2 rest].
    - destruct (get_value k r) as [c0|] eqn:E; [|discriminate].
      destruct (cell_import O n c0 v) as [c' e']. injection Himp as <- <-.
      destruct Hd as [Hn|[_ Hd]]; [eapply Hset; eauto | destruct other'; contradiction].
    - destruct (get_value k r) as [[raw f t|sub]|] eqn:E; [| |discriminate].
      + destruct raw as [g|l0|m0|[raw' f' t'|sub]]; try discriminate.
        destruct (import_at_keys O n (k2 :: rest) v sub) as [[sub' e']|] eqn:E2; [|discriminate].
        injection Himp as <- <-. destruct Hd as [Hn|[<- Hd]]; [eapply Hset; eauto|].
        destruct other' as [|k3 other']; [destruct Hd|].
        rewrite !gvak_cons2, get_set_same, E. cbn [sub_row].
        eapply IH; eauto.
      + destruct (import_at_keys O n (k2 :: rest) v sub) as [[sub' e']|] eqn:E2; [|discriminate].
        injection Himp as <- <-. destruct Hd as [Hn|[<- Hd]]; [eapply Hset; eauto|].
        destruct other' as [|k3 other']; [destruct Hd|].
        rewrite !gvak_cons2, get_set_same, E. cbn [sub_row].
        eapply IH; eauto.
  Qed.

  (* a missing path is reported and nothing changes *)
  Lemma import_at_path_missing n p v r :
    get_value_at_path p r = None -> import_at_path O n p v r = (r, Err ErrPathNotFound).
  Proof.
    unfold get_value_at_path, import_at_path. generalize (split_dot p) as keys. intros keys.
    assert (H : get_value_at_keys keys r = None -> import_at_keys O n keys v r = None).
    { revert r. induction keys as [|k rest IH]; intros r; [reflexivity|].
      cbn [get_value_at_keys import_at_keys]. destruct rest as [|k2 rest].
      - destruct (get_value k r); [discriminate | reflexivity].
      - destruct (get_value k r) as [[raw f t|sub]|]; [| |reflexivity].
        + destruct raw as [g|l0|m0|[raw' f' t'|sub]]; cbn [sub_row]; try reflexivity.
          intros H. now rewrite (IH sub H).
        + cbn [sub_row]. intros H. now rewrite (IH sub H). }
    intros Hn. now rewrite (H Hn).
  Qed.
End ImportAtPath.
