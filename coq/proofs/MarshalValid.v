(* C01 at the level of rows holding typed Go values: whatever row.MarshalJSON / value.MarshalJSON /
   json.Marshal (the writers of JL.model.Template, with enc_string := GoJson.encode_string) return
   without error is the compact text GoJson.write_jv gives for SOME JSON tree (an object for a
   row), hence — by JsonProofs.write_valid — one valid JSON object of the reference grammar with
   no raw line feed; and what exporter.Export hands to its single Write is that text plus LF.

   Two oracle hypotheses (Section hypotheses, premises of the closed theorems):
     H_jfloat : the text json.Marshal gives a finite float is a JSON number literal
     H_jother : the text json.Marshal gives a value of a dynamic type outside the model is the
                compact text of some JSON value.
   One typing invariant on the value being marshalled ([mw_rv] / [mw_cell] / [mw_crow] below):
   a []byte is a list of bytes, a time.Time has a non-negative nanosecond field, and — only for
   the validity corollaries, which need GoJson's [jv_bytes_ok] — every string that reaches the
   string encoder (keys, strings held, strings produced by the export conversions) is a list of
   bytes. Without it the representation [str := list Z] contains junk that no Go value denotes
   (a negative "byte" makes encode_string print a non-hex digit, a negative nanosecond field makes
   dec_nat print a non-digit), and the statement is false for that junk. *)
From Coq Require Import ZArith List Bool Lia ZifyBool.
From JL.std Require Import GoBase GoFloat GoStrconv GoTime GoVal GoBase64 GoJsonNum GoJson.
From JL.gen Require Import CastGen ConvGen.
From JL.model Require Import Row Template TemplateJson.
From JL.proofs Require Import StrconvProofs CastText CastTotal JsonStr JsonWrite JsonProofs RowSafe TemplateClass.
Import ListNotations.
Open Scope Z_scope.

(* ================= separators: strings.Join vs GoJson.join ================= *)

Lemma join_with_join ss : join_with [44] ss = join 44 ss.
Proof.
  induction ss as [|x r IH]; [reflexivity|]. destruct r as [|y r]; [reflexivity|].
  change (join_with [44] (x :: y :: r)) with (x ++ [44] ++ join_with [44] (y :: r)).
  rewrite IH. reflexivity.
Qed.

Lemma arr_text ss : [91] ++ join_with [44] ss ++ [93] = 91 :: join 44 ss ++ [93].
Proof. rewrite join_with_join. reflexivity. Qed.

Lemma obj_text ss : [123] ++ join_with [44] ss ++ [125] = 123 :: join 44 ss ++ [125].
Proof. rewrite join_with_join. reflexivity. Qed.

(* ================= plain characters: appendString copies them ================= *)

(* printable ASCII except the five characters appendString escapes (escapeHTML = true) *)
Definition plainb (c : Z) : bool :=
  (32 <=? c) && (c <? 128) && negb ((c =? 34) || (c =? 92) || (c =? 60) || (c =? 62) || (c =? 38)).
Definition pl (c : Z) : Prop := plainb c = true.

Lemma enc_step_plain c r : pl c -> enc_step (c :: r) = ([c], r).
Proof.
  unfold pl, plainb. intros H. unfold enc_step.
  assert (E1 : (c <? 128) = true) by lia. rewrite E1.
  assert (E2 : ((c =? 34) || (c =? 92)) = false) by lia. rewrite E2.
  assert (E3 : (c =? 8) = false) by lia. rewrite E3.
  assert (E4 : (c =? 12) = false) by lia. rewrite E4.
  assert (E5 : (c =? 10) = false) by lia. rewrite E5.
  assert (E6 : (c =? 13) = false) by lia. rewrite E6.
  assert (E7 : (c =? 9) = false) by lia. rewrite E7.
  assert (E8 : ((c <? 32) || (c =? 60) || (c =? 62) || (c =? 38)) = false) by lia. rewrite E8.
  reflexivity.
Qed.

Lemma enc_body_plain s : Forall pl s -> forall f, (length s <= f)%nat -> enc_body f s = s.
Proof.
  induction 1 as [|c r Hc _ IH]; intros f Hf; [destruct f; reflexivity|].
  destruct f as [|f]; [cbn in Hf; lia|]. cbn [enc_body]. rewrite (enc_step_plain c r Hc).
  cbn [app]. rewrite IH by (cbn in Hf; lia). reflexivity.
Qed.

Lemma encode_string_plain s : Forall pl s -> encode_string s = 34 :: s ++ [34].
Proof. intros H. unfold encode_string. f_equal. f_equal. apply enc_body_plain; [exact H | apply le_n]. Qed.

Lemma quoted_plain s : Forall pl s -> [34] ++ s ++ [34] = encode_string s.
Proof. intros H. rewrite (encode_string_plain s H). reflexivity. Qed.

Lemma pl_byte c : pl c -> is_byte c.
Proof. unfold pl, plainb, is_byte. lia. Qed.

Lemma pl_bytes_ok s : Forall pl s -> bytes_ok s.
Proof. unfold bytes_ok. apply Forall_impl, pl_byte. Qed.

Lemma pl_digit c : 48 <= c <= 57 -> pl c.
Proof. unfold pl, plainb. lia. Qed.

Lemma pl_lit c : plainb c = true -> pl c. Proof. exact (fun H => H). Qed.

(* ---------- base64 ---------- *)
Lemma b64_char_plain n : 0 <= n -> pl (b64_char n).
Proof.
  intros Hn. unfold pl, b64_char, plainb.
  destruct (Z.ltb_spec n 26); [lia|]. destruct (Z.ltb_spec n 52); [lia|].
  destruct (Z.ltb_spec n 62); [lia|]. destruct (Z.eqb_spec n 62); reflexivity.
Qed.

Lemma base64_plain_len n : forall s, (length s <= n)%nat -> bytes_ok s -> Forall pl (base64_encode s).
Proof.
  induction n as [|n IH]; intros s Hl Hs.
  - destruct s; [constructor|cbn in Hl; lia].
  - destruct s as [|a [|b [|c r]]]; [constructor| | |].
    + inversion Hs as [|? ? Ha _]; subst. unfold is_byte in Ha. cbn [base64_encode].
      repeat constructor; try (apply b64_char_plain).
      * apply Z.div_pos; lia.
      * pose proof (Z.mod_pos_bound a 4 ltac:(lia)). lia.
    + inversion Hs as [|? ? Ha Hs1]; subst. inversion Hs1 as [|? ? Hb _]; subst. unfold is_byte in *.
      cbn [base64_encode].
      pose proof (Z.mod_pos_bound a 4 ltac:(lia)). pose proof (Z.mod_pos_bound b 16 ltac:(lia)).
      pose proof (Z.div_pos a 4 ltac:(lia) ltac:(lia)). pose proof (Z.div_pos b 16 ltac:(lia) ltac:(lia)).
      repeat constructor; try (apply b64_char_plain; lia).
    + inversion Hs as [|? ? Ha Hs1]; subst. inversion Hs1 as [|? ? Hb Hs2]; subst.
      inversion Hs2 as [|? ? Hc Hr]; subst. unfold is_byte in *.
      change (base64_encode (a :: b :: c :: r)) with
        (b64_char (a / 4) :: b64_char (a mod 4 * 16 + b / 16)
         :: b64_char (b mod 16 * 4 + c / 64) :: b64_char (c mod 64) :: base64_encode r).
      pose proof (Z.mod_pos_bound a 4 ltac:(lia)). pose proof (Z.mod_pos_bound b 16 ltac:(lia)).
      pose proof (Z.mod_pos_bound c 64 ltac:(lia)).
      pose proof (Z.div_pos a 4 ltac:(lia) ltac:(lia)). pose proof (Z.div_pos b 16 ltac:(lia) ltac:(lia)).
      pose proof (Z.div_pos c 64 ltac:(lia) ltac:(lia)).
      repeat (constructor; [apply b64_char_plain; lia|]).
      apply IH; [cbn in Hl; lia | exact Hr].
Qed.

Lemma base64_plain s : bytes_ok s -> Forall pl (base64_encode s).
Proof. apply (base64_plain_len (length s)). lia. Qed.

(* ---------- Time.MarshalJSON ---------- *)
Lemma pl_pad2 n : Forall pl (pad2 n).
Proof.
  unfold pad2. pose proof (Z.mod_pos_bound (n / 10) 10 ltac:(lia)). pose proof (Z.mod_pos_bound n 10 ltac:(lia)).
  repeat constructor; apply pl_digit; lia.
Qed.

Lemma pl_dec_nat n : 0 <= n -> Forall pl (dec_nat n).
Proof.
  intros Hn. destruct (dec_nat_spec n Hn) as [Hall _].
  eapply Forall_impl; [|exact Hall]. intros c Hc. apply pl_digit. exact Hc.
Qed.

Lemma pl_repeat0 k : Forall pl (repeat 48 k).
Proof. induction k; cbn; constructor; auto. reflexivity. Qed.

Lemma pl_pad_left w s : Forall pl s -> Forall pl (pad_left w s).
Proof. intros H. unfold pad_left. apply Forall_app. split; [apply pl_repeat0 | exact H]. Qed.

Lemma pl_append_int x w : Forall pl (append_int x w).
Proof.
  unfold append_int. destruct (Z.ltb_spec x 0).
  - constructor; [reflexivity|]. apply pl_pad_left, pl_dec_nat. lia.
  - apply pl_pad_left, pl_dec_nat. lia.
Qed.

Lemma pl_fmt_date_civil c : Forall pl (fmt_date_civil c).
Proof.
  unfold fmt_date_civil. repeat (apply Forall_app; split);
    try apply pl_append_int; try apply pl_pad2; repeat constructor.
Qed.

Lemma trim_zeros_rev_cons c r : trim_zeros_rev (c :: r) = if c =? 48 then trim_zeros_rev r else c :: r.
Proof.
  destruct (Z.eqb_spec c 48) as [->|Hc]; [reflexivity|].
  destruct c as [|p|p]; try reflexivity.
  do 6 (destruct p as [p|p|]; try reflexivity). contradiction Hc; reflexivity.
Qed.

Lemma Forall_trim_zeros_rev (P : Z -> Prop) s : Forall P s -> Forall P (trim_zeros_rev s).
Proof.
  induction 1 as [|c r Hc Hr IH]; [constructor|]. rewrite trim_zeros_rev_cons.
  destruct (c =? 48); [exact IH | constructor; auto].
Qed.

Lemma pl_fmt_frac nsec : 0 <= nsec -> Forall pl (fmt_frac nsec).
Proof.
  intros Hn. unfold fmt_frac. destruct (nsec =? 0); [constructor|].
  constructor; [reflexivity|]. apply Forall_rev, Forall_trim_zeros_rev, Forall_rev, pl_pad_left, pl_dec_nat, Hn.
Qed.

Lemma pl_fmt_zone off : Forall pl (fmt_zone off).
Proof.
  unfold fmt_zone. destruct (off =? 0); [repeat constructor|]. cbv zeta.
  destruct (Z.quot off 60 <? 0).
  - constructor; [reflexivity|]. repeat (apply Forall_app; split); try apply pl_pad2. repeat constructor.
  - constructor; [reflexivity|]. repeat (apply Forall_app; split); try apply pl_pad2. repeat constructor.
Qed.

Lemma pl_fmt_rfc3339nano t : 0 <= tnsec t -> Forall pl (fmt_rfc3339nano t).
Proof.
  intros Hn. unfold fmt_rfc3339nano. cbv zeta.
  repeat (apply Forall_app; split);
    try apply pl_fmt_date_civil; try apply pl_append_int; try apply pl_pad2; try (apply pl_fmt_frac; exact Hn); try apply pl_fmt_zone;
    repeat constructor.
Qed.

Lemma time_marshal_text t s : 0 <= tnsec t -> time_marshal t = Some s ->
  exists x, Forall pl x /\ s = encode_string x.
Proof.
  intros Hn. unfold time_marshal. cbv zeta.
  destruct ((cy (civil_of t) <? 0) || (9999 <? cy (civil_of t))); [discriminate|].
  destruct (86400 <=? Z.abs (toff t)); [discriminate|]. intros [= <-].
  exists (fmt_rfc3339nano t). split; [apply pl_fmt_rfc3339nano, Hn|].
  apply quoted_plain, pl_fmt_rfc3339nano, Hn.
Qed.

Lemma pl_fmt_rfc3339 t : Forall pl (fmt_rfc3339 t).
Proof.
  unfold fmt_rfc3339. cbv zeta.
  repeat (apply Forall_app; split);
    try apply pl_fmt_date_civil; try apply pl_append_int; try apply pl_pad2; try apply pl_fmt_zone;
    repeat constructor.
Qed.

(* a text accepted by the layout 2006-01-02 *)
Lemma digits_value_plain s : forall acc x, digits_value s acc = Some x -> Forall pl s.
Proof.
  induction s as [|c r IH]; intros acc x H; [constructor|]. cbn [digits_value] in H.
  destruct (is_digit c) eqn:E; [|discriminate]. constructor; [|eapply IH; eauto].
  apply pl_digit. unfold is_digit in E. lia.
Qed.

Lemma parse_field_plain s lo hi x : parse_field s lo hi = Some x -> Forall pl s.
Proof.
  unfold parse_field. destruct (digits_value s 0) as [y|] eqn:E; [|discriminate]. intros _.
  eapply digits_value_plain; eauto.
Qed.

Lemma date_layout_plain s : date_layout_ok s = true -> Forall pl s.
Proof.
  unfold date_layout_ok.
  destruct s as [|y1 [|y2 [|y3 [|y4 [|d1 [|m1 [|m2 [|d2 [|a1 [|a2 [|z r]]]]]]]]]]]; try discriminate.
  destruct (parse_field [y1; y2; y3; y4] 0 9999) as [y|] eqn:Ey; [|discriminate].
  destruct (parse_field [m1; m2] 1 12) as [mo|] eqn:Em; [|discriminate].
  destruct (parse_field [a1; a2] 1 (days_in mo y)) as [d|] eqn:Ed; [|discriminate].
  intros H. apply andb_true_iff in H as [H1 H2]. apply Z.eqb_eq in H1, H2. subst d1 d2.
  apply parse_field_plain in Ey, Em, Ed.
  inversion Ey as [|? ? A1 Ey1]; subst. inversion Ey1 as [|? ? A2 Ey2]; subst.
  inversion Ey2 as [|? ? A3 Ey3]; subst. inversion Ey3 as [|? ? A4 _]; subst.
  inversion Em as [|? ? B1 Em1]; subst. inversion Em1 as [|? ? B2 _]; subst.
  inversion Ed as [|? ? C1 Ed1]; subst. inversion Ed1 as [|? ? C2 _]; subst.
  repeat (constructor; [assumption || reflexivity|]). constructor.
Qed.

(* ---------- numbers ---------- *)
Lemma marshal_number_valid s : is_json_number s = true -> marshal_number s = Some s.
Proof.
  intros H. unfold marshal_number. destruct s as [|c r]; [discriminate H|]. rewrite H. reflexivity.
Qed.

Lemma marshal_number_dec z : marshal_number (dec z) = Some (dec z).
Proof. apply marshal_number_valid, json_number_dec. Qed.

Lemma write_dec_list s : opt_all (map write_jv (map (fun z => JNum (dec z)) s)) = Some (map dec s).
Proof.
  induction s as [|z s IH]; [reflexivity|]. cbn [map opt_all write_jv].
  rewrite marshal_number_dec, IH. reflexivity.
Qed.

Lemma bytes_ok_num_list s : jv_bytes_ok (JArr (map (fun z => JNum (dec z)) s)).
Proof. apply jv_bytes_ok_arr. induction s; cbn [map]; constructor; auto. exact I. Qed.

(* ---------- sorting keeps what holds of every entry ---------- *)
Lemma Forall_insert_sorted {A} (P : str * A -> Prop) k v l :
  P (k, v) -> Forall P l -> Forall P (insert_sorted k v l).
Proof.
  intros Hk. induction 1 as [|[k' v'] r Hx Hr IH]; cbn [insert_sorted]; [repeat constructor; exact Hk|].
  destruct (str_ltb k k'); constructor; auto.
Qed.

Lemma Forall_sort_by_key {A} (P : str * A -> Prop) l : Forall P l -> Forall P (sort_by_key l).
Proof.
  unfold sort_by_key. induction 1 as [|[k v] r Hx Hr IH]; cbn [fold_right fst snd]; [constructor|].
  apply Forall_insert_sorted; auto.
Qed.

Lemma alookup_in {A} k (m : list (str * A)) c : alookup k m = Some c -> exists k', In (k', c) m.
Proof.
  induction m as [|[k' c'] m IH]; cbn [alookup]; [discriminate|].
  destruct (str_eqb k k'); [intros [= <-]; exists k'; now left|].
  intros H. destruct (IH H) as [k2 H2]. exists k2. now right.
Qed.

(* ================= the typing invariant ================= *)

Section Marshal.
  Context (O : oracles).
  Context (jfloat : bool -> Z -> option str) (jother : Z -> option str).

  (* G = True : with the byte-string clauses; G = False : without them *)
  Context (G : Prop).

  Definition gw (g : gval) : Prop :=
    match g with
    | VBytes b => bytes_ok (bdata b)
    | VTime t => 0 <= tnsec t
    | VStr s => G -> bytes_ok s
    | _ => True
    end.

  Fixpoint mw_rv (v : rv) : Prop :=
    match v with
    | RS g => gw g
    | RArr l => (fix go (l : list rv) : Prop := match l with [] => True | x :: t => mw_rv x /\ go t end) l
    | RMap m => (fix go (m : list (str * rv)) : Prop :=
                   match m with [] => True | kv :: t => ((G -> bytes_ok (fst kv)) /\ mw_rv (snd kv)) /\ go t end) m
    | RV c => mw_cell c
    end
  with mw_cell (c : cell) : Prop :=
    match c with
    | CVal raw f _ =>
        match f with
        | FAuto | FHidden => mw_rv raw          (* Export() hands the raw value itself to json.Marshal *)
        | _ => G -> rv_is_nil raw = false -> forall s, export_scalar O f raw = Ok (RS (VStr s)) -> bytes_ok s
        end
    | CRow r => mw_crow r
    end
  with mw_crow (r : crow) : Prop :=
    match r with
    | MkRow m l =>
        (G -> Forall bytes_ok l)
        /\ (fix go (m : list (str * cell)) : Prop := match m with [] => True | kc :: t => mw_cell (snd kc) /\ go t end) m
    end.

  Lemma mw_arr_eq l : mw_rv (RArr l) <-> Forall mw_rv l.
  Proof.
    induction l as [|x l IH]; [split; intros; [constructor|exact I]|].
    change (mw_rv (RArr (x :: l))) with (mw_rv x /\ mw_rv (RArr l)).
    rewrite IH, Forall_cons_iff. tauto.
  Qed.

  Lemma mw_map_eq m : mw_rv (RMap m) <-> Forall (fun kv => (G -> bytes_ok (fst kv)) /\ mw_rv (snd kv)) m.
  Proof.
    induction m as [|x m IH]; [split; intros; [constructor|exact I]|].
    change (mw_rv (RMap (x :: m))) with (((G -> bytes_ok (fst x)) /\ mw_rv (snd x)) /\ mw_rv (RMap m)).
    rewrite IH, Forall_cons_iff. tauto.
  Qed.

  Lemma mw_crow_eq m l :
    mw_crow (MkRow m l) <-> (G -> Forall bytes_ok l) /\ Forall (fun kc => mw_cell (snd kc)) m.
  Proof.
    cbn [mw_crow]. apply and_iff_compat_l.
    induction m as [|x m IH]; [split; intros; [constructor|exact I]|].
    rewrite Forall_cons_iff, <- IH. tauto.
  Qed.

  (* ================= hypotheses on the two oracles ================= *)
  Hypothesis H_jfloat : forall is32 x s, jfloat is32 x = Some s -> is_json_number s = true.
  Hypothesis H_jother : forall tag s, jother tag = Some s -> exists t, write_jv t = Some s /\ (G -> jv_bytes_ok t).

  (* s is the compact text of the tree t (whose strings are byte strings when G) *)
  Definition W (t : jv) (s : str) : Prop := write_jv t = Some s /\ (G -> jv_bytes_ok t).

  Local Notation mgval := (marshal_gval encode_string jfloat jother).
  Local Notation mrv := (marshal_rv O encode_string jfloat jother).
  Local Notation mcell := (marshal_cell O encode_string jfloat jother).
  Local Notation mrow := (marshal_row O encode_string jfloat jother).

  (* ---------- leaves: json.Marshal of a scalar ---------- *)
  Lemma marshal_gval_writes g s : gw g -> mgval g = Ok s -> exists t, W t s.
  Proof.
    unfold W. intros Hw H. destruct g as [| b | k z | x | x | s0 | b | s0 | tm | s0 | tag]; cbn [marshal_gval opt_res] in H.
    - injection H as <-. exists JNull. split; [reflexivity | intros _; exact I].
    - injection H as <-. exists (JBool b). split; [destruct b; reflexivity | intros _; exact I].
    - injection H as <-. exists (JNum (dec z)). split; [apply marshal_number_dec | intros _; exact I].
    - destruct (jfloat false x) as [o|] eqn:E; [|discriminate]. injection H as <-.
      exists (JNum o). split; [apply marshal_number_valid; eapply H_jfloat; eauto | intros _; exact I].
    - destruct (jfloat true x) as [o|] eqn:E; [|discriminate]. injection H as <-.
      exists (JNum o). split; [apply marshal_number_valid; eapply H_jfloat; eauto | intros _; exact I].
    - injection H as <-. exists (JStr s0). split; [reflexivity | exact Hw].
    - destruct (bnil b).
      + injection H as <-. exists JNull. split; [reflexivity | intros _; exact I].
      + injection H as <-. cbn [gw] in Hw. pose proof (base64_plain _ Hw) as Hp.
        exists (JStr (base64_encode (bdata b))). split.
        * cbn [write_jv]. f_equal. symmetry. apply quoted_plain, Hp.
        * intros _. apply pl_bytes_ok, Hp.
    - destruct (marshal_number s0) as [o|] eqn:E; [|discriminate]. injection H as <-.
      exists (JNum s0). split; [exact E | intros _; exact I].
    - destruct (time_marshal tm) as [o|] eqn:E; [|discriminate]. injection H as <-.
      destruct (time_marshal_text tm o Hw E) as [x [Hp ->]].
      exists (JStr x). split; [reflexivity | intros _; apply pl_bytes_ok, Hp].
    - injection H as <-. exists (JArr (map (fun z => JNum (dec z)) s0)). split.
      + cbn [write_jv]. rewrite write_dec_list. f_equal. symmetry. apply arr_text.
      + intros _. apply bytes_ok_num_list.
    - destruct (jother tag) as [o|] eqn:E; [|discriminate]. injection H as <-.
      exact (H_jother tag o E).
  Qed.

  (* ---------- the three loops ---------- *)
  Definition member_text (kv : str * jv) : option str :=
    match write_jv (snd kv) with
    | Some b => Some (encode_string (fst kv) ++ 58 :: b)
    | None => None
    end.

  Lemma write_obj tm ss :
    opt_all (map member_text tm) = Some ss -> write_jv (JObj tm) = Some ([123] ++ join_with [44] ss ++ [125]).
  Proof.
    intros H.
    change (write_jv (JObj tm)) with
      (match opt_all (map member_text tm) with
       | Some parts => Some (123 :: join 44 parts ++ [125])
       | None => None
       end).
    rewrite H. f_equal. symmetry. apply obj_text.
  Qed.

  Lemma write_arr ts ss :
    opt_all (map write_jv ts) = Some ss -> write_jv (JArr ts) = Some ([91] ++ join_with [44] ss ++ [93]).
  Proof. intros H. cbn [write_jv]. rewrite H. f_equal. symmetry. apply arr_text. Qed.

  Lemma marshal_list_writes (rec : rv -> res str) l : forall ss,
    Forall (fun x => forall s, rec x = Ok s -> exists t, W t s) l ->
    marshal_list rec l = Ok ss ->
    exists ts, opt_all (map write_jv ts) = Some ss /\ (G -> Forall jv_bytes_ok ts).
  Proof.
    induction l as [|x l IH]; intros ss Hl; cbn [marshal_list].
    - intros [= <-]. exists []. split; [reflexivity | intros _; constructor].
    - inversion Hl as [|? ? Hx Hr]; subst.
      destruct (rec x) as [s| | |] eqn:Ex; cbn [bind]; try discriminate.
      destruct (marshal_list rec l) as [ss'| | |] eqn:El; cbn [bind]; try discriminate.
      intros [= <-]. destruct (Hx s eq_refl) as [t [Ht Hb]]. destruct (IH ss' Hr eq_refl) as [ts [Hts Hbs]].
      exists (t :: ts). split; [cbn [map opt_all]; rewrite Ht, Hts; reflexivity|].
      intros g. constructor; auto.
  Qed.

  Lemma marshal_members_writes (rec : rv -> res str) m : forall ss,
    Forall (fun kv => (G -> bytes_ok (fst kv)) /\ forall s, rec (snd kv) = Ok s -> exists t, W t s) m ->
    marshal_members encode_string rec m = Ok ss ->
    exists tm, opt_all (map member_text tm) = Some ss
               /\ (G -> Forall (fun kv => bytes_ok (fst kv) /\ jv_bytes_ok (snd kv)) tm).
  Proof.
    induction m as [|[k x] m IH]; intros ss Hm; cbn [marshal_members].
    - intros [= <-]. exists []. split; [reflexivity | intros _; constructor].
    - inversion Hm as [|? ? [Hk Hx] Hr]; subst. cbn [fst snd] in *.
      destruct (rec x) as [s| | |] eqn:Ex; cbn [bind]; try discriminate.
      destruct (marshal_members encode_string rec m) as [ss'| | |] eqn:El; cbn [bind]; try discriminate.
      intros [= <-]. destruct (Hx s eq_refl) as [t [Ht Hb]]. destruct (IH ss' Hr eq_refl) as [tm [Htm Hbm]].
      exists ((k, t) :: tm). split.
      + cbn [map opt_all]. unfold member_text at 1. cbn [fst snd]. rewrite Ht, Htm. reflexivity.
      + intros g. constructor; auto.
  Qed.

  Lemma marshal_row_members_writes (rec : cell -> res str) m : forall l ss,
    (G -> Forall bytes_ok l) ->
    Forall (fun kc => forall s, rec (snd kc) = Ok s -> exists t, W t s) m ->
    marshal_row_members encode_string rec m l = Ok ss ->
    exists tm, opt_all (map member_text tm) = Some ss
               /\ (G -> Forall (fun kv => bytes_ok (fst kv) /\ jv_bytes_ok (snd kv)) tm).
  Proof.
    induction l as [|k l IH]; intros ss Hl Hm; cbn [marshal_row_members].
    - intros [= <-]. exists []. split; [reflexivity | intros _; constructor].
    - assert (Hl' : G -> Forall bytes_ok l) by (intros g; specialize (Hl g); inversion Hl; auto).
      destruct (alookup k m) as [c|] eqn:E; [|discriminate].
      destruct (format_eqb (cell_format c) FHidden); [apply IH; auto|].
      destruct (rec c) as [s| | |] eqn:Ex; cbn [bind]; try discriminate.
      destruct (marshal_row_members encode_string rec m l) as [ss'| | |] eqn:El; cbn [bind]; try discriminate.
      intros [= <-]. destruct (alookup_in _ _ _ E) as [k' Hin].
      rewrite Forall_forall in Hm. destruct (Hm _ Hin s Ex) as [t [Ht Hb]].
      destruct (IH ss' Hl' ltac:(rewrite Forall_forall; exact Hm) eq_refl) as [tm [Htm Hbm]].
      exists ((k, t) :: tm). split.
      + cbn [map opt_all]. unfold member_text at 1. cbn [fst snd]. rewrite Ht, Htm. reflexivity.
      + intros g. constructor; auto. cbn [fst snd]. split; auto. specialize (Hl g). inversion Hl; auto.
  Qed.

  (* ---------- one unfolding of each writer ---------- *)
  Lemma mrv_S n v :
    mrv (S n) v =
    match v with
    | RS g => mgval g
    | RArr l => bind (marshal_list (mrv n) l) (fun ss => Ok ([91] ++ join_with [44] ss ++ [93]))
    | RMap m => bind (marshal_members encode_string (mrv n) (sort_by_key m)) (fun ss => Ok ([123] ++ join_with [44] ss ++ [125]))
    | RV c => mcell n c
    end.
  Proof. reflexivity. Qed.

  Lemma mcell_S n c :
    mcell (S n) c =
    match c with
    | CVal raw f _ => if rv_is_nil raw then Ok s_null else bind (export_scalar O f raw) (fun e => mrv n e)
    | CRow r => mrow n r
    end.
  Proof. reflexivity. Qed.

  Lemma mrow_S n m l :
    mrow (S n) (MkRow m l) =
    bind (marshal_row_members encode_string (mcell n) m l) (fun ss => Ok ([123] ++ join_with [44] ss ++ [125])).
  Proof. reflexivity. Qed.

  (* the value Export() hands to json.Marshal satisfies the invariant *)
  Lemma mw_export raw f typ e :
    mw_cell (CVal raw f typ) -> rv_is_nil raw = false -> export_scalar O f raw = Ok e -> mw_rv e.
  Proof.
    intros Hc Hn He. cbn [mw_cell] in Hc.
    destruct (typed_format f) eqn:Hf.
    - destruct (export_typed_scalar O f raw e Hf He) as [g ->]. cbn [mw_rv].
      destruct g as [| b | k z | x | x | s0 | b | s0 | tm | s0 | tag] eqn:Eg; try exact I;
        try (assert (Hcl : class_val O f g)
               by (subst g; apply (export_class O f raw); [exact He | apply to_gval_nonnil, Hn | discriminate]);
             subst g; destruct f; try discriminate Hf; cbn [class_val] in Hcl;
             repeat match goal with
                    | H : exists _, _ |- _ => destruct H
                    | H : _ /\ _ |- _ => destruct H
                    end; discriminate).
      cbn [gw]. intros g0. destruct f; try discriminate Hf; apply (Hc g0 Hn s0 He).
    - destruct f; try discriminate Hf; cbn [export_scalar] in He; try discriminate He;
        injection He as <-; exact Hc.
  Qed.

  (* a date text (accepted by, or produced with, the layout 2006-01-02) is plain ASCII *)
  Lemma date_shape_plain s : date_shape O s -> Forall pl s.
  Proof.
    intros [[t Ht]|[t ->]].
    - unfold time_Parse in Ht. destruct (date_layout_ok s) eqn:E; [|discriminate]. apply date_layout_plain, E.
    - apply pl_fmt_date_civil.
  Qed.

  (* columns whose format can only export a number, a boolean or a date / date-time text satisfy
     the invariant whatever they hold *)
  Lemma mw_cell_free raw f typ :
    f = FNumeric \/ f = FBoolean \/ f = FTimestamp \/ f = FDateTime \/ f = FDate -> mw_cell (CVal raw f typ).
  Proof.
    intros Hf. assert (Hc : G -> rv_is_nil raw = false -> forall s, export_scalar O f raw = Ok (RS (VStr s)) -> bytes_ok s).
    { intros _ Hn s He.
      pose proof (export_class O f raw (VStr s) He (to_gval_nonnil _ Hn) ltac:(discriminate)) as Hcl.
      destruct Hf as [->|[->|[->|[->| ->]]]]; cbn [class_val] in Hcl; destruct Hcl as [x Hx]; try discriminate Hx.
      - destruct Hx as [Hx _]. injection Hx as ->. apply pl_bytes_ok, pl_fmt_rfc3339.
      - destruct Hx as [Hx Hd]. injection Hx as <-. apply pl_bytes_ok, date_shape_plain, Hd. }
    destruct Hf as [->|[->|[->|[->| ->]]]]; exact Hc.
  Qed.

  (* ================= the main induction ================= *)
  Theorem marshal_writes n :
    (forall v s, mw_rv v -> mrv n v = Ok s -> exists t, W t s)
    /\ (forall c s, mw_cell c -> mcell n c = Ok s -> exists t, W t s)
    /\ (forall r s, mw_crow r -> mrow n r = Ok s -> exists m, W (JObj m) s).
  Proof.
    induction n as [|n [IHv [IHc IHr]]]; [repeat split; intros; discriminate|].
    assert (Hrow : forall r s, mw_crow r -> mrow (S n) r = Ok s -> exists m, W (JObj m) s).
    { intros [m l] s Hr. rewrite mrow_S. apply mw_crow_eq in Hr as [Hl Hm].
      destruct (marshal_row_members encode_string (mcell n) m l) as [ss| | |] eqn:E; cbn [bind]; try discriminate.
      intros [= <-].
      assert (HF : Forall (fun kc => forall s, mcell n (snd kc) = Ok s -> exists t, W t s) m).
      { eapply Forall_impl; [|exact Hm]. intros kc Hkc s Hs. exact (IHc _ _ Hkc Hs). }
      destruct (marshal_row_members_writes (mcell n) m l ss Hl HF E) as [tm [Htm Hb]].
      exists tm. split; [apply write_obj, Htm | intros g; apply jv_bytes_ok_obj, Hb, g]. }
    assert (Hcell : forall c s, mw_cell c -> mcell (S n) c = Ok s -> exists t, W t s).
    { intros c s Hc. rewrite mcell_S. destruct c as [raw f typ|r].
      - destruct (rv_is_nil raw) eqn:En.
        + intros [= <-]. exists JNull. split; [reflexivity | intros _; exact I].
        + destruct (export_scalar O f raw) as [e| | |] eqn:Ee; cbn [bind]; try discriminate.
          apply IHv. eapply mw_export; eauto.
      - intros H. destruct (IHr r s Hc H) as [m Hm]. eauto. }
    split; [|split; [exact Hcell | exact Hrow]].
    intros v s Hv. rewrite mrv_S. destruct v as [g|l|m|c].
    - apply marshal_gval_writes. exact Hv.
    - apply mw_arr_eq in Hv.
      destruct (marshal_list (mrv n) l) as [ss| | |] eqn:E; cbn [bind]; try discriminate.
      intros [= <-].
      assert (HF : Forall (fun x => forall s, mrv n x = Ok s -> exists t, W t s) l).
      { eapply Forall_impl; [|exact Hv]. intros x Hx s Hs. exact (IHv _ _ Hx Hs). }
      destruct (marshal_list_writes (mrv n) l ss HF E) as [ts [Hts Hb]].
      exists (JArr ts). split; [apply write_arr, Hts | intros g; apply jv_bytes_ok_arr, Hb, g].
    - apply mw_map_eq in Hv.
      destruct (marshal_members encode_string (mrv n) (sort_by_key m)) as [ss| | |] eqn:E; cbn [bind]; try discriminate.
      intros [= <-].
      assert (HF : Forall (fun kv => (G -> bytes_ok (fst kv)) /\ forall s, mrv n (snd kv) = Ok s -> exists t, W t s)
                          (sort_by_key m)).
      { apply Forall_sort_by_key. eapply Forall_impl; [|exact Hv].
        intros kv [Hk Hx]. split; [exact Hk|]. intros s Hs. exact (IHv _ _ Hx Hs). }
      destruct (marshal_members_writes (mrv n) (sort_by_key m) ss HF E) as [tm [Htm Hb]].
      exists (JObj tm). split; [apply write_obj, Htm | intros g; apply jv_bytes_ok_obj, Hb, g].
    - apply IHc. exact Hv.
  Qed.
End Marshal.

(* ================= closed statements ================= *)

Section Closed.
  Context (O : oracles).
  Context (jfloat : bool -> Z -> option str) (jother : Z -> option str).

  (* oracle hypothesis 1: encoding/json writes a finite float as a JSON number literal *)
  Hypothesis H_jfloat : forall is32 x s, jfloat is32 x = Some s -> is_json_number s = true.

  (* the typing invariant without / with the byte-string clauses *)
  Definition rv_typed := mw_rv O False.
  Definition cell_typed := mw_cell O False.
  Definition row_typed := mw_crow O False.
  Definition rv_bytes := mw_rv O True.
  Definition cell_bytes := mw_cell O True.
  Definition row_bytes := mw_crow O True.

  Section Weak.
    (* oracle hypothesis 2: json.Marshal of a value of another dynamic type gives the compact
       text of some JSON value *)
    Hypothesis H_jother : forall tag s, jother tag = Some s -> exists t, write_jv t = Some s.

    Let HO : forall tag s, jother tag = Some s -> exists t, write_jv t = Some s /\ (False -> jv_bytes_ok t).
    Proof. intros tag s H. destruct (H_jother tag s H) as [t Ht]. exists t. split; [exact Ht | intros []]. Qed.

    Theorem marshal_rv_writes n v s :
      rv_typed v -> marshal_rv O encode_string jfloat jother n v = Ok s -> exists t, write_jv t = Some s.
    Proof.
      intros Hv H. destruct (proj1 (marshal_writes O jfloat jother False H_jfloat HO n) v s Hv H) as [t [Ht _]]. eauto.
    Qed.

    Theorem marshal_cell_writes n c s :
      cell_typed c -> marshal_cell O encode_string jfloat jother n c = Ok s -> exists t, write_jv t = Some s.
    Proof.
      intros Hc H.
      destruct (proj1 (proj2 (marshal_writes O jfloat jother False H_jfloat HO n)) c s Hc H) as [t [Ht _]]. eauto.
    Qed.

    Theorem marshal_row_writes n r s :
      row_typed r -> marshal_row O encode_string jfloat jother n r = Ok s -> exists m, write_jv (JObj m) = Some s.
    Proof.
      intros Hr H.
      destruct (proj2 (proj2 (marshal_writes O jfloat jother False H_jfloat HO n)) r s Hr H) as [m [Hm _]]. eauto.
    Qed.
  End Weak.

  Section Strong.
    (* oracle hypothesis 2, with the typing invariant of the tree: its strings are byte strings *)
    Hypothesis H_jother : forall tag s, jother tag = Some s -> exists t, write_jv t = Some s /\ jv_bytes_ok t.

    Let HO : forall tag s, jother tag = Some s -> exists t, write_jv t = Some s /\ (True -> jv_bytes_ok t).
    Proof. intros tag s H. destruct (H_jother tag s H) as [t [Ht Hb]]. exists t. split; [exact Ht | intros _; exact Hb]. Qed.

    Theorem marshal_rv_valid n v s :
      rv_bytes v -> marshal_rv O encode_string jfloat jother n v = Ok s ->
      is_json_value s = true /\ Forall (fun b => 32 <= b < 256) s /\ ~ In 10 s.
    Proof.
      intros Hv H. destruct (proj1 (marshal_writes O jfloat jother True H_jfloat HO n) v s Hv H) as [t [Ht Hb]].
      destruct (write_valid t s (Hb I) Ht) as (_ & A & _ & B & C). auto.
    Qed.

    Theorem marshal_cell_valid n c s :
      cell_bytes c -> marshal_cell O encode_string jfloat jother n c = Ok s ->
      is_json_value s = true /\ Forall (fun b => 32 <= b < 256) s /\ ~ In 10 s.
    Proof.
      intros Hc H.
      destruct (proj1 (proj2 (marshal_writes O jfloat jother True H_jfloat HO n)) c s Hc H) as [t [Ht Hb]].
      destruct (write_valid t s (Hb I) Ht) as (_ & A & _ & B & C). auto.
    Qed.

    (* row.MarshalJSON: one valid JSON object, bytes 0x20..0xFF only, no raw LF *)
    Theorem marshal_row_valid n r s :
      row_bytes r -> marshal_row O encode_string jfloat jother n r = Ok s ->
      is_json_object s = true /\ Forall (fun b => 32 <= b < 256) s /\ ~ In 10 s.
    Proof.
      intros Hr H.
      destruct (proj2 (proj2 (marshal_writes O jfloat jother True H_jfloat HO n)) r s Hr H) as [m [Hm Hb]].
      destruct (write_valid (JObj m) s (Hb I) Hm) as (_ & _ & A & B & C). split; [eapply A; reflexivity | auto].
    Qed.

    (* exporter.Export: the argument of its single Write is one valid JSON object followed by LF.
       (On any other outcome the model returns before the Write: nothing is written.) *)
    Theorem export_line n to input out :
      (forall row, create_row O parse_top_rv n to input = Ok row -> row_bytes row) ->
      export_bytes O encode_string parse_top_rv jfloat jother n to input = Ok out ->
      exists line, out = line ++ [10] /\ is_json_object line = true /\ ~ In 10 line.
    Proof.
      intros Hw. unfold export_bytes.
      destruct (create_row O parse_top_rv n to input) as [row| | |] eqn:Ec; cbn [bind]; try discriminate.
      destruct (marshal_row O encode_string jfloat jother n row) as [b| | |] eqn:Em; cbn [bind]; try discriminate.
      intros [= <-]. exists b. destruct (marshal_row_valid n row b (Hw row eq_refl) Em) as (A & _ & C). auto.
    Qed.

    (* one line through importer and exporter *)
    Theorem pipeline_line n ti to line out :
      (forall r row, get_row O parse_top_rv n ti line = Ok r ->
                     create_row O parse_top_rv n to (RV (CRow r)) = Ok row -> row_bytes row) ->
      pipeline O encode_string parse_top_rv jfloat jother n ti to line = Ok out ->
      exists l, out = l ++ [10] /\ is_json_object l = true /\ ~ In 10 l.
    Proof.
      intros Hw. unfold pipeline.
      destruct (get_row O parse_top_rv n ti line) as [r| | |] eqn:Eg; cbn [bind]; try discriminate.
      apply export_line. intros row. apply Hw. reflexivity.
    Qed.
  End Strong.

  (* whatever the outcome, Export either hands the writer one buffer or nothing: by definition
     export_bytes is the argument of the only Write call, and the other outcomes carry no bytes *)
  Lemma export_no_partial n to input :
    match export_bytes O encode_string parse_top_rv jfloat jother n to input with
    | Ok out => exists b, marshal_row O encode_string jfloat jother n
                            match create_row O parse_top_rv n to input with Ok row => row | _ => new_row end = Ok b
                          /\ out = b ++ [10]
    | _ => True
    end.
  Proof.
    unfold export_bytes.
    destruct (create_row O parse_top_rv n to input) as [row| | |]; cbn [bind]; try exact I.
    destruct (marshal_row O encode_string jfloat jother n row) as [b| | |]; cbn [bind]; try exact I.
    exists b. auto.
  Qed.
End Closed.

(* the hypotheses are satisfiable: an oracle pair, and a row with an auto string column, a numeric
   column, a hidden column, a nested array and a sub-row *)
Example oracle_hyps_example :
  let jfloat := fun (_ : bool) (_ : Z) => Some [49; 46; 53] in
  let jother := fun (_ : Z) => Some [123; 125] in
  (forall is32 x s, jfloat is32 x = Some s -> is_json_number s = true)
  /\ (forall tag s, jother tag = Some s -> exists t, write_jv t = Some s /\ jv_bytes_ok t).
Proof.
  split.
  - intros _ _ s [= <-]. reflexivity.
  - intros _ s [= <-]. exists (JObj []). split; [reflexivity | exact I].
Qed.

Example row_bytes_example O :
  row_bytes O (MkRow [([97], CVal (RS (VStr [195; 169; 10])) FAuto VNil);
                      ([98], CVal (RS (VF64 0)) FNumeric VNil);
                      ([104], CVal (RS (VBytes (mkbytes [1; 2]))) FHidden VNil);
                      ([99], CVal (RArr [RS (VTime {| tsec := 0; tnsec := 5; toff := 0 |}); RMap [([1], RS VNil)]]) FAuto VNil);
                      ([100], CRow (MkRow [([101], CVal (RS (VBool true)) FBoolean VNil)] [[101]]))]
                     [[97]; [98]; [104]; [99]; [100]]).
Proof.
  assert (B : forall l, Forall (fun c => 0 <= c < 256) l -> bytes_ok l) by (intros l H; exact H).
  unfold row_bytes. apply mw_crow_eq. split.
  - intros _. repeat constructor; unfold is_byte; lia.
  - constructor; [|constructor; [|constructor; [|constructor; [|constructor; [|constructor]]]]]; cbn [snd].
    + cbn. intros _. repeat constructor; unfold is_byte; lia.
    + apply mw_cell_free. auto.
    + cbn. repeat constructor; unfold is_byte; lia.
    + cbn. repeat split; try lia. intros _. repeat constructor; unfold is_byte; lia.
    + apply mw_crow_eq. split; [intros _; repeat constructor; unfold is_byte; lia|].
      constructor; [|constructor]. apply mw_cell_free. auto.
Qed.
