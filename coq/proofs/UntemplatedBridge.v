(* C02 at the level of the row / template model: the BRIDGE between what jsonline does with a
   line when no template is given (JL.model.Row / Template / TemplateJson: importer.GetRow on an
   empty template, then exporter.Export under an empty template) and the JSON layer
   (JL.std.GoJson: parse_top / write_jv), for which JL.proofs.JsonProofs has the round trip.

     marshal_rv_of_jv     json.Marshal of the value handledelim builds for a parsed tree d writes
                          exactly write_jv d (nested objects are rows of Auto cells, marshalled
                          member by member in key-list order)
     untemplated_get_row  GetRow with an empty template on a line the reader accepts builds the
                          row obj_row of its members
     untemplated_export   Export of that row under an empty template is write_jv (JObj m) + LF
     untemplated_pipeline the composition; with JsonProofs.roundtrip: the output spells the same
                          tree and is a fixed point.

   Domain: objects have unique member names at every depth ([uniq_jv]). With a duplicate name
   the row keeps the FIRST position and the LAST value whereas write_jv writes both members, so
   the statements are false without it.
   Fuel: every nesting level costs at most 4 units (marshal_rv -> marshal_cell -> marshal_row
   -> marshal_cell -> marshal_rv for an object, 1 for an array); [jfuel d <= 4 * jdepth d + 1].
   Nothing here needs pkg/cast: an undeclared key never goes through cast.To. *)
From Coq Require Import ZArith List Bool Lia.
From JL.std Require Import GoBase GoVal GoJsonNum GoJson GoJsonMarshal.
From JL.model Require Import Row Template TemplateJson.
From JL.proofs Require Import RowProofs JsonParseC JsonWrite JsonProofs.
Import ListNotations.
Open Scope Z_scope.

(* ================= the domain: unique member names at every depth ================= *)

Fixpoint uniq_jv (v : jv) : Prop :=
  match v with
  | JArr l => fold_right (fun x acc => uniq_jv x /\ acc) True l
  | JObj m => NoDup (map fst m) /\ fold_right (fun kv acc => uniq_jv (snd kv) /\ acc) True m
  | _ => True
  end.

Lemma uniq_arr_Forall l : uniq_jv (JArr l) <-> Forall uniq_jv l.
Proof.
  cbn [uniq_jv]. induction l as [|x l IH]; cbn [fold_right].
  - split; auto.
  - rewrite IH. split; [intros [H1 H2]; constructor; auto|intros H; inversion H; auto].
Qed.

Lemma uniq_obj_Forall m :
  uniq_jv (JObj m) <-> NoDup (map fst m) /\ Forall (fun kv => uniq_jv (snd kv)) m.
Proof.
  cbn [uniq_jv]. apply and_iff_compat_l. induction m as [|x m IH]; cbn [fold_right].
  - split; auto.
  - rewrite IH. split; [intros [H1 H2]; constructor; auto|intros H; inversion H; auto].
Qed.

(* a decision procedure, for examples *)
Fixpoint keys_distinct (l : list str) : bool :=
  match l with
  | [] => true
  | k :: r => negb (existsb (str_eqb k) r) && keys_distinct r
  end.

Fixpoint uniq_jvb (v : jv) : bool :=
  match v with
  | JArr l => fold_right (fun x acc => uniq_jvb x && acc) true l
  | JObj m => keys_distinct (map fst m) && fold_right (fun kv acc => uniq_jvb (snd kv) && acc) true m
  | _ => true
  end.

Lemma keys_distinct_NoDup l : keys_distinct l = true -> NoDup l.
Proof.
  induction l as [|k r IH]; cbn [keys_distinct]; intros H; [constructor|].
  apply andb_true_iff in H as [H1 H2]. constructor; [|auto].
  intros Hin. apply negb_true_iff in H1.
  assert (E : existsb (str_eqb k) r = true).
  { apply existsb_exists. exists k. split; [exact Hin|apply str_eqb_refl]. }
  rewrite E in H1. discriminate.
Qed.

Lemma uniq_jvb_sound v : uniq_jvb v = true -> uniq_jv v.
Proof.
  induction v using jv_ind2; try (intros _; exact I).
  - intros Hb. apply uniq_arr_Forall. cbn [uniq_jvb] in Hb.
    induction H as [|x l Hx _ IH]; [constructor|].
    cbn [fold_right] in Hb. apply andb_true_iff in Hb as [H1 H2]. constructor; auto.
  - intros Hb. apply uniq_obj_Forall. cbn [uniq_jvb] in Hb.
    apply andb_true_iff in Hb as [Hk Hb]. split; [apply keys_distinct_NoDup; exact Hk|].
    clear Hk. induction H as [|x l Hx _ IH]; [constructor|].
    cbn [fold_right] in Hb. apply andb_true_iff in Hb as [H1 H2]. constructor; auto.
Qed.

(* ================= fuel: what the writers need for a tree ================= *)

Fixpoint jfuel (v : jv) : nat :=
  match v with
  | JArr l => S (fold_right (fun x acc => Nat.max (jfuel x) acc) 0%nat l)
  | JObj m => 4 + fold_right (fun kv acc => Nat.max (jfuel (snd kv)) acc) 0%nat m
  | _ => 1
  end.

Lemma jfuel_arr_elem l x : In x l -> (S (jfuel x) <= jfuel (JArr l))%nat.
Proof.
  cbn [jfuel]. induction l as [|y l IH]; intros Hin; [destruct Hin|].
  cbn [fold_right]. destruct Hin as [->|Hin]; [lia|]. specialize (IH Hin). lia.
Qed.

Lemma jfuel_obj_member m kv : In kv m -> (4 + jfuel (snd kv) <= jfuel (JObj m))%nat.
Proof.
  cbn [jfuel]. induction m as [|y m IH]; intros Hin; [destruct Hin|].
  cbn [fold_right]. destruct Hin as [->|Hin]; [lia|]. specialize (IH Hin). lia.
Qed.

Lemma jfuel_pos v : (1 <= jfuel v)%nat.
Proof. destruct v; cbn [jfuel]; lia. Qed.

Lemma jdepth_nonneg v : 0 <= jdepth v.
Proof.
  destruct v as [| | | |l|m]; cbn [jdepth]; try lia.
  - assert (0 <= fold_right (fun x acc => Z.max (jdepth x) acc) 0 l); [|lia].
    induction l as [|x l IH]; cbn [fold_right]; lia.
  - assert (0 <= fold_right (fun (kv : str * jv) acc => Z.max (jdepth (snd kv)) acc) 0 m); [|lia].
    induction m as [|x m IH]; cbn [fold_right]; lia.
Qed.

(* each nesting level costs at most 4 units of fuel *)
Lemma jfuel_jdepth v : Z.of_nat (jfuel v) <= 4 * jdepth v + 1.
Proof.
  induction v using jv_ind2; cbn [jfuel jdepth]; try lia.
  - assert (Z.of_nat (fold_right (fun x acc => Nat.max (jfuel x) acc) 0%nat l)
            <= 4 * fold_right (fun x acc => Z.max (jdepth x) acc) 0 l + 1); [|lia].
    induction H as [|x l Hx _ IH]; cbn [fold_right]; lia.
  - assert (Z.of_nat (fold_right (fun (kv : str * jv) acc => Nat.max (jfuel (snd kv)) acc) 0%nat m)
            <= 4 * fold_right (fun (kv : str * jv) acc => Z.max (jdepth (snd kv)) acc) 0 m + 1); [|lia].
    induction H as [|x l Hx _ IH]; cbn [fold_right]; lia.
Qed.

(* ================= separators: strings.Join vs GoJson.join ================= *)

Lemma join_with_comma ss : join_with [44] ss = join 44 ss.
Proof.
  induction ss as [|x r IH]; [reflexivity|]. destruct r as [|y r]; [reflexivity|].
  change (join_with [44] (x :: y :: r)) with (x ++ [44] ++ join_with [44] (y :: r)).
  rewrite IH. reflexivity.
Qed.

(* ================= rows built by the reader: obj_row of distinct keys ================= *)

Definition auto_cell (v : rv) : cell := CVal v FAuto VNil.
Definition auto_cells (ms : list (str * rv)) : list (str * cell) :=
  map (fun kv => (fst kv, auto_cell (snd kv))) ms.

(* one step of parseobject on a fresh key (also: SetValue(k, NewValueAuto(v))) *)
Definition obj_step (r : crow) (kv : str * rv) : crow :=
  set_cell (fst kv) (auto_cell (snd kv)) (push_if_absent (fst kv) r).

Lemma obj_row_fold_step ms : obj_row ms = fold_left obj_step ms new_row.
Proof. reflexivity. Qed.

Lemma alookup_none_ahas {A} k (m : list (str * A)) : alookup k m = None -> ahas k m = false.
Proof. unfold ahas. intros ->. reflexivity. Qed.

Lemma aset_fresh {A} k (v : A) m : alookup k m = None -> aset k v m = m ++ [(k, v)].
Proof.
  induction m as [|[k' v'] m IH]; cbn [alookup aset app]; [reflexivity|].
  destruct (str_eqb k k'); [discriminate|]. intros H. rewrite IH by exact H. reflexivity.
Qed.

Lemma obj_step_fresh m l kv :
  alookup (fst kv) m = None ->
  obj_step (MkRow m l) kv = MkRow (m ++ [(fst kv, auto_cell (snd kv))]) (l ++ [fst kv]).
Proof.
  intros H. unfold obj_step, push_if_absent, set_cell.
  rewrite (alookup_none_ahas _ _ H), (aset_fresh _ _ _ H). reflexivity.
Qed.

Lemma obj_step_lookup_other r kv k' :
  fst kv <> k' -> alookup k' (row_m (obj_step r kv)) = alookup k' (row_m r).
Proof.
  intros Hne. destruct r as [m l]. unfold obj_step, push_if_absent, set_cell.
  destruct (ahas (fst kv) m); cbn [row_m]; apply alookup_aset_other; exact Hne.
Qed.

Lemma alookup_app_none {A} k (m1 m2 : list (str * A)) :
  alookup k m1 = None -> alookup k (m1 ++ m2) = alookup k m2.
Proof.
  induction m1 as [|[k' v'] m1 IH]; cbn [alookup app]; [reflexivity|].
  destruct (str_eqb k k'); [discriminate|]. exact IH.
Qed.

Lemma alookup_single_other {A} k k' (v : A) : k' <> k -> alookup k [(k', v)] = None.
Proof.
  intros Hn. cbn [alookup]. destruct (str_eqb k k') eqn:E; [|reflexivity].
  apply str_eqb_eq in E. subst. contradiction.
Qed.

(* the reader's fold over members with distinct names not yet in the row appends them *)
Lemma obj_fold_fresh ms : forall m l,
  NoDup (map fst ms) -> (forall k, In k (map fst ms) -> alookup k m = None) ->
  fold_left obj_step ms (MkRow m l) = MkRow (m ++ auto_cells ms) (l ++ map fst ms).
Proof.
  induction ms as [|kv ms IH]; intros m l Hnd Hfr.
  - cbn [fold_left auto_cells map]. rewrite !app_nil_r. reflexivity.
  - cbn [fold_left map] in *. inversion Hnd as [|? ? Hni Hnd']; subst.
    rewrite obj_step_fresh by (apply Hfr; left; reflexivity).
    rewrite IH; [| exact Hnd' |].
    + unfold auto_cells. cbn [map]. rewrite <- !app_assoc. reflexivity.
    + intros k Hk. rewrite alookup_app_none by (apply Hfr; right; exact Hk).
      apply alookup_single_other. intros E. apply Hni. rewrite E. exact Hk.
Qed.

(* obj_row of distinct keys: the members in order, each an Auto cell *)
Lemma obj_row_uniq ms :
  NoDup (map fst ms) -> obj_row ms = MkRow (auto_cells ms) (map fst ms).
Proof.
  intros Hnd. rewrite obj_row_fold_step. unfold new_row.
  rewrite obj_fold_fresh; [reflexivity|exact Hnd|reflexivity].
Qed.

(* the lookup part: a member is found under its name *)
Lemma alookup_auto_cells ms k v :
  NoDup (map fst ms) -> In (k, v) ms -> alookup k (auto_cells ms) = Some (auto_cell v).
Proof.
  induction ms as [|[k' v'] ms IH]; intros Hnd Hin; [destruct Hin|].
  cbn [map fst] in Hnd. inversion Hnd as [|? ? Hni Hnd']; subst.
  unfold auto_cells. cbn [map alookup fst snd]. destruct Hin as [E|Hin].
  - injection E as -> ->. rewrite str_eqb_refl. reflexivity.
  - destruct (str_eqb k k') eqn:E.
    + apply str_eqb_eq in E. subst k'. exfalso. apply Hni.
      change k with (fst (k, v)). apply in_map. exact Hin.
    + apply IH; assumption.
Qed.

Lemma obj_row_lookup ms k v :
  NoDup (map fst ms) -> In (k, v) ms ->
  row_l (obj_row ms) = map fst ms /\ alookup k (row_m (obj_row ms)) = Some (CVal v FAuto VNil).
Proof.
  intros Hnd Hin. rewrite (obj_row_uniq ms Hnd). cbn [row_l row_m].
  split; [reflexivity|apply alookup_auto_cells; assumption].
Qed.

Lemma map_fst_rv (f : jv -> rv) (m : list (str * jv)) :
  map fst (map (fun kv => (fst kv, f (snd kv))) m) = map fst m.
Proof. rewrite map_map. reflexivity. Qed.

Definition rv_members (m : list (str * jv)) : list (str * rv) :=
  map (fun kv => (fst kv, rv_of_jv (snd kv))) m.

(* ================= writers over such rows ================= *)

Section Bridge.
  Context (O : oracles) (jfloat : bool -> Z -> option str) (jother : Z -> option str).

  Local Notation mrv := (marshal_rv O encode_string jfloat jother).
  Local Notation mcell := (marshal_cell O encode_string jfloat jother).
  Local Notation mrow := (marshal_row O encode_string jfloat jother).

  (* one-step unfoldings of the mutually recursive writers *)
  Lemma mrow_S n m l :
    mrow (S n) (MkRow m l)
    = bind (marshal_row_members encode_string (mcell n) m l)
           (fun ss => Ok ([123] ++ join_with [44] ss ++ [125])).
  Proof. reflexivity. Qed.

  Lemma mcell_S_val n raw f t :
    mcell (S n) (CVal raw f t)
    = if rv_is_nil raw then Ok s_null else bind (export_scalar O f raw) (fun e => mrv n e).
  Proof. reflexivity. Qed.

  Lemma mrv_SS_row n r : mrv (S (S n)) (RV (CRow r)) = mrow n r.
  Proof. reflexivity. Qed.

  Lemma mrv_S_arr n l :
    mrv (S n) (RArr l)
    = bind (marshal_list (mrv n) l) (fun ss => Ok ([91] ++ join_with [44] ss ++ [93])).
  Proof. reflexivity. Qed.

  (* value.MarshalJSON of an Auto cell is json.Marshal of its raw value *)
  Lemma marshal_auto_cell n raw :
    (1 <= n)%nat -> mcell (S n) (auto_cell raw) = mrv n raw.
  Proof.
    intros Hn. unfold auto_cell. rewrite mcell_S_val. cbn [export_scalar bind].
    destruct (rv_is_nil raw) eqn:E; [|reflexivity].
    destruct raw as [g| | |]; try discriminate. destruct g; try discriminate.
    destruct n as [|n]; [lia|]. reflexivity.
  Qed.

  Fixpoint auto_parts (rec : cell -> res str) (l : list (str * rv)) : res (list str) :=
    match l with
    | [] => Ok []
    | kv :: t => bind (rec (auto_cell (snd kv))) (fun s =>
                 bind (auto_parts rec t) (fun ss => Ok ((encode_string (fst kv) ++ [58] ++ s) :: ss)))
    end.

  (* the loop of row.MarshalJSON over a row of Auto cells, listed by [ms'] *)
  Lemma marshal_row_members_auto (rec : cell -> res str) cells ms' :
    Forall (fun kv => alookup (fst kv) cells = Some (auto_cell (snd kv))) ms' ->
    marshal_row_members encode_string rec cells (map fst ms')
    = auto_parts rec ms'.
  Proof.
    induction 1 as [|kv t Hk _ IH]; [reflexivity|].
    cbn [map marshal_row_members auto_parts]. rewrite Hk. unfold auto_cell at 1. cbn [cell_format format_eqb].
    rewrite IH. reflexivity.
  Qed.

  Definition wres (o : option str) : res str :=
    match o with Some s => Ok s | None => Err ErrNoWrap end.

  Definition member_text (kv : str * jv) : option str :=
    match write_jv (snd kv) with
    | Some b => Some (encode_string (fst kv) ++ 58 :: b)
    | None => None
    end.

  (* the members of an object, once each value is known to be written as write_jv writes it *)
  Lemma members_bridge (rec : cell -> res str) (m : list (str * jv)) :
    Forall (fun kv => rec (auto_cell (rv_of_jv (snd kv))) = wres (write_jv (snd kv))) m ->
    auto_parts rec (rv_members m)
    = match opt_all (map member_text m) with Some parts => Ok parts | None => Err ErrNoWrap end.
  Proof.
    induction 1 as [|kv t Hk _ IH]; [reflexivity|].
    unfold rv_members in *. cbn [map auto_parts opt_all fst snd]. rewrite Hk, IH.
    change (member_text kv) with (match write_jv (snd kv) with
                                  | Some b => Some (encode_string (fst kv) ++ 58 :: b)
                                  | None => None end).
    destruct (write_jv (snd kv)) as [b|]; cbn [wres bind]; [|reflexivity].
    destruct (opt_all (map member_text t)) as [parts|]; reflexivity.
  Qed.

  Lemma elems_bridge (rec : rv -> res str) (l : list jv) :
    Forall (fun x => rec (rv_of_jv x) = wres (write_jv x)) l ->
    marshal_list rec (map rv_of_jv l)
    = match opt_all (map write_jv l) with Some parts => Ok parts | None => Err ErrNoWrap end.
  Proof.
    induction 1 as [|x t Hx _ IH]; [reflexivity|].
    cbn [map marshal_list opt_all]. rewrite Hx, IH.
    destruct (write_jv x) as [b|]; cbn [wres bind]; [|reflexivity].
    destruct (opt_all (map write_jv t)) as [parts|]; reflexivity.
  Qed.

  (* row.MarshalJSON of the row the reader builds for an object with distinct member names *)
  Lemma marshal_obj_row n (m : list (str * jv)) :
    NoDup (map fst m) ->
    Forall (fun kv => mrv n (rv_of_jv (snd kv)) = wres (write_jv (snd kv))) m ->
    (1 <= n)%nat ->
    mrow (S (S n)) (obj_row (rv_members m)) = wres (write_jv (JObj m)).
  Proof.
    intros Hnd Hm Hn.
    assert (Hnd' : NoDup (map fst (rv_members m))) by (unfold rv_members; rewrite map_fst_rv; exact Hnd).
    rewrite (obj_row_uniq _ Hnd'), mrow_S.
    rewrite marshal_row_members_auto.
    2:{ apply Forall_forall. intros [k v] Hin. cbn [fst snd]. apply alookup_auto_cells; assumption. }
    rewrite members_bridge.
    2:{ eapply Forall_impl; [|exact Hm]. intros kv Hkv. cbv beta in Hkv |- *.
        rewrite marshal_auto_cell by exact Hn. exact Hkv. }
    change (write_jv (JObj m)) with (match opt_all (map member_text m) with
                                     | Some parts => Some (123 :: join 44 parts ++ [125])
                                     | None => None end).
    destruct (opt_all (map member_text m)) as [parts|]; cbn [bind wres]; [|reflexivity].
    rewrite join_with_comma. reflexivity.
  Qed.

  (* 1. json.Marshal of what handledelim returns for a tree writes what write_jv writes *)
  Theorem marshal_rv_of_jv_fuel d :
    uniq_jv d -> forall n, (jfuel d <= n)%nat -> mrv n (rv_of_jv d) = wres (write_jv d).
  Proof.
    induction d using jv_ind2; intros Hu n Hn.
    - destruct n as [|n]; [cbn [jfuel] in Hn; lia|]. reflexivity.
    - destruct n as [|n]; [cbn [jfuel] in Hn; lia|]. destruct b; reflexivity.
    - destruct n as [|n]; [cbn [jfuel] in Hn; lia|]. reflexivity.
    - destruct n as [|n]; [cbn [jfuel] in Hn; lia|]. reflexivity.
    - destruct n as [|n]; [cbn [jfuel] in Hn; lia|].
      cbn [rv_of_jv]. rewrite mrv_S_arr, elems_bridge.
      + cbn [write_jv]. destruct (opt_all (map write_jv l)) as [parts|]; cbn [bind wres]; [|reflexivity].
        rewrite join_with_comma. reflexivity.
      + apply uniq_arr_Forall in Hu. apply Forall_forall. intros x Hin.
        rewrite Forall_forall in H, Hu. apply H; [exact Hin|apply Hu; exact Hin|].
        pose proof (jfuel_arr_elem l x Hin). lia.
    - apply uniq_obj_Forall in Hu as [Hnd Hu].
      assert (Hge : (4 <= n)%nat) by (cbn [jfuel] in Hn; lia).
      destruct n as [|[|[|[|n]]]]; try lia.
      cbn [rv_of_jv]. rewrite mrv_SS_row.
      fold (rv_members m).
      destruct m as [|kv0 m0].
      { reflexivity. }
      apply marshal_obj_row; [exact Hnd| |].
      + apply Forall_forall. intros kv Hin. rewrite Forall_forall in H, Hu.
        apply H; [exact Hin|apply Hu; exact Hin|].
        pose proof (jfuel_obj_member _ kv Hin). lia.
      + pose proof (jfuel_obj_member (kv0 :: m0) kv0 (in_eq _ _)). pose proof (jfuel_pos (snd kv0)). lia.
  Qed.

  Theorem marshal_rv_of_jv d n :
    uniq_jv d -> 4 * jdepth d < Z.of_nat n ->
    mrv n (rv_of_jv d) = match write_jv d with Some s => Ok s | None => Err ErrNoWrap end.
  Proof.
    intros Hu Hn. apply (marshal_rv_of_jv_fuel d Hu). pose proof (jfuel_jdepth d). lia.
  Qed.

  (* ================= 2. importer.GetRow with an empty template ================= *)

  Lemma unmarshal_members_fresh n ms : forall r,
    NoDup (map fst ms) -> (forall k, In k (map fst ms) -> alookup k (row_m r) = None) ->
    unmarshal_members O n ms r = (fold_left obj_step ms r, Ok tt).
  Proof.
    induction ms as [|[k v] ms IH]; intros r Hnd Hfr; [reflexivity|].
    cbn [map fst] in Hnd, Hfr. inversion Hnd as [|? ? Hni Hnd']; subst.
    cbn [unmarshal_members fold_left]. rewrite (Hfr k (or_introl eq_refl)).
    change (set_cell k (new_value_auto v) (push_if_absent k r)) with (obj_step r (k, v)).
    apply IH; [exact Hnd'|]. intros k' Hk'.
    rewrite obj_step_lookup_other; [apply (Hfr k'); right; exact Hk'|].
    cbn [fst]. intros ->. contradiction.
  Qed.

  Lemma clone_empty n : clone_row O n new_template = Ok new_row.
  Proof. reflexivity. Qed.

  Theorem untemplated_get_row n line m :
    parse_top line = (m, true) -> NoDup (map fst m) ->
    jl_get_row O n new_template line = Ok (obj_row (rv_members m)).
  Proof.
    intros Hp Hnd. unfold jl_get_row, get_row, create_row_empty. rewrite clone_empty. cbn [bind].
    unfold unmarshal_text, parse_top_rv. rewrite Hp. fold (rv_members m). unfold row_unmarshal.
    rewrite unmarshal_members_fresh; [reflexivity| |reflexivity].
    unfold rv_members. rewrite map_fst_rv. exact Hnd.
  Qed.

  (* ================= 3. exporter.Export with an empty template ================= *)

  (* CreateRow(row) under a template that declares none of the row's keys: every cell becomes
     NewValueAuto(Raw()) *)
  Lemma create_from_row_fresh n cells ms' : forall r,
    (1 <= n)%nat ->
    Forall (fun kv => alookup (fst kv) cells = Some (auto_cell (snd kv))) ms' ->
    NoDup (map fst ms') -> (forall k, In k (map fst ms') -> alookup k (row_m r) = None) ->
    create_from_row O n cells (map fst ms') r = Ok (fold_left obj_step ms' r).
  Proof.
    induction ms' as [|[k v] ms IH]; intros r Hn Hl Hnd Hfr; [reflexivity|].
    cbn [map fst] in Hnd, Hfr. inversion Hnd as [|? ? Hni Hnd']; subst.
    inversion Hl as [|? ? Hk Hl']; subst. cbn [fst snd] in Hk.
    cbn [map fst create_from_row fold_left]. rewrite Hk.
    destruct n as [|n]; [lia|]. unfold auto_cell at 1. cbn [cell_raw bind].
    unfold get_value. rewrite (Hfr k (or_introl eq_refl)). cbn [fill_cell bind].
    change (set_value k (Some (new_value_auto v)) r) with (obj_step r (k, v)).
    apply IH; [lia|exact Hl'|exact Hnd'|]. intros k' Hk'.
    rewrite obj_step_lookup_other; [apply (Hfr k'); right; exact Hk'|].
    cbn [fst]. intros ->. contradiction.
  Qed.

  Theorem untemplated_create_row n ms :
    (1 <= n)%nat -> NoDup (map fst ms) ->
    jl_create_row O n new_template (RV (CRow (obj_row ms))) = Ok (obj_row ms).
  Proof.
    intros Hn Hnd. unfold jl_create_row, create_row. rewrite clone_empty. cbn [bind].
    rewrite (obj_row_uniq ms Hnd) at 1.
    rewrite create_from_row_fresh; [reflexivity|exact Hn| |exact Hnd|reflexivity].
    apply Forall_forall. intros [k v] Hin. cbn [fst snd]. apply alookup_auto_cells; assumption.
  Qed.

  Theorem untemplated_export_fuel n m :
    uniq_jv (JObj m) -> (jfuel (JObj m) <= n + 2)%nat ->
    jl_export_bytes O jfloat jother n new_template (RV (CRow (obj_row (rv_members m))))
    = match write_jv (JObj m) with Some s => Ok (s ++ [10]) | None => Err ErrNoWrap end.
  Proof.
    intros Hu Hn.
    assert (Hn1 : (2 <= n)%nat) by (cbn [jfuel] in Hn; lia).
    pose proof (marshal_rv_of_jv_fuel (JObj m) Hu (S (S n)) ltac:(lia)) as Hm.
    cbn [rv_of_jv] in Hm. fold (rv_members m) in Hm.
    apply uniq_obj_Forall in Hu as [Hnd Hu].
    unfold jl_export_bytes, export_bytes. fold (jl_create_row O).
    rewrite untemplated_create_row; [|lia|unfold rv_members; rewrite map_fst_rv; exact Hnd].
    cbn [bind].
    rewrite mrv_SS_row in Hm. fold (jl_marshal_row O jfloat jother) in Hm |- *. rewrite Hm.
    destruct (write_jv (JObj m)); reflexivity.
  Qed.

  Theorem untemplated_export n m :
    uniq_jv (JObj m) -> 4 * jdepth (JObj m) <= Z.of_nat n ->
    jl_export_bytes O jfloat jother n new_template (RV (CRow (obj_row (rv_members m))))
    = match write_jv (JObj m) with Some s => Ok (s ++ [10]) | None => Err ErrNoWrap end.
  Proof.
    intros Hu Hn. apply untemplated_export_fuel; [exact Hu|]. pose proof (jfuel_jdepth (JObj m)). lia.
  Qed.

  (* ================= 4. the pipeline ================= *)

  (* any accepted line with distinct names at every depth: the pipeline writes what write_jv
     writes for the tree the reader found (or fails where write_jv fails), plus one LF *)
  Theorem untemplated_pipeline_parsed n line m :
    parse_top line = (m, true) -> uniq_jv (JObj m) -> 4 * jdepth (JObj m) <= Z.of_nat n ->
    jl_pipeline O jfloat jother n new_template new_template line
    = match write_jv (JObj m) with Some s => Ok (s ++ [10]) | None => Err ErrNoWrap end.
  Proof.
    intros Hp Hu Hn. unfold jl_pipeline, pipeline. fold (jl_get_row O).
    rewrite (untemplated_get_row n line m Hp) by (apply uniq_obj_Forall in Hu; tauto).
    cbn [bind]. fold (jl_export_bytes O jfloat jother). apply untemplated_export; assumption.
  Qed.

  (* C02 in the property's words *)
  Theorem untemplated_pipeline n b m :
    spells b (JObj m) -> uniq_jv (JObj m) -> 4 * jdepth (JObj m) <= Z.of_nat n ->
    exists out,
      write_jv (JObj m) = Some out
      /\ jl_pipeline O jfloat jother n new_template new_template b = Ok (out ++ [10])
      /\ spells out (JObj m)
      /\ ~ In 10 out
      /\ jl_pipeline O jfloat jother n new_template new_template out = Ok (out ++ [10]).
  Proof.
    intros Hs Hu Hn. destruct (roundtrip b m Hs) as (Hp & out & Hw & Hso & Hpo & _ & Hlf).
    exists out. split; [exact Hw|].
    split; [rewrite (untemplated_pipeline_parsed n b m Hp Hu Hn), Hw; reflexivity|].
    split; [exact Hso|]. split; [exact Hlf|].
    rewrite (untemplated_pipeline_parsed n out m Hpo Hu Hn), Hw. reflexivity.
  Qed.

  (* the link with the JSON-layer form row.MarshalJSON = write_row of C02_roundtrip: for members
     nested at most 10000 deep (the limit of encoding/json's compact(), which write_row models
     and the template model does not) the pipeline emits write_row of what the reader found *)
  Theorem untemplated_pipeline_write_row n b m :
    spells b (JObj m) -> uniq_jv (JObj m) -> 4 * jdepth (JObj m) <= Z.of_nat n ->
    Forall (fun kv => jdepth (snd kv) <= max_nesting) m ->
    exists out,
      write_row (fst (parse_top b)) = Some out
      /\ jl_pipeline O jfloat jother n new_template new_template b = Ok (out ++ [10]).
  Proof.
    intros Hs Hu Hn Hd. destruct (untemplated_pipeline n b m Hs Hu Hn) as (out & Hw & Hp & _).
    exists out. split; [|exact Hp].
    rewrite (parse_complete b m Hs). cbn [fst]. rewrite (write_row_shallow m Hd). exact Hw.
  Qed.
End Bridge.
