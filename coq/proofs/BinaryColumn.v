(* C11, last sentence — the binary COLUMN: importFromBinary / exportToBinary of the generated
   model JL.gen.ConvGen (pkg/jsonline/conversions_import.go:104, conversions_export.go:71) around
   the cast-level facts of JL.proofs.CastBinary, through standard padded base64
   (JL.std.GoBase64, JL.proofs.Base64Proofs), then the cell of JL.model.Row (value.go Import /
   Export). A binary column mapped to a fixed-width type accepts exactly the payloads of the
   type's size, holds the value whose little-endian image is the payload, and re-emits the
   bytes it accepted — every bit pattern, NaN payloads and signalling NaNs included: the float
   paths move the bit pattern (math.Float32frombits / Float32bits) and never go through a
   float32 <-> float64 conversion, so no Layer-0 premise on NaNs is needed.
   The generated definitions are only unfolded by name (conv_unfold, cast_unfold_top). *)
From Coq Require Import ZArith List Bool Lia.
From JL.std Require Import GoBase GoFloat GoStrconv GoTime GoVal GoBase64.
From JL.gen Require Import CastGen ConvGen.
From JL.model Require Import Row.
From JL.proofs Require Import CastTactics CastBinary Base64Proofs.
Import ListNotations.
Open Scope Z_scope.

(* ---------- the fixed-width targets of a binary column ---------- *)
Inductive fwkind :=
| FWInt (k : ikind)     (* int, int64, int32, int16, int8, uint, uint64, uint32, uint16, uint8 *)
| FWF64                 (* float64 *)
| FWF32.                (* float32 *)

(* the raw type a template hands to the column: a value of the type (JL.model.Jl rawtype table) *)
Definition fw_sample (t : fwkind) : gval :=
  match t with FWInt k => sample k | FWF64 => VF64 0 | FWF32 => VF32 0 end.

Definition fw_size (t : fwkind) : nat :=
  match t with FWInt k => size_nat k | FWF64 => 8%nat | FWF32 => 4%nat end.

(* the value whose little-endian image is [pl]: what CastBinary.decode_bytes / f64_decode /
   f32_decode prove cast.To returns on the byte slice (the floats are their bit patterns) *)
Definition fw_decode (t : fwkind) (pl : str) : gval :=
  match t with
  | FWInt k => VInt k (conv_int k (le_value pl))
  | FWF64 => VF64 (le_value pl)
  | FWF32 => VF32 (le_value pl)
  end.

(* the sentinel cast.To answers on a slice of another length (wrapped by the column) *)
Definition fw_sentinel (t : fwkind) : sentinel :=
  match t with
  | FWInt k => sentinel_of k
  | FWF64 => ErrUnableToCastToFloat64
  | FWF32 => ErrUnableToCastToFloat32
  end.

(* unfolding of the generated conversions, by name *)
Ltac conv_unfold :=
  lazy beta iota zeta delta [importFromBinary exportToBinary exportToBinary_body exportToBinary_5].

Lemma wf_mkbytes pl : bytes_ok pl -> wf_gval (VBytes (mkbytes pl)).
Proof. intros H. split; [exact H | discriminate]. Qed.

Section BinaryColumn.
  Context (O : oracles).

  (* ---------- cast level, the three families under one statement ---------- *)
  Lemma fw_cast_decode t pl :
    bytes_ok pl -> length pl = fw_size t ->
    To O (fw_sample t) (VBytes (mkbytes pl)) = Ok (fw_decode t pl).
  Proof.
    intros Hok Hl. pose proof (wf_mkbytes pl Hok) as Hwf.
    destruct t as [k| |]; cbn [fw_sample fw_decode fw_size] in *.
    - exact (decode_bytes O k (mkbytes pl) Hwf Hl).
    - exact (f64_decode O (mkbytes pl) Hwf Hl).
    - exact (f32_decode O (mkbytes pl) Hwf Hl).
  Qed.

  Lemma fw_decode_wf t pl : bytes_ok pl -> length pl = fw_size t -> wf_gval (fw_decode t pl).
  Proof.
    intros Hok Hl. pose proof (le_value_range pl Hok) as Hr. rewrite Hl in Hr.
    destruct t as [k| |]; cbn [fw_decode fw_size wf_gval] in *.
    - apply conv_int_range.
    - change (256 ^ Z.of_nat 8) with (2 ^ 64) in Hr. exact Hr.
    - change (256 ^ Z.of_nat 4) with (2 ^ 32) in Hr. exact Hr.
  Qed.

  (* the binary form of the decoded value is the payload: its little-endian image *)
  Lemma fw_cast_encode t pl :
    bytes_ok pl -> length pl = fw_size t ->
    ToBinary O (fw_decode t pl) = Ok (VBytes (mkbytes pl)).
  Proof.
    intros Hok Hl. pose proof (wf_mkbytes pl Hok) as Hwf.
    destruct t as [k| |]; cbn [fw_decode fw_size] in *.
    - destruct (encode_decode O k (mkbytes pl) Hwf Hl) as [z [Hd [_ He]]].
      rewrite (decode_bytes O k (mkbytes pl) Hwf Hl) in Hd. injection Hd as Hz.
      cbn [bdata mkbytes] in Hz, He. rewrite Hz. exact He.
    - rewrite f64_encode. rewrite <- Hl, le_bytes_value by exact Hok. reflexivity.
    - rewrite f32_encode. rewrite <- Hl, le_bytes_value by exact Hok. reflexivity.
  Qed.

  Lemma fw_cast_reject t b :
    length (bdata b) <> fw_size t -> To O (fw_sample t) (VBytes b) = Err (fw_sentinel t).
  Proof.
    intros Hl. destruct t as [k| |]; cbn [fw_sample fw_sentinel fw_size] in *.
    - exact (reject_length O k b Hl).
    - exact (f64_reject O b Hl).
    - exact (f32_reject O b Hl).
  Qed.

  (* ---------- the two conversions of the column, for any target / value ---------- *)
  (* cast.ToString on a string is the identity (cast/string.go, first arm) *)
  Lemma ToString_str s : ToString O (VStr s) = Ok (VStr s).
  Proof. cast_unfold_top. reflexivity. Qed.

  (* importFromBinary on the base64 text of a byte string is cast.To on the bytes, every error
     wrapped in ErrUnsupportedImportType (with a nil target both sides keep the bytes) *)
  Lemma import_b64 pl typ :
    bytes_ok pl ->
    importFromBinary O (VStr (base64_encode pl)) typ =
      match To O typ (VBytes (mkbytes pl)) with
      | Ok v => Ok v | Err _ => Err ErrUnsupportedImportType | Panic => Panic | Fuel => Fuel
      end.
  Proof.
    intros Hok. conv_unfold. rewrite ToString_str. cbn [as_string].
    rewrite base64_decode_encode by exact Hok. cbn [option_map].
    destruct typ; reflexivity.
  Qed.

  Lemma export_b64 v pl :
    ToBinary O v = Ok (VBytes (mkbytes pl)) ->
    exportToBinary O v = Ok (VStr (base64_encode pl)).
  Proof. intros H. conv_unfold. rewrite H. reflexivity. Qed.

  Lemma fw_decode_not_nil t pl : rv_is_nil (RS (fw_decode t pl)) = false.
  Proof. destruct t; reflexivity. Qed.

  (* ---------- (1) a well-sized payload is accepted and re-emitted ---------- *)
  Theorem column_accepts t pl :
    bytes_ok pl -> length pl = fw_size t ->
    importFromBinary O (VStr (base64_encode pl)) (fw_sample t) = Ok (fw_decode t pl)
    /\ To O (fw_sample t) (VBytes (mkbytes pl)) = Ok (fw_decode t pl)
    /\ wf_gval (fw_decode t pl)
    /\ ToBinary O (fw_decode t pl) = Ok (VBytes (mkbytes pl))
    /\ exportToBinary O (fw_decode t pl) = Ok (VStr (base64_encode pl)).
  Proof.
    intros Hok Hl.
    pose proof (fw_cast_decode t pl Hok Hl) as Hd. pose proof (fw_cast_encode t pl Hok Hl) as He.
    split; [|split; [exact Hd|split; [exact (fw_decode_wf t pl Hok Hl)|split; [exact He|]]]].
    - rewrite import_b64 by exact Hok. rewrite Hd. reflexivity.
    - exact (export_b64 _ _ He).
  Qed.

  (* ---------- (2) any other length is refused, and nothing of the payload is kept ---------- *)
  Theorem column_rejects t pl :
    bytes_ok pl -> length pl <> fw_size t ->
    To O (fw_sample t) (VBytes (mkbytes pl)) = Err (fw_sentinel t)
    /\ importFromBinary O (VStr (base64_encode pl)) (fw_sample t) = Err ErrUnsupportedImportType
    /\ forall n raw,
         value_import O n raw FBinary (fw_sample t) (RS (VStr (base64_encode pl)))
         = (CVal rnil FBinary (fw_sample t), Err ErrUnsupportedImportType).
  Proof.
    intros Hok Hl.
    assert (Hr : To O (fw_sample t) (VBytes (mkbytes pl)) = Err (fw_sentinel t))
      by (apply fw_cast_reject; exact Hl).
    assert (Hi : importFromBinary O (VStr (base64_encode pl)) (fw_sample t) = Err ErrUnsupportedImportType).
    { rewrite import_b64 by exact Hok. rewrite Hr. reflexivity. }
    split; [exact Hr|split; [exact Hi|]].
    intros n raw. unfold value_import, import_scalar. cbn [rv_is_nil to_gval].
    rewrite Hi. reflexivity.
  Qed.

  (* ---------- (3) the cell: Import of the JSON string, then Export ---------- *)
  Lemma cell_accepts t pl n raw m :
    bytes_ok pl -> length pl = fw_size t ->
    value_import O n raw FBinary (fw_sample t) (RS (VStr (base64_encode pl)))
      = (CVal (RS (fw_decode t pl)) FBinary (fw_sample t), Ok tt)
    /\ cell_export O (S m) (CVal (RS (fw_decode t pl)) FBinary (fw_sample t))
      = Ok (RS (VStr (base64_encode pl))).
  Proof.
    intros Hok Hl. destruct (column_accepts t pl Hok Hl) as (Hi & _ & _ & _ & He). split.
    - unfold value_import, import_scalar. cbn [rv_is_nil to_gval]. rewrite Hi. reflexivity.
    - cbn [cell_export]. rewrite fw_decode_not_nil. unfold export_scalar. cbn [to_gval].
      rewrite He. reflexivity.
  Qed.

  Lemma cell_rejects t pl n raw m :
    bytes_ok pl -> length pl <> fw_size t ->
    value_import O n raw FBinary (fw_sample t) (RS (VStr (base64_encode pl)))
      = (CVal rnil FBinary (fw_sample t), Err ErrUnsupportedImportType)
    /\ cell_export O (S m) (CVal rnil FBinary (fw_sample t)) = Ok rnil.
  Proof.
    intros Hok Hl. destruct (column_rejects t pl Hok Hl) as (_ & _ & Hv).
    split; [apply Hv | reflexivity].
  Qed.

  (* one statement: what the cell is after the import, what it exports, and the "iff" *)
  Theorem column_cell t pl n raw m :
    bytes_ok pl ->
    let text := RS (VStr (base64_encode pl)) in
    let typ := fw_sample t in
    let after := value_import O n raw FBinary typ text in
    (length pl = fw_size t ->
       after = (CVal (RS (fw_decode t pl)) FBinary typ, Ok tt)
       /\ cell_export O (S m) (fst after) = Ok text)
    /\ (length pl <> fw_size t ->
       after = (CVal rnil FBinary typ, Err ErrUnsupportedImportType)
       /\ cell_export O (S m) (fst after) = Ok rnil)
    /\ ((snd after = Ok tt /\ cell_export O (S m) (fst after) = Ok text) <-> length pl = fw_size t).
  Proof.
    intros Hok text typ after. subst text typ after.
    split; [|split].
    - intros Hl. destruct (cell_accepts t pl n raw m Hok Hl) as [Hv He].
      rewrite Hv. cbn [fst]. split; [reflexivity | exact He].
    - intros Hl. destruct (cell_rejects t pl n raw m Hok Hl) as [Hv He].
      rewrite Hv. cbn [fst]. split; [reflexivity | exact He].
    - split.
      + intros [Hs _]. destruct (Nat.eq_dec (length pl) (fw_size t)) as [E|E]; [exact E|].
        destruct (cell_rejects t pl n raw m Hok E) as [Hv _]. rewrite Hv in Hs. discriminate Hs.
      + intros Hl. destruct (cell_accepts t pl n raw m Hok Hl) as [Hv He].
        rewrite Hv. cbn [fst snd]. split; [reflexivity | exact He].
  Qed.

  (* the same through the Value interface of the row model: cell_import is value_import *)
  Lemma cell_import_value n raw f typ v :
    cell_import O (S n) (CVal raw f typ) v = value_import O n raw f typ v.
  Proof. reflexivity. Qed.

  (* ---------- bool: one byte, normalising ---------- *)
  Theorem column_bool :
    (forall x, is_byte x ->
       importFromBinary O (VStr (base64_encode [x])) (VBool true) = Ok (VBool (negb (x =? 0))))
    /\ (forall v, exportToBinary O (VBool v) = Ok (VStr (base64_encode [if v then 1 else 0])))
    /\ (forall pl, bytes_ok pl -> length pl <> 1%nat ->
          importFromBinary O (VStr (base64_encode pl)) (VBool true) = Err ErrUnsupportedImportType
          /\ forall n raw,
               value_import O n raw FBinary (VBool true) (RS (VStr (base64_encode pl)))
               = (CVal rnil FBinary (VBool true), Err ErrUnsupportedImportType))
    /\ (forall x n raw m, is_byte x ->
          let after := value_import O n raw FBinary (VBool true) (RS (VStr (base64_encode [x]))) in
          after = (CVal (RS (VBool (negb (x =? 0)))) FBinary (VBool true), Ok tt)
          /\ cell_export O (S m) (fst after)
             = Ok (RS (VStr (base64_encode [if negb (x =? 0) then 1 else 0])))).
  Proof.
    assert (Hin : forall x, is_byte x ->
      importFromBinary O (VStr (base64_encode [x])) (VBool true) = Ok (VBool (negb (x =? 0)))).
    { intros x Hx. rewrite import_b64 by (constructor; [assumption | constructor]).
      rewrite bool_decode. reflexivity. }
    assert (Hout : forall v, exportToBinary O (VBool v) = Ok (VStr (base64_encode [if v then 1 else 0]))).
    { intros v. apply export_b64. apply bool_encode. }
    split; [exact Hin|split; [exact Hout|split]].
    - intros pl Hok Hl.
      assert (Hi : importFromBinary O (VStr (base64_encode pl)) (VBool true) = Err ErrUnsupportedImportType).
      { rewrite import_b64 by exact Hok.
        rewrite bool_reject by exact Hl. reflexivity. }
      split; [exact Hi|]. intros n raw. unfold value_import, import_scalar. cbn [rv_is_nil to_gval].
      rewrite Hi. reflexivity.
    - intros x n raw m Hx after. subst after.
      unfold value_import, import_scalar. cbn [rv_is_nil to_gval]. rewrite (Hin x Hx).
      cbn [lift fst]. split; [reflexivity|].
      cbn [cell_export rv_is_nil]. unfold export_scalar. cbn [to_gval]. rewrite Hout. reflexivity.
  Qed.
End BinaryColumn.
