(* Bridge between the bit-pattern float operations of Layer 0 (GoFloat) and real numbers,
   through Flocq: what a passed comparison guard says about the truncated value. *)
From Coq Require Import ZArith Reals Lia Lra Bool.
From Flocq Require Import Core IEEE754.Binary IEEE754.Bits.
From Flocq Require IEEE754.BinarySingleNaN.
From JL.std Require Import GoBase GoFloat.
Open Scope Z_scope.

Section Generic.
  Variables prec emax : Z.
  Context (prec_gt_0_ : Prec_gt_0 prec).
  Context (prec_lt_emax_ : BinarySingleNaN.Prec_lt_emax prec emax).
  Notation bf := (binary_float prec emax).
  Notation B2R' := (B2R prec emax).

  Lemma Btrunc_Ztrunc (f : bf) : Btrunc prec emax f = Ztrunc (B2R' f).
  Proof.
    apply eq_IZR. rewrite Btrunc_correct by exact prec_lt_emax_.
    unfold round, F2R, scaled_mantissa, cexp, FIX_exp. simpl.
    rewrite !Rmult_1_r. reflexivity.
  Qed.

  Lemma Ztrunc_lb x a : (IZR a <= x)%R -> a <= Ztrunc x.
  Proof. intros H. rewrite <- (Ztrunc_IZR a). apply Ztrunc_le. exact H. Qed.

  Lemma Ztrunc_ub x b : (x < IZR b)%R -> 0 < b -> Ztrunc x < b.
  Proof.
    intros H Hb. destruct (Rlt_le_dec x 0) as [Hn|Hp].
    - rewrite Ztrunc_ceil by lra. assert (Zceil x <= 0) by (apply Zceil_glb; simpl; lra). lia.
    - rewrite Ztrunc_floor by exact Hp. apply lt_IZR.
      apply Rle_lt_trans with (2 := H). apply Zfloor_lb.
  Qed.

  (* a float that is >= a finite l and < a finite h is finite, and so ordered as a real *)
  Lemma ge_lt_finite (f l h : bf) :
    is_finite prec emax l = true -> is_finite prec emax h = true ->
    cmp_ge (Bcompare prec emax f l) = true -> cmp_lt (Bcompare prec emax f h) = true ->
    is_finite prec emax f = true /\ (B2R' l <= B2R' f)%R /\ (B2R' f < B2R' h)%R.
  Proof.
    intros Hl Hh Hge Hlt.
    assert (Hf : is_finite prec emax f = true).
    { destruct f as [s|s|s pl e|s m e He]; try reflexivity.
      - destruct s.
        + destruct l; try discriminate Hl; discriminate Hge.
        + destruct h; try discriminate Hh; discriminate Hlt.
      - discriminate Hge. }
    split; [exact Hf|].
    rewrite (Bcompare_correct prec emax f l Hf Hl) in Hge.
    rewrite (Bcompare_correct prec emax f h Hf Hh) in Hlt.
    unfold cmp_ge in Hge. unfold cmp_lt in Hlt.
    split.
    - destruct (Rcompare_spec (B2R' f) (B2R' l)); try discriminate Hge; lra.
    - destruct (Rcompare_spec (B2R' f) (B2R' h)); try discriminate Hlt; lra.
  Qed.

  Lemma guard_trunc (f l h : bf) (lo hi1 : Z) :
    is_finite prec emax l = true -> is_finite prec emax h = true ->
    B2R' l = IZR lo -> B2R' h = IZR hi1 -> 0 < hi1 ->
    cmp_ge (Bcompare prec emax f l) = true -> cmp_lt (Bcompare prec emax f h) = true ->
    is_finite prec emax f = true /\ lo <= Btrunc prec emax f < hi1.
  Proof.
    intros Hl Hh Rl Rh Hpos Hge Hlt.
    destruct (ge_lt_finite f l h Hl Hh Hge Hlt) as [Hf [H1 H2]].
    split; [exact Hf|]. rewrite Btrunc_Ztrunc. rewrite Rl in H1. rewrite Rh in H2.
    split; [apply Ztrunc_lb; exact H1 | apply Ztrunc_ub; assumption].
  Qed.

  (* conversely: a finite float whose value is the integer z, lo <= z < hi1, passes the guard *)
  Lemma guard_complete (f l h : bf) (z lo hi1 : Z) :
    is_finite prec emax f = true -> is_finite prec emax l = true -> is_finite prec emax h = true ->
    B2R' f = IZR z -> B2R' l = IZR lo -> B2R' h = IZR hi1 -> lo <= z < hi1 ->
    cmp_ge (Bcompare prec emax f l) = true /\ cmp_lt (Bcompare prec emax f h) = true
    /\ Btrunc prec emax f = z.
  Proof.
    intros Hf Hl Hh Rf Rl Rh Hz.
    rewrite (Bcompare_correct prec emax f l Hf Hl), (Bcompare_correct prec emax f h Hf Hh).
    rewrite Rf, Rl, Rh. split; [|split].
    - unfold cmp_ge. destruct (Rcompare_spec (IZR z) (IZR lo)) as [H|H|H]; try reflexivity.
      apply lt_IZR in H. lia.
    - unfold cmp_lt. destruct (Rcompare_spec (IZR z) (IZR hi1)) as [H|H|H]; try reflexivity.
      + apply eq_IZR in H. lia.
      + apply lt_IZR in H. lia.
    - rewrite Btrunc_Ztrunc, Rf. apply Ztrunc_IZR.
  Qed.

  Lemma B2R_of_SF (f : bf) s m e :
    B2SF prec emax f = SpecFloat.S754_finite s m e ->
    B2R' f = F2R (Float radix2 (cond_Zopp s (Zpos m)) e) /\ is_finite prec emax f = true.
  Proof. destruct f; simpl; intros H; inversion H; subst; split; reflexivity. Qed.

  Lemma B2R_of_SF_zero (f : bf) s :
    B2SF prec emax f = SpecFloat.S754_zero s -> B2R' f = 0%R /\ is_finite prec emax f = true.
  Proof. destruct f; simpl; intros H; inversion H; subst; split; reflexivity. Qed.

  Lemma F2R_int m e : 0 <= e -> F2R (Float radix2 m e) = IZR (m * 2 ^ e).
  Proof.
    intros He. unfold F2R. simpl. rewrite mult_IZR. f_equal.
    rewrite <- IZR_Zpower by exact He. reflexivity.
  Qed.

  Lemma F2R_int_neg m e : e < 0 -> m mod 2 ^ (- e) = 0 -> F2R (Float radix2 m e) = IZR (m / 2 ^ (- e)).
  Proof.
    intros He Hm. unfold F2R. simpl.
    assert (Hp : 0 < 2 ^ (- e)) by (apply Z.pow_pos_nonneg; lia).
    set (q := m / 2 ^ (- e)).
    assert (Em : m = q * 2 ^ (- e)).
    { unfold q. rewrite (Z.div_mod m (2 ^ (- e))) at 1 by lia. rewrite Hm. lia. }
    rewrite Em, mult_IZR.
    change 2 with (radix_val radix2) at 1. rewrite (IZR_Zpower radix2 (- e)) by lia.
    rewrite Rmult_assoc, <- bpow_plus.
    replace (- e + e) with 0 by lia. simpl. ring.
  Qed.

  Lemma F2R_exact m e v :
    (if 0 <=? e then m * 2 ^ e else if m mod 2 ^ (- e) =? 0 then m / 2 ^ (- e) else v + 1) = v ->
    (0 <=? e) || (m mod 2 ^ (- e) =? 0) = true ->
    F2R (Float radix2 m e) = IZR v.
  Proof.
    intros Hv Hc. destruct (Z.leb_spec 0 e) as [He|He].
    - rewrite F2R_int by exact He. rewrite Hv. reflexivity.
    - cbn [orb] in Hc. rewrite Hc in Hv. apply Z.eqb_eq in Hc.
      rewrite F2R_int_neg by assumption. rewrite Hv. reflexivity.
  Qed.
End Generic.

(* ---- instances ---- *)
Lemma b64_bits (f : binary64) : b64 (bits_of_b64 f) = f.
Proof.
  unfold b64. pose proof (bits_of_binary_float_range 52 11 eq_refl eq_refl f) as H.
  rewrite Z.mod_small by exact H. unfold b64_of_bits, bits_of_b64.
  exact (binary_float_of_bits_of_binary_float 52 11 eq_refl eq_refl eq_refl f).
Qed.

Lemma b32_bits (f : binary32) : b32 (bits_of_b32 f) = f.
Proof.
  unfold b32. pose proof (bits_of_binary_float_range 23 8 eq_refl eq_refl f) as H.
  rewrite Z.mod_small by exact H. unfold b32_of_bits, bits_of_b32.
  exact (binary_float_of_bits_of_binary_float 23 8 eq_refl eq_refl eq_refl f).
Qed.

(* the real value of an integer constant converted to a float type: computed by the kernel *)
Ltac const64 c :=
  let sf := eval vm_compute in (B2SF 53 1024 (norm64 c 0 false)) in
  lazymatch sf with
  | SpecFloat.S754_finite ?s ?m ?e =>
      let v := eval vm_compute in (if 0 <=? e then cond_Zopp s (Zpos m) * 2 ^ e else cond_Zopp s (Zpos m) / 2 ^ (- e)) in
      let H := fresh "Hc" in
      assert (H : B2R 53 1024 (norm64 c 0 false) = IZR v /\ is_finite 53 1024 (norm64 c 0 false) = true)
        by (destruct (B2R_of_SF 53 1024 (norm64 c 0 false) s m e) as [Hr Hf];
            [vm_compute; reflexivity |
             split; [rewrite Hr; apply F2R_exact; vm_compute; reflexivity | exact Hf]])
  | SpecFloat.S754_zero ?s =>
      let H := fresh "Hc" in
      assert (H : B2R 53 1024 (norm64 c 0 false) = IZR 0 /\ is_finite 53 1024 (norm64 c 0 false) = true)
        by (apply (B2R_of_SF_zero 53 1024 (norm64 c 0 false) s); vm_compute; reflexivity)
  end.

Ltac const32 c :=
  let sf := eval vm_compute in (B2SF 24 128 (norm32 c 0 false)) in
  lazymatch sf with
  | SpecFloat.S754_finite ?s ?m ?e =>
      let v := eval vm_compute in (if 0 <=? e then cond_Zopp s (Zpos m) * 2 ^ e else cond_Zopp s (Zpos m) / 2 ^ (- e)) in
      let H := fresh "Hc" in
      assert (H : B2R 24 128 (norm32 c 0 false) = IZR v /\ is_finite 24 128 (norm32 c 0 false) = true)
        by (destruct (B2R_of_SF 24 128 (norm32 c 0 false) s m e) as [Hr Hf];
            [vm_compute; reflexivity |
             split; [rewrite Hr; apply F2R_exact; vm_compute; reflexivity | exact Hf]])
  | SpecFloat.S754_zero ?s =>
      let H := fresh "Hc" in
      assert (H : B2R 24 128 (norm32 c 0 false) = IZR 0 /\ is_finite 24 128 (norm32 c 0 false) = true)
        by (apply (B2R_of_SF_zero 24 128 (norm32 c 0 false) s); vm_compute; reflexivity)
  end.

Example const64_test : True.
Proof. const64 9223372036854775807. const64 (-128). const64 0. const32 2147483647. exact I. Qed.
