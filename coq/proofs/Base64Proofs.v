(* encoding/base64.StdEncoding (JL.std.GoBase64): decoding what was encoded gives the bytes back,
   for every byte list; the encoded text is ASCII (letters, digits, '+', '/', '='), free of CR / LF.
   No axioms. *)
From Coq Require Import ZArith List Bool Lia.
From JL.std Require Import GoBase GoBase64.
Import ListNotations.
Open Scope Z_scope.

(* ---------- the alphabet ---------- *)
Lemma b64_val_char n : 0 <= n < 64 -> b64_val (b64_char n) = Some n.
Proof.
  intros Hn. unfold b64_char.
  destruct (Z.ltb_spec n 26) as [H1|H1];
    [|destruct (Z.ltb_spec n 52) as [H2|H2];
      [|destruct (Z.ltb_spec n 62) as [H3|H3];
        [|destruct (Z.eqb_spec n 62) as [H4|H4]]]];
    unfold b64_val;
    repeat match goal with
           | |- context [?a <=? ?b] => destruct (Z.leb_spec a b); try lia
           | |- context [?a =? ?b] => destruct (Z.eqb_spec a b); try lia
           end;
    cbn [andb]; f_equal; lia.
Qed.

(* letters, digits, '+' and '/': printable ASCII, never '=', CR or LF *)
Definition b64_alpha (c : Z) : Prop := 43 <= c <= 122 /\ c <> 61.

Lemma b64_char_alpha n : 0 <= n < 64 -> b64_alpha (b64_char n).
Proof.
  intros Hn. unfold b64_alpha, b64_char.
  destruct (Z.ltb_spec n 26); [lia|]. destruct (Z.ltb_spec n 52); [lia|].
  destruct (Z.ltb_spec n 62); [lia|]. destruct (Z.eqb_spec n 62); lia.
Qed.

(* ---------- the three shapes of a quantum, with the tests on '=' made explicit ---------- *)
(* case analysis of a character along the bits of '=' (61 = 0b111101): [k] closes every case
   where the character is visibly not '='; the case where it is exactly 61 is left *)
Ltac split61 c k :=
  destruct c as [|c|c]; [k | | k];
  destruct c as [c|c|]; [ | k | k];   (* bit 0 = 1 *)
  destruct c as [c|c|]; [k | | k];    (* bit 1 = 0 *)
  destruct c as [c|c|]; [ | k | k];   (* bit 2 = 1 *)
  destruct c as [c|c|]; [ | k | k];   (* bit 3 = 1 *)
  destruct c as [c|c|]; [ | k | k];   (* bit 4 = 1 *)
  destruct c as [c|c|]; [k | k | ].   (* then xH *)

Lemma quanta_pad2 c0 c1 :
  b64_quanta [c0; c1; 61; 61] =
    match b64_val c0, b64_val c1 with
    | Some a, Some b => Some [a * 4 + b / 16]
    | _, _ => None
    end.
Proof. reflexivity. Qed.

Lemma quanta_pad1 c0 c1 c2 : c2 <> 61 ->
  b64_quanta [c0; c1; c2; 61] =
    match b64_val c0, b64_val c1, b64_val c2 with
    | Some a, Some b, Some c => Some [a * 4 + b / 16; b mod 16 * 16 + c / 4]
    | _, _, _ => None
    end.
Proof. intros H2. split61 c2 ltac:(reflexivity). contradiction H2; reflexivity. Qed.

Lemma quanta_full c0 c1 c2 c3 r : c2 <> 61 -> c3 <> 61 ->
  b64_quanta (c0 :: c1 :: c2 :: c3 :: r) =
    match b64_val c0, b64_val c1, b64_val c2, b64_val c3 with
    | Some a, Some b, Some c, Some d =>
        match b64_quanta r with
        | Some t => Some ((a * 4 + b / 16) :: (b mod 16 * 16 + c / 4) :: (c mod 4 * 64 + d) :: t)
        | None => None
        end
    | _, _, _, _ => None
    end.
Proof.
  intros H2 H3.
  split61 c2 ltac:(split61 c3 ltac:(reflexivity); contradiction H3; reflexivity).
  contradiction H2; reflexivity.
Qed.

(* ---------- induction three bytes at a time ---------- *)
Lemma list_ind3 {A} (P : list A -> Prop) :
  P [] -> (forall a, P [a]) -> (forall a b, P [a; b]) ->
  (forall a b c r, P r -> P (a :: b :: c :: r)) ->
  forall l, P l.
Proof.
  intros H0 H1 H2 H3.
  assert (H : forall n l, (length l <= n)%nat -> P l).
  { induction n as [|n IH]; intros l Hl.
    - destruct l; [exact H0 | cbn in Hl; lia].
    - destruct l as [|a [|b [|c r]]]; auto. apply H3, IH. cbn in Hl. lia. }
  intros l. exact (H (length l) l (le_n _)).
Qed.

Lemma sextets a b c : is_byte a -> is_byte b -> is_byte c ->
  0 <= a / 4 < 64 /\ 0 <= a mod 4 * 16 + b / 16 < 64
  /\ 0 <= b mod 16 * 4 + c / 64 < 64 /\ 0 <= c mod 64 < 64
  /\ 0 <= a mod 4 * 16 < 64 /\ 0 <= b mod 16 * 4 < 64.
Proof. unfold is_byte. intros Ha Hb Hc. Z.div_mod_to_equations. lia. Qed.

Theorem b64_quanta_encode b : bytes_ok b -> b64_quanta (base64_encode b) = Some b.
Proof.
  unfold bytes_ok. induction b as [|x|x y|x y z r IH] using list_ind3; intros Hb.
  - reflexivity.
  - inversion Hb as [|? ? Hx _]; subst.
    destruct (sextets x x x Hx Hx Hx) as (S0 & _ & _ & _ & S4 & _).
    cbn [base64_encode]. rewrite quanta_pad2, !b64_val_char by assumption.
    do 2 f_equal. unfold is_byte in Hx. Z.div_mod_to_equations. lia.
  - inversion Hb as [|? ? Hx Hb']; subst. inversion Hb' as [|? ? Hy _]; subst.
    destruct (sextets x y y Hx Hy Hy) as (S0 & S1 & _ & _ & _ & S5).
    cbn [base64_encode].
    rewrite quanta_pad1 by (apply b64_char_alpha; assumption).
    rewrite !b64_val_char by assumption.
    unfold is_byte in Hx, Hy. do 2 f_equal; [|f_equal]; Z.div_mod_to_equations; lia.
  - inversion Hb as [|? ? Hx Hb']; subst. inversion Hb' as [|? ? Hy Hb'']; subst.
    inversion Hb'' as [|? ? Hz Hr]; subst.
    destruct (sextets x y z Hx Hy Hz) as (S0 & S1 & S2 & S3 & _ & _).
    cbn [base64_encode].
    rewrite quanta_full by (apply b64_char_alpha; assumption).
    rewrite !b64_val_char by assumption. rewrite (IH Hr).
    unfold is_byte in Hx, Hy, Hz. f_equal. f_equal; [|f_equal; [|f_equal]]; Z.div_mod_to_equations; lia.
Qed.

(* ---------- the characters of the encoded text ---------- *)
Definition b64_text_char (c : Z) : Prop := 43 <= c <= 122.

Lemma base64_encode_chars b : bytes_ok b -> Forall b64_text_char (base64_encode b).
Proof.
  unfold bytes_ok, b64_text_char. induction b as [|x|x y|x y z r IH] using list_ind3; intros Hb.
  - constructor.
  - inversion Hb as [|? ? Hx _]; subst.
    destruct (sextets x x x Hx Hx Hx) as (S0 & _ & _ & _ & S4 & _).
    cbn [base64_encode]. pose proof (b64_char_alpha _ S0) as [A0 _]. pose proof (b64_char_alpha _ S4) as [A4 _].
    repeat constructor; lia.
  - inversion Hb as [|? ? Hx Hb']; subst. inversion Hb' as [|? ? Hy _]; subst.
    destruct (sextets x y y Hx Hy Hy) as (S0 & S1 & _ & _ & _ & S5).
    cbn [base64_encode]. pose proof (b64_char_alpha _ S0) as [A0 _]. pose proof (b64_char_alpha _ S1) as [A1 _].
    pose proof (b64_char_alpha _ S5) as [A5 _]. repeat constructor; lia.
  - inversion Hb as [|? ? Hx Hb']; subst. inversion Hb' as [|? ? Hy Hb'']; subst.
    inversion Hb'' as [|? ? Hz Hr]; subst.
    destruct (sextets x y z Hx Hy Hz) as (S0 & S1 & S2 & S3 & _ & _).
    cbn [base64_encode]. pose proof (b64_char_alpha _ S0) as [A0 _]. pose proof (b64_char_alpha _ S1) as [A1 _].
    pose proof (b64_char_alpha _ S2) as [A2 _]. pose proof (b64_char_alpha _ S3) as [A3 _].
    repeat (constructor; [lia|]). exact (IH Hr).
Qed.

Lemma base64_encode_ascii b : bytes_ok b -> Forall (fun c => 0 <= c < 128) (base64_encode b).
Proof.
  intros Hb. eapply Forall_impl; [|apply base64_encode_chars; exact Hb].
  unfold b64_text_char. intros c Hc. lia.
Qed.

Lemma filter_crlf_id s : Forall b64_text_char s -> filter (fun c => negb ((c =? 10) || (c =? 13))) s = s.
Proof.
  induction 1 as [|c s Hc _ IH]; [reflexivity|]. cbn [filter]. unfold b64_text_char in Hc.
  destruct (Z.eqb_spec c 10); [lia|]. destruct (Z.eqb_spec c 13); [lia|]. cbn [orb negb]. now rewrite IH.
Qed.

(* base64.StdEncoding.DecodeString(base64.StdEncoding.EncodeToString(b)) = b *)
Theorem base64_decode_encode b : bytes_ok b -> base64_decode (base64_encode b) = Some b.
Proof.
  intros Hb. unfold base64_decode. rewrite filter_crlf_id by (apply base64_encode_chars; exact Hb).
  apply b64_quanta_encode; exact Hb.
Qed.

Example base64_roundtrip_example :
  base64_encode [0; 255; 16; 7] = [65; 80; 56; 81; 66; 119; 61; 61]          (* "AP8QBw==" *)
  /\ base64_decode [65; 80; 56; 81; 66; 119; 61; 61] = Some [0; 255; 16; 7].
Proof. split; reflexivity. Qed.

Print Assumptions base64_decode_encode.
Print Assumptions base64_encode_ascii.
