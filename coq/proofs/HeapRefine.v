(* C15 — the store model (JL.model.Heap) refines the pure model (JL.model.Row / Template),
   operation by operation: after a step the [view] of the row the step writes (or creates) is the
   result of the pure function applied to the view before, up to the representation of the
   association list ([crow_equiv]: same key list, same value under every key). Together with the
   frame theorem of HeapProofs.v (every other row keeps its view) this determines the view of
   every row after every step.
   Invariants of the world used here, all established from the empty world and kept by every
   step without explicit sharing ([hstep_good]):
     [owned]      (HeapProofs.v) ids are below [next], no two rows hold the same object
     [allocated]  every id a row holds has a content in the heap
     [unshared]   no row binds two keys to the same object
     [rows_inv]   the view of every row satisfies the row invariant [Inv] of RowProofs.v *)
From Coq Require Import ZArith List Bool Lia PeanoNat.
From JL.std Require Import GoBase GoFloat GoStrconv GoTime GoVal.
From JL.gen Require Import CastGen ConvGen.
From JL.model Require Import Row Template Heap.
From JL.proofs Require Import RowProofs HeapProofs.
Import ListNotations.

(* ---------- equality of rows up to the representation of the map ---------- *)
Definition crow_equiv (a b : crow) : Prop :=
  row_l a = row_l b /\ forall k, get_value k a = get_value k b.

Lemma equiv_refl a : crow_equiv a a.
Proof. split; auto. Qed.

Lemma equiv_sym a b : crow_equiv a b -> crow_equiv b a.
Proof. intros [H1 H2]. split; auto. Qed.

Lemma equiv_trans a b c : crow_equiv a b -> crow_equiv b c -> crow_equiv a c.
Proof. intros [H1 H2] [H3 H4]. split; [congruence | intros k; now rewrite H2]. Qed.

Lemma str_dec (a b : str) : {a = b} + {a <> b}.
Proof.
  destruct (str_eqb a b) eqn:E; [left; now apply str_eqb_eq | right].
  intros H. apply str_eqb_eq in H. congruence.
Qed.

Lemma has_get k r : row_has k r = match get_value k r with Some _ => true | None => false end.
Proof. reflexivity. Qed.

Lemma equiv_has a b k : crow_equiv a b -> row_has k a = row_has k b.
Proof. intros [_ H]. now rewrite !has_get, H. Qed.

Lemma equiv_store k c a b : crow_equiv a b -> crow_equiv (store k c a) (store k c b).
Proof.
  intros Hab. split.
  - rewrite !store_l, (equiv_has a b k Hab). destruct Hab as [-> _]. reflexivity.
  - intros k'. destruct (str_dec k k') as [<-|Hn].
    + now rewrite !get_store_same.
    + rewrite !get_store_other by exact Hn. apply Hab.
Qed.

Lemma Inv_equiv a b : crow_equiv a b -> Inv a -> Inv b.
Proof.
  intros Hab [Hnd Hin]. pose proof Hab as [Hl Hg]. split; [now rewrite <- Hl|].
  intros k. rewrite <- Hl. specialize (Hin k). fold (row_has k a) in Hin. fold (row_has k b).
  now rewrite <- (equiv_has a b k Hab).
Qed.

(* ---------- sequences of stores driven by a key list ---------- *)
(* for each key of l bound in m, store its cell: what fill_fresh / write_back do to the view *)
Definition fold_store (m : list (str * cell)) (l : list str) (acc : crow) : crow :=
  fold_left (fun a k => match alookup k m with Some c => store k c a | None => a end) l acc.

Lemma fold_store_cons m k l acc :
  fold_store m (k :: l) acc = fold_store m l (match alookup k m with Some c => store k c acc | None => acc end).
Proof. reflexivity. Qed.

Lemma fold_store_equiv m l : forall a b, crow_equiv a b -> crow_equiv (fold_store m l a) (fold_store m l b).
Proof.
  induction l as [|k l IH]; intros a b Hab; [exact Hab|]. rewrite !fold_store_cons.
  apply IH. destruct (alookup k m); [now apply equiv_store | exact Hab].
Qed.

Lemma fold_store_get_notin m k l : forall acc, ~ In k l -> get_value k (fold_store m l acc) = get_value k acc.
Proof.
  induction l as [|k0 l IH]; intros acc Hn; [reflexivity|]. rewrite fold_store_cons, IH by (intros H; apply Hn; now right).
  destruct (alookup k0 m); [|reflexivity]. apply get_store_other. intros ->. apply Hn. now left.
Qed.

Lemma fold_store_get_in m k c l : forall acc,
  In k l -> alookup k m = Some c -> get_value k (fold_store m l acc) = Some c.
Proof.
  induction l as [|k0 l IH]; intros acc Hin Hc; [destruct Hin|]. rewrite fold_store_cons.
  destruct (in_dec str_dec k l) as [Hl|Hl]; [now apply IH|].
  rewrite fold_store_get_notin by exact Hl. destruct Hin as [->|Hin]; [|contradiction].
  rewrite Hc. apply get_store_same.
Qed.

Lemma fold_store_l m l : forall acc,
  NoDup l -> (forall k, In k l -> alookup k m <> None) ->
  row_l (fold_store m l acc) = row_l acc ++ filter (fun k => negb (row_has k acc)) l.
Proof.
  induction l as [|k0 l IH]; intros acc Hnd Hb; [cbn; now rewrite app_nil_r|].
  inversion Hnd as [|? ? Hn Hnd']; subst. rewrite fold_store_cons.
  destruct (alookup k0 m) as [c0|] eqn:E; [|exfalso; apply (Hb k0); [now left | exact E]].
  rewrite IH by (auto; intros k Hk; apply Hb; now right).
  rewrite (filter_ext_in (fun k => negb (row_has k (store k0 c0 acc))) (fun k => negb (row_has k acc))).
  - rewrite store_l. cbn [filter]. destruct (row_has k0 acc); cbn [negb]; [reflexivity|].
    now rewrite <- app_assoc.
  - intros k Hk. rewrite has_store, str_eqb_neq; [reflexivity|]. intros ->. contradiction.
Qed.

Lemma filter_all_true {A} (f : A -> bool) l : (forall a, In a l -> f a = true) -> filter f l = l.
Proof.
  induction l as [|x l IH]; intros H; [reflexivity|]. cbn. rewrite (H x) by (now left).
  f_equal. apply IH. intros a Ha. apply H. now right.
Qed.

Lemma filter_all_false {A} (f : A -> bool) l : (forall a, In a l -> f a = false) -> filter f l = [].
Proof.
  induction l as [|x l IH]; intros H; [reflexivity|]. cbn. rewrite (H x) by (now left).
  apply IH. intros a Ha. apply H. now right.
Qed.

Lemma NoDup_app_disjoint {A} (a b : list A) x : NoDup (a ++ b) -> In x a -> In x b -> False.
Proof.
  induction a as [|y a IH]; cbn; intros Hnd Ha Hb; [destruct Ha|].
  inversion Hnd as [|? ? Hy Hnd']; subst. destruct Ha as [->|Ha]; [|now apply IH].
  apply Hy, in_or_app. now right.
Qed.

Lemma Inv_bound r k : Inv r -> In k (row_l r) -> exists c, alookup k (row_m r) = Some c.
Proof.
  intros [_ Hin] Hk. apply Hin in Hk. unfold ahas in Hk. destruct (alookup k (row_m r)) as [c|]; [eauto | discriminate].
Qed.

Lemma Inv_unbound r k : Inv r -> ~ In k (row_l r) -> alookup k (row_m r) = None.
Proof.
  intros [_ Hin] Hk. destruct (alookup k (row_m r)) as [c|] eqn:E; [|reflexivity].
  exfalso. apply Hk, Hin. unfold ahas. now rewrite E.
Qed.

(* filling an empty row key by key rebuilds the row *)
Lemma fold_store_new r : Inv r -> crow_equiv (fold_store (row_m r) (row_l r) new_row) r.
Proof.
  intros Hi. split.
  - rewrite fold_store_l.
    + cbn [row_l new_row app]. apply filter_all_true. reflexivity.
    + apply Hi.
    + intros k Hk. destruct (Inv_bound r k Hi Hk) as [c ->]. discriminate.
  - intros k. destruct (in_dec str_dec k (row_l r)) as [Hk|Hk].
    + destruct (Inv_bound r k Hi Hk) as [c Hc]. rewrite (fold_store_get_in _ k c) by assumption.
      unfold get_value. now rewrite Hc.
    + rewrite fold_store_get_notin by exact Hk. unfold get_value at 2. now rewrite Inv_unbound.
Qed.

(* writing back a result reached by stores rebuilds it *)
Lemma fold_store_stores v r' : Inv v -> stores v r' -> crow_equiv (fold_store (row_m r') (row_l r') v) r'.
Proof.
  intros Hv Hs. assert (Hr : Inv r') by (eapply Inv_stores; eauto).
  destruct (stores_prefix v r' Hs) as [ext Hext]. split.
  - rewrite fold_store_l.
    + rewrite Hext, filter_app, filter_all_false, filter_all_true; [reflexivity| |].
      * intros k Hk. destruct (row_has k v) eqn:E; [|reflexivity]. exfalso.
        apply (NoDup_app_disjoint (row_l v) ext k); [rewrite <- Hext; apply Hr | apply Hv, E | exact Hk].
      * intros k Hk. apply Hv in Hk. unfold row_has. now rewrite Hk.
    + apply Hr.
    + intros k Hk. destruct (Inv_bound r' k Hr Hk) as [c ->]. discriminate.
  - intros k. destruct (in_dec str_dec k (row_l r')) as [Hk|Hk].
    + destruct (Inv_bound r' k Hr Hk) as [c Hc]. rewrite (fold_store_get_in _ k c) by assumption.
      unfold get_value. now rewrite Hc.
    + rewrite fold_store_get_notin by exact Hk. unfold get_value. rewrite (Inv_unbound r' k Hr Hk).
      apply Inv_unbound; [exact Hv|]. intros H. apply Hk. rewrite Hext. apply in_or_app. now left.
Qed.

(* ---------- invariants of the world ---------- *)
Definition allocated (W : world) : Prop :=
  forall rid r i, nth_error (rows W) rid = Some r -> In i (ids_of r) -> hget (heap W) i <> None.

Definition unshared (W : world) : Prop :=
  forall rid r, nth_error (rows W) rid = Some r -> NoDup (ids_of r).

Definition sound (W : world) : Prop := owned W /\ allocated W /\ unshared W.

Definition rows_inv (W : world) : Prop := forall x v, view W x = Some v -> Inv v.

Definition good (W : world) : Prop := sound W /\ rows_inv W.

Lemma sound_empty : sound empty_world.
Proof.
  split; [apply owned_empty|]. split.
  - intros rid r i H. destruct rid; discriminate.
  - intros rid r H. destruct rid; discriminate.
Qed.

Lemma good_empty : good empty_world.
Proof. split; [apply sound_empty|]. intros x v H. destruct x; discriminate. Qed.

(* ---------- the view of a row through its ids ---------- *)
Definition row_alloc (h : list (vid * cell)) (r : hrow) : Prop := forall i, In i (ids_of r) -> hget h i <> None.

Lemma view_lookup h r k : row_alloc h r ->
  get_value k (view_row h r) = match alookup k (hm r) with Some i => hget h i | None => None end.
Proof.
  unfold row_alloc, get_value, view_row, ids_of. cbn [row_m]. induction (hm r) as [|[k' i] m IH]; intros Ha; [reflexivity|].
  cbn [flat_map fst snd alookup]. destruct (hget h i) as [c|] eqn:E; [|exfalso; apply (Ha i); [now left | exact E]].
  cbn [app alookup]. destruct (str_eqb k k'); [now rewrite E|]. apply IH. intros j Hj. apply Ha. now right.
Qed.

Lemma view_has h r k : row_alloc h r -> row_has k (view_row h r) = ahas k (hm r).
Proof.
  intros Ha. rewrite has_get, view_lookup by exact Ha. unfold ahas.
  destruct (alookup k (hm r)) as [i|] eqn:E; [|reflexivity].
  destruct (hget h i) eqn:Ei; [reflexivity|]. exfalso. apply (Ha i); [|exact Ei]. unfold ids_of. eapply alookup_ids; eauto.
Qed.

Lemma view_l h r : row_l (view_row h r) = hl r.
Proof. reflexivity. Qed.

Lemma NoDup_ids_aset k (i : vid) (m : list (str * vid)) :
  NoDup (map snd m) -> ~ In i (map snd m) -> NoDup (map snd (aset k i m)).
Proof.
  induction m as [|[k' v'] m IH]; cbn [aset map snd]; intros Hnd Hn; [constructor; auto; constructor|].
  inversion Hnd as [|? ? Hv Hnd']; subst. destruct (str_eqb k k'); cbn [map snd].
  - constructor; [|exact Hnd']. intros H. apply Hn. now right.
  - constructor.
    + intros H. apply ids_aset in H as [->|H]; [apply Hn; now left | contradiction].
    + apply IH; [exact Hnd'|]. intros H. apply Hn. now right.
Qed.

Lemma alookup_inj (m : list (str * vid)) k k' i :
  NoDup (map snd m) -> alookup k m = Some i -> alookup k' m = Some i -> k = k'.
Proof.
  induction m as [|[k0 i0] m IH]; cbn [alookup map snd]; [discriminate|]. intros Hnd.
  inversion Hnd as [|? ? Hn Hnd']; subst.
  destruct (str_eqb k k0) eqn:E1; destruct (str_eqb k' k0) eqn:E2.
  - apply str_eqb_eq in E1, E2. congruence.
  - intros [= ->] H. exfalso. apply Hn. eapply alookup_ids; eauto.
  - intros H [= ->]. exfalso. apply Hn. eapply alookup_ids; eauto.
  - now apply IH.
Qed.

Lemma hget_hset_alloc h i j c : hget h j <> None -> hget (hset h i c) j <> None.
Proof.
  intros H. destruct (Nat.eq_dec j i) as [->|Hn]; [rewrite hget_hset_same; discriminate | now rewrite hget_hset_other].
Qed.

Lemma nth_error_snoc {A} (l : list A) x n y :
  nth_error (l ++ [x]) n = Some y -> nth_error l n = Some y \/ (n = length l /\ y = x).
Proof.
  intros H. destruct (Nat.lt_ge_cases n (length l)) as [Hl|Hl].
  - rewrite nth_error_app1 in H by exact Hl. now left.
  - rewrite nth_error_app2 in H by exact Hl. destruct (n - length l)%nat as [|d] eqn:E; cbn in H.
    + injection H as <-. right. split; [lia | reflexivity].
    + destruct d; discriminate.
Qed.

(* ---------- the primitive effects keep the invariants ---------- *)
Lemma store_fresh_sound W rid k c : sound W -> sound (store_fresh W rid k c).
Proof.
  intros [Ho [Ha Hu]]. split; [now apply store_fresh_owned|]. pose proof Ho as [Hlt _].
  unfold store_fresh, get_row_h. destruct (nth_error (rows W) rid) as [r|] eqn:E; [|split; assumption].
  assert (Hrid : (rid < length (rows W))%nat) by (apply nth_error_Some; congruence).
  split.
  - intros x rx i Hx Hi. cbn [rows heap] in *. destruct (Nat.eq_dec rid x) as [<-|Hd].
    + rewrite nth_set_nth_same in Hx by exact Hrid. injection Hx as <-. unfold ids_of in Hi. cbn [hm] in Hi.
      apply ids_aset in Hi as [->|Hi]; [rewrite hget_hset_same; discriminate|].
      apply hget_hset_alloc. eapply Ha; eauto.
    + rewrite nth_set_nth_other in Hx by exact Hd. apply hget_hset_alloc. eapply Ha; eauto.
  - intros x rx Hx. cbn [rows] in Hx. destruct (Nat.eq_dec rid x) as [<-|Hd].
    + rewrite nth_set_nth_same in Hx by exact Hrid. injection Hx as <-. unfold ids_of. cbn [hm].
      apply NoDup_ids_aset; [exact (Hu rid r E)|]. intros Hi. specialize (Hlt rid r (next W) E Hi). lia.
    + rewrite nth_set_nth_other in Hx by exact Hd. eapply Hu; eauto.
Qed.

Lemma mutate_sound W rid k c : sound W -> sound (mutate W rid k c).
Proof.
  intros [Ho [Ha Hu]]. split; [now apply mutate_owned|].
  unfold mutate, get_row_h. destruct (nth_error (rows W) rid) as [r|] eqn:E; [|split; assumption].
  destruct (alookup k (hm r)) as [i|]; [|split; assumption]. split.
  - intros x rx j Hx Hj. cbn [rows heap] in *. apply hget_hset_alloc. eapply Ha; eauto.
  - exact Hu.
Qed.

Lemma alloc_row_sound W : sound W -> sound (alloc_row W).
Proof.
  intros [Ho [Ha Hu]]. split; [now apply alloc_row_owned|]. unfold alloc_row. split.
  - intros x rx i Hx Hi. cbn [rows heap] in *. apply nth_error_snoc in Hx as [Hx|[_ ->]]; [eapply Ha; eauto | destruct Hi].
  - intros x rx Hx. cbn [rows] in Hx. apply nth_error_snoc in Hx as [Hx|[_ ->]]; [eapply Hu; eauto | constructor].
Qed.

(* ---------- the primitive effects on the view of the target ---------- *)
Lemma view_inv W rid v : view W rid = Some v -> exists r, nth_error (rows W) rid = Some r /\ v = view_row (heap W) r.
Proof.
  unfold view, get_row_h. destruct (nth_error (rows W) rid) as [r|]; [|discriminate]. intros [= <-]. eauto.
Qed.

(* binding a key to a new object is the pure store *)
Theorem store_fresh_refines W rid k c v :
  sound W -> view W rid = Some v ->
  exists v', view (store_fresh W rid k c) rid = Some v' /\ crow_equiv v' (store k c v).
Proof.
  intros [[Hlt _] [Ha _]] Hv. apply view_inv in Hv as [r [E ->]].
  assert (Hrid : (rid < length (rows W))%nat) by (apply nth_error_Some; congruence).
  assert (Har : row_alloc (heap W) r) by (intros i Hi; eapply Ha; eauto).
  unfold store_fresh, view, get_row_h. rewrite E. cbn [rows heap]. rewrite nth_set_nth_same by exact Hrid.
  eexists. split; [reflexivity|].
  set (r' := MkH (aset k (next W) (hm r)) (if ahas k (hm r) then hl r else hl r ++ [k])).
  assert (Har' : row_alloc (hset (heap W) (next W) c) r').
  { intros i Hi. unfold ids_of, r' in Hi. cbn [hm] in Hi. apply ids_aset in Hi as [->|Hi];
      [rewrite hget_hset_same; discriminate | now apply hget_hset_alloc, Har]. }
  split.
  - rewrite store_l, view_has, !view_l by exact Har. reflexivity.
  - intros k'. rewrite view_lookup by exact Har'. unfold r'. cbn [hm]. destruct (str_dec k k') as [<-|Hn].
    + now rewrite alookup_aset_same, hget_hset_same, get_store_same.
    + rewrite alookup_aset_other, get_store_other, view_lookup by assumption.
      destruct (alookup k' (hm r)) as [j|] eqn:Ej; [|reflexivity]. apply hget_hset_other.
      assert (j < next W)%nat; [|lia]. apply (Hlt rid r j E). unfold ids_of. eapply alookup_ids; eauto.
Qed.

(* overwriting in place the object bound to a key the row has is the pure store too (which
   for an existing key is set_cell: the key list is untouched) *)
Theorem mutate_refines W rid k c v :
  sound W -> view W rid = Some v -> row_has k v = true ->
  exists v', view (mutate W rid k c) rid = Some v' /\ crow_equiv v' (store k c v).
Proof.
  intros [_ [Ha Hu]] Hv Hk. apply view_inv in Hv as [r [E ->]].
  assert (Har : row_alloc (heap W) r) by (intros i Hi; eapply Ha; eauto).
  rewrite view_has in Hk by exact Har. unfold ahas in Hk.
  destruct (alookup k (hm r)) as [i|] eqn:Ei; [|discriminate].
  unfold mutate, view, get_row_h. rewrite E, Ei. cbn [rows heap]. rewrite E.
  eexists. split; [reflexivity|].
  assert (Har' : row_alloc (hset (heap W) i c) r) by (intros j Hj; now apply hget_hset_alloc, Har).
  split.
  - rewrite store_l, view_has, !view_l by exact Har. unfold ahas. now rewrite Ei.
  - intros k'. rewrite view_lookup by exact Har'. destruct (str_dec k k') as [<-|Hn].
    + now rewrite Ei, hget_hset_same, get_store_same.
    + rewrite get_store_other, view_lookup by assumption.
      destruct (alookup k' (hm r)) as [j|] eqn:Ej; [|reflexivity]. apply hget_hset_other.
      intros ->. apply Hn. eapply alookup_inj; [exact (Hu rid r E) | exact Ei | exact Ej].
Qed.

Lemma mutate_refines_set_cell W rid k c v :
  sound W -> view W rid = Some v -> row_has k v = true ->
  exists v', view (mutate W rid k c) rid = Some v' /\ crow_equiv v' (set_cell k c v).
Proof. intros Hs Hv Hk. rewrite (set_cell_existing k c v Hk). now apply mutate_refines. Qed.

(* overwriting a key the row does not have changes nothing *)
Lemma mutate_unbound W rid k c v :
  sound W -> view W rid = Some v -> row_has k v = false -> mutate W rid k c = W.
Proof.
  intros [_ [Ha _]] Hv Hk. apply view_inv in Hv as [r [E ->]].
  assert (Har : row_alloc (heap W) r) by (intros i Hi; eapply Ha; eauto).
  rewrite view_has in Hk by exact Har. unfold ahas in Hk. unfold mutate, get_row_h. rewrite E.
  destruct (alookup k (hm r)); [discriminate | reflexivity].
Qed.

Lemma store_fresh_norow W rid k c : view W rid = None -> store_fresh W rid k c = W.
Proof. unfold view, store_fresh. destruct (get_row_h W rid); [discriminate | reflexivity]. Qed.

Lemma mutate_norow W rid k c : view W rid = None -> mutate W rid k c = W.
Proof. unfold view, mutate. destruct (get_row_h W rid); [discriminate | reflexivity]. Qed.

(* ---------- the primitive effects keep the row invariant of every view ---------- *)
Lemma store_fresh_good W rid k c : good W -> good (store_fresh W rid k c).
Proof.
  intros [Hs Hi]. split; [now apply store_fresh_sound|]. intros x v' Hx.
  destruct (Nat.eq_dec x rid) as [->|Hd].
  - destruct (view W rid) as [v|] eqn:Ev; [|rewrite store_fresh_norow in Hx by exact Ev; congruence].
    destruct (store_fresh_refines W rid k c v Hs Ev) as [v2 [H1 H2]]. rewrite H1 in Hx. injection Hx as ->.
    eapply Inv_equiv; [apply equiv_sym, H2 | apply Inv_store, (Hi rid v Ev)].
  - rewrite store_fresh_frame in Hx by (auto; apply Hs). eapply Hi; eauto.
Qed.

Lemma mutate_good W rid k c : good W -> good (mutate W rid k c).
Proof.
  intros [Hs Hi]. split; [now apply mutate_sound|]. intros x v' Hx.
  destruct (Nat.eq_dec x rid) as [->|Hd].
  - destruct (view W rid) as [v|] eqn:Ev; [|rewrite mutate_norow in Hx by exact Ev; congruence].
    destruct (row_has k v) eqn:Ek; [|rewrite (mutate_unbound W rid k c v Hs Ev Ek) in Hx; eapply Hi; eauto].
    destruct (mutate_refines W rid k c v Hs Ev Ek) as [v2 [H1 H2]]. rewrite H1 in Hx. injection Hx as ->.
    eapply Inv_equiv; [apply equiv_sym, H2 | apply Inv_store, (Hi rid v Ev)].
  - rewrite mutate_frame in Hx by (auto; apply Hs). eapply Hi; eauto.
Qed.

Lemma alloc_row_view_new W : view (alloc_row W) (length (rows W)) = Some new_row.
Proof.
  unfold view, get_row_h, alloc_row. cbn [rows heap]. rewrite nth_error_app2 by lia.
  rewrite Nat.sub_diag. reflexivity.
Qed.

Lemma alloc_row_view_beyond W x : (x > length (rows W))%nat -> view (alloc_row W) x = None.
Proof.
  intros H. unfold view, get_row_h, alloc_row. cbn [rows heap].
  assert (E : nth_error (rows W ++ [MkH [] []]) x = None) by (apply nth_error_None; rewrite app_length; cbn; lia).
  now rewrite E.
Qed.

Lemma alloc_row_good W : good W -> good (alloc_row W).
Proof.
  intros [Hs Hi]. split; [now apply alloc_row_sound|]. intros x v Hx.
  destruct (Nat.lt_total x (length (rows W))) as [Hl|[->|Hl]].
  - rewrite alloc_row_frame in Hx by exact Hl. eapply Hi; eauto.
  - rewrite alloc_row_view_new in Hx. injection Hx as <-. apply Inv_new.
  - rewrite alloc_row_view_beyond in Hx by exact Hl. discriminate.
Qed.

(* ---------- folds of primitives ---------- *)
Lemma fill_fresh_good m : forall l W rid, good W -> good (fill_fresh W rid m l).
Proof.
  induction l as [|k l IH]; intros W rid Hg; cbn [fill_fresh]; [exact Hg|].
  destruct (alookup k m); apply IH; [now apply store_fresh_good | exact Hg].
Qed.

Lemma fill_fresh_refines rid m : forall l W v,
  sound W -> view W rid = Some v ->
  exists v', view (fill_fresh W rid m l) rid = Some v' /\ crow_equiv v' (fold_store m l v).
Proof.
  induction l as [|k l IH]; intros W v Hs Hv; cbn [fill_fresh]; [exists v; split; [exact Hv | apply equiv_refl]|].
  rewrite fold_store_cons. destruct (alookup k m) as [c|]; [|now apply IH].
  destruct (store_fresh_refines W rid k c v Hs Hv) as [v1 [H1 H2]].
  destruct (IH _ v1 (store_fresh_sound W rid k c Hs) H1) as [v' [H3 H4]].
  exists v'. split; [exact H3|]. eapply equiv_trans; [exact H4 | now apply fold_store_equiv].
Qed.

Lemma alloc_row_rows_length W : length (rows (alloc_row W)) = S (length (rows W)).
Proof. unfold alloc_row. cbn [rows]. rewrite app_length. cbn. lia. Qed.

(* the row created from a pure row IS that row *)
Theorem new_row_from_refines W r :
  sound W -> Inv r ->
  exists v', view (new_row_from W r) (length (rows W)) = Some v' /\ crow_equiv v' r.
Proof.
  intros Hs Hi. unfold new_row_from.
  destruct (fill_fresh_refines (length (rows W)) (row_m r) (row_l r) (alloc_row W) new_row
              (alloc_row_sound W Hs) (alloc_row_view_new W)) as [v' [H1 H2]].
  exists v'. split; [exact H1|]. eapply equiv_trans; [exact H2 | now apply fold_store_new].
Qed.

Lemma new_row_from_good W r : good W -> good (new_row_from W r).
Proof. intros Hg. unfold new_row_from. now apply fill_fresh_good, alloc_row_good. Qed.

Lemma write_back_good inplace old m : forall l W rid, good W -> good (write_back inplace W rid old m l).
Proof.
  induction l as [|k l IH]; intros W rid Hg; cbn [write_back]; [exact Hg|].
  destruct (alookup k m); [|now apply IH]. apply IH.
  destruct (alookup k (row_m old)); [destruct (inplace k)|]; auto using mutate_good, store_fresh_good.
Qed.

(* writing a pure result back over the target, whichever keys are overwritten in place *)
Lemma write_back_refines inplace rid old m : forall l W v,
  sound W -> view W rid = Some v -> (forall k, row_has k old = true -> row_has k v = true) ->
  exists v', view (write_back inplace W rid old m l) rid = Some v' /\ crow_equiv v' (fold_store m l v).
Proof.
  induction l as [|k l IH]; intros W v Hs Hv Hold; cbn [write_back]; [exists v; split; [exact Hv | apply equiv_refl]|].
  rewrite fold_store_cons. destruct (alookup k m) as [c|]; [|now apply IH].
  match goal with |- context [write_back inplace ?W0 rid old m l] => set (W' := W0) end.
  assert (H : sound W' /\ exists v1, view W' rid = Some v1 /\ crow_equiv v1 (store k c v)).
  { unfold W'. destruct (alookup k (row_m old)) as [c0|] eqn:E; [destruct (inplace k)|].
    - split; [now apply mutate_sound|]. apply mutate_refines; auto. apply Hold. unfold row_has, ahas. now rewrite E.
    - split; [now apply store_fresh_sound | now apply store_fresh_refines].
    - split; [now apply store_fresh_sound | now apply store_fresh_refines]. }
  destruct H as [Hs' [v1 [H1 H2]]].
  destruct (IH W' v1 Hs' H1) as [v' [H3 H4]].
  - intros k' Hk'. rewrite (equiv_has _ _ k' H2), has_store, (Hold k' Hk'). apply orb_true_r.
  - exists v'. split; [exact H3|]. eapply equiv_trans; [exact H4 | now apply fold_store_equiv].
Qed.

(* ---------- the operations ---------- *)
Lemma store_same_equiv k c v : get_value k v = Some c -> crow_equiv (store k c v) v.
Proof.
  intros Hg. split.
  - rewrite store_l, has_get, Hg. reflexivity.
  - intros k'. destruct (str_dec k k') as [<-|Hn]; [now rewrite get_store_same | now apply get_store_other].
Qed.

Lemma get_alookup k r : alookup k (row_m r) = get_value k r.
Proof. reflexivity. Qed.

Section Refine.
  Context (O : oracles) (parse_top : str -> list (str * rv) * bool).

  (* --- the pure results satisfy the row invariant --- *)
  Lemma unmarshal_text_stores n text r : stores r (fst (unmarshal_text O parse_top n text r)).
  Proof. unfold unmarshal_text. destruct (parse_top text) as [ms ok]. apply row_unmarshal_stores. Qed.

  Lemma create_from_arr_stores vals : forall i r r', create_from_arr O i vals r = Ok r' -> stores r r'.
  Proof.
    induction vals as [|x rest IH]; intros i r r'; cbn [create_from_arr]; [intros [= <-]; apply st_refl|].
    destruct (fill_cell O (get_value_at_index i r) x) as [c| | |]; cbn [bind]; try discriminate.
    unfold set_value_at_index. rewrite set_value_store. intros H. eapply st_step, IH, H.
  Qed.

  Lemma create_from_map_stores kvs : forall r r', create_from_map O kvs r = Ok r' -> stores r r'.
  Proof.
    induction kvs as [|[k x] rest IH]; intros r r'; cbn [create_from_map]; [intros [= <-]; apply st_refl|].
    destruct (fill_cell O (get_value k r) x) as [c| | |]; cbn [bind]; try discriminate.
    rewrite set_value_store. intros H. eapply st_step, IH, H.
  Qed.

  Lemma create_from_row_stores n m2 l2 : forall r r', create_from_row O n m2 l2 r = Ok r' -> stores r r'.
  Proof.
    induction l2 as [|k rest IH]; intros r r'; cbn [create_from_row]; [intros [= <-]; apply st_refl|].
    destruct (alookup k m2) as [c2|]; [|discriminate].
    destruct (cell_raw n c2) as [raw| | |]; cbn [bind]; try discriminate.
    destruct (fill_cell O (get_value k r) raw) as [c| | |]; cbn [bind]; try discriminate.
    rewrite set_value_store. intros H. eapply st_step, IH, H.
  Qed.

  Lemma create_row_Inv n t v r : Inv t -> create_row O parse_top n t v = Ok r -> Inv r.
  Proof.
    intros Hi. unfold create_row. destruct (clone_row O n t) as [res| | |] eqn:Ec; cbn [bind]; try discriminate.
    apply clone_row_spec in Ec as [Hres _]; [|exact Hi]. intros H.
    assert (Hs : stores res r); [|eapply Inv_stores; eauto].
    destruct v as [g|vals|kvs|c].
    - destruct g; try discriminate.
      + pose proof (unmarshal_text_stores n s res) as Hu.
        destruct (unmarshal_text O parse_top n s res) as [r' e]. destruct e as [[]| | |]; cbn [bind] in H; try discriminate.
        injection H as <-. exact Hu.
      + pose proof (unmarshal_text_stores n (bdata b) res) as Hu.
        destruct (unmarshal_text O parse_top n (bdata b) res) as [r' e]. destruct e as [[]| | |]; cbn [bind] in H; try discriminate.
        injection H as <-. exact Hu.
    - eapply create_from_arr_stores, H.
    - eapply create_from_map_stores, H.
    - destruct c as [raw f ty|[m2 l2]]; [discriminate|]. eapply create_from_row_stores, H.
  Qed.

  Lemma import_at_key_store n k x v : exists c, fst (import_at_key O (S n) k x v) = store k c v.
  Proof.
    rewrite import_at_key_S. cbv zeta. destruct (alookup k (row_m v)) as [c0|].
    - destruct (cell_import O n c0 x) as [c' e]. exists c'. reflexivity.
    - destruct (as_value x) as [c|]; eexists; reflexivity.
  Qed.

  Lemma import_at_keys_head n k rest x v r' e :
    import_at_keys O n (k :: rest) x v = Some (r', e) -> exists c, r' = set_cell k c v /\ row_has k v = true.
  Proof.
    cbn [import_at_keys]. rewrite has_get. destruct rest as [|k2 rest].
    - destruct (get_value k v) as [c0|]; [|discriminate].
      destruct (cell_import O n c0 x) as [c' e']. intros [= <- <-]. eauto.
    - destruct (get_value k v) as [[raw f t|sub]|]; [| |discriminate].
      + destruct raw as [g|l0|m0|[raw' f' t'|sub]]; try discriminate.
        destruct (import_at_keys O n (k2 :: rest) x sub) as [[sub' e']|]; [|discriminate].
        intros [= <- <-]. eauto.
      + destruct (import_at_keys O n (k2 :: rest) x sub) as [[sub' e']|]; [|discriminate].
        intros [= <- <-]. eauto.
  Qed.

  Notation hs := (hstep O parse_top).

  (* --- one theorem per operation: the view of the row written (or created) after the step is
         the pure function applied to the view before --- *)
  Theorem refines_HNewTemplate W : view (hs W HNewTemplate) (length (rows W)) = Some new_row.
  Proof. apply alloc_row_view_new. Qed.

  Theorem refines_HWith W t name f typ v :
    sound W -> view W t = Some v ->
    exists v', view (hs W (HWith t name f typ)) t = Some v' /\ crow_equiv v' (with_col name f typ v).
  Proof.
    intros Hs Hv. cbn [hstep]. change (with_col name f typ v) with (store name (CVal rnil f typ) v).
    now apply store_fresh_refines.
  Qed.

  Theorem refines_HWithRow W t name sub v sv t' :
    sound W -> view W t = Some v -> view W sub = Some sv -> with_row O FUELH name sv v = Ok t' ->
    exists v', view (hs W (HWithRow t name sub)) t = Some v' /\ crow_equiv v' t'.
  Proof.
    intros Hs Hv Hsub Hw. cbn [hstep]. rewrite Hsub. unfold with_row, create_row_empty in Hw.
    destruct (clone_row O FUELH sv) as [r| | |]; cbn [bind] in Hw; try discriminate. injection Hw as <-.
    change (set_value name (Some (CRow r)) v) with (store name (CRow r) v). now apply store_fresh_refines.
  Qed.

  Theorem refines_HCreateEmpty W t tv r :
    sound W -> view W t = Some tv -> Inv tv -> clone_row O FUELH tv = Ok r ->
    exists v', view (hs W (HCreateEmpty t)) (length (rows W)) = Some v' /\ crow_equiv v' r.
  Proof.
    intros Hs Hv Hi Hc. cbn [hstep]. rewrite Hv, Hc. apply new_row_from_refines; [exact Hs|].
    now apply clone_row_spec in Hc as [? _].
  Qed.

  Theorem refines_HCreate W t input tv r :
    sound W -> view W t = Some tv -> Inv tv -> create_row O parse_top FUELH tv input = Ok r ->
    exists v', view (hs W (HCreate t input)) (length (rows W)) = Some v' /\ crow_equiv v' r.
  Proof.
    intros Hs Hv Hi Hc. cbn [hstep]. rewrite Hv, Hc. apply new_row_from_refines; [exact Hs|].
    eapply create_row_Inv; eauto.
  Qed.

  Theorem refines_HCreateFromRow W t src tv sv r :
    sound W -> view W t = Some tv -> view W src = Some sv -> Inv tv ->
    create_row O parse_top FUELH tv (RV (CRow sv)) = Ok r ->
    exists v', view (hs W (HCreateFromRow t src)) (length (rows W)) = Some v' /\ crow_equiv v' r.
  Proof.
    intros Hs Hv Hsv Hi Hc. cbn [hstep]. rewrite Hv, Hsv, Hc. apply new_row_from_refines; [exact Hs|].
    eapply create_row_Inv; eauto.
  Qed.

  Theorem refines_HSet W r k x v r' :
    sound W -> view W r = Some v -> row_set O k x v = Ok r' ->
    exists v', view (hs W (HSet r k x)) r = Some v' /\ crow_equiv v' r'.
  Proof.
    intros Hs Hv Hr. cbn [hstep]. rewrite Hv, Hr. apply row_set_stores in Hr as [c ->].
    rewrite get_alookup, get_store_same. now apply store_fresh_refines.
  Qed.

  Theorem refines_HImportAtKey W r k x v :
    sound W -> view W r = Some v ->
    exists v', view (hs W (HImportAtKey r k x)) r = Some v'
               /\ crow_equiv v' (fst (import_at_key O FUELH k x v)).
  Proof.
    intros Hs Hv. cbn [hstep]. rewrite Hv.
    destruct (import_at_key_store 47 k x v) as [c Hc]. change (S 47) with FUELH in Hc.
    destruct (import_at_key O FUELH k x v) as [r' e]. cbn [fst] in *. subst r'.
    rewrite get_alookup, get_store_same. destruct (ahas k (row_m v)) eqn:Eh.
    - now apply mutate_refines.
    - now apply store_fresh_refines.
  Qed.

  Theorem refines_HImportAtPath W r p x v :
    sound W -> view W r = Some v ->
    exists v', view (hs W (HImportAtPath r p x)) r = Some v'
               /\ crow_equiv v' (fst (import_at_path O FUELH p x v)).
  Proof.
    intros Hs Hv. cbn [hstep]. rewrite Hv. unfold import_at_path.
    destruct (split_dot p) as [|k ks].
    - cbn [import_at_keys fst]. exists v. split; [exact Hv | apply equiv_refl].
    - destruct (import_at_keys O FUELH (k :: ks) x v) as [[r' e]|] eqn:Ek; cbn [fst].
      + apply import_at_keys_head in Ek as [c [-> Hk]]. rewrite (set_cell_existing k c v Hk).
        rewrite get_alookup, get_store_same. unfold row_has in Hk. rewrite Hk. now apply mutate_refines.
      + rewrite get_alookup. destruct (get_value k v) as [c|] eqn:Eg; [|exists v; split; [exact Hv | apply equiv_refl]].
        assert (Hk : row_has k v = true) by (now rewrite has_get, Eg). unfold row_has in Hk. rewrite Hk.
        destruct (mutate_refines W r k c v Hs Hv Hk) as [v' [H1 H2]]. exists v'. split; [exact H1|].
        eapply equiv_trans; [exact H2 | now apply store_same_equiv].
  Qed.

  Theorem refines_HUnmarshal W r text v :
    sound W -> view W r = Some v -> Inv v ->
    exists v', view (hs W (HUnmarshal r text)) r = Some v'
               /\ crow_equiv v' (fst (unmarshal_text O parse_top FUELH text v)).
  Proof.
    intros Hs Hv Hi. cbn [hstep]. rewrite Hv. pose proof (unmarshal_text_stores FUELH text v) as Hst.
    destruct (unmarshal_text O parse_top FUELH text v) as [r' e]. cbn [fst] in *.
    destruct (write_back_refines (fun _ => true) r v (row_m r') (row_l r') W v Hs Hv (fun _ H => H)) as [v' [H1 H2]].
    exists v'. split; [exact H1|]. eapply equiv_trans; [exact H2 | now apply fold_store_stores].
  Qed.

  (* --- the same, as one statement over [hstep] --- *)
  (* the row an operation writes or creates and its expected content, computed by the pure model
     from the views before the step; None when the operation has no effect (missing row, failed
     creation, failed Set) *)
  Definition pure_result (W : world) (o : hop) : option (nat * crow) :=
    match o with
    | HNewTemplate => Some (length (rows W), new_row)
    | HWith t name f typ =>
        match view W t with Some v => Some (t, with_col name f typ v) | None => None end
    | HWithRow t name sub =>
        match view W t, view W sub with
        | Some v, Some sv => match with_row O FUELH name sv v with Ok t' => Some (t, t') | _ => None end
        | _, _ => None
        end
    | HCreateEmpty t =>
        match view W t with
        | Some tv => match clone_row O FUELH tv with Ok r => Some (length (rows W), r) | _ => None end
        | None => None
        end
    | HCreate t input =>
        match view W t with
        | Some tv => match create_row O parse_top FUELH tv input with Ok r => Some (length (rows W), r) | _ => None end
        | None => None
        end
    | HCreateFromRow t src =>
        match view W t, view W src with
        | Some tv, Some sv =>
            match create_row O parse_top FUELH tv (RV (CRow sv)) with Ok r => Some (length (rows W), r) | _ => None end
        | _, _ => None
        end
    | HUnmarshal r text =>
        match view W r with Some v => Some (r, fst (unmarshal_text O parse_top FUELH text v)) | None => None end
    | HSet r k x =>
        match view W r with
        | Some v => match row_set O k x v with Ok r' => Some (r, r') | _ => None end
        | None => None
        end
    | HImportAtKey r k x =>
        match view W r with Some v => Some (r, fst (import_at_key O FUELH k x v)) | None => None end
    | HImportAtPath r p x =>
        match view W r with Some v => Some (r, fst (import_at_path O FUELH p x v)) | None => None end
    | HShare _ _ _ _ => None
    end.

  Theorem hstep_refines W o x r :
    good W -> pure_result W o = Some (x, r) ->
    exists v', view (hs W o) x = Some v' /\ crow_equiv v' r.
  Proof.
    intros [Hs Hi] Hp. destruct o as [|t name f typ|t name sub|t|t input|t src|rr text|rr k xx|rr k xx|rr p xx|a b c d]; cbn [pure_result] in Hp.
    - injection Hp as <- <-. exists new_row. split; [apply refines_HNewTemplate | apply equiv_refl].
    - destruct (view W t) as [v|] eqn:Ev; [|discriminate]. injection Hp as <- <-. now apply refines_HWith.
    - destruct (view W t) as [v|] eqn:Ev; [|discriminate]. destruct (view W sub) as [sv|] eqn:Esv; [|discriminate].
      destruct (with_row O FUELH name sv v) as [t'| | |] eqn:Ew; try discriminate. injection Hp as <- <-.
      eapply refines_HWithRow; eauto.
    - destruct (view W t) as [tv|] eqn:Ev; [|discriminate].
      destruct (clone_row O FUELH tv) as [r0| | |] eqn:Ec; try discriminate. injection Hp as <- <-.
      eapply refines_HCreateEmpty; eauto.
    - destruct (view W t) as [tv|] eqn:Ev; [|discriminate].
      destruct (create_row O parse_top FUELH tv input) as [r0| | |] eqn:Ec; try discriminate. injection Hp as <- <-.
      eapply refines_HCreate; eauto.
    - destruct (view W t) as [tv|] eqn:Ev; [|discriminate]. destruct (view W src) as [sv|] eqn:Esv; [|discriminate].
      destruct (create_row O parse_top FUELH tv (RV (CRow sv))) as [r0| | |] eqn:Ec; try discriminate. injection Hp as <- <-.
      eapply refines_HCreateFromRow; eauto.
    - destruct (view W rr) as [v|] eqn:Ev; [|discriminate]. injection Hp as <- <-. eapply refines_HUnmarshal; eauto.
    - destruct (view W rr) as [v|] eqn:Ev; [|discriminate].
      destruct (row_set O k xx v) as [r'| | |] eqn:Er; try discriminate. injection Hp as <- <-.
      eapply refines_HSet; eauto.
    - destruct (view W rr) as [v|] eqn:Ev; [|discriminate]. injection Hp as <- <-. now apply refines_HImportAtKey.
    - destruct (view W rr) as [v|] eqn:Ev; [|discriminate]. injection Hp as <- <-. now apply refines_HImportAtPath.
    - discriminate.
  Qed.

  (* when the pure model computes no result, the step does nothing *)
  Theorem hstep_unchanged W o : no_sharing o -> pure_result W o = None -> hs W o = W.
  Proof.
    intros Hn Hp. destruct o as [|t name f typ|t name sub|t|t input|t src|rr text|rr k xx|rr k xx|rr p xx|a b c d]; cbn [pure_result hstep no_sharing] in *; try contradiction.
    - discriminate.
    - destruct (view W t) eqn:Ev; [discriminate | now apply store_fresh_norow].
    - destruct (view W sub) as [sv|] eqn:Esv; [|reflexivity].
      destruct (view W t) as [v|] eqn:Ev.
      + unfold with_row, create_row_empty in Hp. destruct (clone_row O FUELH sv); cbn [bind] in Hp; try reflexivity. discriminate.
      + destruct (clone_row O FUELH sv); try reflexivity. now apply store_fresh_norow.
    - destruct (view W t) as [tv|]; [|reflexivity]. destruct (clone_row O FUELH tv); try reflexivity. discriminate.
    - destruct (view W t) as [tv|]; [|reflexivity]. destruct (create_row O parse_top FUELH tv input); try reflexivity. discriminate.
    - destruct (view W t) as [tv|]; [|reflexivity]. destruct (view W src) as [sv|]; [|reflexivity].
      destruct (create_row O parse_top FUELH tv (RV (CRow sv))); try reflexivity. discriminate.
    - destruct (view W rr); [discriminate | reflexivity].
    - destruct (view W rr) as [v0|]; [|reflexivity]. destruct (row_set O k xx v0); try reflexivity. discriminate.
    - destruct (view W rr); [discriminate | reflexivity].
    - destruct (view W rr); [discriminate | reflexivity].
  Qed.

  (* every step without explicit sharing keeps all the invariants *)
  Theorem hstep_good W o : good W -> no_sharing o -> good (hs W o).
  Proof.
    intros Hg Hn. destruct o as [|t name f typ|t name sub|t|t input|t src|rr text|rr k xx|rr k xx|rr p xx|a b c d]; cbn [hstep no_sharing] in *; try contradiction.
    - now apply alloc_row_good.
    - now apply store_fresh_good.
    - destruct (view W sub) as [sv|]; [|auto]. destruct (clone_row O FUELH sv); auto. now apply store_fresh_good.
    - destruct (view W t) as [tv|]; [|auto]. destruct (clone_row O FUELH tv); auto. now apply new_row_from_good.
    - destruct (view W t) as [tv|]; [|auto]. destruct (create_row O parse_top FUELH tv input); auto. now apply new_row_from_good.
    - destruct (view W t) as [tv|]; [|auto]. destruct (view W src) as [sv|]; [|auto].
      destruct (create_row O parse_top FUELH tv (RV (CRow sv))); auto. now apply new_row_from_good.
    - destruct (view W rr) as [v0|]; [|auto]. destruct (unmarshal_text O parse_top FUELH text v0) as [r' e].
      now apply write_back_good.
    - destruct (view W rr) as [v0|]; [|auto]. destruct (row_set O k xx v0) as [r'| | |]; auto.
      destruct (alookup k (row_m r')); auto. now apply store_fresh_good.
    - destruct (view W rr) as [v0|]; [|auto]. destruct (import_at_key O FUELH k xx v0) as [r' e].
      destruct (alookup k (row_m r')); auto. destruct (ahas k (row_m v0)); [now apply mutate_good | now apply store_fresh_good].
    - destruct (view W rr) as [v0|]; [|auto]. destruct (import_at_path O FUELH p xx v0) as [r' e].
      destruct (split_dot p) as [|k ks]; auto. destruct (alookup k (row_m r')); auto. destruct (ahas k (row_m v0)); auto.
      now apply mutate_good.
  Qed.

  Theorem hrun_good ops : forall W, good W -> Forall no_sharing ops -> good (hrun O parse_top ops W).
  Proof.
    induction ops as [|o ops IH]; intros W Hg Hn; [exact Hg|]. inversion Hn as [|? ? H1 H2]; subst.
    change (hrun O parse_top (o :: ops) W) with (hrun O parse_top ops (hs W o)).
    apply IH; [now apply hstep_good | exact H2].
  Qed.

  Lemma pure_result_target W o y r : pure_result W o = Some (y, r) -> target o = Some y \/ target o = None.
  Proof.
    destruct o as [|t name f typ|t name sub|t|t input|t src|rr text|rr k xx|rr k xx|rr p xx|a b c d]; cbn [pure_result target]; auto.
    - destruct (view W t); [|discriminate]. intros [= <- _]. now left.
    - destruct (view W t); [|discriminate]. destruct (view W sub); [|discriminate].
      destruct (with_row O FUELH name c0 c); try discriminate. intros [= <- _]. now left.
    - destruct (view W rr); [|discriminate]. intros [= <- _]. now left.
    - destruct (view W rr); [|discriminate]. destruct (row_set O k xx c); try discriminate. intros [= <- _]. now left.
    - destruct (view W rr); [|discriminate]. intros [= <- _]. now left.
    - destruct (view W rr); [|discriminate]. intros [= <- _]. now left.
    - discriminate.
  Qed.

  (* refinement and frame together: after a step, the view of EVERY row that existed is
     determined by the pure model — the pure result for the row the operation writes, the view
     before for every other row (and for all rows when the operation fails) *)
  Theorem hstep_view W o x :
    good W -> no_sharing o -> (x < length (rows W))%nat ->
    match pure_result W o with
    | Some (y, r) =>
        if Nat.eqb y x then exists v', view (hs W o) x = Some v' /\ crow_equiv v' r
        else view (hs W o) x = view W x
    | None => view (hs W o) x = view W x
    end.
  Proof.
    intros Hg Hn Hx. destruct (pure_result W o) as [[y r]|] eqn:Hp; [|now rewrite hstep_unchanged].
    destruct (Nat.eqb_spec y x) as [->|Hd]; [now apply hstep_refines|].
    apply hstep_owned_frame; [apply Hg | exact Hn | exact Hx|].
    destruct (pure_result_target W o y r Hp) as [Ht|Ht]; rewrite Ht; congruence.
  Qed.
End Refine.
