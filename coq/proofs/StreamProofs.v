(* Proofs about the scanner specification (JL.std.GoScanner) and the stream model
   (JL.model.Stream): properties C07 and C08.  Axiom-free. *)
From Coq Require Import ZArith List Bool Lia ZifyBool.
From JL.std Require Import GoBase GoScanner.
From JL.model Require Import Stream.
Import ListNotations.
Open Scope Z_scope.

(* ================================================================================== *)
(* Part 1 — the chunk-free scanner specification                                       *)

Definition ksub (k : option Z) (n : Z) : option Z := option_map (fun x => x - n) k.
(* the reader does not fail within the next n+1 bytes *)
Definition k_gt (k : option Z) (n : Z) : Prop := match k with None => True | Some x => n < x end.

Ltac kk := unfold k_gt, k_hit, kdec, ksub, option_map in *.

Lemma lenZ_nil : lenZ [] = 0.
Proof. reflexivity. Qed.
Lemma lenZ_cons x l : lenZ (x :: l) = 1 + lenZ l.
Proof. unfold lenZ. cbn [length]. lia. Qed.
Lemma lenZ_app a b : lenZ (a ++ b) = lenZ a + lenZ b.
Proof. unfold lenZ. rewrite app_length. lia. Qed.
Lemma lenZ_nonneg l : 0 <= lenZ l.
Proof. unfold lenZ. lia. Qed.

Lemma no_lf_nil : no_lf [].
Proof. intros H; inversion H. Qed.
Lemma no_lf_cons b l : no_lf (b :: l) <-> b <> 10 /\ no_lf l.
Proof. unfold no_lf. cbn [In]. intuition. Qed.

Lemma k_hit_false_gt k n : 0 <= n -> k_gt k n -> k_hit k = false.
Proof. unfold k_gt, k_hit. destruct k; intros; [apply Z.leb_gt; lia | reflexivity]. Qed.

Lemma kdec_ksub k n : ksub (kdec k) n = ksub k (n + 1).
Proof. destruct k; kk; [f_equal; lia | reflexivity]. Qed.

Lemma k_gt_kdec k n : k_gt k (1 + n) -> k_gt (kdec k) n.
Proof. destruct k; kk; intros; [lia | exact I]. Qed.

(* ---- forward lemmas: what span does on a stream of known shape ---- *)

Lemma span_line : forall l rest room k,
  no_lf l -> lenZ l < room -> k_gt k (lenZ l) ->
  span (l ++ 10 :: rest) room k = SpLine l rest (ksub k (lenZ l + 1)).
Proof.
  induction l as [|b l IH]; intros rest room k Hl Hr Hk.
  - rewrite lenZ_nil in *. cbn [app span].
    destruct (room <=? 0) eqn:E1; [lia|].
    rewrite (k_hit_false_gt k 0) by (auto; lia).
    rewrite Z.eqb_refl. destruct k; kk; [f_equal; f_equal; lia | reflexivity].
  - rewrite lenZ_cons in *. pose proof (lenZ_nonneg l) as Hn.
    apply no_lf_cons in Hl as [Hb Hl].
    cbn [app span].
    destruct (room <=? 0) eqn:E1; [lia|].
    rewrite (k_hit_false_gt k (1 + lenZ l)) by (auto; lia).
    destruct (b =? 10) eqn:E2; [lia|].
    rewrite (IH rest (room - 1) (kdec k)); auto; [| lia | apply k_gt_kdec; auto].
    rewrite kdec_ksub. f_equal. f_equal. lia.
Qed.

Lemma span_eof : forall w room k,
  no_lf w -> lenZ w < room -> k_gt k (lenZ w) ->
  span w room k = SpEnd w SEof.
Proof.
  induction w as [|b w IH]; intros room k Hl Hr Hk.
  - rewrite lenZ_nil in *. cbn [span].
    destruct (room <=? 0) eqn:E1; [lia|].
    rewrite (k_hit_false_gt k 0) by (auto; lia). reflexivity.
  - rewrite lenZ_cons in *. pose proof (lenZ_nonneg w) as Hn.
    apply no_lf_cons in Hl as [Hb Hl].
    cbn [span].
    destruct (room <=? 0) eqn:E1; [lia|].
    rewrite (k_hit_false_gt k (1 + lenZ w)) by (auto; lia).
    destruct (b =? 10) eqn:E2; [lia|].
    rewrite (IH (room - 1) (kdec k)); auto; [lia | apply k_gt_kdec; auto].
Qed.

Lemma span_fault : forall w rest room,
  no_lf w -> lenZ w < room ->
  span (w ++ rest) room (Some (lenZ w)) = SpEnd w SRead.
Proof.
  induction w as [|b w IH]; intros rest room Hl Hr.
  - rewrite lenZ_nil in *. cbn [app]. destruct rest; cbn [span];
      (destruct (room <=? 0) eqn:E1; [lia|]); reflexivity.
  - rewrite lenZ_cons in *. pose proof (lenZ_nonneg w) as Hn.
    apply no_lf_cons in Hl as [Hb Hl].
    cbn [app span].
    destruct (room <=? 0) eqn:E1; [lia|].
    cbn [k_hit]. destruct (1 + lenZ w <=? 0) eqn:E3; [lia|].
    destruct (b =? 10) eqn:E2; [lia|].
    cbn [kdec option_map]. replace (1 + lenZ w - 1) with (lenZ w) by lia.
    rewrite IH; auto. lia.
Qed.

Lemma span_full_nonpos : forall d room k, room <= 0 -> span d room k = SpFull [].
Proof. intros [|b d] room k H; cbn [span]; destruct (room <=? 0) eqn:E; try lia; reflexivity. Qed.

Lemma span_full : forall w rest room k,
  no_lf w -> lenZ w = room -> k_gt k (lenZ w - 1) ->
  span (w ++ rest) room k = SpFull w.
Proof.
  induction w as [|b w IH]; intros rest room k Hl Hr Hk.
  - rewrite lenZ_nil in *. apply span_full_nonpos. lia.
  - rewrite lenZ_cons in *. pose proof (lenZ_nonneg w) as Hn.
    apply no_lf_cons in Hl as [Hb Hl].
    cbn [app span].
    destruct (room <=? 0) eqn:E1; [lia|].
    rewrite (k_hit_false_gt k (lenZ w)) by (auto; destruct k; kk; lia).
    destruct (b =? 10) eqn:E2; [lia|].
    rewrite (IH rest (room - 1) (kdec k)); auto; [lia|].
    destruct k; kk; lia.
Qed.

(* ---- inversion: what a result of span says about the stream ---- *)

Definition span_post (d : str) (room : Z) (k : option Z) (r : span_res) : Prop :=
  match r with
  | SpLine l rest k' =>
      d = l ++ 10 :: rest /\ no_lf l /\ lenZ l < room /\ k_gt k (lenZ l) /\ k' = ksub k (lenZ l + 1)
  | SpFull w =>
      exists rest, d = w ++ rest /\ no_lf w /\ lenZ w = Z.max 0 room
  | SpEnd w SEof => d = w /\ no_lf w /\ lenZ w < room /\ k_gt k (lenZ w)
  | SpEnd w SRead =>
      exists rest x, d = w ++ rest /\ no_lf w /\ lenZ w < room /\ k = Some x /\ x <= lenZ w
                     /\ (0 <= x -> x = lenZ w)
  | SpEnd w STooLong => False
  end.

Ltac ksolve k := try solve [destruct k; kk; first [lia | exact I | (f_equal; lia) | reflexivity]].

Lemma span_inv : forall d room k, span_post d room k (span d room k).
Proof.
  induction d as [|b d IH]; intros room k.
  - cbn [span]. destruct (room <=? 0) eqn:E1.
    + cbn [span_post]. exists []. rewrite lenZ_nil. repeat split; auto using no_lf_nil. lia.
    + destruct (k_hit k) eqn:E2.
      * cbn [span_post]. destruct k as [x|]; kk; [|discriminate].
        exists [], x. rewrite lenZ_nil. repeat split; auto using no_lf_nil; lia.
      * cbn [span_post]. rewrite lenZ_nil. repeat split; auto using no_lf_nil; try lia; ksolve k.
  - cbn [span]. destruct (room <=? 0) eqn:E1.
    + cbn [span_post]. exists (b :: d). rewrite lenZ_nil. repeat split; auto using no_lf_nil. lia.
    + destruct (k_hit k) eqn:E2.
      * cbn [span_post]. destruct k as [x|]; kk; [|discriminate].
        exists (b :: d), x. rewrite lenZ_nil. repeat split; auto using no_lf_nil; lia.
      * destruct (b =? 10) eqn:E3.
        -- cbn [span_post]. rewrite lenZ_nil. assert (b = 10) by lia. subst b.
           repeat split; auto using no_lf_nil; try lia; ksolve k.
        -- specialize (IH (room - 1) (kdec k)).
           destruct (span d (room - 1) (kdec k)) as [l rest k'|w|w e]; cbn [span_post] in IH |- *.
           ++ destruct IH as (Hd & Hl & Hr & Hk & Hk'). subst d.
              rewrite lenZ_cons. pose proof (lenZ_nonneg l).
              repeat split; auto; try lia; ksolve k.
              ** apply no_lf_cons. split; [lia | auto].
              ** subst k'. rewrite kdec_ksub. f_equal. lia.
           ++ destruct IH as (rest & Hd & Hl & Hr). subst d. exists rest.
              rewrite lenZ_cons. repeat split; auto; try lia.
              apply no_lf_cons. split; [lia | auto].
           ++ destruct e; cbn [span_post] in IH |- *.
              ** destruct IH as (Hd & Hl & Hr & Hk). subst d.
                 rewrite lenZ_cons. repeat split; auto; try lia; ksolve k.
                 apply no_lf_cons. split; [lia | auto].
              ** contradiction.
              ** destruct IH as (rest & x & Hd & Hl & Hr & Hk & Hx & Hx'). subst d.
                 destruct k as [x0|]; kk; [|discriminate].
                 inversion Hk; subst x.
                 exists rest, x0. rewrite lenZ_cons. repeat split; auto; try lia.
                 apply no_lf_cons. split; [lia | auto].
Qed.

(* ---- lines ---- *)

Lemma split_lf_no_lf : forall w, no_lf w -> split_lf w = ([], w).
Proof.
  induction w as [|b w IH]; intros H; [reflexivity|].
  apply no_lf_cons in H as [Hb H]. cbn [split_lf]. rewrite IH by auto.
  destruct (b =? 10) eqn:E; [lia | reflexivity].
Qed.

Lemma split_lf_line : forall l rest, no_lf l ->
  split_lf (l ++ 10 :: rest) = (l :: fst (split_lf rest), snd (split_lf rest)).
Proof.
  induction l as [|b l IH]; intros rest H.
  - cbn [app split_lf]. destruct (split_lf rest). reflexivity.
  - apply no_lf_cons in H as [Hb H]. cbn [app split_lf]. rewrite IH by auto.
    destruct (b =? 10) eqn:E; [lia | reflexivity].
Qed.

Lemma raw_lines_line l rest : no_lf l -> raw_lines (l ++ 10 :: rest) = l :: raw_lines rest.
Proof.
  intros H. unfold raw_lines. rewrite split_lf_line by auto.
  destruct (split_lf rest) as [L t]. reflexivity.
Qed.

Lemma raw_lines_tail w : no_lf w -> raw_lines w = match w with [] => [] | _ => [w] end.
Proof. intros H. unfold raw_lines. rewrite split_lf_no_lf by auto. reflexivity. Qed.

Lemma lines_line l rest : no_lf l -> lines (l ++ 10 :: rest) = drop_cr l :: lines rest.
Proof. intros H. unfold lines. rewrite raw_lines_line by auto. reflexivity. Qed.

Lemma lines_tail w : no_lf w -> lines w = match w with [] => [] | _ => [drop_cr w] end.
Proof. intros H. unfold lines. rewrite raw_lines_tail by auto. destruct w; reflexivity. Qed.

(* ================================================================================== *)
(* Part 2 — the Stream loop as a fold over the sequence of GetRow inputs                *)

(* what one loop iteration gets from the importer: a token (Scanner.Err() == nil) or the
   scanner's error *)
Inductive gitem := GTok (t : str) | GIo (e : eclass).

Definition ncalls (evs : list event) : nat := length (calls_of evs).
Definition nwrites (evs : list event) : nat := length (writes_of evs).

Lemma calls_of_app a b : calls_of (a ++ b) = calls_of a ++ calls_of b.
Proof. unfold calls_of. apply flat_map_app. Qed.
Lemma writes_of_app a b : writes_of (a ++ b) = writes_of a ++ writes_of b.
Proof. unfold writes_of. apply flat_map_app. Qed.
Lemma ncalls_app a b : ncalls (a ++ b) = (ncalls a + ncalls b)%nat.
Proof. unfold ncalls. rewrite calls_of_app, app_length. reflexivity. Qed.
Lemma nwrites_app a b : nwrites (a ++ b) = (nwrites a + nwrites b)%nat.
Proof. unfold nwrites. rewrite writes_of_app, app_length. reflexivity. Qed.

Lemma ncalls_nil : ncalls [] = O. Proof. reflexivity. Qed.
Lemma nwrites_nil : nwrites [] = O. Proof. reflexivity. Qed.
Lemma ncalls_cons_call e l : ncalls (EvCall e :: l) = S (ncalls l). Proof. reflexivity. Qed.
Lemma ncalls_cons_write p n l : ncalls (EvWrite p n :: l) = ncalls l. Proof. reflexivity. Qed.
Lemma nwrites_cons_call e l : nwrites (EvCall e :: l) = nwrites l. Proof. reflexivity. Qed.
Lemma nwrites_cons_write p n l : nwrites (EvWrite p n :: l) = S (nwrites l). Proof. reflexivity. Qed.
Ltac cnt := rewrite ?ncalls_cons_call, ?ncalls_cons_write, ?nwrites_cons_call, ?nwrites_cons_write,
                    ?ncalls_nil, ?nwrites_nil; lia.

Section Fold.
  Variable R : Type.
  Variable get_row : str -> res R.
  Variable export_row : R -> res str.
  Variable wf : nat -> option Z.
  Variable proc : nat -> option eclass -> option eclass.

  (* one loop iteration of Stream, forward style: result (None = continue) and the events it
     produces, given the numbers of processor and Write calls made so far *)
  Definition item_run (g : gitem) (nc nw : nat) : option sres * list event :=
    match g with
    | GIo e => (option_map RErr (proc nc (Some e)), [EvCall (Some e)])
    | GTok t =>
        match get_row t with
        | Err s => (option_map RErr (proc nc (Some (EcImport s))), [EvCall (Some (EcImport s))])
        | Panic => (Some RPanic, [])
        | Fuel => (Some RFuel, [])
        | Ok r =>
            match proc nc None with
            | Some x => (Some (RErr x), [EvCall None])
            | None =>
                match export_row r with
                | Err s => (option_map RErr (proc (S nc) (Some (EcExport s))),
                            [EvCall None; EvCall (Some (EcExport s))])
                | Panic => (Some RPanic, [EvCall None])
                | Fuel => (Some RFuel, [EvCall None])
                | Ok b =>
                    let p := b ++ [10] in
                    match wf nw with
                    | None => (None, [EvCall None; EvWrite p (lenZ p)])
                    | Some n => (option_map RErr (proc (S nc) (Some EcWrite)),
                                 [EvCall None; EvWrite p (Z.max 0 (Z.min n (lenZ p)));
                                  EvCall (Some EcWrite)])
                    end
                end
            end
        end
    end.

  Fixpoint run_items (items : list gitem) (nc nw : nat) : sres * list event :=
    match items with
    | [] => (ROk, [])
    | g :: rest =>
        let '(x, evs) := item_run g nc nw in
        match x with
        | Some r => (r, evs)
        | None =>
            let '(r, evs') := run_items rest (nc + ncalls evs) (nw + nwrites evs) in
            (r, evs ++ evs')
        end
    end.

  Section Scanner.
    Variable Sc : Type.
    Variable s_scan : Sc -> option str * Sc.
    Variable s_err : Sc -> option serr.

    Definition item_of (i1 : importer Sc) : gitem :=
      match s_err (i_sc i1) with
      | Some e => GIo (eclass_of_serr e)
      | None => GTok (i_tok i1)
      end.

    Definition after_getrow (i1 : importer Sc) : importer Sc :=
      match s_err (i_sc i1) with
      | Some _ => mkimp (i_sc i1) (i_tok i1) true
      | None => i1
      end.

    (* the sequence of GetRow inputs of  for Import() { GetRow() }  *)
    Inductive ImportSeq : importer Sc -> list gitem -> Prop :=
    | IS_stop : forall i i', Import Sc s_scan s_err i = (false, i') -> ImportSeq i []
    | IS_more : forall i i1 items,
        Import Sc s_scan s_err i = (true, i1) ->
        ImportSeq (after_getrow i1) items ->
        ImportSeq i (item_of i1 :: items).

    Definition ost_after (o : ost) (evs : list event) : ost :=
      mkost (o_calls o + ncalls evs) (o_writes o + nwrites evs) (rev evs ++ o_trace o).

    Lemma ost_after_app o a b : ost_after (ost_after o a) b = ost_after o (a ++ b).
    Proof.
      unfold ost_after. cbn [o_calls o_writes o_trace].
      rewrite ncalls_app, nwrites_app, rev_app_distr, <- app_assoc.
      f_equal; lia.
    Qed.

    Lemma stream_loop_run : forall i items,
      ImportSeq i items ->
      forall fuel o, (length items < fuel)%nat ->
        stream_loop R get_row export_row Sc s_scan s_err wf proc fuel i o =
        (fst (run_items items (o_calls o) (o_writes o)),
         ost_after o (snd (run_items items (o_calls o) (o_writes o)))).
    Proof.
      induction 1 as [i i' HI | i i1 items HI HS IH]; intros fuel o Hf;
        (destruct fuel as [|fuel]; [cbn [length] in Hf; lia|]); cbn [stream_loop]; rewrite HI; cbn [negb].
      - cbn [run_items fst snd]. unfold ost_after. cbn. destruct o. cbn.
        f_equal. f_equal; lia.
      - cbn [length] in Hf. assert (Hf' : (length items < fuel)%nat) by lia.
        unfold GetRow, item_of, after_getrow in *.
        cbn [run_items].
        destruct (s_err (i_sc i1)) as [e|].
        + cbn [item_run]. unfold call. destruct (proc (o_calls o) (Some (eclass_of_serr e))) as [x|]; cbn [option_map].
          * cbn [fst snd]. unfold ost_after. cbn. destruct o; cbn. f_equal. f_equal; lia.
          * rewrite IH by exact Hf'. cbn [o_calls o_writes].
            destruct (run_items items _ _) as [r evs'] eqn:ER.
            replace (o_calls o + ncalls [EvCall (Some (eclass_of_serr e))])%nat with (S (o_calls o)) by (cbn; lia).
            replace (o_writes o + nwrites [EvCall (Some (eclass_of_serr e))])%nat with (o_writes o) by (cbn; lia).
            rewrite ER. cbn [fst snd].
            f_equal. unfold ost_after. cbn [o_calls o_writes o_trace].
            rewrite ncalls_app, nwrites_app, rev_app_distr, <- app_assoc. cbn. f_equal; lia.
        + cbn [item_run].
          destruct (get_row (i_tok i1)) as [r|s| |].
          * unfold call. cbn [o_calls]. destruct (proc (o_calls o) None) as [x|].
            -- cbn [fst snd]. unfold ost_after. cbn. destruct o; cbn. f_equal. f_equal; lia.
            -- unfold Export. destruct (export_row r) as [b|s| |].
               ++ unfold write. cbn [o_writes o_calls o_trace].
                  destruct (wf (o_writes o)) as [n|].
                  ** cbn [o_calls]. destruct (proc (S (o_calls o)) (Some EcWrite)) as [y|]; cbn [option_map].
                     --- cbn [fst snd]. unfold ost_after. cbn. destruct o; cbn. f_equal. f_equal; lia.
                     --- rewrite IH by exact Hf'. cbn [o_calls o_writes].
                         match goal with |- context [run_items items ?a ?b] => 
                           replace (run_items items a b) with (run_items items (S (S (o_calls o))) (S (o_writes o))) end.
                         2:{ f_equal; cbn; lia. }
                         match goal with |- context [(?a + ncalls ?l)%nat] => replace (a + ncalls l)%nat with (S (S (o_calls o))) by (cbn; lia) end.
                         match goal with |- context [(?a + nwrites ?l)%nat] => replace (a + nwrites l)%nat with (S (o_writes o)) by (cbn; lia) end.
                         destruct (run_items items _ _) as [r0 evs'] eqn:ER. cbn [fst snd].
                         f_equal. unfold ost_after. cbn [o_calls o_writes o_trace].
                         rewrite ncalls_app, nwrites_app, rev_app_distr, <- app_assoc. cbn. f_equal; lia.
                  ** rewrite IH by exact Hf'. cbn [o_calls o_writes].
                     match goal with |- context [(?a + ncalls ?l)%nat] => replace (a + ncalls l)%nat with (S (o_calls o)) by (cbn; lia) end.
                     match goal with |- context [(?a + nwrites ?l)%nat] => replace (a + nwrites l)%nat with (S (o_writes o)) by (cbn; lia) end.
                     destruct (run_items items _ _) as [r0 evs'] eqn:ER. cbn [fst snd].
                     f_equal. unfold ost_after. cbn [o_calls o_writes o_trace].
                     rewrite ncalls_app, nwrites_app, rev_app_distr, <- app_assoc. cbn. f_equal; lia.
               ++ cbn [o_calls]. destruct (proc (S (o_calls o)) (Some (EcExport s))) as [y|]; cbn [option_map].
                  ** cbn [fst snd]. unfold ost_after. cbn. destruct o; cbn. f_equal. f_equal; lia.
                  ** rewrite IH by exact Hf'. cbn [o_calls o_writes].
                     match goal with |- context [(?a + ncalls ?l)%nat] => replace (a + ncalls l)%nat with (S (S (o_calls o))) by (cbn; lia) end.
                     match goal with |- context [(?a + nwrites ?l)%nat] => replace (a + nwrites l)%nat with (o_writes o) by (cbn; lia) end.
                     destruct (run_items items _ _) as [r0 evs'] eqn:ER. cbn [fst snd].
                     f_equal. unfold ost_after. cbn [o_calls o_writes o_trace].
                     rewrite ncalls_app, nwrites_app, rev_app_distr, <- app_assoc. cbn. f_equal; lia.
               ++ cbn [fst snd]. unfold ost_after. cbn. destruct o; cbn. f_equal. f_equal; lia.
               ++ cbn [fst snd]. unfold ost_after. cbn. destruct o; cbn. f_equal. f_equal; lia.
          * unfold call. destruct (proc (o_calls o) (Some (EcImport s))) as [x|]; cbn [option_map].
            -- cbn [fst snd]. unfold ost_after. cbn. destruct o; cbn. f_equal. f_equal; lia.
            -- rewrite IH by exact Hf'. cbn [o_calls o_writes].
               match goal with |- context [(?a + ncalls ?l)%nat] => replace (a + ncalls l)%nat with (S (o_calls o)) by (cbn; lia) end.
               match goal with |- context [(?a + nwrites ?l)%nat] => replace (a + nwrites l)%nat with (o_writes o) by (cbn; lia) end.
               destruct (run_items items _ _) as [r0 evs'] eqn:ER. cbn [fst snd].
               f_equal. unfold ost_after. cbn [o_calls o_writes o_trace].
               rewrite ncalls_app, nwrites_app, rev_app_distr, <- app_assoc. cbn. f_equal; lia.
          * cbn [fst snd]. unfold ost_after. cbn. destruct o; cbn. f_equal. f_equal; lia.
          * cbn [fst snd]. unfold ost_after. cbn. destruct o; cbn. f_equal. f_equal; lia.
    Qed.
  End Scanner.
End Fold.

(* ================================================================================== *)
(* Part 3 — the GetRow inputs produced by the importer over the scanner specification   *)

Arguments ImportSeq {Sc}.
Arguments item_of {Sc}.
Arguments after_getrow {Sc}.

(* the sequence of loop iterations on a reader (d, k) with buffer capacity C, with the F2
   behaviour of Import: a scanner error is handed to GetRow once; after ErrTooLong the buffered
   bytes come out as one more token, so the error is handed over a second time *)
Fixpoint spec_items (fuel : nat) (C : Z) (d : str) (k : option Z) : list gitem :=
  match fuel with
  | O => []
  | S f =>
      match span d C k with
      | SpLine l rest k' => GTok (drop_cr l) :: spec_items f C rest k'
      | SpFull w => GIo EcTooLong :: match w with [] => [] | _ => [GIo EcTooLong] end
      | SpEnd w SEof => match w with [] => [] | _ => [GTok (drop_cr w)] end
      | SpEnd w _ => [GIo EcRead]
      end
  end.

Lemma cut_lf_no_lf : forall w, no_lf w -> cut_lf w = None.
Proof.
  induction w as [|b w IH]; intros H; [reflexivity|].
  apply no_lf_cons in H as [Hb H]. cbn [cut_lf].
  destruct (b =? 10) eqn:E; [lia|]. rewrite IH by auto. reflexivity.
Qed.

Lemma scan_lines_no_lf_eof w : no_lf w -> w <> [] -> scan_lines w true = Some (drop_cr w, []).
Proof.
  intros H Hn. unfold scan_lines. destruct w; [congruence|]. rewrite cut_lf_no_lf by auto. reflexivity.
Qed.

Lemma spec_items_seq : forall C fuel d k tok,
  (length d < fuel)%nat ->
  ImportSeq (scan C) sc_err (mkimp (Run d k) tok false) (spec_items fuel C d k).
Proof.
  intros C. induction fuel as [|f IH]; intros d k tok Hf; [lia|].
  cbn [spec_items]. pose proof (span_inv d C k) as Hs.
  destruct (span d C k) as [l rest k'|w|w e] eqn:ES; cbn [span_post] in Hs.
  - destruct Hs as (Hd & Hl & Hr & Hk & Hk').
    assert (HI : Import sstate (scan C) sc_err (mkimp (Run d k) tok false)
                 = (true, mkimp (Run rest k') (drop_cr l) false)).
    { unfold Import. cbn [i_sc scan]. rewrite ES. reflexivity. }
    refine (IS_more _ _ _ _ _ _ HI _).
    unfold after_getrow. cbn [i_sc sc_err]. apply IH.
    subst d. rewrite app_length in Hf. cbn [length] in Hf. lia.
  - destruct Hs as (rest & Hd & Hl & Hr).
    assert (HI : Import sstate (scan C) sc_err (mkimp (Run d k) tok false)
                 = (true, mkimp (Stopped w STooLong) [] true)).
    { unfold Import. cbn [i_sc scan]. rewrite ES. reflexivity. }
    change (GIo EcTooLong) with (item_of sc_err (mkimp (Stopped w STooLong) [] true)) at 1.
    refine (IS_more _ _ _ _ _ _ HI _).
    unfold after_getrow. cbn [i_sc sc_err err_public i_tok].
    destruct w as [|b w].
    + eapply IS_stop. unfold Import. cbn. reflexivity.
    + assert (HI2 : Import sstate (scan C) sc_err (mkimp (Stopped (b :: w) STooLong) [] true)
                    = (true, mkimp (Stopped [] STooLong) (drop_cr (b :: w)) true)).
      { unfold Import. cbn [i_sc scan]. rewrite scan_lines_no_lf_eof by (auto; discriminate). reflexivity. }
      change (GIo EcTooLong) with (item_of sc_err (mkimp (Stopped [] STooLong) (drop_cr (b :: w)) true)).
      refine (IS_more _ _ _ _ _ _ HI2 _).
      unfold after_getrow. cbn [i_sc sc_err err_public i_tok].
      eapply IS_stop. unfold Import. cbn. reflexivity.
  - destruct e.
    + destruct Hs as (Hd & Hl & Hr & Hk). destruct w as [|b w].
      * eapply IS_stop. unfold Import. cbn [i_sc scan]. rewrite ES. cbn. reflexivity.
      * assert (HI : Import sstate (scan C) sc_err (mkimp (Run d k) tok false)
                     = (true, mkimp (Stopped [] SEof) (drop_cr (b :: w)) false)).
        { unfold Import. cbn [i_sc scan]. rewrite ES. reflexivity. }
        change (GTok (drop_cr (b :: w))) with (item_of sc_err (mkimp (Stopped [] SEof) (drop_cr (b :: w)) false)).
        refine (IS_more _ _ _ _ _ _ HI _).
        unfold after_getrow. cbn [i_sc sc_err err_public].
        eapply IS_stop. unfold Import. cbn. reflexivity.
    + contradiction.
    + destruct w as [|b w].
      * assert (HI : Import sstate (scan C) sc_err (mkimp (Run d k) tok false)
                     = (true, mkimp (Stopped [] SRead) [] true)).
        { unfold Import. cbn [i_sc scan]. rewrite ES. reflexivity. }
        change (GIo EcRead) with (item_of sc_err (mkimp (Stopped [] SRead) [] true)).
        refine (IS_more _ _ _ _ _ _ HI _).
        unfold after_getrow. cbn [i_sc sc_err err_public i_tok].
        eapply IS_stop. unfold Import. cbn. reflexivity.
      * assert (HI : Import sstate (scan C) sc_err (mkimp (Run d k) tok false)
                     = (true, mkimp (Stopped [] SRead) (drop_cr (b :: w)) false)).
        { unfold Import. cbn [i_sc scan]. rewrite ES. reflexivity. }
        change (GIo EcRead) with (item_of sc_err (mkimp (Stopped [] SRead) (drop_cr (b :: w)) false)).
        refine (IS_more _ _ _ _ _ _ HI _).
        unfold after_getrow. cbn [i_sc sc_err err_public i_tok].
        eapply IS_stop. unfold Import. cbn. reflexivity.
Qed.

Lemma spec_items_length : forall C fuel d k, (length (spec_items fuel C d k) <= length d + 2)%nat.
Proof.
  intros C. induction fuel as [|f IH]; intros d k; cbn [spec_items]; [cbn; lia|].
  pose proof (span_inv d C k) as Hs.
  destruct (span d C k) as [l rest k'|w|w e]; cbn [span_post] in Hs.
  - destruct Hs as (Hd & _). subst d. cbn [length]. specialize (IH rest k').
    rewrite app_length. cbn [length]. lia.
  - destruct w; cbn [length]; lia.
  - destruct e; try destruct w; cbn [length]; lia.
Qed.

Section StreamSpec.
  Variable R : Type.
  Variable get_row : str -> res R.
  Variable export_row : R -> res str.
  Variable wf : nat -> option Z.
  Variable proc : nat -> option eclass -> option eclass.

  Notation Stream' := (Stream R get_row export_row wf proc).
  Notation run' := (run_items R get_row export_row wf proc).

  (* The model's Stream is the fold of the loop body over the iteration sequence; in particular
     the loop never runs out of fuel. *)
  Theorem Stream_eq : forall C s k,
    Stream' C s k = run' (spec_items (S (length s)) C s k) O O.
  Proof.
    intros C s k. unfold Stream, stream_fuel, NewImporter, sc_init.
    rewrite (stream_loop_run R get_row export_row wf proc sstate (scan C) sc_err _ _
               (spec_items_seq C (S (length s)) s k [] (Nat.lt_succ_diag_r _))).
    - cbn [ost0 o_calls o_writes]. destruct (run' _ O O) as [r evs]. cbn [fst snd].
      unfold ost_after. cbn [o_trace ost0]. rewrite app_nil_r, rev_involutive. reflexivity.
    - pose proof (spec_items_length C (S (length s)) s k). cbn [sc_measure]. lia.
  Qed.
End StreamSpec.

(* ================================================================================== *)
(* Part 4 — properties of the fold                                                     *)

Section FoldProps.
  Variable R : Type.
  Variable get_row : str -> res R.
  Variable export_row : R -> res str.
  Variable wf : nat -> option Z.
  Variable proc : nat -> option eclass -> option eclass.

  Notation item_run' := (item_run R get_row export_row wf proc).
  Notation run' := (run_items R get_row export_row wf proc).

  Lemma item_run_not_ok g nc nw r ev : item_run' g nc nw = (Some r, ev) -> r <> ROk.
  Proof.
    unfold item_run. intros H.
    destruct g as [t|e].
    - destruct (get_row t) as [row|s| |].
      + destruct (proc nc None); [inversion H; discriminate|].
        destruct (export_row row) as [b|s| |].
        * destruct (wf nw); [|inversion H].
          destruct (proc (S nc) (Some EcWrite)); inversion H; discriminate.
        * destruct (proc (S nc) (Some (EcExport s))); inversion H; discriminate.
        * inversion H; discriminate.
        * inversion H; discriminate.
      + destruct (proc nc (Some (EcImport s))); inversion H; discriminate.
      + inversion H; discriminate.
      + inversion H; discriminate.
    - destruct (proc nc (Some e)); inversion H; discriminate.
  Qed.

  (* C08, key lemma on the loop: an io error handed to GetRow is seen by the processor, unless
     the stream already ended with an error *)
  Lemma run_items_io : forall items nc nw e r evs,
    In (GIo e) items -> run' items nc nw = (r, evs) ->
    r <> ROk \/ In (EvCall (Some e)) evs.
  Proof.
    induction items as [|g items IH]; intros nc nw e r evs Hin Hrun; [inversion Hin|].
    cbn [run_items] in Hrun.
    destruct (item_run' g nc nw) as [x ev1] eqn:E1.
    destruct Hin as [->|Hin].
    - cbn [item_run] in E1. inversion E1; subst x ev1; clear E1.
      destruct (proc nc (Some e)); cbn [option_map] in Hrun.
      + inversion Hrun. left. discriminate.
      + destruct (run' items _ _) as [r' evs']. inversion Hrun. right. cbn. auto.
    - destruct x as [r0|].
      + inversion Hrun; subst. left. eapply item_run_not_ok; eauto.
      + destruct (run' items _ _) as [r' evs'] eqn:E2. inversion Hrun; subst.
        destruct (IH _ _ _ _ _ Hin E2) as [H|H]; [left; auto | right; apply in_or_app; auto].
  Qed.

  Lemma item_run_writes g nc nw x ev p n :
    item_run' g nc nw = (x, ev) -> In (EvWrite p n) ev ->
    exists t row b, g = GTok t /\ get_row t = Ok row /\ export_row row = Ok b /\ p = b ++ [10].
  Proof.
    unfold item_run. intros H Hin.
    destruct g as [t|e].
    - destruct (get_row t) as [row|s| |] eqn:EG.
      + destruct (proc nc None).
        { inversion H; subst. cbn in Hin. intuition discriminate. }
        destruct (export_row row) as [b|s| |] eqn:EX.
        * exists t, row, b. repeat split; auto.
          destruct (wf nw); inversion H; subst; cbn in Hin;
            repeat (destruct Hin as [Hin|Hin]; [try discriminate; inversion Hin; reflexivity|]); contradiction.
        * inversion H; subst. cbn in Hin. intuition discriminate.
        * inversion H; subst. cbn in Hin. intuition discriminate.
        * inversion H; subst. cbn in Hin. intuition discriminate.
      + inversion H; subst. cbn in Hin. intuition discriminate.
      + inversion H; subst. inversion Hin.
      + inversion H; subst. inversion Hin.
    - inversion H; subst. cbn in Hin. intuition discriminate.
  Qed.

  (* every Write call carries exactly one complete line: the export of the row of one token,
     followed by one LF *)
  Lemma run_items_writes : forall items nc nw r evs p n,
    run' items nc nw = (r, evs) -> In (EvWrite p n) evs ->
    exists t row b, In (GTok t) items /\ get_row t = Ok row /\ export_row row = Ok b /\ p = b ++ [10].
  Proof.
    induction items as [|g items IH]; intros nc nw r evs p n Hrun Hin.
    - cbn in Hrun. inversion Hrun; subst. inversion Hin.
    - cbn [run_items] in Hrun.
      destruct (item_run' g nc nw) as [x ev1] eqn:E1.
      assert (Hhere : In (EvWrite p n) ev1 ->
                      exists t row b, In (GTok t) (g :: items) /\ get_row t = Ok row /\ export_row row = Ok b /\ p = b ++ [10]).
      { intros Hi. destruct (item_run_writes _ _ _ _ _ _ _ E1 Hi) as (t & row & b & -> & H1 & H2 & H3).
        exists t, row, b. cbn; auto. }
      destruct x as [r0|].
      + inversion Hrun; subst. auto.
      + destruct (run' items _ _) as [r' evs'] eqn:E2. inversion Hrun; subst.
        apply in_app_or in Hin as [Hi|Hi]; auto.
        destruct (IH _ _ _ _ _ _ E2 Hi) as (t & row & b & H0 & H1 & H2 & H3).
        exists t, row, b. cbn; auto.
  Qed.

  (* ---- the audit of a trace: fatal returns, failed writes, accepted byte counts ---- *)

  Fixpoint audit (nc nw : nat) (evs : list event) (r : sres) : Prop :=
    match evs with
    | [] => match r with RErr _ => False | _ => True end
    | EvCall e :: rest =>
        match proc nc e with
        | Some x => rest = [] /\ r = RErr x
        | None => audit (S nc) nw rest r
        end
    | EvWrite p n :: rest =>
        match wf nw with
        | None => n = lenZ p
        | Some m => n = Z.max 0 (Z.min m (lenZ p)) /\ exists rest', rest = EvCall (Some EcWrite) :: rest'
        end /\ audit nc (S nw) rest r
    end.

  Lemma run_items_audit : forall items nc nw r evs,
    run' items nc nw = (r, evs) -> audit nc nw evs r.
  Proof.
    induction items as [|g items IH]; intros nc nw r evs Hrun.
    - cbn in Hrun. inversion Hrun; subst. exact I.
    - cbn [run_items] in Hrun. unfold item_run in Hrun.
      destruct g as [t|e].
      + destruct (get_row t) as [row|s| |].
        * destruct (proc nc None) as [x|] eqn:EP0.
          { inversion Hrun; subst. cbn [audit]. rewrite EP0. auto. }
          destruct (export_row row) as [b|s| |].
          -- destruct (wf nw) as [m|] eqn:EW.
             ++ destruct (proc (S nc) (Some EcWrite)) as [y|] eqn:EP1; cbn [option_map] in Hrun.
                ** inversion Hrun; subst. cbn [audit]. rewrite EP0, EW, EP1. eauto 6.
                ** destruct (run' items _ _) as [r' evs'] eqn:E2. inversion Hrun; subst.
                   cbn [app audit]. rewrite EP0, EW, EP1. split; [eauto|].
                   apply IH in E2. cbn in E2.
                   replace (S (S nc)) with (nc + 2)%nat by lia. replace (S nw) with (nw + 1)%nat by lia. exact E2.
             ++ destruct (run' items _ _) as [r' evs'] eqn:E2. inversion Hrun; subst.
                cbn [app audit]. rewrite EP0, EW. split; [reflexivity|].
                apply IH in E2. cbn in E2.
                replace (S nc) with (nc + 1)%nat by lia. replace (S nw) with (nw + 1)%nat by lia. exact E2.
          -- destruct (proc (S nc) (Some (EcExport s))) as [y|] eqn:EP1; cbn [option_map] in Hrun.
             ++ inversion Hrun; subst. cbn [audit]. rewrite EP0, EP1. auto.
             ++ destruct (run' items _ _) as [r' evs'] eqn:E2. inversion Hrun; subst.
                cbn [app audit]. rewrite EP0, EP1.
                apply IH in E2. cbn in E2.
                replace (S (S nc)) with (nc + 2)%nat by lia. replace nw with (nw + 0)%nat at 1 by lia. exact E2.
          -- inversion Hrun; subst. cbn [audit]. rewrite EP0. exact I.
          -- inversion Hrun; subst. cbn [audit]. rewrite EP0. exact I.
        * destruct (proc nc (Some (EcImport s))) as [y|] eqn:EP1; cbn [option_map] in Hrun.
          -- inversion Hrun; subst. cbn [audit]. rewrite EP1. auto.
          -- destruct (run' items _ _) as [r' evs'] eqn:E2. inversion Hrun; subst.
             cbn [app audit]. rewrite EP1.
             apply IH in E2. cbn in E2.
             replace (S nc) with (nc + 1)%nat by lia. replace nw with (nw + 0)%nat at 1 by lia. exact E2.
        * inversion Hrun; subst. exact I.
        * inversion Hrun; subst. exact I.
      + destruct (proc nc (Some e)) as [y|] eqn:EP1; cbn [option_map] in Hrun.
        * inversion Hrun; subst. cbn [audit]. rewrite EP1. auto.
        * destruct (run' items _ _) as [r' evs'] eqn:E2. inversion Hrun; subst.
          cbn [app audit]. rewrite EP1.
          apply IH in E2. cbn in E2.
          replace (S nc) with (nc + 1)%nat by lia. replace nw with (nw + 0)%nat at 1 by lia. exact E2.
  Qed.

  (* readable consequences of the audit *)

  (* a processor call that returned an error is the last event, and its error is Stream's result *)
  Lemma audit_fatal_last : forall pre nc nw e post r x,
    audit nc nw (pre ++ EvCall e :: post) r ->
    proc (nc + ncalls pre) e = Some x ->
    post = [] /\ r = RErr x.
  Proof.
    induction pre as [|ev pre IH]; intros nc nw e post r x Ha Hp.
    - cbn [app audit] in Ha. replace (nc + ncalls [])%nat with nc in Hp by cnt.
      rewrite Hp in Ha. exact Ha.
    - cbn [app audit] in Ha. destruct ev as [e0|p n].
      + destruct (proc nc e0) as [y|] eqn:E0.
        * destruct Ha as [Hnil _]. destruct pre; discriminate.
        * apply (IH _ _ _ _ _ _ Ha). rewrite <- Hp. f_equal; try cnt.
      + destruct Ha as [_ Ha]. apply (IH _ _ _ _ _ _ Ha). rewrite <- Hp. f_equal; try cnt.
  Qed.

  (* a Write that failed is immediately followed by the processor call carrying io:write; a Write
     that did not fail was accepted in full *)
  Lemma audit_write : forall pre nc nw p n post r,
    audit nc nw (pre ++ EvWrite p n :: post) r ->
    match wf (nw + nwrites pre) with
    | None => n = lenZ p
    | Some m => n = Z.max 0 (Z.min m (lenZ p)) /\ exists post', post = EvCall (Some EcWrite) :: post'
    end.
  Proof.
    induction pre as [|ev pre IH]; intros nc nw p n post r Ha.
    - cbn [app audit] in Ha. replace (nw + nwrites [])%nat with nw by cnt. apply Ha.
    - cbn [app audit] in Ha. destruct ev as [e0|p0 n0].
      + destruct (proc nc e0) as [y|] eqn:E0.
        * destruct Ha as [Hnil _]. destruct pre; discriminate.
        * replace (nw + nwrites (EvCall e0 :: pre))%nat with (nw + nwrites pre)%nat by cnt.
          apply (IH _ _ _ _ _ _ Ha).
      + destruct Ha as [_ Ha].
        replace (nw + nwrites (EvWrite p0 n0 :: pre))%nat with (S nw + nwrites pre)%nat by cnt.
        apply (IH _ _ _ _ _ _ Ha).
  Qed.

  (* Stream returns an error exactly when the last event is a processor call that returned it *)
  Lemma audit_err : forall evs nc nw x,
    audit nc nw evs (RErr x) ->
    exists pre e, evs = pre ++ [EvCall e] /\ proc (nc + ncalls pre) e = Some x.
  Proof.
    induction evs as [|ev evs IH]; intros nc nw x Ha; [contradiction|].
    cbn [audit] in Ha. destruct ev as [e0|p0 n0].
    - destruct (proc nc e0) as [y|] eqn:E0.
      + destruct Ha as [-> Hr]. inversion Hr; subst. exists [], e0. split; [reflexivity|].
        rewrite <- E0. f_equal; try cnt.
      + destruct (IH _ _ _ Ha) as (pre & e & -> & Hp). exists (EvCall e0 :: pre), e. split; [reflexivity|].
        rewrite <- Hp. f_equal; try cnt.
    - destruct Ha as [_ Ha]. destruct (IH _ _ _ Ha) as (pre & e & -> & Hp).
      exists (EvWrite p0 n0 :: pre), e. split; [reflexivity|]. rewrite <- Hp. f_equal; try cnt.
  Qed.

  Lemma audit_ok_quiet : forall pre nc nw e post r,
    audit nc nw (pre ++ EvCall e :: post) r -> r = ROk -> proc (nc + ncalls pre) e = None.
  Proof.
    intros pre nc nw e post r Ha Hr.
    destruct (proc (nc + ncalls pre) e) as [x|] eqn:E; [|reflexivity].
    destruct (audit_fatal_last _ _ _ _ _ _ _ Ha E) as [_ H]. congruence.
  Qed.

  (* ---- a quiet environment: the trace is the concatenation of per-line events ---- *)

  Definition item_events (g : gitem) : list event :=
    match g with
    | GIo e => [EvCall (Some e)]
    | GTok t =>
        match get_row t with
        | Err s => [EvCall (Some (EcImport s))]
        | Ok r =>
            EvCall None ::
            match export_row r with
            | Ok b => [EvWrite (b ++ [10]) (lenZ (b ++ [10]))]
            | Err s => [EvCall (Some (EcExport s))]
            | _ => []
            end
        | _ => []
        end
    end.

  (* get_row / export_row neither panic nor run out of fuel on this token *)
  Definition tok_total (t : str) : Prop :=
    match get_row t with
    | Ok r => match export_row r with Panic | Fuel => False | _ => True end
    | Err _ => True
    | _ => False
    end.

  Definition item_total (g : gitem) : Prop :=
    match g with GIo _ => True | GTok t => tok_total t end.

  Lemma run_items_quiet : forall items nc nw,
    (forall i e, proc i e = None) -> (forall j, wf j = None) ->
    Forall item_total items ->
    run' items nc nw = (ROk, flat_map item_events items).
  Proof.
    intros items nc nw Hp Hw. revert nc nw.
    induction items as [|g items IH]; intros nc nw Ht; [reflexivity|].
    inversion Ht as [|? ? Hg Ht']; subst.
    cbn [run_items flat_map]. unfold item_run, item_events.
    destruct g as [t|e].
    - cbn [item_total] in Hg. unfold tok_total in Hg.
      destruct (get_row t) as [row|s| |]; try contradiction.
      + rewrite Hp. destruct (export_row row) as [b|s| |]; try contradiction.
        * rewrite Hw. rewrite IH by auto. reflexivity.
        * rewrite Hp. cbn [option_map]. rewrite IH by auto. reflexivity.
      + rewrite Hp. cbn [option_map]. rewrite IH by auto. reflexivity.
    - rewrite Hp. cbn [option_map]. rewrite IH by auto. reflexivity.
  Qed.

  Lemma run_items_app : forall a b nc nw,
    run' (a ++ b) nc nw =
    let '(r1, ev1) := run' a nc nw in
    match r1 with
    | ROk => let '(r2, ev2) := run' b (nc + ncalls ev1) (nw + nwrites ev1) in (r2, ev1 ++ ev2)
    | _ => (r1, ev1)
    end.
  Proof.
    induction a as [|g a IH]; intros b nc nw.
    - cbn [app run_items]. replace (nc + ncalls [])%nat with nc by (cbn; lia).
      replace (nw + nwrites [])%nat with nw by (cbn; lia).
      destruct (run' b nc nw). reflexivity.
    - cbn [app run_items]. destruct (item_run' g nc nw) as [x ev0] eqn:E0.
      destruct x as [r0|].
      + pose proof (item_run_not_ok _ _ _ _ _ E0) as Hn. destruct r0; try reflexivity. congruence.
      + rewrite IH. destruct (run' a _ _) as [r1 ev1].
        destruct r1; try reflexivity.
        rewrite ncalls_app, nwrites_app, !Nat.add_assoc.
        destruct (run' b _ _) as [r2 ev2]. rewrite app_assoc. reflexivity.
  Qed.
End FoldProps.

(* ================================================================================== *)
(* Part 5 — what the iteration sequence is, in terms of the lines of the stream          *)

(* some raw line (CR included, LF excluded) does not fit: needs more than C-1 bytes *)
Definition has_long (C : Z) (s : str) : Prop := exists l, In l (raw_lines s) /\ C <= lenZ l.

Lemma first_lf : forall s, (exists l rest, s = l ++ 10 :: rest /\ no_lf l) \/ no_lf s.
Proof.
  induction s as [|b s IH]; [right; apply no_lf_nil|].
  destruct (b =? 10) eqn:E.
  - left. exists [], s. assert (b = 10) by lia. subst. split; [reflexivity | apply no_lf_nil].
  - destruct IH as [(l & rest & -> & Hl)|Hn].
    + left. exists (b :: l), rest. split; [reflexivity|]. apply no_lf_cons. split; [lia | auto].
    + right. apply no_lf_cons. split; [lia | auto].
Qed.

Lemma spec_items_clean : forall C fuel s,
  0 < C -> (length s < fuel)%nat ->
  Forall (fun l => lenZ l < C) (raw_lines s) ->
  spec_items fuel C s None = map GTok (lines s).
Proof.
  intros C. induction fuel as [|f IH]; intros s HC Hf Hall; [lia|].
  cbn [spec_items]. destruct (first_lf s) as [(l & rest & -> & Hl)|Hn].
  - rewrite raw_lines_line in Hall by auto. inversion Hall as [|? ? H1 H2]; subst.
    rewrite span_line by (auto; exact I). cbn [ksub option_map].
    rewrite lines_line by auto. cbn [map]. f_equal. apply IH; auto.
    rewrite app_length in Hf. cbn [length] in Hf. unfold byte in *. lia.
  - rewrite raw_lines_tail in Hall by auto. rewrite lines_tail by auto.
    destruct s as [|b s].
    + rewrite span_eof; [reflexivity | apply no_lf_nil | rewrite lenZ_nil; lia | exact I].
    + inversion Hall as [|? ? H1 H2]; subst.
      rewrite span_eof; [reflexivity | auto | auto | exact I].
Qed.

Lemma spec_items_tokens_are_lines : forall C fuel d k t,
  In (GTok t) (spec_items fuel C d k) -> In t (lines d).
Proof.
  intros C. induction fuel as [|f IH]; intros d k t Hin; [inversion Hin|].
  cbn [spec_items] in Hin. pose proof (span_inv d C k) as Hs.
  destruct (span d C k) as [l rest k'|w|w e]; cbn [span_post] in Hs.
  - destruct Hs as (-> & Hl & _). rewrite lines_line by auto.
    destruct Hin as [Hin|Hin]; [inversion Hin; left; reflexivity | right; eauto].
  - destruct w; cbn in Hin; intuition discriminate.
  - destruct e.
    + destruct Hs as (-> & Hl & _). rewrite lines_tail by auto.
      destruct w; cbn in Hin; [contradiction|]. destruct Hin as [Hin|[]]. inversion Hin. left. reflexivity.
    + contradiction.
    + cbn in Hin. intuition discriminate.
Qed.

Lemma spec_items_error : forall C fuel d k,
  (length d < fuel)%nat ->
  (exists x, k = Some x /\ 0 <= x <= lenZ d) \/ has_long C d ->
  In (GIo EcRead) (spec_items fuel C d k) \/ In (GIo EcTooLong) (spec_items fuel C d k).
Proof.
  intros C. induction fuel as [|f IH]; intros d k Hf Hprem; [lia|].
  cbn [spec_items]. pose proof (span_inv d C k) as Hs.
  destruct (span d C k) as [l rest k'|w|w e]; cbn [span_post] in Hs.
  - destruct Hs as (-> & Hl & Hr & Hk & ->).
    assert (Hlen : (length rest < f)%nat) by (rewrite app_length in Hf; cbn [length] in Hf; unfold byte in *; lia).
    assert (Hprem' : (exists x, ksub k (lenZ l + 1) = Some x /\ 0 <= x <= lenZ rest) \/ has_long C rest).
    { destruct Hprem as [(x & -> & Hx)|(l0 & Hin & Hlong)].
      - left. exists (x - (lenZ l + 1)). split; [reflexivity|].
        rewrite lenZ_app, lenZ_cons in Hx. cbn [k_gt] in Hk. lia.
      - right. rewrite raw_lines_line in Hin by auto. destruct Hin as [<-|Hin]; [lia|].
        exists l0. auto. }
    destruct (IH rest _ Hlen Hprem') as [H|H]; [left | right]; right; exact H.
  - right. left. reflexivity.
  - destruct e.
    + destruct Hs as (-> & Hl & Hr & Hk). exfalso.
      destruct Hprem as [(x & -> & Hx)|(l0 & Hin & Hlong)].
      * cbn [k_gt] in Hk. lia.
      * rewrite raw_lines_tail in Hin by auto. destruct w; [inversion Hin|].
        destruct Hin as [<-|[]]. lia.
    + contradiction.
    + left. left. reflexivity.
Qed.

Lemma ksub_ksub k a b : ksub (ksub k a) b = ksub k (a + b).
Proof. destruct k; kk; [f_equal; lia | reflexivity]. Qed.
Lemma ksub_0 k : ksub k 0 = k.
Proof. destruct k; kk; [f_equal; lia | reflexivity]. Qed.

Lemma spec_items_prefix : forall C L f rest k,
  Forall (fun l => no_lf l /\ lenZ l < C) L ->
  k_gt k (lenZ (join_lf L []) - 1) ->
  spec_items (length L + f) C (join_lf L rest) k =
  map GTok (map drop_cr L) ++ spec_items f C rest (ksub k (lenZ (join_lf L []))).
Proof.
  intros C. induction L as [|l L IH]; intros f rest k Hall Hk.
  - cbn [length join_lf map app Nat.add]. rewrite lenZ_nil, ksub_0. reflexivity.
  - inversion Hall as [|? ? [Hl Hr] Hall']; subst.
    cbn [length join_lf map app Nat.add spec_items] in *.
    rewrite lenZ_app, lenZ_cons in *. pose proof (lenZ_nonneg (join_lf L [])) as Hn.
    rewrite span_line; auto; [| destruct k; kk; [lia | exact I]].
    f_equal. rewrite IH; auto.
    + rewrite ksub_ksub. do 3 f_equal. lia.
    + destruct k; kk; [lia | exact I].
Qed.

Lemma join_lf_length L t : (length L <= length (join_lf L t))%nat.
Proof. induction L as [|l L IH]; cbn [join_lf length]; [lia|]. rewrite app_length. cbn [length]. lia. Qed.

(* ================================================================================== *)
(* Part 6 — the theorems of C07 and C08 over the model                                  *)

Section Theorems.
  Variable R : Type.
  Variable get_row : str -> res R.
  Variable export_row : R -> res str.

  Notation StreamM := (Stream R get_row export_row).
  Notation line_events := (fun t => item_events R get_row export_row (GTok t)).

  (* ---------------- C07 ---------------- *)

  (* accounting: without faults and with a processor that never returns an error, the trace is
     the concatenation, in input order, of the events of each line, each of which is a function
     of that line only *)
  Theorem accounting : forall wf proc C s,
    0 < C ->
    Forall (fun l => lenZ l < C) (raw_lines s) ->
    (forall i e, proc i e = None) -> (forall j, wf j = None) ->
    Forall (tok_total R get_row export_row) (lines s) ->
    StreamM wf proc C s None = (ROk, flat_map line_events (lines s)).
  Proof.
    intros wf proc C s HC Hfit Hp Hw Htot.
    rewrite Stream_eq, spec_items_clean by (auto; lia).
    rewrite run_items_quiet; auto.
    - rewrite flat_map_concat_map, map_map, <- flat_map_concat_map. reflexivity.
    - apply Forall_forall. intros g Hg. apply in_map_iff in Hg as (t & <- & Ht).
      cbn [item_total]. eapply Forall_forall in Htot; eauto.
  Qed.

  (* ---------------- C08 ---------------- *)

  Theorem no_silent_loss : forall wf proc C s k r evs,
    (exists x, k = Some x /\ 0 <= x <= lenZ s) \/ has_long C s ->
    StreamM wf proc C s k = (r, evs) ->
    r <> ROk \/ In (EvCall (Some EcRead)) evs \/ In (EvCall (Some EcTooLong)) evs.
  Proof.
    intros wf proc C s k r evs Hprem Hrun. rewrite Stream_eq in Hrun.
    destruct (spec_items_error C (S (length s)) s k (Nat.lt_succ_diag_r _) Hprem) as [H|H];
      destruct (run_items_io _ _ _ _ _ _ _ _ _ _ _ H Hrun); auto.
  Qed.

  Theorem written_lines_complete : forall wf proc C s k r evs p n,
    StreamM wf proc C s k = (r, evs) -> In (EvWrite p n) evs ->
    exists t row b, In t (lines s) /\ get_row t = Ok row /\ export_row row = Ok b /\ p = b ++ [10].
  Proof.
    intros wf proc C s k r evs p n Hrun Hin. rewrite Stream_eq in Hrun.
    destruct (run_items_writes _ _ _ _ _ _ _ _ _ _ _ _ Hrun Hin) as (t & row & b & Ht & H1 & H2 & H3).
    exists t, row, b. repeat split; auto. eapply spec_items_tokens_are_lines; eauto.
  Qed.

  Theorem stream_audit : forall wf proc C s k r evs,
    StreamM wf proc C s k = (r, evs) -> audit wf proc O O evs r.
  Proof. intros. rewrite Stream_eq in H. eapply run_items_audit; eauto. Qed.

  Theorem fatal_stops : forall wf proc C s k r pre e post x,
    StreamM wf proc C s k = (r, pre ++ EvCall e :: post) ->
    proc (ncalls pre) e = Some x ->
    post = [] /\ r = RErr x.
  Proof.
    intros wf proc C s k r pre e post x Hrun Hp.
    apply stream_audit in Hrun. eapply audit_fatal_last; eauto.
  Qed.

  Theorem error_is_last_call : forall wf proc C s k x evs,
    StreamM wf proc C s k = (RErr x, evs) ->
    exists pre e, evs = pre ++ [EvCall e] /\ proc (ncalls pre) e = Some x.
  Proof. intros. apply stream_audit in H. apply audit_err in H. exact H. Qed.

  Theorem write_accounting : forall wf proc C s k r pre p n post,
    StreamM wf proc C s k = (r, pre ++ EvWrite p n :: post) ->
    match wf (nwrites pre) with
    | None => n = lenZ p
    | Some m => n = Z.max 0 (Z.min m (lenZ p)) /\ exists post', post = EvCall (Some EcWrite) :: post'
    end.
  Proof. intros. apply stream_audit in H. apply audit_write in H. exact H. Qed.

  Theorem processed_prefix : forall wf proc C L rest k,
    0 < C ->
    Forall (fun l => no_lf l /\ lenZ l < C) L ->
    k_gt k (lenZ (join_lf L []) - 1) ->
    let '(r1, ev1) := StreamM wf proc C (join_lf L []) None in
    match r1 with
    | ROk => exists r2 ev2, StreamM wf proc C (join_lf L rest) k = (r2, ev1 ++ ev2)
    | _ => StreamM wf proc C (join_lf L rest) k = (r1, ev1)
    end.
  Proof.
    intros wf proc C L rest k HC Hall Hk.
    rewrite !Stream_eq.
    assert (E1 : spec_items (S (length (join_lf L []))) C (join_lf L []) None = map GTok (map drop_cr L)).
    { pose proof (join_lf_length L []) as Hlen.
      replace (S (length (join_lf L []))) with (length L + (S (length (join_lf L [])) - length L))%nat by lia.
      rewrite spec_items_prefix by (auto; exact I).
      replace (S (length (join_lf L [])) - length L)%nat with (S (length (join_lf L []) - length L)) by lia.
      cbn [spec_items ksub option_map].
      rewrite span_eof; [apply app_nil_r | apply no_lf_nil | rewrite lenZ_nil; lia | exact I]. }
    assert (E2 : exists tail, spec_items (S (length (join_lf L rest))) C (join_lf L rest) k = map GTok (map drop_cr L) ++ tail).
    { pose proof (join_lf_length L rest) as Hlen.
      replace (S (length (join_lf L rest))) with (length L + (S (length (join_lf L rest)) - length L))%nat by lia.
      rewrite spec_items_prefix by auto. eauto. }
    destruct E2 as [tail E2]. rewrite E1, E2, run_items_app.
    destruct (run_items R get_row export_row wf proc (map GTok (map drop_cr L)) 0 0) as [r1 ev1].
    destruct r1; try reflexivity.
    destruct (run_items R get_row export_row wf proc tail _ _) as [r2 ev2]. eauto.
  Qed.
End Theorems.

(* ================================================================================== *)
(* Part 7 — chunk-size independence: the operational scanner refines the specification  *)

Definition kplus (k : option Z) (n : Z) : option Z := option_map (fun x => x + n) k.

(* the abstract state of a chunked scanner: what is buffered and what the reader still holds is
   one unconsumed stream *)
Definition abs (c : cstate) : sstate :=
  match c_err c with
  | None => Run (c_buf c ++ c_rd c) (kplus (c_k c) (lenZ (c_buf c)))
  | Some e => Stopped (c_buf c) e
  end.

Definition cinv (C : Z) (c : cstate) : Prop :=
  c_stuck c = false /\
  (c_err c = None -> lenZ (c_buf c) <= Z.max 0 C /\ match c_k c with Some x => 0 <= x | None => True end).

Lemma cut_lf_some : forall b l r, cut_lf b = Some (l, r) -> b = l ++ 10 :: r /\ no_lf l.
Proof.
  induction b as [|x b IH]; intros l r H; [discriminate|].
  cbn [cut_lf] in H. destruct (x =? 10) eqn:E.
  - inversion H; subst. assert (x = 10) by lia. subst. split; [reflexivity | apply no_lf_nil].
  - destruct (cut_lf b) as [[l0 r0]|] eqn:EC; [|discriminate]. inversion H; subst.
    destruct (IH _ _ eq_refl) as [-> Hl]. split; [reflexivity|]. apply no_lf_cons. split; [lia | auto].
Qed.

Lemma cut_lf_none : forall b, cut_lf b = None -> no_lf b.
Proof.
  induction b as [|x b IH]; intros H; [apply no_lf_nil|].
  cbn [cut_lf] in H. destruct (x =? 10) eqn:E; [discriminate|].
  destruct (cut_lf b) as [[l0 r0]|] eqn:EC; [discriminate|].
  apply no_lf_cons. split; [lia | auto].
Qed.

Lemma scan_lines_false_none b : scan_lines b false = None -> no_lf b.
Proof.
  unfold scan_lines. destruct b as [|x b]; [intros; apply no_lf_nil|].
  destruct (cut_lf (x :: b)) as [[l r]|] eqn:E; [discriminate|]. intros _. apply cut_lf_none. exact E.
Qed.

Lemma scan_lines_false_some b tok rest :
  scan_lines b false = Some (tok, rest) -> exists l, b = l ++ 10 :: rest /\ no_lf l /\ tok = drop_cr l.
Proof.
  unfold scan_lines. destruct b as [|x b]; [discriminate|].
  destruct (cut_lf (x :: b)) as [[l r]|] eqn:E; [|discriminate].
  intros H. inversion H; subst. destruct (cut_lf_some _ _ _ E) as [Hb Hl]. exists l. auto.
Qed.

Lemma takeZ_dropZ : forall l n, takeZ n l ++ dropZ n l = l.
Proof.
  induction l as [|x l IH]; intros n; [reflexivity|].
  cbn [takeZ dropZ]. destruct (n <=? 0); [reflexivity|]. cbn [app]. rewrite IH. reflexivity.
Qed.

Lemma lenZ_takeZ : forall l n, 0 <= n <= lenZ l -> lenZ (takeZ n l) = n.
Proof.
  induction l as [|x l IH]; intros n Hn.
  - rewrite lenZ_nil in Hn. cbn [takeZ]. rewrite lenZ_nil. lia.
  - rewrite lenZ_cons in Hn. cbn [takeZ]. destruct (n <=? 0) eqn:E.
    + rewrite lenZ_nil. lia.
    + rewrite lenZ_cons, IH; lia.
Qed.

Lemma read_size_bounds room c :
  c_rd c <> [] -> k_hit (c_k c) = false -> 0 < room ->
  let n := read_size room c in
  1 <= n <= room /\ n <= lenZ (c_rd c) /\ match c_k c with Some x => n <= x | None => True end.
Proof.
  intros Hrd Hk Hroom. unfold read_size.
  assert (Hl : 1 <= lenZ (c_rd c)).
  { destruct (c_rd c) as [|y l]; [congruence|]. rewrite lenZ_cons. pose proof (lenZ_nonneg l). lia. }
  destruct (c_k c) as [x|]; cbn [k_hit] in Hk; destruct (c_chunks c) as [|ch chs]; lia.
Qed.

Lemma scan_run_fault C buf rd :
  no_lf buf -> lenZ buf < C ->
  scan C (Run (buf ++ rd) (Some (lenZ buf))) = scan C (Stopped buf SRead).
Proof.
  intros Hn Hl. cbn [scan]. rewrite span_fault by auto.
  destruct buf as [|b buf]; [reflexivity|].
  rewrite scan_lines_no_lf_eof by (auto; discriminate). reflexivity.
Qed.

Lemma scan_run_eof C buf k :
  no_lf buf -> lenZ buf < C -> k_gt k (lenZ buf) ->
  scan C (Run buf k) = scan C (Stopped buf SEof).
Proof.
  intros Hn Hl Hk. cbn [scan]. rewrite span_eof by auto.
  destruct buf as [|b buf]; [reflexivity|].
  rewrite scan_lines_no_lf_eof by (auto; discriminate). reflexivity.
Qed.

Lemma cscan_loop_sim : forall C fuel c t c',
  cinv C c ->
  (match c_err c with None => length (c_rd c) + 2 | Some _ => 0 end < fuel)%nat ->
  cscan_loop fuel C c = (t, c') ->
  scan C (abs c) = (t, abs c') /\ cinv C c'.
Proof.
  intros C. induction fuel as [|f IH]; intros c t c' Hinv Hf Hrun; [lia|].
  destruct Hinv as [Hst Hinv].
  cbn [cscan_loop] in Hrun. unfold abs at 1.
  destruct (c_err c) as [e|] eqn:Eerr.
  - (* the scanner already stopped *)
    cbn [scan]. destruct (scan_lines (c_buf c) true) as [[tok rest]|].
    + inversion Hrun; subst. unfold abs, cinv. cbn [c_err c_buf c_stuck]. rewrite ?Eerr.
      split; [reflexivity|]. split; [exact Hst|]. intros Hx; discriminate Hx.
    + inversion Hrun; subst. unfold abs, cinv. cbn [c_err c_buf c_stuck]. rewrite ?Eerr.
      split; [reflexivity|]. split; [exact Hst|]. intros Hx; discriminate Hx.
  - destruct (Hinv eq_refl) as [Hlen Hk]. clear Hinv.
    pose proof (lenZ_nonneg (c_buf c)) as Hb0.
    destruct (scan_lines (c_buf c) false) as [[tok rest]|] eqn:ESL.
    + (* a complete line is buffered *)
      inversion Hrun; subst. clear Hrun.
      destruct (scan_lines_false_some _ _ _ ESL) as (l & Hbuf & Hl & ->).
      pose proof (lenZ_nonneg l) as Hl0. pose proof (lenZ_nonneg rest) as Hr0.
      assert (Hlb : lenZ (c_buf c) = lenZ l + 1 + lenZ rest) by (rewrite Hbuf, lenZ_app, lenZ_cons; lia).
      cbn [scan]. rewrite Hbuf, <- app_assoc. cbn [app].
      rewrite span_line; auto; [| lia | rewrite <- Hbuf; destruct (c_k c); kk; unfold kplus, option_map; [lia | exact I]].
      unfold abs, cinv. cbn [c_err c_buf c_rd c_k c_stuck].
      repeat split; auto; try lia.
      f_equal. f_equal. rewrite <- Hbuf. destruct (c_k c); unfold ksub, kplus, option_map; [f_equal; lia | reflexivity].
    + pose proof (scan_lines_false_none _ ESL) as Hnl.
      destruct (C <=? lenZ (c_buf c)) eqn:EC.
      * (* buffer full: ErrTooLong *)
        inversion Hrun; subst. clear Hrun.
        unfold abs at 1, cinv. cbn [c_err c_buf c_stuck].
        split; [|split; [auto | discriminate]].
        cbn [scan]. destruct (Z_le_gt_dec C 0) as [HC|HC].
        -- assert (Hnil : c_buf c = []) by (destruct (c_buf c) as [|y0 l0]; [reflexivity | rewrite lenZ_cons in *; pose proof (lenZ_nonneg l0); lia]).
           rewrite span_full_nonpos by lia. rewrite Hnil. reflexivity.
        -- rewrite span_full; auto; [lia|].
           destruct (c_k c); kk; unfold kplus, option_map; [lia | exact I].
      * destruct (k_hit (c_k c)) eqn:EK.
        -- (* the reader fails *)
           destruct (c_k c) as [x|] eqn:Ek; [|discriminate]. cbn [k_hit] in EK.
           assert (x = 0) by lia. subst x.
           set (c1 := mkcs (c_buf c) (c_rd c) (Some 0) (tl (c_chunks c)) (Some SRead) (c_stuck c)) in *.
           assert (Hi1 : cinv C c1) by (unfold cinv, c1; cbn; split; [auto | discriminate]).
           destruct (IH c1 t c' Hi1 ltac:(cbn; lia) Hrun) as [Hs Hi'].
           split; [|exact Hi'].
           unfold kplus, option_map. replace (0 + lenZ (c_buf c)) with (lenZ (c_buf c)) by lia.
           rewrite scan_run_fault by (auto; lia). exact Hs.
        -- destruct (c_rd c) as [|y rd] eqn:Erd.
           ++ (* EOF *)
              set (c1 := mkcs (c_buf c) [] (c_k c) (tl (c_chunks c)) (Some SEof) (c_stuck c)) in *.
              assert (Hi1 : cinv C c1) by (unfold cinv, c1; cbn; split; [auto | discriminate]).
              destruct (IH c1 t c' Hi1 ltac:(cbn; lia) Hrun) as [Hs Hi'].
              split; [|exact Hi'].
              rewrite app_nil_r. rewrite scan_run_eof; auto; [lia|].
              destruct (c_k c); kk; unfold kplus, option_map; [lia | exact I].
           ++ (* one Read call *)
              rewrite <- Erd in *.
              assert (Hne : c_rd c <> []) by (rewrite Erd; discriminate).
              destruct (read_size_bounds (C - lenZ (c_buf c)) c Hne EK ltac:(lia)) as (Hn1 & Hn2 & Hn3).
              set (n := read_size (C - lenZ (c_buf c)) c) in *.
              set (c1 := mkcs (c_buf c ++ takeZ n (c_rd c)) (dropZ n (c_rd c))
                              (option_map (fun k => k - n) (c_k c)) (tl (c_chunks c)) None (c_stuck c)) in *.
              assert (Htk : lenZ (takeZ n (c_rd c)) = n) by (apply lenZ_takeZ; lia).
              assert (Hi1 : cinv C c1).
              { unfold cinv, c1. cbn [c_stuck c_err c_buf c_k]. split; [auto|]. intros _.
                rewrite lenZ_app, Htk. split; [lia|]. destruct (c_k c); cbn [option_map]; [lia | exact I]. }
              assert (Hlen1 : (length (c_rd c1) + 2 < f)%nat).
              { unfold c1. cbn [c_rd c_err].
                assert (Hd : lenZ (takeZ n (c_rd c)) + lenZ (dropZ n (c_rd c)) = lenZ (c_rd c))
                  by (rewrite <- lenZ_app, takeZ_dropZ; reflexivity).
                unfold lenZ in *. unfold byte in *. lia. }
              assert (Habs : abs c1 = Run (c_buf c ++ c_rd c) (kplus (c_k c) (lenZ (c_buf c)))).
              { unfold abs, c1. cbn [c_err c_buf c_rd c_k]. rewrite <- app_assoc, takeZ_dropZ.
                f_equal. rewrite lenZ_app, Htk. destruct (c_k c); unfold kplus, option_map; [f_equal; lia | reflexivity]. }
              destruct (IH c1 t c' Hi1 ltac:(cbn [c_err c1]; exact Hlen1) Hrun) as [Hs Hi'].
              split; [|exact Hi']. rewrite <- Habs. exact Hs.
Qed.

Lemma cscan_sim C c t c' :
  cinv C c -> cscan C c = (t, c') -> scan C (abs c) = (t, abs c') /\ cinv C c'.
Proof.
  intros Hi Hr. unfold cscan in Hr.
  apply (cscan_loop_sim C (length (c_rd c) + 3) c t c' Hi); [|exact Hr].
  destruct (c_err c); unfold byte in *; lia.
Qed.

Lemma c_public_err_abs c : c_public_err c = sc_err (abs c).
Proof. unfold c_public_err, abs. destruct (c_err c); reflexivity. Qed.

(* the importer over the chunked scanner goes through the same loop iterations *)
Lemma ImportSeq_chunked C : forall ia items,
  ImportSeq (scan C) sc_err ia items ->
  forall ib, i_sc ia = abs (i_sc ib) -> cinv C (i_sc ib) -> i_tok ia = i_tok ib -> i_failed ia = i_failed ib ->
  ImportSeq (cscan C) c_public_err ib items.
Proof.
  induction 1 as [ia ia' HI | ia i1 items HI HS IH]; intros ib Hsc Hinv Htok Hfl.
  - destruct (cscan C (i_sc ib)) as [t cb'] eqn:EC.
    destruct (cscan_sim _ _ _ _ Hinv EC) as [Hs Hi'].
    unfold Import in HI. rewrite Hsc, Hs in HI.
    eapply IS_stop with (i' := snd (Import cstate (cscan C) c_public_err ib)).
    unfold Import. rewrite EC, c_public_err_abs, <- Hfl.
    destruct t; [inversion HI|].
    destruct (sc_err (abs cb')); [destruct (i_failed ia); [reflexivity | inversion HI] | reflexivity].
  - destruct (cscan C (i_sc ib)) as [t cb'] eqn:EC.
    destruct (cscan_sim _ _ _ _ Hinv EC) as [Hs Hi'].
    unfold Import in HI. rewrite Hsc, Hs in HI.
    set (i1b := snd (Import cstate (cscan C) c_public_err ib)).
    assert (HIb : Import cstate (cscan C) c_public_err ib = (true, i1b)
                  /\ i_sc i1 = abs (i_sc i1b) /\ cinv C (i_sc i1b) /\ i_tok i1 = i_tok i1b /\ i_failed i1 = i_failed i1b).
    { unfold i1b, Import. rewrite EC, c_public_err_abs, <- Hfl.
      destruct t.
      - inversion HI; subst. cbn. auto.
      - destruct (sc_err (abs cb')); [destruct (i_failed ia); [inversion HI|] | inversion HI].
        inversion HI; subst. cbn. auto. }
    destruct HIb as (HIb & H1 & H2 & H3 & H4).
    assert (Hitem : item_of sc_err i1 = item_of c_public_err i1b).
    { unfold item_of. rewrite c_public_err_abs, <- H1, H3. reflexivity. }
    rewrite Hitem. refine (IS_more _ _ _ _ _ _ HIb _).
    apply IH; unfold after_getrow; rewrite c_public_err_abs, <- H1;
      destruct (sc_err (i_sc i1)); cbn [i_sc i_tok i_failed]; auto.
Qed.

Section Chunking.
  Variable R : Type.
  Variable get_row : str -> res R.
  Variable export_row : R -> res str.

  (* C07, chunking independence: whatever sizes the reader returns per Read call, the run over
     the operational scanner equals the run over the chunk-free specification *)
  Theorem chunking : forall wf proc C s k chunks,
    match k with Some x => 0 <= x | None => True end ->
    StreamChunked R get_row export_row wf proc C s k chunks = Stream R get_row export_row wf proc C s k.
  Proof.
    intros wf proc C s k chunks Hk. rewrite Stream_eq.
    unfold StreamChunked, stream_fuel, NewImporter.
    assert (HS : ImportSeq (cscan C) c_public_err (mkimp (c_init s k chunks) [] false)
                           (spec_items (S (length s)) C s k)).
    { eapply ImportSeq_chunked.
      - apply (spec_items_seq C (S (length s)) s k []). lia.
      - cbn [i_sc]. unfold abs, c_init. cbn [c_err c_buf c_rd c_k app]. rewrite lenZ_nil.
        f_equal. destruct k; unfold kplus, option_map; [f_equal; lia | reflexivity].
      - unfold cinv, c_init. cbn. split; [reflexivity|]. intros _. split; [lia | exact Hk].
      - reflexivity.
      - reflexivity. }
    rewrite (stream_loop_run R get_row export_row wf proc cstate (cscan C) c_public_err _ _ HS).
    - cbn [ost0 o_calls o_writes]. destruct (run_items R get_row export_row wf proc _ O O) as [r evs].
      cbn [fst snd]. unfold ost_after. cbn [o_trace ost0]. rewrite app_nil_r, rev_involutive. reflexivity.
    - pose proof (spec_items_length C (S (length s)) s k). lia.
  Qed.
End Chunking.

(* ================================================================================== *)
(* Part 8 — independence, and non-vacuity examples                                     *)

(* the events of one line: a function of the line and the templates only *)
Definition line_events (R : Type) (get_row : str -> res R) (export_row : R -> res str) (t : str) : list event :=
  item_events R get_row export_row (GTok t).

Lemma independence : forall (R : Type) (get_row : str -> res R) (export_row : R -> res str)
                            (pre post pre' post' : list str) (t : str),
  let T := flat_map (line_events R get_row export_row) in
  T (pre ++ t :: post) = T pre ++ line_events R get_row export_row t ++ T post /\
  T (pre' ++ t :: post') = T pre' ++ line_events R get_row export_row t ++ T post'.
Proof. intros. split; unfold T; rewrite flat_map_app; reflexivity. Qed.

Module Examples.
  (* a toy instance: rows are strings; "{}" is accepted and written back as "{}", "1" is rejected
     on input, "x" is accepted on input and rejected on output *)
  Definition ex_get (t : str) : res str :=
    if str_eqb t [49] then Err ErrNoWrap else Ok t.
  Definition ex_exp (r : str) : res str :=
    if str_eqb r [120] then Err ErrUnsupportedFormat else Ok r.
  Definition quiet_wf : nat -> option Z := fun _ => None.

  (* "{}\n1\r\n\nx\n{}"  : LF, CRLF, a blank line, a final unterminated line *)
  Definition ex_s : str := [123;125;10; 49;13;10; 10; 120;10; 123;125].

  Example ex_lines : lines ex_s = [[123;125]; [49]; []; [120]; [123;125]].
  Proof. reflexivity. Qed.

  (* the hypotheses of accounting hold for ex_s with C = 8, and its conclusion is non-trivial *)
  Example ex_accounting_hyps :
    0 < 8 /\ Forall (fun l => lenZ l < 8) (raw_lines ex_s) /\
    Forall (tok_total str ex_get ex_exp) (lines ex_s).
  Proof.
    split; [lia|]. split.
    - unfold ex_s. cbv [raw_lines split_lf Z.eqb Pos.eqb app]. repeat constructor.
    - cbv. repeat constructor.
  Qed.

  Example ex_accounting_run :
    Stream str ex_get ex_exp quiet_wf NoFailureProcessor 8 ex_s None =
    (ROk, [EvCall None; EvWrite [123;125;10] 3;
           EvCall (Some (EcImport ErrNoWrap));
           EvCall None; EvWrite [10] 1;
           EvCall None; EvCall (Some (EcExport ErrUnsupportedFormat));
           EvCall None; EvWrite [123;125;10] 3]).
  Proof. vm_compute. reflexivity. Qed.

  (* chunking: the operational scanner with 1-byte reads gives the same run *)
  Example ex_chunked_run :
    StreamChunked str ex_get ex_exp quiet_wf NoFailureProcessor 8 ex_s None [1;1;1;1;1;1;1;1;1;1;1;1] =
    Stream str ex_get ex_exp quiet_wf NoFailureProcessor 8 ex_s None.
  Proof. vm_compute. reflexivity. Qed.

  (* C08: the F2 witness of DESIGN.md — a reader fault at offset 0 of "{}\n" (no partial token)
     reaches the processor; with the default processor it becomes Stream's return value *)
  Example ex_fault_at_0 :
    Stream str ex_get ex_exp quiet_wf NoFailureProcessor 8 [123;125;10] (Some 0) = (ROk, [EvCall (Some EcRead)]) /\
    Stream str ex_get ex_exp quiet_wf DefaultProcessor 8 [123;125;10] (Some 0) = (RErr EcRead, [EvCall (Some EcRead)]).
  Proof. split; vm_compute; reflexivity. Qed.

  (* a fault on a line boundary: the first line has its outcome, then the error is delivered *)
  Example ex_fault_on_boundary :
    Stream str ex_get ex_exp quiet_wf NoFailureProcessor 8 ex_s (Some 3) =
    (ROk, [EvCall None; EvWrite [123;125;10] 3; EvCall (Some EcRead)]).
  Proof. vm_compute. reflexivity. Qed.

  (* an over-long line (C = 2: "{}" + LF does not fit): ErrTooLong is delivered — twice under a
     tolerant processor, because Scan() hands out the buffered bytes as one more token *)
  Example ex_too_long :
    has_long 2 ex_s /\
    Stream str ex_get ex_exp quiet_wf NoFailureProcessor 2 ex_s None =
    (ROk, [EvCall (Some EcTooLong); EvCall (Some EcTooLong)]).
  Proof.
    split; [|vm_compute; reflexivity].
    exists [123;125]. split; [cbv; auto | cbv; discriminate].
  Qed.

  (* a short write on the first Write, made fatal by the default processor: nothing follows *)
  Example ex_write_fault :
    Stream str ex_get ex_exp (fun j => if Nat.eqb j 0 then Some 1 else None) DefaultProcessor 8 ex_s None =
    (RErr EcWrite, [EvCall None; EvWrite [123;125;10] 1; EvCall (Some EcWrite)]).
  Proof. vm_compute. reflexivity. Qed.

  (* processed prefix: hypotheses satisfiable *)
  Example ex_prefix_hyps :
    Forall (fun l => no_lf l /\ lenZ l < 8) [[123;125]; [49;13]] /\
    join_lf [[123;125]; [49;13]] [10; 120;10; 123;125] = ex_s.
  Proof.
    split; [|reflexivity].
    repeat constructor; try (cbv; lia); intros H; cbv in H; intuition discriminate.
  Qed.
End Examples.
