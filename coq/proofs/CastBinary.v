(* C11 — binary form of fixed-width values: lemmas over the generated model (CastGen). *)
From Coq Require Import ZArith List Bool Lia.
From JL.std Require Import GoBase GoFloat GoStrconv GoTime GoVal GoBase64.
From JL.gen Require Import CastGen.
From JL.proofs Require Import CastTactics.
Import ListNotations.
Open Scope Z_scope.

Lemma put_le_make n v : put_le n (make_bytes (Z.of_nat n)) v = Some (le_bytes n v).
Proof.
  unfold put_le, make_bytes. rewrite Nat2Z.id, repeat_length.
  rewrite Z.ltb_irrefl. rewrite skipn_all2 by (rewrite repeat_length; lia).
  rewrite app_nil_r. reflexivity.
Qed.

Lemma get_le_exact n b : length b = n -> get_le n b = Some (le_value b).
Proof.
  intros H. unfold get_le. rewrite H, Z.ltb_irrefl.
  rewrite <- H, firstn_all. reflexivity.
Qed.

Lemma set_at_make1 v : set_at (make_bytes 1) 0 v = Some [v].
Proof. reflexivity. Qed.

Lemma le_bytes1 x : 0 <= x < 256 -> le_bytes 1 x = [x].
Proof. intros H. cbn [le_bytes]. rewrite Z.mod_small by lia. reflexivity. Qed.

Definition size_nat (k : ikind) : nat := Z.to_nat (isize k).

Lemma ibits_size k : 2 ^ ibits k = 256 ^ Z.of_nat (size_nat k).
Proof. destruct k; reflexivity. Qed.

Lemma mod_range k z : 0 <= z mod 2 ^ ibits k < 256 ^ Z.of_nat (size_nat k).
Proof. rewrite <- ibits_size. apply Z.mod_pos_bound, pow2_ibits_pos. Qed.

Lemma conv_int_of_mod k z : conv_int k (z mod 2 ^ ibits k) = conv_int k z.
Proof. unfold conv_int. rewrite Z.mod_mod by (pose proof (pow2_ibits_pos k); lia). reflexivity. Qed.

(* the unsigned carrier of the same width *)
Definition ucarrier (k : ikind) : ikind :=
  match k with
  | KInt | KInt64 | KUint | KUint64 => KUint64
  | KInt32 | KUint32 => KUint32
  | KInt16 | KUint16 => KUint16
  | KInt8 | KUint8 => KUint8
  end.

Lemma conv_ucarrier k z : conv_int (ucarrier k) z = z mod 2 ^ ibits k.
Proof. destruct k; reflexivity. Qed.

Definition sample (k : ikind) : gval := VInt k 0.

Definition sentinel_of (k : ikind) : sentinel :=
  match k with
  | KInt => ErrUnableToCastToInt | KInt64 => ErrUnableToCastToInt64 | KInt32 => ErrUnableToCastToInt32
  | KInt16 => ErrUnableToCastToInt16 | KInt8 => ErrUnableToCastToInt8
  | KUint => ErrUnableToCastToUint | KUint64 => ErrUnableToCastToUint64 | KUint32 => ErrUnableToCastToUint32
  | KUint16 => ErrUnableToCastToUint16 | KUint8 => ErrUnableToCastToUint8
  end.

Section CastBinary.
  Context (O : oracles).

  Ltac unfold_cast := cast_unfold_top; unfold sample.

  (* ---- encoding ---- *)
  Lemma encode_le k z :
    in_range k z ->
    ToBinary O (VInt k z) = Ok (VBytes (mkbytes (le_bytes (size_nat k) (z mod 2 ^ ibits k)))).
  Proof.
    intros Hr.
    assert (Hu : forall kk, in_range kk z -> isigned kk = false -> z mod 2 ^ ibits kk = z).
    { intros kk H Hs. unfold in_range, imin, imax in H. rewrite Hs in H.
      apply Z.mod_small. lia. }
    destruct k; unfold_cast; cbn [bdata mkbytes];
      try (change (make_bytes 8) with (make_bytes (Z.of_nat 8));
           change (make_bytes 4) with (make_bytes (Z.of_nat 4));
           change (make_bytes 2) with (make_bytes (Z.of_nat 2));
           rewrite put_le_make);
      try reflexivity;
      try (rewrite (Hu _ Hr eq_refl); reflexivity).
    - (* int8 *) rewrite set_at_make1. change (size_nat KInt8) with 1%nat.
      rewrite le_bytes1 by (change (2 ^ ibits KInt8) with 256; apply Z.mod_pos_bound; lia).
      reflexivity.
    - (* uint8 *) rewrite set_at_make1. change (size_nat KUint8) with 1%nat.
      rewrite (Hu _ Hr eq_refl). unfold in_range in Hr. cbn in Hr.
      rewrite le_bytes1 by lia. reflexivity.
  Qed.

  (* ---- decoding a byte slice of exactly the type's size ---- *)
  Lemma wf_bytes_notnil b : wf_gval (VBytes b) -> length (bdata b) <> 0%nat -> bnil b = false.
  Proof.
    intros [_ Hn] Hl. destruct (bnil b); [|reflexivity].
    rewrite (Hn eq_refl) in Hl. contradiction Hl. reflexivity.
  Qed.

  Lemma decode_bytes k b :
    wf_gval (VBytes b) -> length (bdata b) = size_nat k ->
    To O (sample k) (VBytes b) = Ok (VInt k (conv_int k (le_value (bdata b)))).
  Proof.
    intros Hwf Hl.
    assert (Hnn : bnil b = false) by (apply wf_bytes_notnil; [exact Hwf | rewrite Hl; destruct k; discriminate]).
    destruct Hwf as [Hok _].
    assert (H1 : size_nat k = 1%nat -> exists x, bdata b = [x] /\ is_byte x).
    { intros E. rewrite E in Hl. destruct (bdata b) as [|x [|y r]]; try discriminate Hl.
      exists x. split; [reflexivity|]. inversion Hok; assumption. }
    destruct k; try (destruct (H1 eq_refl) as [x [Eb Hx]]; clear H1);
      unfold_cast; unfold blen; rewrite ?Hnn; 
      try (rewrite Hl;
           match goal with |- context [negb (Z.of_nat (size_nat ?kk) =? ?n)] =>
             change (negb (Z.of_nat (size_nat kk) =? n)) with false end;
           cbn [orb]; rewrite get_le_exact by exact Hl; try reflexivity;
           (* unsigned types of full width return the decoded value without conversion *)
           do 2 f_equal; symmetry; apply conv_int_id;
           pose proof (le_value_range _ Hok) as Hrg; rewrite Hl in Hrg;
           unfold in_range, imin, imax; cbn [isigned];
           match goal with |- context [2 ^ ibits ?kk] => rewrite (ibits_size kk) end; lia).
    - (* int8 *) rewrite Eb. change (negb (Z.of_nat (length [x]) =? 1)) with false.
      change (get_at [x] 0) with (Some x). change (le_value [x]) with (x + 256 * 0).
      rewrite Z.mul_0_r, Z.add_0_r. reflexivity.
    - (* uint8 *) rewrite Eb. change (negb (Z.of_nat (length [x]) =? 1)) with false.
      change (get_at [x] 0) with (Some x). change (le_value [x]) with (x + 256 * 0).
      rewrite Z.mul_0_r, Z.add_0_r. unfold is_byte in Hx.
      rewrite conv_int_id by (unfold in_range; cbn; lia). reflexivity.
  Qed.

  Lemma reject_length k b :
    length (bdata b) <> size_nat k ->
    To O (sample k) (VBytes b) = Err (sentinel_of k).
  Proof.
    intros Hl.
    assert (Hne : (blen b =? isize k) = false).
    { apply Z.eqb_neq. unfold blen, size_nat in *. intros E. apply Hl. rewrite <- E. symmetry. apply Nat2Z.id. }
    destruct k; unfold_cast; cbn [isize] in Hne; rewrite Hne; cbn [negb orb];
      rewrite ?orb_true_r; reflexivity.
  Qed.

  Lemma decode_encode k z :
    in_range k z ->
    bind (ToBinary O (VInt k z)) (fun b => To O (sample k) b) = Ok (VInt k z).
  Proof.
    intros Hr. rewrite encode_le by exact Hr. cbn [bind].
    rewrite decode_bytes.
    - cbn [bdata mkbytes]. rewrite le_value_bytes by apply mod_range.
      rewrite conv_int_of_mod, conv_int_id by exact Hr. reflexivity.
    - unfold wf_gval, mkbytes; cbn [bdata bnil]. split; [apply le_bytes_ok | discriminate].
    - cbn [bdata mkbytes]. apply le_bytes_length.
  Qed.

  Lemma encode_decode k b :
    wf_gval (VBytes b) -> length (bdata b) = size_nat k ->
    exists z, To O (sample k) (VBytes b) = Ok (VInt k z) /\ in_range k z
              /\ ToBinary O (VInt k z) = Ok (VBytes (mkbytes (bdata b))).
  Proof.
    intros Hwf Hl. exists (conv_int k (le_value (bdata b))).
    split; [apply decode_bytes; assumption|].
    split; [apply conv_int_range|].
    rewrite encode_le by apply conv_int_range.
    rewrite conv_int_mod. destruct Hwf as [Hok _].
    pose proof (le_value_range _ Hok) as Hrg. rewrite Hl, <- ibits_size in Hrg.
    rewrite Z.mod_small by exact Hrg.
    rewrite <- Hl, le_bytes_value by exact Hok. reflexivity.
  Qed.

  (* ---- floats: the bit pattern, unchanged ---- *)
  Lemma f64_encode x : ToBinary O (VF64 x) = Ok (VBytes (mkbytes (le_bytes 8 x))).
  Proof.
    unfold_cast. cbn [bdata mkbytes]. change (make_bytes 8) with (make_bytes (Z.of_nat 8)).
    rewrite put_le_make. reflexivity.
  Qed.

  Lemma f32_encode x : ToBinary O (VF32 x) = Ok (VBytes (mkbytes (le_bytes 4 x))).
  Proof.
    unfold_cast. cbn [bdata mkbytes]. change (make_bytes 4) with (make_bytes (Z.of_nat 4)).
    rewrite put_le_make. reflexivity.
  Qed.

  Lemma f64_decode b :
    wf_gval (VBytes b) -> length (bdata b) = 8%nat ->
    To O (VF64 0) (VBytes b) = Ok (VF64 (le_value (bdata b))).
  Proof.
    intros Hwf Hl. assert (Hnn : bnil b = false) by (apply wf_bytes_notnil; [exact Hwf | rewrite Hl; discriminate]).
    unfold_cast. unfold blen. rewrite Hnn, Hl. cbn [Z.of_nat Pos.of_succ_nat Pos.succ Z.eqb Pos.eqb negb orb].
    rewrite get_le_exact by exact Hl. reflexivity.
  Qed.

  Lemma f32_decode b :
    wf_gval (VBytes b) -> length (bdata b) = 4%nat ->
    To O (VF32 0) (VBytes b) = Ok (VF32 (le_value (bdata b))).
  Proof.
    intros Hwf Hl. assert (Hnn : bnil b = false) by (apply wf_bytes_notnil; [exact Hwf | rewrite Hl; discriminate]).
    unfold_cast. unfold blen. rewrite Hnn, Hl. cbn [Z.of_nat Pos.of_succ_nat Pos.succ Z.eqb Pos.eqb negb orb].
    rewrite get_le_exact by exact Hl. reflexivity.
  Qed.

  Lemma f64_reject b : length (bdata b) <> 8%nat -> To O (VF64 0) (VBytes b) = Err ErrUnableToCastToFloat64.
  Proof.
    intros Hl. assert (Hne : (blen b =? 8) = false) by (apply Z.eqb_neq; unfold blen; lia).
    unfold_cast. rewrite Hne. cbn [negb]. rewrite orb_true_r. reflexivity.
  Qed.

  Lemma f32_reject b : length (bdata b) <> 4%nat -> To O (VF32 0) (VBytes b) = Err ErrUnableToCastToFloat32.
  Proof.
    intros Hl. assert (Hne : (blen b =? 4) = false) by (apply Z.eqb_neq; unfold blen; lia).
    unfold_cast. rewrite Hne. cbn [negb]. rewrite orb_true_r. reflexivity.
  Qed.

  Lemma f64_roundtrip x : 0 <= x < 2 ^ 64 ->
    bind (ToBinary O (VF64 x)) (fun b => To O (VF64 0) b) = Ok (VF64 x).
  Proof.
    intros Hx. rewrite f64_encode. cbn [bind]. rewrite f64_decode.
    - cbn [bdata mkbytes]. rewrite le_value_bytes by (change (256 ^ Z.of_nat 8) with (2 ^ 64); exact Hx). reflexivity.
    - unfold wf_gval, mkbytes; cbn [bdata bnil]. split; [apply le_bytes_ok | discriminate].
    - reflexivity.
  Qed.

  Lemma f32_roundtrip x : 0 <= x < 2 ^ 32 ->
    bind (ToBinary O (VF32 x)) (fun b => To O (VF32 0) b) = Ok (VF32 x).
  Proof.
    intros Hx. rewrite f32_encode. cbn [bind]. rewrite f32_decode.
    - cbn [bdata mkbytes]. rewrite le_value_bytes by (change (256 ^ Z.of_nat 4) with (2 ^ 32); exact Hx). reflexivity.
    - unfold wf_gval, mkbytes; cbn [bdata bnil]. split; [apply le_bytes_ok | discriminate].
    - reflexivity.
  Qed.

  Lemma f64_bytes_roundtrip b :
    wf_gval (VBytes b) -> length (bdata b) = 8%nat ->
    bind (To O (VF64 0) (VBytes b)) (ToBinary O) = Ok (VBytes (mkbytes (bdata b))).
  Proof.
    intros Hwf Hl. rewrite f64_decode by assumption. cbn [bind]. rewrite f64_encode.
    destruct Hwf as [Hok _]. rewrite <- Hl, le_bytes_value by exact Hok. reflexivity.
  Qed.

  Lemma f32_bytes_roundtrip b :
    wf_gval (VBytes b) -> length (bdata b) = 4%nat ->
    bind (To O (VF32 0) (VBytes b)) (ToBinary O) = Ok (VBytes (mkbytes (bdata b))).
  Proof.
    intros Hwf Hl. rewrite f32_decode by assumption. cbn [bind]. rewrite f32_encode.
    destruct Hwf as [Hok _]. rewrite <- Hl, le_bytes_value by exact Hok. reflexivity.
  Qed.

  (* ---- bool: one byte, normalising ---- *)
  Lemma bool_encode v : ToBinary O (VBool v) = Ok (VBytes (mkbytes [if v then 1 else 0])).
  Proof. destruct v; reflexivity. Qed.

  Lemma bool_decode x : To O (VBool true) (VBytes (mkbytes [x])) = Ok (VBool (negb (x =? 0))).
  Proof. reflexivity. Qed.

  Lemma bool_reject b : length (bdata b) <> 1%nat -> To O (VBool true) (VBytes b) = Err ErrUnableToCastToBool.
  Proof.
    intros Hl. assert (Hne : (blen b =? 1) = false) by (apply Z.eqb_neq; unfold blen; lia).
    unfold_cast. rewrite Hne. reflexivity.
  Qed.

  Lemma bool_roundtrip v : bind (ToBinary O (VBool v)) (fun b => To O (VBool true) b) = Ok (VBool v).
  Proof. destruct v; reflexivity. Qed.
End CastBinary.
