(* The writer: whatever write_jv produces spells, in the reference grammar, the tree it was
   given (with ill-formed UTF-8 replaced by U+FFFD and json.Number("") read as 0), uses only
   bytes 0x20..0xFF — so no raw line feed — and every tree the grammar can spell is written
   back without error and without change. *)
From Coq Require Import ZArith List Bool Lia.
From JL.std Require Import GoBase GoStrconv GoJsonNum GoJson GoJsonStrict.
From JL.proofs Require Import JsonUtf8 JsonNumber JsonStr JsonTok JsonParseC.
Import ListNotations.
Open Scope Z_scope.

Fixpoint sanitize_jv (v : jv) : jv :=
  match v with
  | JNum l => JNum (match l with [] => [48] | _ => l end)
  | JStr s => JStr (sanitize s)
  | JArr l => JArr (map sanitize_jv l)
  | JObj m => JObj (map (fun kv => (sanitize (fst kv), sanitize_jv (snd kv))) m)
  | x => x
  end.

(* every string of the tree is a string of bytes *)
Fixpoint jv_bytes_ok (v : jv) : Prop :=
  match v with
  | JStr s => bytes_ok s
  | JArr l => (fix go (l : list jv) : Prop := match l with [] => True | x :: r => jv_bytes_ok x /\ go r end) l
  | JObj m => (fix go (m : list (str * jv)) : Prop :=
                 match m with [] => True | kv :: r => (bytes_ok (fst kv) /\ jv_bytes_ok (snd kv)) /\ go r end) m
  | _ => True
  end.

Lemma jv_bytes_ok_arr l : jv_bytes_ok (JArr l) <-> Forall jv_bytes_ok l.
Proof.
  induction l as [|x l IH]; [split; intros; [constructor|exact I]|].
  change (jv_bytes_ok (JArr (x :: l))) with (jv_bytes_ok x /\ jv_bytes_ok (JArr l)).
  rewrite IH. split; [intros [A B]; constructor; auto|intros H; inversion H; auto].
Qed.

Lemma jv_bytes_ok_obj m : jv_bytes_ok (JObj m) <-> Forall (fun kv => bytes_ok (fst kv) /\ jv_bytes_ok (snd kv)) m.
Proof.
  induction m as [|x m IH]; [split; intros; [constructor|exact I]|].
  change (jv_bytes_ok (JObj (x :: m))) with ((bytes_ok (fst x) /\ jv_bytes_ok (snd x)) /\ jv_bytes_ok (JObj m)).
  rewrite IH. split; [intros [A B]; constructor; auto|intros H; inversion H; auto].
Qed.

Definition out_bytes (o : str) : Prop := Forall (fun b => 32 <= b < 256) o.

Definition writes_ok (v : jv) : Prop :=
  forall out, write_jv v = Some out -> jv_bytes_ok v ->
    (forall t, jvalue (out ++ t) (sanitize_jv v) t) /\ out_bytes out.

Lemma opt_all_Forall2 {A B} (f : A -> option B) l parts :
  opt_all (map f l) = Some parts -> Forall2 (fun x p => f x = Some p) l parts.
Proof.
  revert parts. induction l as [|x l IH]; cbn [map opt_all]; intros parts H.
  - inversion H. constructor.
  - destruct (f x) as [y|] eqn:E; [|discriminate].
    destruct (opt_all (map f l)) as [ys|]; [|discriminate]. inversion H; subst. constructor; auto.
Qed.

Lemma Forall2_combine {A B} (P Q : A -> Prop) (R S : A -> B -> Prop) l parts :
  Forall P l -> Forall Q l -> Forall2 R l parts ->
  (forall x p, P x -> Q x -> R x p -> S x p) -> Forall2 S l parts.
Proof.
  intros HP HQ HR HS. induction HR as [|x p l ps Hx _ IH]; [constructor|].
  inversion HP; subst. inversion HQ; subst. constructor; auto.
Qed.

Lemma Forall2_impl_ {A B} (R S : A -> B -> Prop) l parts :
  (forall x p, R x p -> S x p) -> Forall2 R l parts -> Forall2 S l parts.
Proof. intros H. induction 1; constructor; auto. Qed.

Lemma join_cons2 sep x y r : join sep (x :: y :: r) = x ++ sep :: join sep (y :: r).
Proof. reflexivity. Qed.

Lemma out_bytes_join parts : Forall out_bytes parts -> out_bytes (join 44 parts).
Proof.
  induction 1 as [|x l Hx Hl IH]; [constructor|].
  destruct l as [|y l]; [exact Hx|]. rewrite join_cons2. apply Forall_app. split; [exact Hx|].
  constructor; [lia|exact IH].
Qed.

(* elements *)
Lemma elems_spell l : forall parts t,
  l <> [] ->
  Forall2 (fun v p => forall t', jvalue (p ++ t') (sanitize_jv v) t') l parts ->
  jelems (join 44 parts ++ 93 :: t) (map sanitize_jv l) t.
Proof.
  induction l as [|v l IH]; intros parts t Hne H; [contradiction|].
  inversion H as [|v' p l' ps Hv Hl]; subst. destruct l as [|v2 l].
  - inversion Hl; subst. cbn [join map]. eapply E_last; [apply ws_nil|apply Hv|apply ws_nil].
  - inversion Hl as [|v2' p2 l2' ps2 Hv2 Hl2]; subst. rewrite join_cons2, <- app_assoc. cbn [app map].
    eapply E_more; [apply ws_nil|apply Hv|apply ws_nil|].
    apply (IH (p2 :: ps2) t); [discriminate|exact Hl].
Qed.

Lemma member_text k b X :
  (encode_string k ++ 58 :: b) ++ X = 34 :: (enc_body (length k) k ++ 34 :: 58 :: b ++ X).
Proof.
  unfold encode_string. cbn [app]. rewrite <- !app_assoc. reflexivity.
Qed.

Lemma members_spell m : forall parts t,
  m <> [] ->
  Forall2 (fun kv p => bytes_ok (fst kv) /\
                       exists b, p = encode_string (fst kv) ++ 58 :: b /\
                                 forall t', jvalue (b ++ t') (sanitize_jv (snd kv)) t') m parts ->
  jmembers (join 44 parts ++ 125 :: t) (map (fun kv => (sanitize (fst kv), sanitize_jv (snd kv))) m) t.
Proof.
  induction m as [|[k v] m IH]; intros parts t Hne H; [contradiction|].
  inversion H as [|kv p l' ps Hv Hl]; subst. cbn [fst snd] in Hv. destruct Hv as (Hk & b & -> & Hb).
  destruct m as [|kv2 m].
  - inversion Hl; subst. cbn [join map fst snd]. rewrite member_text.
    eapply M_last; [apply ws_nil|apply enc_body_chars; [exact Hk|apply Nat.le_refl]|apply ws_nil|apply ws_nil|apply Hb|apply ws_nil].
  - inversion Hl as [|kv2' p2 l2' ps2 Hv2 Hl2]; subst. rewrite join_cons2, <- app_assoc.
    cbn [map fst snd]. rewrite member_text.
    eapply M_more; [apply ws_nil|apply enc_body_chars; [exact Hk|apply Nat.le_refl]|apply ws_nil|apply ws_nil| |apply ws_nil|].
    + cbn [app]. apply Hb.
    + apply (IH (p2 :: ps2) t); [discriminate|exact Hl].
Qed.

Lemma numchar_bytes c : r_numchar c = true -> 32 <= c < 256.
Proof.
  unfold r_numchar. rewrite !orb_true_iff, andb_true_iff, !Z.leb_le, !Z.eqb_eq. lia.
Qed.

Theorem writes_ok_all v : writes_ok v.
Proof.
  induction v using jv_ind2; unfold writes_ok; intros out Hw Hok.
  - inversion Hw; subst. split; [intros t; apply V_null|repeat constructor; lia].
  - destruct b; inversion Hw; subst; (split; [intros t; constructor|repeat constructor; lia]).
  - cbn [write_jv] in Hw. unfold marshal_number in Hw. destruct l as [|c l].
    + inversion Hw; subst. split.
      * intros t. cbn [sanitize_jv]. apply (V_num [48]). apply is_json_number_iff. reflexivity.
      * repeat constructor; lia.
    + destruct (is_json_number (c :: l)) eqn:E; [|discriminate]. inversion Hw; subst.
      apply is_json_number_iff in E. split.
      * intros t. cbn [sanitize_jv]. apply V_num. exact E.
      * pose proof (jnumber_chars _ E) as Hc. unfold out_bytes.
        eapply Forall_impl; [|exact Hc]. intros a Ha. apply numchar_bytes; exact Ha.
  - inversion Hw; subst. cbn [jv_bytes_ok] in Hok. split.
    + intros t. cbn [sanitize_jv]. apply encode_string_spells. exact Hok.
    + apply encode_string_bytes. exact Hok.
  - (* arrays *)
    cbn [write_jv] in Hw. destruct (opt_all (map write_jv l)) as [parts|] eqn:E; [|discriminate].
    inversion Hw; subst. apply opt_all_Forall2 in E. apply jv_bytes_ok_arr in Hok.
    assert (HF : Forall2 (fun v p => (forall t', jvalue (p ++ t') (sanitize_jv v) t') /\ out_bytes p) l parts).
    { eapply (Forall2_combine _ _ _ _ l parts H Hok E). intros x p Hx Hb Ew. apply Hx; auto. }
    split.
    + intros t. cbn [sanitize_jv app]. rewrite <- app_assoc. cbn [app]. destruct l as [|v l].
      * inversion HF; subst. cbn [join map app]. apply V_arr0. apply ws_nil.
      * apply V_arr. apply elems_spell; [discriminate|].
        eapply Forall2_impl_; [|exact HF]. intros a b [A _]. exact A.
    + unfold out_bytes. constructor; [lia|]. apply Forall_app. split; [|repeat constructor; lia].
      apply out_bytes_join. clear - HF. induction HF; constructor; [tauto|auto].
  - (* objects *)
    cbn [write_jv] in Hw.
    match type of Hw with match opt_all (map ?f m) with _ => _ end = _ =>
      destruct (opt_all (map f m)) as [parts|] eqn:E; [|discriminate] end.
    inversion Hw; subst. apply opt_all_Forall2 in E. apply jv_bytes_ok_obj in Hok.
    assert (HF : Forall2 (fun kv p => (bytes_ok (fst kv) /\
                       exists b, p = encode_string (fst kv) ++ 58 :: b /\
                                 forall t', jvalue (b ++ t') (sanitize_jv (snd kv)) t') /\ out_bytes p) m parts).
    { eapply (Forall2_combine _ _ _ _ m parts H Hok E). intros kv p Hx [Hk Hv] Ew. cbn beta in Ew.
      destruct (write_jv (snd kv)) as [b|] eqn:Eb; [|discriminate].
      assert (Ep : p = encode_string (fst kv) ++ 58 :: b) by congruence. subst p.
      destruct (Hx b Eb Hv) as [A B]. split.
      - split; [exact Hk|]. exists b. split; [reflexivity|exact A].
      - unfold out_bytes. apply Forall_app. split; [apply encode_string_bytes; exact Hk|].
        constructor; [lia|exact B]. }
    split.
    + intros t. cbn [sanitize_jv app]. rewrite <- app_assoc. cbn [app]. destruct m as [|kv m].
      * inversion HF; subst. cbn [join map app]. apply V_obj0. apply ws_nil.
      * apply V_obj. apply members_spell; [discriminate|].
        eapply Forall2_impl_; [|exact HF]. intros a b [A _]. exact A.
    + unfold out_bytes. constructor; [lia|]. apply Forall_app. split; [|repeat constructor; lia].
      apply out_bytes_join. clear - HF. induction HF; constructor; [tauto|auto].
Qed.

(* C01 core: the written text spells (in the RFC 8259 grammar) the tree, sanitised *)
Theorem write_spells v out :
  write_jv v = Some out -> jv_bytes_ok v -> spells out (sanitize_jv v).
Proof.
  intros Hw Hok. destruct (writes_ok_all v out Hw Hok) as [A _].
  exists out, []. split; [apply ws_nil|]. split; [|apply ws_nil].
  specialize (A []). rewrite app_nil_r in A. exact A.
Qed.

Theorem write_bytes v out :
  write_jv v = Some out -> jv_bytes_ok v -> Forall (fun b => 32 <= b < 256) out.
Proof. intros Hw Hok. apply (writes_ok_all v out Hw Hok). Qed.

Theorem write_no_lf v out : write_jv v = Some out -> jv_bytes_ok v -> ~ In 10 out.
Proof.
  intros Hw Hok Hin. pose proof (write_bytes v out Hw Hok) as H.
  rewrite Forall_forall in H. specialize (H 10 Hin). lia.
Qed.

(* ---------- trees the grammar can spell: well-formed strings, valid numbers ---------- *)

(* a string that is a sequence of UTF-8 encoded scalar values *)
Inductive ustr : str -> Prop :=
| ustr_nil : ustr []
| ustr_cons c x : scalar c -> ustr x -> ustr (utf8_encode c ++ x).

Lemma scalar_range c : scalar c -> 0 <= c <= 1114111.
Proof. unfold scalar. lia. Qed.

Lemma ustr_sanitize x : ustr x -> sanitize x = x.
Proof.
  induction 1 as [|c x Hc Hx IH]; [apply sanitize_nil|].
  destruct (utf8_encode_head c (scalar_range c Hc)) as (b & t & E & H1 & H2).
  destruct (Z.ltb_spec c 128) as [L|L].
  - destruct (H1 L) as [-> ->]. rewrite E. cbn [app]. rewrite sanitize_cons.
    destruct (Z.ltb_spec c 128); [|lia]. rewrite IH. reflexivity.
  - destruct (H2 L) as [Hb Ht]. pose proof (utf8_size_encode c x Hc) as Hs.
    rewrite E in *. cbn [app] in *. rewrite sanitize_cons.
    destruct (Z.ltb_spec b 128); [lia|]. rewrite Hs. cbn [length].
    change (b :: t ++ x) with ((b :: t) ++ x).
    change (S (length t)) with (length (b :: t)).
    rewrite firstn_len_app, skipn_len_app, IH. reflexivity.
Qed.

Lemma utf8_encode_bytes_ok c : scalar c -> bytes_ok (utf8_encode c).
Proof.
  intros Hc. destruct (Z.ltb_spec c 128).
  - rewrite enc1 by lia. constructor; [unfold is_byte, scalar in *; lia|constructor].
  - eapply Forall_impl; [|apply utf8_encode_bytes; unfold scalar in Hc; lia].
    intros a Ha. cbv beta in Ha. unfold is_byte. lia.
Qed.

Lemma ustr_bytes_ok x : ustr x -> bytes_ok x.
Proof.
  induction 1; [constructor|]. apply Forall_app. split; [apply utf8_encode_bytes_ok; auto|auto].
Qed.

Lemma ustr_app a b : ustr a -> ustr b -> ustr (a ++ b).
Proof. induction 1; intros; [assumption|]. rewrite <- app_assoc. constructor; auto. Qed.

Lemma ustr_one c : scalar c -> ustr (utf8_encode c).
Proof. intros. rewrite <- (app_nil_r (utf8_encode c)). constructor; [auto|constructor]. Qed.

Lemma jchars_ustr s x r : jchars s x r -> ustr x.
Proof.
  induction 1.
  - constructor.
  - constructor; auto.
  - assert (Hd : scalar d /\ d < 128) by (inversion H; unfold scalar; lia).
    destruct Hd as [Hd Hl]. change (d :: x) with ([d] ++ x). rewrite <- (enc1 d Hl). constructor; auto.
  - constructor; auto.
  - constructor; auto. unfold scalar. lia.
Qed.

(* well-formed trees: strings are UTF-8 scalar sequences, numbers are JSON numbers *)
Inductive jv_wf : jv -> Prop :=
| wf_null : jv_wf JNull
| wf_bool b : jv_wf (JBool b)
| wf_num l : jnumber l -> jv_wf (JNum l)
| wf_str s : ustr s -> jv_wf (JStr s)
| wf_arr l : Forall jv_wf l -> jv_wf (JArr l)
| wf_obj m : Forall (fun kv => ustr (fst kv) /\ jv_wf (snd kv)) m -> jv_wf (JObj m).

Theorem grammar_wf :
  (forall s v r, jvalue s v r -> jv_wf v)
  /\ (forall s l r, jelems s l r -> Forall jv_wf l)
  /\ (forall s m r, jmembers s m r -> Forall (fun kv => ustr (fst kv) /\ jv_wf (snd kv)) m).
Proof.
  apply jgrammar_min; intros; try (constructor; auto; fail).
  - constructor. eapply jchars_ustr; eauto.
  - constructor; [|constructor]. cbn [fst snd]. split; [eapply jchars_ustr; eauto|auto].
  - constructor; auto. cbn [fst snd]. split; [eapply jchars_ustr; eauto|auto].
Qed.

Lemma Forall_combine {A} (P Q S : A -> Prop) l :
  Forall P l -> Forall Q l -> (forall x, P x -> Q x -> S x) -> Forall S l.
Proof. intros HP HQ HS. induction HP; inversion HQ; subst; constructor; auto. Qed.

Lemma wf_num_inv l : jv_wf (JNum l) -> jnumber l.
Proof. inversion 1; auto. Qed.
Lemma wf_str_inv s : jv_wf (JStr s) -> ustr s.
Proof. inversion 1; auto. Qed.
Lemma wf_arr_inv l : jv_wf (JArr l) -> Forall jv_wf l.
Proof. inversion 1; auto. Qed.
Lemma wf_obj_inv m : jv_wf (JObj m) -> Forall (fun kv => ustr (fst kv) /\ jv_wf (snd kv)) m.
Proof. inversion 1; auto. Qed.

Definition writes_back (v : jv) : Prop :=
  jv_bytes_ok v /\ sanitize_jv v = v /\ exists out, write_jv v = Some out.

Theorem wf_writes v : jv_wf v -> writes_back v.
Proof.
  induction v using jv_ind2; intros Hwf; unfold writes_back.
  - repeat split. eexists; reflexivity.
  - repeat split. destruct b; eexists; reflexivity.
  - apply wf_num_inv in Hwf. split; [exact I|].
    destruct (jnumber_head _ Hwf) as (c & r & -> & _). split; [reflexivity|].
    exists (c :: r). cbn [write_jv]. apply jnumber_marshal. exact Hwf.
  - apply wf_str_inv in Hwf. split; [apply ustr_bytes_ok; auto|].
    split; [cbn [sanitize_jv]; rewrite ustr_sanitize; auto|]. eexists; reflexivity.
  - apply wf_arr_inv in Hwf.
    assert (A : Forall writes_back l) by (eapply Forall_combine; [exact H|exact Hwf|]; intros x Hx Hw; auto).
    split; [apply jv_bytes_ok_arr; eapply Forall_impl; [|exact A]; intros a Ha; apply Ha|].
    split.
    + cbn [sanitize_jv]. f_equal. clear - A. induction A as [|v l (_ & E & _) _ IH]; [reflexivity|].
      cbn [map]. rewrite E, IH. reflexivity.
    + assert (B : exists parts, opt_all (map write_jv l) = Some parts).
      { clear - A. induction A as [|v l (_ & _ & o & E) _ (ps & IH)]; [exists []; reflexivity|].
        exists (o :: ps). cbn [map opt_all]. rewrite E, IH. reflexivity. }
      destruct B as (parts & B). eexists. cbn [write_jv]. rewrite B. reflexivity.
  - apply wf_obj_inv in Hwf.
    assert (A : Forall (fun kv => ustr (fst kv) /\ writes_back (snd kv)) m).
    { eapply Forall_combine; [exact H|exact Hwf|]. intros x Hx [U W]. split; [exact U|auto]. }
    split; [apply jv_bytes_ok_obj; eapply Forall_impl; [|exact A]; intros a (U & B & _);
            split; [apply ustr_bytes_ok; exact U|exact B]|].
    split.
    + cbn [sanitize_jv]. f_equal. clear - A. induction A as [|[k v] m (U & _ & E & _) _ IH]; [reflexivity|].
      cbn [map fst snd] in *. rewrite E, IH, (ustr_sanitize k U). reflexivity.
    + cbn [write_jv].
      match goal with |- exists out, match opt_all (map ?f m) with _ => _ end = _ =>
        assert (B : exists parts, opt_all (map f m) = Some parts) end.
      { clear - A. induction A as [|kv m (_ & _ & _ & o & E) _ (ps & IH)]; [exists []; reflexivity|].
        eexists. cbn [map opt_all]. rewrite E, IH. reflexivity. }
      destruct B as (parts & B). eexists. rewrite B. reflexivity.
Qed.
