(* C03 for the command — the bridge between C19 (what jl builds) and C03 (what a pair of templates
   emits): the templates jl builds from a column definition HAVE the key lists of the definition.

   [cspec]: what a definition declares, whichever way it was given (row.yml or -t): a plain column
   with its two descriptors, or a sub-row with its own columns. [yaml_spec cols] reads it off the
   decoded row.yml, [inline_spec n m l] off the row json.Unmarshal built from the inline text
   ("in:out", or one descriptor standing for both sides; an object is a sub-row; any other member
   declares nothing). [declared O out specs t]: template t is what With / WithRow build for specs
   on side out (false: input template, true: output template):
     - its key list is the names in declaration order (a repeated name keeps its first position),
     - a plain column holds NewValue(nil, format, rawtype) of its descriptor on that side (of its
       LAST declaration when the name is repeated),
     - a sub-row column holds, AT ITS OWN POSITION, the row CreateRowEmpty() of the template
       built for its columns returns (how WithRow stores it) - and that template is [declared]
       for the sub-columns, recursively. (The descriptors row.yml gives to a column that has
       columns are dropped: With is overwritten by WithRow under the same key.)
   No well-formedness is needed for [declared]; unique names (wf_cols, or the invariant of the
   row that holds the inline template) give the readable forms: row_l t = map col_name cols. *)
From Coq Require Import ZArith List Bool Lia.
From JL.std Require Import GoBase GoFloat GoStrconv GoTime GoVal GoJson.
From JL.gen Require Import CastGen ConvGen.
From JL.model Require Import CastRun Row RowRun Template TemplateJson Jl.
From JL.proofs Require Import RowProofs TemplateOrder TemplateClass TemplatePipeline TemplateLossless JlProofs.
Import ListNotations.
Open Scope Z_scope.

(* ---------- what a definition declares ---------- *)
Definition col_name (c : coldef) : str := match c with Col n _ _ _ => n end.

Lemma names_map cols : names cols = map col_name cols.
Proof. induction cols as [|[n i o s] r IH]; cbn; [reflexivity | now rewrite IH]. Qed.

Inductive cspec :=
| SPlain (name din dout : str)            (* a plain column: input descriptor, output descriptor *)
| SRow (name : str) (sub : list cspec).   (* a sub-row and its columns *)

Definition spec_name (s : cspec) : str := match s with SPlain n _ _ => n | SRow n _ => n end.

(* hidden on output: a plain column whose OUTPUT descriptor parses to the hidden format; a sub-row never *)
Definition spec_hidden (s : cspec) : bool :=
  match s with
  | SPlain _ _ o => format_eqb (fst (parse_descriptor o)) FHidden
  | SRow _ _ => false
  end.

(* the last declaration of a name *)
Fixpoint last_spec (k : str) (specs : list cspec) : option cspec :=
  match specs with
  | [] => None
  | s :: r =>
      match last_spec k r with
      | Some s' => Some s'
      | None => if str_eqb k (spec_name s) then Some s else None
      end
  end.

Lemma last_spec_snoc k a s :
  last_spec k (a ++ [s]) = if str_eqb k (spec_name s) then Some s else last_spec k a.
Proof.
  induction a as [|x a IH]; cbn [app last_spec]; [now destruct (str_eqb k (spec_name s))|].
  rewrite IH. destruct (str_eqb k (spec_name s)); reflexivity.
Qed.

Lemma last_spec_In k specs : forall s, last_spec k specs = Some s -> In s specs /\ spec_name s = k.
Proof.
  induction specs as [|x r IH]; intros s; cbn [last_spec]; [discriminate|].
  destruct (last_spec k r) as [s'|] eqn:E.
  - intros [= <-]. destruct (IH s' eq_refl) as [H1 H2]. split; [now right | exact H2].
  - destruct (str_eqb k (spec_name x)) eqn:Ek; [|discriminate].
    intros [= <-]. apply str_eqb_eq in Ek. split; [now left | now symmetry].
Qed.

Lemma last_spec_NoDup specs s :
  NoDup (map spec_name specs) -> In s specs -> last_spec (spec_name s) specs = Some s.
Proof.
  induction specs as [|x r IH]; cbn [map last_spec]; intros Hnd Hin; [destruct Hin|].
  inversion Hnd as [|? ? Hn Hnd']; subst. destruct Hin as [->|Hin].
  - destruct (last_spec (spec_name s) r) as [s'|] eqn:E.
    + apply last_spec_In in E as [Hi Hs]. exfalso. apply Hn. rewrite <- Hs. now apply in_map.
    + now rewrite str_eqb_refl.
  - now rewrite (IH Hnd' Hin).
Qed.

(* ---------- small list facts ---------- *)
Lemma push_all_nil_NoDup l : NoDup l -> push_all [] l = l.
Proof. intros H. rewrite push_all_first_new. cbn [app]. apply first_new_id; [exact H | intros k _ []]. Qed.

Lemma push_all_snoc l ks k : push_all l (ks ++ [k]) = push_key (push_all l ks) k.
Proof. now rewrite push_all_app. Qed.

Lemma filter_map_in {A B} (f : A -> B) (p : B -> bool) (q : A -> bool) l :
  (forall a, In a l -> p (f a) = q a) -> filter p (map f l) = map f (filter q l).
Proof.
  induction l as [|a l IH]; intros H; [reflexivity|]. cbn [map filter].
  rewrite (H a) by (now left). rewrite IH by (intros b Hb; apply H; now right).
  destruct (q a); reflexivity.
Qed.

Lemma filter_all {A} (p : A -> bool) l : (forall a, In a l -> p a = true) -> filter p l = l.
Proof.
  induction l as [|a l IH]; intros H; [reflexivity|]. cbn [filter].
  rewrite (H a) by (now left). f_equal. apply IH. intros b Hb. apply H. now right.
Qed.

Lemma Forall2_len {A B} (P : A -> B -> Prop) l1 l2 : Forall2 P l1 l2 -> length l2 = length l1.
Proof. induction 1; cbn; auto. Qed.

(* ---------- the column lists of row.yml as declarations ---------- *)
Fixpoint yaml_spec1 (c : coldef) : cspec :=
  match c with
  | Col name i o [] => SPlain name i o
  | Col name i o sub => SRow name (map yaml_spec1 sub)
  end.
Definition yaml_spec (cols : list coldef) : list cspec := map yaml_spec1 cols.

Lemma yaml_spec1_name c : spec_name (yaml_spec1 c) = col_name c.
Proof. destruct c as [n i o [|s r]]; reflexivity. Qed.

Lemma yaml_spec_names cols : map spec_name (yaml_spec cols) = map col_name cols.
Proof. unfold yaml_spec. rewrite map_map. apply map_ext. exact yaml_spec1_name. Qed.

Lemma wf_cols_NoDup cols : wf_cols cols -> NoDup (map spec_name (yaml_spec cols)).
Proof. intros [H _]. now rewrite yaml_spec_names, <- names_map. Qed.

Lemma wf_cols_In cols name i o sub : wf_cols cols -> In (Col name i o sub) cols -> wf_cols sub.
Proof.
  intros [_ H] Hin. rewrite Forall_forall in H. exact (proj2 (wf_col_sub _ _ _ _ (H _ Hin))).
Qed.

(* ---------- a declared plain column that the line does not mention is written as null ---------- *)
(* (new, next to TemplatePipeline.pipeline_members: the same decomposition of one line, following the
   cell of one absent column through CreateRowEmpty, UnmarshalJSON, CreateRow and MarshalJSON) *)
Section AbsentNull.
  Context (O : oracles) (jfloat : bool -> Z -> option str) (jother : Z -> option str).

  Lemma clone_cells_get_other n m : forall l acc r' k,
    clone_cells O n m l acc = Ok r' -> ~ In k l -> get_value k r' = get_value k acc.
  Proof.
    induction l as [|k0 l IH]; intros acc r' k; cbn [clone_cells].
    - now intros [= <-].
    - destruct (alookup k0 m) as [c|]; [|discriminate].
      destruct (clone_value O n c) as [c'| | |]; cbn [bind]; try discriminate.
      intros H Hn. rewrite (IH _ _ k H) by (intros Hk; apply Hn; now right).
      rewrite set_value_store. apply get_store_other. intros ->. apply Hn. now left.
  Qed.

  Lemma clone_cells_get_nil n m : forall l acc r' k f t,
    clone_cells O n m l acc = Ok r' -> NoDup l -> In k l -> alookup k m = Some (CVal rnil f t) ->
    get_value k r' = Some (CVal rnil f t).
  Proof.
    induction l as [|k0 l IH]; intros acc r' k f t; cbn [clone_cells]; [intros _ _ []|].
    destruct (alookup k0 m) as [c|] eqn:E; [|discriminate].
    destruct (clone_value O n c) as [c'| | |] eqn:Ec; cbn [bind]; try discriminate.
    intros H Hnd Hin Hk. inversion Hnd as [|? ? Hn Hnd']; subst. destruct Hin as [->|Hin].
    - rewrite (clone_cells_get_other _ _ _ _ _ k H Hn). rewrite set_value_store, get_store_same.
      rewrite Hk in E. injection E as <-. unfold clone_value in Ec. destruct n as [|n']; [discriminate|].
      cbn [cell_raw bind cell_format cell_rawtype] in Ec. rewrite new_value_nil in Ec. congruence.
    - eapply IH; eauto.
  Qed.

  Lemma clone_row_get_nil n t r k f ty :
    Inv t -> clone_row O n t = Ok r -> get_value k t = Some (CVal rnil f ty) -> get_value k r = Some (CVal rnil f ty).
  Proof.
    intros [Hnd Hin] H Hk. unfold clone_row in H. eapply clone_cells_get_nil; eauto.
    apply Hin. unfold ahas. unfold get_value in Hk. now rewrite Hk.
  Qed.

  Lemma unmarshal_members_get_other n ms : forall r k,
    ~ In k (map fst ms) -> get_value k (fst (unmarshal_members O n ms r)) = get_value k r.
  Proof.
    induction ms as [|[k0 v] rest IH]; intros r k Hn; [reflexivity|]. cbn [unmarshal_members].
    assert (Hk : k0 <> k) by (intros ->; apply Hn; now left).
    assert (Hr : ~ In k (map fst rest)) by (intros H; apply Hn; now right).
    destruct (alookup k0 (row_m r)) as [c0|] eqn:E.
    - destruct (cell_import O n c0 v) as [c' e].
      assert (Hs : get_value k (set_cell k0 c' r) = get_value k r).
      { destruct r as [m l]. unfold get_value, set_cell. cbn [row_m]. now apply alookup_aset_other. }
      destruct e as [[]| | |]; cbn [fst]; try exact Hs. rewrite IH by exact Hr. exact Hs.
    - rewrite IH by exact Hr.
      change (set_cell k0 (new_value_auto v) (push_if_absent k0 r)) with (store k0 (new_value_auto v) r).
      now apply get_store_other.
  Qed.

  Lemma create_from_row_get_nil n m2 : forall l2 r r' k c2 f t,
    create_from_row O n m2 l2 r = Ok r' ->
    alookup k m2 = Some c2 -> cell_raw n c2 = Ok rnil ->
    get_value k r = Some (CVal rnil f t) -> get_value k r' = Some (CVal rnil f t).
  Proof.
    induction l2 as [|k0 rest IH]; intros r r' k c2 f t; cbn [create_from_row]; [now intros [= <-]|].
    destruct (alookup k0 m2) as [c|] eqn:E; [|discriminate].
    destruct (cell_raw n c) as [raw| | |] eqn:Er; cbn [bind]; try discriminate.
    destruct (fill_cell O (get_value k0 r) raw) as [c'| | |] eqn:Ef; cbn [bind]; try discriminate.
    intros H Hk Hraw Hg. eapply IH; eauto. rewrite set_value_store.
    destruct (list_eq_dec Z.eq_dec k0 k) as [->|Hd].
    - rewrite get_store_same. rewrite Hk in E. injection E as <-. rewrite Hraw in Er. injection Er as <-.
      rewrite Hg in Ef. unfold fill_cell in Ef. cbn [cell_rawtype cell_format] in Ef.
      destruct (cast_to O t rnil); try discriminate. rewrite new_value_nil in Ef. congruence.
    - now rewrite get_store_other.
  Qed.

  Theorem pipeline_absent_null n ti to line out :
    Inv ti -> Inv to ->
    jl_pipeline O jfloat jother (S (S (S n))) ti to line = Ok out ->
    exists vs,
      let keys := push_all (row_l to) (push_all (row_l ti) (map fst (fst (parse_top line)))) in
      let emitted := filter (fun k => negb (format_eqb (fmt_of to k) FHidden)) keys in
      out = [123] ++ join_with [44] (map (fun kv => encode_string (fst kv) ++ [58] ++ snd kv) (combine emitted vs)) ++ [125] ++ [10]
      /\ Forall2 (fun k v =>
                    ~ In k (map fst (fst (parse_top line))) ->
                    (exists f t, get_value k ti = Some (CVal rnil f t)) ->
                    (exists f t, get_value k to = Some (CVal rnil f t)) -> v = s_null) emitted vs.
  Proof.
    intros Hti Hto H. unfold jl_pipeline, pipeline in H. apply bind_ok in H as [row [Hg He]].
    pose proof (importer_keys O _ _ _ _ Hti Hg) as [Hr Hl].
    assert (Hrow : forall k f t, ~ In k (map fst (fst (parse_top line))) ->
              get_value k ti = Some (CVal rnil f t) -> get_value k row = Some (CVal rnil f t)).
    { intros k f t Hab Hk. unfold get_row in Hg. apply bind_ok in Hg as [r0 [Hc0 Hg]].
      unfold unmarshal_text in Hg. destruct (parse_top_rv line) as [ms ok] eqn:Ep. unfold row_unmarshal in Hg.
      pose proof (unmarshal_members_get_other (S (S (S n))) ms r0 k) as Hu.
      destruct (unmarshal_members O (S (S (S n))) ms r0) as [r1 e]. cbn [fst] in Hu.
      destruct e as [[]| | |]; cbn [bind] in Hg; try discriminate.
      destruct ok; cbn [bind] in Hg; try discriminate. injection Hg as <-.
      rewrite Hu; [exact (clone_row_get_nil _ ti r0 k f t Hti Hc0 Hk)|].
      unfold parse_top_rv in Ep. destruct (parse_top line) as [ms0 ok0]. injection Ep as <- _.
      rewrite map_map. exact Hab. }
    unfold export_bytes in He. apply bind_ok in He as [r2 [Hc He]].
    apply bind_ok in He as [b [Hm He]]. injection He as <-.
    unfold create_row in Hc. apply bind_ok in Hc as [c0 [Hc0 Hc]].
    destruct row as [m2 l2]. cbn [row_l] in Hl.
    pose proof (clone_row_spec O _ to c0 Hto Hc0) as [Hi0 Hl0].
    pose proof (create_from_row_l O _ m2 l2 c0 r2 Hi0 Hc) as [Hi2 Hl2].
    assert (Hf : forall k, fmt_of r2 k = fmt_of to k).
    { intros k. rewrite (create_from_row_fmt O _ _ _ _ _ k Hc). eapply clone_row_fmt; eauto. }
    assert (Hnull : forall k, ~ In k (map fst (fst (parse_top line))) ->
              (exists f t, get_value k ti = Some (CVal rnil f t)) ->
              (exists f t, get_value k to = Some (CVal rnil f t)) ->
              exists f t, get_value k r2 = Some (CVal rnil f t)).
    { intros k Hab [fi [ti' Hki]] [fo [to' Hko]]. exists fo, to'.
      eapply create_from_row_get_nil; [exact Hc | exact (Hrow k fi ti' Hab Hki) | reflexivity |].
      exact (clone_row_get_nil _ to c0 k fo to' Hto Hc0 Hko). }
    destruct r2 as [m l]. rewrite marshal_row_S in Hm.
    destruct (marshal_row_members encode_string (marshal_cell O encode_string jfloat jother (S (S n))) m l) as [ss| | |] eqn:E;
      cbn [bind] in Hm; try discriminate. injection Hm as <-.
    destruct (marshal_row_members_vals encode_string _ _ _ _ E) as [vs [H1 H2]].
    assert (Hfilt : forall k, (match alookup k m with Some c => negb (format_eqb (cell_format c) FHidden) | None => false end)
                              = (if mem k l then negb (format_eqb (fmt_of to k) FHidden) else false)).
    { intros k. rewrite <- Hf. unfold fmt_of, get_value. cbn [row_m].
      destruct (alookup k m) eqn:Ek.
      - assert (In k l) by (apply (proj2 Hi2 k); unfold ahas; cbn; now rewrite Ek). apply mem_In in H. now rewrite H.
      - destruct (mem k l) eqn:Hm; auto. apply mem_In in Hm. apply (proj2 Hi2 k) in Hm. unfold ahas in Hm. cbn in Hm. now rewrite Ek in Hm. }
    assert (Hfl : filter (fun k => match alookup k m with Some c => negb (format_eqb (cell_format c) FHidden) | None => false end) l
                  = filter (fun k => negb (format_eqb (fmt_of to k) FHidden)) l).
    { apply filter_ext_in. intros k Hk. rewrite Hfilt. apply mem_In in Hk. now rewrite Hk. }
    rewrite Hfl in H1, H2. cbn [row_l] in Hl2. rewrite Hl2, Hl0, Hl in H1, H2.
    exists vs. cbv zeta. split.
    - rewrite H2. cbn [app]. f_equal. rewrite <- app_assoc. reflexivity.
    - eapply Forall2_weaken; [|exact H1]. intros k v [c [Hk Hv]] Hab Hki Hko.
      destruct (Hnull k Hab Hki Hko) as [f [t Hc2]]. unfold get_value in Hc2. cbn [row_m] in Hc2.
      rewrite Hk in Hc2. injection Hc2 as ->. rewrite marshal_cell_S in Hv. cbn [rv_is_nil rnil] in Hv. congruence.
  Qed.
End AbsentNull.

Section Declared.
  Context (O : oracles).

  (* NewValue(nil, format, rawtype) for a descriptor *)
  Definition plain_cell (d : str) : cell := CVal rnil (fst (parse_descriptor d)) (snd (parse_descriptor d)).

  Inductive declared (out : bool) : list cspec -> template -> Prop :=
  | Declared specs t :
      Inv t ->
      row_l t = push_all [] (map spec_name specs) ->
      (forall k n i o, last_spec k specs = Some (SPlain n i o) ->
         get_value k t = Some (plain_cell (if out then o else i))) ->
      (forall k n sub, last_spec k specs = Some (SRow n sub) ->
         exists st r, declared out sub st /\ create_row_empty O FUELJ st = Ok r /\ get_value k t = Some (CRow r)) ->
      declared out specs t.

  Lemma declared_Inv out specs t : declared out specs t -> Inv t.
  Proof. intros H. now inversion H. Qed.

  Lemma declared_l out specs t : declared out specs t -> row_l t = push_all [] (map spec_name specs).
  Proof. intros H. now inversion H. Qed.

  Lemma declared_plain_at out specs t k n i o :
    declared out specs t -> last_spec k specs = Some (SPlain n i o) ->
    get_value k t = Some (plain_cell (if out then o else i)).
  Proof. intros H. inversion H; subst. eauto. Qed.

  Lemma declared_row_at out specs t k n sub :
    declared out specs t -> last_spec k specs = Some (SRow n sub) ->
    exists st r, declared out sub st /\ create_row_empty O FUELJ st = Ok r /\ get_value k t = Some (CRow r).
  Proof. intros H. inversion H; subst. eauto. Qed.

  Lemma declared_nil out : declared out [] new_template.
  Proof.
    constructor; [apply Inv_new | reflexivity | |]; cbn [last_spec]; intros; discriminate.
  Qed.

  (* With(name, format, rawtype) *)
  Lemma declared_snoc_plain (out : bool) specs t k i o f typ :
    parse_descriptor (if out then o else i) = (f, typ) ->
    declared out specs t -> declared out (specs ++ [SPlain k i o]) (with_col k f typ t).
  Proof.
    intros Hp H. pose proof (declared_Inv _ _ _ H) as Hi. constructor.
    - now apply with_col_Inv.
    - rewrite with_col_l by exact Hi. rewrite (declared_l _ _ _ H), map_app. cbn [map spec_name].
      now rewrite push_all_snoc.
    - intros k0 n0 i0 o0. rewrite last_spec_snoc. cbn [spec_name]. unfold with_col. rewrite set_value_store.
      destruct (str_eqb k0 k) eqn:E.
      + apply str_eqb_eq in E. subst k0. intros [= <- <- <-]. rewrite get_store_same.
        unfold plain_cell. now rewrite Hp.
      + intros H0. rewrite get_store_other by (intros ->; now rewrite str_eqb_refl in E).
        eapply declared_plain_at; eauto.
    - intros k0 n0 sub0. rewrite last_spec_snoc. cbn [spec_name]. unfold with_col. rewrite set_value_store.
      destruct (str_eqb k0 k) eqn:E; [discriminate|].
      intros H0. rewrite get_store_other by (intros ->; now rewrite str_eqb_refl in E).
      eapply declared_row_at; eauto.
  Qed.

  (* WithRow(name, rowt) *)
  Lemma declared_snoc_row out specs t k sub st t' :
    declared out specs t -> declared out sub st -> with_row O FUELJ k st t = Ok t' ->
    declared out (specs ++ [SRow k sub]) t'.
  Proof.
    intros H Hs Hw. pose proof (declared_Inv _ _ _ H) as Hi.
    destruct (with_row_Inv O FUELJ k st t t' Hi Hw) as [Hi' Hl'].
    unfold with_row in Hw. destruct (create_row_empty O FUELJ st) as [r| | |] eqn:Ec; cbn [bind] in Hw; try discriminate.
    injection Hw as <-. rewrite set_value_store in *. constructor.
    - exact Hi'.
    - rewrite Hl', (declared_l _ _ _ H), map_app. cbn [map spec_name]. now rewrite push_all_snoc.
    - intros k0 n0 i0 o0. rewrite last_spec_snoc. cbn [spec_name].
      destruct (str_eqb k0 k) eqn:E; [discriminate|].
      intros H0. rewrite get_store_other by (intros ->; now rewrite str_eqb_refl in E).
      eapply declared_plain_at; eauto.
    - intros k0 n0 sub0. rewrite last_spec_snoc. cbn [spec_name].
      destruct (str_eqb k0 k) eqn:E.
      + apply str_eqb_eq in E. subst k0. intros [= <- <-]. exists st, r.
        split; [exact Hs|]. split; [exact Ec | apply get_store_same].
      + intros H0. rewrite get_store_other by (intros ->; now rewrite str_eqb_refl in E).
        eapply declared_row_at; eauto.
  Qed.

  Lemma app_cons_snoc {A} (a : list A) x b : a ++ x :: b = (a ++ [x]) ++ b.
  Proof. now rewrite <- app_assoc. Qed.

  (* ---------- parse (definition.go:114): the row.yml path ---------- *)
  Lemma of_yaml_declared : forall n cols done ti to ti' to',
    declared false done ti -> declared true done to ->
    of_yaml O n cols ti to = Ok (ti', to') ->
    declared false (done ++ yaml_spec cols) ti' /\ declared true (done ++ yaml_spec cols) to'.
  Proof.
    induction n as [|n IH]; intros cols done ti to ti' to' Hi Ho H; [discriminate|].
    destruct cols as [|[name i o sub] rest].
    - cbn [of_yaml] in H. injection H as <- <-. unfold yaml_spec. cbn [map]. rewrite app_nil_r. auto.
    - unfold yaml_spec. cbn [map]. fold (yaml_spec rest). rewrite app_cons_snoc.
      destruct sub as [|s1 sub']; cbn [of_yaml] in H;
        destruct (parse_descriptor i) as [fi typi] eqn:Ei; destruct (parse_descriptor o) as [fo typo] eqn:Eo.
      + cbn [yaml_spec1]. eapply IH; [| |exact H].
        * apply (declared_snoc_plain false); assumption.
        * apply (declared_snoc_plain true); assumption.
      + change (yaml_spec1 (Col name i o (s1 :: sub'))) with (SRow name (yaml_spec (s1 :: sub'))).
        apply bind_ok in H as [[sti sto] [Hs H]]. cbn [fst snd] in H.
        rewrite with_row_after_with_col in H. apply bind_ok in H as [ti2 [Hti H]].
        rewrite with_row_after_with_col in H. apply bind_ok in H as [to2 [Hto H]].
        destruct (IH _ [] _ _ _ _ (declared_nil false) (declared_nil true) Hs) as [Hsi Hso]. cbn [app] in Hsi, Hso.
        eapply IH; [| |exact H]; eapply declared_snoc_row; eauto.
  Qed.

  Theorem yaml_declared n cols ti to :
    of_yaml O n cols new_template new_template = Ok (ti, to) ->
    declared false (yaml_spec cols) ti /\ declared true (yaml_spec cols) to.
  Proof. intros H. exact (of_yaml_declared n cols [] _ _ _ _ (declared_nil false) (declared_nil true) H). Qed.

  (* ---------- reading [declared] when the names are unique ---------- *)
  Theorem declared_reading out specs t :
    declared out specs t -> NoDup (map spec_name specs) ->
    Inv t /\ row_l t = map spec_name specs
    /\ forall s, In s specs ->
         match s with
         | SPlain n i o => get_value n t = Some (plain_cell (if out then o else i))
         | SRow n sub =>
             exists st r, declared out sub st /\ create_row_empty O FUELJ st = Ok r
                          /\ get_value n t = Some (CRow r) /\ Inv r /\ row_l r = push_all [] (map spec_name sub)
         end.
  Proof.
    intros H Hnd. split; [eapply declared_Inv; eauto|]. split.
    - rewrite (declared_l _ _ _ H). now apply push_all_nil_NoDup.
    - intros s Hs. pose proof (last_spec_NoDup specs s Hnd Hs) as Hl. destruct s as [n i o|n sub]; cbn [spec_name] in Hl.
      + eapply declared_plain_at; eauto.
      + destruct (declared_row_at _ _ _ _ _ _ H Hl) as [st [r [H1 [H2 H3]]]]. exists st, r.
        destruct (clone_row_spec O FUELJ st r (declared_Inv _ _ _ H1) H2) as [H4 H5].
        split; [exact H1|]. split; [exact H2|]. split; [exact H3|]. split; [exact H4|].
        now rewrite H5, (declared_l _ _ _ H1).
  Qed.

  (* the same for a well-formed column list of row.yml, level after level: the statement applies again
     to (sub, st) *)
  Theorem declared_yaml_reading out cols t :
    wf_cols cols -> declared out (yaml_spec cols) t ->
    Inv t /\ row_l t = map col_name cols
    /\ forall name i o sub, In (Col name i o sub) cols ->
         match sub with
         | [] => get_value name t = Some (plain_cell (if out then o else i))
         | _ :: _ =>
             exists st r, wf_cols sub /\ declared out (yaml_spec sub) st /\ create_row_empty O FUELJ st = Ok r
                          /\ get_value name t = Some (CRow r) /\ Inv r /\ row_l r = map col_name sub
         end.
  Proof.
    intros Hwf H. destruct (declared_reading out _ t H (wf_cols_NoDup _ Hwf)) as [H1 [H2 H3]].
    split; [exact H1|]. split; [now rewrite H2, yaml_spec_names|].
    intros name i o sub Hin. pose proof (wf_cols_In _ _ _ _ _ Hwf Hin) as Hsub.
    specialize (H3 _ (in_map yaml_spec1 _ _ Hin)). destruct sub as [|s1 sub']; [exact H3|].
    change (yaml_spec1 (Col name i o (s1 :: sub'))) with (SRow name (yaml_spec (s1 :: sub'))) in H3.
    destruct H3 as [st [r [Ha [Hb [Hc [Hd He]]]]]]. exists st, r.
    split; [exact Hsub|]. split; [exact Ha|]. split; [exact Hb|]. split; [exact Hc|]. split; [exact Hd|].
    rewrite He, push_all_nil_NoDup by (now apply wf_cols_NoDup). apply yaml_spec_names.
  Qed.

  (* 1. the names in definition order, on both sides, sub-row columns at their own position *)
  Theorem yaml_declares_in_order n cols ti to :
    wf_cols cols -> of_yaml O n cols new_template new_template = Ok (ti, to) ->
    row_l ti = map col_name cols /\ row_l to = map col_name cols
    /\ declared false (yaml_spec cols) ti /\ declared true (yaml_spec cols) to.
  Proof.
    intros Hwf H. destruct (yaml_declared _ _ _ _ H) as [Hi Ho].
    destruct (declared_yaml_reading false cols ti Hwf Hi) as [_ [H1 _]].
    destruct (declared_yaml_reading true cols to Hwf Ho) as [_ [H2 _]]. auto.
  Qed.

  (* ---------- createTemplateFromRow (definition.go:147): the -t path ---------- *)
  Inductive icol := IPlain (desc : str) | ISub (m : list (str * cell)) (l : list str) | ISkip.

  (* the switch on valExported.(type) *)
  Definition inline_kind (c : cell) : res icol :=
    match cell_export O FUELJ c with
    | Ok (RS (VStr desc)) => Ok (IPlain desc)
    | Ok (RV (CRow (MkRow m2 l2))) => Ok (ISub m2 l2)
    | Ok _ => Ok ISkip
    | Err e => Err e
    | Panic => Panic
    | Fuel => Fuel
    end.

  Lemma of_inline_S n m k rest ti to :
    of_inline O (S n) m (k :: rest) ti to =
    match alookup k m with
    | None => Panic
    | Some c =>
        match inline_kind c with
        | Ok (IPlain desc) =>
            let '(a, b) := split_colon desc in
            let '(fi, typi) := parse_descriptor a in
            let '(fo, typo) := match b with Some b' => parse_descriptor b' | None => (fi, typi) end in
            of_inline O n m rest (with_col k fi typi ti) (with_col k fo typo to)
        | Ok (ISub m2 l2) =>
            bind (of_inline O n m2 l2 new_template new_template) (fun st =>
            bind (with_row O FUELJ k (fst st) ti) (fun ti2 =>
            bind (with_row O FUELJ k (snd st) to) (fun to2 => of_inline O n m rest ti2 to2)))
        | Ok ISkip => of_inline O n m rest ti to
        | Err e => Err e
        | Panic => Panic
        | Fuel => Fuel
        end
    end.
  Proof.
    cbn [of_inline]. destruct (alookup k m) as [c|]; [|reflexivity]. unfold inline_kind.
    destruct (cell_export O FUELJ c) as [v| | |]; try reflexivity.
    destruct v as [g|l0|m0|c']; try reflexivity.
    - destruct g; reflexivity.
    - destruct c' as [raw f t|[m2 l2]]; reflexivity.
  Qed.

  (* "in:out", or one descriptor for both sides *)
  Definition desc_in (desc : str) : str := fst (split_colon desc).
  Definition desc_out (desc : str) : str :=
    match snd (split_colon desc) with Some b => b | None => fst (split_colon desc) end.

  Fixpoint inline_spec (n : nat) (m : list (str * cell)) (l : list str) : list cspec :=
    match n with
    | 0%nat => []
    | S n' =>
        match l with
        | [] => []
        | k :: rest =>
            match alookup k m with
            | None => []
            | Some c =>
                match inline_kind c with
                | Ok (IPlain desc) => SPlain k (desc_in desc) (desc_out desc) :: inline_spec n' m rest
                | Ok (ISub m2 l2) => SRow k (inline_spec n' m2 l2) :: inline_spec n' m rest
                | _ => inline_spec n' m rest
                end
            end
        end
    end.

  (* the members that declare a column: strings and objects *)
  Definition inline_declares (m : list (str * cell)) (k : str) : bool :=
    match alookup k m with
    | Some c => match inline_kind c with Ok (IPlain _) | Ok (ISub _ _) => true | _ => false end
    | None => false
    end.

  Lemma of_inline_declared : forall n m l done ti to ti' to',
    declared false done ti -> declared true done to ->
    of_inline O n m l ti to = Ok (ti', to') ->
    declared false (done ++ inline_spec n m l) ti' /\ declared true (done ++ inline_spec n m l) to'.
  Proof.
    induction n as [|n IH]; intros m l done ti to ti' to' Hi Ho H; [discriminate|].
    destruct l as [|k rest].
    - cbn [of_inline] in H. injection H as <- <-. cbn [inline_spec]. rewrite app_nil_r. auto.
    - rewrite of_inline_S in H. cbn [inline_spec].
      destruct (alookup k m) as [c|]; [|discriminate].
      destruct (inline_kind c) as [[desc|m2 l2|]| | |]; try discriminate.
      + rewrite app_cons_snoc. unfold desc_in, desc_out.
        destruct (split_colon desc) as [a b]. cbn [fst snd].
        destruct (parse_descriptor a) as [fi typi] eqn:Ea.
        destruct b as [b'|].
        * destruct (parse_descriptor b') as [fo typo] eqn:Eb. eapply IH; [| |exact H].
          -- apply (declared_snoc_plain false); assumption.
          -- apply (declared_snoc_plain true); assumption.
        * eapply IH; [| |exact H].
          -- apply (declared_snoc_plain false); assumption.
          -- apply (declared_snoc_plain true); assumption.
      + rewrite app_cons_snoc.
        apply bind_ok in H as [[sti sto] [Hs H]]. cbn [fst snd] in H.
        apply bind_ok in H as [ti2 [Hti H]]. apply bind_ok in H as [to2 [Hto H]].
        destruct (IH _ _ [] _ _ _ _ (declared_nil false) (declared_nil true) Hs) as [Hsi Hso]. cbn [app] in Hsi, Hso.
        eapply IH; [| |exact H]; eapply declared_snoc_row; eauto.
      + eapply IH; eauto.
  Qed.

  Lemma inline_spec_names : forall n m l ti to r,
    of_inline O n m l ti to = Ok r -> map spec_name (inline_spec n m l) = filter (inline_declares m) l.
  Proof.
    induction n as [|n IH]; intros m l ti to r H; [discriminate|].
    destruct l as [|k rest]; [reflexivity|].
    rewrite of_inline_S in H. cbn [inline_spec filter]. unfold inline_declares at 1.
    destruct (alookup k m) as [c|]; [|discriminate].
    destruct (inline_kind c) as [[desc|m2 l2|]| | |]; try discriminate.
    - destruct (split_colon desc) as [a b]. destruct (parse_descriptor a) as [fi typi].
      destruct (match b with Some b' => parse_descriptor b' | None => (fi, typi) end) as [fo typo].
      cbn [map spec_name]. f_equal. eapply IH; eauto.
    - apply bind_ok in H as [st [_ H]]. apply bind_ok in H as [ti2 [_ H]]. apply bind_ok in H as [to2 [_ H]].
      cbn [map spec_name]. f_equal. eapply IH; eauto.
    - eapply IH; eauto.
  Qed.

  (* 2. the same for the inline form: the declaring members in the order of the object *)
  Theorem inline_declares_in_order n m l ti to :
    Inv (MkRow m l) -> of_inline O n m l new_template new_template = Ok (ti, to) ->
    row_l ti = filter (inline_declares m) l /\ row_l to = filter (inline_declares m) l
    /\ map spec_name (inline_spec n m l) = filter (inline_declares m) l
    /\ declared false (inline_spec n m l) ti /\ declared true (inline_spec n m l) to.
  Proof.
    intros [Hnd _] H. cbn [row_l] in Hnd.
    destruct (of_inline_declared n m l [] _ _ _ _ (declared_nil false) (declared_nil true) H) as [Hi Ho].
    cbn [app] in Hi, Ho. pose proof (inline_spec_names _ _ _ _ _ _ H) as Hn.
    assert (Hnd' : NoDup (map spec_name (inline_spec n m l))) by (rewrite Hn; now apply NoDup_filter).
    destruct (declared_reading false _ _ Hi Hnd') as [_ [H1 _]].
    destruct (declared_reading true _ _ Ho Hnd') as [_ [H2 _]].
    rewrite Hn in H1, H2. auto.
  Qed.

  (* createTemplateFromString: the row json.Unmarshal builds from the text *)
  Definition inline_row (text : str) : crow :=
    fst (row_unmarshal O FUELJ (fst (parse_top_rv text)) (snd (parse_top_rv text)) new_row).

  Theorem inline_text_declared text ti to :
    of_inline_text O text = Ok (ti, to) ->
    let m := row_m (inline_row text) in
    let l := row_l (inline_row text) in
    Inv (inline_row text)
    /\ l = push_all [] (map fst (fst (parse_top_rv text)))
    /\ of_inline O FUELJ m l new_template new_template = Ok (ti, to).
  Proof.
    intros H. unfold of_inline_text in H. unfold inline_row.
    destruct (parse_top_rv text) as [ms ok]. cbn [fst snd].
    destruct (row_unmarshal O FUELJ ms ok new_row) as [r e] eqn:Er. cbn [fst].
    destruct e as [[]| | |]; cbn [bind] in H; try discriminate.
    unfold row_unmarshal in Er. destruct (unmarshal_members O FUELJ ms new_row) as [r' e'] eqn:Eu.
    destruct e' as [[]| | |]; try (injection Er as _ Er; discriminate).
    injection Er as <- _. destruct (unmarshal_members_l O FUELJ ms new_row r' Inv_new Eu) as [Hi Hl].
    destruct r' as [m l]. cbn [row_m row_l] in *. auto.
  Qed.

  (* ---------- 3. which columns are visible on output ---------- *)
  Lemma declared_fmt specs t s :
    declared true specs t -> NoDup (map spec_name specs) -> In s specs ->
    fmt_of t (spec_name s) = match s with SPlain _ _ o => fst (parse_descriptor o) | SRow _ _ => FAuto end.
  Proof.
    intros H Hnd Hs. destruct (declared_reading true specs t H Hnd) as [_ [_ H3]]. specialize (H3 s Hs).
    unfold fmt_of. destruct s as [n i o|n sub]; cbn [spec_name].
    - now rewrite H3.
    - destruct H3 as [st [r [_ [_ [H3 _]]]]]. now rewrite H3.
  Qed.

  Lemma declared_hidden specs t s :
    declared true specs t -> NoDup (map spec_name specs) -> In s specs ->
    format_eqb (fmt_of t (spec_name s)) FHidden = spec_hidden s.
  Proof. intros H Hnd Hs. rewrite (declared_fmt specs t s H Hnd Hs). destruct s; reflexivity. Qed.

  Lemma declared_fmt_undeclared out specs t k :
    declared out specs t -> ~ In k (map spec_name specs) -> fmt_of t k = FAuto.
  Proof.
    intros H Hk. destruct (declared_Inv _ _ _ H) as [_ Hin]. unfold fmt_of, get_value.
    destruct (alookup k (row_m t)) as [c|] eqn:E; [|reflexivity]. exfalso. apply Hk.
    assert (Hl : In k (row_l t)) by (apply Hin; unfold ahas; now rewrite E).
    rewrite (declared_l _ _ _ H) in Hl. apply push_all_In in Hl as [[]|Hl]. exact Hl.
  Qed.

  (* a column of the output template is hidden iff it is a plain column whose OUTPUT descriptor parses to
     hidden - whatever the input descriptor; a column that has columns is never hidden, whatever its
     output descriptor says (WithRow replaces the hidden value With stored) *)
  Theorem yaml_hidden_iff n cols ti to name i o sub :
    wf_cols cols -> of_yaml O n cols new_template new_template = Ok (ti, to) ->
    In (Col name i o sub) cols ->
    (fmt_of to name = FHidden <-> sub = [] /\ fst (parse_descriptor o) = FHidden).
  Proof.
    intros Hwf H Hin. destruct (yaml_declared _ _ _ _ H) as [_ Ho].
    pose proof (declared_fmt _ _ _ Ho (wf_cols_NoDup _ Hwf) (in_map yaml_spec1 _ _ Hin)) as Hf.
    rewrite yaml_spec1_name in Hf. cbn [col_name] in Hf. rewrite Hf.
    destruct sub as [|s1 sub']; cbn [yaml_spec1].
    - tauto.
    - split; [discriminate | intros [? _]; discriminate].
  Qed.

  Theorem inline_hidden_iff n m l ti to k :
    Inv (MkRow m l) -> of_inline O n m l new_template new_template = Ok (ti, to) ->
    (fmt_of to k = FHidden <->
     exists c desc, In k l /\ alookup k m = Some c /\ inline_kind c = Ok (IPlain desc)
                    /\ fst (parse_descriptor (desc_out desc)) = FHidden).
  Proof.
    intros Hinv H. destruct (inline_declares_in_order n m l ti to Hinv H) as [_ [Hl [Hn [_ Ho]]]].
    assert (Hnd : NoDup (map spec_name (inline_spec n m l))) by (rewrite Hn; apply NoDup_filter, (proj1 Hinv)).
    (* every declaration of inline_spec comes from a member *)
    assert (Hsrc : forall s, In s (inline_spec n m l) ->
              exists c, In (spec_name s) l /\ alookup (spec_name s) m = Some c /\
                match s with
                | SPlain _ _ o => exists desc, inline_kind c = Ok (IPlain desc) /\ o = desc_out desc
                | SRow _ _ => exists m2 l2, inline_kind c = Ok (ISub m2 l2)
                end).
    { clear. revert l. induction n as [|n IH]; intros l s; [intros []|].
      destruct l as [|k0 rest]; [intros []|]. cbn [inline_spec].
      destruct (alookup k0 m) as [c|] eqn:E; [|intros []].
      assert (Hrest : In s (inline_spec n m rest) ->
                exists c0, In (spec_name s) (k0 :: rest) /\ alookup (spec_name s) m = Some c0 /\
                  match s with
                  | SPlain _ _ o => exists desc, inline_kind c0 = Ok (IPlain desc) /\ o = desc_out desc
                  | SRow _ _ => exists m2 l2, inline_kind c0 = Ok (ISub m2 l2)
                  end).
      { intros Hs. destruct (IH rest s Hs) as [c0 [H1 H2]]. exists c0. split; [now right | exact H2]. }
      destruct (inline_kind c) as [[desc|m2 l2|]| | |] eqn:Ek; try exact Hrest.
      - intros [<-|Hs]; [|now apply Hrest]. exists c. cbn [spec_name]. split; [now left|]. split; [exact E|]. eauto.
      - intros [<-|Hs]; [|now apply Hrest]. exists c. cbn [spec_name]. split; [now left|]. split; [exact E|]. eauto. }
    split.
    - intros Hf. destruct (in_dec (list_eq_dec Z.eq_dec) k (map spec_name (inline_spec n m l))) as [Hk|Hk].
      + apply in_map_iff in Hk as [s [<- Hs]]. rewrite (declared_fmt _ _ _ Ho Hnd Hs) in Hf.
        destruct (Hsrc s Hs) as [c [H1 [H2 H3]]]. destruct s as [n0 i0 o0|n0 sub0]; [|discriminate].
        destruct H3 as [desc [H3 ->]]. exists c, desc. auto.
      + rewrite (declared_fmt_undeclared _ _ _ _ Ho Hk) in Hf. discriminate.
    - intros [c [desc [Hk [Hc [Hkind Hh]]]]].
      assert (Hd : In k (map spec_name (inline_spec n m l))).
      { rewrite Hn. apply filter_In. split; [exact Hk|]. unfold inline_declares. now rewrite Hc, Hkind. }
      apply in_map_iff in Hd as [s [<- Hs]]. rewrite (declared_fmt _ _ _ Ho Hnd Hs).
      destruct (Hsrc s Hs) as [c' [_ [H2 H3]]]. rewrite Hc in H2. injection H2 as <-.
      destruct s as [n0 i0 o0|n0 sub0].
      + destruct H3 as [desc' [H3 ->]]. rewrite Hkind in H3. injection H3 as <-. exact Hh.
      + destruct H3 as [m2 [l2 H3]]. rewrite Hkind in H3. discriminate.
  Qed.

  (* ---------- 4. the command: every emitted line ---------- *)
  Context (jfloat : bool -> Z -> option str) (jother : Z -> option str).

  (* what the definition declares: row.yml's columns, replaced entirely by the inline template when one is given *)
  Definition jl_specs (file : list coldef) (inline : str) : list cspec :=
    if str_eqb inline [] || str_eqb inline [123; 125] then yaml_spec file
    else inline_spec FUELJ (row_m (inline_row inline)) (row_l (inline_row inline)).

  Lemma inline_text_specs text ti to :
    of_inline_text O text = Ok (ti, to) ->
    let specs := inline_spec FUELJ (row_m (inline_row text)) (row_l (inline_row text)) in
    declared false specs ti /\ declared true specs to /\ NoDup (map spec_name specs).
  Proof.
    intros H. destruct (inline_text_declared text ti to H) as [Hi [_ Ht]]. cbv zeta in *.
    generalize dependent (inline_row text). intros [m l] Hi Ht. cbn [row_m row_l] in *.
    destruct (inline_declares_in_order _ _ _ _ _ Hi Ht) as [_ [_ [Hn [H1 H2]]]].
    split; [exact H1|]. split; [exact H2|]. rewrite Hn. apply NoDup_filter, (proj1 Hi).
  Qed.

  Lemma create_template_inv file inline t :
    create_template O file inline = Ok t ->
    exists f, of_yaml O FUELJ file new_template new_template = Ok f
      /\ if str_eqb inline [] || str_eqb inline [123; 125] then t = f else of_inline_text O inline = Ok t.
  Proof.
    unfold create_template.
    destruct (of_yaml O FUELJ file new_template new_template) as [f| | |]; cbn [bind]; try discriminate.
    intros H. exists f. split; [reflexivity|].
    destruct (str_eqb inline [] || str_eqb inline [123; 125]); [now injection H as <- | exact H].
  Qed.

  Theorem create_template_declared file inline ti to :
    wf_cols file -> create_template O file inline = Ok (ti, to) ->
    declared false (jl_specs file inline) ti /\ declared true (jl_specs file inline) to
    /\ NoDup (map spec_name (jl_specs file inline)).
  Proof.
    intros Hwf H. apply create_template_inv in H as [[fi fo] [Hf H]]. unfold jl_specs.
    destruct (str_eqb inline [] || str_eqb inline [123; 125]).
    - injection H as -> ->. destruct (yaml_declared _ _ _ _ Hf) as [H1 H2].
      split; [exact H1|]. split; [exact H2 | now apply wf_cols_NoDup].
    - exact (inline_text_specs inline ti to H).
  Qed.

  (* the visible columns of the definition, in definition order *)
  Definition visible_names (specs : list cspec) : list str :=
    map spec_name (filter (fun s => negb (spec_hidden s)) specs).

  Lemma emitted_declared specs to ks :
    declared true specs to -> NoDup (map spec_name specs) ->
    filter (fun k => negb (format_eqb (fmt_of to k) FHidden))
           (map spec_name specs ++ first_new (map spec_name specs) ks)
    = visible_names specs ++ first_new (map spec_name specs) ks.
  Proof.
    intros H Hnd. rewrite filter_app. unfold visible_names. f_equal.
    - apply filter_map_in. intros s Hs. now rewrite (declared_hidden _ _ _ H Hnd Hs).
    - apply filter_all. intros k Hk. apply first_new_spec in Hk as [_ Hk].
      now rewrite (declared_fmt_undeclared _ _ _ _ H Hk).
  Qed.

  (* instance of TemplatePipeline.pipeline_members (C03_toplevel_order) for a pair of templates
     built from one definition *)
  Theorem declared_pipeline_order specs ti to line o :
    declared false specs ti -> declared true specs to -> NoDup (map spec_name specs) ->
    jl_pipeline O jfloat jother FUELJ ti to line = Ok o ->
    exists vs,
      let emitted := visible_names specs ++ first_new (map spec_name specs) (map fst (fst (parse_top line))) in
      o = [123] ++ join_with [44] (map (fun kv => encode_string (fst kv) ++ [58] ++ snd kv) (combine emitted vs)) ++ [125] ++ [10]
      /\ length vs = length emitted.
  Proof.
    intros Hi Ho Hnd H. change FUELJ with (S (S (S 45))) in H.
    destruct (pipeline_members O jfloat jother 45 ti to line o (declared_Inv _ _ _ Hi) (declared_Inv _ _ _ Ho) H)
      as [vs [H1 H2]].
    exists vs. cbv zeta in *.
    destruct (declared_reading false specs ti Hi Hnd) as [_ [Hli _]].
    destruct (declared_reading true specs to Ho Hnd) as [_ [Hlo _]].
    rewrite Hli, Hlo, push_all_twice, push_all_first_new, (emitted_declared specs to _ Ho Hnd) in H1, H2.
    split; [exact H1 | exact (Forall2_len _ _ _ H2)].
  Qed.

  (* each declared plain column the line does not mention is written as null (a declared sub-row the
     line does not mention is NOT: it is written as the object of its columns, e.g. "sub":{"y":null,"z":null}) *)
  Theorem declared_pipeline_null specs ti to line o :
    declared false specs ti -> declared true specs to -> NoDup (map spec_name specs) ->
    jl_pipeline O jfloat jother FUELJ ti to line = Ok o ->
    exists vs,
      let emitted := visible_names specs ++ first_new (map spec_name specs) (map fst (fst (parse_top line))) in
      o = [123] ++ join_with [44] (map (fun kv => encode_string (fst kv) ++ [58] ++ snd kv) (combine emitted vs)) ++ [125] ++ [10]
      /\ Forall2 (fun k v => (exists i d, In (SPlain k i d) specs) ->
                             ~ In k (map fst (fst (parse_top line))) -> v = s_null) emitted vs.
  Proof.
    intros Hi Ho Hnd H. change FUELJ with (S (S (S 45))) in H.
    destruct (pipeline_absent_null O jfloat jother 45 ti to line o (declared_Inv _ _ _ Hi) (declared_Inv _ _ _ Ho) H)
      as [vs [H1 H2]].
    exists vs. cbv zeta in *.
    destruct (declared_reading false specs ti Hi Hnd) as [_ [Hli Hci]].
    destruct (declared_reading true specs to Ho Hnd) as [_ [Hlo Hco]].
    rewrite Hli, Hlo, push_all_twice, push_all_first_new, (emitted_declared specs to _ Ho Hnd) in H1, H2.
    split; [exact H1|]. eapply Forall2_weaken; [|exact H2].
    intros k v Hv [i [d Hs]] Hab. apply Hv; [exact Hab | |].
    - specialize (Hci _ Hs). cbn in Hci. unfold plain_cell in Hci. eauto.
    - specialize (Hco _ Hs). cbn in Hco. unfold plain_cell in Hco. eauto.
  Qed.

  Lemma run_lines_concat ti to lines :
    run_lines O jfloat jother ti to lines
    = concat (map (fun line => match jl_pipeline O jfloat jother FUELJ ti to line with Ok o => o | _ => [] end) lines).
  Proof.
    induction lines as [|line rest IH]; [reflexivity|]. cbn [run_lines map concat]. rewrite <- IH.
    destruct (jl_pipeline O jfloat jother FUELJ ti to line); reflexivity.
  Qed.

  Lemma jl_run_inv file inline lines out :
    jl_run O jfloat jother file inline lines = Ok out ->
    exists ti to, create_template O file inline = Ok (ti, to) /\ out = run_lines O jfloat jother ti to lines.
  Proof.
    unfold jl_run. destruct (create_template O file inline) as [[ti to]| | |]; cbn [bind fst snd]; try discriminate.
    intros [= <-]. exists ti, to. split; reflexivity.
  Qed.

  Theorem jl_run_order file inline lines out :
    wf_cols file -> jl_run O jfloat jother file inline lines = Ok out ->
    exists ti to,
      let specs := jl_specs file inline in
      create_template O file inline = Ok (ti, to)
      /\ NoDup (map spec_name specs)
      /\ row_l ti = map spec_name specs /\ row_l to = map spec_name specs
      /\ out = concat (map (fun line => match jl_pipeline O jfloat jother FUELJ ti to line with Ok o => o | _ => [] end) lines)
      /\ forall line o, jl_pipeline O jfloat jother FUELJ ti to line = Ok o ->
           exists vs,
             let emitted := visible_names specs ++ first_new (map spec_name specs) (map fst (fst (parse_top line))) in
             o = [123] ++ join_with [44] (map (fun kv => encode_string (fst kv) ++ [58] ++ snd kv) (combine emitted vs)) ++ [125] ++ [10]
             /\ length vs = length emitted.
  Proof.
    intros Hwf H. apply jl_run_inv in H as [ti [to [Hc ->]]].
    destruct (create_template_declared file inline ti to Hwf Hc) as [Hi [Ho Hnd]].
    exists ti, to. cbv zeta. split; [exact Hc|]. split; [exact Hnd|].
    split; [apply (declared_reading false _ _ Hi Hnd)|]. split; [apply (declared_reading true _ _ Ho Hnd)|].
    split; [apply run_lines_concat|].
    intros line o Hp. exact (declared_pipeline_order _ ti to line o Hi Ho Hnd Hp).
  Qed.

  Theorem jl_absent_null file inline ti to line o :
    wf_cols file -> create_template O file inline = Ok (ti, to) ->
    jl_pipeline O jfloat jother FUELJ ti to line = Ok o ->
    exists vs,
      let specs := jl_specs file inline in
      let emitted := visible_names specs ++ first_new (map spec_name specs) (map fst (fst (parse_top line))) in
      o = [123] ++ join_with [44] (map (fun kv => encode_string (fst kv) ++ [58] ++ snd kv) (combine emitted vs)) ++ [125] ++ [10]
      /\ Forall2 (fun k v => (exists i d, In (SPlain k i d) specs) ->
                             ~ In k (map fst (fst (parse_top line))) -> v = s_null) emitted vs.
  Proof.
    intros Hwf Hc Hp. destruct (create_template_declared file inline ti to Hwf Hc) as [Hi [Ho Hnd]].
    exact (declared_pipeline_null _ ti to line o Hi Ho Hnd Hp).
  Qed.
End Declared.
