(* Infrastructure for the proofs about the Decoder.Token model: whitespace, scalars, one-step
   inversion of gtoken, fuel independence of gtok_run, and the identification of the
   strict = false machine with the functions of GoJson.v. *)
From Coq Require Import ZArith List Bool Lia.
From JL.std Require Import GoBase GoStrconv GoJsonNum GoJson GoJsonStrict.
From JL.proofs Require Import JsonUtf8 JsonNumber JsonStr.
Import ListNotations.
Open Scope Z_scope.

(* ---------- whitespace ---------- *)

Lemma is_ws_iff c : is_ws c = true <-> c = 32 \/ c = 9 \/ c = 10 \/ c = 13.
Proof.
  unfold is_ws. rewrite !orb_true_iff, !Z.eqb_eq. tauto.
Qed.

Lemma ws_skip s : ws s (skip_ws s).
Proof.
  induction s as [|c s IH]; cbn [skip_ws]; [constructor|].
  destruct (is_ws c) eqn:E; [|constructor].
  apply ws_cons; [apply is_ws_iff in E; tauto|exact IH].
Qed.

Definition nows_head (s : str) : Prop := match s with [] => True | c :: _ => is_ws c = false end.

Lemma skip_ws_ws s s' : ws s s' -> nows_head s' -> skip_ws s = s'.
Proof.
  induction 1 as [s|c s s' Hc Hw IH]; intros Hh.
  - destruct s as [|c s]; [reflexivity|]. cbn in *. rewrite Hh. reflexivity.
  - cbn [skip_ws]. assert (E : is_ws c = true) by (apply is_ws_iff; tauto). rewrite E. auto.
Qed.

Lemma skip_ws_head s : nows_head (skip_ws s).
Proof.
  induction s as [|c s IH]; cbn [skip_ws]; [exact I|].
  destruct (is_ws c) eqn:E; [exact IH|exact E].
Qed.

Lemma skip_ws_length s : (length (skip_ws s) <= length s)%nat.
Proof.
  induction s as [|c s IH]; cbn [skip_ws length]; [lia|].
  destruct (is_ws c); cbn [length]; lia.
Qed.

Lemma skip_ws_nows s : nows_head s -> skip_ws s = s.
Proof. destruct s as [|c s]; cbn; [reflexivity|]. intros ->. reflexivity. Qed.

Lemma ws_trans a b c : ws a b -> ws b c -> ws a c.
Proof. induction 1; auto. intros. apply ws_cons; auto. Qed.

(* ---------- follow set of a value ---------- *)

Definition vfollow (r : str) : Prop :=
  match r with [] => True | c :: _ => c = 32 \/ c = 9 \/ c = 10 \/ c = 13 \/ c = 44 \/ c = 93 \/ c = 125 end.

Lemma vfollow_num r : vfollow r -> num_follow r.
Proof.
  destruct r as [|c r]; cbn; [auto|].
  intros [->|[->|[->|[->|[->|[-> | ->]]]]]]; reflexivity.
Qed.

Lemma ws_vfollow s c r : ws s (c :: r) -> c = 44 \/ c = 93 \/ c = 125 -> vfollow s.
Proof.
  intros H Hc. inversion H; subst; cbn; tauto.
Qed.

Lemma ws_nil_vfollow s : ws s [] -> vfollow s.
Proof. intros H. inversion H; subst; cbn; tauto. Qed.

(* ---------- scalars ---------- *)

Lemma gscan_scalar_false s : gscan_scalar false s = scan_scalar s.
Proof.
  destruct s as [|c r]; [reflexivity|]. cbn [gscan_scalar scan_scalar].
  destruct (c =? 34); [|reflexivity]. rewrite gscan_str_false. reflexivity.
Qed.

(* the grammar value a scalar token denotes *)
Definition tok_val (t : tok) : jv :=
  match t with
  | TStr s => JStr s | TNum n => JNum n | TBool b => JBool b | TNull => JNull
  | TDelim _ => JNull
  end.

Definition is_delim (t : tok) : bool := match t with TDelim _ => true | _ => false end.

Lemma scan_scalar_sound_nostr c s t r :
  c <> 34 -> scan_scalar (c :: s) = Some (t, r) ->
  is_delim t = false /\ jvalue (c :: s) (tok_val t) r /\ (length r < length (c :: s))%nat.
Proof.
  intros Hc H. cbn [scan_scalar] in H.
  destruct (Z.eqb_spec c 34); [contradiction|].
  destruct (Z.eqb_spec c 116).
  { subst. destruct s as [|a [|b [|c2 r']]]; try discriminate.
    destruct (Z.eqb_spec a 114); [|discriminate]. destruct (Z.eqb_spec b 117); [|discriminate].
    destruct (Z.eqb_spec c2 101); [|discriminate]. cbn in H. inversion H; subst.
    split; [reflexivity|split; [apply V_true | cbn [length]; unfold byte in *; lia]]. }
  destruct (Z.eqb_spec c 102).
  { subst. destruct s as [|a [|b [|c2 [|d r']]]]; try discriminate.
    destruct (Z.eqb_spec a 97); [|discriminate]. destruct (Z.eqb_spec b 108); [|discriminate].
    destruct (Z.eqb_spec c2 115); [|discriminate]. destruct (Z.eqb_spec d 101); [|discriminate].
    cbn in H. inversion H; subst. split; [reflexivity|split; [apply V_false | cbn [length]; unfold byte in *; lia]]. }
  destruct (Z.eqb_spec c 110).
  { subst. destruct s as [|a [|b [|c2 r']]]; try discriminate.
    destruct (Z.eqb_spec a 117); [|discriminate]. destruct (Z.eqb_spec b 108); [|discriminate].
    destruct (Z.eqb_spec c2 108); [|discriminate]. cbn in H. inversion H; subst.
    split; [reflexivity|split; [apply V_null | cbn [length]; unfold byte in *; lia]]. }
  destruct ((c =? 45) || is_digit c); [|discriminate].
  destruct (scan_number (c :: s)) as [[lit r']|] eqn:E; [|discriminate].
  inversion H; subst. apply scan_number_sound in E as [Hn Hs].
  split; [reflexivity|]. split.
  - cbn [tok_val]. rewrite Hs. constructor. exact Hn.
  - destruct (jnumber_head _ Hn) as (c0 & r0 & -> & _). rewrite Hs. cbn [app length]. rewrite app_length. lia.
Qed.

Lemma gscan_scalar_sound s t r :
  gscan_scalar true s = Some (t, r) ->
  is_delim t = false /\ jvalue s (tok_val t) r.
Proof.
  destruct s as [|c s]; [discriminate|]. cbn [gscan_scalar].
  destruct (Z.eqb_spec c 34).
  - subst. destruct (gscan_str true (length s) s) as [[x r']|] eqn:E; [|discriminate].
    intros H; inversion H; subst. split; [reflexivity|]. cbn [tok_val]. constructor.
    eapply gscan_str_sound; eauto.
  - intros H. destruct (scan_scalar_sound_nostr c s t r n H) as (A & B & _). auto.
Qed.

Lemma gscan_scalar_rest strict s t r : gscan_scalar strict s = Some (t, r) -> (length r < length s)%nat.
Proof.
  destruct s as [|c s]; [discriminate|]. cbn [gscan_scalar].
  destruct (Z.eqb_spec c 34).
  - destruct (gscan_str strict (length s) s) as [[x r']|] eqn:E; [|discriminate].
    intros H; inversion H; subst. apply gscan_str_rest in E. cbn [length]. lia.
  - intros H. destruct (scan_scalar_sound_nostr c s t r n H) as (_ & _ & L). exact L.
Qed.

Lemma gscan_scalar_nodelim strict s t r : gscan_scalar strict s = Some (t, r) -> is_delim t = false.
Proof.
  destruct s as [|c s]; [discriminate|]. cbn [gscan_scalar].
  destruct (Z.eqb_spec c 34).
  - destruct (gscan_str strict (length s) s) as [[x r']|]; [|discriminate].
    intros H; inversion H; reflexivity.
  - intros H. destruct (scan_scalar_sound_nostr c s t r n H) as (A & _ & _). exact A.
Qed.

Lemma gscan_scalar_lenient s t r : gscan_scalar true s = Some (t, r) -> gscan_scalar false s = Some (t, r).
Proof.
  destruct s as [|c s]; [discriminate|]. cbn [gscan_scalar].
  destruct (c =? 34); [|auto].
  destruct (gscan_str true (length s) s) as [[x r']|] eqn:E; [|discriminate].
  apply gscan_str_lenient in E. rewrite E. auto.
Qed.

(* the first byte of a value *)
Definition vhead (c : Z) : Prop :=
  c = 110 \/ c = 116 \/ c = 102 \/ c = 34 \/ c = 91 \/ c = 123 \/ c = 45 \/ 48 <= c <= 57.

Lemma jvalue_head s v r : jvalue s v r -> exists c s', s = c :: s' /\ vhead c.
Proof.
  unfold vhead. destruct 1; try (eexists; eexists; split; [reflexivity|]; tauto).
  destruct (jnumber_head _ H) as (c & r0 & -> & Hc). exists c, (r0 ++ r). split; [reflexivity|].
  destruct Hc as [->|Hd]; [tauto|]. unfold is_digit in Hd. apply andb_true_iff in Hd as [A B].
  apply Z.leb_le in A, B. tauto.
Qed.

Lemma vhead_nows c : vhead c -> is_ws c = false.
Proof.
  unfold vhead, is_ws. intros H.
  repeat (match goal with |- context[?a =? ?b] => destruct (Z.eqb_spec a b) end; try lia); reflexivity.
Qed.

(* scalars of the grammar are read back, whatever the strictness *)
Lemma gscan_scalar_complete strict s v r :
  jvalue s v r -> vfollow r ->
  match v with JArr _ | JObj _ => True
  | _ => exists t, gscan_scalar strict s = Some (t, r) /\ tok_val t = v /\ is_delim t = false
  end.
Proof.
  intros H Hf. destruct H; try exact I.
  - exists TNull. repeat split.
  - exists (TBool true). repeat split.
  - exists (TBool false). repeat split.
  - exists (TNum lit). split; [|split; reflexivity].
    destruct (jnumber_head _ H) as (c & r0 & E & Hc).
    pose proof (scan_number_complete lit r H (vfollow_num _ Hf)) as Hs.
    subst lit. cbn [app] in *. cbn [gscan_scalar scan_scalar].
    assert (Hd : (c =? 45) || is_digit c = true) by (destruct Hc as [-> | ->]; [reflexivity|apply orb_true_r]).
    assert (N : c <> 34 /\ c <> 116 /\ c <> 102 /\ c <> 110).
    { destruct Hc as [->|Hd']; [lia|]. unfold is_digit in Hd'. apply andb_true_iff in Hd' as [A B].
      apply Z.leb_le in A, B. lia. }
    destruct (Z.eqb_spec c 34); [lia|]. destruct (Z.eqb_spec c 116); [lia|].
    destruct (Z.eqb_spec c 102); [lia|]. destruct (Z.eqb_spec c 110); [lia|].
    rewrite Hd, Hs. reflexivity.
  - exists (TStr x). split; [|split; reflexivity]. cbn [gscan_scalar]. rewrite Z.eqb_refl.
    match goal with |- context[gscan_str strict ?f s] => rewrite (gscan_str_complete _ _ _ H strict f) by apply Nat.le_refl end. reflexivity.
Qed.

(* ---------- one call of Token ---------- *)

Lemma gtoken_nosep_false st stk s : gtoken_nosep false st stk s = token_nosep st stk s.
Proof.
  destruct s as [|c r]; [reflexivity|]. unfold gtoken_nosep, token_nosep.
  rewrite !gscan_scalar_false. reflexivity.
Qed.

Lemma gtoken_false st stk s : gtoken false st stk s = token st stk s.
Proof.
  unfold gtoken, token. destruct (skip_ws s) as [|c r]; [reflexivity|].
  rewrite !gtoken_nosep_false. reflexivity.
Qed.

Lemma gtok_run_false f st stk s : gtok_run false f st stk s = tok_run f st stk s.
Proof.
  revert st stk s. induction f as [|f IH]; intros; [reflexivity|].
  cbn [gtok_run tok_run]. rewrite gtoken_false. destruct (token st stk s); try reflexivity.
  rewrite IH. reflexivity.
Qed.

Lemma gtokenize_false s : gtokenize false s = tokenize s.
Proof. apply gtok_run_false. Qed.

Lemma gparse_top_false s : gparse_top false s = parse_top s.
Proof. unfold gparse_top, parse_top. rewrite gtokenize_false. reflexivity. Qed.

Definition key_state (st : tstate) : bool := match st with ObjectStart | ObjectKey => true | _ => false end.
Definition arr_close_state (st : tstate) : bool := match st with ArrayStart | ArrayComma => true | _ => false end.
Definition obj_close_state (st : tstate) : bool := match st with ObjectStart | ObjectComma => true | _ => false end.

(* all the ways gtoken_nosep returns a token *)
Lemma gtoken_nosep_inv strict st stk p t st1 stk1 s1 :
  gtoken_nosep strict st stk p = RTok t st1 stk1 s1 ->
  (p = 91 :: s1 /\ t = TDelim 91 /\ value_allowed st = true /\ st1 = ArrayStart /\ stk1 = st :: stk)
  \/ (p = 93 :: s1 /\ t = TDelim 93 /\ arr_close_state st = true /\ exists q, stk = q :: stk1 /\ st1 = value_end q)
  \/ (p = 123 :: s1 /\ t = TDelim 123 /\ value_allowed st = true /\ st1 = ObjectStart /\ stk1 = st :: stk)
  \/ (p = 125 :: s1 /\ t = TDelim 125 /\ obj_close_state st = true /\ exists q, stk = q :: stk1 /\ st1 = value_end q)
  \/ (key_state st = true /\ (exists p', p = 34 :: p') /\ gscan_scalar strict p = Some (t, s1) /\ st1 = ObjectColon /\ stk1 = stk)
  \/ (value_allowed st = true /\ gscan_scalar strict p = Some (t, s1) /\ st1 = value_end st /\ stk1 = stk).
Proof.
  destruct p as [|c r]; [discriminate|]. unfold gtoken_nosep.
  destruct (Z.eqb_spec c 91).
  { subst. destruct (value_allowed st) eqn:V; [|discriminate]. intros H; inversion H; subst. left. auto. }
  destruct (Z.eqb_spec c 93).
  { subst. intros H. right; left.
    destruct st; try discriminate; destruct stk as [|q stk']; try discriminate; inversion H; subst;
      (repeat split; eauto). }
  destruct (Z.eqb_spec c 123).
  { subst. destruct (value_allowed st) eqn:V; [|discriminate]. intros H; inversion H; subst. right; right; left. auto. }
  destruct (Z.eqb_spec c 125).
  { subst. intros H. right; right; right; left.
    destruct st; try discriminate; destruct stk as [|q stk']; try discriminate; inversion H; subst;
      (repeat split; eauto). }
  destruct ((c =? 58) || (c =? 44)); [discriminate|].
  destruct (Z.eqb_spec c 34).
  { subst. cbn [andb]. fold (key_state st). destruct (key_state st) eqn:K.
    - match goal with |- context[gscan_scalar ?a ?b] => destruct (gscan_scalar a b) as [[t' r']|] eqn:E end; [|intros HH; discriminate HH].
      intros H; inversion H; subst. right; right; right; right; left. repeat split; eauto.
    - destruct (value_allowed st) eqn:V; [|intros HH; discriminate HH].
      match goal with |- context[gscan_scalar ?a ?b] => destruct (gscan_scalar a b) as [[t' r']|] eqn:E end; [|intros HH; discriminate HH].
      intros H; inversion H; subst. right; right; right; right; right. auto. }
  cbn [andb]. destruct (value_allowed st) eqn:V; [|intros HH; discriminate HH].
  match goal with |- context[gscan_scalar ?a ?b] => destruct (gscan_scalar a b) as [[t' r']|] eqn:E end; [|intros HH; discriminate HH].
  intros H; inversion H; subst. right; right; right; right; right. auto.
Qed.

(* how gtoken gets to gtoken_nosep *)
Lemma gtoken_inv strict st stk s t st1 stk1 s1 :
  gtoken strict st stk s = RTok t st1 stk1 s1 ->
  exists p st',
    gtoken_nosep strict st' stk p = RTok t st1 stk1 s1 /\
    ((p = skip_ws s /\ st' = st /\ (forall r0, p <> 58 :: r0) /\ (forall r0, p <> 44 :: r0))
     \/ (exists r0, skip_ws s = 58 :: r0 /\ p = skip_ws r0 /\ st = ObjectColon /\ st' = ObjectValue)
     \/ (exists r0, skip_ws s = 44 :: r0 /\ p = skip_ws r0 /\
                    ((st = ArrayComma /\ st' = ArrayValue) \/ (st = ObjectComma /\ st' = ObjectKey)))).
Proof.
  unfold gtoken. destruct (skip_ws s) as [|c r] eqn:E; [discriminate|].
  destruct (Z.eqb_spec c 58).
  { subst. destruct st; try discriminate. intros H. exists (skip_ws r), ObjectValue. split; [exact H|].
    right; left. eauto. }
  destruct (Z.eqb_spec c 44).
  { subst. destruct st; try discriminate; intros H.
    - exists (skip_ws r), ArrayValue. split; [exact H|]. right; right. eauto 8.
    - exists (skip_ws r), ObjectKey. split; [exact H|]. right; right. eauto 8. }
  intros H. exists (c :: r), st. split; [exact H|]. left. repeat split; auto; intros r0 E0; inversion E0; lia.
Qed.

Lemma gtoken_nosep_rest strict st stk p t st1 stk1 s1 :
  gtoken_nosep strict st stk p = RTok t st1 stk1 s1 -> (length s1 < length p)%nat.
Proof.
  intros H. apply gtoken_nosep_inv in H.
  destruct H as [(-> & _)|[(-> & _)|[(-> & _)|[(-> & _)|[(_ & _ & E & _)|(_ & E & _)]]]]];
    try (cbn [length]; lia); eapply gscan_scalar_rest; eauto.
Qed.

Lemma gtoken_rest strict st stk s t st1 stk1 s1 :
  gtoken strict st stk s = RTok t st1 stk1 s1 -> (length s1 < length s)%nat.
Proof.
  intros H. apply gtoken_inv in H as (p & st' & H & Hp). apply gtoken_nosep_rest in H.
  pose proof (skip_ws_length s).
  destruct Hp as [(-> & _)|[(r0 & E & -> & _)|(r0 & E & -> & _)]]; try lia;
    pose proof (skip_ws_length r0); rewrite E in *; cbn [length] in *; lia.
Qed.

(* when the next non-space byte starts a value, gtoken is gtoken_nosep there *)
Lemma gtoken_at_value strict st stk s c r :
  skip_ws s = c :: r -> c <> 58 -> c <> 44 -> gtoken strict st stk s = gtoken_nosep strict st stk (c :: r).
Proof.
  intros E A B. unfold gtoken. rewrite E.
  destruct (Z.eqb_spec c 58); [lia|]. destruct (Z.eqb_spec c 44); [lia|]. reflexivity.
Qed.

(* ---------- the whole run, without fuel ---------- *)

Lemma gtok_run_fuel strict f1 : forall f2 st stk s,
  (length s < f1)%nat -> (length s < f2)%nat -> gtok_run strict f1 st stk s = gtok_run strict f2 st stk s.
Proof.
  induction f1 as [|f1 IH]; intros f2 st stk s H1 H2; [lia|].
  destruct f2 as [|f2]; [lia|]. cbn [gtok_run].
  destruct (gtoken strict st stk s) as [t st' stk' r| |] eqn:E; try reflexivity.
  apply gtoken_rest in E. rewrite (IH f2) by lia. reflexivity.
Qed.

Definition gtoks (strict : bool) (st : tstate) (stk : list tstate) (s : str) : list tok * bool :=
  gtok_run strict (S (length s)) st stk s.

Lemma gtoks_unfold strict st stk s :
  gtoks strict st stk s =
  match gtoken strict st stk s with
  | RTok t st' stk' r => let (l, b) := gtoks strict st' stk' r in (t :: l, b)
  | REof => ([], true)
  | RErr => ([], false)
  end.
Proof.
  unfold gtoks. cbn [gtok_run].
  destruct (gtoken strict st stk s) as [t st' stk' r| |] eqn:E; try reflexivity.
  apply gtoken_rest in E. rewrite (gtok_run_fuel strict (length s) (S (length r))) by lia. reflexivity.
Qed.

Lemma gtokenize_gtoks strict s : gtokenize strict s = gtoks strict TopValue [] s.
Proof. reflexivity. Qed.

(* tok_run never runs out of fuel: with any fuel above the input length the result is the same,
   so the `([], false)` of the out-of-fuel branch is never what tokenize returns *)
Lemma tok_run_fuel f1 f2 st stk s :
  (length s < f1)%nat -> (length s < f2)%nat -> tok_run f1 st stk s = tok_run f2 st stk s.
Proof. intros. rewrite <- !gtok_run_false. apply gtok_run_fuel; auto. Qed.
